(** Proofs about the scanner model: with splitfunc and a buffer of exactly [bs] bytes the
    tokens are the blocks of the input, for every chunking of the input. *)
From Wharf Require Import Base.Prelude Base.BlocksLemmas Sig.Scan.

Section ScanProofs.
  Context {A : Type}.
  Variable maxE : nat.

  (** no more than [maxE] consecutive empty chunks ((0, nil) reads); [budget] = how many more
      the current run may contain *)
  Fixpoint runs_ok (budget : nat) (chunks : list (list A)) : Prop :=
    match chunks with
    | [] => True
    | [] :: r => match budget with O => False | S b => runs_ok b r end
    | (_ :: _) :: r => runs_ok maxE r
    end.

  Lemma runs_ok_nonempty_head k c r : c <> [] -> runs_ok k (c :: r) = runs_ok maxE r.
  Proof. destruct c; [congruence|reflexivity]. Qed.

  (** one Read *)
  Lemma rd_read_nil space (rd : reader A) : rchunks rd = [] -> rd_read space rd = ([], Some REof, rd).
  Proof. intros E. unfold rd_read. rewrite E. reflexivity. Qed.

  Lemma rd_read_empty space (rd : reader A) r : rchunks rd = [] :: r -> rd_read space rd = ([], None, mkrd r (reof rd)).
  Proof. intros E. unfold rd_read. rewrite E. reflexivity. Qed.

  Lemma rd_read_data space (rd : reader A) c r :
    rchunks rd = c :: r -> c <> [] -> 0 < space ->
    exists d e rd', rd_read space rd = (d, e, rd') /\ d <> [] /\ length d <= space /\
      d ++ concat (rchunks rd') = concat (rchunks rd) /\ reof rd' = reof rd /\
      length (rchunks rd') <= length (rchunks rd) /\
      ((e = None /\ (runs_ok maxE r -> runs_ok maxE (rchunks rd')) /\
        (Forall (fun c : list A => c <> []) r -> Forall (fun c : list A => c <> []) (rchunks rd'))) \/
       (e = Some REof /\ rchunks rd' = [])).
  Proof.
    intros E Hc Hs. unfold rd_read. rewrite E. destruct c as [|x c']; [congruence|].
    set (c := x :: c') in *. set (n := Nat.min space (length c)).
    assert (Hn : 1 <= n <= space) by (unfold n, c; cbn [length]; lia).
    assert (Hd : firstn n c <> []).
    { intros F. apply (f_equal (@length A)) in F. rewrite firstn_length in F. unfold c in F. cbn [length] in F. lia. }
    assert (Hl : length (firstn n c) <= space) by (rewrite firstn_length; lia).
    destruct (skipn n c) as [|y rest] eqn:Esk.
    - assert (Hall : firstn n c = c).
      { rewrite <- (firstn_skipn n c) at 2. rewrite Esk, app_nil_r. reflexivity. }
      destruct r as [|c2 r2].
      + exists (firstn n c), (if reof rd then Some REof else None), (mkrd [] (reof rd)).
        cbn [rchunks reof concat length].
        split; [reflexivity|]. split; [exact Hd|]. split; [exact Hl|].
        split; [rewrite Hall, !app_nil_r; reflexivity|]. split; [reflexivity|]. split; [lia|].
        destruct (reof rd); [right; split; reflexivity|left; split; [reflexivity|split; [intros _; exact I|intros _; constructor]]].
      + exists (firstn n c), None, (mkrd (c2 :: r2) (reof rd)).
        cbn [rchunks reof concat length].
        split; [reflexivity|]. split; [exact Hd|]. split; [exact Hl|].
        split; [rewrite Hall; reflexivity|]. split; [reflexivity|]. split; [lia|].
        left. split; [reflexivity|split; intros X; exact X].
    - exists (firstn n c), None, (mkrd ((y :: rest) :: r) (reof rd)).
      cbn [rchunks reof concat length].
      split; [reflexivity|]. split; [exact Hd|]. split; [exact Hl|].
      split; [rewrite <- Esk, app_assoc, firstn_skipn; reflexivity|]. split; [reflexivity|]. split; [lia|].
      left. split; [reflexivity|split; [intros X; exact X|intros X; constructor; [discriminate|exact X]]].
  Qed.

  Lemma read_loop_unfold k space (rd : reader A) :
    read_loop k space rd =
    let '(d, e, rd') := rd_read space rd in
    match e with
    | Some e' => (d, Some e', rd')
    | None => match d with
              | _ :: _ => (d, None, rd')
              | [] => match k with
                      | O => ([], Some (RErr ErrNoProgress), rd')
                      | S k' => read_loop k' space rd'
                      end
              end
    end.
  Proof. destruct k; reflexivity. Qed.

  (** the read loop of Scan: it delivers some bytes, or the end of the input; never
      ErrNoProgress when the runs of empty reads are short enough *)
  Lemma read_loop_spec k : forall space (rd : reader A),
    0 < space -> runs_ok k (rchunks rd) ->
    exists d e rd', read_loop k space rd = (d, e, rd') /\ length d <= space /\
      d ++ concat (rchunks rd') = concat (rchunks rd) /\
      length (rchunks rd') <= length (rchunks rd) /\
      ((d <> [] /\ e = None /\ runs_ok maxE (rchunks rd')) \/ (e = Some REof /\ rchunks rd' = [])).
  Proof.
    induction k as [|k IH]; intros space rd Hs Hr; rewrite read_loop_unfold;
      destruct (rchunks rd) as [|c r] eqn:E.
    - rewrite (rd_read_nil _ _ E). exists [], (Some REof), rd. rewrite E. cbn.
      repeat split; try lia. right. split; reflexivity.
    - destruct c as [|x c'].
      + cbn [runs_ok] in Hr. contradiction.
      + destruct (rd_read_data space rd (x :: c') r E ltac:(congruence) Hs) as (d & e & rd' & Hrd & Hd & Hl & Hc & _ & Hn & Hcase).
        rewrite Hrd. rewrite E in Hc, Hn. cbn [runs_ok] in Hr.
        destruct Hcase as [[He [Hro _]]|[He Hnil]]; subst e.
        * destruct d as [|y d']; [congruence|]. exists (y :: d'), None, rd'.
          repeat split; try assumption. left. repeat split; [congruence|]. apply Hro. exact Hr.
        * exists d, (Some REof), rd'. repeat split; try assumption. right. split; [reflexivity|assumption].
    - rewrite (rd_read_nil _ _ E). exists [], (Some REof), rd. rewrite E. cbn.
      repeat split; try lia. right. split; reflexivity.
    - destruct c as [|x c'].
      + cbn [runs_ok] in Hr. rewrite (rd_read_empty _ _ _ E).
        destruct (IH space (mkrd r (reof rd)) Hs Hr) as (d & e & rd' & Hrd & Hl & Hc & Hn & Hcase).
        exists d, e, rd'. cbn [rchunks] in *. cbn [concat app length].
        repeat split; try assumption. lia.
      + destruct (rd_read_data space rd (x :: c') r E ltac:(congruence) Hs) as (d & e & rd' & Hrd & Hd & Hl & Hc & _ & Hn & Hcase).
        rewrite Hrd. rewrite E in Hc, Hn. cbn [runs_ok] in Hr.
        destruct Hcase as [[He [Hro _]]|[He Hnil]]; subst e.
        * destruct d as [|y d']; [congruence|]. exists (y :: d'), None, rd'.
          repeat split; try assumption. left. repeat split; [congruence|]. apply Hro. exact Hr.
        * exists d, (Some REof), rd'. repeat split; try assumption. right. split; [reflexivity|assumption].
  Qed.

  (** ---- one iteration of Scan's loop with splitfunc and cap = bs ---- *)
  Variable bs : nat.
  Hypothesis bs_pos : 0 < bs.
  Notation iter := (scan_iter bs maxE (@splitfunc A bs)).

  Lemma sc_eta (s : sc A) : s = mksc (sstart s) (swin s) (serror s) (sempties s).
  Proof. destruct s; reflexivity. Qed.

  Lemma iter_full (s : sc A) rd : bs <= length (swin s) ->
    iter s rd = Tok (firstn bs (swin s)) (mksc (sstart s + bs) (skipn bs (swin s)) (serror s) 0) rd.
  Proof.
    intros Hl. unfold scan_iter, offer, splitfunc.
    assert (E1 : (0 <? length (swin s)) = true) by (apply Nat.ltb_lt; lia). rewrite E1. cbn [orb].
    assert (E2 : (bs <=? length (swin s)) = true) by (apply Nat.leb_le; lia). rewrite E2.
    assert (E3 : (length (swin s) <? bs) = false) by (apply Nat.ltb_ge; lia). rewrite E3.
    assert (E4 : (0 <? bs) = true) by (apply Nat.ltb_lt; lia). rewrite E4, orb_true_r. reflexivity.
  Qed.

  Lemma iter_short_noerr (s : sc A) rd : serror s = None -> length (swin s) < bs ->
    iter s rd = refill bs maxE s rd.
  Proof.
    intros He Hl. unfold scan_iter, offer. rewrite He. cbn [is_some]. rewrite orb_false_r.
    destruct (0 <? length (swin s)) eqn:E; [|reflexivity].
    unfold splitfunc.
    assert (E2 : (bs <=? length (swin s)) = false) by (apply Nat.leb_gt; lia). rewrite E2.
    assert (E3 : (length (swin s) <? 0) = false) by (apply Nat.ltb_ge; lia). rewrite E3.
    rewrite Nat.add_0_r. cbn [skipn]. rewrite <- He, <- sc_eta. reflexivity.
  Qed.

  Lemma iter_eof_short (s : sc A) rd e : serror s = Some e -> 0 < length (swin s) < bs ->
    iter s rd = Tok (swin s) (mksc (sstart s + length (swin s)) [] (Some e) 0) rd.
  Proof.
    intros He Hl. unfold scan_iter, offer. rewrite He. cbn [is_some]. rewrite orb_true_r.
    unfold splitfunc.
    assert (E2 : (bs <=? length (swin s)) = false) by (apply Nat.leb_gt; lia). rewrite E2.
    destruct (swin s) as [|x w] eqn:Ew; [cbn in Hl; lia|].
    rewrite Nat.ltb_irrefl. cbn [negb orb].
    assert (E4 : (0 <? length (x :: w)) = true) by (apply Nat.ltb_lt; lia). rewrite E4.
    rewrite skipn_all. reflexivity.
  Qed.

  Lemma iter_eof_empty (s : sc A) rd : serror s = Some REof -> swin s = [] ->
    exists s', iter s rd = Stop s' /\ serror s' = Some REof.
  Proof.
    intros He Hw. unfold scan_iter, offer. rewrite He, Hw. cbn [is_some length]. rewrite orb_true_r.
    unfold splitfunc. cbn [length].
    assert (E2 : (bs <=? 0) = false) by (apply Nat.leb_gt; lia). rewrite E2.
    eexists. split; reflexivity.
  Qed.

  Lemma refill_spec (s : sc A) rd : serror s = None -> sstart s + length (swin s) <= bs -> length (swin s) < bs ->
    exists st2, st2 + length (swin s) < bs /\
      refill bs maxE s rd =
      let '(d, e, rd') := read_loop maxE (bs - (st2 + length (swin s))) rd in
      Cont (mksc st2 (swin s ++ d)
                 (match e with Some e' => set_err None e' | None => None end)
                 (match e, d with None, _ :: _ => 0 | _, _ => sempties s end)) rd'.
  Proof.
    intros He Hi Hl. unfold refill. rewrite He. cbn [is_some].
    destruct ((0 <? sstart s) && ((sstart s + length (swin s) =? bs) || (bs / 2 <? sstart s))) eqn:Esh.
    - exists 0. split; [lia|]. cbn [sstart swin serror sempties].
      assert (E : (0 + length (swin s) =? bs) = false) by (apply Nat.eqb_neq; lia). rewrite E. reflexivity.
    - exists (sstart s). 
      assert (Hlt : sstart s + length (swin s) < bs).
      { destruct (Nat.eq_dec (sstart s + length (swin s)) bs) as [Heq|Hne]; [|lia].
        exfalso. assert (0 < sstart s) by lia.
        apply andb_false_iff in Esh. destruct Esh as [X|X].
        - apply Nat.ltb_ge in X. lia.
        - apply orb_false_iff in X. destruct X as [X _]. apply Nat.eqb_neq in X. lia. }
      split; [exact Hlt|].
      assert (E : (sstart s + length (swin s) =? bs) = false) by (apply Nat.eqb_neq; lia). rewrite E, He. reflexivity.
  Qed.

  (** ---- the whole scan ---- *)
  Definition inv (s : sc A) (rd : reader A) : Prop :=
    sstart s + length (swin s) <= bs /\
    match serror s with
    | None => runs_ok maxE (rchunks rd)
    | Some REof => rchunks rd = []
    | Some (RErr _) => False
    end.

  Definition mu (s : sc A) (rd : reader A) : nat :=
    2 * length (concat (rchunks rd)) + length (swin s) + length (rchunks rd) +
    match serror s with None => 2 | Some _ => 1 end.

  Lemma blocks_exact_app (w r : list A) : length w = bs -> blocks bs (w ++ r) = w :: blocks bs r.
  Proof.
    intros Hl. rewrite (blocks_cons bs bs_pos) by (destruct w; [cbn in Hl; lia|discriminate]).
    rewrite firstn_app, skipn_app, Hl, Nat.sub_diag. cbn [firstn skipn].
    rewrite <- Hl, firstn_all, skipn_all, app_nil_r. reflexivity.
  Qed.

  Lemma blocks_one (w : list A) : w <> [] -> length w <= bs -> blocks bs w = [w].
  Proof.
    intros Hn Hl. rewrite (blocks_cons bs bs_pos) by assumption.
    rewrite firstn_all2, skipn_all2 by lia. reflexivity.
  Qed.

  Lemma scan_all_spec fuel : forall s rd, inv s rd -> mu s rd < fuel ->
    scan_all bs maxE (splitfunc bs) fuel s rd = (blocks bs (swin s ++ concat (rchunks rd)), SEof).
  Proof.
    induction fuel as [|f IH]; intros s rd [Hi He] Hm; [lia|]. cbn [scan_all].
    destruct (Nat.le_gt_cases bs (length (swin s))) as [Hfull|Hshort].
    - (* a full buffer: one block *)
      rewrite iter_full by assumption.
      assert (Hw : length (swin s) = bs) by lia.
      rewrite IH.
      + cbn [swin]. rewrite (firstn_all2 (swin s)), (skipn_all2 (swin s)) by lia. cbn [app].
        rewrite blocks_exact_app by assumption. reflexivity.
      + split; cbn [sstart swin serror]; [rewrite skipn_length; lia|exact He].
      + unfold mu in *. cbn [swin serror]. rewrite skipn_length. lia.
    - destruct (serror s) as [[|x]|] eqn:Eerr; [| contradiction |].
      + (* the reader has reported io.EOF *)
        rewrite He. cbn [concat]. rewrite app_nil_r.
        destruct (swin s) as [|y w] eqn:Ew.
        * destruct (iter_eof_empty s rd Eerr Ew) as (s' & Hs' & He'). rewrite Hs', He'. reflexivity.
        * rewrite (iter_eof_short s rd REof Eerr) by (rewrite Ew; cbn [length] in *; lia).
          rewrite IH.
          -- cbn [swin]. rewrite He. cbn [concat app]. rewrite blocks_nil.
             rewrite (blocks_one (y :: w)); [rewrite Ew; reflexivity|discriminate|lia].
          -- split; cbn [sstart swin serror length]; [rewrite Ew in *; cbn [length] in *; lia|exact He].
          -- unfold mu in *. rewrite Eerr in Hm. cbn [swin serror length]. rewrite Ew in *. cbn [length] in *. lia.
      + (* more input is needed *)
        rewrite iter_short_noerr by assumption.
        destruct (refill_spec s rd Eerr Hi Hshort) as (st2 & Hst & Hrf). rewrite Hrf.
        destruct (read_loop_spec maxE (bs - (st2 + length (swin s))) rd ltac:(lia) He)
          as (d & e & rd' & Hrl & Hl & Hc & Hn & Hcase).
        rewrite Hrl.
        destruct Hcase as [(Hd & Hee & Hro)|(Hee & Hnil)]; subst e.
        * rewrite IH.
          -- cbn [swin]. rewrite <- app_assoc, Hc. reflexivity.
          -- split; cbn [sstart swin serror]; [rewrite app_length; lia|exact Hro].
          -- unfold mu in *. rewrite Eerr in Hm. cbn [swin serror]. rewrite app_length.
             rewrite <- Hc, app_length in Hm. destruct d; [congruence|]. cbn [length] in *. lia.
        * rewrite IH.
          -- cbn [swin]. rewrite <- app_assoc, Hc. reflexivity.
          -- split; cbn [sstart swin serror set_err]; [rewrite app_length; lia|exact Hnil].
          -- unfold mu in *. rewrite Eerr in Hm. cbn [swin serror set_err]. rewrite app_length.
             rewrite <- Hc, app_length in Hm. rewrite Hnil in *. cbn [concat length] in *. lia.
  Qed.

  (** for every chunking whose runs of empty reads stay within the scanner's tolerance the
      tokens are the blocks of the input and the scan ends without error *)
  Theorem scan_blocks_runs chunks eofl : runs_ok maxE chunks ->
    scan bs maxE (splitfunc bs) chunks eofl = (blocks bs (concat chunks), SEof).
  Proof.
    intros Hr. unfold scan. rewrite scan_all_spec.
    - reflexivity.
    - split; [cbn; lia|exact Hr].
    - unfold mu, scan_fuel. cbn [rchunks swin serror length]. lia.
  Qed.

  Lemma runs_ok_nonempty k chunks : Forall (fun c : list A => c <> []) chunks -> runs_ok k chunks.
  Proof.
    intros F. revert k. induction F as [|c r Hc _ IH]; intros k; [exact I|].
    destruct c; [congruence|]. cbn [runs_ok]. apply IH.
  Qed.

  (** [chunking s] = any list of non-empty lists whose concatenation is [s] *)
  Theorem scan_blocks_lemma chunks eofl : Forall (fun c : list A => c <> []) chunks ->
    scan bs maxE (splitfunc bs) chunks eofl = (blocks bs (concat chunks), SEof).
  Proof. intros F. apply scan_blocks_runs, runs_ok_nonempty, F. Qed.

  Theorem scan_chunking_indep c1 c2 e1 e2 : runs_ok maxE c1 -> runs_ok maxE c2 -> concat c1 = concat c2 ->
    scan bs maxE (splitfunc bs) c1 e1 = scan bs maxE (splitfunc bs) c2 e2.
  Proof. intros H1 H2 E. rewrite !scan_blocks_runs by assumption. rewrite E. reflexivity. Qed.
End ScanProofs.
