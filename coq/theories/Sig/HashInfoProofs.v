(** Proofs about ComputeHashInfo on a well-formed signature: every non-empty file gets exactly
    the hashes of its blocks, an empty file consumes its one hash and gets no group, and the
    final count check passes. *)
From Wharf Require Import Base.Prelude Base.BlocksLemmas Sig.Scan Sig.Sign Sig.Fanout Sig.SigFile Sig.SigFileProofs Sig.HashInfo.
Local Open Scope N_scope.

Section HashInfoProofs.
  Context {H : Type}.
  Variable bs : N.
  Hypothesis bs_pos : 0 < bs.
  Variable weak : list N -> N.
  Variable strong : list N -> H.

  Notation sign_file' := (sign_file bs weak strong).
  Notation sign_all_from' := (sign_all_from bs weak strong).

  (** the groups the property asks for: by file position, none for an empty file *)
  Fixpoint groups_from (fileIndex : N) (files : list (list N)) : list (option (list (blockhash H))) :=
    match files with
    | [] => []
    | f :: r => (match f with [] => None | _ => Some (sign_file' fileIndex f) end) :: groups_from (fileIndex + 1) r
    end.

  Lemma hash_blocks_length fi j (toks : list (list N)) : length (hash_blocks bs weak strong fi j toks) = length toks.
  Proof. revert j. induction toks as [|t r IH]; intros j; cbn [hash_blocks length]; [reflexivity|]. rewrite IH. reflexivity. Qed.

  Lemma sign_file_length fi (f : list N) : f <> [] ->
    N.of_nat (length (sign_file' fi f)) = num_blocks bs (N.of_nat (length f)).
  Proof.
    intros Hf. unfold sign_file. destruct f as [|x f']; [congruence|].
    rewrite hash_blocks_length, (blocks_length bs bs_pos). lia.
  Qed.

  Lemma hi_loop_spec files : forall fi (pre : list (blockhash H)),
    hi_loop bs (map (fun f : list N => N.of_nat (length f)) files) (pre ++ sign_all_from' fi files) (N.of_nat (length pre)) =
    Some (groups_from fi files, N.of_nat (length (pre ++ sign_all_from' fi files))).
  Proof.
    induction files as [|f r IH]; intros fi pre.
    - cbn [map hi_loop sign_all_from groups_from]. rewrite app_nil_r. reflexivity.
    - cbn [map hi_loop sign_all_from groups_from]. destruct f as [|x f'].
      + cbn [length N.of_nat N.eqb]. cbn [sign_file app].
        replace (pre ++ hash_block bs weak strong fi 0 [] :: sign_all_from' (fi + 1) r)
          with ((pre ++ [hash_block bs weak strong fi 0 []]) ++ sign_all_from' (fi + 1) r)
          by (rewrite <- app_assoc; reflexivity).
        replace (N.of_nat (length pre) + 1) with (N.of_nat (length (pre ++ [hash_block bs weak strong fi 0 []])))
          by (rewrite app_length; cbn [length]; lia).
        rewrite IH. reflexivity.
      + set (f := x :: f') in *.
        assert (Hf : f <> []) by discriminate.
        pose proof (sign_file_length fi f Hf) as Hlen.
        assert (E0 : (N.of_nat (length f) =? 0) = false) by (apply N.eqb_neq; unfold f; cbn [length]; lia).
        rewrite E0.
        assert (E1 : (N.of_nat (length (pre ++ sign_file' fi f ++ sign_all_from' (fi + 1) r)) <?
                      N.of_nat (length pre) + num_blocks bs (N.of_nat (length f))) = false).
        { apply N.ltb_ge. rewrite !app_length. lia. }
        rewrite E1.
        replace (pre ++ sign_file' fi f ++ sign_all_from' (fi + 1) r)
          with ((pre ++ sign_file' fi f) ++ sign_all_from' (fi + 1) r) at 1
          by (rewrite <- app_assoc; reflexivity).
        replace (N.of_nat (length pre) + num_blocks bs (N.of_nat (length f)))
          with (N.of_nat (length (pre ++ sign_file' fi f)))
          by (rewrite app_length; lia).
        rewrite IH. rewrite <- app_assoc.
        do 3 f_equal.
        rewrite Nat2N.id, <- Hlen, Nat2N.id.
        rewrite skipn_app, skipn_all, Nat.sub_diag. cbn [skipn app].
        rewrite firstn_app, firstn_all, Nat.sub_diag. cbn [firstn]. rewrite app_nil_r. reflexivity.
  Qed.

  Theorem hashinfo_groups_lemma files :
    compute_hash_info bs (map (fun f : list N => N.of_nat (length f)) files) (sign_all bs weak strong files) =
    HiOk (groups_from 0 files).
  Proof.
    unfold compute_hash_info, sign_all.
    pose proof (hi_loop_spec files 0 []) as Hl. cbn [app length N.of_nat] in Hl. rewrite Hl.
    rewrite N.eqb_refl. reflexivity.
  Qed.

  (** the group of file [i] is [Some] of its block hashes exactly when the file is non-empty *)
  Lemma groups_from_nth files : forall fi i f,
    nth_error files i = Some f ->
    nth_error (groups_from fi files) i =
    Some (match f with [] => None | _ => Some (sign_file' (fi + N.of_nat i) f) end).
  Proof.
    clear bs_pos.
    induction files as [|g r IH]; intros fi i f Hn; [destruct i; discriminate|].
    destruct i as [|i]; cbn [nth_error groups_from] in *.
    - inversion Hn; subst. rewrite N.add_0_r. reflexivity.
    - rewrite (IH (fi + 1) i f Hn). replace (fi + 1 + N.of_nat i) with (fi + N.of_nat (S i)) by lia. reflexivity.
  Qed.
End HashInfoProofs.
