(** Proofs about the signing models: CreateSignature equals the reference [sign_file] for every
    chunking of the file, ComputeSignatureToWriter equals [sign_all], the fan-out preserves the
    stream, and the diff-time producer writes exactly the stripped reference signature. *)
From Wharf Require Import Base.Prelude Base.BlocksLemmas Sig.Scan Sig.ScanProofs Sig.Sign Sig.Fanout Sig.SigFile.
Local Open Scope N_scope.

Section FanoutProofs.
  Variable maxE : nat.
  Hypothesis maxE_pos : (1 <= maxE)%nat.
  Variable slice : nat.
  Hypothesis slice_pos : (0 < slice)%nat.

  (** ---- the fan-out ---- *)

  Definition nonempty_chunks (chunks : list (list N)) : Prop := Forall (fun c : list N => c <> []) chunks.

  Lemma copy_writes_spec fuel : forall (rd : reader N),
    nonempty_chunks (rchunks rd) ->
    (length (concat (rchunks rd)) + length (rchunks rd) < fuel)%nat ->
    exists ws, copy_writes slice fuel rd = (ws, true) /\ concat ws = concat (rchunks rd) /\
               forall k, (1 <= k)%nat -> runs_ok maxE k ws.
  Proof.
    induction fuel as [|f IH]; intros rd Hne Hf; [lia|]. cbn [copy_writes].
    destruct (rchunks rd) as [|c r] eqn:E.
    - rewrite (rd_read_nil _ _ E). exists [[]]. cbn. repeat split.
      intros k Hk. destruct k; [lia|exact I].
    - inversion Hne as [|? ? Hc Hr]; subst.
      destruct (rd_read_data maxE slice rd c r E Hc slice_pos) as (d & e & rd' & Hrd & Hd & Hl & Hcc & _ & Hn & Hcase).
      rewrite Hrd. rewrite E in Hcc, Hn.
      destruct Hcase as [(He & _ & Hfa)|(He & Hnil)]; subst e.
      + destruct (IH rd' (Hfa Hr)) as (ws & Hw & Hcw & Hrw).
        { rewrite <- Hcc, app_length in Hf. destruct d; [congruence|]. cbn [length] in *. lia. }
        rewrite Hw. exists (d :: ws). split; [reflexivity|]. split.
        * rewrite <- Hcc, <- Hcw. reflexivity.
        * intros k _. rewrite runs_ok_nonempty_head by exact Hd. apply Hrw. exact maxE_pos.
      + exists [d]. split; [reflexivity|]. split.
        * rewrite <- Hcc, Hnil. reflexivity.
        * intros k _. rewrite runs_ok_nonempty_head by exact Hd. exact I.
  Qed.

  (** every pipe reader is served the upstream bytes, with at most one empty read at a time *)
  Theorem fan_writes_spec chunks eofl :
    nonempty_chunks chunks ->
    exists ws, fan_writes slice chunks eofl = (ws, true) /\ concat ws = concat chunks /\ runs_ok maxE maxE ws.
  Proof.
    intros Hne. unfold fan_writes.
    destruct (copy_writes_spec (fan_fuel chunks) (mkrd chunks eofl) Hne) as (ws & Hw & Hc & Hr).
    { unfold fan_fuel. cbn [rchunks]. lia. }
    exists ws. repeat split; [exact Hw|exact Hc|apply Hr; exact maxE_pos].
  Qed.

End FanoutProofs.

Section SignProofs.
  Context {H : Type}.
  Variable bs : N.
  Hypothesis bs_pos : 0 < bs.
  Variable weak : list N -> N.
  Variable strong : list N -> H.
  Variable maxE : nat.

  Let bsn := N.to_nat bs.
  Lemma bsn_pos : (0 < bsn)%nat.
  Proof. unfold bsn. lia. Qed.

  Lemma blocks_nonempty (l : list N) : l <> [] -> blocks bsn l <> [].
  Proof. intros Hl. rewrite (blocks_cons bsn bsn_pos) by assumption. discriminate. Qed.

  (** CreateSignature over any chunking = the reference signature of the file *)
  Theorem create_signature_spec fileIndex chunks eofl :
    runs_ok maxE maxE chunks ->
    create_signature bs weak strong maxE fileIndex chunks eofl =
    (sign_file bs weak strong fileIndex (concat chunks), SEof).
  Proof.
    intros Hr. unfold create_signature. fold bsn.
    rewrite (scan_blocks_runs maxE bsn bsn_pos chunks eofl Hr).
    unfold sign_file. fold bsn. destruct (concat chunks) as [|x l] eqn:E.
    - reflexivity.
    - pose proof (blocks_nonempty (x :: l) ltac:(discriminate)) as Hne.
      destruct (blocks bsn (x :: l)); [congruence|reflexivity].
  Qed.

  Definition src_ok (src : list (list N) * bool) : Prop := runs_ok maxE maxE (fst src).
  Definition src_content (src : list (list N) * bool) : list N := concat (fst src).

  Lemma compute_signature_from_spec srcs : forall fileIndex,
    Forall src_ok srcs ->
    compute_signature_from bs weak strong maxE fileIndex srcs =
    (sign_all_from bs weak strong fileIndex (map src_content srcs), SEof).
  Proof.
    induction srcs as [|[chunks eofl] r IH]; intros fileIndex F; [reflexivity|].
    inversion F as [|? ? Hok Fr]; subst. cbn [compute_signature_from map sign_all_from].
    rewrite create_signature_spec by exact Hok. rewrite IH by exact Fr. reflexivity.
  Qed.

  (** ComputeSignatureToWriter, whatever read sizes the pool's readers choose *)
  Theorem compute_signature_spec srcs :
    Forall src_ok srcs ->
    compute_signature bs weak strong maxE srcs = (sign_all bs weak strong (map src_content srcs), SEof).
  Proof. apply compute_signature_from_spec. Qed.

  Variable slice : nat.
  Hypothesis slice_pos : (0 < slice)%nat.
  Hypothesis maxE_pos : (1 <= maxE)%nat.

  (** ---- the diff-time producer ---- *)
  Definition src_nonempty (src : list (list N) * bool) : Prop := nonempty_chunks (fst src).

  Lemma diff_time_from_spec srcs : forall fileIndex,
    Forall src_nonempty srcs ->
    diff_time_from bs weak strong maxE slice fileIndex srcs =
    Some (write_signature (sign_all_from bs weak strong fileIndex (map src_content srcs))).
  Proof.
    induction srcs as [|[chunks eofl] r IH]; intros fileIndex F; [reflexivity|].
    inversion F as [|? ? Hok Fr]; subst. cbn [diff_time_from map sign_all_from].
    destruct (fan_writes_spec maxE maxE_pos slice slice_pos chunks eofl Hok) as (ws & Hw & Hc & Hr). rewrite Hw.
    rewrite create_signature_spec by exact Hr. rewrite IH by exact Fr.
    unfold write_signature, src_content. cbn [fst]. rewrite Hc, map_app. reflexivity.
  Qed.

  Theorem diff_time_signature_spec srcs :
    Forall src_nonempty srcs ->
    diff_time_signature bs weak strong maxE slice srcs =
    Some (write_signature (sign_all bs weak strong (map src_content srcs))).
  Proof. apply diff_time_from_spec. Qed.
End SignProofs.
