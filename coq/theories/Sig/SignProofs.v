(** Proofs about the signing models: CreateSignature equals the reference [sign_file] for every
    chunking of the file, ComputeSignatureToWriter equals [sign_all], the fan-out preserves the
    stream, and the diff-time producer writes exactly the stripped reference signature. *)
From Wharf Require Import Base.Prelude Base.BlocksLemmas Sig.Scan Sig.ScanProofs Sig.Sign Sig.Fanout Sig.SigFile.
Local Open Scope N_scope.

Section FanoutProofs.
  Variable maxE : nat.
  Hypothesis maxE_pos : (1 <= maxE)%nat.
  Variable slice : nat.
  Hypothesis slice_pos : (0 < slice)%nat.

  (** ---- the fan-out ---- *)

  Definition nonempty_chunks (chunks : list (list N)) : Prop := Forall (fun c : list N => c <> []) chunks.

  Lemma runs_ok_mono (M : nat) (chunks : list (list N)) : forall k k',
    (k <= k')%nat -> runs_ok M k chunks -> runs_ok M k' chunks.
  Proof.
    induction chunks as [|c r IH]; intros k k' Hk Hr; [exact I|].
    destruct c as [|x c'].
    - cbn [runs_ok] in *. destruct k as [|a]; [contradiction|]. destruct k' as [|b]; [lia|].
      apply (IH a b); [lia|exact Hr].
    - exact Hr.
  Qed.

  (** the copy loop: upstream runs of at most [m] empty reads (with [m + 1 <= maxE]) come out
      as runs of at most [m + 1] empty Writes (the extra one is the Write of the final
      (0, io.EOF) read) *)
  Lemma copy_writes_spec fuel : forall (rd : reader N) (m k : nat),
    (m + 1 <= maxE)%nat -> (k <= m)%nat -> runs_ok m k (rchunks rd) ->
    (length (concat (rchunks rd)) + length (rchunks rd) < fuel)%nat ->
    exists ws : list (list N), copy_writes slice fuel rd = (ws, true) /\ concat ws = concat (rchunks rd) /\
               runs_ok maxE (k + 1) ws.
  Proof.
    induction fuel as [|f IH]; intros rd m k Hm Hk Hr Hf; [lia|]. cbn [copy_writes].
    destruct (rchunks rd) as [|c r] eqn:E.
    - rewrite (rd_read_nil _ _ E). exists [[]]. split; [reflexivity|]. split; [reflexivity|].
      rewrite Nat.add_1_r. exact I.
    - destruct c as [|x c'].
      + cbn [runs_ok] in Hr. destruct k as [|k']; [contradiction|].
        rewrite (rd_read_empty _ _ _ E).
        destruct (IH (mkrd r (reof rd)) m k' Hm ltac:(lia) Hr) as (ws & Hw & Hcw & Hrw).
        { cbn [rchunks concat app length] in *. lia. }
        rewrite Hw. exists ([] :: ws). split; [reflexivity|]. split; [exact Hcw|].
        rewrite Nat.add_1_r. cbn [runs_ok]. rewrite Nat.add_1_r in Hrw. exact Hrw.
      + set (c := x :: c') in *.
        assert (Hc : c <> []) by discriminate.
        rewrite (runs_ok_nonempty_head m k c r Hc) in Hr.
        destruct (rd_read_data m slice rd c r E Hc slice_pos) as (d & e & rd' & Hrd & Hd & Hl & Hcc & _ & Hn & Hcase).
        rewrite Hrd. rewrite E in Hcc, Hn.
        destruct Hcase as [(He & Hro & _)|(He & Hnil)]; subst e.
        * destruct (IH rd' m m Hm ltac:(lia) (Hro Hr)) as (ws & Hw & Hcw & Hrw).
          { rewrite <- Hcc, app_length in Hf. destruct d; [congruence|]. cbn [length] in *. lia. }
          rewrite Hw. exists (d :: ws). split; [reflexivity|]. split.
          -- rewrite <- Hcc, <- Hcw. reflexivity.
          -- rewrite runs_ok_nonempty_head by exact Hd. apply (runs_ok_mono maxE ws (m + 1) maxE Hm Hrw).
        * exists [d]. split; [reflexivity|]. split.
          -- rewrite <- Hcc, Hnil. reflexivity.
          -- rewrite runs_ok_nonempty_head by exact Hd. exact I.
  Qed.

  (** every pipe reader is served the upstream bytes; its runs of empty reads are at most one
      longer than upstream's *)
  Theorem fan_writes_spec_runs chunks eofl :
    runs_ok (maxE - 1) (maxE - 1) chunks ->
    exists ws : list (list N), fan_writes slice chunks eofl = (ws, true) /\ concat ws = concat chunks /\ runs_ok maxE maxE ws.
  Proof.
    intros Hr. unfold fan_writes.
    destruct (copy_writes_spec (fan_fuel chunks) (mkrd chunks eofl) (maxE - 1) (maxE - 1) ltac:(lia) ltac:(lia) Hr)
      as (ws & Hw & Hc & Hrw).
    { unfold fan_fuel. cbn [rchunks]. lia. }
    exists ws. split; [exact Hw|]. split; [exact Hc|].
    apply (runs_ok_mono maxE ws (maxE - 1 + 1) maxE ltac:(lia) Hrw).
  Qed.

  Theorem fan_writes_spec chunks eofl :
    nonempty_chunks chunks ->
    exists ws : list (list N), fan_writes slice chunks eofl = (ws, true) /\ concat ws = concat chunks /\ runs_ok maxE maxE ws.
  Proof. intros Hne. apply fan_writes_spec_runs, runs_ok_nonempty, Hne. Qed.
End FanoutProofs.

Section SignProofs.
  Context {H : Type}.
  Variable bs : N.
  Hypothesis bs_pos : 0 < bs.
  Variable weak : list N -> N.
  Variable strong : list N -> H.
  Variable maxE : nat.

  Let bsn := N.to_nat bs.
  Lemma bsn_pos : (0 < bsn)%nat.
  Proof. unfold bsn. lia. Qed.

  Lemma blocks_nonempty (l : list N) : l <> [] -> blocks bsn l <> [].
  Proof. intros Hl. rewrite (blocks_cons bsn bsn_pos) by assumption. discriminate. Qed.

  (** CreateSignature over any chunking = the reference signature of the file *)
  Theorem create_signature_spec fileIndex chunks eofl :
    runs_ok maxE maxE chunks ->
    create_signature bs weak strong maxE fileIndex chunks eofl =
    (sign_file bs weak strong fileIndex (concat chunks), SEof).
  Proof.
    intros Hr. unfold create_signature. fold bsn.
    rewrite (scan_blocks_runs maxE bsn bsn_pos chunks eofl Hr).
    unfold sign_file. fold bsn. destruct (concat chunks) as [|x l] eqn:E.
    - reflexivity.
    - pose proof (blocks_nonempty (x :: l) ltac:(discriminate)) as Hne.
      destruct (blocks bsn (x :: l)); [congruence|reflexivity].
  Qed.

  Definition src_ok (src : list (list N) * bool) : Prop := runs_ok maxE maxE (fst src).
  Definition src_content (src : list (list N) * bool) : list N := concat (fst src).

  Lemma compute_signature_from_spec srcs : forall fileIndex,
    Forall src_ok srcs ->
    compute_signature_from bs weak strong maxE fileIndex srcs =
    (sign_all_from bs weak strong fileIndex (map src_content srcs), SEof).
  Proof.
    induction srcs as [|[chunks eofl] r IH]; intros fileIndex F; [reflexivity|].
    inversion F as [|? ? Hok Fr]; subst. cbn [compute_signature_from map sign_all_from].
    rewrite create_signature_spec by exact Hok. rewrite IH by exact Fr. reflexivity.
  Qed.

  (** ComputeSignatureToWriter, whatever read sizes the pool's readers choose *)
  Theorem compute_signature_spec srcs :
    Forall src_ok srcs ->
    compute_signature bs weak strong maxE srcs = (sign_all bs weak strong (map src_content srcs), SEof).
  Proof. apply compute_signature_from_spec. Qed.

  Variable slice : nat.
  Hypothesis slice_pos : (0 < slice)%nat.
  Hypothesis maxE_pos : (1 <= maxE)%nat.

  (** ---- the diff-time producer ---- *)
  Definition src_nonempty (src : list (list N) * bool) : Prop := nonempty_chunks (fst src).
  (** what the fan-out tolerates from the pool's reader: runs of at most [maxE - 1] empty reads *)
  Definition src_fan_ok (src : list (list N) * bool) : Prop := runs_ok (maxE - 1) (maxE - 1) (fst src).

  Lemma src_nonempty_fan_ok src : src_nonempty src -> src_fan_ok src.
  Proof. intros Hne. apply runs_ok_nonempty, Hne. Qed.

  Lemma diff_time_from_spec srcs : forall fileIndex,
    Forall src_fan_ok srcs ->
    diff_time_from bs weak strong maxE slice fileIndex srcs =
    Some (write_signature (sign_all_from bs weak strong fileIndex (map src_content srcs))).
  Proof.
    induction srcs as [|[chunks eofl] r IH]; intros fileIndex F; [reflexivity|].
    inversion F as [|? ? Hok Fr]; subst. cbn [diff_time_from map sign_all_from].
    destruct (fan_writes_spec_runs maxE maxE_pos slice slice_pos chunks eofl Hok) as (ws & Hw & Hc & Hr). rewrite Hw.
    rewrite create_signature_spec by exact Hr. rewrite IH by exact Fr.
    unfold write_signature, src_content. cbn [fst]. rewrite Hc, map_app. reflexivity.
  Qed.

  Theorem diff_time_signature_spec srcs :
    Forall src_fan_ok srcs ->
    diff_time_signature bs weak strong maxE slice srcs =
    Some (write_signature (sign_all bs weak strong (map src_content srcs))).
  Proof. apply diff_time_from_spec. Qed.
End SignProofs.
