(** Proofs for Compose/OptimizeApply.v.

    1. bridge between the two models of bsdiff Apply: [Bsdiff.Patch.apply_ctrl] (C12) and
       [Patcher.bs_apply] (C01); hence [ctrl_loop] / [process_bsdiff] fed the rendered frames of
       a series write exactly [den_bsdiff] of it, and the final size check passes;
    2. C07's hypothesis [bsdiff_roundtrip] for the instance [bsd_series], by C12's theorem, and
       [bsd_series_is_go]: on bytes the instance IS what bsdiff.DiffContext.Do returns;
    3. C07's hypothesis [original_correct] / [file_valid] for the files of [write_patch];
    4. the C01 patcher applied to any list of series that C07's [optimize] can return;
    5. the composition. *)
From Coq Require Import ZifyBool ZifyNat ZifyN Permutation.
From Wharf Require Import Base.Prelude Bowl.Fresh Bowl.FreshProofs Patch.Reinterp Patch.ReinterpProofs
     Patch.Stream Patch.Patcher Patch.Whitelist Patch.ApplyProofs Patch.PatcherProofs Patch.DiffApplyProofs
     Val.Drip Val.VPool Patch.Rediff Patch.RediffProofs Compose.OptimizeApply.
From Wharf Require Bsdiff.Scan Bsdiff.ScanProofs Bsdiff.Patch Bsdiff.RoundtripProofs Bsdiff.Suffix Bsdiff.SuffixProofs Exec.C12.
Local Open Scope Z_scope.

(* ------------------------------------------------------------------ 1. the two models of Apply *)

Lemma adder_add_bytes add : forall l, Bsdiff.Patch.adder add (firstn (length add) l) = add_bytes add l.
Proof.
  induction add as [|a add IH]; intros [|o l]; cbn [Bsdiff.Patch.adder add_bytes firstn length]; try reflexivity.
  unfold Scan.add_byte. f_equal. apply IH.
Qed.

Lemma add_bytes_length add : forall l, (length add <= length l)%nat -> length (add_bytes add l) = length add.
Proof.
  induction add as [|a add IH]; intros [|o l] H; cbn [add_bytes length] in *; try reflexivity; [lia|].
  f_equal. apply IH. lia.
Qed.

(** what a successful [Apply] of the C12 model did, in the vocabulary of the C01 model *)
Lemma apply_ctrl_some old off c o off' :
  Bsdiff.Patch.apply_ctrl old off c = Some (o, off') ->
  0 <= off /\ off + Z.of_nat (length (Scan.c_add c)) <= Z.of_nat (length old) /\
  o = add_bytes (Scan.c_add c) (skipn (Z.to_nat off) old) ++ Scan.c_copy c /\
  off' = off + Z.of_nat (length (Scan.c_add c)) + Scan.c_seek c.
Proof.
  unfold Bsdiff.Patch.apply_ctrl, Scan.len.
  destruct ((off <? 0) || (off >? Z.of_nat (length old))) eqn:E; [discriminate|].
  destruct (Nat.ltb_spec (length (firstn (length (Scan.c_add c)) (skipn (Z.to_nat off) old))) (length (Scan.c_add c))) as [Hlt|Hge];
    [discriminate|].
  intros [= <- <-]. rewrite firstn_length, skipn_length in Hge.
  split; [lia|]. split; [lia|]. split; [|reflexivity]. rewrite adder_add_bytes. reflexivity.
Qed.

Lemma seek_okb_i64 c : seek_okb c = true -> i64_ok (Scan.c_seek c).
Proof. unfold seek_okb, i64_ok. lia. Qed.

Lemma as_ct_ctrl c : seek_okb c = true ->
  as_ct (ctrl_msg c) = mkCT (Scan.c_add c) (Scan.c_copy c) (Scan.c_seek c) (Scan.c_eof c).
Proof. intros H. unfold ctrl_msg. apply as_ct_own. cbn [pmsg_ok ct_seek]. apply seek_okb_i64. assumption. Qed.

Section Writer.
  Variable p : path.
  Variable L : nat.

  (** one control: [bs_apply] succeeds where [apply_ctrl] does, moves the old offset alike and
      writes the same bytes *)
  Lemma bs_apply_ctrl old off c o off' w written :
    Bsdiff.Patch.apply_ctrl old off c = Some (o, off') -> seek_okb c = true ->
    wgood p L w written -> (length written + length o <= L)%nat ->
    exists w', bs_apply old off (as_ct (ctrl_msg c)) w = Ok (off', w') /\ wgood p L w' (written ++ o) /\
      (forall q, q <> p -> tlookup (p_tree (w_st w')) q = tlookup (p_tree (w_st w)) q).
  Proof.
    intros Ha Hs Hw Hlen. rewrite as_ct_ctrl by assumption.
    destruct (apply_ctrl_some _ _ _ _ _ Ha) as (H0 & Hadd & -> & ->).
    unfold bs_apply. cbn [ct_add ct_copy ct_seek].
    destruct ((off <? 0) || (off >? Z.of_nat (length old))) eqn:E1; [lia|].
    destruct (off + Z.of_nat (length (Scan.c_add c)) >? Z.of_nat (length old)) eqn:E2; [lia|].
    rewrite app_length in Hlen.
    destruct (w_write_next p L w written (add_bytes (Scan.c_add c) (skipn (Z.to_nat off) old)) Hw) as (w1 & E3 & Hw1 & F1); [lia|].
    rewrite E3. cbn [bind].
    destruct (w_write_next p L w1 _ (Scan.c_copy c) Hw1) as (w2 & E4 & Hw2 & F2); [rewrite app_length; lia|].
    rewrite E4. cbn [bind]. exists w2. split; [reflexivity|]. rewrite app_assoc. split; [assumption|].
    intros q Hq. rewrite F2, F1 by assumption. reflexivity.
  Qed.

  (** the control loop over the rendered series *)
  Lemma ctrl_loop_series old : forall b off out offf w written rest,
    forallb seek_okb b = true -> eof_lastb b = true ->
    Bsdiff.Patch.apply_series old off b = Some (out, offf) ->
    wgood p L w written -> (length written + length out <= L)%nat ->
    exists w', ctrl_loop old off (map ctrl_msg b ++ rest) w = Ok (rest, w') /\ wgood p L w' (written ++ out) /\
      (forall q, q <> p -> tlookup (p_tree (w_st w')) q = tlookup (p_tree (w_st w)) q).
  Proof.
    induction b as [|c b IH]; intros off out offf w written rest Hseek Hlast Ha Hw Hlen; [discriminate|].
    cbn [forallb] in Hseek. apply andb_prop in Hseek. destruct Hseek as [Hs Hseek].
    assert (Heof : ct_eof (as_ct (ctrl_msg c)) = Scan.c_eof c) by (rewrite (as_ct_ctrl c Hs); reflexivity).
    cbn [map app ctrl_loop]. rewrite Heof. clear Heof.
    cbn [Bsdiff.Patch.apply_series] in Ha. cbn [eof_lastb] in Hlast.
    destruct b as [|c2 b].
    - rewrite Hlast in *. injection Ha as <- <-. exists w. rewrite app_nil_r. cbn [map app].
      split; [reflexivity|]. split; [assumption|reflexivity].
    - apply andb_prop in Hlast. destruct Hlast as [Hne Hlast]. apply negb_true_iff in Hne. rewrite Hne in *.
      destruct (Bsdiff.Patch.apply_ctrl old off c) as [[o off']|] eqn:Ec; [|discriminate].
      destruct (Bsdiff.Patch.apply_series old off' (c2 :: b)) as [[o2 off2]|] eqn:Er; [|discriminate].
      injection Ha as <- <-. rewrite app_length in Hlen.
      destruct (bs_apply_ctrl old off c o off' w written Ec Hs Hw) as (w1 & E1 & Hw1 & F1); [lia|].
      rewrite E1. cbn [bind fst snd].
      destruct (IH off' o2 off2 w1 (written ++ o) rest Hseek Hlast Er Hw1) as (w2 & E2 & Hw2 & F2); [rewrite app_length; lia|].
      exists w2. split; [exact E2|]. rewrite app_assoc. split; [assumption|].
      intros q Hq. rewrite F2, F1 by assumption. reflexivity.
  Qed.
End Writer.

Lemma den_bsdiff_some b old data :
  den_bsdiff b old = Some data ->
  forallb seek_okb b = true /\ eof_lastb b = true /\ exists off, Bsdiff.Patch.apply_series old 0 b = Some (data, off).
Proof.
  unfold den_bsdiff. destruct (forallb seek_okb b); [|discriminate]. destruct (eof_lastb b); [|discriminate]. cbn [andb].
  destruct (Bsdiff.Patch.apply_series old 0 b) as [[o off]|]; [|discriminate]. cbn [option_map fst].
  intros [= ->]. repeat split. exists off. reflexivity.
Qed.

(** [processBsdiff] on the frames Optimize writes for a mapped file: BsdiffHeader, the controls,
    the end marker.  It opens old file [t], writes [den_bsdiff b old] through the entry writer
    of new file [idx], accepts the sentinel, and the final size check [writer.Tell() == f.Size]
    passes because the bytes written are the new file. *)
Lemma process_bsdiff_realized oldC newC olds idx p data t pt szt oldt b rest s :
  znth (c_files newC) idx = Some (p, Z.of_nat (length data)) ->
  znth (c_files oldC) t = Some (pt, szt) -> t < 2^63 ->
  znth olds t = Some oldt ->
  file_ready (p_tree s) p -> tlookup (p_tree s) p = Some (File (zeros (length data))) ->
  den_bsdiff b oldt = Some data ->
  exists s', process_bsdiff oldC newC olds idx (MBH (mkBH t) :: map ctrl_msg b ++ hey_msg :: rest) s = Ok (rest, s') /\
    tlookup (p_tree s') p = Some (File data) /\
    (forall q, q <> p -> tlookup (p_tree s') q = tlookup (p_tree s) q).
Proof.
  intros Hentry Ht Ht63 Hold Hready Hzero Hden.
  destruct (den_bsdiff_some _ _ _ Hden) as (Hseek & Hlast & offf & Happ).
  pose proof (znth_Some _ _ _ Ht) as Hr.
  unfold process_bsdiff.
  assert (Hbh : as_bh (MBH (mkBH t)) = mkBH t).
  { apply as_bh_own. cbn [pmsg_ok bh_target]. unfold i64_ok. lia. }
  rewrite Hbh. cbn [bh_target].
  destruct ((t <? 0) || (t >=? Z.of_nat (length (c_files oldC)))) eqn:E; [lia|].
  unfold pool_open. rewrite Ht, Hold. cbn [bind].
  unfold open_writer. rewrite Hentry.
  assert (Hr1 : file_ready (p_tree (ev (ev s (EvRead t)) (EvWriter idx))) p) by exact Hready.
  rewrite (entry_open_ready _ _ Hr1). cbn [bind].
  set (w0 := mkW (mkP (p_tree (ev (ev s (EvRead t)) (EvWriter idx))) (p_trace (ev (ev s (EvRead t)) (EvWriter idx)))) p 0).
  assert (Hg : wgood p (length data) w0 []).
  { unfold wgood, w0. cbn [w_path w_off w_st p_tree ev length app]. rewrite Nat.sub_0_r. repeat split. exact Hzero. }
  destruct (ctrl_loop_series p (length data) oldt b 0 data offf w0 [] (hey_msg :: rest) Hseek Hlast Happ Hg) as (w' & Ec & Hw' & Hfr);
    [cbn [length]; lia|].
  rewrite Ec. cbn [bind fst snd]. rewrite as_so_hey. cbn [so_type]. rewrite Z.eqb_refl. cbn [negb].
  destruct Hw' as (Hp & Ho & Hf). cbn [app] in Ho, Hf. rewrite Ho, Z.eqb_refl.
  exists (w_st w'). split; [reflexivity|]. split.
  - rewrite Hf, Nat.sub_diag. cbn [zeros repeat]. rewrite app_nil_r. reflexivity.
  - intros q Hq. rewrite Hfr by assumption. reflexivity.
Qed.

(* ------------------------------------------------------------------ 2. C07's [bsdiff_roundtrip], by C12 *)

Lemma bytes_okb_spec l : bytes_okb l = true <-> RoundtripProofs.bytes_ok l.
Proof.
  unfold bytes_okb, RoundtripProofs.bytes_ok. rewrite forallb_forall, Forall_forall.
  split; intros H x Hx; specialize (H x Hx); lia.
Qed.

Lemma copy_series_den old new : den_bsdiff (copy_series new) old = Some new.
Proof.
  unfold den_bsdiff, copy_series.
  assert (Hs : forallb seek_okb [([], new, 0, false); Scan.ctrl_eof] && eof_lastb [([], new, 0, false); Scan.ctrl_eof] = true) by reflexivity.
  rewrite Hs. cbn [Bsdiff.Patch.apply_series Scan.c_eof Scan.ctrl_eof].
  unfold Bsdiff.Patch.apply_ctrl. cbn [Scan.c_add Scan.c_copy Scan.c_seek length firstn Bsdiff.Patch.adder app].
  pose proof (ScanProofs.len_nonneg _ old) as Hl.
  destruct ((0 <? 0) || (0 >? Scan.len old)) eqn:E; [lia|].
  cbn [Nat.ltb Nat.leb option_map fst]. rewrite app_nil_r. reflexivity.
Qed.

(** [writeMessages]: the control before the eof control always carries Seek 0 *)
Lemma write_loop_tail old new : forall ms prev cs,
  Scan.write_loop old new prev ms = Scan.Ok cs ->
  exists pre a c, cs = pre ++ [(a, c, 0, false); Scan.ctrl_eof].
Proof.
  induction ms as [|m ms IH]; intros prev cs H; cbn [Scan.write_loop] in H.
  - injection H as <-. destruct prev as [[[pm pa] pc]|]; [exists [], pa, pc|exists [], [], []]; reflexivity.
  - destruct (Scan.match_payload old new m) as [[a c]| |]; cbn [Scan.bind] in H; try discriminate.
    destruct prev as [[[pm pa] pc]|].
    + destruct (Scan.write_loop old new (Some (m, a, c)) ms) as [rest| |] eqn:E; cbn [Scan.bind] in H; try discriminate.
      injection H as <-. destruct (IH _ _ E) as (pre & a' & c' & ->).
      eexists (_ :: pre), a', c'. reflexivity.
    + eapply IH; eassumption.
Qed.

Lemma bsdiff_do_tail bsz srch partitions old new cs :
  Scan.bsdiff_do bsz srch partitions old new = Scan.Ok cs ->
  cs = [Scan.ctrl_eof] \/ exists pre a c, cs = pre ++ [(a, c, 0, false); Scan.ctrl_eof].
Proof.
  unfold Scan.bsdiff_do, Scan.bsdiff_do_gen. destruct (Scan.len new =? 0); [intros [= <-]; left; reflexivity|].
  destruct (negb true && (Scan.len old =? 0)); [discriminate|].
  destruct (Scan.block_geometry true bsz (Scan.len new) _) as [[blockSize numBlocks]| |]; cbn [Scan.bind]; try discriminate.
  destruct (Scan.blocks_loop _ _ _ _ _ _ _) as [ms| |]; cbn [Scan.bind]; try discriminate.
  intros H. right. eapply write_loop_tail. eassumption.
Qed.

Lemma apply_series_head old off h r out offf :
  Bsdiff.Patch.apply_series old off (h :: r) = Some (out, offf) -> Scan.c_eof h = false ->
  0 <= off <= Z.of_nat (length old).
Proof.
  cbn [Bsdiff.Patch.apply_series]. intros H He. rewrite He in H.
  destruct (Bsdiff.Patch.apply_ctrl old off h) as [[o off']|] eqn:E; [|discriminate].
  apply apply_ctrl_some in E. lia.
Qed.

(** a series that applies from a valid offset only seeks within the old file: between two
    applied controls the old offset stays in [0, |old|] *)
Lemma apply_series_seeks old last e : forall pre off out offf,
  Forall (fun c => Scan.c_eof c = false) pre -> Scan.c_eof last = false ->
  Bsdiff.Patch.apply_series old off (pre ++ [last; e]) = Some (out, offf) ->
  Forall (fun c => - Z.of_nat (length old) <= Scan.c_seek c <= Z.of_nat (length old)) pre.
Proof.
  induction pre as [|c pre IH]; intros off out offf Hne Hl H; [constructor|].
  inversion Hne as [|? ? Hc Hne']; subst. cbn [app Bsdiff.Patch.apply_series] in H. rewrite Hc in H.
  destruct (Bsdiff.Patch.apply_ctrl old off c) as [[o off']|] eqn:E; [|discriminate].
  destruct (Bsdiff.Patch.apply_series old off' (pre ++ [last; e])) as [[o2 off2]|] eqn:Er; [|discriminate].
  constructor; [|eapply IH; eassumption].
  apply apply_ctrl_some in E. destruct E as (H0 & Hadd & _ & ->).
  assert (Hin : 0 <= off + Z.of_nat (length (Scan.c_add c)) + Scan.c_seek c <= Z.of_nat (length old)).
  { destruct pre as [|c2 pre]; cbn [app] in Er; (eapply apply_series_head; [exact Er|]); [assumption|].
    inversion Hne'; assumption. }
  lia.
Qed.

Lemma eof_lastb_app cs : Forall (fun c => Scan.c_eof c = false) cs -> eof_lastb (cs ++ [Scan.ctrl_eof]) = true.
Proof.
  induction 1 as [|c cs Hc _ IH]; [reflexivity|]. cbn [app eof_lastb].
  destruct (cs ++ [Scan.ctrl_eof]) eqn:E; [destruct cs; discriminate|]. rewrite Hc, IH. reflexivity.
Qed.

Lemma pow63_pos : 2^63 = 9223372036854775808. Proof. reflexivity. Qed.

Section BsdiffInstanceProofs.
  Variable bsz : Z.
  Variable search : list byte -> N -> list byte -> Z * Z.
  Variable partitions : Z.
  Hypothesis Hbsz : 0 < bsz.
  Hypothesis Hparts : 0 <= partitions.
  Hypothesis Hsearch : forall old bi, ScanProofs.search_in_range (Scan.len old) (search old bi).

  (** on byte strings of a length Go can hold, Do returns a series; C12's [bspatch] of it is
      the new file, and it is a series [den_bsdiff] accepts: the only eof control is the last,
      every seek is an int64 *)
  Lemma bsd_go_den old new :
    RoundtripProofs.bytes_ok old -> RoundtripProofs.bytes_ok new -> Scan.len old < 2^63 ->
    exists b, bsd_go bsz search partitions old new = Scan.Ok b /\ den_bsdiff b old = Some new.
  Proof.
    intros Ho Hn Hlen.
    destruct (RoundtripProofs.bsdiff_roundtrip_lemma bsz (search old) partitions old new Hbsz Hparts (Hsearch old) Ho Hn)
      as (cs & Edo & Hne & Hpatch).
    exists (cs ++ [Scan.ctrl_eof]). split; [exact Edo|].
    unfold Bsdiff.Patch.bspatch in Hpatch.
    destruct (Bsdiff.Patch.apply_series old 0 (cs ++ [Scan.ctrl_eof])) as [[o offf]|] eqn:Ea; [|discriminate].
    destruct (Scan.len o =? Scan.len new); [|discriminate]. injection Hpatch as ->.
    unfold den_bsdiff. rewrite (eof_lastb_app cs Hne), Ea. cbn [option_map fst].
    assert (Hseek : forallb seek_okb (cs ++ [Scan.ctrl_eof]) = true); [|rewrite Hseek; reflexivity].
    unfold Scan.len in Hlen. rewrite pow63_pos in Hlen.
    assert (Hbound : forall c, - Z.of_nat (length old) <= Scan.c_seek c <= Z.of_nat (length old) -> seek_okb c = true).
    { intros c Hc. unfold seek_okb. rewrite pow63_pos. lia. }
    destruct (bsdiff_do_tail _ _ _ _ _ _ Edo) as [E|(pre & a & c & E)].
    - rewrite E. reflexivity.
    - replace (pre ++ [(a, c, 0, false); Scan.ctrl_eof]) with ((pre ++ [(a, c, 0, false)]) ++ [Scan.ctrl_eof]) in E
        by (rewrite <- app_assoc; reflexivity).
      apply app_inj_tail in E. destruct E as [-> _].
      rewrite <- app_assoc in Ea. cbn [app] in Ea.
      apply Forall_app in Hne. destruct Hne as [Hpre _].
      pose proof (apply_series_seeks old (a, c, 0, false) Scan.ctrl_eof pre 0 new offf Hpre eq_refl Ea) as Hb.
      rewrite !forallb_app. cbn [forallb]. rewrite andb_true_r.
      apply andb_true_intro. split; [|reflexivity].
      apply forallb_forall. intros x Hx. apply Hbound. rewrite Forall_forall in Hb. apply Hb. assumption.
  Qed.

  (** C07's hypothesis [bsdiff_roundtrip] for the instance - for ALL contents *)
  Lemma bsd_series_roundtrip : forall old new, den_bsdiff (bsd_series bsz search partitions old new) old = Some new.
  Proof.
    intros old new. unfold bsd_series.
    destruct (bytes_okb old && bytes_okb new && (Scan.len old <? 2^63)) eqn:G; [|apply copy_series_den].
    apply andb_prop in G. destruct G as [G G3]. apply andb_prop in G. destruct G as [G1 G2].
    apply bytes_okb_spec in G1. apply bytes_okb_spec in G2. apply Z.ltb_lt in G3.
    destruct (bsd_go_den old new G1 G2 G3) as (b & -> & Hd). exact Hd.
  Qed.

  (** ... and on bytes the instance is Do's own output: Do does not fail *)
  Lemma bsd_series_is_go old new :
    RoundtripProofs.bytes_ok old -> RoundtripProofs.bytes_ok new -> Scan.len old < 2^63 ->
    bsd_go bsz search partitions old new = Scan.Ok (bsd_series bsz search partitions old new).
  Proof.
    intros Ho Hn Hlen. unfold bsd_series.
    rewrite (proj2 (bytes_okb_spec old) Ho), (proj2 (bytes_okb_spec new) Hn), (proj2 (Z.ltb_lt _ _) Hlen). cbn [andb].
    destruct (bsd_go_den old new Ho Hn Hlen) as (b & -> & _). reflexivity.
  Qed.
End BsdiffInstanceProofs.

Lemma psa_oracle_in_range partitions :
  forall old bi, ScanProofs.search_in_range (Scan.len old) (psa_oracle partitions old bi).
Proof. intros old bi. unfold psa_oracle. apply SuffixProofs.psa_search_in_range. Qed.

(* ------------------------------------------------------------------ 3. the files of [write_patch] are valid inputs of C07 *)

Lemma preferred_from_range files p : forall i acc,
  preferred_from files p i acc = acc \/ i <= preferred_from files p i acc < i + Z.of_nat (length files).
Proof.
  induction files as [|[q sz] files IH]; intros i acc; cbn [preferred_from length]; [left; reflexivity|].
  destruct (IH (i + 1) (if path_eqb q p then i else acc)) as [E|E].
  - rewrite E. destruct (path_eqb q p); [right; lia|left; reflexivity].
  - right. lia.
Qed.

Lemma same_path_in_range oldC p k : same_path oldC p = Some k -> in_range (tsizes_of oldC) k.
Proof.
  unfold same_path, preferred_index, in_range, tsizes_of. rewrite map_length.
  destruct (preferred_from_range (c_files oldC) p 0 (-1)) as [E|E].
  - rewrite E. cbn. discriminate.
  - destruct (preferred_from (c_files oldC) p 0 (-1) <? 0) eqn:E0; [discriminate|]. intros [= <-]. lia.
Qed.

Lemma tsizes_length old : length (contents_of old) = length (tsizes_of (container_of old)).
Proof. unfold contents_of, tsizes_of. cbn [container_of c_files]. rewrite !map_length. reflexivity. Qed.

(** the analysis never indexes the old container out of range on ops whose ranges are in bounds *)
Lemma scan_ops_total bs olds tsizes ops :
  length olds = length tsizes -> Forall (range_ok bs olds) ops ->
  forall s, exists s', scan_ops bs tsizes (map sop_of ops) s = Some s'.
Proof.
  intros Hlen. induction 1 as [|o ops Ho _ IH]; intros s; cbn [map scan_ops]; [eexists; reflexivity|].
  destruct o as [f i sp|d]; cbn [sop_of]; [|apply IH].
  destruct Ho as (d & Hd & _). apply znth_Some in Hd.
  destruct (f <? 0) eqn:Ef; [lia|].
  destruct (nth_error tsizes (Z.to_nat f)) as [size|] eqn:En; [apply IH|].
  apply nth_error_None in En. lia.
Qed.

Section Valid.
  Variables (bs : Z) (differ : Z -> list byte -> list op) (old : build).
  Hypothesis DOK : diff_ok bs (contents_of old) differ.

  (** C07's [original_correct] for the series WritePatch emits: what C01 assumes of the differ *)
  Lemma original_correct_instance f ord :
    let '(_, _, _, _, orig, new) := file_in_of differ (container_of old) f ord in
    den_rsync bs orig (contents_of old) = Some new.
  Proof.
    unfold file_in_of, den_rsync. destruct (DOK (preferred_index (container_of old) (fst f)) (snd f)) as (_ & -> & _). reflexivity.
  Qed.

  Lemma file_valid_instance f ord :
    order_ok bs (tsizes_of (container_of old)) (file_in_of differ (container_of old) f ord) ->
    file_valid (den_rsync bs) bs (tsizes_of (container_of old)) (contents_of old) (file_in_of differ (container_of old) f ord).
  Proof.
    intros Hord. pose proof (original_correct_instance f ord) as Hoc.
    unfold file_in_of in *. cbn beta iota zeta in *. unfold file_valid. split; [|split].
    - destruct (DOK (preferred_index (container_of old) (fst f)) (snd f)) as (_ & _ & Hall).
      destruct (scan_ops_total bs _ _ _ (tsizes_length old) Hall scan0) as (s' & E).
      assert (Er : reused bs (tsizes_of (container_of old))
                     (map sop_of (differ (preferred_index (container_of old) (fst f)) (snd f))) = Some (sm s'))
        by (unfold reused; rewrite E; reflexivity).
      exists (sm s'). split; [exact Er|]. apply Hord. exact Er.
    - intros k. apply same_path_in_range.
    - exact Hoc.
  Qed.
End Valid.

(* ------------------------------------------------------------------ shape of what the two passes return *)

Lemma analyze_all_shape {Content RSeries : Type} bs force limit tsizes :
  forall (fs : list (@file_in Content RSeries)) xs,
    analyze_all bs force limit tsizes fs = Some xs ->
    map fst xs = map (fun f : @file_in Content RSeries => (snd (fst f), snd f)) fs.
Proof.
  induction fs as [|[[[[[ssize sp] ops] ord] orig] new] fs IH]; intros xs H; cbn [analyze_all] in H.
  - injection H as <-. reflexivity.
  - destruct (analyze_file bs force limit tsizes ssize sp ops ord); [|discriminate].
    destruct (analyze_all bs force limit tsizes fs) as [xs'|]; [|discriminate].
    injection H as <-. cbn [map fst snd]. rewrite (IH xs' eq_refl). reflexivity.
Qed.

Lemma optimize_Forall2 {Content RSeries BSeries : Type} (bsd : Content -> Content -> BSeries) olds :
  forall (xs : list (RSeries * Content * option (Z * Z))) opt,
    optimize bsd olds xs = Some opt -> Forall2 (fun x s => optimize_file bsd olds x = Some s) xs opt.
Proof.
  induction xs as [|x xs IH]; intros opt H; cbn [optimize] in H.
  - injection H as <-. constructor.
  - destruct (optimize_file bsd olds x) as [s|] eqn:E; [|discriminate].
    destruct (optimize bsd olds xs) as [ss|]; [|discriminate]. injection H as <-.
    constructor; [assumption|apply IH; reflexivity].
Qed.

(* ------------------------------------------------------------------ 4. the C01 patcher on rendered series *)

Lemma render_all_original differ oldC : forall fs i,
  render_all i (map (fun f : path * list byte => Rsync (differ (preferred_index oldC (fst f)) (snd f))) fs)
  = all_series differ oldC i fs.
Proof.
  induction fs as [|f fs IH]; intros i; cbn [map render_all all_series]; [reflexivity|].
  rewrite IH. reflexivity.
Qed.

Section Apply.
  Variables (bs : Z) (differ : Z -> list byte -> list op) (old new : build).
  Hypothesis Hbs : 0 < bs.
  Hypothesis WFN : wf_build new.
  Hypothesis FO : fits63 old.
  Hypothesis FN : fits63 new.
  Hypothesis DOK : diff_ok bs (contents_of old) differ.

  Let oldC := container_of old.
  Let newC := container_of new.
  Let olds := contents_of old.
  Let files := files_of new.

  (** a series that stands for new file [f]: the differ's own operations, or a bsdiff series
      whose denotation against the old file it names is [f]'s content *)
  Definition sgood (f : path * list byte) (s : oseries) : Prop :=
    match s with
    | Rsync r => r = differ (preferred_index oldC (fst f)) (snd f)
    | Bsdiff t b => exists o, znth olds t = Some o /\ den_bsdiff b o = Some (snd f)
    end.

  Lemma Inv_step t0 idx s s1 p data :
    Inv new t0 idx s -> znth files idx = Some (p, data) ->
    tlookup (p_tree s1) p = Some (File data) ->
    (forall q, q <> p -> tlookup (p_tree s1) q = tlookup (p_tree s) q) ->
    Inv new t0 (idx + 1) s1.
  Proof.
    intros [HIf HIo] Hfile Hdata Hfr. destruct (HIf idx p data Hfile) as [Hready Hzero].
    rewrite Z.ltb_irrefl in Hzero. split.
    - intros j pj dj Hj. destruct (Z.eq_dec j idx) as [->|Hne].
      + fold files in Hj. rewrite Hfile in Hj. injection Hj as <- <-.
        destruct (Z.ltb_spec idx (idx + 1)); [|lia]. split; [|exact Hdata].
        apply (file_ready_frame (p_tree s) _ p p Hready Hfr); [exists (zeros (length data))|exists data]; assumption.
      + assert (Hp : pj <> p).
        { intros ->. apply Hne. eapply (znth_NoDup_fst files); [apply files_nodup_new; exact WFN|eassumption|eassumption]. }
        destruct (HIf j pj dj Hj) as [Rj Lj]. split.
        * apply (file_ready_frame (p_tree s) _ p pj Rj Hfr); [exists (zeros (length data))|exists data]; assumption.
        * rewrite Hfr by assumption. rewrite Lj.
          destruct (Z.ltb_spec j idx), (Z.ltb_spec j (idx + 1)); try reflexivity; lia.
    - intros q Hq. rewrite Hfr; [apply HIo; assumption|].
      intros ->. apply (Hq data). eapply znth_In. eassumption.
  Qed.

  (** one iteration of the Resume loop on the frames of one series *)
  Lemma run_series idx p data sr rest s n tch :
    znth files idx = Some (p, data) -> sgood (p, data) sr ->
    file_ready (p_tree s) p -> tlookup (p_tree s) p = Some (File (zeros (length data))) ->
    exists s1, run_files bs oldC newC olds None (S n) idx (render idx sr ++ rest) s tch
               = run_files bs oldC newC olds None n (idx + 1) rest s1 (tch + 1) /\
      tlookup (p_tree s1) p = Some (File data) /\
      (forall q, q <> p -> tlookup (p_tree s1) q = tlookup (p_tree s) q).
  Proof.
    intros Hfile Hgood Hready Hzero.
    pose proof (znth_Some _ _ _ Hfile) as Hidx.
    assert (Hsh : forall k, k = SH_RSYNC \/ k = SH_BSDIFF -> as_sh (MSH (mkSH k idx)) = mkSH k idx).
    { intros k Hk. apply as_sh_own. cbn [pmsg_ok sh_type sh_file]. destruct FN as [Fn _]. fold files in Fn.
      unfold i32_ok, i64_ok. rewrite pow63_pos in *. change (2^31) with 2147483648.
      unfold SH_RSYNC, SH_BSDIFF in Hk. lia. }
    destruct sr as [r|t b]; cbn [sgood fst snd] in Hgood; cbn [render app run_files].
    - subst r. rewrite (Hsh SH_RSYNC (or_introl eq_refl)). cbn [sh_file sh_type]. rewrite Z.eqb_refl.
      unfold process_file. cbn [negb SH_RSYNC Z.eqb orb wl_skip]. rewrite <- app_assoc. cbn [app].
      destruct (process_series_ok bs differ old new Hbs FO DOK idx p data rest s Hfile Hready Hzero) as (s1 & Ep & Hdata & Hfr).
      fold oldC newC olds in Ep. rewrite Ep. cbn [bind fst snd]. exists s1. split; [reflexivity|]. split; assumption.
    - destruct Hgood as (o & Ho & Hden). rewrite (Hsh SH_BSDIFF (or_intror eq_refl)). cbn [sh_file sh_type]. rewrite Z.eqb_refl.
      unfold process_file. cbn [negb SH_RSYNC SH_BSDIFF Z.eqb orb wl_skip]. rewrite <- app_assoc. cbn [app].
      destruct (old_aligned old t o Ho) as [pt Hc].
      pose proof (znth_Some _ _ _ Ho) as Ht. unfold olds, contents_of in Ht. rewrite map_length in Ht.
      destruct FO as [Fo _]. rewrite pow63_pos in Fo.
      destruct (process_bsdiff_realized oldC newC olds idx p data t pt (Z.of_nat (length o)) o b rest s) as (s1 & Ep & Hdata & Hfr);
        try assumption; [apply new_file_entry; assumption|rewrite pow63_pos; lia|].
      rewrite Ep. cbn [bind fst snd]. exists s1. split; [reflexivity|]. split; assumption.
  Qed.

  Variable t0 : tree.

  (** the Resume loop over any list of series that stand for the remaining new files *)
  Lemma run_files_rendered : forall (fss : list ((path * list byte) * oseries)) idx s tch,
    0 <= idx -> idx + Z.of_nat (length fss) = Z.of_nat (length files) ->
    (forall k f sr, nth_error fss k = Some (f, sr) -> znth files (idx + Z.of_nat k) = Some f) ->
    Forall (fun fsr => sgood (fst fsr) (snd fsr)) fss ->
    Inv new t0 idx s ->
    exists s', run_files bs oldC newC olds None (length fss) idx (render_all idx (map snd fss)) s tch
               = Ok (s', tch + Z.of_nat (length fss)) /\ Inv new t0 (Z.of_nat (length files)) s'.
  Proof.
    induction fss as [|[[p data] sr] fss IH]; intros idx s tch Hidx Hlen Hfs Hgood HI.
    - cbn [length map render_all run_files]. exists s. rewrite Z.add_0_r. split; [reflexivity|].
      cbn [length] in Hlen. rewrite <- Hlen, Z.add_0_r. exact HI.
    - cbn [length map render_all snd].
      pose proof (Hfs 0%nat (p, data) sr eq_refl) as Hfile. rewrite Z.add_0_r in Hfile.
      inversion Hgood as [|? ? Hg1 Hg2]; subst. cbn [fst snd] in Hg1.
      destruct (proj1 HI idx p data Hfile) as [Hready Hzero]. rewrite Z.ltb_irrefl in Hzero.
      destruct (run_series idx p data sr (render_all (idx + 1) (map snd fss)) s (length fss) tch Hfile Hg1 Hready Hzero)
        as (s1 & E1 & Hdata & Hfr).
      rewrite E1.
      pose proof (Inv_step t0 idx s s1 p data HI Hfile Hdata Hfr) as HI1.
      destruct (IH (idx + 1) s1 (tch + 1)) as (s' & Er & HI'); [lia|cbn [length] in Hlen; lia| |exact Hg2|exact HI1|].
      { intros k f sr' Hk. replace (idx + 1 + Z.of_nat k) with (idx + Z.of_nat (S k)) by lia. eapply Hfs. exact Hk. }
      exists s'. split; [|exact HI']. rewrite Er. f_equal. f_equal. lia.
  Qed.
End Apply.

Lemma Forall2_len {A B} (R : A -> B -> Prop) l1 l2 : Forall2 R l1 l2 -> length l1 = length l2.
Proof. induction 1; cbn [length]; congruence. Qed.

(** the patcher applied to a patch whose series stand for the new files, into an empty
    directory: Ok, every file touched, the tree is the new build *)
Lemma apply_rendered_fresh bs differ old new algo quality (opt : list oseries) :
  0 < bs -> wf_build new -> fits63 old -> fits63 new -> diff_ok bs (contents_of old) differ ->
  Forall2 (sgood differ old) (files_of new) opt ->
  exists t touched trace,
    apply_patch_fresh bs (contents_of old) None (optimized_patch algo quality old new opt) = Ok (t, touched, trace) /\
    touched = Z.of_nat (length (files_of new)) /\
    forall p, tlookup t p = tlookup new p.
Proof.
  intros Hbs WFN FO FN DOK Hopt. unfold apply_patch_fresh, optimized_patch, read_patch.
  rewrite frames_msgs_map. cbn [option_map]. unfold apply_fresh.
  pose proof (wf_container_of new WFN) as WFC.
  destruct (prepare_spec (container_of new) WFC) as (t0 & E0 & H0). rewrite E0. cbn [bind].
  assert (HI0 : Inv new t0 0 (mkP t0 [])).
  { split.
    - intros j p d Hj. pose proof (new_file_entry new j p d Hj) as He.
      destruct (prepared_ready (container_of new) t0 j p (Z.of_nat (length d)) WFC H0 He) as [R Lk].
      rewrite Nat2Z.id in Lk. cbn [p_tree]. split; [exact R|].
      destruct (Z.ltb_spec j 0) as [Hneg|_]; [apply znth_Some in Hj; lia|exact Lk].
    - reflexivity. }
  set (fss := combine (files_of new) opt).
  pose proof (Forall2_len _ _ _ Hopt) as Hlen.
  assert (Hfst : map fst fss = files_of new) by (unfold fss; clear -Hlen; revert opt Hlen; induction (files_of new) as [|f fs IH]; intros [|s opt] H; cbn in *; try reflexivity; try discriminate; f_equal; apply IH; lia).
  assert (Hsnd : map snd fss = opt) by (unfold fss; clear -Hlen; revert opt Hlen; induction (files_of new) as [|f fs IH]; intros [|s opt] H; cbn in *; try reflexivity; try discriminate; f_equal; apply IH; lia).
  assert (Hl : length fss = length (files_of new)) by (rewrite <- Hfst, map_length; reflexivity).
  destruct (run_files_rendered bs differ old new Hbs WFN FO FN DOK t0 fss 0 (mkP t0 []) 0) as (s' & Er & HI');
    [lia|lia| | |exact HI0|].
  { intros k f sr Hk. unfold znth. cbn [Z.add]. destruct (Z.ltb_spec (Z.of_nat k) 0); [lia|]. rewrite Nat2Z.id.
    rewrite <- Hfst, nth_error_map, Hk. reflexivity. }
  { unfold fss. clear -Hopt. induction Hopt; cbn [combine]; constructor; assumption. }
  rewrite Hsnd, Hl in Er. cbn [container_of c_files] in *. rewrite map_length. rewrite Er. cbn [bind fst snd].
  eexists _, _, _. split; [reflexivity|]. split; [lia|].
  intros p. destruct HI' as [HIf HIo]. destruct WFN as (ND & NR & PC).
  destruct (tlookup new p) as [[d| |d]|] eqn:E.
  - apply tlookup_in in E. apply in_files_of in E. apply In_nth_error in E. destruct E as [k Hk].
    destruct (HIf (Z.of_nat k) p d) as [_ Lk].
    { unfold znth. destruct (Z.ltb_spec (Z.of_nat k) 0); [lia|]. rewrite Nat2Z.id. exact Hk. }
    rewrite Lk. assert (Hlt : (k < length (files_of new))%nat) by (apply nth_error_Some; rewrite Hk; discriminate).
    destruct (Z.ltb_spec (Z.of_nat k) (Z.of_nat (length (files_of new)))); [reflexivity|lia].
  - rewrite HIo, H0, <- E; [apply ctree_of_build_nonfile; [repeat split; assumption|]|];
      intros d Hd; apply in_files_of in Hd; apply (tlookup_nodup new p _ ND) in Hd; rewrite E in Hd; discriminate.
  - rewrite HIo, H0, <- E; [apply ctree_of_build_nonfile; [repeat split; assumption|]|];
      intros d' Hd; apply in_files_of in Hd; apply (tlookup_nodup new p _ ND) in Hd; rewrite E in Hd; discriminate.
  - rewrite HIo, H0, <- E; [apply ctree_of_build_nonfile; [repeat split; assumption|]|];
      intros d Hd; apply in_files_of in Hd; apply (tlookup_nodup new p _ ND) in Hd; rewrite E in Hd; discriminate.
Qed.

(* ------------------------------------------------------------------ 5. composition *)

Lemma Forall2_and_maps {X S K} (R : X -> S -> Prop) (a : S -> K) (k : X -> K) xs ss :
  Forall2 R xs ss -> map a ss = map k xs -> Forall2 (fun x s => R x s /\ a s = k x) xs ss.
Proof.
  induction 1 as [|x s xs ss Hr _ IH]; intros Hm; [constructor|]. cbn [map] in Hm. injection Hm as Hhd Htl.
  constructor; [split; assumption|apply IH; assumption].
Qed.

Lemma Forall2_relabel {X X' F S} (h : X -> X') (g : F -> X') (R : X -> S -> Prop) (Q : F -> S -> Prop) :
  (forall x f s, h x = g f -> R x s -> Q f s) ->
  forall xs fs ss, map h xs = map g fs -> Forall2 R xs ss -> Forall2 Q fs ss.
Proof.
  intros HQ. induction xs as [|x xs IH]; intros [|f fs] ss Hm Hr; cbn [map] in Hm; try discriminate;
    inversion Hr; subst; constructor.
  - injection Hm as Hhd _. eapply HQ; eassumption.
  - injection Hm as _ Htl. apply IH; assumption.
Qed.

Lemma Forall2_with_Forall {X S} (A : X -> Prop) (R R' : X -> S -> Prop) :
  (forall x s, A x -> R x s -> R' x s) ->
  forall xs ss, Forall A xs -> Forall2 R xs ss -> Forall2 R' xs ss.
Proof.
  intros H xs ss Ha Hr. induction Hr as [|x s xs ss Hxs _ IH]; [constructor|].
  inversion Ha; subst. constructor; [apply H; assumption|apply IH; assumption].
Qed.

Lemma file_ins_originals differ old new ords :
  length ords = length (files_of new) ->
  map (fun f : @file_in (list byte) rseries => (snd (fst f), snd f)) (file_ins differ old new ords) = originals differ old new.
Proof.
  unfold file_ins, originals. generalize (files_of new) as fs. intros fs. revert ords.
  induction fs as [|f fs IH]; intros [|o ords] H; cbn [length combine map] in *; try reflexivity; try discriminate.
  rewrite IH by lia. reflexivity.
Qed.

Lemma write_patch_as_rendered differ algo quality old new :
  write_patch differ algo quality old new = optimized_patch algo quality old new (map (fun x => Rsync (fst x)) (originals differ old new)).
Proof.
  unfold write_patch, optimized_patch, patch_msgs, originals. rewrite map_map. cbn [fst].
  rewrite render_all_original. reflexivity.
Qed.

Section Compose.
  Variables (bs : Z) (differ : Z -> list byte -> list op) (old new : build).
  Variables (bsz : Z) (search : list byte -> N -> list byte -> Z * Z) (partitions : Z).
  Hypothesis Hbs : 0 < bs.
  Hypothesis WFN : wf_build new.
  Hypothesis FO : fits63 old.
  Hypothesis FN : fits63 new.
  Hypothesis DOK : diff_ok bs (contents_of old) differ.
  Hypothesis BO : build_bytes old.
  Hypothesis BN : build_bytes new.
  Hypothesis Hbsz : 0 < bsz.
  Hypothesis Hparts : 0 <= partitions.
  Hypothesis Hsearch : forall o bi, ScanProofs.search_in_range (Scan.len o) (search o bi).

  Let olds := contents_of old.
  Let bsd := bsd_series bsz search partitions.

  (** whatever series list the second pass returns for the files of the patch, if C07's
      abstract application of it yields the new files then (a) it is what the Go code writes
      and (b) the C01 patcher applied to its frames yields the new build *)
  Lemma realize xs opt algo quality :
    map fst xs = originals differ old new ->
    optimize bsd olds xs = Some opt ->
    apply_patch (den_rsync bs) den_bsdiff olds opt = map (fun x => Some (snd (fst x))) xs ->
    Forall2 (written_by_go bsz search partitions olds) xs opt /\
    exists t touched trace,
      apply_patch_fresh bs olds None (optimized_patch algo quality old new opt) = Ok (t, touched, trace) /\
      touched = Z.of_nat (length (files_of new)) /\
      forall p, tlookup t p = tlookup new p.
  Proof.
    intros Hxs Eo En. pose proof (optimize_Forall2 bsd olds xs opt Eo) as Hf. split.
    - (* what Go computes *)
      assert (Hbytes : Forall (fun x : rseries * list byte * option (Z * Z) => RoundtripProofs.bytes_ok (snd (fst x))) xs).
      { assert (E : map (fun x : rseries * list byte * option (Z * Z) => snd (fst x)) xs = contents_of new).
        { rewrite <- (map_map fst snd), Hxs. unfold originals, contents_of. rewrite map_map. reflexivity. }
        unfold build_bytes in BN. rewrite <- E in BN. rewrite Forall_map in BN. exact BN. }
      refine (Forall2_with_Forall _ _ _ _ xs opt Hbytes Hf).
      intros [[orig newc] mapping] s Hb Ho. cbn [fst snd] in Hb. unfold written_by_go. cbn [optimize_file fst snd] in *.
      destruct mapping as [[t nb]|]; [|injection Ho as <-; reflexivity].
      destruct (t <? 0) eqn:Et; [discriminate|].
      destruct (nth_error olds (Z.to_nat t)) as [o|] eqn:En'; [|discriminate]. injection Ho as <-.
      exists o, (bsd o newc). split; [unfold znth; rewrite Et; exact En'|]. split; [|reflexivity].
      apply bsd_series_is_go; try assumption.
      + unfold build_bytes in BO. rewrite Forall_forall in BO. apply BO. eapply nth_error_In. exact En'.
      + destruct FO as [_ Fl]. rewrite Forall_forall in Fl. apply Fl. eapply nth_error_In. exact En'.
    - (* what the patcher makes of it *)
      apply (apply_rendered_fresh bs differ old new algo quality opt Hbs WFN FO FN DOK).
      pose proof (Forall2_and_maps _ (apply_series (den_rsync bs) den_bsdiff olds) (fun x => Some (snd (fst x))) xs opt Hf En) as Hp.
      refine (Forall2_relabel fst (fun f : path * list byte => (differ (preferred_index (container_of old) (fst f)) (snd f), snd f))
                _ (sgood differ old) _ xs (files_of new) opt Hxs Hp).
      intros [[orig newc] mapping] f s Hx [Ho Ha]. cbn [fst snd] in *. injection Hx as -> ->.
      cbn [optimize_file] in Ho. destruct mapping as [[t nb]|]; [|injection Ho as <-; reflexivity].
      destruct (t <? 0) eqn:Et; [discriminate|].
      destruct (nth_error olds (Z.to_nat t)) as [o|] eqn:En'; [|discriminate]. injection Ho as <-.
      cbn [apply_series sgood] in *. rewrite Et, En' in Ha. exists o. split; [unfold znth; rewrite Et; exact En'|exact Ha].
  Qed.

  (** pass 2 alone: ANY mapping whose old-file indices exist (so also the one the repaired
      analysis picks by visiting the candidates in index order) *)
  Lemma optimize_any_mapping_lemma xs algo quality :
    map fst xs = originals differ old new ->
    Forall (mapping_in_range olds) xs ->
    exists opt t touched trace,
      optimize bsd olds xs = Some opt /\
      Forall2 (written_by_go bsz search partitions olds) xs opt /\
      apply_patch_fresh bs olds None (optimized_patch algo quality old new opt) = Ok (t, touched, trace) /\
      touched = Z.of_nat (length (files_of new)) /\
      forall p, tlookup t p = tlookup new p.
  Proof.
    intros Hxs Hr.
    assert (Hc : Forall (original_correct (den_rsync bs) olds) xs).
    { assert (Ho : Forall (fun od : rseries * list byte => den_rsync bs (fst od) olds = Some (snd od)) (map fst xs)).
      { rewrite Hxs. unfold originals. rewrite Forall_map. apply Forall_forall. intros f _. cbn [fst snd].
        unfold den_rsync, olds. destruct (DOK (preferred_index (container_of old) (fst f)) (snd f)) as (_ & -> & _). reflexivity. }
      rewrite Forall_map in Ho. exact Ho. }
    destruct (optimize_preserves_lemma (den_rsync bs) den_bsdiff bsd
                (bsd_series_roundtrip bsz search partitions Hbsz Hparts Hsearch) olds xs Hr Hc) as (opt & Eo & _ & En).
    destruct (realize xs opt algo quality Hxs Eo En) as (Hgo & t & touched & trace & Ha & Ht & Htree).
    exists opt, t, touched, trace. repeat split; assumption.
  Qed.

  (** both passes, every parameter setting, every iteration order of every reused-bytes map *)
  Lemma optimize_preserves_instantiated_lemma force limit ords algo quality algo' quality' :
    length ords = length (files_of new) ->
    Forall (order_ok bs (tsizes_of (container_of old))) (file_ins differ old new ords) ->
    exists xs opt t touched trace,
      analyze_all bs force limit (tsizes_of (container_of old)) (file_ins differ old new ords) = Some xs /\
      optimize bsd olds xs = Some opt /\
      Forall2 (written_by_go bsz search partitions olds) xs opt /\
      apply_patch_fresh bs olds None (optimized_patch algo' quality' old new opt) = Ok (t, touched, trace) /\
      touched = Z.of_nat (length (files_of new)) /\
      (forall p, tlookup t p = tlookup new p) /\
      exists t0 touched0 trace0,
        apply_patch_fresh bs olds None (write_patch differ algo quality old new) = Ok (t0, touched0, trace0) /\
        forall p, tlookup t p = tlookup t0 p.
  Proof.
    intros Hlen Hord.
    assert (Hv : Forall (file_valid (den_rsync bs) bs (tsizes_of (container_of old)) olds) (file_ins differ old new ords)).
    { unfold file_ins in *. rewrite Forall_map in *. rewrite Forall_forall in *. intros fo Hin.
      apply file_valid_instance; [exact DOK|]. apply Hord. assumption. }
    destruct (rediff_preserves_lemma (den_rsync bs) den_bsdiff bsd
                (bsd_series_roundtrip bsz search partitions Hbsz Hparts Hsearch)
                bs force limit (tsizes_of (container_of old)) olds (tsizes_length old) _ Hv) as (xs & opt & Ea & Eo & En).
    pose proof (analyze_all_shape _ _ _ _ _ _ Ea) as Hshape. rewrite (file_ins_originals differ old new ords Hlen) in Hshape.
    assert (En' : apply_patch (den_rsync bs) den_bsdiff olds opt = map (fun x => Some (snd (fst x))) xs).
    { rewrite En. rewrite <- (map_map fst (fun od : rseries * list byte => Some (snd od)) xs), Hshape.
      rewrite <- (file_ins_originals differ old new ords Hlen), map_map. reflexivity. }
    destruct (realize xs opt algo' quality' Hshape Eo En') as (Hgo & t & touched & trace & Ha & Ht & Htree).
    destruct (diff_apply_fresh_lemma bs differ old new algo quality Hbs WFN FO FN DOK) as (t0 & touched0 & trace0 & Ha0 & _ & Htree0).
    exists xs, opt, t, touched, trace. repeat split; try assumption.
    exists t0, touched0, trace0. split; [exact Ha0|]. intros p. rewrite Htree, Htree0. reflexivity.
  Qed.
End Compose.

(** the same with the executable oracle of the C12 correspondence ([run_bsd] of Exec/C12.v: the
    naive partitioned suffix array and the code's binary search, 128 KiB scan blocks): no
    hypothesis about the search is left *)
Lemma bsd_go_run_bsd partitions o n :
  bsd_go C12.GO_BLOCK (psa_oracle partitions) partitions o n = C12.run_bsd partitions o n.
Proof. reflexivity. Qed.

Lemma optimize_preserves_instantiated_psa_lemma :
  forall (bs : Z) (differ : Z -> list byte -> list op) (old new : build) (partitions : Z),
    0 < bs -> wf_build new -> fits63 old -> fits63 new -> diff_ok bs (contents_of old) differ ->
    build_bytes old -> build_bytes new -> 0 <= partitions ->
  forall (force : bool) (limit : Z) (ords : list (list (Z * Z))) (algo quality algo' quality' : Z),
    length ords = length (files_of new) ->
    Forall (order_ok bs (tsizes_of (container_of old))) (file_ins differ old new ords) ->
    exists xs opt t touched trace,
      analyze_all bs force limit (tsizes_of (container_of old)) (file_ins differ old new ords) = Some xs /\
      optimize (bsd_series C12.GO_BLOCK (psa_oracle partitions) partitions) (contents_of old) xs = Some opt /\
      Forall2 (written_by_go C12.GO_BLOCK (psa_oracle partitions) partitions (contents_of old)) xs opt /\
      apply_patch_fresh bs (contents_of old) None (optimized_patch algo' quality' old new opt) = Ok (t, touched, trace) /\
      touched = Z.of_nat (length (files_of new)) /\
      (forall p, tlookup t p = tlookup new p) /\
      exists t0 touched0 trace0,
        apply_patch_fresh bs (contents_of old) None (write_patch differ algo quality old new) = Ok (t0, touched0, trace0) /\
        forall p, tlookup t p = tlookup t0 p.
Proof.
  intros bs differ old new partitions Hbs WFN FO FN DOK BO BN Hp force limit ords algo quality algo' quality' Hlen Hord.
  apply (optimize_preserves_instantiated_lemma bs differ old new C12.GO_BLOCK (psa_oracle partitions) partitions); try assumption.
  - unfold C12.GO_BLOCK. lia.
  - apply psa_oracle_in_range.
Qed.
