(** The C01 model of the patcher (Patch/Patcher.v) and the C03 model (Patch/Resume.v at the
    fresh bowl's writer, Patch/PlainWriter.v) agree wherever the C01 model returns [Ok]:
    the rsync relay loop, the bsdiff control loop, [processRsync] (both branches) and
    [processBsdiff].  Vocabulary in Compose/ModelsAgreeResume.v.  The last section records the
    inputs on which the two models genuinely differ (C01: Err, C03: keeps running). *)
From Coq Require Import ZifyBool ZifyNat ZifyN.
From Wharf Require Import Base.Prelude Bowl.Fresh Bowl.FreshProofs Patch.Reinterp Patch.Stream
     Patch.Patcher Patch.Resume Patch.PlainWriter Compose.ModelsAgreeResume.
Local Open Scope Z_scope.
Ltac Zify.zify_post_hook ::= Z.div_mod_to_equations.

Local Arguments s_ph {_ _ _} _.
Local Arguments s_file {_ _ _} _.
Local Arguments s_rd {_ _ _} _.
Local Arguments s_bowl {_ _ _} _.
Local Arguments s_disk {_ _ _} _ _.
Local Arguments s_asked {_ _ _} _.
Local Arguments s_offers {_ _ _} _.
Local Arguments Running {_ _ _} _.
Local Arguments PFile {_}.
Local Arguments PRsFirst {_}.
Local Arguments PRsSkip {_}.
Local Arguments PRsLoop {_} _.
Local Arguments PBsHeader {_}.
Local Arguments PBsLoop {_} _ _ _.
Local Arguments PBsEnd {_} _.
Local Notation St := (mkst (list byte) N unit).

(* ------------------------------------------------------------------ lists, pwrite *)

(** the two models spell the same write(2) *)
Lemma pwrite_same : Fresh.pwrite = PlainWriter.pwrite.
Proof. reflexivity. Qed.

Lemma skipn_skipn_add {A} (y : nat) : forall (l : list A) (x : nat), skipn x (skipn y l) = skipn (y + x) l.
Proof.
  induction y as [|y IH]; intros l x; [reflexivity|].
  destruct l as [|e l]; cbn [skipn Nat.add]; [apply skipn_nil|apply IH].
Qed.

Lemma pwrite_nil raw off : (off <= length raw)%nat -> pwrite raw off [] = raw.
Proof.
  intros H. rewrite pwrite_inside by assumption. cbn [app length]. rewrite Nat.add_0_r. apply firstn_skipn.
Qed.

(** bsdiff Apply writes the add part and the copy part one after the other; C03's step writes
    them at once *)
Lemma pwrite_pwrite raw off a b : (off <= length raw)%nat ->
  pwrite (pwrite raw off a) (off + length a) b = pwrite raw off (a ++ b).
Proof.
  intros H.
  assert (Hl : (off + length a <= length (pwrite raw off a))%nat) by (rewrite pwrite_length by assumption; lia).
  rewrite (pwrite_inside (pwrite raw off a)) by assumption.
  rewrite pwrite_prefix by assumption.
  rewrite (pwrite_inside raw off a) by assumption.
  rewrite (pwrite_inside raw off (a ++ b)) by assumption.
  rewrite <- !app_assoc. f_equal. f_equal. f_equal.
  rewrite (app_assoc (firstn off raw) a).
  rewrite skipn_app.
  assert (Hfl : length (firstn off raw ++ a) = (off + length a)%nat) by (rewrite app_length, firstn_length; lia).
  rewrite Hfl.
  rewrite skipn_all2 by lia. cbn [app].
  replace (off + length a + length b - (off + length a))%nat with (length b) by lia.
  rewrite skipn_skipn_add. f_equal. rewrite app_length. lia.
Qed.

Lemma slice_nonpos d from len : len <= 0 -> slice d from len = [].
Proof. intros H. unfold slice. replace (Z.to_nat len) with 0%nat by lia. reflexivity. Qed.

(** a span that is not positive copies nothing, whatever the block index *)
Lemma op_size_nonpos bs fsz i s : 0 < bs -> 0 <= fsz -> s <= 0 -> op_size bs fsz i s <= 0.
Proof.
  intros Hb Hf Hs. unfold op_size. pose proof (Z.rem_bound_pos fsz bs Hf Hb) as Hr.
  destruct (bs * (i + (s - 1) + 1) >? fsz); nia.
Qed.

Lemma upd_same {A} (d : N -> A) f v : upd d f v f = v.
Proof. unfold upd. rewrite N.eqb_refl. reflexivity. Qed.

Lemma upd_other {A} (d : N -> A) f v g : g <> f -> upd d f v g = d g.
Proof. intros H. unfold upd. destruct (N.eqb_spec g f); [contradiction|reflexivity]. Qed.

Lemma Forall2_nth_error {A B} (R : A -> B -> Prop) l1 l2 : Forall2 R l1 l2 ->
  forall n a b, nth_error l1 n = Some a -> nth_error l2 n = Some b -> R a b.
Proof.
  intros HF. induction HF as [|x y k1 k2 Hxy _ IH]; intros n a b Ha Hb; destruct n as [|n]; cbn [nth_error] in *; try discriminate.
  - injection Ha as <-. injection Hb as <-. assumption.
  - eapply IH; eassumption.
Qed.

Lemma Forall2_same_length {A B} (R : A -> B -> Prop) l1 l2 : Forall2 R l1 l2 -> length l1 = length l2.
Proof. intros HF. induction HF as [|x y k1 k2 Hxy HF2 IH]; cbn [length]; [reflexivity|f_equal; exact IH]. Qed.

Lemma znth_nth_error {A} (l : list A) i x : znth l i = Some x -> 0 <= i /\ nth_error l (Z.to_nat i) = Some x.
Proof. unfold znth. destruct (Z.ltb_spec i 0) as [Hlt|Hge]; [discriminate|]. intros H. split; [lia|assumption]. Qed.

(* ------------------------------------------------------------------ the C01 writer *)

(** an open C01 writer that sees [raw] in its file, at offset [wN] inside it *)
Definition wgoodC (w : wst) (raw : list byte) (wN : N) : Prop :=
  tlookup (p_tree (w_st w)) (w_path w) = Some (File raw) /\ w_off w = N.to_nat wN /\ (w_off w <= length raw)%nat.

Lemma wsim_good w (S : cstate) wN : wsim w S wN <-> wgoodC w (s_disk S (s_file S)) wN.
Proof.
  unfold wsim, wgoodC. split.
  - intros (raw & H1 & <- & H3 & H4). auto.
  - intros (H1 & H3 & H4). eexists. repeat split; eassumption.
Qed.

Lemma w_write_good w data w' raw wN :
  wgoodC w raw wN -> w_write w data = Ok w' ->
  wgoodC w' (pwrite raw (N.to_nat wN) data) (wN + N.of_nat (length data))%N /\
  w_path w' = w_path w /\
  (forall q, q <> w_path w -> tlookup (p_tree (w_st w')) q = tlookup (p_tree (w_st w)) q).
Proof.
  intros (Hl & Ho & Hle) H. unfold w_write in H. destruct data as [|x data].
  - injection H as <-. rewrite pwrite_nil by lia. cbn [length]. unfold wgoodC.
    repeat split; try assumption; lia.
  - unfold entry_write in H. rewrite Hl in H. cbn [bind] in H. injection H as <-.
    unfold wgoodC. cbn [w_path w_off w_st p_tree]. rewrite Ho in *. rewrite pwrite_same. repeat split.
    + apply tlookup_tset_same.
    + cbn [length]. lia.
    + rewrite pwrite_length by assumption. cbn [length]. lia.
    + intros q Hq. apply tlookup_tset_other. congruence.
Qed.

(* ------------------------------------------------------------------ the C03 machine, step by step *)

Section Agree.
  Variable bs : Z.
  Variables oldC newC : container.
  Variable olds : list (list byte).
  Variable nfiles : N.
  Variable is_overlay : N -> bool.
  Variable emit : nat -> bool.
  Variable stop : nat -> bool.

  Local Notation stepC := (c03_step bs oldC newC olds is_overlay emit stop).
  Local Notation runC := (c03_run bs oldC newC olds nfiles is_overlay emit stop).
  Local Notation absso := (fun m : pmsg => abs_so (as_so m)).
  Local Notation absct := (fun m : pmsg => abs_ct (as_ct m)).

  (** the C03 run the theorems speak about is [PlainWriter.fresh_run] at the instance read off
      the C01 parameters, with a consumer that never asks for a save *)
  Lemma c03_run_is_fresh_run :
    runC = fresh_run (Z.to_N bs) (tsize_of oldC) (ssize_of newC) nfiles (old_of olds)
                     (range_data_of bs oldC olds) (bs_data_of olds) is_overlay emit (fun _ => false) stop.
  Proof. reflexivity. Qed.

  Lemma run_cons (S : cstate) m r :
    at_end _ _ _ nfiles S = false ->
    runC S (m :: r) = match stepC S m with Running S1 => runC S1 r | x => x end.
  Proof.
    intros H.
    change (runC S (m :: r)) with
      (if at_end _ _ _ nfiles S then Finished _ _ _ S else match stepC S m with Running S1 => runC S1 r | x => x end).
    rewrite H. reflexivity.
  Qed.

  (** what a message makes the rsync loop write *)
  Definition payload (m : cmsg) : option (list byte) :=
    match m with
    | MRange f bi sp => Some (range_data_of bs oldC olds f bi sp)
    | MData d => Some d
    | _ => None
    end.

  Lemma step_loop_write wN f rd b d a o m D :
    payload m = Some D ->
    stepC (St (PRsLoop wN) f rd b d a o) m =
    Running (St (PRsLoop (wN + N.of_nat (length D))%N) f (rd_read emit rd) b
                (upd d f (pwrite (d f) (N.to_nat wN) D)) (S a) o).
  Proof. destruct m; cbn [payload]; intros [= <-]; reflexivity. Qed.

  Lemma step_loop_end wN f rd b d a o :
    stepC (St (PRsLoop wN) f rd b d a o) MEnd =
    Running (St PFile (f + 1)%N (rd_read emit rd) b (upd d f (d f)) (S a) o).
  Proof. reflexivity. Qed.

  Lemma step_skip_end f rd b d a o :
    stepC (St PRsSkip f rd b d a o) MEnd = Running (St PFile (f + 1)%N (rd_read emit rd) b d a o).
  Proof. reflexivity. Qed.

  Lemma step_skip_other f rd b d a o m :
    m <> MEnd -> stepC (St PRsSkip f rd b d a o) m = Running (St PRsSkip f (rd_read emit rd) b d a o).
  Proof. intros H. destruct m; try reflexivity. contradiction. Qed.

  Lemma step_bsloop_ctrl wN off t f rd b d a o add copy seek :
    stepC (St (PBsLoop wN off t) f rd b d a o) (MCtrl add copy seek) =
    Running (St (PBsLoop (wN + N.of_nat (length (bs_data_of olds t off add copy)))%N
                         (off + Z.of_N (N.of_nat (length add)) + seek) t)
                f (rd_read emit rd) b
                (upd d f (pwrite (d f) (N.to_nat wN) (bs_data_of olds t off add copy))) (S a) o).
  Proof. reflexivity. Qed.

  Lemma step_bsloop_eof wN off t f rd b d a o :
    stepC (St (PBsLoop wN off t) f rd b d a o) MCtrlEof =
    Running (St (PBsEnd wN) f (rd_read emit rd) b d (S a) o).
  Proof. reflexivity. Qed.

  (* ------------------------------------------------------------------ 1. the rsync relay loop *)

  Hypothesis Hbs : 0 < bs.
  Hypothesis Hal : aligned oldC olds.

  (** an old file named by an index that both the container and the pool know *)
  Lemma old_file_agree f pf fsz dd :
    znth (c_files oldC) f = Some (pf, fsz) -> znth olds f = Some dd ->
    old_of olds (Z.to_N f) = dd /\ Z.of_N (tsize_of oldC (Z.to_N f)) = fsz /\ 0 <= fsz /\ 0 <= f.
  Proof.
    intros Hc Ho. apply znth_nth_error in Hc. apply znth_nth_error in Ho.
    destruct Hc as [Hf Hc]. destruct Ho as [_ Ho].
    pose proof (Forall2_nth_error _ _ _ Hal _ _ _ Hc Ho) as Hsz. cbn [snd] in Hsz.
    unfold old_of, tsize_of, size_in. rewrite Z_N_nat. rewrite Hc.
    split; [apply nth_error_nth; assumption|]. lia.
  Qed.

  (** whatever [ApplySingle] does in the C01 model is one write of the payload of the
      abstracted message; the writer it goes through differs from [w] by trace events only *)
  Lemma apply_op_payload w o w' :
    apply_op bs oldC olds w o = Ok w' ->
    (so_type o =? HEY) = false /\
    exists D wmid,
      payload (abs_so o) = Some D /\ w_write wmid D = Ok w' /\
      p_tree (w_st wmid) = p_tree (w_st w) /\ w_path wmid = w_path w /\ w_off wmid = w_off w.
  Proof.
    intros H. unfold apply_op in H. unfold abs_so.
    destruct (Z.eqb_spec (so_type o) T_BLOCK_RANGE) as [Et|Et].
    - rewrite Et. split; [reflexivity|]. change (T_BLOCK_RANGE =? HEY) with false. cbn iota.
      unfold apply_range in H.
      destruct (znth (c_files oldC) (so_file o)) as [[pf fsz]|] eqn:Hc; [|discriminate].
      destruct (znth olds (so_file o)) as [dd|] eqn:Ho; [|discriminate].
      destruct (Z.ltb_spec (bs * so_block o) 0) as [|Hi]; [discriminate|].
      destruct (old_file_agree _ _ _ _ Hc Ho) as (Eold & Esz & Hsz & Hf).
      assert (Hblk : 0 <= so_block o) by nia.
      eexists. eexists. split; [|split; [exact H|]]; [|cbn [w_st w_path w_off ev p_tree]; auto].
      cbn [payload]. f_equal. unfold range_data_of. rewrite Eold, Esz, Z2N.id by assumption.
      destruct (Z.le_gt_cases 0 (so_span o)) as [Hs|Hs].
      + rewrite Z2N.id by assumption. reflexivity.
      + rewrite !slice_nonpos; [reflexivity| |]; apply op_size_nonpos; try assumption; lia.
    - destruct (Z.eqb_spec (so_type o) T_DATA) as [Ed|Ed]; [|discriminate].
      rewrite Ed. split; [reflexivity|]. change (T_DATA =? HEY) with false. cbn iota.
      exists (so_data o), w. auto.
  Qed.

  (** one iteration of the relay loop on both sides *)
  Lemma relay_agree_St : forall ms w rest s' wN f rd b d a o,
    relay bs oldC olds ms w = Ok (rest, s') -> wgoodC w (d f) wN ->
    exists pre (S' : cstate),
      ms = pre ++ rest /\
      (forall tail, runC (St (PRsLoop wN) f rd b d a o) (map absso pre ++ tail) = runC S' tail) /\
      s_ph S' = PFile /\ s_file S' = (f + 1)%N /\
      tlookup (p_tree s') (w_path w) = Some (File (s_disk S' f)) /\
      (forall g, g <> f -> s_disk S' g = d g) /\ s_bowl S' = b /\ s_offers S' = o /\
      (forall q, q <> w_path w -> tlookup (p_tree s') q = tlookup (p_tree (w_st w)) q).
  Proof.
    induction ms as [|m ms IH]; intros w rest s' wN f rd b d a o H Hg; cbn [relay] in H; [discriminate|].
    destruct (so_type (as_so m) =? HEY) eqn:Ehey.
    - injection H as <- <-.
      exists [m], (St PFile (f + 1)%N (rd_read emit rd) b (upd d f (d f)) (S a) o).
      split; [reflexivity|]. split.
      { intros tail. cbn [map app]. rewrite run_cons by reflexivity.
        unfold abs_so. rewrite Ehey. rewrite step_loop_end. reflexivity. }
      cbn [s_ph s_file s_disk s_bowl s_offers]. rewrite upd_same.
      split; [reflexivity|]. split; [reflexivity|]. split; [apply Hg|].
      split; [intros g Hgf; apply upd_other; assumption|]. auto.
    - destruct (validate_op oldC (as_so m)); cbn [negb] in H; [|discriminate].
      destruct (apply_op bs oldC olds w (as_so m)) as [w1| |] eqn:Eop; cbn [bind] in H; try discriminate.
      destruct (apply_op_payload _ _ _ Eop) as (_ & D & wmid & Hpay & Hw & Et & Ep & Eo).
      assert (Hmid : wgoodC wmid (d f) wN).
      { destruct Hg as (G1 & G2 & G3). unfold wgoodC. rewrite Et, Ep, Eo. auto. }
      destruct (w_write_good _ _ _ _ _ Hmid Hw) as (Hg1 & Hp1 & Hfr1).
      rewrite Ep in Hp1, Hfr1. rewrite Et in Hfr1.
      set (d1 := upd d f (pwrite (d f) (N.to_nat wN) D)) in *.
      assert (Hg1' : wgoodC w1 (d1 f) (wN + N.of_nat (length D))%N) by (unfold d1; rewrite upd_same; exact Hg1).
      destruct (IH w1 rest s' _ f (rd_read emit rd) b d1 (S a) o H Hg1')
        as (pre & S' & Hsplit & Hrun & Hph & Hfile & Htl & Hdisk & Hbowl & Hoff & Htree).
      exists (m :: pre), S'. split; [cbn [app]; f_equal; exact Hsplit|]. split.
      { intros tail. cbn [map app]. rewrite run_cons by reflexivity.
        rewrite (step_loop_write _ _ _ _ _ _ _ _ _ Hpay). apply Hrun. }
      rewrite Hp1 in Htl, Htree.
      split; [assumption|]. split; [assumption|]. split; [assumption|].
      split; [intros g Hgf; rewrite Hdisk by assumption; apply upd_other; assumption|].
      split; [assumption|]. split; [assumption|].
      intros q Hq. rewrite Htree by assumption. apply Hfr1. assumption.
  Qed.

  (** 1. The relay loop of [processRsync]: when the C01 model consumes [pre] and returns Ok,
      the C03 machine, started in the relay loop on a state that sees the same output file at
      the same offset, runs over the abstraction of [pre] without failing or stopping, ends at
      the top of the outer loop on the next file, and holds for the file exactly the bytes the
      C01 tree has at the writer's path; every other file of the C03 disk and every other
      path of the C01 tree is untouched.  No representability hypothesis is needed here: the
      file index is checked by [validate_op], a negative block index is an error of the seek,
      and a negative span copies nothing on both sides ([op_size_nonpos]). *)
  Theorem relay_models_agree_c03 : forall ms w rest s' (S : cstate) wN,
    relay bs oldC olds ms w = Ok (rest, s') ->
    s_ph S = PRsLoop wN -> wsim w S wN ->
    exists pre (S' : cstate),
      ms = pre ++ rest /\
      (forall tail, runC S (map absso pre ++ tail) = runC S' tail) /\
      s_ph S' = PFile /\ s_file S' = (s_file S + 1)%N /\
      tlookup (p_tree s') (w_path w) = Some (File (s_disk S' (s_file S))) /\
      c03_frame S S' /\
      (forall q, q <> w_path w -> tlookup (p_tree s') q = tlookup (p_tree (w_st w)) q).
  Proof.
    intros ms w rest s' S wN H Hph Hsim. apply wsim_good in Hsim.
    destruct S as [ph f rd b d a o]. cbn [s_ph s_file s_disk] in *. subst ph.
    destruct (relay_agree_St ms w rest s' wN f rd b d a o H Hsim)
      as (pre & S' & Hsplit & Hrun & Hph & Hfile & Htl & Hdisk & Hbowl & Hoff & Htree).
    exists pre, S'. unfold c03_frame. cbn [s_file s_disk s_bowl s_offers]. auto 10.
  Qed.

  (** the same with the design's hypothesis (every op representable), for callers that have it *)
  Corollary relay_models_agree_c03_repr : forall ms w rest s' (S : cstate) wN,
    Forall (fun m => so_repr (as_so m)) ms ->
    relay bs oldC olds ms w = Ok (rest, s') ->
    s_ph S = PRsLoop wN -> wsim w S wN ->
    exists pre (S' : cstate),
      ms = pre ++ rest /\
      (forall tail, runC S (map absso pre ++ tail) = runC S' tail) /\
      s_ph S' = PFile /\ s_file S' = (s_file S + 1)%N /\
      tlookup (p_tree s') (w_path w) = Some (File (s_disk S' (s_file S))) /\
      c03_frame S S'.
  Proof.
    intros ms w rest s' S wN _ H Hph Hsim.
    destruct (relay_models_agree_c03 ms w rest s' S wN H Hph Hsim) as (pre & S' & H1 & H2 & H3 & H4 & H5 & H6 & _).
    exists pre, S'. auto 10.
  Qed.

  (* ------------------------------------------------------------------ 2. the bsdiff control loop *)

  (** bsdiff Apply in the C01 model: two writes that amount to one write of [bs_data_of] *)
  Lemma bs_apply_good t off c w off' w' raw wN :
    bs_apply (old_of olds t) off c w = Ok (off', w') -> wgoodC w raw wN ->
    off' = off + Z.of_nat (length (ct_add c)) + ct_seek c /\
    wgoodC w' (pwrite raw (N.to_nat wN) (bs_data_of olds t off (ct_add c) (ct_copy c)))
           (wN + N.of_nat (length (bs_data_of olds t off (ct_add c) (ct_copy c))))%N /\
    w_path w' = w_path w /\
    (forall q, q <> w_path w -> tlookup (p_tree (w_st w')) q = tlookup (p_tree (w_st w)) q).
  Proof.
    intros H Hg. unfold bs_apply in H.
    destruct ((off <? 0) || (off >? Z.of_nat (length (old_of olds t)))); [discriminate|].
    destruct (off + Z.of_nat (length (ct_add c)) >? Z.of_nat (length (old_of olds t))); [discriminate|].
    set (A := add_bytes (ct_add c) (skipn (Z.to_nat off) (old_of olds t))) in *.
    destruct (w_write w A) as [w1| |] eqn:E1; cbn [bind] in H; try discriminate.
    destruct (w_write w1 (ct_copy c)) as [w2| |] eqn:E2; cbn [bind] in H; try discriminate.
    injection H as <- <-.
    destruct (w_write_good _ _ _ _ _ Hg E1) as (Hg1 & Hp1 & Hf1).
    destruct (w_write_good _ _ _ _ _ Hg1 E2) as (Hg2 & Hp2 & Hf2).
    split; [reflexivity|].
    assert (Hle : (N.to_nat wN <= length raw)%nat) by (destruct Hg as (_ & G2 & G3); lia).
    unfold bs_data_of. fold A. split; [|split; [congruence|]].
    - rewrite <- pwrite_pwrite by assumption. rewrite app_length.
      replace (N.to_nat wN + length A)%nat with (N.to_nat (wN + N.of_nat (length A))) by lia.
      replace (wN + N.of_nat (length A + length (ct_copy c)))%N
        with (wN + N.of_nat (length A) + N.of_nat (length (ct_copy c)))%N by lia.
      exact Hg2.
    - intros q Hq. rewrite Hf2 by congruence. apply Hf1. assumption.
  Qed.

  Lemma ctrl_agree_St : forall ms off w rest w' wN t f rd b d a o,
    ctrl_loop (old_of olds t) off ms w = Ok (rest, w') -> wgoodC w (d f) wN ->
    exists pre (S' : cstate) wN',
      ms = pre ++ rest /\
      (forall tail, runC (St (PBsLoop wN off t) f rd b d a o) (map absct pre ++ tail) = runC S' tail) /\
      s_ph S' = PBsEnd wN' /\ s_file S' = f /\
      wgoodC w' (s_disk S' f) wN' /\ w_path w' = w_path w /\
      (forall g, g <> f -> s_disk S' g = d g) /\ s_bowl S' = b /\ s_offers S' = o /\
      (forall q, q <> w_path w -> tlookup (p_tree (w_st w')) q = tlookup (p_tree (w_st w)) q).
  Proof.
    induction ms as [|m ms IH]; intros off w rest w' wN t f rd b d a o H Hg; cbn [ctrl_loop] in H; [discriminate|].
    destruct (ct_eof (as_ct m)) eqn:Eeof.
    - injection H as <- <-.
      exists [m], (St (PBsEnd wN) f (rd_read emit rd) b d (S a) o), wN.
      split; [reflexivity|]. split.
      { intros tail. cbn [map app]. rewrite run_cons by reflexivity.
        unfold abs_ct. rewrite Eeof. rewrite step_bsloop_eof. reflexivity. }
      cbn [s_ph s_file s_disk s_bowl s_offers]. auto 10.
    - destruct (bs_apply (old_of olds t) off (as_ct m) w) as [[off1 w1]| |] eqn:Eap; cbn [bind fst snd] in H; try discriminate.
      destruct (bs_apply_good _ _ _ _ _ _ _ _ Eap Hg) as (Eoff & Hg1 & Hp1 & Hfr1).
      set (D := bs_data_of olds t off (ct_add (as_ct m)) (ct_copy (as_ct m))) in *.
      set (d1 := upd d f (pwrite (d f) (N.to_nat wN) D)) in *.
      assert (Hg1' : wgoodC w1 (d1 f) (wN + N.of_nat (length D))%N) by (unfold d1; rewrite upd_same; exact Hg1).
      destruct (IH off1 w1 rest w' _ t f (rd_read emit rd) b d1 (S a) o H Hg1')
        as (pre & S' & wN' & Hsplit & Hrun & Hph & Hfile & Hgood & Hpath & Hdisk & Hbowl & Hoff & Htree).
      exists (m :: pre), S', wN'. split; [cbn [app]; f_equal; exact Hsplit|]. split.
      { intros tail. cbn [map app]. rewrite run_cons by reflexivity.
        unfold abs_ct. rewrite Eeof. rewrite step_bsloop_ctrl. rewrite nat_N_Z. fold D. fold d1.
        rewrite <- Eoff. apply Hrun. }
      rewrite Hp1 in Hpath, Htree.
      split; [assumption|]. split; [assumption|]. split; [assumption|]. split; [assumption|].
      split; [intros g Hgf; rewrite Hdisk by assumption; apply upd_other; assumption|].
      split; [assumption|]. split; [assumption|].
      intros q Hq. rewrite Htree by assumption. apply Hfr1. assumption.
  Qed.

  (** 2. The control loop of [processBsdiff]: the C03 machine in phase [PBsLoop wN off t], on a
      state that sees the same output file at the same offset, follows the C01 loop over the
      old file [old_of t] control by control - same bytes written, same old-file cursor (it
      is part of the phase the induction goes through) - and reaches the sentinel phase with
      the writers still in agreement. *)
  Theorem ctrl_loop_models_agree_c03 : forall ms off t w rest w' (S : cstate) wN,
    ctrl_loop (old_of olds t) off ms w = Ok (rest, w') ->
    s_ph S = PBsLoop wN off t -> wsim w S wN ->
    exists pre (S' : cstate) wN',
      ms = pre ++ rest /\
      (forall tail, runC S (map absct pre ++ tail) = runC S' tail) /\
      s_ph S' = PBsEnd wN' /\ s_file S' = s_file S /\
      wsim w' S' wN' /\ w_path w' = w_path w /\
      c03_frame S S' /\
      (forall q, q <> w_path w -> tlookup (p_tree (w_st w')) q = tlookup (p_tree (w_st w)) q).
  Proof.
    intros ms off t w rest w' S wN H Hph Hsim. apply wsim_good in Hsim.
    destruct S as [ph f rd b d a o]. cbn [s_ph s_file s_disk] in *. subst ph.
    destruct (ctrl_agree_St ms off w rest w' wN t f rd b d a o H Hsim)
      as (pre & S' & wN' & Hsplit & Hrun & Hph & Hfile & Hgood & Hpath & Hdisk & Hbowl & Hoff & Htree).
    exists pre, S', wN'. unfold c03_frame. cbn [s_file s_disk s_bowl s_offers].
    rewrite wsim_good, Hfile. auto 12.
  Qed.

  (* ------------------------------------------------------------------ 3. processRsync *)

  (** the first step of [processRsync] in the C03 machine, spelled out *)
  Lemma step_first f rd b d a o m :
    stepC (St PRsFirst f rd b d a o) m =
    match Resume.is_full_file_op (list byte) (Z.to_N bs) (tsize_of oldC) (ssize_of newC) f m with
    | Some t => Running (St PRsSkip f (rd_read emit rd) b (upd d f (old_of olds t)) a o)
    | None =>
        match payload m with
        | Some D => Running (St (PRsLoop (0 + N.of_nat (length D))%N) f (rd_read emit rd) b
                                (upd (upd d f (d f)) f (pwrite (upd d f (d f) f) (N.to_nat 0) D)) a o)
        | None => Failed _ _ _
        end
    end.
  Proof.
    unfold c03_step, step. cbn [s_ph s_file].
    destruct (Resume.is_full_file_op (list byte) (Z.to_N bs) (tsize_of oldC) (ssize_of newC) f m); [reflexivity|].
    destruct m; reflexivity.
  Qed.

  Lemma abs_so_not_end o : (so_type o =? HEY) = false -> abs_so o <> MEnd.
  Proof.
    intros H. unfold abs_so. rewrite H.
    destruct (so_type o =? T_BLOCK_RANGE); [discriminate|]. destruct (so_type o =? T_DATA); discriminate.
  Qed.

  (** readUntilEndMarker against phase [PRsSkip] *)
  Lemma skip_agree_St : forall ms rest f rd b d a o,
    until_marker ms = Ok rest ->
    exists pre (S' : cstate),
      ms = pre ++ rest /\
      (forall tail, runC (St PRsSkip f rd b d a o) (map absso pre ++ tail) = runC S' tail) /\
      s_ph S' = PFile /\ s_file S' = (f + 1)%N /\ s_disk S' = d /\ s_bowl S' = b /\ s_offers S' = o.
  Proof.
    induction ms as [|m ms IH]; intros rest f rd b d a o H; cbn [until_marker] in H; [discriminate|].
    destruct (so_type (as_so m) =? HEY) eqn:Ehey.
    - injection H as <-. exists [m], (St PFile (f + 1)%N (rd_read emit rd) b d a o).
      split; [reflexivity|]. split; [|cbn [s_ph s_file s_disk s_bowl s_offers]; auto 10].
      intros tail. cbn [map app]. rewrite run_cons by reflexivity.
      unfold abs_so. rewrite Ehey. rewrite step_skip_end. reflexivity.
    - destruct (IH rest f (rd_read emit rd) b d a o H) as (pre & S' & Hsplit & Hrun & Hrest).
      exists (m :: pre), S'. split; [cbn [app]; f_equal; exact Hsplit|]. split; [|exact Hrest].
      intros tail. cbn [map app]. rewrite run_cons by reflexivity.
      rewrite step_skip_other by (apply abs_so_not_end; assumption). apply Hrun.
  Qed.

  (** pwr.ComputeNumBlocks: C01 divides in int64 ([Z.quot]), C03 in [N] *)
  Lemma num_blocks_agree size :
    0 <= size -> Z.of_N (Resume.num_blocks (Z.to_N bs) (Z.to_N size)) = Stream.num_blocks bs size.
  Proof.
    intros Hs. unfold Resume.num_blocks, Stream.num_blocks.
    rewrite Z.quot_div_nonneg by lia. rewrite N2Z.inj_div. f_equal; lia.
  Qed.

  Lemma old_in_pool f pf fsz : znth (c_files oldC) f = Some (pf, fsz) -> exists dd, znth olds f = Some dd.
  Proof.
    intros Hc. pose proof (Forall2_same_length _ _ _ Hal) as Hlen.
    apply znth_nth_error in Hc. destruct Hc as [Hf Hc].
    unfold znth. destruct (Z.ltb_spec f 0) as [Hlt|_]; [lia|].
    destruct (nth_error olds (Z.to_nat f)) as [dd|] eqn:E; [exists dd; reflexivity|].
    apply nth_error_None in E. assert (Hs : nth_error (c_files oldC) (Z.to_nat f) <> None) by congruence.
    apply nth_error_Some in Hs. lia.
  Qed.

  Lemma ssize_agree idx p size : znth (c_files newC) idx = Some (p, size) -> ssize_of newC (Z.to_N idx) = Z.to_N size.
  Proof.
    intros H. apply znth_nth_error in H. destruct H as [_ H].
    unfold ssize_of, size_in. rewrite Z_N_nat, H. reflexivity.
  Qed.

  Lemma old_of_znth t dd : znth olds t = Some dd -> old_of olds (Z.to_N t) = dd.
  Proof.
    intros H. apply znth_nth_error in H. destruct H as [_ H].
    unfold old_of. rewrite Z_N_nat. apply nth_error_nth. assumption.
  Qed.

  (** isFullFileOp: the two models take the same decision on a representable op *)
  Lemma is_full_agree idx p size o full :
    znth (c_files newC) idx = Some (p, size) -> 0 <= size ->
    (so_type o = T_BLOCK_RANGE -> 0 <= so_block o /\ 0 <= so_span o) ->
    Patcher.is_full_file_op bs oldC newC idx o = Ok full ->
    Resume.is_full_file_op (list byte) (Z.to_N bs) (tsize_of oldC) (ssize_of newC) (Z.to_N idx) (abs_so o) =
    if full then Some (Z.to_N (so_file o)) else None.
  Proof.
    intros Hidx Hsz Hrep H. unfold Patcher.is_full_file_op in H. unfold abs_so.
    destruct (Z.eqb_spec (so_type o) T_BLOCK_RANGE) as [Et|Et]; cbn [negb] in H.
    - destruct (Hrep Et) as [Hblk Hspan]. rewrite Et. change (T_BLOCK_RANGE =? HEY) with false. cbn iota.
      cbn [Resume.is_full_file_op]. rewrite (ssize_agree _ _ _ Hidx).
      destruct (Z.eqb_spec (so_block o) 0) as [Eb|Eb]; cbn [negb] in H.
      + rewrite Hidx in H.
        destruct (znth (c_files oldC) (so_file o)) as [[pf fsz]|] eqn:Hc; [|discriminate].
        destruct (old_in_pool _ _ _ Hc) as [dd Ho].
        destruct (old_file_agree _ _ _ _ Hc Ho) as (_ & Esz & Hfsz & _).
        pose proof (num_blocks_agree size Hsz) as Hnb.
        destruct (Z.eqb_spec fsz size) as [Es|Es]; cbn [negb] in H; injection H as <-.
        * destruct (N.eqb_spec (Z.to_N (so_block o)) 0) as [_|Hn]; [|lia].
          destruct (N.eqb_spec (tsize_of oldC (Z.to_N (so_file o))) (Z.to_N size)) as [_|Hn]; [|lia].
          cbn [andb].
          destruct (N.eqb_spec (Z.to_N (so_span o)) (Resume.num_blocks (Z.to_N bs) (Z.to_N size))) as [E1|E1];
            destruct (Z.eqb_spec (so_span o) (Stream.num_blocks bs size)) as [E2|E2]; try reflexivity; lia.
        * destruct (N.eqb_spec (tsize_of oldC (Z.to_N (so_file o))) (Z.to_N size)) as [Hn|_]; [lia|].
          rewrite Bool.andb_false_r. reflexivity.
      + injection H as <-.
        destruct (N.eqb_spec (Z.to_N (so_block o)) 0) as [Hn|_]; [lia|]. reflexivity.
    - injection H as <-.
      destruct (so_type o =? HEY); [reflexivity|]. destruct (so_type o =? T_DATA); reflexivity.
  Qed.

  (** the fresh bowl's primitives at the path they are about *)
  Lemma mkdir_all_from_keeps rest : forall t done t',
    mkdir_all_from t done rest = Ok t' ->
    forall q, ~ In q (prefixes_from done rest) -> tlookup t' q = tlookup t q.
  Proof.
    induction rest as [|x rest IH]; intros t done t' H q Hq; cbn [mkdir_all_from prefixes_from] in *.
    - injection H as <-. reflexivity.
    - destruct (tlookup t (done ++ [x])) as [[dat| |dst]|] eqn:E; try discriminate.
      + apply (IH _ _ _ H). intros HI. apply Hq. right. assumption.
      + rewrite (IH _ _ _ H) by (intros HI; apply Hq; right; assumption).
        apply tlookup_tset_other. intros <-. apply Hq. left. reflexivity.
  Qed.

  Lemma self_not_prefix_of_parent (p : path) : p <> [] -> ~ In p (ne_prefixes (parent p)).
  Proof.
    intros Hp HI. apply ne_prefixes_in in HI. destruct HI as (bb & E & _).
    destruct (path_snoc p Hp) as [x Hx]. apply (f_equal (@length N)) in E, Hx.
    rewrite app_length in E, Hx. cbn [length] in Hx. lia.
  Qed.

  Lemma entry_open_keeps t p t1 raw :
    entry_open t p = Ok t1 -> tlookup t p = Some (File raw) -> tlookup t1 p = Some (File raw).
  Proof.
    intros H Hl. unfold entry_open in H. destruct p as [|x p'] eqn:Ep; [discriminate|]. rewrite <- Ep in *.
    assert (Hp : p <> []) by (rewrite Ep; discriminate).
    destruct (mkdir_all t (parent p)) as [t0| |] eqn:Em; cbn [bind] in H; try discriminate.
    assert (Hk : tlookup t0 p = Some (File raw)).
    { rewrite <- Hl. apply (mkdir_all_from_keeps _ _ _ _ Em). apply self_not_prefix_of_parent. assumption. }
    rewrite Hk in H. injection H as <-. assumption.
  Qed.

  Lemma transpose_write_content t p dd t1 : transpose_write t p dd = Ok t1 -> tlookup t1 p = Some (File dd).
  Proof.
    intros H. unfold transpose_write in H. destruct p as [|x p'] eqn:Ep; [discriminate|]. rewrite <- Ep in *.
    destruct (mkdir_all t (parent p)) as [t0| |]; cbn [bind] in H; try discriminate.
    injection H as <-. apply tlookup_tset_same.
  Qed.

  (** 3. [processRsync] from its beginning, both branches: a full-file first op is a
      [Transpose] (C03: [copy_old] into the disk) followed by reading up to the end marker
      (C03: phase [PRsSkip]); anything else opens the writer, applies the first op and relays.
      Hypotheses beyond those of 1: the new container declares a non-negative size for the file
      (C03 sizes are [N]), the span of the FIRST op is representable when it is a block range
      ([diff_first_span] below shows that this cannot be dropped), and the C03 disk holds for
      file [idx] what the C01 tree holds at its path.  No [file_ready] is needed: MkdirAll
      never touches the path itself. *)
  Theorem process_rsync_models_agree_c03 : forall idx p size m ms rest s s' (S : cstate),
    znth (c_files newC) idx = Some (p, size) -> 0 <= size ->
    so_span_repr (as_so m) ->
    process_rsync bs oldC newC olds idx (m :: ms) s = Ok (rest, s') ->
    s_ph S = PRsFirst -> s_file S = Z.to_N idx ->
    tlookup (p_tree s) p = Some (File (s_disk S (s_file S))) ->
    exists pre (S' : cstate),
      m :: ms = pre ++ rest /\
      (forall tail, runC S (map absso pre ++ tail) = runC S' tail) /\
      s_ph S' = PFile /\ s_file S' = (s_file S + 1)%N /\
      tlookup (p_tree s') p = Some (File (s_disk S' (s_file S))) /\
      c03_frame S S'.
  Proof.
    intros idx p size m ms rest s s' S Hidx Hsz Hspan H Hph Hfile Hl.
    destruct S as [ph f rd b d a o]. cbn [s_ph s_file s_disk] in *. subst ph. subst f.
    unfold c03_frame. cbn [s_file s_disk s_bowl s_offers].
    unfold process_rsync in H. set (op := as_so m) in *.
    destruct (validate_op oldC op); cbn [negb] in H; [|discriminate].
    destruct (Patcher.is_full_file_op bs oldC newC idx op) as [full| |] eqn:Efull; cbn [bind] in H; try discriminate.
    (* the block index of a block range is not negative on an Ok run *)
    assert (Hrep : so_type op = T_BLOCK_RANGE -> 0 <= so_block op /\ 0 <= so_span op).
    { intros Et. split; [|apply Hspan; assumption].
      destruct (Z.le_gt_cases 0 (so_block op)) as [Hb|Hb]; [assumption|exfalso].
      unfold Patcher.is_full_file_op in Efull. rewrite Et in Efull. cbn [Z.eqb T_BLOCK_RANGE negb] in Efull.
      destruct (Z.eqb_spec (so_block op) 0) as [E0|_]; [lia|]. cbn [negb] in Efull. injection Efull as <-.
      destruct (open_writer newC s idx) as [w0| |]; cbn [bind] in H; try discriminate.
      destruct (apply_op bs oldC olds w0 op) as [w1| |] eqn:Eop; cbn [bind] in H; try discriminate.
      unfold apply_op in Eop. rewrite Et in Eop. cbn [Z.eqb T_BLOCK_RANGE] in Eop. unfold apply_range in Eop.
      destruct (znth (c_files oldC) (so_file op)) as [[pf fsz]|]; [|discriminate].
      destruct (znth olds (so_file op)); [|discriminate].
      destruct (Z.ltb_spec (bs * so_block op) 0) as [_|Hge]; [discriminate|nia]. }
    pose proof (is_full_agree _ _ _ _ _ Hidx Hsz Hrep Efull) as Hfull.
    destruct full.
    - (* Transpose, then read up to the end marker *)
      destruct (Patcher.transpose oldC newC olds s idx (so_file op)) as [s1| |] eqn:Etr; cbn [bind] in H; try discriminate.
      destruct (until_marker ms) as [r'| |] eqn:Eum; cbn [bind] in H; try discriminate.
      injection H as <- <-.
      unfold Patcher.transpose, pool_open in Etr.
      destruct (znth (c_files oldC) (so_file op)) as [[pf fsz]|]; [|discriminate].
      destruct (znth olds (so_file op)) as [dd|] eqn:Ho; cbn [bind] in Etr; [|discriminate].
      rewrite Hidx in Etr.
      destruct (transpose_write _ p dd) as [t1| |] eqn:Etw; cbn [bind] in Etr; try discriminate.
      injection Etr as <-. cbn [p_tree].
      apply transpose_write_content in Etw.
      destruct (skip_agree_St ms r' (Z.to_N idx) (rd_read emit rd) b (upd d (Z.to_N idx) dd) a o Eum)
        as (pre & S' & Hsplit & Hrun & Hph' & Hfile' & Hdisk & Hbowl & Hoff).
      exists (m :: pre), S'. split; [cbn [app]; f_equal; exact Hsplit|]. split.
      { intros tail. cbn [map app]. rewrite run_cons by reflexivity.
        rewrite step_first. fold op. rewrite Hfull. rewrite (old_of_znth _ _ Ho). apply Hrun. }
      rewrite Hdisk. rewrite upd_same.
      split; [assumption|]. split; [assumption|]. split; [assumption|].
      split; [intros g Hg; apply upd_other; assumption|]. auto.
    - (* GetWriter, the first op, the relay loop *)
      destruct (open_writer newC s idx) as [w0| |] eqn:Eow; cbn [bind] in H; try discriminate.
      destruct (apply_op bs oldC olds w0 op) as [w1| |] eqn:Eop; cbn [bind] in H; try discriminate.
      unfold open_writer in Eow. rewrite Hidx in Eow.
      destruct (entry_open _ p) as [t0| |] eqn:Eeo; cbn [bind] in Eow; try discriminate.
      injection Eow as <-.
      pose proof (entry_open_keeps _ _ _ _ Eeo Hl) as Hl0.
      destruct (apply_op_payload _ _ _ Eop) as (_ & D & wmid & Hpay & Hw & Et & Ep & Eo).
      cbn [w_st w_path w_off p_tree] in Et, Ep, Eo.
      assert (Hmid : wgoodC wmid (d (Z.to_N idx)) 0%N).
      { unfold wgoodC. rewrite Et, Ep, Eo. split; [assumption|]. split; [reflexivity|]. lia. }
      destruct (w_write_good _ _ _ _ _ Hmid Hw) as (Hg1 & Hp1 & _). rewrite Ep in Hp1.
      set (d1 := upd (upd d (Z.to_N idx) (d (Z.to_N idx))) (Z.to_N idx)
                     (pwrite (upd d (Z.to_N idx) (d (Z.to_N idx)) (Z.to_N idx)) (N.to_nat 0) D)).
      assert (Hg1' : wgoodC w1 (d1 (Z.to_N idx)) (0 + N.of_nat (length D))%N).
      { unfold d1. rewrite !upd_same. exact Hg1. }
      destruct (relay_agree_St ms w1 rest s' _ (Z.to_N idx) (rd_read emit rd) b d1 a o H Hg1')
        as (pre & S' & Hsplit & Hrun & Hph' & Hfile' & Htl & Hdisk & Hbowl & Hoff & _).
      exists (m :: pre), S'. split; [cbn [app]; f_equal; exact Hsplit|]. split.
      { intros tail. cbn [map app]. rewrite run_cons by reflexivity.
        rewrite step_first. fold op. rewrite Hfull, Hpay. apply Hrun. }
      rewrite Hp1 in Htl.
      split; [assumption|]. split; [assumption|]. split; [assumption|].
      split; [|auto].
      intros g Hg. rewrite Hdisk by assumption. unfold d1. rewrite !upd_other by assumption. reflexivity.
  Qed.

  (* ------------------------------------------------------------------ 4. processBsdiff *)

  Lemma step_bshdr f rd b d a o t :
    stepC (St PBsHeader f rd b d a o) (MBsHeader t) =
    Running (St (PBsLoop 0%N 0 t) f (rd_read emit rd) b (upd d f (d f)) a o).
  Proof. reflexivity. Qed.

  Lemma step_bsend wN f rd b d a o :
    N.eqb wN (ssize_of newC f) = true ->
    stepC (St (PBsEnd wN) f rd b d a o) MEnd =
    Running (St PFile (f + 1)%N (rd_read emit rd) b (upd d f (d f)) a o).
  Proof.
    intros H. unfold c03_step, step. cbn [s_ph s_file]. change (p_tell wN) with wN. rewrite H. reflexivity.
  Qed.

  (** 4. [processBsdiff] from its beginning: BsdiffHeader, the controls up to the one marked
      eof, the sentinel, the final size check [writer.Tell() == f.Size] (C03: [w_tell] against
      [ssize]).  The frames are abstracted by the type each is read as
      ([abs_bsdiff_series]). *)
  Theorem process_bsdiff_models_agree_c03 : forall idx p size m ms rest s s' (S : cstate),
    znth (c_files newC) idx = Some (p, size) ->
    process_bsdiff oldC newC olds idx (m :: ms) s = Ok (rest, s') ->
    s_ph S = PBsHeader -> s_file S = Z.to_N idx ->
    tlookup (p_tree s) p = Some (File (s_disk S (s_file S))) ->
    exists ctrls m2 (S' : cstate),
      ms = ctrls ++ m2 :: rest /\
      (forall tail, runC S (abs_bsdiff_series m ctrls m2 ++ tail) = runC S' tail) /\
      s_ph S' = PFile /\ s_file S' = (s_file S + 1)%N /\
      tlookup (p_tree s') p = Some (File (s_disk S' (s_file S))) /\
      c03_frame S S'.
  Proof.
    intros idx p size m ms rest s s' S Hidx H Hph Hfile Hl.
    destruct S as [ph f rd b d a o]. cbn [s_ph s_file s_disk] in *. subst ph. subst f.
    unfold c03_frame. cbn [s_file s_disk s_bowl s_offers].
    unfold process_bsdiff in H. set (tgt := bh_target (as_bh m)) in *.
    destruct ((tgt <? 0) || (tgt >=? Z.of_nat (length (c_files oldC)))); [discriminate|].
    unfold pool_open in H.
    destruct (znth (c_files oldC) tgt) as [[pf fsz]|]; [|discriminate].
    destruct (znth olds tgt) as [old|] eqn:Ho; cbn [bind] in H; [|discriminate].
    destruct (open_writer newC (ev s (EvRead tgt)) idx) as [w0| |] eqn:Eow; cbn [bind] in H; try discriminate.
    destruct (ctrl_loop old 0 ms w0) as [[r1 w1]| |] eqn:Ecl; cbn [bind fst snd] in H; try discriminate.
    destruct r1 as [|m2 r2]; [discriminate|].
    destruct (so_type (as_so m2) =? HEY) eqn:Ehey; cbn [negb] in H; [|discriminate].
    rewrite Hidx in H.
    destruct (Z.eqb_spec (Z.of_nat (w_off w1)) size) as [Esz|_]; [|discriminate].
    injection H as <- <-.
    unfold open_writer in Eow. rewrite Hidx in Eow.
    destruct (entry_open _ p) as [t0| |] eqn:Eeo; cbn [bind] in Eow; try discriminate.
    injection Eow as <-. cbn [ev p_tree] in Eeo.
    pose proof (entry_open_keeps _ _ _ _ Eeo Hl) as Hl0.
    set (f := Z.to_N idx) in *.
    set (d1 := upd d f (d f)).
    rewrite <- (old_of_znth _ _ Ho) in Ecl.
    match type of Ecl with ctrl_loop _ _ _ ?w = _ => assert (Hg0 : wgoodC w (d1 f) 0%N) end.
    { unfold wgoodC. cbn [w_st w_path w_off p_tree]. unfold d1. rewrite upd_same.
      split; [assumption|]. split; [reflexivity|]. lia. }
    destruct (ctrl_agree_St ms 0 _ _ w1 0%N (Z.to_N tgt) f (rd_read emit rd) b d1 a o Ecl Hg0)
      as (pre & S1 & wN1 & Hsplit & Hrun & Hph1 & Hfile1 & Hgood & Hpath & Hdisk & Hbowl & Hoff & _).
    cbn [w_path] in Hpath.
    destruct S1 as [ph1 f1 rd1 b1 dk1 a1 o1]. cbn [s_ph s_file s_disk s_bowl s_offers] in *. subst ph1 f1 b1 o1.
    exists pre, m2, (St PFile (f + 1)%N (rd_read emit rd1) b (upd dk1 f (dk1 f)) a1 o).
    split; [assumption|]. split.
    { intros tail. unfold abs_bsdiff_series. cbn [app]. rewrite <- app_assoc. cbn [app].
      rewrite run_cons by reflexivity. unfold abs_bh. fold tgt. rewrite step_bshdr. fold d1.
      rewrite Hrun. rewrite run_cons by reflexivity.
      unfold abs_so. rewrite Ehey. rewrite step_bsend; [reflexivity|].
      unfold f. rewrite (ssize_agree _ _ _ Hidx). destruct Hgood as (_ & G2 & _).
      apply N.eqb_eq. lia. }
    cbn [s_ph s_file s_disk s_bowl s_offers]. rewrite upd_same.
    split; [reflexivity|]. split; [reflexivity|].
    split; [destruct Hgood as (G1 & _); rewrite Hpath in G1; exact G1|].
    split; [|auto].
    intros g Hg. rewrite upd_other by assumption. rewrite Hdisk by assumption. unfold d1. apply upd_other. assumption.
  Qed.

End Agree.

(* ------------------------------------------------------------------ 5. where the two models differ *)

(** The theorems above go one way: C01 returns Ok => C03 runs to the same result.  The converse
    fails, because the C03 machine leaves every index / bounds question to other claims
    (Patch/Resume.v: "index bounds are C10's business") and treats the old build as total
    functions [old_of], [tsize_of]:

    (a) C03 has no [validateOp]: a block range whose file index is outside the old container
        is an error for C01; C03 reads the empty file ([diff_validate_op]);
    (b) C03 has no bounds check in bsdiff [Apply]: a control whose add part runs past the end of
        the old file is an error for C01 (io.ReadFull: unexpected EOF); C03 adds what is there
        and goes on, possibly to a Finished run ([diff_bsdiff_bounds]);
    (c) C03 has no check of the BsdiffHeader's target index ([diff_bsdiff_target]);
    (d) a negative block index makes the seek of ApplySingleFull fail in C01; the C03 message
        cannot express it ([abs_so] clamps to 0), nor a negative span.  For the relay loop
        this is harmless (Theorem 1 needs no hypothesis); for the FIRST op it is not: a span
        of -1 is not a full-file op for C01, its clamped image can be one for C03
        ([diff_first_span]) - hence [so_span_repr] in Theorem 3;
    (e) a file that the old container declares but the pool cannot open is an error for C01
        ([pool_open], [apply_range]); C03's [old_of] yields the empty file.  Excluded above by
        [aligned];
    (f) a negative size in the new container: C03 sizes are [N].  Excluded by [0 <= size];
    (g) [Patcher.w_write w []] never reaches the file, [p_write] with [[]] zero-extends a file
        shorter than the offset ([pwrite]); they agree because the offset stays inside the
        file ([wsim]'s last conjunct, [pwrite_nil]) - not so after a resume on a truncated
        file, which C01 does not model.
    In the other direction nothing was found: on the inputs covered, whenever C01 returns Ok
    the C03 machine neither fails nor stops. *)

Definition finished_with (r : cresult) (f : N) (content : list byte) : bool :=
  match r with
  | Finished _ _ _ st => nlist_eqb (s_disk st f) content
  | _ => false
  end.

Definition ex_oldC : container := mkC [([1%N], 3)] [] [].
Definition ex_olds : list (list byte) := [[1; 2; 3]%N].
Definition ex_path : path := [2%N].
Definition ex_pst : pst := mkP [(ex_path, File [])] [].
Definition ex_w : wst := mkW ex_pst ex_path 0.
Definition ex_rd : reader := mkrd 0 Idle false 0.
Definition ex_state (ph : phase N) : cstate := St ph 0%N ex_rd bowl0 (fun _ => []) 0%nat [].
Definition nof (_ : N) : bool := false.
Definition nob (_ : nat) : bool := false.

(** (a) a block range naming old file 7 of a one-file container *)
Definition ex_bad_range : pmsg := MSO (mkSO T_BLOCK_RANGE 7 0 1 []).
Definition ex_newC0 : container := mkC [(ex_path, 0)] [] [].

Lemma diff_validate_op :
  relay 4 ex_oldC ex_olds [ex_bad_range; hey_msg] ex_w = Err /\
  finished_with (c03_run 4 ex_oldC ex_newC0 ex_olds 1 nof nob nob (ex_state (PRsLoop 0%N))
                         (map (fun m => abs_so (as_so m)) [ex_bad_range; hey_msg])) 0 [] = true.
Proof. split; vm_compute; reflexivity. Qed.

(** (b) an add part of five bytes against an old file of three: C01 errs, C03 writes the three
    sums, passes the final size check and finishes *)
Definition ex_long_add : pmsg := MCT (mkCT [1; 1; 1; 1; 1]%N [] 0 false).
Definition ex_eof : pmsg := MCT (mkCT [] [] 0 true).
Definition ex_newC3 : container := mkC [(ex_path, 3)] [] [].

Lemma diff_bsdiff_bounds :
  process_bsdiff ex_oldC ex_newC3 ex_olds 0 [MBH (mkBH 0); ex_long_add; ex_eof; hey_msg] ex_pst = Err /\
  finished_with (c03_run 4 ex_oldC ex_newC3 ex_olds 1 nof nob nob (ex_state PBsHeader)
                         (abs_bsdiff_series (MBH (mkBH 0)) [ex_long_add; ex_eof] hey_msg)) 0 [2; 3; 4]%N = true.
Proof. split; vm_compute; reflexivity. Qed.

(** (c) a BsdiffHeader naming old file 9 *)
Lemma diff_bsdiff_target :
  process_bsdiff ex_oldC ex_newC0 ex_olds 0 [MBH (mkBH 9); ex_eof; hey_msg] ex_pst = Err /\
  finished_with (c03_run 4 ex_oldC ex_newC0 ex_olds 1 nof nob nob (ex_state PBsHeader)
                         (abs_bsdiff_series (MBH (mkBH 9)) [ex_eof] hey_msg)) 0 [] = true.
Proof. split; vm_compute; reflexivity. Qed.

(** (d) a first op with span -1 on empty files: C01 does not see a full-file op, applies it
    (nothing to copy) and relays the DATA op that follows; the clamped C03 message IS a
    full-file op, so C03 transposes and ignores the DATA op.  Both succeed, with different
    files: [so_span_repr] cannot be dropped from Theorem 3. *)
Definition ex_oldC_empty : container := mkC [([1%N], 0)] [] [].
Definition ex_neg_span : pmsg := MSO (mkSO T_BLOCK_RANGE 0 0 (-1) []).
Definition ex_data : pmsg := MSO (mkSO T_DATA 0 0 0 [5%N]).

Lemma diff_first_span :
  (match process_rsync 4 ex_oldC_empty ex_newC0 [[]] 0 [ex_neg_span; ex_data; hey_msg] ex_pst with
   | Ok (_, s') => match tlookup (p_tree s') ex_path with Some (File d) => nlist_eqb d [5%N] | _ => false end
   | _ => false
   end = true) /\
  finished_with (c03_run 4 ex_oldC_empty ex_newC0 [[]] 1 nof nob nob (ex_state PRsFirst)
                         (map (fun m => abs_so (as_so m)) [ex_neg_span; ex_data; hey_msg])) 0 [] = true /\
  ~ so_span_repr (as_so ex_neg_span).
Proof.
  split; [vm_compute; reflexivity|]. split; [vm_compute; reflexivity|].
  intros H. assert (E : so_type (as_so ex_neg_span) = T_BLOCK_RANGE) by (vm_compute; reflexivity).
  specialize (H E). vm_compute in H. apply H. reflexivity.
Qed.
