(** C11 composed with C01 at Coq level: the operations C11's model of the real differ emits,
    translated as pwr/diff.go's makeOpsWriter does, satisfy the hypothesis [diff_ok] that C01
    makes about its abstract differ; hence "diff then apply reproduces the new build" holds with
    the real differ and no [diff_ok] hypothesis.  Proofs only (definitions: Compose/DiffApply.v;
    statements: Properties/C01.v). *)
From Coq Require Import ZifyBool ZifyNat ZifyN.
From Wharf Require Import Base.Prelude Bowl.Fresh Bowl.FreshProofs Patch.Reinterp Patch.Stream Patch.Patcher
     Patch.ApplyProofs Patch.PatcherProofs Patch.DiffApplyProofs Compose.DiffApply.
From Wharf Require Wsync.Weak Wsync.Diff Wsync.Apply Wsync.Library Wsync.Sign Wsync.Spec
     Wsync.ApplyProofs Wsync.DiffProofs Wsync.LibraryProofs Wsync.Theorems.
Local Open Scope Z_scope.
Ltac Zify.zify_post_hook ::= Z.div_mod_to_equations.

Module WD := Wharf.Wsync.Diff.
Module WA := Wharf.Wsync.Apply.
Module WL := Wharf.Wsync.Library.
Module WS := Wharf.Wsync.Spec.
Module WAP := Wharf.Wsync.ApplyProofs.
Module WT := Wharf.Wsync.Theorems.

(* ------------------------------------------------------------------ number types *)

Lemma znth_of_N {A} (l : list A) (f : N) : znth l (Z.of_N f) = nth_error l (N.to_nat f).
Proof.
  unfold znth. destruct (Z.ltb_spec (Z.of_N f) 0) as [Hneg|_]; [lia|].
  f_equal. lia.
Qed.

Lemma slice_of_N (d : list byte) (a n : N) : slice d (Z.of_N a) (Z.of_N n) = WS.sub d a n.
Proof. unfold slice, WS.sub. f_equal; [lia|]. f_equal. lia. Qed.

Lemma sub_nil_list {A} (a n : N) : WS.sub (@nil A) a n = [].
Proof. unfold WS.sub. rewrite skipn_nil, firstn_nil. reflexivity. Qed.

(** pwr.ComputeNumBlocks ([Z.quot], C01) and ceil(len / bs) ([N] division, C11) *)
Lemma num_blocks_agrees (bs : Z) (old : list byte) :
  0 < bs -> Z.of_N (WS.num_blocks (Z.to_N bs) old) = num_blocks bs (Z.of_nat (length old)).
Proof.
  intros Hbs. rewrite num_blocks_pos by lia. unfold WS.num_blocks, WS.len.
  rewrite N2Z.inj_div. rewrite Z2N.id by lia.
  f_equal. rewrite N2Z.inj_sub by lia. rewrite N2Z.inj_add, nat_N_Z, Z2N.id by lia. reflexivity.
Qed.

(** the opSize / lastSize arithmetic of wsync.ApplySingleFull was transcribed twice
    (Wsync/Apply.v and Patch/Patcher.v): the two transcriptions are the same function *)
Lemma op_size_agrees (bs : N) (fileSize idx span : Z) :
  WA.op_size bs fileSize idx span = Patcher.op_size (Z.of_N bs) fileSize idx span.
Proof. reflexivity. Qed.

(* ------------------------------------------------------------------ (2) the two replays agree *)

(** what a translated operation denotes in C01 is what the operation denotes in C11 *)
Lemma denote_tr_op (bs : Z) (olds : list (list byte)) (src : list byte) (o : WD.op) :
  0 <= bs -> denote bs olds (tr_op src o) = WAP.den_op (Z.to_N bs) olds src o.
Proof.
  intros Hbs. destruct o as [f i sp|s l]; cbn [tr_op denote WAP.den_op]; [|reflexivity].
  rewrite znth_of_N.
  replace (bs * Z.of_N i) with (Z.of_N (Z.to_N bs * i)) by lia.
  replace (bs * Z.of_N sp) with (Z.of_N (Z.to_N bs * sp)) by lia.
  destruct (nth_error olds (N.to_nat f)) as [d|] eqn:E.
  - rewrite (nth_error_nth _ _ _ E). apply slice_of_N.
  - apply nth_error_None in E. rewrite (nth_overflow _ _ E). rewrite sub_nil_list. reflexivity.
Qed.

Lemma replay_tr_ops (bs : Z) (olds : list (list byte)) (src : list byte) (ops : list WD.op) :
  0 <= bs -> replay bs olds (map (tr_op src) ops) = WAP.den (Z.to_N bs) olds src ops.
Proof.
  intros Hbs. unfold replay, WAP.den. induction ops as [|o r IH]; [reflexivity|].
  cbn [map flat_map concat]. rewrite IH, denote_tr_op by assumption. reflexivity.
Qed.

(** in bounds in C11's sense is in bounds in C01's sense *)
Lemma range_ok_tr_op (bs : Z) (olds : list (list byte)) (src : list byte) (o : WD.op) :
  0 < bs -> WS.range_ok (Z.to_N bs) olds o -> Stream.range_ok bs olds (tr_op src o).
Proof.
  intros Hbs. destruct o as [f i sp|s l]; cbn [tr_op WS.range_ok Stream.range_ok]; [|trivial].
  intros (old & Hf & Hsp & Hin). exists old. rewrite znth_of_N. split; [exact Hf|].
  rewrite <- num_blocks_agrees by assumption. lia.
Qed.

(** wsync.ApplySingleFull on a block range, as modelled by C11 ([Wsync.Apply.apply_op]) and by
    C01 (the bytes [Patcher.apply_range] hands to the writer): the same bytes for EVERY range, in
    bounds or not, when the pool reports the old file's actual size *)
Lemma apply_op_agrees (bs : Z) (olds : list (list byte)) (f i sp : N) :
  0 < bs ->
  WA.apply_op (Z.to_N bs) olds (WA.CRange f i sp) =
  option_map (fun d => slice d (bs * Z.of_N i) (Patcher.op_size bs (Z.of_nat (length d)) (Z.of_N i) (Z.of_N sp)))
             (znth olds (Z.of_N f)).
Proof.
  intros Hbs. cbn [WA.apply_op]. rewrite znth_of_N. unfold byte in *.
  destruct (nth_error olds (N.to_nat f)) as [d|]; cbn [option_map]; [|reflexivity].
  rewrite op_size_agrees. rewrite Z2N.id by lia. unfold slice. do 3 f_equal. lia.
Qed.

Lemma apply_range_agrees (bs : Z) (oldC : container) (olds : list (list byte)) (w : wst) (f i sp : N)
      (d : list byte) (pf : path) :
  0 < bs -> znth (c_files oldC) (Z.of_N f) = Some (pf, Z.of_nat (length d)) -> znth olds (Z.of_N f) = Some d ->
  exists x, WA.apply_op (Z.to_N bs) olds (WA.CRange f i sp) = Some x /\
    apply_range bs oldC olds w (Z.of_N f) (Z.of_N i) (Z.of_N sp) =
    w_write (mkW (ev (ev (w_st w) (EvSize (Z.of_N f))) (EvRead (Z.of_N f))) (w_path w) (w_off w)) x.
Proof.
  intros Hbs Hc Hd. rewrite apply_op_agrees by assumption. rewrite Hd. cbn [option_map].
  eexists. split; [reflexivity|].
  unfold apply_range. rewrite Hc, Hd.
  destruct (Z.ltb_spec (bs * Z.of_N i) 0) as [Hneg|_]; [nia|]. reflexivity.
Qed.

(** C11's [apply_ops] (ApplyPatch = ApplySingleFull per op) of the differ's operations with
    their payload, and C01's [replay] of their translation, agree on in-bounds operations *)
Lemma replay_agrees_apply_ops (bs : Z) (olds : list (list byte)) (src : list byte) (ops : list WD.op) :
  0 < bs -> Forall (WS.range_ok (Z.to_N bs) olds) ops -> Forall (WAP.data_ok src) ops ->
  WA.apply_ops (Z.to_N bs) olds (map (WS.conc src) ops) = Some (replay bs olds (map (tr_op src) ops)).
Proof.
  intros Hbs Hr Hd. rewrite replay_tr_ops by lia. apply WAP.apply_ops_den; [lia|assumption|assumption].
Qed.

(* ------------------------------------------------------------------ an empty source: one empty data op *)

Lemma lookup_in_empty_window {H : Type} (heqb : H -> H -> bool) lib pref swin weak a short :
  WL.lookup_in heqb lib pref swin weak a 0%N short = None.
Proof. unfold WL.lookup_in. destruct (WL.hash_lookup lib weak); reflexivity. Qed.

(** ComputeDiff of an empty source: the first iteration reads nothing (EOF, lastRun), hashes an
    empty window, finds nothing ([findUniqueHash] returns nil for [len(data) == 0]), and the
    trailing-data code enqueues [buffer[0:0]], which the operation cleaner lets through because
    it is the first operation ([sendCount == 0]): exactly one, empty, data operation *)
Lemma compute_diff_empty (bs maxData : N) (get : N -> N) (lookup : N -> N -> N -> N -> option (N * N)) :
  (0 < bs)%N -> (0 < maxData)%N -> (forall w a s, lookup w a 0%N s = None) ->
  WD.compute_diff bs maxData get 0%N lookup = Some [WD.OpData 0 0].
Proof.
  intros Hbs Hmax Hlk.
  set (s1 := WD.mkSt 0 0 0 0 0 0 0 0 0 false true 0 false (WD.mkEm None 0 [])).
  assert (R : WD.refill bs maxData 0%N WD.init = s1).
  { unfold WD.refill, WD.init.
    cbn [WD.validTo WD.sumTail WD.base WD.dataTail WD.dataHead WD.aPop WD.beta WD.beta1 WD.beta2 WD.rolling WD.lastRun WD.shortSize WD.oof WD.em].
    rewrite !N.add_0_l.
    destruct (N.ltb_spec 0 bs) as [_|Hc]; [|lia].
    destruct (N.ltb_spec (WD.L bs maxData) bs) as [Hc|_]; [unfold WD.L in Hc; lia|].
    cbn [WD.validTo WD.sumTail WD.base WD.dataTail WD.dataHead WD.aPop WD.beta WD.beta1 WD.beta2 WD.rolling WD.lastRun WD.shortSize WD.oof WD.em].
    change (0 - (0 + 0))%N with 0%N. rewrite N.min_0_r.
    destruct (N.ltb_spec 0 bs) as [_|Hc]; [|lia]. reflexivity. }
  set (s2 := WD.mkSt 0 0 0 0 0 0 0 0 0 true true 0 false (WD.mkEm None 0 [])).
  assert (Hh : WD.hash_step bs get s1 = (s2, false)).
  { unfold WD.hash_step, WD.sum_head, s1.
    cbn [WD.validTo WD.sumTail WD.base WD.dataTail WD.dataHead WD.aPop WD.beta WD.beta1 WD.beta2 WD.rolling WD.lastRun WD.shortSize WD.oof WD.em andb].
    rewrite N.min_0_r.
    reflexivity. }
  assert (E1 : WD.iter bs maxData get 0%N lookup WD.init =
               WD.mkSt 0 0 0 0 0 0 0 0 0 true true 0 false (WD.mkEm None 1 [WD.OpData 0 0])).
  { unfold WD.iter. rewrite R, Hh.
    assert (Hsh : WD.sum_head bs s2 = 0%N) by (unfold WD.sum_head, s2; cbn [WD.validTo WD.sumTail]; apply N.min_0_r).
    rewrite Hsh. cbn [negb]. change (0 - WD.sumTail s2)%N with 0%N. rewrite Hlk.
    assert (Hf : WD.flush_data maxData s2 false = s2).
    { unfold WD.flush_data, s2. cbn [WD.dataTail WD.dataHead]. change (0 <? 0)%N with false. reflexivity. }
    rewrite Hf. unfold WD.advance, s2.
    cbn [WD.validTo WD.sumTail WD.base WD.dataTail WD.dataHead WD.aPop WD.beta WD.beta1 WD.beta2 WD.rolling WD.lastRun WD.shortSize WD.oof WD.em].
    change (0 - 0)%N with 0%N. cbn [WD.last_data]. change (0 - 0)%N with 0%N.
    destruct (N.ltb_spec maxData 0) as [Hc|_]; [lia|]. reflexivity. }
  unfold WD.compute_diff, WD.run. change (N.iter (0 + 2) ?f ?x) with (f (f x)).
  assert (S1 : WD.step bs maxData get 0%N lookup WD.init =
               WD.mkSt 0 0 0 0 0 0 0 0 0 true true 0 false (WD.mkEm None 1 [WD.OpData 0 0])).
  { unfold WD.step. cbn [WD.init WD.lastRun]. exact E1. }
  rewrite !S1. reflexivity.
Qed.

(* ------------------------------------------------------------------ (3) the real differ is [diff_ok] *)

Lemma to_N_pos (bs : Z) : 0 < bs -> (0 < Z.to_N bs)%N.
Proof. intros Hb. change 0%N with (Z.to_N 0). apply Z2N.inj_lt; lia. Qed.

Section RealDiffer.
  Variable H : Type.
  Variable shash : list N -> H.
  Variable heqb : H -> H -> bool.
  Variables (bs : Z) (maxData : N) (olds : list (list byte)).
  Hypothesis bs_pos : 0 < bs.
  Hypothesis max_pos : (0 < maxData)%N.
  Hypothesis heqb_sound : forall x y, heqb x y = true -> x = y.

  Notation differ := (real_differ shash heqb bs maxData olds).

  (** the differ always emits at least one operation: for an empty file the one empty data
      operation, for a non-empty file because its operations replay to the file *)
  Lemma diff_ops_empty_source pref :
    WS.diff_ops shash heqb (Z.to_N bs) maxData olds [] pref = Some [WD.OpData 0 0].
  Proof.
    apply compute_diff_empty; [apply to_N_pos; assumption|assumption|].
    intros w a s. apply lookup_in_empty_window.
  Qed.

  (** what C01 assumes of its abstract differ, for one (preferred index, new file), under C11's
      hypothesis for that file *)
  Lemma real_differ_ok_at (pref : Z) (data : list byte) :
    WS.strong_injective shash (Z.to_N bs) olds data ->
    differ pref data <> [] /\ replay bs olds (differ pref data) = data /\
    Forall (Stream.range_ok bs olds) (differ pref data).
  Proof.
    intros Hinj.
    destruct (WT.diff_ops_spec H shash heqb (Z.to_N bs) maxData olds data (pref_of pref)
                (to_N_pos bs bs_pos) max_pos heqb_sound Hinj) as (ops & Hd & Hden & Hr & Hdat & _).
    unfold real_differ. rewrite Hd. split; [|split].
    - destruct data as [|b data'].
      + rewrite diff_ops_empty_source in Hd. injection Hd as <-. discriminate.
      + destruct ops as [|o r]; [discriminate Hden|discriminate].
    - rewrite replay_tr_ops by lia. exact Hden.
    - apply Forall_map. revert Hr. apply Forall_impl. intros o. apply range_ok_tr_op. assumption.
  Qed.

  Lemma diff_ok_of_real_differ_lemma :
    (forall data, WS.strong_injective shash (Z.to_N bs) olds data) ->
    diff_ok bs olds differ.
  Proof. intros Hinj pref data. apply real_differ_ok_at. apply Hinj. Qed.
End RealDiffer.

(* ------------------------------------------------------------------ (4) end to end *)

(** WritePatch consults the differ only on the files of the new build: outside of them the
    differ can be replaced by anything ([diff_ok] quantifies over every input, C11's hypothesis
    is needed only for the files actually diffed) *)
Definition guarded (datas : list (list byte)) (differ : Z -> list byte -> list op) (pref : Z) (data : list byte) : list op :=
  if existsb (nlist_eqb data) datas then differ pref data else [OpData data].

Lemma guarded_in datas differ pref data : In data datas -> guarded datas differ pref data = differ pref data.
Proof.
  intros Hin. unfold guarded.
  assert (E : existsb (nlist_eqb data) datas = true).
  { apply existsb_exists. exists data. split; [assumption|apply WT.nlist_eqb_refl]. }
  rewrite E. reflexivity.
Qed.

Lemma all_series_guarded datas differ oldC : forall fs i,
  (forall f, In f fs -> In (snd f) datas) ->
  all_series (guarded datas differ) oldC i fs = all_series differ oldC i fs.
Proof.
  induction fs as [|f r IH]; intros i Hin; [reflexivity|].
  cbn [all_series]. rewrite IH by (intros g Hg; apply Hin; right; assumption).
  unfold file_series. rewrite guarded_in by (apply Hin; left; reflexivity). reflexivity.
Qed.

Lemma write_patch_guarded differ algo quality old new :
  write_patch (guarded (contents_of new) differ) algo quality old new = write_patch differ algo quality old new.
Proof.
  unfold write_patch, patch_msgs. do 4 f_equal. apply all_series_guarded.
  intros f Hf. unfold contents_of. apply in_map. assumption.
Qed.

Lemma diff_ok_guarded bs olds datas differ :
  (forall pref data, In data datas ->
     differ pref data <> [] /\ replay bs olds (differ pref data) = data /\ Forall (Stream.range_ok bs olds) (differ pref data)) ->
  diff_ok bs olds (guarded datas differ).
Proof.
  intros Hok pref data. unfold guarded.
  destruct (existsb (nlist_eqb data) datas) eqn:E.
  - apply Hok. apply existsb_exists in E. destruct E as (x & Hx & Ex).
    apply WT.nlist_eqb_sound in Ex. subst x. assumption.
  - exact (diff_ok_data_only bs olds pref data).
Qed.

(** C01 with C11's model of the real differ in place of the abstract one *)
Theorem diff_apply_fresh_end_to_end_lemma :
  forall (H : Type) (shash : list N -> H) (heqb : H -> H -> bool)
         (bs : Z) (maxData : N) (old new : build) (algo quality : Z),
    0 < bs -> (0 < maxData)%N -> (forall x y, heqb x y = true -> x = y) ->
    Forall (fun data => WS.strong_injective shash (Z.to_N bs) (contents_of old) data) (contents_of new) ->
    wf_build new -> fits63 old -> fits63 new ->
    exists t touched trace,
      apply_patch_fresh bs (contents_of old) None
        (write_patch (real_differ shash heqb bs maxData (contents_of old)) algo quality old new) = Ok (t, touched, trace) /\
      touched = Z.of_nat (length (files_of new)) /\
      forall p, tlookup t p = tlookup new p.
Proof.
  intros H shash heqb bs maxData old new algo quality Hbs Hmax Hsound Hinj WFN FO FN.
  rewrite <- (write_patch_guarded (real_differ shash heqb bs maxData (contents_of old)) algo quality old new).
  apply diff_apply_fresh_lemma; try assumption.
  apply diff_ok_guarded. intros pref data Hin.
  apply real_differ_ok_at; try assumption.
  rewrite Forall_forall in Hinj. apply Hinj. assumption.
Qed.

Theorem diff_apply_fresh_end_to_end_any_codec_lemma :
  forall (B : Type) (encode : list frame -> B) (decode : B -> option (list frame)),
    (forall fs, decode (encode fs) = Some fs) ->
  forall (H : Type) (shash : list N -> H) (heqb : H -> H -> bool)
         (bs : Z) (maxData : N) (old new : build) (algo quality : Z),
    0 < bs -> (0 < maxData)%N -> (forall x y, heqb x y = true -> x = y) ->
    Forall (fun data => WS.strong_injective shash (Z.to_N bs) (contents_of old) data) (contents_of new) ->
    wf_build new -> fits63 old -> fits63 new ->
    exists fs t touched trace,
      decode (encode (write_patch (real_differ shash heqb bs maxData (contents_of old)) algo quality old new)) = Some fs /\
      apply_patch_fresh bs (contents_of old) None fs = Ok (t, touched, trace) /\
      forall p, tlookup t p = tlookup new p.
Proof.
  intros B encode decode RT H shash heqb bs maxData old new algo quality Hbs Hmax Hsound Hinj WFN FO FN.
  destruct (diff_apply_fresh_end_to_end_lemma H shash heqb bs maxData old new algo quality Hbs Hmax Hsound Hinj WFN FO FN)
    as (t & touched & trace & E & _ & Ht).
  eexists _, t, touched, trace. split; [apply RT|]. split; assumption.
Qed.
