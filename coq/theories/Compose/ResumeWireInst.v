(** C03 x C13 - [resume_equiv] with the reader hypothesis [H_wire] discharged for the wire
    instance of Compose/ResumeWire.v.

    [H_wire] as stated in Patch/ResumeProofs.v quantifies over ALL pairs (reader index [off],
    source index [src]) with [src <= off].  The faithful instance [src_resume_w] cannot answer
    [Some off] for all of them: [src] names the source checkpoint handed out during the read
    of message [src], which exists only when the source did hand one out ([emit_w src]), lies
    (for a decompressing source) anywhere up to the END of that message, so that
    [ReadContext.Resume] is only guaranteed to work for [src < off]; and [off] must be a
    message boundary of the stream ([off <= length msgs]).  That is exactly [wf_mc], and it is
    all C13 gives.  It is also all C03 needs: every checkpoint the patcher ever offers
    satisfies it ([offered_wf] below - an invariant of [run]), so the theorem holds for the
    faithful instance, with no reader hypothesis left. *)
From Wharf Require Import Base.Prelude Patch.Resume Patch.ResumeProofs Patch.ResumeLive
  Wire.Uvarint Wire.Frame Wire.FrameProofs Wire.Reader Wire.ReaderProofs
  Compose.ResumeWire Compose.ResumeWireProofs.
From Coq Require Import ZifyBool ZifyNat ZifyN.

Section Inst.
  Variables D RAW WS WCK : Type.
  Variable dlen : D -> N.
  Variable blocksize : N.
  Variables tsize ssize : N -> N.
  Variable nfiles : N.
  Variable range_data : N -> N -> N -> D.
  Variable bs_data : N -> Z -> D -> D -> D.
  Variable w_open  : N -> option (N * WCK) -> RAW -> option (WS * RAW).
  Variable w_write : N -> WS -> RAW -> D -> WS * RAW.
  Variable w_save  : N -> WS -> RAW -> (N * WCK) * WS * RAW.
  Variable w_final : N -> WS -> RAW -> RAW.
  Variable w_tell  : WS -> N.
  Variable fresh : bool.
  Variable is_overlay : N -> bool.
  Variable prepare : N -> RAW -> RAW.
  Variable copy_old : N -> RAW.
  Variable raw_ok : N -> RAW -> Prop.
  Variable covers : N -> N * WCK -> RAW -> RAW -> Prop.

  (** the wire: protobuf encoding of the patch messages, source behaviour, the message list.
      (That the reader over these bytes yields [msgs] again needs the codec round trip and
      bodies below 2^56 bytes - [wire_refines], [src_resume_w_yields]; where [Resume] restarts
      does not.) *)
  Variable marshal : msg D -> list byte.
  Variable beh : behaviour.
  Hypothesis Hbeh : beh_sound beh.
  Variable cap0 : N.
  Variable msgs : list (msg D).

  Local Notation emitW := (emit_w marshal msgs beh).
  Local Notation srW := (src_resume_w marshal msgs beh cap0).
  Local Notation wf_mc := (wf_mc marshal msgs beh).

  Local Notation state := (state RAW WS WCK).
  Local Notation result := (result RAW WS WCK).
  Local Notation stepW := (Resume.step D RAW WS WCK dlen blocksize tsize ssize range_data bs_data w_open w_write w_save w_final w_tell fresh is_overlay copy_old emitW).
  Local Notation runW := (Resume.run D RAW WS WCK dlen blocksize tsize ssize nfiles range_data bs_data w_open w_write w_save w_final w_tell fresh is_overlay copy_old emitW).
  Local Notation resumeG := (resume_state RAW WS WCK w_open fresh is_overlay prepare).
  Local Notation run_resumedG := (run_resumed D RAW WS WCK dlen blocksize tsize ssize nfiles range_data bs_data w_open w_write w_save w_final w_tell fresh is_overlay prepare copy_old emitW).
  Local Notation offeredG := (offered D RAW WS WCK dlen blocksize tsize ssize nfiles range_data bs_data w_open w_write w_save w_final w_tell fresh is_overlay prepare copy_old emitW).
  Local Notation srd := (s_rd RAW WS WCK).
  Local Notation sph := (s_ph RAW WS WCK).
  Local Notation soffers := (s_offers RAW WS WCK).
  Local Notation rstate := (result_state RAW WS WCK).

  (** the totalisation used only inside the proof: [src_resume_w] where C13 speaks, the
      answer [H_wire] asks for elsewhere *)
  Definition srT (off src : nat) : option nat :=
    if ((src <? off)%nat && (off <=? length msgs)%nat && emitW src)%bool then srW off src else Some off.

  Lemma srT_wf : forall mc, wf_mc mc -> srT (Resume.mc_off mc) (Resume.mc_src mc) = srW (Resume.mc_off mc) (Resume.mc_src mc).
  Proof.
    intros mc (H1 & H2 & H3). unfold srT. apply Nat.ltb_lt in H1. apply Nat.leb_le in H2. now rewrite H1, H2, H3.
  Qed.

  Lemma srT_H_wire : forall off src, (src <= off)%nat -> srT off src = Some off.
  Proof.
    intros off src _. unfold srT.
    destruct ((src <? off)%nat && (off <=? length msgs)%nat && emitW src)%bool eqn:E; [|reflexivity].
    apply andb_prop in E. destruct E as (E & E3). apply andb_prop in E. destruct E as (E1 & E2).
    apply Nat.ltb_lt in E1. apply Nat.leb_le in E2.
    apply (src_resume_w_ok marshal msgs beh cap0 Hbeh).
    repeat split; assumption.
  Qed.

  (** *** every checkpoint a run hands to its consumer is one the instance can produce *)
  Definition rd_wf (r : Resume.reader) : Prop :=
    Resume.r_st r = Resume.HasSrc -> (Resume.r_src r < Resume.r_pos r)%nat /\ emitW (Resume.r_src r) = true.

  Definition ck_wf (x : ckpt WCK * (N -> RAW)) : Prop := wf_mc (ck_msg _ (fst x)).

  Definition good_st (s : state) : Prop := rd_wf (srd s) /\ Forall ck_wf (soffers s).

  Lemma rd_read_wf : forall r, rd_wf r -> rd_wf (Resume.rd_read emitW r).
  Proof.
    intros [p st wn sr] H. unfold rd_wf, Resume.rd_read in *. cbn in *.
    destruct wn; cbn.
    - destruct (emitW p) eqn:E; cbn.
      + intros _. split; [lia|exact E].
      + intros Hx. destruct (H Hx). split; [lia|assumption].
    - intros Hx. destruct (H Hx). split; [lia|assumption].
  Qed.

  Lemma save_point_wf : forall sched stop bs w oo t (s s1 : state) w1 st,
    save_point _ _ _ w_save sched stop bs w oo t s = (s1, w1, st) ->
    good_st s -> (Resume.r_pos (srd s) <= length msgs)%nat ->
    good_st s1 /\ Resume.r_pos (srd s1) = Resume.r_pos (srd s).
  Proof.
    intros sched stop bs w oo t s s1 w1 st. unfold save_point, good_st.
    destruct (sched (s_asked _ _ _ s)).
    - destruct (srd s) as [p rst wn sr] eqn:Er. unfold Resume.rd_want, Resume.rd_pop.
      destruct rst; cbn.
      + intros H (Hr & Ho) Hp; inversion H; subst; cbn. split; [split; [intros Hx; discriminate Hx|exact Ho]|reflexivity].
      + intros H (Hr & Ho) Hp; inversion H; subst; cbn. split; [split; [intros Hx; discriminate Hx|exact Ho]|reflexivity].
      + destruct (w_save (s_file _ _ _ s) w (s_disk _ _ _ s (s_file _ _ _ s))) as [[c w'] raw'].
        intros H (Hr & Ho) Hp; inversion H; subst; cbn. split; [split; [intros Hx; discriminate Hx|]|reflexivity].
        constructor; [|exact Ho]. unfold ck_wf, ResumeWire.wf_mc. cbn.
        destruct (Hr eq_refl) as (A & B). cbn in A, B, Hp. repeat split; assumption.
    - intros H Hg Hp. inversion H; subst. cbn. split; [exact Hg|reflexivity].
  Qed.

  Lemma open1_rd : forall (s s2 : state) c w,
    open1 _ _ _ w_open fresh is_overlay s c = Some (s2, w) -> srd s2 = srd s /\ soffers s2 = soffers s.
  Proof.
    intros s s2 c w. unfold open1. destruct (w_open _ _ _) as [[w' raw']|]; intros H; inversion H. split; reflexivity.
  Qed.

  Lemma step_wf : forall sched stop (s : state) m r,
    stepW sched stop s m = r -> good_st s -> (Resume.r_pos (srd s) < length msgs)%nat ->
    forall s', rstate r = Some s' -> good_st s' /\ (Resume.r_pos (srd s') <= S (Resume.r_pos (srd s)))%nat.
  Proof.
    intros sched stop s m r Hr Hg Hlt. subst r.
    assert (Hrd : forall s1 s2 : state, good_st s1 -> Resume.r_pos (srd s1) = Resume.r_pos (srd s) ->
              srd s2 = Resume.rd_read emitW (srd s1) -> soffers s2 = soffers s1 ->
              good_st s2 /\ (Resume.r_pos (srd s2) <= S (Resume.r_pos (srd s)))%nat).
    { intros s1 s2 (G1 & G2) Ep E1 E2. unfold good_st. rewrite E1, E2. split; [split; [now apply rd_read_wf|exact G2]|].
      rewrite <- Ep. unfold Resume.rd_read. destruct (Resume.r_want (srd s1) && emitW (Resume.r_pos (srd s1)))%bool; cbn; lia. }
    unfold Resume.step. destruct (sph s) eqn:Es.
    - (* PFile *)
      destruct m; try (intros s' Hs; discriminate Hs). destruct (N.eqb fi (s_file _ _ _ s)); [|intros s' Hs; discriminate Hs].
      intros s' Hs. inversion Hs; subst s'. apply (Hrd s); auto.
    - (* PRsFirst *)
      destruct (is_full_file_op D blocksize tsize ssize (s_file _ _ _ s) m).
      + destruct (transpose RAW fresh copy_old (s_file _ _ _ s) n (s_bowl _ _ _ (read1 _ _ _ emitW s)) (s_disk _ _ _ (read1 _ _ _ emitW s))).
        intros s' Hs. inversion Hs; subst s'. apply (Hrd s); auto.
      + destruct (open1 _ _ _ w_open fresh is_overlay (read1 _ _ _ emitW s) None) as [[s2 w]|] eqn:Eo; [|intros s' Hs; discriminate Hs].
        apply open1_rd in Eo. destruct Eo as (O1 & O2). cbn in O1, O2.
        destruct m; try (intros s' Hs; discriminate Hs).
        * pose proof (write1_rd D RAW WS WCK w_write s2 w (range_data f bi span)) as (Q1 & Q2).
          destruct (write1 D _ _ _ w_write s2 w (range_data f bi span)) as [s3 w3]. cbn in Q1, Q2.
          intros s' Hs. inversion Hs; subst s'. apply (Hrd s); auto; cbn; congruence.
        * pose proof (write1_rd D RAW WS WCK w_write s2 w d) as (Q1 & Q2).
          destruct (write1 D _ _ _ w_write s2 w d) as [s3 w3]. cbn in Q1, Q2.
          intros s' Hs. inversion Hs; subst s'. apply (Hrd s); auto; cbn; congruence.
    - (* PRsSkip *)
      destruct m; intros s' Hs; inversion Hs; subst s'; apply (Hrd s); auto.
    - (* PRsLoop *)
      destruct (save_point _ _ _ w_save sched stop false w 0%Z 0%N s) as [[s1 w1] st] eqn:Esave.
      destruct (save_point_wf _ _ _ _ _ _ _ _ _ _ Esave Hg ltac:(lia)) as (G1 & P1).
      destruct st.
      { intros s' Hs. inversion Hs; subst s'. split; [exact G1|lia]. }
      destruct m; try (intros s' Hs; discriminate Hs).
      + pose proof (write1_rd D RAW WS WCK w_write (read1 _ _ _ emitW s1) w1 (range_data f bi span)) as (Q1 & Q2).
        destruct (write1 D _ _ _ w_write (read1 _ _ _ emitW s1) w1 (range_data f bi span)) as [s3 w3]. cbn in Q1, Q2.
        intros s' Hs. inversion Hs; subst s'. apply (Hrd s1); auto.
      + pose proof (write1_rd D RAW WS WCK w_write (read1 _ _ _ emitW s1) w1 d) as (Q1 & Q2).
        destruct (write1 D _ _ _ w_write (read1 _ _ _ emitW s1) w1 d) as [s3 w3]. cbn in Q1, Q2.
        intros s' Hs. inversion Hs; subst s'. apply (Hrd s1); auto.
      + intros s' Hs. inversion Hs; subst s'. apply (Hrd s1); auto.
    - (* PBsHeader *)
      destruct m; try (intros s' Hs; discriminate Hs).
      destruct (open1 _ _ _ w_open fresh is_overlay (read1 _ _ _ emitW s) None) as [[s2 w]|] eqn:Eo; [|intros s' Hs; discriminate Hs].
      apply open1_rd in Eo. destruct Eo as (O1 & O2). cbn in O1, O2.
      intros s' Hs. inversion Hs; subst s'. apply (Hrd s); auto.
    - (* PBsLoop *)
      destruct (save_point _ _ _ w_save sched stop true w oldoff target s) as [[s1 w1] st] eqn:Esave.
      destruct (save_point_wf _ _ _ _ _ _ _ _ _ _ Esave Hg ltac:(lia)) as (G1 & P1).
      destruct st.
      { intros s' Hs. inversion Hs; subst s'. split; [exact G1|lia]. }
      destruct m; try (intros s' Hs; discriminate Hs).
      + pose proof (write1_rd D RAW WS WCK w_write (read1 _ _ _ emitW s1) w1 (bs_data target oldoff add copy)) as (Q1 & Q2).
        destruct (write1 D _ _ _ w_write (read1 _ _ _ emitW s1) w1 (bs_data target oldoff add copy)) as [s3 w3]. cbn in Q1, Q2.
        intros s' Hs. inversion Hs; subst s'. apply (Hrd s1); auto.
      + intros s' Hs. inversion Hs; subst s'. apply (Hrd s1); auto.
    - (* PBsEnd *)
      destruct m; try (intros s' Hs; discriminate Hs).
      destruct (N.eqb (w_tell w) (ssize (s_file _ _ _ s))); [|intros s' Hs; discriminate Hs].
      intros s' Hs. inversion Hs; subst s'. apply (Hrd s); auto.
  Qed.

  Lemma run_wf : forall sched stop ms (s : state),
    good_st s -> (Resume.r_pos (srd s) + length ms <= length msgs)%nat ->
    forall s', rstate (runW sched stop s ms) = Some s' -> Forall ck_wf (soffers s').
  Proof.
    intros sched stop ms. induction ms as [|m ms IH]; intros s Hg Hlen s'; cbn [Resume.run].
    - destruct (at_end _ _ _ nfiles s); intros Hs; [|discriminate Hs]. inversion Hs; subst. apply Hg.
    - destruct (at_end _ _ _ nfiles s); [intros Hs; inversion Hs; subst; apply Hg|].
      cbn [length] in Hlen.
      pose proof (step_wf sched stop s m _ eq_refl Hg ltac:(lia)) as Hstep.
      destruct (stepW sched stop s m) as [s1|s1|s1|] eqn:E.
      + destruct (Hstep s1 eq_refl) as (G1 & P1). apply IH; [exact G1|lia].
      + intros Hs. apply (Hstep s' Hs).
      + intros Hs. apply (Hstep s' Hs).
      + intros Hs. discriminate Hs.
  Qed.

  Lemma resume_state_shape : forall sr ck d s,
    resumeG sr ck d = Some s ->
    exists p, sr (Resume.mc_off (ck_msg _ ck)) (Resume.mc_src (ck_msg _ ck)) = Some p /\
              srd s = Resume.mkrd p Resume.Idle false 0 /\ soffers s = [].
  Proof.
    intros sr ck d s. unfold resume_state. destruct (sr _ _) as [p|]; [|discriminate].
    destruct (open1 _ _ _ w_open fresh is_overlay _ _) as [[s1 w]|] eqn:Eo; [|discriminate].
    apply open1_rd in Eo. destruct Eo as (O1 & O2). cbn in O1, O2.
    intros H. inversion H; subst s. exists p. split; [reflexivity|]. split; assumption.
  Qed.

  Lemma run_resumed_agree : forall ck d sched stop, wf_mc (ck_msg _ ck) ->
    run_resumedG srT sched stop ck d msgs = run_resumedG srW sched stop ck d msgs.
  Proof.
    intros ck d sched stop Hwf. unfold run_resumed, resume_state. rewrite (srT_wf _ Hwf). reflexivity.
  Qed.

  Section Patch.
    Variable d0 : N -> RAW.

    Lemma offered_wf : forall ck d,
      offeredG srW raw_ok covers msgs d0 ck d -> offeredG srT raw_ok covers msgs d0 ck d /\ wf_mc (ck_msg _ ck).
    Proof.
      intros ck d H. induction H as [sched stop s ck d Hr Hin | ck0 dk0 d' sched stop s ck d H0 IH Hc Hr Hin].
      - split; [eapply off_first; eauto|].
        assert (Hall : Forall ck_wf (soffers s)).
        { apply (run_wf sched stop msgs (start_state _ _ _ fresh prepare d0)); [|cbn; lia|exact Hr].
          split; [intros Hx; discriminate Hx|constructor]. }
        rewrite Forall_forall in Hall. apply (Hall _ Hin).
      - destruct IH as (IH1 & IH2). split.
        + eapply off_chain; [exact IH1|exact Hc| |exact Hin]. rewrite run_resumed_agree by exact IH2. exact Hr.
        + unfold run_resumed in Hr. destruct (resumeG srW ck0 d') as [s0|] eqn:Er; [|discriminate Hr].
          destruct (resume_state_shape _ _ _ _ Er) as (p & Ep & Erd & Eof).
          rewrite (src_resume_w_ok marshal msgs beh cap0 Hbeh) in Ep
            by (destruct (ck_msg _ ck0); exact IH2).
          inversion Ep; subst p.
          assert (Hall : Forall ck_wf (soffers s)).
          { apply (run_wf sched stop (skipn (Resume.r_pos (srd s0)) msgs) s0); [| |exact Hr].
            - split; [rewrite Erd; intros Hx; discriminate Hx|rewrite Eof; constructor].
            - rewrite skipn_length, Erd. cbn. destruct IH2 as (_ & Hle & _). lia. }
          rewrite Forall_forall in Hall. apply (Hall _ Hin).
    Qed.

    (** every checkpoint reachable through any chain of crashes and resumes is one C13 resumes *)
    Lemma offered_ckpt_wf : forall ck d, offeredG srW raw_ok covers msgs d0 ck d -> wf_mc (ck_msg _ ck).
    Proof. intros ck d H. exact (proj2 (offered_wf ck d H)). Qed.

    (** [resume_equiv] for the wire instance: no hypothesis about the reader is left, only the
        source contract [beh_sound] *)
    Variable C : Type.
    Variable w_result : N -> RAW -> option C.
    Variable old_content : N -> C.
    Variable capp : C -> D -> C.
    Variable cnil : C.
    Variable w_abs : N -> WS -> RAW -> C.
    Variable winv : N -> WS -> RAW -> Prop.
    Variable finished : N -> RAW -> C -> Prop.
    Hypothesis HW : writer_ok D C RAW WS WCK dlen tsize ssize w_open w_write w_save w_final w_tell w_result fresh prepare
                              copy_old old_content capp cnil w_abs winv raw_ok covers finished.

    Lemma resume_equiv_wire_lemma : forall (Sf : state),
      runW (fun _ => false) (fun _ => false) (start_state _ _ _ fresh prepare d0) msgs = Finished _ _ _ Sf ->
      sized_run D RAW WS WCK dlen blocksize tsize ssize nfiles range_data bs_data w_open w_write w_save w_final
                w_tell fresh is_overlay copy_old emitW (start_state _ _ _ fresh prepare d0) msgs ->
      (forall g, raw_ok g (bowl_create RAW fresh prepare d0 g)) ->
      forall ck d d' sched stop,
      offeredG srW raw_ok covers msgs d0 ck d ->
      crash_ok RAW WCK fresh prepare raw_ok covers ck d d' ->
      match run_resumedG srW sched stop ck d' msgs with
      | Finished _ _ _ sf => commit C RAW WS WCK nfiles w_result fresh old_content sf =
                             commit C RAW WS WCK nfiles w_result fresh old_content Sf
      | Stopped _ _ _ _ => exists j, stop j = true
      | _ => False
      end.
    Proof.
      intros Sf Hideal Hsized Hd0 ck d d' sched stop Hoff Hcrash.
      destruct (offered_wf _ _ Hoff) as (HoffT & Hwf).
      rewrite <- run_resumed_agree by exact Hwf.
      exact (resume_equiv_lemma D C RAW WS WCK dlen blocksize tsize ssize nfiles range_data bs_data w_open w_write w_save
               w_final w_tell w_result fresh is_overlay prepare copy_old old_content emitW srT capp cnil w_abs winv raw_ok
               covers finished HW srT_H_wire msgs d0 Sf Hideal Hsized Hd0 ck d d' sched stop HoffT Hcrash).
    Qed.
  End Patch.
End Inst.

(** *** liveness: the source assumption of [saves_happen] ("the source serves a pending request
    at its very next read": [emit] always true) is what C13's seek source [seek_beh] does on
    every read of a message of the stream ([emit_w_seek]) *)
Section Live.
  Variables D RAW WS WCK : Type.
  Variable dlen : D -> N.
  Variable blocksize : N.
  Variables tsize ssize : N -> N.
  Variable range_data : N -> N -> N -> D.
  Variable bs_data : N -> Z -> D -> D -> D.
  Variable w_open  : N -> option (N * WCK) -> RAW -> option (WS * RAW).
  Variable w_write : N -> WS -> RAW -> D -> WS * RAW.
  Variable w_save  : N -> WS -> RAW -> (N * WCK) * WS * RAW.
  Variable w_final : N -> WS -> RAW -> RAW.
  Variable w_tell  : WS -> N.
  Variable fresh : bool.
  Variable is_overlay : N -> bool.
  Variable copy_old : N -> RAW.

  Local Notation state := (state RAW WS WCK).
  Local Notation stepE := (fun emit => Resume.step D RAW WS WCK dlen blocksize tsize ssize range_data bs_data w_open w_write w_save w_final w_tell fresh is_overlay copy_old emit).
  Local Notation srd := (s_rd RAW WS WCK).
  Local Notation sph := (s_ph RAW WS WCK).
  Local Notation soffers := (s_offers RAW WS WCK).

  Lemma read1_emit_ext : forall emit1 emit2 (s : state),
    emit1 (Resume.r_pos (srd s)) = emit2 (Resume.r_pos (srd s)) -> read1 _ _ _ emit1 s = read1 _ _ _ emit2 s.
  Proof. intros emit1 emit2 s H. unfold read1, Resume.rd_read. rewrite H. reflexivity. Qed.

  (** a step looks at the source only at the position of the message it reads *)
  Lemma step_emit_ext : forall emit1 emit2 sched stop (s : state) m,
    emit1 (Resume.r_pos (srd s)) = emit2 (Resume.r_pos (srd s)) ->
    stepE emit1 sched stop s m = stepE emit2 sched stop s m.
  Proof.
    intros emit1 emit2 sched stop s m H. unfold Resume.step. destruct (sph s).
    - rewrite (read1_emit_ext _ _ _ H). reflexivity.
    - rewrite (read1_emit_ext _ _ _ H). reflexivity.
    - rewrite (read1_emit_ext _ _ _ H). reflexivity.
    - pose proof (save_point_pos _ _ _ w_save sched stop s w false 0%Z 0%N) as Hp.
      destruct (save_point _ _ _ w_save sched stop false w 0%Z 0%N s) as [[s1 w1] st]. cbn [fst] in Hp.
      rewrite (read1_emit_ext emit1 emit2 s1) by (rewrite Hp; exact H). reflexivity.
    - rewrite (read1_emit_ext _ _ _ H). reflexivity.
    - pose proof (save_point_pos _ _ _ w_save sched stop s w true oldoff target) as Hp.
      destruct (save_point _ _ _ w_save sched stop true w oldoff target s) as [[s1 w1] st]. cbn [fst] in Hp.
      rewrite (read1_emit_ext emit1 emit2 s1) by (rewrite Hp; exact H). reflexivity.
    - rewrite (read1_emit_ext _ _ _ H). reflexivity.
  Qed.

  Variable marshal : msg D -> list byte.
  Variable msgs : list (msg D).
  Local Notation emitS := (emit_w marshal msgs seek_beh).
  Local Notation always := (fun _ : nat => true).

  (** [saves_happen] behind the wire reader on a seek source: of any two consecutive relay
      iterations that read messages of the stream, one delivers a checkpoint *)
  Lemma saves_happen_wire_lemma : forall stop (s : state) m s' m' r,
    in_loop WS (sph s) = true -> rd_inv (srd s) ->
    (S (Resume.r_pos (srd s)) < length msgs)%nat ->
    stepE emitS always stop s m = Running _ _ _ s' ->
    in_loop WS (sph s') = true ->
    stepE emitS always stop s' m' = r ->
    match r with
    | Running _ _ _ s'' | Stopped _ _ _ s'' => (length (soffers s) < length (soffers s''))%nat
    | _ => True
    end.
  Proof.
    intros stop s m s' m' r Hl Hinv Hlen H1 Hl' H2.
    pose proof (step_running _ _ _ _ _ _ _ _ _ _ _ _ _ _ _ _ _ _ _ _ _ _ _ _ H1) as Hpos. cbn in Hpos.
    rewrite (step_emit_ext emitS always) in H1 by (apply emit_w_seek; lia).
    rewrite (step_emit_ext emitS always) in H2 by (rewrite Hpos; apply emit_w_seek; lia).
    exact (saves_happen_lemma D RAW WS WCK dlen blocksize tsize ssize range_data bs_data w_open w_write w_save w_final w_tell
             fresh is_overlay copy_old stop s m s' m' r Hl Hinv H1 Hl' H2).
  Qed.
End Live.
