(** Proofs for Compose/ModelsAgreeMalformed.v: the C01 model (Patch/Patcher.v) and the C10 model
    (Patch/Malformed.v, the code after the fixes: [fx = true]) of pwr/patcher agree.

    1. the two proto3 decoding tables (Patch/Reinterp.v [dec_*], Patch/Malformed.v [dec_*]);
    2. one op of the relay loop: validateOp + wsync.ApplySingleFull;
    3. the relay loop, readUntilEndMarker, processRsync;
    4. bsdiff Apply / the control loop / processBsdiff - no hypothesis about offsets is needed
       there: an old-offset that overflowed int64 is rejected by the next Seek in C10 exactly
       where the un-wrapped offset is rejected in C01;
    5. skipFile, the Resume loop.

    Difference found: C01 computes in unbounded integers.  [relay_differs_on_wrapping_seek]:
    for an op whose [blockSize * BlockIndex] is 2^63 Go's product wraps to a negative offset
    and Seek fails (C10: [Err]); the C01 model seeks beyond the end of the file, copies nothing
    and goes on ([Ok]).  Hence the hypothesis [seek_fits]. *)
From Coq Require Import ZifyBool ZifyNat ZifyN.
From Wharf Require Import Base.Prelude Bowl.Fresh Bowl.FreshProofs Patch.Reinterp Patch.Stream Patch.Patcher
     Patch.PatcherProofs Compose.ModelsAgreeMalformed.
From Wharf Require Patch.Malformed Patch.MalformedProofs.
Local Open Scope Z_scope.
Ltac Zify.zify_post_hook ::= Z.div_mod_to_equations.

Lemma p63 : 2^63 = 9223372036854775808. Proof. reflexivity. Qed.
Lemma p64 : 2^64 = 18446744073709551616. Proof. reflexivity. Qed.
Lemma p31 : 2^31 = 2147483648. Proof. reflexivity. Qed.
Lemma p32 : 2^32 = 4294967296. Proof. reflexivity. Qed.

(* ------------------------------------------------------------------ 1. the decoding tables *)

Definition u64 (u : Z) : Prop := 0 <= u < 2^64.
Definition fields_ok (fs : list wfield) : Prop :=
  Forall (fun f => match snd f with WVarint u => u64 u | WBytes _ => True end) fs.

Lemma get_varint_fld n fs : forall acc, M.get_varint n (map fld fs) acc = get_varint n fs acc.
Proof.
  induction fs as [|[k [u|b]] r IH]; intros acc; cbn [map fld M.get_varint get_varint]; auto.
Qed.

Lemma get_len_fld n fs : forall acc,
  M.get_len n (map fld fs) (Z.of_nat (length acc)) = Z.of_nat (length (get_bytes n fs acc)).
Proof.
  induction fs as [|[k [u|b]] r IH]; intros acc; cbn [map fld M.get_len get_bytes]; auto.
  destruct (k =? n); apply IH.
Qed.

Lemma get_varint_range n fs : forall acc, fields_ok fs -> u64 acc -> u64 (get_varint n fs acc).
Proof.
  induction fs as [|[k [u|b]] r IH]; intros acc Hf Ha; cbn [get_varint]; [assumption| |];
    inversion Hf as [|? ? Hx Hr]; subst; cbn [snd] in Hx.
  - apply IH; [assumption|]. destruct (k =? n); assumption.
  - apply IH; assumption.
Qed.

Lemma wrap64_i64_of_u64 u : u64 u -> M.wrap64 u = i64_of_u64 u.
Proof.
  unfold u64, M.wrap64, i64_of_u64. rewrite p63, p64. intros Hu.
  destruct (Z.ltb_spec u 9223372036854775808); lia.
Qed.

Lemma wrap32_i32_of_u64 u : M.wrap32 u = i32_of_u64 u.
Proof.
  unfold M.wrap32, i32_of_u64. rewrite p31, p32.
  destruct (Z.ltb_spec (u mod 4294967296) 2147483648); lia.
Qed.

Lemma i64_of_u64_range u : u64 u -> i64 (i64_of_u64 u).
Proof.
  unfold u64, i64, i64_of_u64. rewrite p63, p64. intros Hu.
  destruct (Z.ltb_spec u 9223372036854775808); lia.
Qed.

Lemma u64_0 : u64 0.
Proof. unfold u64. rewrite p64. lia. Qed.

Lemma f_varint_ok n v : fields_ok (f_varint n v).
Proof.
  unfold f_varint. destruct (v =? 0); constructor; [|constructor].
  cbn [snd]. unfold u64, u64_of_i64. rewrite p64. lia.
Qed.
Lemma f_bytes_ok n b : fields_ok (f_bytes n b).
Proof. unfold f_bytes. destruct b; constructor; [exact I|constructor]. Qed.
Lemma f_bool_ok n b : fields_ok (f_bool n b).
Proof. unfold f_bool. destruct b; constructor; [|constructor]. cbn [snd]. unfold u64. rewrite p64. lia. Qed.

(** every frame C01 can write (and C01 reads nothing else) carries varints below 2^64 *)
Lemma fields_ok_app a b : fields_ok a -> fields_ok b -> fields_ok (a ++ b).
Proof. intros Ha Hb. apply Forall_app. split; assumption. Qed.

Lemma fields_of_ok m : fields_ok (fields_of m).
Proof.
  destruct m as [x|x|x|x]; cbn [fields_of]; unfold fields_sh, fields_so, fields_bh, fields_ct;
    repeat (apply fields_ok_app || apply f_varint_ok || apply f_bytes_ok || apply f_bool_ok).
Qed.

Section Decode.
  Variable fs : list wfield.
  Hypothesis fs_ok : fields_ok fs.

  Lemma f_int64_fld n : M.f_int64 n (map fld fs) = i64_of_u64 (get_varint n fs 0).
  Proof.
    unfold M.f_int64. rewrite get_varint_fld. apply wrap64_i64_of_u64.
    apply get_varint_range; [exact fs_ok|exact u64_0].
  Qed.
  Lemma f_enum_fld n : M.f_enum n (map fld fs) = i32_of_u64 (get_varint n fs 0).
  Proof. unfold M.f_enum. rewrite get_varint_fld. apply wrap32_i32_of_u64. Qed.
  Lemma f_bool_fld n : M.f_bool n (map fld fs) = bool_of_u64 (get_varint n fs 0).
  Proof. unfold M.f_bool. rewrite get_varint_fld. reflexivity. Qed.
  Lemma f_bytes_fld n : M.f_bytes n (map fld fs) = Z.of_nat (length (get_bytes n fs [])).
  Proof. unfold M.f_bytes. exact (get_len_fld n fs []). Qed.

  (** the two transcriptions of proto3 unmarshalling: same message, payloads seen as lengths *)
  Lemma dec_sh_fld : M.dec_sh (map fld fs) = len_sh (dec_sh fs).
  Proof. unfold M.dec_sh, dec_sh, len_sh. cbn [sh_type sh_file]. rewrite f_enum_fld, f_int64_fld. reflexivity. Qed.
  Lemma dec_op_fld : M.dec_op (map fld fs) = len_so (dec_so fs).
  Proof.
    unfold M.dec_op, dec_so, len_so. cbn [so_type so_file so_block so_span so_data].
    rewrite f_enum_fld, !f_int64_fld, f_bytes_fld. reflexivity.
  Qed.
  Lemma dec_bh_fld : M.dec_bh (map fld fs) = bh_target (dec_bh fs).
  Proof. unfold M.dec_bh, dec_bh. cbn [bh_target]. apply f_int64_fld. Qed.
  Lemma dec_ctl_fld : M.dec_ctl (map fld fs) = len_ct (dec_ct fs).
  Proof.
    unfold M.dec_ctl, dec_ct, len_ct. cbn [ct_add ct_copy ct_seek ct_eof].
    rewrite !f_bytes_fld, f_int64_fld, f_bool_fld. reflexivity.
  Qed.
  Lemma dec_ct_seek_i64 : i64 (ct_seek (dec_ct fs)).
  Proof.
    unfold dec_ct. cbn [ct_seek]. apply i64_of_u64_range. apply get_varint_range; [exact fs_ok|exact u64_0].
  Qed.
End Decode.

Theorem decoders_agree_lemma (fs : list wfield) :
  Forall (fun f => match snd f with WVarint u => 0 <= u < 2^64 | WBytes _ => True end) fs ->
  M.dec_sh (map fld fs) = len_sh (dec_sh fs) /\ M.dec_op (map fld fs) = len_so (dec_so fs) /\
  M.dec_bh (map fld fs) = bh_target (dec_bh fs) /\ M.dec_ctl (map fld fs) = len_ct (dec_ct fs).
Proof.
  intros H. repeat split; [apply dec_sh_fld|apply dec_op_fld|apply dec_bh_fld|apply dec_ctl_fld]; exact H.
Qed.

Lemma read_frame m r : M.read (frame_of m :: r) = Some (map fld (fields_of m), r).
Proof. reflexivity. Qed.
Lemma dec_sh_frame m : M.dec_sh (map fld (fields_of m)) = len_sh (as_sh m).
Proof. apply dec_sh_fld, fields_of_ok. Qed.
Lemma dec_op_frame m : M.dec_op (map fld (fields_of m)) = len_so (as_so m).
Proof. apply dec_op_fld, fields_of_ok. Qed.
Lemma dec_bh_frame m : M.dec_bh (map fld (fields_of m)) = bh_target (as_bh m).
Proof. apply dec_bh_fld, fields_of_ok. Qed.
Lemma dec_ctl_frame m : M.dec_ctl (map fld (fields_of m)) = len_ct (as_ct m).
Proof. apply dec_ctl_fld, fields_of_ok. Qed.
Lemma as_ct_seek_i64 m : i64 (ct_seek (as_ct m)).
Proof. apply dec_ct_seek_i64, fields_of_ok. Qed.

(* ------------------------------------------------------------------ containers and the pool *)

Lemma nth_size_znth (c : container) (f : Z) : M.nth_size (sizes_of c) f = option_map snd (znth (c_files c) f).
Proof.
  unfold M.nth_size, M.in_range, znth, sizes_of. rewrite map_length.
  destruct (Z.ltb_spec f 0) as [Hneg|Hge].
  - destruct (Z.leb_spec 0 f); [lia|]. reflexivity.
  - destruct (Z.leb_spec 0 f) as [_|]; [|lia]. cbn [andb].
    destruct (Z.ltb_spec f (Z.of_nat (length (c_files c)))) as [Hlt|Hle].
    + apply nth_error_map.
    + assert (E : nth_error (c_files c) (Z.to_nat f) = None) by (apply nth_error_None; lia).
      rewrite E. reflexivity.
Qed.

Lemma in_range_sizes (c : container) (f : Z) :
  M.in_range (sizes_of c) f = (0 <=? f) && (f <? Z.of_nat (length (c_files c))).
Proof. unfold M.in_range, sizes_of. rewrite map_length. reflexivity. Qed.

Lemma znth_in_range_some {A} (l : list A) (i : Z) :
  0 <= i < Z.of_nat (length l) -> exists x, znth l i = Some x.
Proof.
  intros Hi. unfold znth. destruct (Z.ltb_spec i 0); [lia|].
  destruct (nth_error l (Z.to_nat i)) as [x|] eqn:E; [exists x; reflexivity|].
  apply nth_error_None in E. lia.
Qed.

Lemma aligned_znth c olds f p sz :
  aligned c olds -> znth (c_files c) f = Some (p, sz) -> exists d, znth olds f = Some d /\ sz = Z.of_nat (length d).
Proof.
  unfold aligned, znth. destruct (f <? 0); [discriminate|]. generalize (Z.to_nat f) as n.
  intros n Hal. revert n. induction Hal as [|x d l l' Hx Hl IH]; intros n Hn.
  - destruct n; discriminate.
  - destruct n as [|n]; cbn [nth_error] in *.
    + injection Hn as ->. exists d. split; [reflexivity|exact Hx].
    + apply IH. assumption.
Qed.

Lemma aligned_sizes_nonneg c olds f p sz : aligned c olds -> znth (c_files c) f = Some (p, sz) -> 0 <= sz.
Proof. intros Hal Hf. destruct (aligned_znth _ _ _ _ _ Hal Hf) as (d & _ & ->). lia. Qed.

(* ------------------------------------------------------------------ the entry writer *)

Lemma wfile_ev w e : wfile w -> wfile (mkW (ev (w_st w) e) (w_path w) (w_off w)).
Proof. intros H. exact H. Qed.

(** [Write] on an open file: succeeds, the file is still a file, the offset moved by the length *)
Lemma w_write_wfile w data :
  wfile w ->
  exists w', w_write w data = Ok w' /\ wfile w' /\ w_path w' = w_path w /\
             w_off w' = (w_off w + length data)%nat.
Proof.
  intros (d & Hd). unfold w_write. destruct data as [|b data].
  - exists w. split; [reflexivity|]. split; [exists d; assumption|]. split; [reflexivity|]. cbn [length]. lia.
  - unfold entry_write. rewrite Hd. cbn [bind]. eexists. split; [reflexivity|].
    split; [|split; reflexivity].
    unfold wfile. cbn [w_st w_path p_tree]. eexists. apply tlookup_tset_same.
Qed.

Lemma slice_len (d : list byte) (from len : Z) :
  0 <= from ->
  Z.of_nat (length (slice d from len)) = Z.max 0 (Z.min len (Z.of_nat (length d) - from)).
Proof.
  intros Hf. unfold slice. rewrite firstn_length, skipn_length. lia.
Qed.

(* ------------------------------------------------------------------ 2. one op *)

Section Ops.
  Variables (bs maxoff : Z) (oldC : container) (olds : list (list byte)).
  Hypothesis bs_pos : 0 < bs.
  Hypothesis Hal : aligned oldC olds.

  Lemma validate_in_range o :
    validate_op oldC o = if so_type o =? T_BLOCK_RANGE then M.in_range (sizes_of oldC) (so_file o) else true.
  Proof. unfold validate_op. rewrite in_range_sizes. reflexivity. Qed.

  (** wsync.ApplySingleFull on a block range whose file index passed validateOp *)
  Lemma apply_range_agrees w f i s p fileSize :
    wfile w -> znth (c_files oldC) f = Some (p, fileSize) ->
    i64 (bs * i) -> bs * i <= maxoff ->
    match apply_range bs oldC olds w f i s, M.apply_block_range bs maxoff (sizes_of oldC) f i s with
    | Ok w', M.Cont n =>
        wfile w' /\ w_path w' = w_path w /\
        (i64 ((s - 1) * bs) -> i64 (i + (s - 1)) -> i64 (bs * (i + (s - 1) + 1)) -> i64 ((s - 1) * bs + bs) ->
         n = Z.of_nat (w_off w') - Z.of_nat (w_off w))
    | Err, M.Stop M.Err => True
    | _, _ => False
    end.
  Proof.
    intros Hw Hf Hi Hmax.
    destruct (aligned_znth _ _ _ _ _ Hal Hf) as (d & Hd & Hsz).
    unfold apply_range, M.apply_block_range. rewrite nth_size_znth, Hf, Hd. cbn [option_map snd].
    destruct (Z.eqb_spec bs 0) as [E0|_]; [lia|]. rewrite andb_false_r.
    assert (Hoff : M.wrap64 (bs * i) = bs * i).
    { unfold M.wrap64, i64 in *. rewrite p63, p64 in *. lia. }
    rewrite Hoff.
    destruct (Z.ltb_spec (bs * i) 0) as [Hneg|Hpos]; cbn [orb]; [exact I|].
    destruct (Z.gtb_spec (bs * i) maxoff) as [Hc|_]; [lia|].
    set (w2 := mkW (ev (w_st (mkW (ev (w_st w) (EvSize f)) (w_path w) (w_off w))) (EvRead f)) (w_path w) (w_off w)).
    assert (Hw2 : wfile w2) by exact Hw.
    destruct (w_write_wfile w2 (slice d (bs * i) (op_size bs fileSize i s)) Hw2) as (w' & Ew & Hw' & Hp & Ho).
    rewrite Ew. split; [exact Hw'|]. split; [exact Hp|].
    intros H1 H2 H3 H4. rewrite Ho. cbn [w2 w_off]. rewrite Nat2Z.inj_add, slice_len by lia.
    assert (Hw1 : M.wrap64 ((s - 1) * bs) = (s - 1) * bs) by (unfold M.wrap64, i64 in *; rewrite p63, p64 in *; lia).
    assert (Hw3 : M.wrap64 (i + (s - 1)) = i + (s - 1)) by (unfold M.wrap64, i64 in *; rewrite p63, p64 in *; lia).
    rewrite Hw1, Hw3.
    assert (Hw4 : M.wrap64 (bs * (i + (s - 1) + 1)) = bs * (i + (s - 1) + 1))
      by (unfold M.wrap64, i64 in *; rewrite p63, p64 in *; lia).
    rewrite Hw4. unfold op_size.
    set (last := if bs * (i + (s - 1) + 1) >? fileSize then Z.rem fileSize bs else bs).
    assert (Hlast : 0 <= last <= bs).
    { unfold last. destruct (bs * (i + (s - 1) + 1) >? fileSize); [|lia].
      rewrite Z.rem_mod_nonneg by lia. lia. }
    assert (Hw5 : M.wrap64 ((s - 1) * bs + last) = (s - 1) * bs + last)
      by (unfold M.wrap64, i64 in *; rewrite p63, p64 in *; lia).
    rewrite Hw5. lia.
  Qed.

  (** one iteration of the relay loop after the end-marker test: validateOp, makeWop, ApplySingle *)
  Definition p_op (w : wst) (o : sync_op) : res wst :=
    if negb (validate_op oldC o) then Err else apply_op bs oldC olds w o.

  Lemma op_agrees w o :
    wfile w -> seek_fits bs maxoff o ->
    match p_op w o, M.apply_op true bs maxoff (sizes_of oldC) (len_so o) with
    | Ok w', M.Cont n =>
        wfile w' /\ w_path w' = w_path w /\ (size_fits bs o -> n = Z.of_nat (w_off w') - Z.of_nat (w_off w))
    | Err, M.Stop M.Err => True
    | _, _ => False
    end.
  Proof.
    intros Hw Hfit. unfold p_op, M.apply_op, apply_op. rewrite validate_in_range.
    cbn [len_so M.op_type M.op_file M.op_block M.op_span M.op_data andb].
    change M.BLOCK_RANGE with T_BLOCK_RANGE. change M.DATA with T_DATA.
    destruct (Z.eqb_spec (so_type o) T_BLOCK_RANGE) as [Et|Et].
    - destruct (M.in_range (sizes_of oldC) (so_file o)) eqn:Er; cbn [negb]; [|exact I].
      rewrite in_range_sizes in Er.
      destruct (znth_in_range_some (c_files oldC) (so_file o) ltac:(lia)) as ([p sz] & Hf).
      destruct (Hfit Et) as [Hi Hm].
      pose proof (apply_range_agrees w (so_file o) (so_block o) (so_span o) p sz Hw Hf Hi Hm) as H.
      destruct (apply_range bs oldC olds w (so_file o) (so_block o) (so_span o)) as [w'| |];
        destruct (M.apply_block_range bs maxoff (sizes_of oldC) (so_file o) (so_block o) (so_span o)) as [n|[| | |]];
        try exact H.
      destruct H as (H1 & H2 & H3). split; [exact H1|]. split; [exact H2|].
      intros Hs. destruct (Hs Et) as (A & B & C & D). apply H3; assumption.
    - cbn [negb]. destruct (Z.eqb_spec (so_type o) T_DATA) as [Ed|Ed]; [|exact I].
      destruct (w_write_wfile w (so_data o) Hw) as (w' & Ew & Hw' & Hp & Ho). rewrite Ew.
      split; [exact Hw'|]. split; [exact Hp|]. intros _. rewrite Ho. lia.
  Qed.

  (* ---------------------------------------------------------------- 3. the relay loop *)

  Lemma relay_agrees : forall ms w fuel wc,
    wfile w -> relay_fits bs maxoff ms -> (length ms < fuel)%nat ->
    step_agrees (relay bs oldC olds ms w) (M.relay fuel true bs maxoff (sizes_of oldC) wc (stream_of ms)).
  Proof.
    induction ms as [|m r IH]; intros w fuel wc Hw Hfit Hfuel;
      (destruct fuel as [|fuel]; [cbn [length] in Hfuel; lia|]).
    - exact I.
    - cbn [stream_of map relay M.relay]. fold (stream_of r). rewrite read_frame, dec_op_frame.
      cbn [relay_fits] in Hfit. cbn [len_so M.op_type]. change M.HEY with HEY.
      destruct (so_type (as_so m) =? HEY); [reflexivity|].
      destruct Hfit as [Hfit Hrest].
      pose proof (op_agrees w (as_so m) Hw Hfit) as H. unfold p_op in H.
      destruct (negb (validate_op oldC (as_so m))).
      + destruct (M.apply_op true bs maxoff (sizes_of oldC) (len_so (as_so m))) as [n|[| | |]]; try contradiction. exact I.
      + destruct (apply_op bs oldC olds w (as_so m)) as [w'| |];
          destruct (M.apply_op true bs maxoff (sizes_of oldC) (len_so (as_so m))) as [n|[| | |]]; try contradiction; try exact I.
        cbn [bind]. destruct H as (Hw' & _ & _). apply IH; [assumption|assumption|cbn [length] in Hfuel; lia].
  Qed.

  (** readUntilEndMarker / skipFile of an rsync series *)
  Lemma until_marker_agrees : forall ms fuel,
    (length ms < fuel)%nat ->
    match until_marker ms, M.until_hey fuel (stream_of ms) with
    | Ok rest, M.Cont s => s = stream_of rest
    | Err, M.Stop M.Err => True
    | _, _ => False
    end.
  Proof.
    induction ms as [|m r IH]; intros fuel Hfuel; (destruct fuel as [|fuel]; [cbn [length] in Hfuel; lia|]).
    - exact I.
    - cbn [stream_of map until_marker M.until_hey]. fold (stream_of r). rewrite read_frame, dec_op_frame.
      cbn [len_so M.op_type]. change M.HEY with HEY.
      destruct (so_type (as_so m) =? HEY); [reflexivity|]. apply IH. cbn [length] in Hfuel. lia.
  Qed.
End Ops.

(* ------------------------------------------------------------------ processRsync *)

Section Series.
  Variables (bs maxoff : Z) (oldC newC : container) (olds : list (list byte)).
  Hypothesis bs_pos : 0 < bs.
  Hypothesis Hal : aligned oldC olds.
  (** a Go file has fewer than 2^63 bytes *)
  Hypothesis olds_fit : Forall (fun d : list byte => Z.of_nat (length d) < 2^63) olds.

  Lemma znth_In' {A} (l : list A) i x : znth l i = Some x -> In x l.
  Proof. unfold znth. destruct (i <? 0); [discriminate|]. apply nth_error_In. Qed.

  Lemma pool_open_aligned f p sz :
    znth (c_files oldC) f = Some (p, sz) ->
    exists d, pool_open oldC olds f = Ok d /\ sz = Z.of_nat (length d) /\ In d olds.
  Proof.
    intros Hf. destruct (aligned_znth _ _ _ _ _ Hal Hf) as (d & Hd & Hsz).
    exists d. unfold pool_open. rewrite Hf, Hd. split; [reflexivity|]. split; [assumption|].
    eapply znth_In'. eassumption.
  Qed.

  Lemma is_full_file_op_agrees idx o p outSize :
    znth (c_files newC) idx = Some (p, outSize) -> validate_op oldC o = true ->
    match is_full_file_op bs oldC newC idx o, M.is_full_file_op bs (sizes_of oldC) outSize (len_so o) with
    | Ok b, Some b' => b = b'
    | _, _ => False
    end.
  Proof.
    intros Hn Hv. unfold is_full_file_op, M.is_full_file_op.
    cbn [len_so M.op_type M.op_file M.op_block M.op_span]. change M.BLOCK_RANGE with T_BLOCK_RANGE.
    rewrite validate_in_range in Hv.
    destruct (so_type o =? T_BLOCK_RANGE); cbn [negb]; [|reflexivity].
    destruct (so_block o =? 0); cbn [negb]; [|reflexivity].
    rewrite in_range_sizes in Hv.
    destruct (znth_in_range_some (c_files oldC) (so_file o) ltac:(lia)) as ([pt tsz] & Hf).
    rewrite nth_size_znth, Hf, Hn. cbn [option_map snd].
    destruct (tsz =? outSize); cbn [negb]; reflexivity.
  Qed.

  Lemma is_full_true_br idx o : is_full_file_op bs oldC newC idx o = Ok true -> so_type o = T_BLOCK_RANGE.
  Proof.
    unfold is_full_file_op. destruct (Z.eqb_spec (so_type o) T_BLOCK_RANGE) as [E|E]; [intros _; exact E|].
    cbn [negb]. discriminate.
  Qed.

  Lemma open_writer_ready s idx p sz :
    znth (c_files newC) idx = Some (p, sz) -> file_ready (p_tree s) p ->
    exists w, open_writer newC s idx = Ok w /\ wfile w /\ w_off w = 0%nat /\ w_path w = p /\
              p_tree (w_st w) = p_tree s.
  Proof.
    intros Hn Hr. unfold open_writer. rewrite Hn.
    assert (Hr1 : file_ready (p_tree (ev s (EvWriter idx))) p) by exact Hr.
    rewrite (entry_open_ready _ _ Hr1). cbn [bind]. eexists. split; [reflexivity|].
    split; [|repeat split]. destruct Hr as (_ & _ & d & Hd). exists d. exact Hd.
  Qed.

  Lemma process_rsync_agrees idx p outSize ms s fuel :
    znth (c_files newC) idx = Some (p, outSize) -> file_ready (p_tree s) p ->
    rsync_fits bs maxoff ms -> (length ms < fuel)%nat ->
    step_agrees (process_rsync bs oldC newC olds idx ms s)
                (M.process_rsync fuel true bs maxoff (sizes_of oldC) outSize (stream_of ms)).
  Proof.
    intros Hn Hr Hfit Hfuel. destruct ms as [|m r]; [exact I|].
    cbn [stream_of map]. fold (stream_of r). unfold process_rsync, M.process_rsync.
    rewrite read_frame, dec_op_frame. cbn [andb rsync_fits] in *. destruct Hfit as [Hfit Hrest].
    cbn [length] in Hfuel.
    pose proof (validate_in_range oldC (as_so m)) as Hv.
    cbn [len_so M.op_type M.op_file]. change M.BLOCK_RANGE with T_BLOCK_RANGE.
    assert (Hval : negb (validate_op oldC (as_so m)) =
                   (so_type (as_so m) =? T_BLOCK_RANGE) && negb (M.in_range (sizes_of oldC) (so_file (as_so m)))).
    { rewrite Hv. destruct (so_type (as_so m) =? T_BLOCK_RANGE); reflexivity. }
    rewrite <- Hval. destruct (validate_op oldC (as_so m)) eqn:Ev; cbn [negb]; [|exact I].
    pose proof (is_full_file_op_agrees idx (as_so m) p outSize Hn Ev) as Hfull.
    change (M.mkOp (so_type (as_so m)) (so_file (as_so m)) (so_block (as_so m)) (so_span (as_so m))
                   (Z.of_nat (length (so_data (as_so m))))) with (len_so (as_so m)).
    destruct (is_full_file_op bs oldC newC idx (as_so m)) as [b| |] eqn:Efull;
      destruct (M.is_full_file_op bs (sizes_of oldC) outSize (len_so (as_so m))) as [b'|]; try contradiction.
    subst b'. cbn [bind]. destruct b.
    - (* a full-file op: Transpose, then everything up to the marker is ignored *)
      pose proof (is_full_true_br idx (as_so m) Efull) as Hbr.
      rewrite Hbr in Hv. change (T_BLOCK_RANGE =? T_BLOCK_RANGE) with true in Hv. cbn iota in Hv.
      rewrite in_range_sizes in Hv. symmetry in Hv.
      destruct (znth_in_range_some (c_files oldC) (so_file (as_so m)) ltac:(lia)) as ([pt tsz] & Hf).
      destruct (pool_open_aligned _ _ _ Hf) as (d & Ed & _).
      unfold transpose. rewrite Ed, Hn. cbn [bind].
      rewrite transpose_write_ready by exact Hr. cbn [bind].
      pose proof (until_marker_agrees r fuel ltac:(lia)) as Hu.
      destruct (until_marker r) as [rest| |]; destruct (M.until_hey fuel (stream_of r)) as [s1|[| | |]];
        try contradiction; try exact I. exact Hu.
    - (* GetWriter, the first op, the relay loop *)
      destruct (open_writer_ready s idx p outSize Hn Hr) as (w0 & Ew & Hw0 & _).
      rewrite Ew. cbn [bind].
      pose proof (op_agrees bs maxoff oldC olds bs_pos Hal w0 (as_so m) Hw0 Hfit) as Ho.
      unfold p_op in Ho. rewrite Ev in Ho. cbn [negb] in Ho.
      destruct (apply_op bs oldC olds w0 (as_so m)) as [w1| |];
        destruct (M.apply_op true bs maxoff (sizes_of oldC) (len_so (as_so m))) as [n|[| | |]];
        try contradiction; try exact I.
      cbn [bind]. destruct Ho as (Hw1 & _ & _).
      apply relay_agrees; [assumption|assumption|assumption|assumption|lia].
  Qed.

  (* ---------------------------------------------------------------- 4. bsdiff *)

  Lemma add_bytes_len : forall a b : list byte, length (add_bytes a b) = Nat.min (length a) (length b).
  Proof. induction a as [|x a IH]; intros [|y b]; cbn [add_bytes length]; try reflexivity. rewrite IH. reflexivity. Qed.

  (** the old-file cursors of the two models: equal, or both outside the old file - C01's
      beyond its end (no wrap-around), C10's negative (wrapped) - where the next Seek fails *)
  Definition off_rel (oldlen offP offM : Z) : Prop := offP = offM \/ (oldlen < offP /\ offM < 0).

  Lemma off_rel_next oldlen off addlen seek :
    oldlen < 2^63 -> 0 <= off -> 0 <= addlen -> off + addlen <= oldlen -> i64 seek ->
    off_rel oldlen (off + addlen + seek) (M.wrap64 (off + addlen + seek)).
  Proof.
    unfold off_rel, i64, M.wrap64. rewrite p63, p64. intros Ho H0 Ha Hle Hs.
    destruct (Z.lt_ge_cases (off + addlen + seek) 9223372036854775808) as [Hlt|Hge]; [left|right]; lia.
  Qed.

  (** bsdiff.IndividualPatchContext.Apply in the loop of processBsdiff: same class, same unread
      messages, same number of bytes written, for ANY control list *)
  Lemma ctrl_loop_agrees (old : list byte) : forall ms offP offM w fuel,
    Z.of_nat (length old) < 2^63 -> wfile w -> off_rel (Z.of_nat (length old)) offP offM ->
    (length ms < fuel)%nat ->
    match ctrl_loop old offP ms w, M.controls fuel (Z.of_nat (length old)) offM (Z.of_nat (w_off w)) (stream_of ms) with
    | Ok (rest, w'), M.Cont (wc, s) =>
        s = stream_of rest /\ wc = Z.of_nat (w_off w') /\ wfile w' /\ w_path w' = w_path w /\
        p_trace (w_st w') = p_trace (w_st w)
    | Err, M.Stop M.Err => True
    | _, _ => False
    end.
  Proof.
    induction ms as [|m r IH]; intros offP offM w fuel Hold Hw Hrel Hfuel;
      (destruct fuel as [|fuel]; [cbn [length] in Hfuel; lia|]).
    - exact I.
    - cbn [stream_of map ctrl_loop M.controls]. fold (stream_of r). rewrite read_frame, dec_ctl_frame.
      cbn [len_ct M.c_eof M.c_add M.c_copy M.c_seek].
      destruct (ct_eof (as_ct m)).
      { repeat split. exact Hw. }
      unfold bs_apply.
      set (L := Z.of_nat (length old)) in *. set (A := Z.of_nat (length (ct_add (as_ct m)))).
      assert (HA : 0 <= A) by (unfold A; lia).
      destruct Hrel as [<-|[Hbig Hneg]].
      2:{ (* both cursors are outside the old file: both Seeks fail *)
          destruct (Z.ltb_spec offP 0); destruct (Z.gtb_spec offP L); try lia; cbn [orb]; try exact I;
          destruct (Z.ltb_spec offM 0); try lia; cbn [orb]; exact I. }
      destruct ((offP <? 0) || (offP >? L)) eqn:E1; [exact I|].
      assert (H1 : 0 <= offP <= L) by lia.
      destruct (Z.gtb_spec (offP + A) L) as [Hgt|Hle].
      { destruct (Z.ltb_spec 0 A) as [_|Hc]; [exact I|lia]. }
      rewrite andb_false_r.
      destruct (w_write_wfile w (add_bytes (ct_add (as_ct m)) (skipn (Z.to_nat offP) old)) Hw) as (w1 & E3 & Hw1 & Hp1 & Ho1).
      rewrite E3. cbn [bind].
      destruct (w_write_wfile w1 (ct_copy (as_ct m)) Hw1) as (w2 & E4 & Hw2 & Hp2 & Ho2).
      rewrite E4. cbn [bind fst snd].
      assert (Hlen : length (add_bytes (ct_add (as_ct m)) (skipn (Z.to_nat offP) old)) = length (ct_add (as_ct m))).
      { rewrite add_bytes_len, skipn_length. unfold A, L in *. lia. }
      assert (Eoff : (if 0 <? A then offP + A else offP) = offP + A) by (destruct (Z.ltb_spec 0 A); lia).
      rewrite Eoff.
      assert (Ew : Z.of_nat (w_off w) + Z.max 0 A + Z.max 0 (Z.of_nat (length (ct_copy (as_ct m)))) = Z.of_nat (w_off w2)).
      { rewrite Ho2, Ho1, Hlen. unfold A. lia. }
      rewrite Ew.
      pose proof (IH (offP + A + ct_seek (as_ct m)) (M.wrap64 (offP + A + ct_seek (as_ct m))) w2 fuel Hold Hw2
                     (off_rel_next L offP A (ct_seek (as_ct m)) Hold ltac:(lia) HA Hle (as_ct_seek_i64 m))
                     ltac:(cbn [length] in Hfuel; lia)) as H.
      destruct (ctrl_loop old (offP + A + ct_seek (as_ct m)) r w2) as [[rest w']| |];
        destruct (M.controls fuel L (M.wrap64 (offP + A + ct_seek (as_ct m))) (Z.of_nat (w_off w2)) (stream_of r)) as [[wc s1]|[| | |]];
        try contradiction; try exact I.
      destruct H as (Hs & Hwc & Hw' & Hp' & Ht'). repeat split; try assumption.
      + rewrite Hp', Hp2, Hp1. reflexivity.
      + rewrite Ht'. revert E3 E4. clear. unfold w_write.
        destruct (add_bytes (ct_add (as_ct m)) (skipn (Z.to_nat offP) old)); destruct (ct_copy (as_ct m));
          repeat match goal with
                 | |- context [entry_write ?t ?p ?o ?d] => destruct (entry_write t p o d); cbn [bind]
                 end; intros; repeat match goal with H : Ok _ = Ok _ |- _ => injection H as <- end;
          try discriminate; reflexivity.
  Qed.

  Lemma process_bsdiff_agrees idx p outSize ms s fuel :
    znth (c_files newC) idx = Some (p, outSize) -> file_ready (p_tree s) p ->
    (length ms < fuel)%nat ->
    step_agrees (process_bsdiff oldC newC olds idx ms s)
                (M.process_bsdiff fuel true (sizes_of oldC) outSize (stream_of ms)).
  Proof.
    intros Hn Hr Hfuel. destruct ms as [|m r]; [exact I|].
    cbn [stream_of map]. fold (stream_of r). unfold process_bsdiff, M.process_bsdiff.
    rewrite read_frame, dec_bh_frame, nth_size_znth. cbn [length] in Hfuel.
    set (t := bh_target (as_bh m)).
    destruct ((t <? 0) || (t >=? Z.of_nat (length (c_files oldC)))) eqn:Et.
    - assert (E : znth (c_files oldC) t = None).
      { unfold znth. destruct (Z.ltb_spec t 0); [reflexivity|]. apply nth_error_None. lia. }
      rewrite E. exact I.
    - destruct (znth_in_range_some (c_files oldC) t ltac:(lia)) as ([pt tsz] & Hf). rewrite Hf. cbn [option_map snd].
      destruct (pool_open_aligned _ _ _ Hf) as (old & Eo & Hsz & Hin). rewrite Eo. cbn [bind]. subst tsz.
      assert (Hold : Z.of_nat (length old) < 2^63) by (rewrite Forall_forall in olds_fit; apply olds_fit; exact Hin).
      assert (Hr1 : file_ready (p_tree (ev s (EvRead t))) p) by exact Hr.
      destruct (open_writer_ready (ev s (EvRead t)) idx p outSize Hn Hr1) as (w0 & Ew & Hw0 & Ho0 & _).
      rewrite Ew. cbn [bind].
      pose proof (ctrl_loop_agrees old r 0 0 w0 fuel Hold Hw0 (or_introl eq_refl) ltac:(lia)) as H.
      rewrite Ho0 in H. change (Z.of_nat 0) with 0 in H.
      destruct (ctrl_loop old 0 r w0) as [[rest w']| |];
        destruct (M.controls fuel (Z.of_nat (length old)) 0 0 (stream_of r)) as [[wc s1]|[| | |]];
        try contradiction; try exact I.
      cbn [bind fst snd]. destruct H as (-> & -> & _).
      destruct rest as [|m2 r2]; [exact I|].
      cbn [stream_of map]. fold (stream_of r2). rewrite read_frame, dec_op_frame.
      cbn [len_so M.op_type]. change M.HEY with HEY.
      destruct (so_type (as_so m2) =? HEY); cbn [negb]; [|exact I].
      rewrite Hn. destruct (Z.of_nat (w_off w') =? outSize); cbn [negb]; [reflexivity|exact I].
  Qed.

  (* ---------------------------------------------------------------- 5. skipFile, the Resume loop *)

  Definition skip_agrees (r : res (list pmsg)) (x : M.step M.stream) : Prop :=
    match r, x with
    | Ok rest, M.Cont s => s = stream_of rest
    | Err, M.Stop M.Err => True
    | _, _ => False
    end.

  Lemma skip_rsync_agrees : forall ms fuel, (length ms < fuel)%nat -> skip_agrees (skip_rsync ms) (M.until_hey fuel (stream_of ms)).
  Proof.
    induction ms as [|m r IH]; intros fuel Hfuel; (destruct fuel as [|fuel]; [cbn [length] in Hfuel; lia|]).
    - exact I.
    - cbn [stream_of map skip_rsync M.until_hey]. fold (stream_of r). rewrite read_frame, dec_op_frame.
      cbn [len_so M.op_type]. change M.HEY with HEY.
      destruct (so_type (as_so m) =? HEY); [reflexivity|]. apply IH. cbn [length] in Hfuel. lia.
  Qed.

  Lemma skip_ctrls_agrees : forall ms fuel, (length ms < fuel)%nat -> skip_agrees (skip_ctrls ms) (M.until_eof fuel (stream_of ms)).
  Proof.
    induction ms as [|m r IH]; intros fuel Hfuel; (destruct fuel as [|fuel]; [cbn [length] in Hfuel; lia|]).
    - exact I.
    - cbn [stream_of map skip_ctrls M.until_eof]. fold (stream_of r). rewrite read_frame, dec_ctl_frame.
      cbn [len_ct M.c_eof].
      destruct (ct_eof (as_ct m)); [reflexivity|]. apply IH. cbn [length] in Hfuel. lia.
  Qed.

  Lemma skip_file_agrees kind ms fuel :
    (length ms < fuel)%nat -> skip_agrees (skip_file kind ms) (M.skip_file fuel kind (stream_of ms)).
  Proof.
    intros Hfuel. unfold skip_file, M.skip_file. change M.BSDIFF with SH_BSDIFF.
    destruct (kind =? SH_BSDIFF); [|apply skip_rsync_agrees; assumption].
    unfold skip_bsdiff. destruct ms as [|m r]; [exact I|].
    cbn [stream_of map]. fold (stream_of r). rewrite read_frame. cbn [length] in Hfuel.
    pose proof (skip_ctrls_agrees r fuel ltac:(lia)) as H.
    destruct (skip_ctrls r) as [rest| |]; destruct (M.until_eof fuel (stream_of r)) as [s1|[| | |]];
      try contradiction; try exact I.
    cbn [bind]. cbn [skip_agrees] in H. subst s1. destruct rest as [|m2 r2]; [exact I|].
    cbn [stream_of map]. fold (stream_of r2). rewrite read_frame, dec_op_frame.
    cbn [len_so M.op_type]. change M.HEY with HEY.
    destruct (so_type (as_so m2) =? HEY); [reflexivity|exact I].
  Qed.

  Lemma wl_skip_whitelisted wl i : wl_skip wl i = negb (M.whitelisted wl i).
  Proof. unfold wl_skip, M.whitelisted. destruct wl; reflexivity. Qed.

  (** every file of the new container is ready to be written *)
  Definition all_ready (t : tree) : Prop :=
    forall j pj szj, znth (c_files newC) j = Some (pj, szj) -> file_ready t pj.

  Lemma process_file_keeps_ready kind idx p sz ms s rest s' :
    znth (c_files newC) idx = Some (p, sz) -> all_ready (p_tree s) ->
    process_file bs oldC newC olds kind idx ms s = Ok (rest, s') -> all_ready (p_tree s').
  Proof.
    intros Hn Hall H. pose proof (Hall idx p sz Hn) as Hr. destruct s as [t tr].
    pose proof (srel_refl p idx t tr Hr) as Hs.
    assert (Hrel : exists s2', srel p idx t t tr tr s' s2').
    { unfold process_file in H. destruct (kind =? SH_RSYNC).
      - destruct (process_rsync_rel bs oldC newC olds p idx sz t t tr tr Hn Hr Hr ms _ _ rest s' Hs H) as (s2' & _ & Hs').
        exists s2'. exact Hs'.
      - destruct (process_bsdiff_rel oldC newC olds p idx sz t t tr tr Hn Hr Hr ms _ _ rest s' Hs H) as (s2' & _ & Hs').
        exists s2'. exact Hs'. }
    destruct Hrel as (s2' & (d & Hd & _) & F1 & _).
    intros j pj szj Hj. cbn [p_tree] in *.
    apply (file_ready_frame t (p_tree s') p pj (Hall j pj szj Hj) F1); [apply Hr|exists d; exact Hd].
  Qed.

  Lemma skipn_sizes idx p sz :
    0 <= idx -> znth (c_files newC) idx = Some (p, sz) ->
    skipn (Z.to_nat idx) (sizes_of newC) = sz :: skipn (Z.to_nat (idx + 1)) (sizes_of newC).
  Proof.
    intros H0 Hn. unfold znth in Hn. destruct (Z.ltb_spec idx 0); [lia|].
    replace (Z.to_nat (idx + 1)) with (S (Z.to_nat idx)) by lia.
    unfold sizes_of. revert Hn. generalize (Z.to_nat idx) as n. generalize (c_files newC) as l.
    induction l as [|x l IH]; intros [|n] Hn; cbn [nth_error] in Hn; try discriminate.
    - injection Hn as ->. reflexivity.
    - cbn [map skipn]. apply IH. exact Hn.
  Qed.

  Lemma skipn_sizes_none idx :
    0 <= idx -> znth (c_files newC) idx = None -> skipn (Z.to_nat idx) (sizes_of newC) = [].
  Proof.
    intros H0 Hn. unfold znth in Hn. destruct (Z.ltb_spec idx 0); [lia|].
    apply nth_error_None in Hn. apply skipn_all2. unfold sizes_of. rewrite map_length. exact Hn.
  Qed.

  (** savingPatcher.Resume(nil): the loop over the files of the new container *)
  Lemma run_files_agrees wl : forall n idx ms s touched fuel,
    0 <= idx -> n = length (skipn (Z.to_nat idx) (sizes_of newC)) ->
    all_ready (p_tree s) -> run_fits bs maxoff wl n ms -> (length ms < fuel)%nat ->
    res_agrees (run_files bs oldC newC olds wl n idx ms s touched)
               (M.resume fuel true bs maxoff (sizes_of oldC) wl idx (skipn (Z.to_nat idx) (sizes_of newC)) (stream_of ms)).
  Proof.
    induction n as [|n IH]; intros idx ms s touched fuel H0 Hn Hall Hfit Hfuel.
    - destruct (skipn (Z.to_nat idx) (sizes_of newC)); [exact I|discriminate].
    - destruct (znth (c_files newC) idx) as [[p outSize]|] eqn:Ez.
      2:{ rewrite (skipn_sizes_none idx H0 Ez) in Hn. discriminate. }
      rewrite (skipn_sizes idx p outSize H0 Ez) in *. cbn [length] in Hn. injection Hn as Hn.
      cbn [run_files M.resume]. destruct ms as [|m r]; [exact I|].
      cbn [stream_of map]. fold (stream_of r). rewrite read_frame, dec_sh_frame.
      cbn [len_sh M.sh_type M.sh_file]. change M.RSYNC with SH_RSYNC. change M.BSDIFF with SH_BSDIFF.
      cbn [run_fits] in Hfit. cbn [length] in Hfuel.
      destruct (Z.eqb_spec (sh_file (as_sh m)) idx) as [Ei|Ei]; cbn [negb]; [|exact I].
      destruct ((sh_type (as_sh m) =? SH_RSYNC) || (sh_type (as_sh m) =? SH_BSDIFF)) eqn:Ek; cbn [negb]; [|exact I].
      cbn [negb] in Hfit. rewrite Ei in *. rewrite wl_skip_whitelisted in *.
      destruct (M.whitelisted wl idx) eqn:Ew; cbn [negb] in *.
      + (* processFile *)
        unfold process_file.
        assert (Hlr : (length (stream_of r) < fuel)%nat) by (unfold stream_of; rewrite map_length; lia).
        destruct (sh_type (as_sh m) =? SH_RSYNC) eqn:Ers.
        * destruct Hfit as [Hfr Hfn].
          pose proof (process_rsync_agrees idx p outSize r s fuel Ez (Hall idx p outSize Ez) Hfr ltac:(lia)) as Hs.
          pose proof (MalformedProofs.process_rsync_ok fuel bs maxoff (sizes_of oldC) outSize (stream_of r) bs_pos Hlr) as Hok.
          destruct (process_rsync bs oldC newC olds idx r s) as [[rest s']| |] eqn:Ep;
            destruct (M.process_rsync fuel true bs maxoff (sizes_of oldC) outSize (stream_of r)) as [s2|[| | |]];
            try contradiction; try exact I.
          cbn [step_agrees] in Hs. subst s2. cbn [bind fst snd].
          rewrite (process_rsync_skip bs oldC newC olds idx r s rest s' Ep) in Hfn.
          cbn [MalformedProofs.step_ok] in Hok. unfold stream_of in Hok. rewrite !map_length in Hok.
          apply IH; [lia|exact Hn| |exact Hfn|lia].
          apply (process_file_keeps_ready SH_RSYNC idx p outSize r s rest s' Ez Hall).
          unfold process_file. cbn [Z.eqb SH_RSYNC]. exact Ep.
        * assert (Ebs : sh_type (as_sh m) = SH_BSDIFF).
          { destruct (Z.eqb_spec (sh_type (as_sh m)) SH_BSDIFF); [assumption|cbn [orb] in Ek; discriminate]. }
          pose proof (process_bsdiff_agrees idx p outSize r s fuel Ez (Hall idx p outSize Ez) ltac:(lia)) as Hs.
          pose proof (MalformedProofs.process_bsdiff_ok fuel (sizes_of oldC) outSize (stream_of r) Hlr) as Hok.
          destruct (process_bsdiff oldC newC olds idx r s) as [[rest s']| |] eqn:Ep;
            destruct (M.process_bsdiff fuel true (sizes_of oldC) outSize (stream_of r)) as [s2|[| | |]];
            try contradiction; try exact I.
          cbn [step_agrees] in Hs. subst s2. cbn [bind fst snd].
          rewrite (process_bsdiff_skip oldC newC olds idx r s rest s' Ep) in Hfit.
          cbn [MalformedProofs.step_ok] in Hok. unfold stream_of in Hok. rewrite !map_length in Hok.
          apply IH; [lia|exact Hn| |exact Hfit|lia].
          apply (process_file_keeps_ready SH_BSDIFF idx p outSize r s rest s' Ez Hall).
          unfold process_file. cbn [Z.eqb SH_BSDIFF SH_RSYNC]. exact Ep.
      + (* skipFile *)
        assert (Hlr : (length (stream_of r) < fuel)%nat) by (unfold stream_of; rewrite map_length; lia).
        pose proof (skip_file_agrees (sh_type (as_sh m)) r fuel ltac:(lia)) as Hs.
        pose proof (MalformedProofs.skip_file_ok fuel (sh_type (as_sh m)) (stream_of r) Hlr) as Hok.
        destruct (skip_file (sh_type (as_sh m)) r) as [rest| |];
          destruct (M.skip_file fuel (sh_type (as_sh m)) (stream_of r)) as [s2|[| | |]];
          try contradiction; try exact I.
        cbn [skip_agrees] in Hs. subst s2. cbn [bind].
        cbn [MalformedProofs.step_ok] in Hok. unfold stream_of in Hok. rewrite !map_length in Hok.
        apply IH; [lia|exact Hn|exact Hall|exact Hfit|lia].
  Qed.
End Series.

(** patcher.Resume(nil) on a fresh bowl: the C01 model and the C10 model end in the same class
    (ok | error | panic - and C10 proves there is no panic) on EVERY message list, provided the
    new container is one a walk produces (so that Prepare and the entry writers cannot fail:
    C10 has no output directory), the pool serves the declared sizes, and the block-range seeks
    the run performs fit int64 and the file system's limit *)
Theorem patcher_models_agree_lemma :
  forall (bs maxoff : Z) (oldC newC : container) (olds : list (list byte)) (wl : option (list Z)) (ms : list pmsg),
    0 < bs -> aligned oldC olds -> Forall (fun d : list byte => Z.of_nat (length d) < 2^63) olds ->
    wf_container newC ->
    run_fits bs maxoff wl (length (c_files newC)) ms ->
    res_agrees (apply_fresh bs oldC newC olds wl ms)
               (M.patcher (S (length ms)) true bs maxoff (sizes_of oldC) (sizes_of newC) wl (stream_of ms)).
Proof.
  intros bs maxoff oldC newC olds wl ms Hbs Hal Hfit63 WF Hfit.
  unfold apply_fresh, M.patcher.
  destruct (prepare_spec newC WF) as (t0 & E0 & H0). rewrite E0. cbn [bind].
  pose proof (run_files_agrees bs maxoff oldC newC olds Hbs Hal Hfit63 wl (length (c_files newC)) 0 ms (mkP t0 []) 0
                (S (length ms)) ltac:(lia)) as H.
  change (Z.to_nat 0) with 0%nat in H. cbn [skipn] in H.
  specialize (H ltac:(unfold sizes_of; rewrite map_length; reflexivity)).
  assert (Hready : all_ready newC t0).
  { intros j pj szj Hj. apply (prepared_ready newC t0 j pj szj WF H0 Hj). }
  specialize (H Hready Hfit ltac:(lia)).
  destruct (run_files bs oldC newC olds wl (length (c_files newC)) 0 ms (mkP t0 []) 0) as [[sf tch]| |];
    destruct (M.resume (S (length ms)) true bs maxoff (sizes_of oldC) wl 0 (sizes_of newC) (stream_of ms)) as [| | |];
    try contradiction; exact I.
Qed.

(* ------------------------------------------------------------------ the difference *)

(** one old file of 4 bytes, block size 2^62, an op on block 2: Go computes the offset
    2^62 * 2 = 2^63 which wraps to -2^63, Seek fails (C10: Err); C01 seeks beyond the end of the
    file, copies nothing, goes on to the end marker (Ok) *)
Lemma relay_differs_on_wrapping_seek_lemma :
  let bs := 4611686018427387904 (* 2^62 *) in
  let maxoff := 9223372036854775807 (* 2^63 - 1 *) in
  let oldC := mkC [([1%N], 4)] [] [] in
  let olds := [[1; 2; 3; 4]%N] in
  let t := [([1%N], File [0; 0]%N)] in
  let w := mkW (mkP t []) [1%N] 0 in
  let op := MSO (mkSO T_BLOCK_RANGE 0 2 1 []) in
  let ms := [op; hey_msg] in
  aligned oldC olds /\ wfile w /\
  (exists s', relay bs oldC olds ms w = Ok ([], s')) /\
  M.relay 3 true bs maxoff (sizes_of oldC) 0 (stream_of ms) = M.Stop M.Err /\
  ~ seek_fits bs maxoff (as_so op).
Proof.
  cbv zeta.
  assert (E1 : as_so (MSO (mkSO T_BLOCK_RANGE 0 2 1 [])) = mkSO T_BLOCK_RANGE 0 2 1 []) by (vm_compute; reflexivity).
  assert (E2 : as_so hey_msg = mkSO HEY 0 0 0 []) by (vm_compute; reflexivity).
  split; [repeat constructor|]. split; [eexists; reflexivity|]. split; [|split].
  - assert (Hs : forall k, slice [1; 2; 3; 4]%N (4611686018427387904 * 2) k = []).
    { intros k. unfold slice. rewrite skipn_all2 by (cbn [length]; lia). apply firstn_nil. }
    eexists. cbn [relay]. rewrite E1, E2. cbn [so_type].
    change (T_BLOCK_RANGE =? HEY) with false. change (HEY =? HEY) with true. cbn iota.
    change (validate_op (mkC [([1%N], 4)] [] []) (mkSO T_BLOCK_RANGE 0 2 1 [])) with true. cbn [negb].
    unfold apply_op. cbn [so_type so_file so_block so_span].
    change (T_BLOCK_RANGE =? T_BLOCK_RANGE) with true. cbn iota.
    unfold apply_range.
    change (znth (c_files (mkC [([1%N], 4)] [] [])) 0) with (Some ([1%N], 4)).
    change (znth [[1; 2; 3; 4]%N] 0) with (Some [1; 2; 3; 4]%N). cbn iota.
    change (4611686018427387904 * 2 <? 0) with false. cbn iota.
    rewrite Hs. cbn [w_write bind]. reflexivity.
  - vm_compute. reflexivity.
  - rewrite E1. intros H. specialize (H eq_refl). cbn [so_block] in H. unfold i64 in H. rewrite p63 in H. lia.
Qed.

(* ------------------------------------------------------------------ non-vacuity *)

(** block size 4; one old file [1..6]; new container: file 0 (9 bytes) patched by an rsync
    series DATA, RANGE, DATA, RANGE, file 1 (6 bytes) by a bsdiff series with a backward seek.
    The hypotheses of [patcher_models_agree_lemma] hold and both models accept the patch. *)
Definition ex_oldC : container := mkC [([1%N], 6)] [] [].
Definition ex_olds : list (list byte) := [[1; 2; 3; 4; 5; 6]%N].
Definition ex_newC : container := mkC [([2%N], 9); ([3%N], 6)] [] [].
Definition ex_ms : list pmsg :=
  [MSH (mkSH SH_RSYNC 0); MSO (mkSO T_DATA 0 0 0 [9; 9]%N); MSO (mkSO T_BLOCK_RANGE 0 0 1 []);
   MSO (mkSO T_DATA 0 0 0 [7]%N); MSO (mkSO T_BLOCK_RANGE 0 1 1 []); hey_msg;
   MSH (mkSH SH_BSDIFF 1); MBH (mkBH 0); MCT (mkCT [1; 1; 1]%N [8]%N (-3) false); MCT (mkCT [0; 0]%N [] 0 false);
   MCT (mkCT [] [] 0 true); hey_msg].

Lemma patcher_models_agree_example_lemma :
  aligned ex_oldC ex_olds /\ Forall (fun d : list byte => Z.of_nat (length d) < 2^63) ex_olds /\
  wf_container ex_newC /\ run_fits 4 (2^40) None (length (c_files ex_newC)) ex_ms /\
  (exists t tr, apply_fresh 4 ex_oldC ex_newC ex_olds None ex_ms = Ok (t, 2, tr) /\
                tlookup t [2%N] = Some (File [9; 9; 1; 2; 3; 4; 7; 5; 6]%N) /\
                tlookup t [3%N] = Some (File [2; 3; 4; 8; 1; 2]%N)) /\
  M.patcher (S (length ex_ms)) true 4 (2^40) (sizes_of ex_oldC) (sizes_of ex_newC) None (stream_of ex_ms) = M.Ok.
Proof.
  split; [repeat constructor|]. split; [repeat constructor|].
  split; [apply wf_containerb_sound; reflexivity|].
  split.
  - vm_compute. repeat split; try discriminate; intros _; split; discriminate.
  - split; [|vm_compute; reflexivity].
    eexists _, _. split; [vm_compute; reflexivity|]. split; reflexivity.
Qed.
