(** Composition of C11 (the rsync differ, Wsync/*.v) with C01 (patch writer + patcher + fresh
    bowl, Patch/{Stream,Patcher}.v, Bowl/Fresh.v): the glue pwr/diff.go puts between
    wsync.ComputeDiff and the patch stream.  Definitions only; proofs in
    Compose/DiffApplyProofs.v, statements in Properties/C01.v.

    repo/pwr/diff.go, WritePatch:

        blockLibrary := wsync.NewBlockLibrary(dctx.TargetSignature)
        for index, f := range dctx.TargetContainer.Files { targetContainerPathToIndex[f.Path] = int64(index) }
        for fileIndex, f := range dctx.SourceContainer.Files {
            ... SyncHeader{fileIndex}
            var preferredFileIndex int64 = -1
            if oldIndex, ok := targetContainerPathToIndex[f.Path]; ok { preferredFileIndex = oldIndex }
            diffContext.ComputeDiff(diffReader, blockLibrary, opsWriter, preferredFileIndex)
            ... HEY_YOU_DID_IT
        }

    and makeOpsWriter: a wsync.Operation{OpBlockRange, FileIndex, BlockIndex, BlockSpan} becomes
    SyncOp{BLOCK_RANGE, FileIndex, BlockIndex, BlockSpan}; a wsync.Operation{OpData, Data} becomes
    SyncOp{DATA, Data}.

    C01's [write_patch] already contains the loop, the headers, the end markers and
    [preferred_index] (the map lookup: the last old file with that path, -1 when there is
    none); its parameter [differ : Z -> list byte -> list Stream.op] is the call
    "ComputeDiff(file, library of the old build, preferred index) seen through makeOpsWriter".
    [real_differ] below is that call with C11's model plugged in.

    The two developments use the same byte type ([Prelude.byte = N]) but different number
    types: C11 has the block size, indices, spans, offsets in [N] (Go: int / int64 that are
    never negative inside ComputeDiff) and records a data operation as a span
    [OpData start len] of the source; C01 has [Z] everywhere (int64 message fields, which a
    decoded stream can make negative) and data operations carry their bytes. *)
From Wharf Require Import Base.Prelude Patch.Stream.
From Wharf Require Wsync.Diff Wsync.Spec.
Local Open Scope Z_scope.

(** makeOpsWriter: one pwr operation per wsync operation.  A data operation of ComputeDiff
    carries [buffer[data.tail:data.head]], which is [source[start : start+len]] (C11's group
    [ops] compares those bytes). *)
Definition tr_op (src : list byte) (o : Wsync.Diff.op) : Stream.op :=
  match o with
  | Wsync.Diff.OpRange f i sp => Stream.OpRange (Z.of_N f) (Z.of_N i) (Z.of_N sp)
  | Wsync.Diff.OpData s l => Stream.OpData (Wsync.Spec.sub src s l)
  end.

(** the preferred file index as findUniqueHash uses it: [if preferredFileIndex != -1] then
    [block.FileIndex == preferredFileIndex].  File indices of a signature are never negative, so
    a negative value other than -1 (pwr never passes one) prefers nothing, like -1. *)
Definition pref_of (pref : Z) : option N := if pref <? 0 then None else Some (Z.to_N pref).

(** ComputeDiff of one new file against the signature (CreateSignature of every old file, in
    container order) and block library of the old build, through makeOpsWriter.
    [diff_ops = None] is C11's "out of fuel" outcome (never, for [0 < bs], [0 < maxData]). *)
Definition real_differ {H : Type} (shash : list N -> H) (heqb : H -> H -> bool)
           (bs : Z) (maxData : N) (olds : list (list byte)) (pref : Z) (data : list byte) : list Stream.op :=
  match Wsync.Spec.diff_ops shash heqb (Z.to_N bs) maxData olds data (pref_of pref) with
  | Some ops => map (tr_op data) ops
  | None => []
  end.

(** the strong hash separates the blocks of the old build from the windows of every file of
    the new build (C11's hypothesis, once per new file: these are the only comparisons
    WritePatch makes) *)
Definition strong_injective_on {H : Type} (shash : list N -> H) (bs : Z) (olds : list (list byte))
           (news : list (list byte)) : Prop :=
  Forall (fun data => Wsync.Spec.strong_injective shash (Z.to_N bs) olds data) news.
