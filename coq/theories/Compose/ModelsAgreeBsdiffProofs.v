(** Models that were transcribed more than once agree - part 5: bsdiff Apply.

    bsdiff.IndividualPatchContext.Apply / PatchContext.Patch exist four times:
      Bsdiff/Patch.v     [apply_ctrl] / [apply_series]        (C12)
      Patch/Patcher.v    [bs_apply] / [ctrl_loop]             (C01)
      Patch/Malformed.v  [controls]  (lengths only, int64)    (C10)
      Patch/Resume.v     the [PBsLoop] step with [bs_data]    (C03)
    C12 <-> C01 is Compose/OptimizeApplyProofs.v ([bs_apply_ctrl], [ctrl_loop_series],
    Properties/C07.v [bsdiff_series_applied_by_patcher]); C01 <-> C10 on EVERY control list is
    [ctrl_loop_agrees] (Compose/ModelsAgreeMalformedProofs.v); C01 <-> C03 wherever C01 returns
    Ok is [ctrl_loop_models_agree_c03] (Compose/ModelsAgreeResumeProofs.v).  Here the three are
    composed, so that each model is related to C12's directly, on well-formed series (int64
    seeks, the last control - and only it - marked eof, Apply succeeds).

    Differences (see the two files above): C10 keeps lengths only; C03 has no bounds check (an
    add part that runs past the end of the old file is an error in C12 / C01 / C10 and Go, C03
    goes on - [diff_bsdiff_bounds]) and no check of the target index.  Proofs only. *)
From Coq Require Import ZifyBool ZifyNat ZifyN.
From Wharf Require Import Base.Prelude Bowl.Fresh Bowl.FreshProofs Patch.Reinterp Patch.Stream Patch.Patcher
     Patch.DiffApplyProofs Compose.OptimizeApply Compose.OptimizeApplyProofs
     Compose.ModelsAgreeResume Compose.ModelsAgreeMalformed Compose.ModelsAgreeMalformedProofs
     Compose.ModelsAgreeResumeProofs.
From Wharf Require Bsdiff.Scan Bsdiff.Patch Patch.Resume.
Local Open Scope Z_scope.

Module BP := Wharf.Bsdiff.Patch.

(* ------------------------------------------------------------------ one control *)

(** C12's Apply on one control IS C03's [bs_data] and offset update *)
Lemma apply_ctrl_is_bs_data (olds : list (list byte)) (t : N) (off : Z) (c : Scan.ctrl) (o : list byte) (off' : Z) :
  BP.apply_ctrl (old_of olds t) off c = Some (o, off') ->
  o = bs_data_of olds t off (Scan.c_add c) (Scan.c_copy c) /\
  off' = off + Z.of_N (N.of_nat (length (Scan.c_add c))) + Scan.c_seek c.
Proof.
  intros H. destruct (apply_ctrl_some _ _ _ _ _ H) as (_ & _ & -> & ->).
  split; [reflexivity|]. rewrite nat_N_Z. reflexivity.
Qed.

(** ... and C10's length bookkeeping for it: it passes both range checks, writes
    [len add + len copy] bytes, moves the cursor alike (int64 seek: no wrap below 2^63) *)
Lemma apply_ctrl_lengths (old : list byte) (off : Z) (c : Scan.ctrl) (o : list byte) (off' : Z) :
  BP.apply_ctrl old off c = Some (o, off') ->
  0 <= off <= Z.of_nat (length old) /\ off + Z.of_nat (length (Scan.c_add c)) <= Z.of_nat (length old) /\
  Z.of_nat (length o) = Z.of_nat (length (Scan.c_add c)) + Z.of_nat (length (Scan.c_copy c)).
Proof.
  intros H. destruct (apply_ctrl_some _ _ _ _ _ H) as (H0 & Hle & -> & _).
  split; [lia|]. split; [lia|].
  rewrite app_length, add_bytes_length by (rewrite skipn_length; lia). lia.
Qed.

(* ------------------------------------------------------------------ C12 and C10 *)

(** a well-formed series, as C12 applies it, through C10's control loop: it is accepted, the
    loop stops behind the eof control, and the byte counter C10 checks against the declared
    size is the length of C12's output *)
Theorem bsdiff_series_c12_c10_lemma :
  forall (old : list byte) (b : bseries) (out : list byte) (offf : Z) (rest : list pmsg) (fuel : nat),
    Z.of_nat (length old) < 2^63 ->
    forallb seek_okb b = true -> eof_lastb b = true ->
    BP.apply_series old 0 b = Some (out, offf) ->
    (length (map ctrl_msg b ++ rest) < fuel)%nat ->
    M.controls fuel (Z.of_nat (length old)) 0 0 (stream_of (map ctrl_msg b ++ rest)) =
    M.Cont (Z.of_nat (length out), stream_of rest).
Proof.
  intros old b out offf rest fuel Hold Hseek Hlast Happ Hfuel.
  set (p := [1%N] : path). set (L := length out).
  set (w0 := mkW (mkP [(p, File (zeros L))] []) p 0).
  assert (Hg : wgood p L w0 []).
  { unfold wgood, w0. cbn [w_path w_off w_st p_tree length app]. rewrite Nat.sub_0_r.
    repeat split. }
  destruct (ctrl_loop_series p L old b 0 out offf w0 [] rest Hseek Hlast Happ Hg ltac:(cbn [length]; lia))
    as (w' & Ec & (_ & Ho & _) & _).
  assert (Hw0 : wfile w0) by (eexists; apply tlookup_tset_same).
  pose proof (ctrl_loop_agrees old (map ctrl_msg b ++ rest) 0 0 w0 fuel Hold Hw0 (or_introl eq_refl) Hfuel) as H.
  rewrite Ec in H. change (Z.of_nat (w_off w0)) with 0 in H.
  destruct (M.controls fuel (Z.of_nat (length old)) 0 0 (stream_of (map ctrl_msg b ++ rest))) as [[wc s]|r]; [|contradiction].
  destruct H as (-> & -> & _). rewrite Ho. reflexivity.
Qed.

(* ------------------------------------------------------------------ C12 and C03 *)

(** the typed C03 message of a control *)
Definition c03_ctrl (c : Scan.ctrl) : cmsg :=
  if Scan.c_eof c then Resume.MCtrlEof else Resume.MCtrl (Scan.c_add c) (Scan.c_copy c) (Scan.c_seek c).

Lemma abs_ct_ctrl_msg (b : bseries) :
  forallb seek_okb b = true ->
  map (fun m => abs_ct (as_ct m)) (map ctrl_msg b) = map c03_ctrl b.
Proof.
  induction b as [|c r IH]; intros Hs; [reflexivity|].
  cbn [forallb] in Hs. apply andb_prop in Hs. destruct Hs as [Hc Hr].
  cbn [map]. rewrite IH by assumption. rewrite (as_ct_ctrl c Hc). reflexivity.
Qed.

(** a well-formed series, as C12 applies it, through the C03 machine in its control loop (fresh
    bowl's writer, old file [t] of the pool, the C01 writer [w] as the witness of what the
    output file holds - [wsim]): the machine consumes exactly the controls, ends in [PBsEnd]
    and the file holds what it held before followed by C12's output *)
Theorem bsdiff_series_c12_c03_lemma :
  forall (bs : Z) (oldC newC : container) (olds : list (list byte)) (nfiles : N) (is_overlay : N -> bool)
         (emit stop : nat -> bool) (t : N) (b : bseries) (out : list byte) (offf : Z)
         (p : path) (L : nat) (w : wst) (written : list byte) (S : cstate) (wN : N),
    forallb seek_okb b = true -> eof_lastb b = true ->
    BP.apply_series (old_of olds t) 0 b = Some (out, offf) ->
    wgood p L w written -> (length written + length out <= L)%nat ->
    Resume.s_ph _ _ _ S = Resume.PBsLoop _ wN 0 t -> wsim w S wN ->
    exists (S' : cstate) (wN' : N),
      (forall tail, c03_run bs oldC newC olds nfiles is_overlay emit stop S (map c03_ctrl b ++ tail) =
                    c03_run bs oldC newC olds nfiles is_overlay emit stop S' tail) /\
      Resume.s_ph _ _ _ S' = Resume.PBsEnd _ wN' /\
      Resume.s_file _ _ _ S' = Resume.s_file _ _ _ S /\
      N.to_nat wN' = (length written + length out)%nat /\
      Resume.s_disk _ _ _ S' (Resume.s_file _ _ _ S) = written ++ out ++ zeros (L - (length written + length out)) /\
      c03_frame S S'.
Proof.
  intros bs oldC newC olds nfiles is_overlay emit stop t b out offf p L w written S wN
         Hseek Hlast Happ Hg Hlen Hph Hsim.
  destruct (ctrl_loop_series p L (old_of olds t) b 0 out offf w written [] Hseek Hlast Happ Hg Hlen)
    as (w' & Ec & (Hp' & Ho' & Hf') & _).
  destruct (ctrl_loop_models_agree_c03 bs oldC newC olds nfiles is_overlay emit stop
              (map ctrl_msg b ++ []) 0 t w [] w' S wN Ec Hph Hsim)
    as (pre & S' & wN' & Hsplit & Hrun & Hph' & Hfile & (raw & Hraw & Hdisk & Hoff & _) & Hpath & Hframe & _).
  rewrite !app_nil_r in Hsplit. subst pre.
  exists S', wN'. split.
  - intros tail. rewrite <- (abs_ct_ctrl_msg b Hseek). apply Hrun.
  - split; [exact Hph'|]. split; [exact Hfile|].
    assert (Hpw : w_path w' = p) by exact Hp'.
    rewrite Hpw, Hf' in Hraw. injection Hraw as <-.
    split; [rewrite <- Hoff, Ho', app_length; reflexivity|].
    split; [|exact Hframe].
    rewrite <- Hfile, Hdisk, app_length, <- app_assoc. reflexivity.
Qed.
