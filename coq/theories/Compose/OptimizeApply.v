(** C07 composed with C12 and C01: the abstract series of Patch/Rediff.v instantiated with the
    message lists rediff.Optimize really writes, applied by the C01 patcher model.

    Patch/Rediff.v states [optimize] over abstract types [Content], [RSeries], [BSeries] and
    Patch/RediffProofs.v proves [optimize_preserves] / [rediff_preserves] from two hypotheses
    about abstract denotations [den_rsync] / [den_bsdiff].  Here:

      Content := list byte
      RSeries := list op          the wsync operations of one new file (Patch/Stream.v)
      BSeries := list Scan.ctrl   the Control messages bsdiff.DiffContext.Do hands to
                                  writeMessage, the eof control included (Bsdiff/Scan.v)

    and [render] turns a [series] into the frames of the per-file part of a patch exactly as
    repo/pwr/rediff/rediff.go:Optimize writes them:

      no mapping:  sh as read (RSYNC, fileIndex); every SyncOp as read; HEY_YOU_DID_IT
      mapping:     SyncHeader{BSDIFF, fileIndex}; BsdiffHeader{TargetIndex};
                   bdc.Do(target, source, wctx.WriteMessage): one Control per match, the last
                   with Seek 0, then Control{Eof: true} (repo/bsdiff/diff.go:writeMessages);
                   SyncOp{HEY_YOU_DID_IT}

    (Optimize decodes a frame as SyncOp and re-marshals it; on the frames WritePatch emits
    that is the identity - [as_so_op] of Patch/DiffApplyProofs.v - so the copied series is
    [map op_msg ops].)  The patch header is rewritten with the optimizer's own compression
    setting, the two containers are copied.

    [den_rsync] is C01's [replay]; [den_bsdiff] is C12's [apply_series] from old-offset 0,
    restricted to series a Go [Control] list can hold (int64 seeks) that end with their only
    eof control.  That the C01 patcher model ([process_rsync] / [process_bsdiff] of
    Patch/Patcher.v) writes exactly these denotations when fed the rendered frames is proved
    in Compose/OptimizeApplyProofs.v.  Definitions only. *)
From Wharf Require Import Base.Prelude Bowl.Fresh Patch.Reinterp Patch.Stream Patch.Patcher
     Val.Drip Val.VPool Patch.Rediff Patch.RediffProofs.
From Wharf Require Bsdiff.Scan Bsdiff.Patch Bsdiff.Suffix.
Local Open Scope Z_scope.

Definition rseries := list op.
Definition bseries := list Scan.ctrl.
Definition oseries := series rseries bseries.

(** ---- the frames ---- *)

(** a bsdiff.Control as a frame of the patch *)
Definition ctrl_msg (c : Scan.ctrl) : pmsg :=
  MCT (mkCT (Scan.c_add c) (Scan.c_copy c) (Scan.c_seek c) (Scan.c_eof c)).

(** the series of new file [i] as Optimize writes it *)
Definition render (i : Z) (s : oseries) : list pmsg :=
  match s with
  | Rsync ops => MSH (mkSH SH_RSYNC i) :: map op_msg ops ++ [hey_msg]
  | Bsdiff t b => MSH (mkSH SH_BSDIFF i) :: MBH (mkBH t) :: map ctrl_msg b ++ [hey_msg]
  end.

Fixpoint render_all (i : Z) (ss : list oseries) : list pmsg :=
  match ss with
  | [] => []
  | s :: r => render i s ++ render_all (i + 1) r
  end.

(** the optimized patch: new header, the two containers of the patch being rewritten, the
    rendered series *)
Definition optimized_patch (algo quality : Z) (old new : build) (opt : list oseries) : list frame :=
  FHeader algo quality :: FContainer (container_of old) :: FContainer (container_of new)
  :: map FMsg (render_all 0 opt).

(** ---- the denotations ---- *)

Definition den_rsync (bs : Z) (r : rseries) (olds : list (list byte)) : option (list byte) :=
  Some (replay bs olds r).

Definition seek_okb (c : Scan.ctrl) : bool := (- 2^63 <=? Scan.c_seek c) && (Scan.c_seek c <? 2^63).

(** the last control, and only the last, is marked eof *)
Fixpoint eof_lastb (b : bseries) : bool :=
  match b with
  | [] => false
  | c :: r => match r with
              | [] => Scan.c_eof c
              | _ => negb (Scan.c_eof c) && eof_lastb r
              end
  end.

Definition den_bsdiff (b : bseries) (old : list byte) : option (list byte) :=
  if forallb seek_okb b && eof_lastb b
  then option_map fst (Bsdiff.Patch.apply_series old 0 b)
  else None.

(** ---- bsdiff.DiffContext.Do as the total function [Content -> Content -> BSeries] C07 wants ---- *)
Section BsdiffInstance.
  Variable bsz : Z.                                            (* scan block size, 128 KiB in Go *)
  Variable search : list byte -> N -> list byte -> Z * Z.      (* the suffix-array oracle built for an old file *)
  Variable partitions : Z.

  Definition bsd_go (old new : list byte) : Scan.res (list Scan.ctrl) :=
    Scan.bsdiff_do bsz (search old) partitions old new.

  Definition bytes_okb (l : list byte) : bool := forallb (fun b => (b <? 256)%N) l.

  (** one control that adds nothing and copies the whole new file *)
  Definition copy_series (new : list byte) : bseries := [([], new, 0, false); Scan.ctrl_eof].

  (** Go's []byte holds bytes, and a Go slice has fewer than 2^63 elements; the model's [byte]
      is [N] and lists are unbounded.  C07's hypothesis quantifies over ALL contents, so on
      that junk part of the domain (and on it only - [bsd_series_is_go] in the proofs) the
      function is completed with the literal-copy series. *)
  Definition bsd_series (old new : list byte) : bseries :=
    if bytes_okb old && bytes_okb new && (Scan.len old <? 2^63) then
      match bsd_go old new with
      | Scan.Ok cs => cs
      | _ => copy_series new
      end
    else copy_series new.
End BsdiffInstance.

(** the oracle of the executable instance [run_bsd] of Exec/C12.v (the one the C12
    correspondence compares with psa.search on every run) *)
Definition psa_oracle (partitions : Z) (old : list byte) : N -> list byte -> Z * Z :=
  fun _ suf => Suffix.psa_search (Suffix.new_psa (Scan.norm_partitions partitions (Scan.len old)) old) suf.

(** ---- what the analysis pass sees of the patch WritePatch emits ---- *)

Definition sop_of (o : op) : sop :=
  match o with
  | OpRange f i s => SRange f i s
  | OpData d => SData (Z.of_nat (length d))
  end.

(** targetPathsToIndex[sourceFile.Path]: filled in index order, the last old file of that path wins *)
Definition same_path (oldC : container) (p : path) : option Z :=
  let k := preferred_index oldC p in if k <? 0 then None else Some k.

Definition tsizes_of (oldC : container) : list Z := map snd (c_files oldC).

Definition file_in_of (differ : Z -> list byte -> list op) (oldC : container)
           (f : path * list byte) (ord : list (Z * Z)) : @file_in (list byte) rseries :=
  let ops := differ (preferred_index oldC (fst f)) (snd f) in
  (Z.of_nat (length (snd f)), same_path oldC (fst f), map sop_of ops, ord, ops, snd f).

(** one [file_in] per new file; [ords] = the order in which Go happens to iterate the
    reused-bytes map of each file *)
Definition file_ins (differ : Z -> list byte -> list op) (old new : build) (ords : list (list (Z * Z)))
  : list (@file_in (list byte) rseries) :=
  map (fun fo => file_in_of differ (container_of old) (fst fo) (snd fo)) (combine (files_of new) ords).

(** [ord] enumerates the reused-bytes map of the file *)
Definition order_ok (bs : Z) (tsizes : list Z) (f : @file_in (list byte) rseries) : Prop :=
  let '(_, _, ops, ord, _, _) := f in
  forall m, reused bs tsizes ops = Some m -> Permutation.Permutation ord m.

(** the (ops, content) of every new file, in container order: what both passes of rediff read
    of the patch WritePatch emitted *)
Definition originals (differ : Z -> list byte -> list op) (old new : build) : list (rseries * list byte) :=
  map (fun f : path * list byte => (differ (preferred_index (container_of old) (fst f)) (snd f), snd f)) (files_of new).

(** every byte of every file of the build is a byte *)
Definition build_bytes (b : build) : Prop :=
  Forall (fun d => Forall (fun x => (x < 256)%N) d) (contents_of b).

(** the series of the optimized patch are what the Go code computes: the original ops where
    no mapping was chosen, otherwise the controls [bsdiff.DiffContext.Do] returned - it did
    not fail - for (mapped old file, new file) *)
Definition written_by_go (bsz : Z) (search : list byte -> N -> list byte -> Z * Z) (partitions : Z)
           (olds : list (list byte)) (x : rseries * list byte * option (Z * Z)) (s : oseries) : Prop :=
  match snd x with
  | None => s = Rsync (fst (fst x))
  | Some (t, _) => exists o cs, znth olds t = Some o /\
                                bsd_go bsz search partitions o (snd (fst x)) = Scan.Ok cs /\
                                s = Bsdiff t cs
  end.

(** ---- a tiny instance (block size 4): new file 0 = old file 0 with one byte changed and one
    appended (one block reused + 5 fresh bytes: mapped to old file 0, rewritten as a bsdiff
    series), new file 1 = old file 1 under another name (one full-file block range: left as it is,
    the patcher transposes it) ---- *)
Definition ex_old : build := [([1%N], File [1;2;3;4;5;6;7;8]%N); ([2%N], File [9;9]%N)].
Definition ex_new : build := [([1%N], File [1;2;3;4;0;6;7;8;9]%N); ([3%N], File [9;9]%N)].
Definition ex_differ : Z -> list byte -> list op :=
  fun _ d => if nlist_eqb d [9;9]%N then [OpRange 1 0 1] else [OpRange 0 0 1; OpData (skipn 4 d)].
Definition ex_ords : list (list (Z * Z)) := [[(0, 7)]; [(1, 5)]].
Definition ex_xs : list (rseries * list byte * option (Z * Z)) :=
  [([OpRange 0 0 1; OpData [0;6;7;8;9]%N], [1;2;3;4;0;6;7;8;9]%N, Some (0, 7)); ([OpRange 1 0 1], [9;9]%N, None)].
Definition ex_ctrls : bseries := [([0;0;0;0;251;0;0;0]%N, [9]%N, 0, false); Scan.ctrl_eof].
Definition ex_opt : list oseries := [Bsdiff 0 ex_ctrls; Rsync [OpRange 1 0 1]].
