(** C03 x C13 - the abstract message reader of the resumable patcher (Patch/Resume.v: [emit],
    [src_resume], the automaton [rd_read]/[rd_want]/[rd_pop] at message granularity)
    instantiated with the wire reader of Wire/Reader.v over the framed encoding of the message
    list.  Definitions only; the proofs are in Compose/ResumeWireProofs.v.

    The two developments speak different languages:
    - C03 counts MESSAGES: [r_pos] is the index of the next message, a checkpoint carries the
      message index [mc_off] and, for the source part, the index [mc_src] of the message during
      whose read the source handed its checkpoint out ([rd_read] stores [r_pos] there);
    - C13 counts BYTES of the (decompressed) stream: [r_off]/[mc_off] are byte offsets, the
      source part is a [src_ckpt] (described offset, restart offset) chosen by the source
      behaviour [beh].
    The bridge goes through the frame lengths: message index [k] <-> byte offset [bnd k] =
    length of the frames of the first [k] messages ([idx_of] is the inverse); the source
    checkpoint "emitted during the read of message p" is [src_event p] = what [beh] answers
    for the read that moves the source from [bnd p] to [bnd (S p)]. *)
From Wharf Require Import Base.Prelude Patch.Resume Wire.Uvarint Wire.Frame Wire.FrameProofs Wire.Reader.
Local Open Scope N_scope.

Section WireInstance.
  Context {M : Type}.
  Variable marshal : M -> list byte.
  Variable unmarshal : list byte -> option M.
  Variable msgs : list M.             (* the message list of the patch *)
  Variable beh : behaviour.           (* the source below the reader (seek source, gzip, brotli ...) *)
  Variable cap0 : N.                  (* initial capacity of the reusable buffer (irrelevant) *)

  (** the bytes below the reader: what [write_msgs marshal msgs] produces ([write_msgs_ok]) *)
  Definition wire_data : list byte := stream marshal msgs.

  (** message index -> byte offset: the boundary after the first [k] messages *)
  Definition bnd (k : nat) : N := N.of_nat (length (stream marshal (firstn k msgs))).

  (** byte offset -> message index, [None] when the offset is not a message boundary *)
  Fixpoint idx_of (ms : list M) (o : N) : option nat :=
    if o =? 0 then Some O else
    match ms with
    | [] => None
    | m :: r =>
        let c := N.of_nat (length (frame (marshal m))) in
        if o <? c then None else option_map S (idx_of r (o - c))
    end.

  (** the source checkpoint handed out during the read of message [p] when a request is pending *)
  Definition src_event (p : nat) : option src_ckpt := beh (bnd p) (bnd (S p)).

  (** *** the instance of C03's section variables [emit] and [src_resume] *)
  Definition emit_w (p : nat) : bool :=
    match src_event p with Some _ => true | None => false end.

  (** a C03 message checkpoint as the [wire.MessageReaderCheckpoint] it stands for *)
  Definition ckpt_to_wire (mc : Resume.mckpt) : option msg_ckpt :=
    match src_event (Resume.mc_src mc) with
    | Some sc => Some (mk_mc (bnd (Resume.mc_off mc)) (Some sc))
    | None => None
    end.

  (** [ReadContext.Resume] on a brand-new reader over the same bytes, the reader offset it ends
      at converted back to a message index *)
  Definition src_resume_w (off src : nat) : option nat :=
    match ckpt_to_wire (Resume.mkmc off src) with
    | None => None                       (* no such source checkpoint was ever handed out *)
    | Some c =>
        match resume (new_reader cap0 wire_data) (Some c) with
        | None => None
        | Some r' => idx_of msgs (r_off r')
        end
    end.

  (** *** the relation between the two automata: the C13 reader [a] and the C03 reader [b] *)
  Definition st_rel (x : save_state) (y : Resume.savest) : Prop :=
    match x, y with
    | Idle, Resume.Idle | Waiting, Resume.Waiting | HasSrc, Resume.HasSrc => True
    | _, _ => False
    end.

  Definition rd_rel (a : reader) (b : Resume.reader) : Prop :=
    let p := Resume.r_pos b in
    (p <= length msgs)%nat /\
    (* positions: [p] messages read, offset = their frames *)
    s_data (r_src a) = wire_data /\ s_pos (r_src a) = bnd p /\ r_off a = bnd p /\
    s_rest (r_src a) = stream marshal (skipn p msgs) /\
    (* the save protocol *)
    st_rel (r_save a) (Resume.r_st b) /\
    s_want (r_src a) = Resume.r_want b /\
    (Resume.r_want b = true <-> Resume.r_st b = Resume.Waiting) /\
    match Resume.r_st b with
    | Resume.HasSrc => (Resume.r_src b < p)%nat /\ r_sc a = src_event (Resume.r_src b) /\ emit_w (Resume.r_src b) = true
    | _ => r_sc a = None
    end.

  (** the same schedule on the C03 side; events are compared through [ckpt_to_wire] *)
  Inductive ev3 := Ev3Want (forwarded : bool) | Ev3Pop (c : option Resume.mckpt) | Ev3Read (i : nat).

  Definition step3 (b : Resume.reader) (o : op) : Resume.reader * ev3 :=
    match o with
    | OWant => (Resume.rd_want b, Ev3Want (match Resume.r_st b with Resume.Idle => true | _ => false end))
    | OPop => let '(c, b') := Resume.rd_pop b in (b', Ev3Pop c)
    | ORead => (Resume.rd_read emit_w b, Ev3Read (Resume.r_pos b))
    end.

  Fixpoint run3 (b : Resume.reader) (ops : list op) : list (ev3 * Resume.reader) :=
    match ops with
    | [] => []
    | o :: rest => let '(b', e) := step3 b o in (e, b') :: run3 b' rest
    end.

  Definition ev_rel (e : ev (M:=M)) (e3 : ev3) : Prop :=
    match e, e3 with
    | EvWant f, Ev3Want f3 => f = f3
    | EvPop None, Ev3Pop None => True
    | EvPop (Some c), Ev3Pop (Some mc) => ckpt_to_wire mc = Some c
    | EvRead (ReadOk m), Ev3Read i => nth_error msgs i = Some m
    | _, _ => False
    end.

  (** a schedule that never reads past the last message (the patcher does not: [run] fails on
      an empty list before it reads) *)
  Fixpoint reads_within (p : nat) (ops : list op) : Prop :=
    match ops with
    | [] => True
    | ORead :: r => (p < length msgs)%nat /\ reads_within (S p) r
    | _ :: r => reads_within p r
    end.

  (** a C03 checkpoint that the instance can have produced *)
  Definition wf_mc (mc : Resume.mckpt) : Prop :=
    (Resume.mc_src mc < Resume.mc_off mc)%nat /\ (Resume.mc_off mc <= length msgs)%nat /\ emit_w (Resume.mc_src mc) = true.
End WireInstance.
