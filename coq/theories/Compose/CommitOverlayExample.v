(** C02 x C14 - an executed instance at bufSize 4 / threshold 1: the old build has a file [P 1]
    that is patched in place through an overlay and a file [P 2] that is renamed to [P 3].  The
    hypotheses of [inplace_apply_equals_new_overlay_instance] hold for it (non-vacuity) and the
    stage file, its decoding and the committed tree are computed. *)
From Coq Require Import Permutation.
From Wharf Require Import Base.Prelude Bowl.FSmini Bowl.OverlayCommit Bowl.CommitSpec Bowl.CommitExamples
  Bowl.PatchPhaseProofs.
From Wharf Require Import Overlay.Writer Overlay.Patch Overlay.Codec.
From Wharf Require Import Compose.CommitOverlay Compose.CommitOverlayBytes.
Local Open Scope N_scope.

Module PatchAndRename.
  Definition ob := mkB [] [] [([P 1], [1; 1; 1; 1; 1; 1; 1; 1]); ([P 2], [5; 6])].
  Definition nb := mkB [] [] [([P 1], [1; 1; 9; 1; 1; 1; 1; 7]); ([P 3], [5; 6])].
  (** the patcher writes [P 1] (content computed from the old tree) and transposes [P 2] to [P 3] *)
  Definition steps := [PWrite [P 1] (fun _ => [1; 1; 9; 1; 1; 1; 1; 7]); PTranspose [P 3] [P 2]].
  (** three bytes, a Flush, the rest; the stage file already held 40 bytes of junk *)
  Definition sched (cur new : list N) : list event := [EvWrite (firstn 3 new); EvFlush; EvWrite (skipn 3 new)].
  Definition junk (cur new : list N) : list byte := repeat 255 40.
  Definition mk := mk_overlay_c14 4 1 sched junk.
  Definition wd := patch_phase mk (cont ob) steps (world0 ob).
  Definition order := [[P 2]].
  Definition go : list ghost := [(GFile, [P 2])].
  Definition stage_file : list byte := overlay_file 4 1 [1; 1; 1; 1; 1; 1; 1; 1] (sched [] [1; 1; 9; 1; 1; 1; 1; 7]) (junk [] []).

  Lemma sched_ok : forall cur new, written (sched cur new) = new.
  Proof. intros cur new. cbn [sched written]. rewrite app_nil_r. apply firstn_skipn. Qed.

  Lemma wf_ob : wf_build ob.
  Proof.
    constructor.
    - repeat constructor; cbn; intuition congruence.
    - intros p H. cbn in H. intuition (subst; discriminate).
    - intros p q H A. cbn in H. destruct H as [<-|[<-|[]]]; now apply above_1 in A.
    - intros ds1 d ds2 q E. destruct ds1; discriminate.
  Qed.

  Lemma wf_nb : wf_build nb.
  Proof.
    constructor.
    - repeat constructor; cbn; intuition congruence.
    - intros p H. cbn in H. intuition (subst; discriminate).
    - intros p q H A. cbn in H. destruct H as [<-|[<-|[]]]; now apply above_1 in A.
    - intros ds1 d ds2 q E. destruct ds1; discriminate.
  Qed.

  Lemma describe : steps_describe ob nb steps.
  Proof.
    constructor.
    - repeat constructor; cbn; intuition congruence.
    - intros p. cbn. intuition.
    - intros p k H. cbn in H. destruct H as [H|[H|[]]]; [discriminate|]. injection H as <- <-.
      exists [5; 6]. cbn. intuition.
    - intros p f H. cbn in H. destruct H as [H|[H|[]]]; [|discriminate]. injection H as <- <-. cbn. now left.
  Qed.

  (** what the patch phase leaves: one transposition, one pending overlay, no move; the stage
      holds the overlay SKIP 2, FRESH [9], SKIP 4, FRESH [7] *)
  Lemma phase :
    wk wd = OverlayCommit.mkW [([P 3], [P 2])] [[P 1]] [] /\
    stg wd = [([P 1], SOverlay [OverlayCommit.Skip 2; OverlayCommit.Fresh [9]; OverlayCommit.Skip 4; OverlayCommit.Fresh [7]])] /\
    out wd = tree_of ob.
  Proof. vm_compute. repeat split. Qed.

  Lemma kinds : H_kinds ob nb (wk wd).
  Proof.
    rewrite (proj1 phase). constructor.
    - intros p k H. cbn in H. destruct H as [E|[]]. injection E as <- <-. split.
      + left. reflexivity.
      + intros q A. now apply above_1 in A.
    - intros p H. cbn in H. destruct H as [<-|[<-|[]]]; vm_compute; discriminate.
  Qed.

  Lemma orders : Permutation order (trans_keys (wk wd)) /\ ghost_order_ok nb ob go.
  Proof.
    rewrite (proj1 phase). split; [apply Permutation_refl|]. split; [apply Permutation_refl|].
    intros l1 g1 l2 g2 l3 E. exfalso. apply (short_list_split _ l1 l2 l3 g1 g2 go); [cbn; lia | assumption].
  Qed.

  (** the stage file as bytes: magic, header (an empty message), SKIP 2, FRESH [9], SKIP 4,
      FRESH [7], end marker, then what is left of the junk; [Patch] + truncate on the old
      content gives the new content *)
  Lemma file :
    stage_file = [0; 111; 239; 15; 0; 2; 16; 2; 5; 8; 1; 26; 1; 9; 2; 16; 4; 5; 8; 1; 26; 1; 7; 3; 8; 248; 15]
                 ++ repeat 255 13 /\
    decode_file Codec.dec Codec.magic stage_file
      = Some [Writer.Skip 0; Writer.Skip 2; Writer.Fresh [9]; Writer.Skip 4; Writer.Fresh [7]; EndMark] /\
    apply_overlay_file Codec.dec Codec.magic [1; 1; 1; 1; 1; 1; 1; 1] stage_file = Some [1; 1; 9; 1; 1; 1; 1; 7].
  Proof. vm_compute. repeat split. Qed.

  Lemma result :
    OverlayCommit.commit (cont ob) (cont nb) (wk wd) (stg wd) order order go (out wd)
    = Ok [([P 1], File [1; 1; 9; 1; 1; 1; 1; 7]); ([P 3], File [5; 6])].
  Proof. vm_compute. reflexivity. Qed.

  (** the same on bytes: the stage folder holds the overlay file itself, Commit runs [Patch] +
      truncate on it *)
  Definition bsteps :=
    [BWrite [P 1] (fun _ => [EvWrite [1; 1; 9]; EvFlush; EvWrite [1; 1; 1; 1; 7]]) (repeat 255 40); BTranspose [P 3] [P 2]].
  Definition bw := patch_phase_b 4 1 (cont ob) bsteps (bworld0 (tree_of ob)).

  Lemma bytes_describe : steps_describe ob nb (map erase bsteps).
  Proof.
    constructor.
    - repeat constructor; cbn; intuition congruence.
    - intros p. cbn. intuition.
    - intros p k H. cbn in H. destruct H as [H|[H|[]]]; [discriminate|]. injection H as <- <-.
      exists [5; 6]. cbn. intuition.
    - intros p f H. cbn in H. destruct H as [H|[H|[]]]; [|discriminate]. injection H as <- <-. cbn. now left.
  Qed.

  Lemma bytes_phase :
    (bwk bw = OverlayCommit.mkW [([P 3], [P 2])] [[P 1]] []) /\ bstg bw = [([P 1], stage_file)] /\ bout bw = tree_of ob /\
    decode_stage (bwk bw) (bstg bw) = stg wd.
  Proof. vm_compute. repeat split. Qed.

  Lemma bytes_result :
    commit_b (cont ob) (cont nb) (bwk bw) (bstg bw) order order go (bout bw)
    = Ok [([P 1], File [1; 1; 9; 1; 1; 1; 1; 7]); ([P 3], File [5; 6])].
  Proof. vm_compute. reflexivity. Qed.
End PatchAndRename.
