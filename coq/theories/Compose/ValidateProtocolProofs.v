(** Compose/ValidateProtocolProofs.v - C16 composed with C05.

    [params_of] (Compose/ValidateProtocol.v) builds the parameters of the protocol model of
    Validate from the per-entry observations of the validator model.  Proved here:
    - the pre-pass items are what [dirs_pass] / [links_pass] find ([pre_items_spec]);
    - the aggregator of C16 run on the markers [params_of] hands it emits what C05's
      [aggregate] emits ([agg_run_aggregate], [file_msgs_bridge]);
    - [clean (params_of ..) = true] iff [validate ..] succeeds and reports nothing
      ([clean_params_iff_no_report_lemma]);
    - a matching directory reports nothing ([matching_reports_nothing]);
    - the end-to-end theorems: fail-fast Validate returning nil under ANY schedule and
      cancellation instant means the directory matches the signature, and conversely a matching
      directory validated without interruption returns nil. *)
From Wharf Require Import Base.Prelude Base.BlocksLemmas Val.Drip Val.DripProofs Val.VPool Val.VPoolProofs
                          Val.FileVal Val.FileValProofs.
From Wharf Require Import Heal.Protocol Heal.ProtocolProofs Heal.ProtocolSafety Heal.ProtocolClean
                          Compose.ValidateProtocol.
From Coq Require Import ZifyBool ZifyNat.
Local Open Scope Z_scope.

(* ---------- AggregateWounds: C05's function vs C16's automaton ---------- *)

Definition file_or_closed (w : wound) : Prop := wk w = WFile \/ wk w = WClosed.

(** C16's aggregator, told about the raw markers through [fmsgs_of], sends exactly the
    markers C05's [aggregate] sends (as Healthy / Bad), in the same order *)
Lemma agg_run_aggregate maxSize ws : forall last,
  Forall file_or_closed ws ->
  (forall l, last = Some l -> wk l = WFile) ->
  agg_run (match last with Some _ => true | None => false end) (fmsgs_of maxSize last ws)
  = map msg_of (aggregate maxSize last ws).
Proof.
  induction ws as [|w r IH]; intros last Hk Hl.
  - destruct last as [l|]; cbn; [|reflexivity].
    unfold msg_of, healthy. rewrite (Hl l eq_refl). reflexivity.
  - inversion Hk as [|x y Hw Hr]; subst.
    assert (Hbad : forall x, wk x = WFile -> msg_of x = Bad)
      by (intros x Hx; unfold msg_of, healthy; rewrite Hx; reflexivity).
    cbn [fmsgs_of aggregate]. destruct Hw as [Ew|Ew]; rewrite Ew.
    + destruct last as [l|].
      * pose proof (Hl l eq_refl) as Hlk.
        destruct ((wend l <=? wstart w) && (wstart w >=? wstart l)).
        -- cbn zeta. destruct (wend _ - wstart _ >=? maxSize).
           ++ cbn [agg_run agg_in map]. rewrite (IH None Hr) by (intros ? X; discriminate).
              rewrite Hbad by exact Hlk. reflexivity.
           ++ cbn [agg_run agg_in app].
              apply (IH (Some (mkwound (wk l) (widx l) (wstart l) (wend w))) Hr).
              intros l0 E0. inversion E0. exact Hlk.
        -- cbn [agg_run agg_in map].
           rewrite (IH (Some w) Hr) by (intros l0 E0; inversion E0; subst; exact Ew).
           rewrite (Hbad l Hlk). reflexivity.
      * cbn [agg_run agg_in app]. apply (IH (Some w) Hr). intros l0 E0. inversion E0; subst. exact Ew.
    + assert (Hh : msg_of w = Healthy) by (unfold msg_of, healthy; rewrite Ew; reflexivity).
      destruct last as [l|]; cbn [agg_run agg_in map]; rewrite (IH None Hr) by (intros ? X; discriminate); rewrite Hh.
      * rewrite (Hbad l (Hl l eq_refl)). reflexivity.
      * reflexivity.
Qed.

Lemma fmsgs_clean maxSize ws : forall last,
  forallb fmsg_clean (fmsgs_of maxSize last ws) = forallb (fun w => negb (wkind_eqb (wk w) WFile)) ws.
Proof.
  induction ws as [|w r IH]; intros last; [reflexivity|].
  cbn [fmsgs_of forallb]. destruct (wk w); cbn [wkind_eqb negb andb]; try (cbn [forallb fmsg_clean andb]; apply IH).
  destruct last as [l|]; [|cbn [forallb fmsg_clean andb]; reflexivity].
  destruct ((wend l <=? wstart w) && (wstart w >=? wstart l)); [cbn zeta; destruct (wend _ - wstart _ >=? maxSize)|];
    reflexivity.
Qed.

Lemma reported_nil_in ws w : reported ws = [] -> In w ws -> healthy w = true.
Proof.
  intros Hr Hin. destruct (healthy w) eqn:E; [reflexivity|exfalso].
  assert (Hf : In w (reported ws)) by (unfold reported; apply filter_In; rewrite E; split; [exact Hin|reflexivity]).
  rewrite Hr in Hf. destruct Hf.
Qed.

(** [aggregate] reports nothing exactly when nothing is pending and every input is healthy *)
Lemma reported_aggregate_nil maxSize ws : forall last,
  (forall l, last = Some l -> wk l = WFile) ->
  (reported (aggregate maxSize last ws) = [] <-> last = None /\ Forall (fun w => healthy w = true) ws).
Proof.
  assert (Hcons : forall (x : wound) t, wk x = WFile -> reported (x :: t) = [] -> False).
  { intros x t Hx Hr. unfold reported in Hr. cbn [filter] in Hr. unfold healthy in Hr. rewrite Hx in Hr.
    cbn in Hr. discriminate. }
  induction ws as [|w r IH]; intros last Hl.
  - destruct last as [l|]; cbn [aggregate].
    + split; [intros Hr; exfalso; apply (Hcons l [] (Hl l eq_refl) Hr)|intros [X _]; discriminate].
    + split; [intros _; split; [reflexivity|constructor]|reflexivity].
  - cbn [aggregate]. destruct (wk w) eqn:Ek.
    + (* FILE: never clean *)
      assert (Hnot : ~ (last = None /\ Forall (fun w0 => healthy w0 = true) (w :: r))).
      { intros [_ Hf]. inversion Hf as [|x y Hw _]; subst. unfold healthy in Hw. rewrite Ek in Hw. discriminate. }
      split; [|intros X; exfalso; exact (Hnot X)]. intros Hr. exfalso.
      destruct last as [l|].
      * pose proof (Hl l eq_refl) as Hlk.
        destruct ((wend l <=? wstart w) && (wstart w >=? wstart l)).
        -- destruct (wend _ - wstart _ >=? maxSize).
           ++ refine (Hcons _ _ _ Hr). exact Hlk.
           ++ apply IH in Hr; [destruct Hr as [X _]; discriminate|].
              intros l0 E0. inversion E0. exact Hlk.
        -- apply (Hcons _ _ Hlk Hr).
      * apply IH in Hr; [destruct Hr as [X _]; discriminate|]. intros l0 E0. inversion E0; subst. exact Ek.
    + (* SYMLINK: relayed, reported *)
      assert (Hw : healthy w = false) by (unfold healthy; rewrite Ek; reflexivity).
      split.
      * intros Hr. exfalso. pose proof (reported_nil_in _ w Hr) as X. rewrite Hw in X.
        destruct last as [l|]; (assert (false = true) by (apply X; cbn; auto)); discriminate.
      * intros [_ Hf]. inversion Hf as [|x y Hx _]; subst. congruence.
    + (* DIR *)
      assert (Hw : healthy w = false) by (unfold healthy; rewrite Ek; reflexivity).
      split.
      * intros Hr. exfalso. pose proof (reported_nil_in _ w Hr) as X. rewrite Hw in X.
        destruct last as [l|]; (assert (false = true) by (apply X; cbn; auto)); discriminate.
      * intros [_ Hf]. inversion Hf as [|x y Hx _]; subst. congruence.
    + (* CLOSED_FILE *)
      assert (Hw : healthy w = true) by (unfold healthy; rewrite Ek; reflexivity).
      destruct last as [l|].
      * split; [intros Hr; exfalso; apply (Hcons _ _ (Hl l eq_refl) Hr)|intros [X _]; discriminate].
      * assert (E : reported (w :: aggregate maxSize None r) = reported (aggregate maxSize None r)).
        { unfold reported. cbn [filter]. rewrite Hw. reflexivity. }
        rewrite E, (IH None) by (intros ? X; discriminate).
        split; [intros [_ Hf]; split; [reflexivity|constructor; assumption]|].
        intros [_ Hf]. inversion Hf; subst. split; [reflexivity|assumption].
Qed.

(* ---------- the dir / symlink pass ---------- *)

Lemma dir_items_nil ds k : dir_items ds k = [] <-> Forall (fun o => o = ODir) ds /\ k = [].
Proof.
  induction ds as [|o r IH]; cbn [dir_items].
  - split; [intros E; split; [constructor|exact E]|intros [_ E]; exact E].
  - destruct o; try (split; [discriminate|intros [Hf _]; inversion Hf; discriminate]).
    rewrite IH. split; intros [Hf E]; (split; [|exact E]); [constructor; [reflexivity|exact Hf]|inversion Hf; assumption].
Qed.

Lemma link_items_nil ls : link_items ls = [] <-> Forall (fun p => snd p = OLink (fst p)) ls.
Proof.
  induction ls as [|[want o] r IH]; cbn [link_items].
  - split; [constructor|reflexivity].
  - destruct o; try (split; [discriminate|intros Hf; inversion Hf as [|x y Hx _]; cbn in Hx; discriminate]).
    destruct (N.eqb dest want) eqn:E.
    + apply N.eqb_eq in E. subst dest. rewrite IH.
      split; [intros Hf; constructor; [reflexivity|exact Hf]|intros Hf; inversion Hf; assumption].
    + apply N.eqb_neq in E.
      split; [discriminate|intros Hf; inversion Hf as [|x y Hx _]; cbn in Hx; congruence].
Qed.

Lemma dirs_pass_all_dir ds : forall i, Forall (fun o => o = ODir) ds -> dirs_pass i ds = Some [].
Proof.
  induction ds as [|o r IH]; intros i Hf; [reflexivity|].
  inversion Hf as [|x y Hx Hr]; subst. cbn [dirs_pass]. apply IH. exact Hr.
Qed.

Lemma links_pass_all_match ls : forall i, Forall (fun p => snd p = OLink (fst p)) ls -> links_pass i ls = Some [].
Proof.
  induction ls as [|[want o] r IH]; intros i Hf; [reflexivity|].
  inversion Hf as [|x y Hx Hr]; subst. cbn [fst snd] in Hx. subst o. cbn [links_pass].
  rewrite N.eqb_refl. apply IH. exact Hr.
Qed.

(** the items are what C05's passes find: one [PWound] per wound, in order; [PErr] (after the
    wounds sent before it) exactly when the pass returns the I/O error *)
Lemma link_items_spec ls : forall i,
  match links_pass i ls with
  | Some wl => link_items ls = map (fun _ => PWound) wl
  | None => exists n, link_items ls = repeat PWound n ++ [PErr]
  end.
Proof.
  induction ls as [|[want o] r IH]; intros i; cbn [links_pass link_items]; [reflexivity|].
  specialize (IH (i + 1)).
  assert (Hw : match option_map (cons (mkwound WSymlink i 0 0)) (links_pass (i + 1) r) with
               | Some wl => PWound :: link_items r = map (fun _ => PWound) wl
               | None => exists n, PWound :: link_items r = repeat PWound n ++ [PErr]
               end).
  { destruct (links_pass (i + 1) r) as [wl|]; cbn [option_map map].
    - rewrite IH. reflexivity.
    - destruct IH as [n En]. exists (S n). rewrite En. reflexivity. }
  destruct o; try exact Hw.
  - destruct (N.eqb dest want); [exact IH|exact Hw].
  - exists O. reflexivity.
Qed.

Lemma dir_items_spec ds k : forall i,
  match dirs_pass i ds with
  | Some wd => dir_items ds k = map (fun _ => PWound) wd ++ k
  | None => exists n, dir_items ds k = repeat PWound n ++ [PErr]
  end.
Proof.
  induction ds as [|o r IH]; intros i; cbn [dirs_pass dir_items]; [reflexivity|].
  specialize (IH (i + 1)).
  assert (Hw : match option_map (cons (mkwound WDir i 0 0)) (dirs_pass (i + 1) r) with
               | Some wd => PWound :: dir_items r k = map (fun _ => PWound) wd ++ k
               | None => exists n, PWound :: dir_items r k = repeat PWound n ++ [PErr]
               end).
  { destruct (dirs_pass (i + 1) r) as [wd|]; cbn [option_map map app].
    - rewrite IH. reflexivity.
    - destruct IH as [n En]. exists (S n). rewrite En. reflexivity. }
  destruct o; try exact Hw.
  - exact IH.
  - exists O. reflexivity.
Qed.

(** [p_pre] of [params_core]: the wounds of both passes when both succeed; otherwise some
    wounds followed by the early return *)
Lemma pre_items_spec ds ls :
  match dirs_pass 0 ds, links_pass 0 ls with
  | Some wd, Some wl => dir_items ds (link_items ls) = map (fun _ => PWound) (wd ++ wl)
  | _, _ => exists n, dir_items ds (link_items ls) = repeat PWound n ++ [PErr]
  end.
Proof.
  pose proof (dir_items_spec ds (link_items ls) 0) as Hd. pose proof (link_items_spec ls 0) as Hl.
  destruct (dirs_pass 0 ds) as [wd|]; [|exact Hd].
  destruct (links_pass 0 ls) as [wl|].
  - rewrite Hd, Hl, map_app. reflexivity.
  - destruct Hl as [n En]. exists (length wd + n)%nat. rewrite Hd, En, repeat_app, <- app_assoc.
    f_equal. clear. induction wd as [|w r IH]; cbn; [reflexivity|]. rewrite IH. reflexivity.
Qed.

(* ---------- the file pass ---------- *)

Section Bridge.
  Context {H : Type}.
  Variable bs : Z.
  Hypothesis bs_pos : 0 < bs.
  Variable maxWound : Z.
  Variable hash : list N -> H.
  Variable heqb : H -> H -> bool.

  Notation bsn := (Z.to_nat bs).
  Notation grp := (group_of bs hash).
  Notation raw := (raw bs hash heqb).
  Notation file_of := (file_of bs maxWound hash heqb).
  Notation files_of := (files_of bs maxWound hash heqb).
  Notation file_wounds := (file_wounds bs maxWound hash heqb).
  Notation files_pass := (files_pass bs maxWound hash heqb).
  Notation validate_core := (validate_core bs maxWound hash heqb).
  Notation validate := (validate bs maxWound hash heqb).
  Notation params_core := (params_core bs maxWound hash heqb).
  Notation params_of := (params_of bs maxWound hash heqb).

  Lemma raw_kinds i signed content : Forall file_or_closed (raw i signed content).
  Proof.
    apply Forall_forall. intros w Hin.
    destruct (raw_in bs bs_pos hash heqb i signed content w Hin) as [j [b [_ Ew]]]. subst w.
    pose proof (vwnd_shape bs bs_pos hash heqb i (Z.of_nat (length signed)) (grp signed)
                           (group_consistent bs bs_pos hash signed) j b) as S.
    cbn zeta in S. apply S.
  Qed.

  Lemma kinds_healthy ws : Forall file_or_closed ws ->
    (forallb (fun w => negb (wkind_eqb (wk w) WFile)) ws = true <-> Forall (fun w => healthy w = true) ws).
  Proof.
    induction 1 as [|w r Hw _ IH]; cbn [forallb]; [split; [constructor|reflexivity]|].
    rewrite andb_true_iff, IH. unfold healthy.
    destruct Hw as [E|E]; rewrite E; cbn; split.
    - intros [X _]; discriminate.
    - intros Hf; inversion Hf as [|x y Hx Hy]; subst. rewrite E in Hx. discriminate.
    - intros [_ Hf]. constructor; [rewrite E; reflexivity|assumption].
    - intros Hf. inversion Hf; subst. split; [reflexivity|assumption].
  Qed.

  (** what reaches the consumer for a regular file, as C05 lists it, is what C16's aggregator
      emits on the markers of [file_of] (those of the complete blocks, then that of the short
      last block), FOLLOWED by the size wound.  In the protocol (and in Go) the size wound is
      sent by the worker itself between the two groups of markers and can overtake what the
      aggregator and the relay still hold: C05's list is the multiset of what is sent, not the
      channel order (Val/FileVal.v says so; its harness compares sorted lists). *)
  Lemma file_msgs_bridge i signed content :
    match file_of i signed (OFile content) with
    | FData ws1 mid ws2 =>
        map msg_of (file_wounds i signed (OFile content))
        = agg_run false (ws1 ++ ws2) ++ match mid with FMShort => [Bad] | _ => [] end
    | _ => False
    end.
  Proof.
    cbn [ValidateProtocol.file_of FileVal.file_wounds]. fold (raw i signed content).
    rewrite firstn_skipn.
    rewrite (agg_run_aggregate maxWound (raw i signed content) None (raw_kinds i signed content))
      by (intros ? X; discriminate).
    destruct (Z.of_nat (length content) =? Z.of_nat (length signed)).
    - rewrite app_nil_r. reflexivity.
    - rewrite map_app. reflexivity.
  Qed.

  (** the two groups: [length content / bs] markers before the size check, at most one after *)
  Lemma file_of_split i signed content :
    match file_of i signed (OFile content) with
    | FData ws1 _ ws2 =>
        length ws1 = (length content / bsn)%nat /\
        length ws2 = (if (length content mod bsn =? 0)%nat then 0 else 1)%nat
    | _ => False
    end.
  Proof.
    cbn [ValidateProtocol.file_of]. fold (raw i signed content).
    assert (Hlen : forall ws last, length (fmsgs_of maxWound last ws) = length ws).
    { induction ws as [|w r IH]; intros last; [reflexivity|]. cbn [fmsgs_of].
      destruct (wk w); try (cbn [length]; rewrite IH; reflexivity).
      destruct last as [l|]; [|cbn [length]; rewrite IH; reflexivity].
      destruct ((wend l <=? wstart w) && (wstart w >=? wstart l)); [cbn zeta; destruct (wend _ - wstart _ >=? maxWound)|];
        cbn [length]; rewrite IH; reflexivity. }
    assert (Hraw : length (raw i signed content) = length (blocks bsn content)).
    { rewrite (raw_eq bs bs_pos). apply wounds_from_length. }
    assert (Hb : (0 < bsn)%nat) by lia.
    set (n := length content). set (q := (n / bsn)%nat).
    assert (Hblocks : length (blocks bsn content) = (q + (if (n mod bsn =? 0)%nat then 0 else 1))%nat).
    { pose proof (Nat.div_mod n bsn ltac:(lia)) as Hdm. pose proof (Nat.mod_upper_bound n bsn ltac:(lia)) as Hm.
      fold q in Hdm.
      set (k := length (blocks bsn content)).
      assert (Hlt : forall j, (j < k)%nat <-> (j * bsn < n)%nat) by (intros j; apply blocks_length_iff; exact Hb).
      destruct (n mod bsn =? 0)%nat eqn:E.
      - apply Nat.eqb_eq in E.
        destruct (Nat.lt_trichotomy k q) as [Hc|[Hc|Hc]]; [|lia|].
        + exfalso. pose proof (proj2 (Hlt k)) as X. assert (k * bsn < n)%nat by nia. specialize (X H0). lia.
        + exfalso. pose proof (proj1 (Hlt q) Hc). nia.
      - apply Nat.eqb_neq in E.
        destruct (Nat.lt_trichotomy k (q + 1)) as [Hc|[Hc|Hc]]; [|lia|].
        + exfalso. pose proof (proj2 (Hlt k)) as X. assert (k * bsn < n)%nat by nia. specialize (X H0). lia.
        + exfalso. pose proof (proj1 (Hlt (q + 1)%nat) Hc). nia. }
    rewrite firstn_length, skipn_length, Hlen, Hraw, Hblocks. fold n q.
    destruct (n mod bsn =? 0)%nat; lia.
  Qed.

  (** per file: C16's "yields healthy markers only" = C05's "nothing reported" *)
  Lemma file_clean_iff i signed o :
    file_clean (file_of i signed o) = true <-> reported (file_wounds i signed o) = [].
  Proof.
    destruct o; try (cbn; split; discriminate).
    cbn [ValidateProtocol.file_of FileVal.file_wounds]. fold (raw i signed content).
    destruct (Z.of_nat (length content) =? Z.of_nat (length signed)); cbn [file_clean].
    - rewrite <- forallb_app, firstn_skipn, fmsgs_clean, (kinds_healthy _ (raw_kinds i signed content)).
      rewrite (reported_aggregate_nil maxWound (raw i signed content) None) by (intros ? X; discriminate).
      split; [intros Hf; split; [reflexivity|exact Hf]|intros [_ Hf]; exact Hf].
    - split; [discriminate|]. rewrite reported_app. intros E. apply app_eq_nil in E. destruct E as [_ E].
      cbn in E. discriminate.
  Qed.

  Lemma files_clean_iff fs : forall i,
    forallb file_clean (files_of i fs) = true <-> reported (files_pass i fs) = [].
  Proof.
    induction fs as [|[signed o] r IH]; intros i; cbn [ValidateProtocol.files_of FileVal.files_pass forallb].
    - split; reflexivity.
    - rewrite reported_app, andb_true_iff, file_clean_iff, IH.
      split; [intros [E1 E2]; rewrite E1, E2; reflexivity|intros E; apply app_eq_nil in E; exact E].
  Qed.

  (** on effective observations *)
  Lemma clean_core_iff cap sf cf ctx0 ds ls fs :
    clean (params_core cap sf cf ctx0 ds ls fs) = true <->
    exists ws, validate_core ds ls fs = Some ws /\ reported ws = [].
  Proof.
    unfold clean, ValidateProtocol.params_core, FileVal.validate_core. cbn [p_pre p_files]. split.
    - intros Hc. destruct (dir_items ds (link_items ls)) eqn:Ep; [|discriminate].
      apply dir_items_nil in Ep. destruct Ep as [Hd Hl]. apply link_items_nil in Hl.
      rewrite (dirs_pass_all_dir ds 0 Hd), (links_pass_all_match ls 0 Hl).
      eexists. split; [reflexivity|]. cbn [app]. apply files_clean_iff. exact Hc.
    - intros [ws [Hv Hr]].
      destruct (dirs_pass 0 ds) as [wd|] eqn:Ed; [|discriminate].
      destruct (links_pass 0 ls) as [wl|] eqn:El; [|discriminate].
      inversion Hv; subst ws. rewrite !reported_app in Hr.
      apply app_eq_nil in Hr. destruct Hr as [H1 Hr]. apply app_eq_nil in Hr. destruct Hr as [H2 H3].
      pose proof (dirs_pass_clean ds 0 wd Ed H1) as Hd. pose proof (links_pass_clean ls 0 wl El H2) as Hl.
      replace (dir_items ds (link_items ls)) with (@nil pitem).
      + apply files_clean_iff. exact H3.
      + symmetry. apply dir_items_nil. split; [exact Hd|]. apply link_items_nil. exact Hl.
  Qed.

  (** [clean] of the protocol parameters = the validator model reports nothing *)
  Theorem clean_params_iff_no_report_lemma cap sf cf ctx0 ds ls fs :
    clean (params_of cap sf cf ctx0 ds ls fs) = true <->
    exists ws, validate ds ls fs = Some ws /\ reported ws = [].
  Proof.
    unfold ValidateProtocol.params_of. cbn zeta. rewrite clean_core_iff, (validate_unfold bs maxWound hash heqb).
    reflexivity.
  Qed.

  Lemma params_core_pre_spec cap sf cf ctx0 ds ls fs :
    match dirs_pass 0 ds, links_pass 0 ls with
    | Some wd, Some wl => p_pre (params_core cap sf cf ctx0 ds ls fs) = map (fun _ => PWound) (wd ++ wl)
    | _, _ => exists n, p_pre (params_core cap sf cf ctx0 ds ls fs) = repeat PWound n ++ [PErr]
    end.
  Proof. exact (pre_items_spec ds ls). Qed.

  (* ---------- a matching directory reports nothing (C05 side) ---------- *)

  Lemma under_all_false flags anc : Forall (fun b => b = false) flags -> under flags anc = false.
  Proof.
    intros Hf. unfold under. induction anc as [|a r IH]; [reflexivity|]. cbn [existsb]. rewrite IH, orb_false_r.
    destruct (nth_in_or_default a flags false) as [Hin|E]; [|exact E].
    rewrite Forall_forall in Hf. apply Hf. exact Hin.
  Qed.

  Lemma eff_dirs_all_dir_conv ds : forall flags,
    Forall (fun b => b = false) flags -> Forall (fun p => snd p = ODir) ds ->
    Forall (fun o => o = ODir) (fst (eff_dirs flags ds)) /\ Forall (fun b => b = false) (snd (eff_dirs flags ds)).
  Proof.
    induction ds as [|[anc o] r IH]; intros flags Hfl Hd; cbn [eff_dirs]; [split; [constructor|exact Hfl]|].
    inversion Hd as [|x y Hx Hr]; subst. cbn [snd] in Hx. subst o.
    rewrite (under_all_false flags anc Hfl). cbn [eff is_dir negb].
    specialize (IH (flags ++ [false])).
    destruct (eff_dirs (flags ++ [false]) r) as [es fl]. cbn [fst snd] in *.
    destruct IH as [H1 H2]; [apply Forall_app; split; [exact Hfl|constructor; [reflexivity|constructor]]|exact Hr|].
    split; [constructor; [reflexivity|exact H1]|exact H2].
  Qed.

  Section Pristine.
    Hypothesis heqb_refl : forall h, heqb h h = true.        (* bytes.Equal(x, x) *)

    Lemma raw_pristine i signed : Forall (fun w => healthy w = true) (raw i signed signed).
    Proof.
      apply Forall_forall. intros w Hin.
      destruct (raw_in bs bs_pos hash heqb i signed signed w Hin) as [j [b [Hb Ew]]]. subst w.
      unfold validate_as_wound. rewrite (group_nth bs hash signed j b Hb), heqb_refl. reflexivity.
    Qed.

    Lemma file_pristine i signed : reported (file_wounds i signed (OFile signed)) = [].
    Proof.
      cbn [FileVal.file_wounds]. fold (raw i signed signed). rewrite Z.eqb_refl.
      apply (reported_aggregate_nil maxWound (raw i signed signed) None); [intros ? X; discriminate|].
      split; [reflexivity|apply raw_pristine].
    Qed.

    Lemma files_pristine fs : forall i,
      Forall (fun p => snd p = OFile (fst p)) fs -> reported (files_pass i fs) = [].
    Proof.
      induction fs as [|[signed o] r IH]; intros i Hf; [reflexivity|].
      inversion Hf as [|x y Hx Hr]; subst. cbn [fst snd] in Hx. subst o.
      cbn [FileVal.files_pass]. rewrite reported_app, file_pristine, (IH (i + 1) Hr). reflexivity.
    Qed.

    (** the converse of [never_false_valid]: validation of a directory in which every signed
        directory is a directory, every symlink has the signed destination and every file is a
        regular file with the signed content succeeds and reports nothing *)
    Theorem matching_reports_nothing ds ls fs :
      matching ds ls fs -> exists ws, validate ds ls fs = Some ws /\ reported ws = [].
    Proof.
      intros [Hd [Hl Hf]]. rewrite (validate_unfold bs maxWound hash heqb).
      destruct (eff_dirs_all_dir_conv ds [] ltac:(constructor) Hd) as [He Hfl].
      set (fl := snd (eff_dirs [] ds)) in *.
      unfold FileVal.validate_core.
      rewrite (dirs_pass_all_dir _ 0 He).
      rewrite (links_pass_all_match _ 0).
      - eexists. split; [reflexivity|]. cbn [app]. apply files_pristine.
        apply Forall_forall. intros [signed o] Hin. apply in_map_iff in Hin. destruct Hin as [[[anc s0] o0] [E Hin]].
        rewrite Forall_forall in Hf. specialize (Hf _ Hin). cbn in Hf. subst o0.
        rewrite (under_all_false fl anc Hfl) in E. cbn [eff] in E. inversion E; subst. reflexivity.
      - apply Forall_forall. intros [want o] Hin. apply in_map_iff in Hin. destruct Hin as [[[anc w0] o0] [E Hin]].
        rewrite Forall_forall in Hl. specialize (Hl _ Hin). cbn in Hl. subst o0.
        rewrite (under_all_false fl anc Hfl) in E. cbn [eff] in E. inversion E; subst. reflexivity.
    Qed.
  End Pristine.

  (* ---------- end to end ---------- *)

  Lemma params_of_cons cap sf cf ctx0 ds ls fs : p_cons (params_of cap sf cf ctx0 ds ls fs) = guardian.
  Proof. reflexivity. Qed.
  Lemma params_of_closefail cap sf cf ctx0 ds ls fs : p_closefail (params_of cap sf cf ctx0 ds ls fs) = cf.
  Proof. reflexivity. Qed.
  Lemma params_of_startfail cap sf cf ctx0 ds ls fs : p_startfail (params_of cap sf cf ctx0 ds ls fs) = sf.
  Proof. reflexivity. Qed.
  Lemma params_of_ctx0 cap sf cf ctx0 ds ls fs : p_ctx0 (params_of cap sf cf ctx0 ds ls fs) = ctx0.
  Proof. reflexivity. Qed.
  Lemma params_of_cap cap sf cf ctx0 ds ls fs : p_cap (params_of cap sf cf ctx0 ds ls fs) = cap.
  Proof. reflexivity. Qed.

  (** C16's [no_false_valid] composed with C05's [never_false_valid] *)
  Theorem failfast_nil_means_directory_matches_lemma :
    (forall a b, heqb (hash a) (hash b) = true -> a = b) ->
    forall ds ls fs (cap : nat) (startfail ctx0 : bool) (acts : list action) (s : state),
      let p := params_of cap startfail false ctx0 ds ls fs in
      run p acts (init p) = Some s -> s_main s = MRet -> s_ret s = RNil ->
      matching ds ls fs.
  Proof.
    intros hash_inj ds ls fs cap sf ctx0 acts s p Hrun Hm Hr.
    assert (Hc : clean p = true).
    { apply (no_false_valid_lemma p acts s); [reflexivity|reflexivity|exact Hrun|exact Hm|exact Hr]. }
    apply clean_params_iff_no_report_lemma in Hc. destruct Hc as [ws [Hv Hrep]].
    exact (never_false_valid_full bs bs_pos maxWound hash heqb hash_inj ds ls fs ws Hv Hrep).
  Qed.

  (** C16's [clean_uninterrupted_nil] composed with [matching_reports_nothing] *)
  Theorem matching_directory_uninterrupted_nil_lemma :
    (forall h, heqb h h = true) ->
    forall ds ls fs (cap : nat) (acts : list action) (s : state),
      let p := params_of cap false false false ds ls fs in
      matching ds ls fs -> ~ In ACancel acts ->
      run p acts (init p) = Some s -> s_main s = MRet -> s_ret s = RNil.
  Proof.
    intros heqb_refl ds ls fs cap acts s p Hmatch Hnc Hrun Hm.
    assert (Hc : clean p = true)
      by (apply clean_params_iff_no_report_lemma; apply (matching_reports_nothing heqb_refl); exact Hmatch).
    apply (clean_uninterrupted_nil_lemma p acts s); try reflexivity; assumption.
  Qed.

  (** ... and Validate does return: every run of the protocol on these parameters is bounded and
      never stuck before main returns (C16's [validate_terminates] instantiated) *)
  Theorem failfast_validate_returns_lemma :
    forall ds ls fs (cap : nat) (startfail ctx0 : bool) (acts : list action) (s : state),
      let p := params_of cap startfail false ctx0 ds ls fs in
      (1 <= cap)%nat -> run p acts (init p) = Some s ->
      (length acts <= measure (init p))%nat /\
      (s_main s = MRet \/ exists a s', a <> ACancel /\ step p a s = Some s').
  Proof.
    intros ds ls fs cap sf ctx0 acts s p Hcap Hrun.
    apply (validate_terminates_lemma p acts s); [exact Hcap|reflexivity|exact Hrun].
  Qed.
End Bridge.
