(** Models that were transcribed more than once agree - part 1: the weak hash and the per-file
    block signature.

    wsync/hashes.go [βhash] is modelled by Sig/Weak.v [beta_hash] (C04) and by Wsync/Weak.v
    [bhash] / [weak_of] (C11, C08); wsync/hashes.go [CreateSignature] by Sig/Sign.v
    [create_signature] / [sign_file] (C04) and by Wsync/Sign.v [sign_file] (C11).  Each
    transcription has its own correspondence check; here they are proved equal.

    Both transcriptions now follow Go's [uint32] arithmetic for EVERY block length.  (History:
    Sig/Weak.v used to compute the factor [uint32(len(block)-1) - uint32(i) + 1] with [N]'s
    truncated subtraction where Go's [uint32] subtraction wraps around, so that the two models
    differed on a block of 2^32 + 1 bytes - the former [weak_hash_models_differ_beyond_u32]; the
    model was repaired ([Sig.Weak.sub32]) and that example, now false, is deleted.  The factor
    is [(len - i) mod 2^32] in both models and in Go.)  Proofs only. *)
From Coq Require Import ZifyBool ZifyNat ZifyN.
From Wharf Require Import Base.Prelude Base.BlocksLemmas.
From Wharf Require Sig.Weak Sig.WeakProofs Sig.Scan Sig.ScanProofs Sig.Sign Sig.SignProofs Wsync.Weak Wsync.Library Wsync.Sign.
Local Open Scope N_scope.

Module SW := Wharf.Sig.Weak.
Module WW := Wharf.Wsync.Weak.
Module SS := Wharf.Sig.Sign.
Module WSg := Wharf.Wsync.Sign.
Module WL := Wharf.Wsync.Library.

(* ------------------------------------------------------------------ pair 1: βhash *)

Definition P32 : N := 4294967296.

Lemma su32_mod x : SW.u32 x = x mod P32.
Proof. unfold SW.u32. change 4294967295 with (N.ones 32). rewrite N.land_ones. reflexivity. Qed.

Lemma wu32_mod x : WW.u32 x = x mod P32.
Proof. unfold WW.u32. change 4294967295 with (N.ones 32). rewrite N.land_ones. reflexivity. Qed.

Lemma P32_nz : P32 <> 0.
Proof. discriminate. Qed.

(** one iteration of the [for i, val := range block] loop: the two transcriptions compute the
    same [a] and the same [b] whenever [i < len] - no upper bound on [len] *)
Lemma beta_step_a a v : SW.u32 (a + SW.u32 v) = WW.u32 (a + v).
Proof. rewrite ?su32_mod, ?wu32_mod. apply N.add_mod_idemp_r, P32_nz. Qed.

Lemma beta_step_b len i b v :
  i < len ->
  SW.u32 (b + SW.u32 (SW.u32 (SW.sub32 (SW.u32 (len - 1)) (SW.u32 i) + 1) * SW.u32 v)) =
  WW.u32 (b + WW.u32 ((len - i) * v)).
Proof.
  intros Hi. rewrite (WeakProofs.beta_factor len i Hi). change WeakProofs.M32 with P32.
  rewrite ?su32_mod, ?wu32_mod.
  rewrite N.mul_mod_idemp_l, N.mul_mod_idemp_r by apply P32_nz.
  reflexivity.
Qed.

Lemma beta_loops_agree (l : list N) : forall len i a b,
  i + N.of_nat (length l) = len ->
  SW.beta_loop len i a b l = WW.bhash_loop len i l a b.
Proof.
  induction l as [|v r IH]; intros len i a b Hi; [reflexivity|].
  cbn [SW.beta_loop WW.bhash_loop]. cbn [length] in Hi.
  rewrite beta_step_a, beta_step_b by lia.
  apply IH; lia.
Qed.

Lemma low16_lt x : SW.low16 x < 65536.
Proof.
  unfold SW.low16. change 65535 with (N.ones 16). rewrite N.land_ones.
  apply N.mod_lt. discriminate.
Qed.

(** βhash: the C04 transcription equals the C11 transcription on EVERY block.  No hypothesis on
    the length of the block nor on the byte values. *)
Theorem weak_hash_models_agree_lemma (block : list N) :
  SW.beta_hash block = WW.weak_of block /\
  WW.bhash block = (SW.beta_hash block, SW.low16 (fst (SW.beta_loop (N.of_nat (length block)) 0 0 0 block)),
                    SW.low16 (snd (SW.beta_loop (N.of_nat (length block)) 0 0 0 block))).
Proof.
  unfold SW.beta_hash, WW.weak_of, WW.bhash.
  rewrite (beta_loops_agree block (N.of_nat (length block)) 0 0 0) by lia.
  destruct (WW.bhash_loop (N.of_nat (length block)) 0 block 0 0) as [a b]. cbn [fst snd].
  change (WW.modM a) with (SW.low16 a). change (WW.modM b) with (SW.low16 b).
  change WW.M16 with SW.M16.
  pose proof (low16_lt a) as Ha. pose proof (low16_lt b) as Hb.
  assert (E : SW.u32 (SW.low16 a + SW.u32 (SW.M16 * SW.low16 b)) = SW.low16 a + SW.M16 * SW.low16 b).
  { rewrite !su32_mod. unfold SW.M16, P32 in *.
    rewrite (N.mod_small (65536 * SW.low16 b)) by lia. apply N.mod_small. lia. }
  rewrite E. split; reflexivity.
Qed.

(** the loop bodies at the former point of disagreement, [len = 2^32 + 1], index 1:
    [uint32(len-1) = 0], [0 - uint32(1)] wraps to 2^32 - 1, [+ 1] wraps back to 0 - both loops
    multiply the byte by [(2^32 + 1 - 1) mod 2^32 = 0], as Go does.  (A block of 2^32 + 1 bytes
    cannot be written down; the statement is about one iteration.) *)
Lemma weak_hash_loops_agree_beyond_u32_example :
  SW.beta_loop 4294967297 1 0 0 [1] = (1, 0) /\ WW.bhash_loop 4294967297 1 [1] 0 0 = (1, 0).
Proof. split; vm_compute; reflexivity. Qed.

(* ------------------------------------------------------------------ pair 2: CreateSignature *)

(** a BlockHash of the C11 model as a BlockHash of the C04 model (same five fields) *)
Definition bh_of_ent {H : Type} (e : WL.ent H) : SS.blockhash H :=
  SS.mkbh (WL.efile e) (WL.eidx e) (WL.eweak e) (WL.estrong e) (WL.eshort e).

Lemma blocks_aux_len_le {A} (bs : nat) : forall fuel (l b : list A),
  (0 < bs)%nat -> In b (blocks_aux fuel bs l) -> (length b <= bs)%nat.
Proof.
  induction fuel as [|f IH]; intros l b Hbs Hin; [destruct Hin|].
  cbn [blocks_aux] in Hin. destruct l as [|x l']; [destruct Hin|].
  destruct Hin as [<-|Hin].
  - rewrite firstn_length. lia.
  - eapply IH; eassumption.
Qed.

Lemma blocks_aux_zero {A} : forall fuel (l b : list A), In b (blocks_aux fuel 0 l) -> b = [].
Proof.
  induction fuel as [|f IH]; intros l b Hin; [destruct Hin|].
  cbn [blocks_aux] in Hin. destruct l as [|x l']; [destruct Hin|].
  destruct Hin as [<-|Hin]; [reflexivity|]. eapply IH; eassumption.
Qed.

(** every block of [blocks bs l] has at most [max bs 0] elements (for [bs = 0] they are empty) *)
Lemma blocks_len_le {A} (bs : nat) (l b : list A) : In b (blocks bs l) -> (length b <= bs)%nat.
Proof.
  unfold blocks. intros Hin. destruct bs as [|k].
  - apply blocks_aux_zero in Hin. subst b. cbn [length]. lia.
  - eapply blocks_aux_len_le; [|eassumption]. lia.
Qed.

Section SignAgree.
  Variable H : Type.
  Variable strong : list N -> H.
  Variable bs : N.

  Lemma hash_block_agrees f i (b : list N) :
    bh_of_ent (WSg.hash_block strong bs f i b) = SS.hash_block bs SW.beta_hash strong f i b.
  Proof.
    unfold WSg.hash_block, SS.hash_block, bh_of_ent. cbn.
    rewrite (proj1 (weak_hash_models_agree_lemma b)). reflexivity.
  Qed.

  Lemma hash_blocks_agree f : forall (bl : list (list N)) i,
    map bh_of_ent (WSg.sign_blocks strong bs f i bl) = SS.hash_blocks bs SW.beta_hash strong f i bl.
  Proof.
    induction bl as [|b r IH]; intros i; [reflexivity|].
    cbn [WSg.sign_blocks SS.hash_blocks map].
    rewrite hash_block_agrees, IH. reflexivity.
  Qed.

  (** the signature of one file: ShortSize, block indices, the synthetic hash of the empty
      file, weak and strong hashes - the C11 model and the C04 reference are the same list *)
  Lemma sign_file_agrees f (content : list N) :
    map bh_of_ent (WSg.sign_file strong bs f content) = SS.sign_file bs SW.beta_hash strong f content.
  Proof.
    unfold WSg.sign_file, SS.sign_file, WSg.file_blocks.
    destruct content as [|x l].
    - change (blocks (N.to_nat bs) (@nil N)) with (@nil (list N)). cbn [WSg.sign_blocks map].
      rewrite hash_block_agrees. reflexivity.
    - destruct (blocks (N.to_nat bs) (x :: l)) as [|b0 r] eqn:E.
      + (* a non-empty list always has a first block *)
        unfold blocks in E. cbn [length blocks_aux] in E. discriminate E.
      + apply hash_blocks_agree.
  Qed.

  Lemma sign_all_agrees : forall (olds : list (list N)) f,
    map bh_of_ent (WSg.sign_all strong bs f olds) = SS.sign_all_from bs SW.beta_hash strong f olds.
  Proof.
    induction olds as [|o r IH]; intros f; [reflexivity|].
    cbn [WSg.sign_all SS.sign_all_from]. rewrite map_app, sign_file_agrees, IH. reflexivity.
  Qed.
End SignAgree.

(** CreateSignature: C11's [sign_file] is what C04's model of the CODE ([create_signature]: the
    bufio.Scanner loop over ANY chunking of the file whose runs of empty reads stay below the
    scanner's tolerance, [hashBlock] per token, the synthetic empty block) hands to [writeHash];
    and the whole signature of a container likewise.  (The former hypothesis [bs <= 2^32] was
    only needed by the weak hash of Sig/Weak.v before its repair.) *)
Theorem create_signature_models_agree_lemma :
  forall (H : Type) (strong : list N -> H) (bs : N) (maxE : nat),
    0 < bs ->
    (forall (fileIndex : N) (chunks : list (list N)) (eofWithLast : bool),
       Sig.ScanProofs.runs_ok maxE maxE chunks ->
       SS.create_signature bs SW.beta_hash strong maxE fileIndex chunks eofWithLast =
       (map bh_of_ent (WSg.sign_file strong bs fileIndex (concat chunks)), Sig.Scan.SEof)) /\
    (forall (fileIndex : N) (content : list N),
       map bh_of_ent (WSg.sign_file strong bs fileIndex content) = SS.sign_file bs SW.beta_hash strong fileIndex content) /\
    (forall (olds : list (list N)),
       map bh_of_ent (WSg.sign_all strong bs 0 olds) = SS.sign_all bs SW.beta_hash strong olds).
Proof.
  intros H strong bs maxE Hpos. split; [|split].
  - intros fileIndex chunks eofl Hr.
    rewrite (@SignProofs.create_signature_spec H bs Hpos SW.beta_hash strong maxE fileIndex chunks eofl Hr).
    rewrite sign_file_agrees. reflexivity.
  - intros. apply sign_file_agrees.
  - intros. apply sign_all_agrees.
Qed.
