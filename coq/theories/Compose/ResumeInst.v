(** C03 x C13 x C14 - in-place application (overlay bowl) with both cross-property hypotheses
    of [resume_equiv] discharged:
    - [resume_equiv_overlay_lemma]: the entry writers are the overlay bowl's
      ([freshEntryWriter] for new paths, the overlay entry writer of Compose/ResumeOverlay.v
      for paths of the old build); [writer_ok] is proved (Compose/ResumeOverlayProofs.v, from
      C14), the reader is still abstract ([H_wire] stays);
    - [resume_equiv_instantiated_lemma]: in addition the reader is the wire reader of C13 over
      the framed message list (Compose/ResumeWire.v); what is left are hypotheses about the
      environment: the overlay message codec ([dec (enc o ++ rest)]), the source contract
      [beh_sound], the old files having their declared sizes, [0 < bufSize]; and about the
      patch: the uninterrupted run completes and respects the declared sizes.  (The protobuf
      round trip of the patch messages and bodies below 2^56 bytes are what makes the wire
      reader yield the message list - [wire_refines], [src_resume_w_yields] - they are not
      needed for where [Resume] restarts.) *)
From Wharf Require Import Base.Prelude Overlay.Writer Overlay.Patch
  Patch.Resume Patch.ResumeProofs Patch.PlainWriter Patch.OverlayBowl
  Wire.Frame Wire.FrameProofs Wire.Reader Wire.ReaderProofs
  Compose.ResumeWire Compose.ResumeWireProofs Compose.ResumeWireInst
  Compose.ResumeOverlay Compose.ResumeOverlayProofs.

Section OverlayBowlInst.
  Variables (bufSize threshold : N).
  Variable enc : Writer.op -> list byte.
  Variable dec : list byte -> option (Writer.op * list byte).
  Variable magic : list byte.
  Variable blocksize : N.
  Variables tsize ssize : N -> N.
  Variable nfiles : N.
  Variable oldt : N -> list byte.     (* the old build's files by target index *)
  Variable oldp : N -> list byte.     (* the old build's file at the path of source file f (overlay files) *)
  Variable range_data : N -> N -> N -> list byte.
  Variable bs_data : N -> Z -> list byte -> list byte -> list byte.
  Variable is_overlay : N -> bool.
  Variable emit : nat -> bool.
  Variable src_resume : nat -> nat -> option nat.

  Local Notation WSb := (N + ew_state)%type.
  Local Notation WCKb := (unit + ew_ckpt)%type.
  Local Notation dlenb := (fun d : list byte => N.of_nat (length d)).

  (** [overlayBowl.GetWriter] *)
  Definition ob_open := d_open (list byte) N ew_state unit ew_ckpt is_overlay p_open (ow_open enc dec magic oldp).
  Definition ob_write := d_write (list byte) (list byte) N ew_state p_write (ow_write bufSize threshold enc).
  Definition ob_save := d_save (list byte) N ew_state unit ew_ckpt p_save (ow_save bufSize threshold enc).
  Definition ob_final := d_final (list byte) N ew_state p_final (ow_final bufSize threshold enc).
  Definition ob_tell := d_tell N ew_state p_tell ow_tell.
  Definition ob_result := d_result (list byte) (list byte) is_overlay p_result (ow_result dec magic oldp).
  Definition ob_raw_ok := d_raw_ok (list byte) is_overlay (p_raw_ok ssize) ow_raw_ok.
  Definition ob_covers := d_covers (list byte) unit ew_ckpt is_overlay p_covers ow_covers.

  Definition ob_run (sched stop : nat -> bool) :=
    Resume.run (list byte) (list byte) WSb WCKb dlenb blocksize tsize ssize nfiles range_data bs_data
               ob_open ob_write ob_save ob_final ob_tell false is_overlay (p_copy_old oldt) emit sched stop.
  Definition ob_start (d0 : N -> list byte) := start_state (list byte) WSb WCKb false (p_prepare ssize) d0.
  Definition ob_resumed (sched stop : nat -> bool) :=
    run_resumed (list byte) (list byte) WSb WCKb dlenb blocksize tsize ssize nfiles range_data bs_data
                ob_open ob_write ob_save ob_final ob_tell false is_overlay (p_prepare ssize) (p_copy_old oldt) emit src_resume sched stop.
  Definition ob_sized :=
    sized_run (list byte) (list byte) WSb WCKb dlenb blocksize tsize ssize nfiles range_data bs_data
              ob_open ob_write ob_save ob_final ob_tell false is_overlay (p_copy_old oldt) emit.
  Definition ob_offered :=
    offered (list byte) (list byte) WSb WCKb dlenb blocksize tsize ssize nfiles range_data bs_data
            ob_open ob_write ob_save ob_final ob_tell false is_overlay (p_prepare ssize) (p_copy_old oldt) emit src_resume
            ob_raw_ok ob_covers.
  (** the crash model: the in-progress stage file keeps what its checkpoint covers (overlay:
      the first OverlayOffset bytes; staged new file: the first Offset bytes), the stage files
      of completed entries are intact, everything else is arbitrary (staged new files not
      longer than their final size) *)
  Definition ob_crash := crash_ok (list byte) WCKb false (p_prepare ssize) ob_raw_ok ob_covers.
  (** Commit, per source file: move / Patch + truncate / transposed old file *)
  Definition ob_commit := commit (list byte) (list byte) WSb WCKb nfiles ob_result false oldt.

  Hypothesis HbufSize : (0 < bufSize)%N.
  Hypothesis dec_enc : forall o rest, dec (enc o ++ rest) = Some (o, rest).
  Hypothesis Hold : forall t, length (oldt t) = N.to_nat (tsize t).

  Lemma resume_equiv_overlay_lemma :
    (forall off src, src <= off -> src_resume off src = Some off) ->
    forall msgs d0 Sf,
    ob_run (fun _ => false) (fun _ => false) (ob_start d0) msgs = Finished _ _ _ Sf ->
    ob_sized (ob_start d0) msgs ->
    (forall g, ob_raw_ok g (d0 g)) ->
    forall ck d d' sched stop, ob_offered msgs d0 ck d -> ob_crash ck d d' ->
    match ob_resumed sched stop ck d' msgs with
    | Finished _ _ _ sf => ob_commit sf = ob_commit Sf
    | Stopped _ _ _ _ => exists j, stop j = true
    | _ => False
    end.
  Proof.
    intros H_wire msgs d0 Sf Hideal Hsized Hd0 ck d d' sched stop Hoff Hcrash.
    exact (resume_equiv_lemma _ _ _ _ _ _ blocksize _ _ nfiles range_data bs_data _ _ _ _ _ _ _ is_overlay _ _ _ emit src_resume
             _ _ _ _ _ _ _ (overlay_bowl_instance_ok bufSize threshold enc dec magic HbufSize dec_enc oldp is_overlay tsize ssize oldt Hold)
             H_wire msgs d0 Sf Hideal Hsized Hd0 ck d d' sched stop Hoff Hcrash).
  Qed.
End OverlayBowlInst.

(** both instances at once *)
Section Instantiated.
  Variables (bufSize threshold : N).
  Variable enc : Writer.op -> list byte.
  Variable dec : list byte -> option (Writer.op * list byte).
  Variable magic : list byte.
  Variable blocksize : N.
  Variables tsize ssize : N -> N.
  Variable nfiles : N.
  Variable oldt oldp : N -> list byte.
  Variable range_data : N -> N -> N -> list byte.
  Variable bs_data : N -> Z -> list byte -> list byte -> list byte.
  Variable is_overlay : N -> bool.
  Variable marshal : msg (list byte) -> list byte.
  Variable beh : behaviour.
  Variable cap0 : N.

  Hypothesis HbufSize : (0 < bufSize)%N.
  Hypothesis dec_enc : forall o rest, dec (enc o ++ rest) = Some (o, rest).
  Hypothesis Hold : forall t, length (oldt t) = N.to_nat (tsize t).
  Hypothesis Hbeh : beh_sound beh.

  Lemma resume_equiv_instantiated_lemma :
    forall msgs,
    let emit := emit_w marshal msgs beh in
    let src_resume := src_resume_w marshal msgs beh cap0 in
    forall d0 Sf,
    ob_run bufSize threshold enc dec magic blocksize tsize ssize nfiles oldt oldp range_data bs_data is_overlay emit
           (fun _ => false) (fun _ => false) (ob_start ssize d0) msgs = Finished _ _ _ Sf ->
    ob_sized bufSize threshold enc dec magic blocksize tsize ssize nfiles oldt oldp range_data bs_data is_overlay emit (ob_start ssize d0) msgs ->
    (forall g, ob_raw_ok ssize is_overlay g (d0 g)) ->
    forall ck d d' sched stop,
    ob_offered bufSize threshold enc dec magic blocksize tsize ssize nfiles oldt oldp range_data bs_data is_overlay emit src_resume msgs d0 ck d ->
    ob_crash ssize is_overlay ck d d' ->
    match ob_resumed bufSize threshold enc dec magic blocksize tsize ssize nfiles oldt oldp range_data bs_data is_overlay emit src_resume
                     sched stop ck d' msgs with
    | Finished _ _ _ sf => ob_commit dec magic nfiles oldt oldp is_overlay sf = ob_commit dec magic nfiles oldt oldp is_overlay Sf
    | Stopped _ _ _ _ => exists j, stop j = true
    | _ => False
    end.
  Proof.
    intros msgs emit src_resume d0 Sf Hideal Hsized Hd0 ck d d' sched stop Hoff Hcrash.
    exact (resume_equiv_wire_lemma _ _ _ _ _ blocksize _ _ nfiles range_data bs_data _ _ _ _ _ _ is_overlay _ _ _ _
             marshal beh Hbeh cap0 msgs d0 _ _ _ _ _ _ _ _
             (overlay_bowl_instance_ok bufSize threshold enc dec magic HbufSize dec_enc oldp is_overlay tsize ssize oldt Hold)
             Sf Hideal Hsized Hd0 ck d d' sched stop Hoff Hcrash).
  Qed.
End Instantiated.
