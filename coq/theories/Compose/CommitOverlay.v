(** C02 x C14 - the overlay writer and [Patch] + truncate of pwr/overlay (models Overlay/Writer.v,
    Overlay/Patch.v, Overlay/Codec.v) as the instance of the two places where the overlay bowl of
    pwr/bowl/bowl_overlay.go (model Bowl/OverlayCommit.v) uses them.  Definitions only; the proofs
    are in Compose/CommitOverlayProofs.v, the executed instance in Compose/CommitOverlayExample.v.

    The two models meet as follows.
    - C02 keeps a stage overlay as the list of the operations it carries ([SOverlay (ops : list
      ovop)], [ovop] = SKIP n | FRESH data: what the harness' [decodeOverlay] extracts from the
      stage file - zero-length operations and the end marker dropped), produced by an abstract
      [mk_overlay cur new] and consumed by [apply_ops ops cur] (sequential writes on the old
      content, result cut at the final position).
    - C14 has the stage file as bytes: magic, header, messages, end marker, written by
      [NewOverlayWriter(r, 0, f, 0)] + [Write]s + [Flush]es + [Finalize]; [Patch] decodes it
      message by message onto a cursor over the old file, then the file is truncated at the
      cursor.

    [decode_file] is the decoding that both [Patch] and the harness perform, [conv_ops] the
    translation of C14's operations into C02's; [mk_overlay_c14] is then C02's [mk_overlay]. *)
From Wharf Require Import Base.Prelude Bowl.FSmini Bowl.OverlayCommit.
From Wharf Require Import Overlay.Writer Overlay.Patch Overlay.Codec.
Local Open Scope N_scope.

(** one message of the overlay file as C02 sees it (zero-length operations change nothing and
    are dropped, as in the harness' [decodeOverlay]; the header is an empty message = SKIP 0) *)
Definition conv_op (o : Writer.op) : list OverlayCommit.ovop :=
  match o with
  | Writer.Skip n => if n =? 0 then [] else [OverlayCommit.Skip n]
  | Writer.Fresh d => match d with [] => [] | _ => [OverlayCommit.Fresh d] end
  | Writer.EndMark => []
  end.

Definition conv_ops (ops : list Writer.op) : list OverlayCommit.ovop := flat_map conv_op ops.

Section Decode.
  Variable dec : list byte -> option (Writer.op * list byte).
  Variable magic : list byte.

  (** the messages of an overlay file up to and including the end marker, with the fuel of
      [Patch.patch]; [None] when the magic is wrong, a message does not decode, or the stream
      ends before an end marker *)
  Definition decode_file (file : list byte) : option (list Writer.op) :=
    match expect_magic magic file with
    | None => None
    | Some s => decode_all dec (S (length_tr s)) s
    end.

  (** the stage overlay of C02 that a stage file stands for *)
  Definition stage_ops (file : list byte) : list OverlayCommit.ovop :=
    match decode_file file with Some ops => conv_ops ops | None => [] end.

  (** [applyOverlays] on one file: [ctx.Patch(stage file, old file)], [Truncate(position)] *)
  Definition apply_overlay_file (cur file : list byte) : option (list byte) :=
    match patch dec magic cur file with POk c => Some c | _ => None end.
End Decode.

Section Instance.
  Variables (bufSize threshold : N).

  (** [overlayEntryWriter]: [Resume(nil)] opens the stage file O_CREATE|O_WRONLY (no truncation:
      [file0] is whatever was there), seeks the old file to 0, [NewOverlayWriter(r, 0, f, 0)];
      then the [Write]/[Flush] calls [evs]; then [Finalize].  Result: the stage file. *)
  Definition overlay_file (cur : list byte) (evs : list event) (file0 : list byte) : list byte :=
    let st := finalize bufSize threshold Codec.enc
                (run_events bufSize threshold Codec.enc (new_writer Codec.enc Codec.magic cur 0 0) evs) in
    write_at file0 0 (session_bytes st).

  (** how the patcher's output for a file is cut into [Write] calls (with [Flush]es anywhere),
      and what the stage file held before: both may depend on the old and the new content *)
  Variable sched : list N -> list N -> list event.
  Variable junk : list N -> list N -> list byte.

  (** the instance of C02's [mk_overlay] *)
  Definition mk_overlay_c14 (cur new : list N) : list OverlayCommit.ovop :=
    stage_ops Codec.dec Codec.magic (overlay_file cur (sched cur new) (junk cur new)).
End Instance.
