(** Index: Go functions that were transcribed into Gallina more than once, and the theorems that
    say the transcriptions agree (or where exactly they differ).  Every transcription is tied
    to the Go code by the correspondence check of its own property; the theorems below tie the
    transcriptions to each other.  Statements: Properties/C04.v (pairs 1, 2, 7, 8), C10.v (pairs
    3, 5, 6 and the decoding tables), C03.v (pairs 5, 6), C13.v (pair 4).

    pair                              models                                   theorem (file)
    ------------------------------------------------------------------------------------------------------
    1 βhash                           Sig/Weak.v (C04) / Wsync/Weak.v (C11)    weak_hash_models_agree_lemma (every block
                                                                               length), weak_hash_loops_agree_beyond_u32_example
                                                                               (ModelsAgreeHashProofs)
    2 CreateSignature                 Sig/Sign.v (C04) / Wsync/Sign.v (C11)    create_signature_models_agree_lemma
                                                                               (ModelsAgreeHashProofs)
    3 ComputeNumBlocks,               Patch/Stream.v, Patch/Malformed.v,       num_blocks_models_agree_lemma,
      ComputeBlockSize, opSize,       Patch/Resume.v, Sig/SigFile.v,           num_blocks_models_agree_sizes_lemma,
      blocks, pwrite                  Wsync/Spec.v, Val/VPool.v,               block_size_models_agree_lemma,
                                      Wsync/Account.v, Patch/Patcher.v,        compute_block_size_is_block_length,
                                      Wsync/Apply.v, Bowl/Fresh.v,             pwrite_models_agree_lemma,
                                      Patch/PlainWriter.v, Base/Prelude.v      num_blocks_negative_size_differs_lemma,
                                                                               block_size_negative_size_differs_lemma
                                                                               (ModelsAgreeBlocksProofs)
    4 PutUvarint / ReadUvarint        Wire/Uvarint.v (C13) / Overlay/Codec.v   uvarint_models_agree_lemma,
                                      (C14)                                    uvarint_decoders_differ_on_overflow_lemma
                                                                               (ModelsAgreeVarintProofs)
    5 bsdiff Apply                    Bsdiff/Patch.v (C12), Patch/Patcher.v    ctrl_loop_agrees, process_bsdiff_agrees
                                      (C01), Patch/Malformed.v (C10),          (ModelsAgreeMalformedProofs);
                                      Patch/Resume.v (C03)                     ctrl_loop_models_agree_c03,
                                                                               process_bsdiff_models_agree_c03
                                                                               (ModelsAgreeResumeProofs);
                                                                               bsdiff_series_c12_c10_lemma,
                                                                               bsdiff_series_c12_c03_lemma,
                                                                               apply_ctrl_is_bs_data (ModelsAgreeBsdiffProofs);
                                                                               C12 / C01: Compose/OptimizeApplyProofs.v
    6 the rsync relay loop,           Patch/Patcher.v (C01),                   op_agrees, relay_agrees,
      processRsync, skipFile,         Patch/Malformed.v (C10),                 process_rsync_agrees, skip_file_agrees,
      Resume                          Patch/Resume.v (C03)                     run_files_agrees, patcher_models_agree_lemma,
                                                                               relay_differs_on_wrapping_seek_lemma
                                                                               (ModelsAgreeMalformedProofs);
                                                                               relay_models_agree_c03,
                                                                               process_rsync_models_agree_c03, diff_*
                                                                               (ModelsAgreeResumeProofs)
      proto3 decoding tables          Patch/Reinterp.v (C17, C01) /            decoders_agree_lemma
                                      Patch/Malformed.v (C10)                  (ModelsAgreeMalformedProofs)
    7 block validation                Val/VPool.v only (no re-definition);     validate_file_models_agree_lemma (every
      doOne                           Sig/Validate.v (C04) / Val/FileVal.v     content on disk), group_models_agree_lemma,
                                      (C05)                                    validate_file_longer_file_example
                                                                               (ModelsAgreeValidateProofs)

    8 ComputeHashInfo                 Sig/HashInfo.v (C04) /                   hash_info_models_agree_lemma (every input,
                                      Patch/Malformed.v (C10)                  the code as it is), hash_info_missing_hashes_example
                                                                               (ModelsAgreeHashInfoProofs)

    Deleted because they became FALSE when three C04 model files were repaired to follow the
    current Go code (the differences had been found by this very table):
      weak_hash_loops_differ_beyond_u32_lemma, weak_hash_models_differ_beyond_u32_lemma (pair 1):
        Sig/Weak.v now models the wrapping [uint32] subtraction ([sub32]); agreement holds for every
        block length and [weak_hash_models_agree] lost its "at most 2^32 bytes" hypothesis;
      validate_file_differs_on_longer_file_lemma (pair 7): Sig/Validate.v now orders the bounds of
        the size wound (repo commit ccb6315); [validate_file_models_agree] lost its "not longer
        than signed" hypothesis;
      hash_info_models_differ_on_missing_hashes_lemma (pair 8): Sig/HashInfo.v now returns [HiErr]
        for missing hashes (repo commit 6a06397), [HiPanic] no longer exists;
        [hash_info_models_agree] equates the outcome classes for every input.
    The inputs of the three former counterexamples are kept as examples of agreement.

    Duplicates seen and NOT treated here (each still tied to Go by its own correspondence):
    Patch/Malformed.v [read_signature] vs Sig/SigFile.v [read_signature]; Patch/Malformed.v [analyze] / [optimize_pass] vs
    Patch/Rediff.v; Patch/Malformed.v [overlay_patch] vs Overlay/Patch.v [patch];
    Heal/Validator.v vs Val/FileVal.v (the three passes of Validate, at different granularity;
    Compose/ValidateProtocol.v relates C05 and C16); Bsdiff/Patch.v [adder] vs Patch/Patcher.v
    [add_bytes] ([adder_add_bytes] in Compose/OptimizeApplyProofs.v); Wsync/Apply.v [apply_op] vs
    Patch/Patcher.v [apply_range] ([apply_single_models_agree], Properties/C01.v). *)
From Wharf Require Compose.ModelsAgreeHashProofs Compose.ModelsAgreeBlocksProofs Compose.ModelsAgreeVarintProofs
     Compose.ModelsAgreeValidateProofs Compose.ModelsAgreeHashInfoProofs Compose.ModelsAgreeResume Compose.ModelsAgreeResumeProofs
     Compose.ModelsAgreeMalformed Compose.ModelsAgreeMalformedProofs Compose.ModelsAgreeBsdiffProofs.
