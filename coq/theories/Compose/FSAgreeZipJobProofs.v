(** The helper functions [zip_mkdir] / [zip_symlink] / [zip_copyfile] of [Compose/FSAgree.v] are
    what a worker of the pool of [Arch/Zip.v] does when it runs the micro-steps [Zi.job i e] of
    one entry without being interleaved with another worker: same final tree, same failure flag. *)
From Coq Require Import Arith NArith Lia Bool.
From Wharf Require Import FS.Light.
From Wharf Require Arch.Zip Arch.ZipFsLemmas Arch.ZipProofs.
From Wharf Require Import Compose.FSAgree.

Module ZP := Wharf.Arch.ZipProofs.

Section Pool.
  Variable entries : list Zi.entry.
  Variable chunk : list N -> list (list N).
  Variable racy wmark : bool.

  Notation step := (Zi.step entries chunk racy wmark).
  Notation run := (Zi.run entries chunk racy wmark).

  Lemma run_err : forall sched s, Zi.serr s = true -> run sched s = s.
  Proof.
    induction sched as [|t sched IH]; intros s H; [reflexivity|]. cbn [Zi.run fold_left].
    unfold Zi.step at 2. rewrite H. apply IH. exact H.
  Qed.

  Lemma run_cons : forall t sched s, run (t :: sched) s = run sched (step s t).
  Proof. reflexivity. Qed.

  Lemma progress_same : forall s i,
    Zi.sfs (Zi.progress wmark s i) = Zi.sfs s /\ Zi.serr (Zi.progress wmark s i) = Zi.serr s /\
    Zi.sworkers (Zi.progress wmark s i) = Zi.sworkers s.
  Proof.
    intros s i. unfold Zi.progress. destruct wmark; [|cbn; tauto].
    destruct (existsb _ _); cbn; tauto.
  Qed.

  (** one micro-step of worker [t] *)
  Lemma exec_effect : forall s t w op rest,
    nth_error (Zi.sworkers s) t = Some w -> Zi.serr s = false ->
    let s1 := Zi.exec wmark s t w op rest in
    let eff := zip_mop_effect (Zi.wseen w) op (Zi.sfs s) in
    match snd eff with
    | Some None => Zi.sfs s1 = Zi.sfs s /\ Zi.serr s1 = true
    | r => Zi.sfs s1 = match r with Some (Some f') => f' | _ => Zi.sfs s end /\ Zi.serr s1 = false /\
           exists w1, nth_error (Zi.sworkers s1) t = Some w1 /\ Zi.wops w1 = rest /\ Zi.wseen w1 = fst eff
    end.
  Proof.
    intros s t w op rest Hn He.
    assert (Hlt : t < length (Zi.sworkers s)) by (apply nth_error_Some; congruence).
    assert (Hnth : forall x, nth_error (Zi.set_nth (Zi.sworkers s) t x) t = Some x)
      by (intros x; apply ZP.nth_error_set_nth_eq; exact Hlt).
    assert (Ok : forall (s1 : Zi.state) f1 w1 seen', Zi.sfs s1 = f1 -> Zi.serr s1 = Zi.serr s ->
              Zi.sworkers s1 = Zi.set_nth (Zi.sworkers s) t w1 -> Zi.wops w1 = rest -> Zi.wseen w1 = seen' ->
              Zi.sfs s1 = f1 /\ Zi.serr s1 = false /\
              exists w2, nth_error (Zi.sworkers s1) t = Some w2 /\ Zi.wops w2 = rest /\ Zi.wseen w2 = seen').
    { intros s1 f1 w1 seen' H1 H2 H3 H4 H5. split; [exact H1|]. split; [rewrite H2; exact He|].
      exists w1. rewrite H3. split; [apply Hnth | split; assumption]. }
    assert (Fin : forall (f1 : Zi.fs) w1 seen', Zi.wops w1 = rest -> Zi.wseen w1 = seen' ->
              f1 = f1 /\ Zi.serr s = false /\
              exists w2, nth_error (Zi.set_nth (Zi.sworkers s) t w1) t = Some w2 /\ Zi.wops w2 = rest /\ Zi.wseen w2 = seen').
    { intros f1 w1 seen' H4 H5. split; [reflexivity|]. split; [exact He|]. exists w1. split; [apply Hnth | split; assumption]. }
    destruct op; cbn [zip_mop_effect Zi.exec fst snd].
    - (* MLstat *) eapply Ok; reflexivity.
    - (* MMkRemove *)
      destruct (Zi.wseen w) as [[|c|d]|] eqn:Ew; cbn [fst snd].
      + eapply Ok; try reflexivity; cbn; exact Ew.
      + destruct (Zi.fs_remove p (Zi.sfs s)); cbn; [apply Fin; reflexivity | tauto].
      + destruct (Zi.fs_remove p (Zi.sfs s)); cbn; [apply Fin; reflexivity | tauto].
      + eapply Ok; try reflexivity; cbn; exact Ew.
    - (* MMkMkdir *)
      destruct (Zi.wseen w) as [[|c|d]|] eqn:Ew; cbn [fst snd].
      + eapply Ok; try reflexivity; cbn; exact Ew.
      + destruct (Zi.fs_mkdir_all p (Zi.sfs s)); cbn; [apply Fin; reflexivity | tauto].
      + destruct (Zi.fs_mkdir_all p (Zi.sfs s)); cbn; [apply Fin; reflexivity | tauto].
      + destruct (Zi.fs_mkdir_all p (Zi.sfs s)); cbn; [apply Fin; reflexivity | tauto].
    - destruct (Zi.fs_remove_all p (Zi.sfs s)); cbn; [apply Fin; reflexivity | tauto].
    - destruct (Zi.fs_mkdir_all p (Zi.sfs s)); cbn; [apply Fin; reflexivity | tauto].
    - destruct (Zi.fs_create p (Zi.sfs s)); cbn; [apply Fin; reflexivity | tauto].
    - destruct (Zi.fs_append p c (Zi.sfs s)); cbn; [apply Fin; reflexivity | tauto].
    - destruct (Zi.fs_symlink p dest (Zi.sfs s)); cbn; [apply Fin; reflexivity | tauto].
    - (* MCount *) eapply Ok; reflexivity.
    - eapply Ok; reflexivity.
    - eapply Ok; reflexivity.
    - (* MProgress *)
      destruct (progress_same s i) as [P1 [P2 P3]].
      apply (Ok _ (Zi.sfs s) (Zi.mkW rest (Zi.widx w) (Zi.wseen w) (Zi.wreg w)) (Zi.wseen w)).
      + cbn. exact P1.
      + cbn. exact P2.
      + cbn. rewrite P3. reflexivity.
      + reflexivity.
      + reflexivity.
    - eapply Ok; reflexivity.
  Qed.

  (** worker [t] scheduled [length ops] times in a row performs its pending operations [ops] *)
  Lemma run_worker_ops : forall ops s t w,
    Zi.serr s = false -> nth_error (Zi.sworkers s) t = Some w -> Zi.wops w = ops ->
    let s' := run (repeat t (length ops)) s in
    let r := zip_seq_ops (Zi.wseen w) ops (Zi.sfs s) in
    Zi.sfs s' = snd r /\ Zi.serr s' = negb (fst r).
  Proof.
    induction ops as [|op rest IH]; intros s t w He Hn Hw; cbn [length repeat zip_seq_ops].
    - cbn. split; [reflexivity | exact He].
    - rewrite run_cons.
      assert (Hs : step s t = Zi.exec wmark s t w op rest).
      { unfold Zi.step. rewrite He, Hn, Hw. reflexivity. }
      rewrite Hs. pose proof (exec_effect s t w op rest Hn He) as X. cbn zeta in X.
      destruct (zip_mop_effect (Zi.wseen w) op (Zi.sfs s)) as [seen' [[f'|]|]]; cbn [fst snd] in X.
      + destruct X as [X1 [X2 [w1 [X3 [X4 X5]]]]]. rewrite <- X1, <- X5. apply (IH _ t w1 X2 X3 X4).
      + destruct X as [X1 X2]. rewrite (run_err _ _ X2). cbn. rewrite X1, X2. split; reflexivity.
      + destruct X as [X1 [X2 [w1 [X3 [X4 X5]]]]]. rewrite <- X1, <- X5. apply (IH _ t w1 X2 X3 X4).
  Qed.
End Pool.

(* ------------------------------------------------------------------ the operation lists of [Zi.job] *)

Definition no_fs_effect (op : Zi.mop) : bool :=
  match op with
  | Zi.MCount _ | Zi.MCountLoad _ | Zi.MCountStore _ | Zi.MProgress _ | Zi.MEntryDone _ => true
  | _ => false
  end.

Lemma seq_ops_skip : forall pre seen rest f, forallb no_fs_effect pre = true ->
  zip_seq_ops seen (pre ++ rest) f = zip_seq_ops seen rest f.
Proof.
  induction pre as [|op pre IH]; intros seen rest f H; [reflexivity|]. cbn [forallb] in H.
  apply andb_true_iff in H as [H1 H2]. cbn [app zip_seq_ops].
  destruct op; try discriminate H1; cbn [zip_mop_effect]; apply IH; exact H2.
Qed.

Lemma seq_ops_noeffect : forall l seen f, forallb no_fs_effect l = true -> zip_seq_ops seen l f = (true, f).
Proof. intros l seen f H. rewrite <- (app_nil_r l). rewrite seq_ops_skip by exact H. reflexivity. Qed.

Lemma count_ops_noeffect : forall racy k, forallb no_fs_effect (Zi.count_ops racy k) = true.
Proof. intros [|] k; reflexivity. Qed.

Lemma seq_ops_appends : forall chunks p seen tail f,
  zip_seq_ops seen (map (Zi.MAppend p) chunks ++ tail) f =
  match zip_appends p chunks f with
  | (true, f') => zip_seq_ops seen tail f'
  | (false, f') => (false, f')
  end.
Proof.
  induction chunks as [|c chunks IH]; intros p seen tail f; cbn [map app zip_seq_ops zip_appends zip_mop_effect]; [reflexivity|].
  destruct (Zi.fs_append p c f) as [f1|]; [apply IH | reflexivity].
Qed.

Theorem job_is_helper : forall chunk racy i e seen f,
  zip_seq_ops seen (Zi.job chunk racy i e) f = zip_call_step f (call_of_entry chunk e).
Proof.
  intros chunk racy i e seen f. destruct e as [p | p d | p d]; cbn [Zi.job call_of_entry zip_call_step].
  - (* EDir: archiver.Mkdir *)
    unfold zip_mkdir. cbn [app zip_seq_ops zip_mop_effect].
    assert (T : forall seen' g, zip_seq_ops seen' (Zi.count_ops racy Zi.KDir ++ [Zi.MProgress i]) g = (true, g)).
    { intros seen' g. apply seq_ops_noeffect. rewrite forallb_app, count_ops_noeffect. reflexivity. }
    destruct (Zi.lookup f p) as [[|c|l]|]; cbn [snd].
    + apply T.
    + destruct (Zi.fs_remove p f) as [f1|]; [|reflexivity]. destruct (Zi.fs_mkdir_all p f1) as [f2|]; [apply T | reflexivity].
    + destruct (Zi.fs_remove p f) as [f1|]; [|reflexivity]. destruct (Zi.fs_mkdir_all p f1) as [f2|]; [apply T | reflexivity].
    + destruct (Zi.fs_mkdir_all p f) as [f2|]; [apply T | reflexivity].
  - (* EFile: archiver.CopyFile *)
    unfold zip_copyfile. rewrite seq_ops_skip by apply count_ops_noeffect.
    cbn [app zip_seq_ops zip_mop_effect].
    destruct (Zi.fs_remove_all p f) as [f1|]; [|reflexivity].
    destruct (Zi.fs_mkdir_all (Zi.parent p) f1) as [f2|]; [|reflexivity].
    destruct (Zi.fs_create p f2) as [f3|]; [|reflexivity].
    rewrite seq_ops_appends. destruct (zip_appends p (chunk d) f3) as [[|] f4]; reflexivity.
  - (* ELink: archiver.Symlink *)
    unfold zip_symlink. cbn [app zip_seq_ops zip_mop_effect].
    destruct (Zi.fs_remove_all p f) as [f1|]; [|reflexivity].
    destruct (Zi.fs_mkdir_all (Zi.parent p) f1) as [f2|]; [|reflexivity].
    destruct (Zi.fs_symlink p d f2) as [f3|]; [|reflexivity].
    apply seq_ops_noeffect. rewrite forallb_app, count_ops_noeffect. reflexivity.
Qed.

(** A worker holding the operations of entry [e] and scheduled without interruption leaves
    the tree and the failure flag of the corresponding helper call. *)
Theorem zip_worker_runs_helper_lemma :
  forall (entries : list Zi.entry) (chunk : list N -> list (list N)) (racy wmark : bool)
         (s : Zi.state) (t : nat) (w : Zi.worker) (i : nat) (e : Zi.entry),
    Zi.serr s = false -> nth_error (Zi.sworkers s) t = Some w -> Zi.wops w = Zi.job chunk racy i e ->
    let s' := Zi.run entries chunk racy wmark (repeat t (length (Zi.job chunk racy i e))) s in
    let r := zip_call_step (Zi.sfs s) (call_of_entry chunk e) in
    Zi.sfs s' = snd r /\ Zi.serr s' = negb (fst r).
Proof.
  intros entries chunk racy wmark s t w i e He Hn Hw. cbn zeta.
  rewrite <- (job_is_helper chunk racy i e (Zi.wseen w) (Zi.sfs s)).
  apply (run_worker_ops entries chunk racy wmark _ s t w He Hn Hw).
Qed.
