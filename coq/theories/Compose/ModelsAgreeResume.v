(** Two hand-written models of repo/pwr/patcher side by side: the C01 model (Patch/Patcher.v:
    concrete, every frame re-interpreted through Patch/Reinterp.v, writes through the tree of
    Bowl/Fresh.v) and the C03 model (Patch/Resume.v: a machine [step] / [run] over typed
    messages, parametric in payloads, old-build accessors and entry writer; Patch/PlainWriter.v
    gives the fresh bowl's entry writer).  Each is tied to Go by its own test; this file sets
    up the vocabulary in which Compose/ModelsAgreeResumeProofs.v says that they agree, on the
    inputs the C01 model accepts ([Ok]):

    - the instance of the C03 parameters read off the C01 section variables ([old_of],
      [tsize_of], [ssize_of], [range_data_of], [bs_data_of]);
    - the message abstraction: C01 decodes every frame as the type its state expects, C03 has
      typed messages ([abs_so], [abs_ct], [abs_bh]);
    - what "representable" means for an op (C03 carries [N], C01 int64 as [Z]);
    - the simulation relation between an open C01 writer and a C03 state.
    Definitions only. *)
From Wharf Require Import Base.Prelude Bowl.Fresh Patch.Reinterp Patch.Stream Patch.Patcher
     Patch.Resume Patch.PlainWriter.
Local Open Scope Z_scope.

(** the C03 types at the fresh bowl's instance: payloads are bytes, a working file is its
    bytes, the writer state is its offset, a writer checkpoint carries no data *)
Definition cstate := state (list byte) N unit.
Definition cmsg := msg (list byte).
Definition cresult := result (list byte) N unit.

(** ** message abstraction *)

(** a frame read as a SyncOp (rsync loops).  Anything that is neither the end marker, a block
    range nor data is an "unknown sync op type" for makeWop; C03 has no such message, any
    message its rsync loop rejects and its skip loop ignores will do *)
Definition abs_so (o : sync_op) : cmsg :=
  if so_type o =? HEY then MEnd
  else if so_type o =? T_BLOCK_RANGE
       then MRange (Z.to_N (so_file o)) (Z.to_N (so_block o)) (Z.to_N (so_span o))
  else if so_type o =? T_DATA then MData (so_data o)
  else MBsHeader 0%N.

(** a frame read as a bsdiff Control / as a BsdiffHeader *)
Definition abs_ct (c : control) : cmsg :=
  if ct_eof c then MCtrlEof else MCtrl (ct_add c) (ct_copy c) (ct_seek c).
Definition abs_bh (h : bsdiff_header) : cmsg := MBsHeader (Z.to_N (bh_target h)).

(** the frames of a bsdiff series as processBsdiff reads them: header, controls, sentinel *)
Definition abs_bsdiff_series (m : pmsg) (ctrls : list pmsg) (m2 : pmsg) : list cmsg :=
  abs_bh (as_bh m) :: map (fun c => abs_ct (as_ct c)) ctrls ++ [abs_so (as_so m2)].

(** ** representability: C03 messages carry [N], C01 int64 *)
Definition so_repr (o : sync_op) : Prop :=
  so_type o = T_BLOCK_RANGE -> 0 <= so_file o /\ 0 <= so_block o /\ 0 <= so_span o.
(** the part of it that the theorems need (the other two follow from [validate_op] and from
    ApplySingleFull's seek whenever the C01 model returns Ok) *)
Definition so_span_repr (o : sync_op) : Prop := so_type o = T_BLOCK_RANGE -> 0 <= so_span o.

(** the pool serves files of the sizes the old container declares *)
Definition aligned (oldC : container) (olds : list (list byte)) : Prop :=
  Forall2 (fun f d => snd f = Z.of_nat (length d)) (c_files oldC) olds.

Section Inst.
  Variable bs : Z.                        (* pwr.BlockSize *)
  Variables oldC newC : container.
  Variable olds : list (list byte).

  (** ** the C03 parameters, read off the C01 ones *)
  Definition old_of (t : N) : list byte := nth (N.to_nat t) olds [].
  Definition size_in (c : container) (t : N) : N :=
    match nth_error (c_files c) (N.to_nat t) with
    | Some (_, sz) => Z.to_N sz
    | None => 0%N
    end.
  Definition tsize_of : N -> N := size_in oldC.
  Definition ssize_of : N -> N := size_in newC.

  (** what wsync.ApplySingleFull copies for a block range *)
  Definition range_data_of (f bi span : N) : list byte :=
    slice (old_of f) (bs * Z.of_N bi) (op_size bs (Z.of_N (tsize_of f)) (Z.of_N bi) (Z.of_N span)).

  (** what bsdiff Apply writes for a control with the old-file cursor at [off] *)
  Definition bs_data_of (t : N) (off : Z) (add copy : list byte) : list byte :=
    add_bytes add (skipn (Z.to_nat off) (old_of t)) ++ copy.

  (** ** the C03 machine at this instance; no saving ([sched = fun _ => false];
      [saving_transparent] of Properties/C03.v covers the other schedules) *)
  Variable nfiles : N.
  Variable is_overlay : N -> bool.
  Variable emit : nat -> bool.
  Variable stop : nat -> bool.

  Definition c03_step : cstate -> cmsg -> cresult :=
    step (list byte) (list byte) N unit (fun d => N.of_nat (length d)) (Z.to_N bs) tsize_of ssize_of
         range_data_of bs_data_of p_open p_write p_save p_final p_tell true is_overlay
         (p_copy_old old_of) emit (fun _ => false) stop.

  Definition c03_run : cstate -> list cmsg -> cresult :=
    fresh_run (Z.to_N bs) tsize_of ssize_of nfiles old_of range_data_of bs_data_of is_overlay emit
              (fun _ => false) stop.
End Inst.

(** ** the simulation relation: an open C01 writer against a C03 state whose writer is at [wN].
    Both see the same bytes in the output file, the offsets agree, and the offset is inside
    the file ([Patcher.w_write w []] is a no-op whereas [p_write] with [[]] calls [pwrite],
    which is the identity only then) *)
Definition wsim (w : wst) (S : cstate) (wN : N) : Prop :=
  exists raw,
    tlookup (p_tree (w_st w)) (w_path w) = Some (File raw) /\
    s_disk _ _ _ S (s_file _ _ _ S) = raw /\
    w_off w = N.to_nat wN /\
    (w_off w <= length raw)%nat.

(** what a run of one file's series leaves alone on the C03 side *)
Definition c03_frame (S S' : cstate) : Prop :=
  (forall g, g <> s_file _ _ _ S -> s_disk _ _ _ S' g = s_disk _ _ _ S g) /\
  s_bowl _ _ _ S' = s_bowl _ _ _ S /\
  s_offers _ _ _ S' = s_offers _ _ _ S.
