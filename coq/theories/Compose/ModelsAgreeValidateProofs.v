(** Models that were transcribed more than once agree - part 4: block validation.

    pwr/blockvalidator.go + pwr/validatingpool.go are modelled ONCE (Val/VPool.v, C18);
    Val/Safekeeper.v (C09), Val/FileVal.v (C05), Sig/Validate.v (C04) and
    Compose/ValidateProtocol.v (C16) import [validate_as_error] / [validate_as_wound] /
    [vpool_wounds] / [aggregate] / [compute_block_size] from there and do not re-define them
    (checked by reading the four files; [Val/Safekeeper.v] calls [validate_as_error hash heqb
    (fgroup f) ...] and [compute_block_size] directly).

    What IS transcribed twice is the caller, [doOne] of pwr/validator.go (copy the file through
    the validating pool, then compare the byte count with the signed size):
      Sig/Validate.v  [validate_file]   (C04: the file is a pristine copy)
      Val/FileVal.v   [file_wounds]     (C05: any file)
    and the hash group of a file: C04 gets it from ComputeHashInfo over a real signature
    ([group_of groups i]), C05 defines it as the hashes of the blocks of the signed content.

    Agreement: same group ([group_models_agree]) and same wound list for EVERY content of the
    file on disk - shorter than, as long as, or longer than the signed one.  (History: for a
    longer file Sig/Validate.v used to emit the size wound [(written, size)] with start > end -
    the code BEFORE repo commit ccb6315 "fix: validator size wound had start > end ..." - while
    Val/FileVal.v and the code swap the two; the former example
    [validate_file_differs_on_longer_file] recorded that.  Sig/Validate.v was repaired to follow
    the code; the example, now false, is deleted and replaced by
    [validate_file_longer_file_example], where both models give (2, 3).)  Proofs only. *)
From Coq Require Import ZifyBool ZifyNat ZifyN.
From Wharf Require Import Base.Prelude Val.Drip Val.VPool.
From Wharf Require Val.FileVal Sig.Sign Sig.SigFile Sig.HashInfo Sig.HashInfoProofs Sig.Validate.
Local Open Scope Z_scope.

Module SV := Wharf.Sig.Validate.
Module FV := Wharf.Val.FileVal.
Module SSg := Wharf.Sig.Sign.

Section ValidateAgree.
  Variable H : Type.
  Variable bs : N.
  Variable weak : list N -> N.
  Variable strong : list N -> H.
  Variable seqb : H -> H -> bool.
  Variable maxWound : Z.

  Notation bhash := (SV.block_hash weak strong).
  Notation beqb := (SV.pair_eqb seqb).

  Lemma hash_blocks_pairs fi : forall (toks : list (list N)) j,
    map (fun h => (SSg.bh_weak h, SSg.bh_strong h)) (SSg.hash_blocks bs weak strong fi j toks) = map bhash toks.
  Proof.
    induction toks as [|t r IH]; intros j; [reflexivity|].
    cbn [SSg.hash_blocks map]. rewrite IH. reflexivity.
  Qed.

  (** hashInfo.Groups[i] of a real signature (C04) is the list of block hashes C05 assumes *)
  Lemma group_models_agree_lemma (files : list (list N)) (i : nat) (signed : list N) :
    nth_error files i = Some signed ->
    SV.group_of (HashInfoProofs.groups_from bs weak strong 0 files) i = FV.group_of (Z.of_N bs) bhash signed.
  Proof.
    intros Hn. unfold SV.group_of, FV.group_of.
    rewrite (HashInfoProofs.groups_from_nth bs weak strong files 0 i signed Hn).
    destruct signed as [|x l]; [reflexivity|].
    replace (Z.to_nat (Z.of_N bs)) with (N.to_nat bs) by lia.
    unfold SSg.sign_file. rewrite hash_blocks_pairs. reflexivity.
  Qed.

  (** [doOne] on one file whose content reaches the pool in one Write: the same wounds, whatever
      the length of the file on disk *)
  Lemma validate_file_agrees (groups : list (option (list (SSg.blockhash H)))) (i : nat) (signed content : list N) :
    SV.group_of groups i = FV.group_of (Z.of_N bs) bhash signed ->
    SV.validate_file bs weak strong seqb maxWound groups i (N.of_nat (length signed)) [content] =
    FV.file_wounds (Z.of_N bs) maxWound bhash beqb (Z.of_nat i) signed (FV.OFile content).
  Proof.
    intros Hg. unfold SV.validate_file, FV.file_wounds.
    rewrite Hg. cbn [concat]. rewrite app_nil_r. rewrite !nat_N_Z.
    destruct (N.eqb_spec (N.of_nat (length content)) (N.of_nat (length signed))) as [E|E];
      destruct (Z.eqb_spec (Z.of_nat (length content)) (Z.of_nat (length signed))) as [E'|E']; try lia.
    - apply app_nil_r.
    - destruct (N.ltb_spec (N.of_nat (length signed)) (N.of_nat (length content))) as [Hlt|Hge]; rewrite !nat_N_Z.
      + rewrite Z.min_r, Z.max_l by lia. reflexivity.
      + rewrite Z.min_l, Z.max_r by lia. reflexivity.
  Qed.

  (** ... for any slicing of the content into Write calls on the C04 side (C05 fixes one
      Write): stated for the slicing C05 uses; C04's own theorems ([pristine_file_markers])
      quantify over the slicing *)
  Theorem validate_file_models_agree_lemma (files : list (list N)) (i : nat) (signed content : list N) :
    nth_error files i = Some signed ->
    SV.validate_file bs weak strong seqb maxWound (HashInfoProofs.groups_from bs weak strong 0 files) i
                     (N.of_nat (length signed)) [content] =
    FV.file_wounds (Z.of_N bs) maxWound bhash beqb (Z.of_nat i) signed (FV.OFile content).
  Proof.
    intros Hn. apply validate_file_agrees. apply group_models_agree_lemma. assumption.
  Qed.
End ValidateAgree.

(** block size 2, signed file [1;2], file on disk [1;2;3]: the healthy marker of block 0, the (empty) wound of
    the unsigned block 1, then the size wound (2, 3) - smaller bound first - in both transcriptions, as in Go *)
Lemma validate_file_longer_file_example :
  let weak := fun _ : list N => 0%N in
  let strong := fun b : list N => b in
  let files := [[1; 2]%N] in
  SV.validate_file 2 weak strong nlist_eqb 100 (HashInfoProofs.groups_from 2 weak strong 0 files) 0 2 [[1; 2; 3]%N] =
    [mkwound WClosed 0 0 2; mkwound WFile 0 2 2; mkwound WFile 0 2 3] /\
  FV.file_wounds 2 100 (SV.block_hash weak strong) (SV.pair_eqb nlist_eqb) 0 [1; 2]%N (FV.OFile [1; 2; 3]%N) =
    [mkwound WClosed 0 0 2; mkwound WFile 0 2 2; mkwound WFile 0 2 3].
Proof. split; vm_compute; reflexivity. Qed.
