(** Compose/ValidateProtocol.v - DEFINITIONS (executable): the parameters of the goroutine /
    channel protocol of pwr.ValidatorContext.Validate (Heal/Protocol.v, C16) built from the
    per-entry observations of the validator model (Val/FileVal.v on Val/VPool.v, Val/Drip.v, C05).
    Proofs: Compose/ValidateProtocolProofs.v.

    C16 leaves abstract WHAT the passes of Validate find ([p_pre], [p_files]); C05 computes it
    for a concrete directory but runs the passes sequentially.  [params_of] is the bridge, at the
    model's unscaled semantics (the C16 harness scales counts down; nothing is scaled here):

    - [p_pre]: one [PWound] per directory that is not a directory (after [eff]: a wounded
      directory hides what is below it), then one per symlink that is not the signed link, in
      container order; [PErr] at the first entry whose Lstat / Readlink fails otherwise
      (pwr/validator.go `return err`; main never looks at a later entry).  [dirs_pass] /
      [links_pass] of C05 return [None] exactly when a [PErr] is present, else one wound per
      [PWound] (ValidateProtocolProofs.pre_items_spec).
    - [p_files]: per file of the container, in container order, what the worker's doOne does:
      [FWhole] when the entry is not a regular file (or hidden); else [FData ws1 mid ws2] where
      the markers are the RAW block markers [vpool_wounds] that C05's [file_wounds] feeds to
      [aggregate] (C16's [fmsg] is what the block validator sends TO the aggregator, not what
      comes out of it): [ws1] = markers of the complete blocks, validated by drip.Writer.Write
      during io.Copy; [mid] = [FMShort] iff the number of bytes copied differs from the signed
      size (doOne then sends the size wound itself, straight to vctx.Wounds); [ws2] = the marker
      of the short last block, validated by drip.Writer.Close (the deferred writer.Close()).
      The two booleans of [FBad] are the decisions AggregateWounds takes on that marker
      ([fmsgs_of] threads [lastWound] exactly as [aggregate] does), so that C16's aggregator
      ([agg_in], run sequentially: [agg_run]) emits what C05's [aggregate] emits
      (ValidateProtocolProofs.agg_run_aggregate).
      [FOpenErr] (GetWriter / ComputeHashInfo error) and [FMErr] (io.Copy error) have no
      counterpart among C05's observations and are never produced. *)
From Wharf Require Import Base.Prelude Val.Drip Val.VPool Val.FileVal Heal.Protocol.
Local Open Scope Z_scope.

(** what a marker is for the consumers of C16: CLOSED_FILE / a real wound *)
Definition msg_of (w : wound) : msg := if healthy w then Healthy else Bad.

(** raw block markers -> what the aggregator model of C16 is told about them; [last] is
    AggregateWounds' lastWound, threaded as in [aggregate] (Val/VPool.v).  The flags of an
    [FBad] met with no pending wound are not looked at by [agg_in]. *)
Fixpoint fmsgs_of (maxSize : Z) (last : option wound) (ws : list wound) : list fmsg :=
  match ws with
  | [] => []
  | w :: r =>
    match wk w with
    | WFile =>
      match last with
      | None => FBad false false :: fmsgs_of maxSize (Some w) r
      | Some l =>
        if (wend l <=? wstart w) && (wstart w >=? wstart l) then
          let l' := mkwound (wk l) (widx l) (wstart l) (wend w) in
          if wend l' - wstart l' >=? maxSize then FBad true true :: fmsgs_of maxSize None r
          else FBad true false :: fmsgs_of maxSize (Some l') r
        else FBad false false :: fmsgs_of maxSize (Some w) r
      end
    | _ => FHealthy :: fmsgs_of maxSize None r
    end
  end.

(** the aggregator of Heal/Protocol.v run on its own: [agg_in] on each input (action AWA), then
    the flush of a pending wound when the input is closed (action AAgg); output in send order *)
Fixpoint agg_run (last : bool) (ms : list fmsg) : list msg :=
  match ms with
  | [] => if last then [Bad] else []
  | m :: r => let '(l, o) := agg_in last m in o ++ agg_run l r
  end.

(** the directory matches the signature (the conclusion of C05's [never_false_valid]): every
    signed directory is a directory, every symlink has the signed destination, every file is a
    regular file with exactly the signed content *)
Definition matching (ds : list (list nat * obs)) (ls : list (list nat * N * obs))
           (fs : list (list nat * list N * obs)) : Prop :=
  Forall (fun p => snd p = ODir) ds /\
  Forall (fun x => let '(_, want, o) := x in o = OLink want) ls /\
  Forall (fun x => let '(_, signed, o) := x in o = OFile signed) fs.

Section ValidateProtocol.
  Context {H : Type}.
  Variable bs : Z.               (* pwr.BlockSize *)
  Variable maxWound : Z.         (* pwr.MaxWoundSize *)
  Variable hash : list N -> H.
  Variable heqb : H -> H -> bool.

  (** doOne for file [i] (same arguments as [file_wounds]) *)
  Definition file_of (i : Z) (signed : list N) (o : obs) : file :=
    match o with
    | OFile content =>
      let size := Z.of_nat (length signed) in
      let raw := vpool_wounds bs hash heqb i size (group_of bs hash signed) [content] in
      let ms := fmsgs_of maxWound None raw in
      let nfull := (length content / Z.to_nat bs)%nat in
      FData (firstn nfull ms)
            (if Z.of_nat (length content) =? size then FMNone else FMShort)
            (skipn nfull ms)
    | _ => FWhole                                                  (* doWholeFileWound *)
    end.

  Fixpoint files_of (i : Z) (fs : list (list N * obs)) : list file :=
    match fs with
    | [] => []
    | (signed, o) :: r => file_of i signed o :: files_of (i + 1) r
    end.

  (** symlink pass *)
  Fixpoint link_items (ls : list (N * obs)) : list pitem :=
    match ls with
    | [] => []
    | (want, o) :: r =>
      match o with
      | OErr => [PErr]
      | OLink d => if N.eqb d want then link_items r else PWound :: link_items r
      | _ => PWound :: link_items r
      end
    end.

  (** directory pass, followed by [k] (the symlink pass) when it does not return early *)
  Fixpoint dir_items (ds : list obs) (k : list pitem) : list pitem :=
    match ds with
    | [] => k
    | o :: r =>
      match o with
      | OErr => [PErr]
      | ODir => dir_items r k
      | _ => PWound :: dir_items r k
      end
    end.

  (** on effective observations (the arguments of [validate_core]) *)
  Definition params_core (cap : nat) (startfail closefail ctx0 : bool)
             (ds : list obs) (ls : list (N * obs)) (fs : list (list N * obs)) : params :=
    mkparams cap (dir_items ds (link_items ls)) startfail (files_of 0 fs) guardian ctx0 closefail.

  (** on the observations with ancestors (the arguments of [validate]): channel capacity [cap],
      [startfail] = pools.New fails in the worker, [closefail] = targetPool.Close fails,
      [ctx0] = the context is cancelled before the call (a later cancellation is the action
      [ACancel] of the schedule); the consumer is the repaired WoundsGuardian (FailFast) *)
  Definition params_of (cap : nat) (startfail closefail ctx0 : bool)
             (ds : list (list nat * obs)) (ls : list (list nat * N * obs))
             (fs : list (list nat * list N * obs)) : params :=
    let e := eff_dirs [] ds in
    params_core cap startfail closefail ctx0 (fst e)
      (map (fun x => let '(anc, want, o) := x in (want, eff (under (snd e) anc) o)) ls)
      (map (fun x => let '(anc, signed, o) := x in (signed, eff (under (snd e) anc) o)) fs).
End ValidateProtocol.
