(** C03 x C13 - proofs about the wire instance of Compose/ResumeWire.v:
    - the index <-> offset bridge ([bnd], [idx_of]);
    - the C13 save-state automaton ([want_save], [pop_checkpoint], [read_message]) over the
      framed message list refines the message-granularity automaton of Patch/Resume.v
      ([rd_want], [rd_pop], [rd_read]) under every schedule, every popped checkpoint of the one
      being the translation ([ckpt_to_wire]) of the checkpoint popped by the other
      ([wire_refines]); the relation implies C13's [coherent] and C03's [rd_inv];
    - [H_wire] for the instance ([src_resume_w_ok]): for every checkpoint the instance can
      produce, [ReadContext.Resume] restarts at the checkpoint's reader offset, and the resumed
      reader yields exactly the unread messages ([src_resume_w_yields]) - from C13's
      [resume_good] / [read_all_pinv] (the two halves of [checkpoint_resumes_exactly]). *)
From Wharf Require Import Base.Prelude Patch.Resume Patch.ResumeLive
  Wire.Uvarint Wire.UvarintProofs Wire.Frame Wire.FrameProofs Wire.Reader Wire.ReaderProofs Compose.ResumeWire.
From Coq Require Import ZifyBool ZifyNat ZifyN.
Local Open Scope N_scope.

Section Bridge.
  Context {M : Type}.
  Variable marshal : M -> list byte.

  Notation stream := (stream marshal).
  Notation flen m := (N.of_nat (length (frame (marshal m)))).

  Lemma flen_pos : forall m, 1 <= flen m.
  Proof. intros m. pose proof (frame_nonempty (marshal m)). lia. Qed.

  Lemma stream_app' : forall a b, stream (a ++ b) = stream a ++ stream b.
  Proof. intros a b. unfold FrameProofs.stream. rewrite !map_app, concat_app. reflexivity. Qed.

  Lemma firstn_S_nth : forall (l : list M) k m, nth_error l k = Some m -> firstn (S k) l = firstn k l ++ [m].
  Proof.
    induction l as [|x l IH]; intros k m H; destruct k; try discriminate.
    - inversion H; reflexivity.
    - cbn [nth_error] in H. rewrite !firstn_cons, (IH k m H). reflexivity.
  Qed.

  Lemma skipn_nth : forall (l : list M) k m, nth_error l k = Some m -> skipn k l = m :: skipn (S k) l.
  Proof.
    induction l as [|x l IH]; intros k m H; destruct k; try discriminate.
    - inversion H; reflexivity.
    - cbn [nth_error] in H. cbn [skipn]. apply IH. exact H.
  Qed.

  Lemma nth_error_lt : forall (l : list M) k, (k < length l)%nat -> exists m, nth_error l k = Some m.
  Proof.
    intros l k H. destruct (nth_error l k) eqn:E; [eauto|]. apply nth_error_None in E. lia.
  Qed.

  Section Msgs.
    Variable msgs : list M.
    Notation bnd := (bnd marshal msgs).

    Lemma bnd_off_of : forall k, bnd k = off_of marshal (firstn k msgs).
    Proof. reflexivity. Qed.

    Lemma bnd_0 : bnd 0 = 0.
    Proof. reflexivity. Qed.

    Lemma bnd_S : forall k m, nth_error msgs k = Some m -> bnd (S k) = bnd k + flen m.
    Proof.
      intros k m H. unfold ResumeWire.bnd. rewrite (firstn_S_nth _ _ _ H), stream_app', app_length.
      unfold FrameProofs.stream at 2. cbn [map concat]. rewrite app_nil_r. lia.
    Qed.

    Lemma bnd_past : forall k, (length msgs <= k)%nat -> bnd (S k) = bnd k.
    Proof. intros k H. unfold ResumeWire.bnd. rewrite !firstn_all2 by lia. reflexivity. Qed.

    Lemma bnd_le_S : forall k, bnd k <= bnd (S k).
    Proof.
      intros k. destruct (Nat.lt_ge_cases k (length msgs)) as [H|H].
      - destruct (nth_error_lt _ _ H) as (m & E). rewrite (bnd_S _ _ E). lia.
      - rewrite bnd_past by exact H. lia.
    Qed.

    Lemma bnd_mono : forall j k, (j <= k)%nat -> bnd j <= bnd k.
    Proof.
      intros j k H. induction H as [|k H IH]; [lia|]. pose proof (bnd_le_S k). lia.
    Qed.

    Lemma bnd_lt_S : forall k, (k < length msgs)%nat -> bnd k < bnd (S k).
    Proof.
      intros k H. destruct (nth_error_lt _ _ H) as (m & E). rewrite (bnd_S _ _ E). pose proof (flen_pos m). lia.
    Qed.
  End Msgs.

  (** the two conversions are inverse to each other on message boundaries *)
  Lemma idx_of_bnd_gen : forall (ms : list M) k, (k <= length ms)%nat ->
    idx_of marshal ms (N.of_nat (length (stream (firstn k ms)))) = Some k.
  Proof.
    induction ms as [|m ms IH]; intros k Hk.
    - cbn in Hk. replace k with O by lia. reflexivity.
    - destruct k as [|k]; [reflexivity|]. cbn [firstn]. rewrite stream_cons, app_length.
      cbn [idx_of]. pose proof (flen_pos m) as Hp.
      set (c := flen m) in *. set (L := length (stream (firstn k ms))).
      replace (N.of_nat (length (frame (marshal m)) + L) =? 0) with false by lia.
      replace (N.of_nat (length (frame (marshal m)) + L) <? c) with false by lia.
      replace (N.of_nat (length (frame (marshal m)) + L) - c) with (N.of_nat L) by lia.
      subst L. rewrite IH by (cbn in Hk; lia). reflexivity.
  Qed.

  Lemma idx_of_sound_gen : forall (ms : list M) o k, idx_of marshal ms o = Some k ->
    (k <= length ms)%nat /\ o = N.of_nat (length (stream (firstn k ms))).
  Proof.
    induction ms as [|m ms IH]; intros o k H; cbn [idx_of] in H.
    - destruct (N.eqb_spec o 0) as [->|Hne]; [|discriminate]. inversion H; subst. cbn. split; [lia|reflexivity].
    - destruct (N.eqb_spec o 0) as [->|Hne].
      + inversion H; subst. cbn. split; [lia|reflexivity].
      + destruct (N.ltb_spec o (flen m)) as [Hlt|Hge]; [discriminate|].
        destruct (idx_of marshal ms (o - flen m)) as [k'|] eqn:E; [|discriminate].
        cbn [option_map] in H. inversion H; subst k. destruct (IH _ _ E) as (Hk & Ho).
        cbn [length firstn]. rewrite stream_cons, app_length. split; [lia|lia].
  Qed.

  Lemma idx_of_bnd : forall msgs k, (k <= length msgs)%nat -> idx_of marshal msgs (bnd marshal msgs k) = Some k.
  Proof. intros. apply idx_of_bnd_gen. assumption. Qed.

  Lemma idx_of_sound : forall msgs o k, idx_of marshal msgs o = Some k -> (k <= length msgs)%nat /\ o = bnd marshal msgs k.
  Proof. intros. apply idx_of_sound_gen. assumption. Qed.
End Bridge.

(* -------------------------------------------------------------------------------------- *)
Local Ltac rsimp := cbn [Resume.r_pos Resume.r_st Resume.r_want Resume.r_src r_src r_off r_cap r_save r_sc
                       s_data s_pos s_rest s_want fst snd andb Resume.mc_off Resume.mc_src mc_off mc_src].
Local Ltac rsimp_in H := cbn [Resume.r_pos Resume.r_st Resume.r_want Resume.r_src r_src r_off r_cap r_save r_sc
                       s_data s_pos s_rest s_want fst snd andb Resume.mc_off Resume.mc_src mc_off mc_src] in H.

Section Refinement.
  Context {M : Type}.
  Variable marshal : M -> list byte.
  Variable unmarshal : list byte -> option M.
  Hypothesis unmarshal_marshal : forall m, unmarshal (marshal m) = Some m.
  Variable msgs : list M.
  Hypothesis Hfits : Forall (fits_msg marshal) msgs.
  Variable beh : behaviour.
  Variable cap0 : N.

  Notation stream := (stream marshal).
  Notation bnd := (bnd marshal msgs).
  Notation src_event := (src_event marshal msgs beh).
  Notation emit_w := (emit_w marshal msgs beh).
  Notation ckpt_to_wire := (ckpt_to_wire marshal msgs beh).
  Notation src_resume_w := (src_resume_w marshal msgs beh cap0).
  Notation wire_data := (wire_data marshal msgs).
  Notation rd_rel := (rd_rel marshal msgs beh).
  Notation step3 := (step3 marshal msgs beh).
  Notation run3 := (run3 marshal msgs beh).
  Notation ev_rel := (ev_rel marshal msgs beh).
  Notation reads_within := (reads_within msgs).
  Notation wf_mc := (wf_mc marshal msgs beh).

  (** the start of a patcher: [NewReadContext] over the written bytes / the reader of
      [start_state] *)
  Lemma rd_rel_init : rd_rel (new_reader cap0 wire_data) (Resume.mkrd 0 Resume.Idle false 0).
  Proof.
    unfold ResumeWire.rd_rel, new_reader. cbn. unfold ResumeWire.wire_data.
    repeat split; try reflexivity; try lia; try discriminate.
  Qed.

  (** the relation contains the protocol invariants of both developments *)
  Lemma rd_rel_coherent : forall a b, rd_rel a b -> coherent a.
  Proof.
    intros a b (_ & _ & _ & _ & _ & Hst & Hw & Hco & _). unfold coherent. rewrite Hw.
    unfold st_rel in Hst. destruct (r_save a), (Resume.r_st b) eqn:E; try contradiction.
    - destruct (Resume.r_want b); [|reflexivity]. destruct Hco as [Hco _]. discriminate (Hco eq_refl).
    - apply Hco. reflexivity.
    - destruct (Resume.r_want b); [|reflexivity]. destruct Hco as [Hco _]. discriminate (Hco eq_refl).
  Qed.

  Lemma rd_rel_rd_inv : forall a b, rd_rel a b -> rd_inv b.
  Proof. intros a b (_ & _ & _ & _ & _ & _ & _ & Hco & _). unfold rd_inv. apply Hco. Qed.

  Lemma rd_rel_invariants : forall a b, rd_rel a b -> coherent a /\ rd_inv b.
  Proof. intros a b H. split; [eapply rd_rel_coherent|eapply rd_rel_rd_inv]; exact H. Qed.

  (** WantSave *)
  Lemma sim_want : forall a b, rd_rel a b ->
    rd_rel (want_save a) (Resume.rd_want b) /\
    (match r_save a with Idle => true | _ => false end) = (match Resume.r_st b with Resume.Idle => true | _ => false end).
  Proof.
    intros a [p st wn sr] (Hp & Hd & Hs & Ho & Hr & Hst & Hw & Hco & Hsc). cbn in *.
    unfold want_save, Resume.rd_want. cbn.
    destruct (r_save a) eqn:Ea, st; try contradiction; cbn; (split; [|reflexivity]).
    - unfold ResumeWire.rd_rel. cbn. repeat split; auto; discriminate.
    - unfold ResumeWire.rd_rel. cbn. rewrite Ea. repeat split; auto; apply Hco.
    - unfold ResumeWire.rd_rel. cbn. rewrite Ea. repeat split; auto; apply Hco || apply Hsc.
  Qed.

  (** PopCheckpoint: both sides pop or neither does, and the popped checkpoints correspond *)
  Lemma sim_pop : forall a b, rd_rel a b ->
    rd_rel (fst (pop_checkpoint a)) (snd (Resume.rd_pop b)) /\
    match snd (pop_checkpoint a), fst (Resume.rd_pop b) with
    | None, None => True
    | Some c, Some mc => ckpt_to_wire mc = Some c /\ wf_mc mc /\ Resume.mc_off mc = Resume.r_pos b
    | _, _ => False
    end.
  Proof.
    intros a [p st wn sr] (Hp & Hd & Hs & Ho & Hr & Hst & Hw & Hco & Hsc). cbn in *.
    unfold pop_checkpoint, Resume.rd_pop. cbn.
    destruct (r_save a) eqn:Ea, st; try contradiction; cbn.
    - split; [|exact I]. unfold ResumeWire.rd_rel. cbn. rewrite Ea. repeat split; auto; apply Hco.
    - split; [|exact I]. unfold ResumeWire.rd_rel. cbn. rewrite Ea. repeat split; auto; apply Hco.
    - destruct Hsc as (Hlt & Hsc & Hem).
      assert (Hwn : wn = false).
      { destruct wn; [|reflexivity]. destruct Hco as [Hco _]. discriminate (Hco eq_refl). }
      split.
      + unfold ResumeWire.rd_rel. cbn. repeat split; auto; try discriminate. intros Hx. congruence.
      + unfold ResumeWire.ckpt_to_wire, ResumeWire.wf_mc. cbn.
        unfold ResumeWire.emit_w in Hem. destruct src_event as [sc|] eqn:Ee; [|discriminate].
        split; [|split; [repeat split; auto; unfold ResumeWire.emit_w; now rewrite Ee | reflexivity]].
        rewrite Ho, Hsc. reflexivity.
  Qed.

  (** ReadMessage on a message that is there *)
  Lemma sim_read : forall a b, rd_rel a b -> (Resume.r_pos b < length msgs)%nat ->
    exists m, nth_error msgs (Resume.r_pos b) = Some m /\
              snd (read_message unmarshal beh a) = ReadOk m /\
              rd_rel (fst (read_message unmarshal beh a)) (Resume.rd_read emit_w b).
  Proof.
    intros a [p st wn sr] HR Hlt. unfold ResumeWire.rd_rel in HR.
    cbn [Resume.r_pos Resume.r_st Resume.r_want Resume.r_src] in HR, Hlt |- *.
    destruct HR as (Hp & Hd & Hs & Ho & Hr & Hst & Hw & Hco & Hsc).
    destruct (nth_error_lt msgs p Hlt) as (m & Em). exists m. split; [exact Em|].
    assert (Hm : fits_msg marshal m).
    { rewrite Forall_forall in Hfits. apply Hfits. eapply nth_error_In; eauto. }
    unfold read_message. rewrite Hr, (skipn_nth _ _ _ Em), stream_cons.
    rewrite (read_one_frame marshal unmarshal unmarshal_marshal) by (apply fits_lt_63; exact Hm).
    rewrite Hs, <- (bnd_S marshal msgs _ _ Em), Hw.
    unfold Resume.rd_read. cbn [Resume.r_want Resume.r_pos Resume.r_st Resume.r_src].
    unfold ResumeWire.emit_w at 1. fold (src_event p).
    assert (HpS : (S p <= length msgs)%nat) by lia.
    destruct wn.
    - (* a request is pending *)
      assert (Est : st = Resume.Waiting) by (apply Hco; reflexivity). subst st.
      destruct (src_event p) as [sc|] eqn:Ee; rsimp; (split; [reflexivity|]).
      + unfold ResumeWire.rd_rel. rsimp. rewrite Ho, (bnd_S marshal msgs _ _ Em).
        repeat split; auto; try discriminate.
        unfold ResumeWire.emit_w. now rewrite Ee.
      + unfold ResumeWire.rd_rel. rsimp. rewrite Ho, (bnd_S marshal msgs _ _ Em).
        destruct (r_save a); try contradiction. repeat split; auto.
    - rsimp. split; [reflexivity|].
      unfold ResumeWire.rd_rel. rsimp. rewrite Ho, (bnd_S marshal msgs _ _ Em).
      repeat split; auto; try apply Hco.
      destruct st; auto. destruct Hsc as (A & B & C0). repeat split; auto.
  Qed.

  (** the C13 automaton refines the C03 automaton: under any schedule that does not read past
      the last message the two run in lockstep - same forwarded requests, same messages,
      corresponding checkpoints, related states after every operation *)
  Lemma wire_refines : forall ops a b, rd_rel a b -> reads_within (Resume.r_pos b) ops ->
    Forall2 (fun x y => ev_rel (fst x) (fst y) /\ rd_rel (snd x) (snd y))
            (run unmarshal beh a ops) (run3 b ops).
  Proof.
    induction ops as [|o ops IH]; intros a b HR Hw; cbn [run run3]; [constructor|].
    destruct o; cbn [step step3 reads_within] in *.
    - destruct (sim_want a b HR) as (HR' & He). constructor.
      + cbn. split; [exact He|exact HR'].
      + apply IH; [exact HR'|]. unfold Resume.rd_want. destruct (Resume.r_st b); exact Hw.
    - pose proof (sim_pop a b HR) as (HR' & He).
      destruct (pop_checkpoint a) as [a' c] eqn:Ea. destruct (Resume.rd_pop b) as [mc b'] eqn:Eb.
      cbn [fst snd] in *. constructor.
      + cbn. split; [|exact HR']. destruct c, mc; try contradiction; auto. apply He.
      + apply IH; [exact HR'|]. unfold Resume.rd_pop in Eb. destruct (Resume.r_st b); inversion Eb; subst; exact Hw.
    - destruct Hw as (Hlt & Hw). destruct (sim_read a b HR Hlt) as (m & Em & Er & HR').
      destruct (read_message unmarshal beh a) as [a' res] eqn:Ea. cbn [fst snd] in *. subst res. constructor.
      + cbn. split; [exact Em|exact HR'].
      + apply IH; [exact HR'|]. unfold Resume.rd_read. destruct (Resume.r_want b && emit_w (Resume.r_pos b))%bool; exact Hw.
  Qed.

  (** *** [H_wire] for the instance, from C13 *)
  Hypothesis Hbeh : beh_sound beh.

  (** a checkpoint the instance can produce translates to a [good_ckpt] of C13 *)
  Lemma ckpt_to_wire_good : forall mc, wf_mc mc ->
    exists c, ckpt_to_wire mc = Some c /\ good_ckpt marshal (firstn (Resume.mc_off mc) msgs) c.
  Proof.
    intros [off src] (Hlt & Hle & Hem). cbn in *. unfold ResumeWire.ckpt_to_wire. cbn.
    unfold ResumeWire.emit_w in Hem. destruct (src_event src) as [sc|] eqn:Ee; [|discriminate].
    eexists. split; [reflexivity|]. unfold good_ckpt. cbn. split; [reflexivity|].
    exists sc. split; [reflexivity|]. destruct (Hbeh _ _ _ Ee) as (H1 & H2). split; [exact H1|].
    change (off_of marshal (firstn off msgs)) with (bnd off).
    pose proof (bnd_mono marshal msgs (S src) off ltac:(lia)). lia.
  Qed.

  (** [ReadContext.Resume] restarts reading at the reader offset recorded in the checkpoint *)
  Lemma src_resume_w_ok : forall off src, wf_mc (Resume.mkmc off src) -> src_resume_w off src = Some off.
  Proof.
    intros off src Hwf. destruct (ckpt_to_wire_good _ Hwf) as (c & Ec & Hg). cbn in Hg.
    unfold ResumeWire.src_resume_w. rewrite Ec.
    destruct (resume_good marshal (firstn off msgs) (skipn off msgs) c (new_reader cap0 wire_data)) as (r' & Er & Hp & _).
    - cbn. rewrite firstn_skipn. reflexivity.
    - exact Hg.
    - rewrite Er. destruct Hp as (_ & _ & Ho & _). rewrite Ho. apply idx_of_bnd. apply Hwf.
  Qed.

  (** ... so the resumed reader yields exactly the unread messages, whatever the (sound)
      behaviour of the source of the resumed run; and it again refines the reader of
      [resume_state] *)
  Lemma src_resume_w_yields : forall off src p, src_resume_w off src = Some p ->
    exists c r', ckpt_to_wire (Resume.mkmc off src) = Some c /\
                 resume (new_reader cap0 wire_data) (Some c) = Some r' /\
                 rd_rel r' (Resume.mkrd p Resume.Idle false 0) /\
                 forall beh2, beh_sound beh2 -> read_all unmarshal beh2 r' = (skipn p msgs, EEOF).
  Proof.
    intros off src p H. unfold ResumeWire.src_resume_w in H.
    destruct (ckpt_to_wire (Resume.mkmc off src)) as [c|] eqn:Ec; [|discriminate].
    destruct (resume (new_reader cap0 wire_data) (Some c)) as [r'|] eqn:Er; [|discriminate].
    exists c, r'. split; [reflexivity|]. split; [exact Er|].
    destruct (idx_of_sound marshal msgs _ _ H) as (Hp & Ho).
    unfold resume in Er. destruct (mc_src c) as [sc|]; [|discriminate].
    destruct (mc_off c <? sc_restart sc); [discriminate|].
    destruct ((sc_restart sc <? mc_off c) && (N.of_nat (length (s_data (r_src (new_reader cap0 wire_data)))) <? mc_off c))%bool; [discriminate|].
    inversion Er; subst r'; clear Er. cbn in Ho. cbn [new_reader r_src s_data s_want r_cap].
    assert (Hskip : skipn (N.to_nat (mc_off c)) wire_data = stream (skipn p msgs)).
    { rewrite Ho. unfold ResumeWire.bnd, ResumeWire.wire_data. rewrite Nat2N.id.
      rewrite <- (firstn_skipn p msgs) at 2. rewrite (stream_app' marshal), skipn_app, Nat.sub_diag, skipn_all, skipn_O. reflexivity. }
    split.
    - unfold ResumeWire.rd_rel. rsimp. rewrite Hskip, Ho. unfold st_rel.
      repeat split; auto; intros Hx; discriminate Hx.
    - intros beh2 Hb2. rewrite Hskip.
      apply (read_all_pinv marshal unmarshal unmarshal_marshal beh2 (skipn p msgs) (firstn p msgs)); auto.
      + rewrite <- (firstn_skipn p msgs) in Hfits. apply Forall_app in Hfits. apply Hfits.
      + unfold pinv. rsimp. rewrite firstn_skipn, Ho. repeat split; auto.
      + reflexivity.
  Qed.

  (** the seek source hands its checkpoint out at the very next read of a message *)
  Lemma emit_w_seek : forall p, (p < length msgs)%nat -> ResumeWire.emit_w marshal msgs seek_beh p = true.
  Proof.
    intros p H. unfold ResumeWire.emit_w, ResumeWire.src_event, seek_beh.
    pose proof (bnd_lt_S marshal msgs p H) as Hlt. apply N.ltb_lt in Hlt. rewrite Hlt. reflexivity.
  Qed.
End Refinement.
