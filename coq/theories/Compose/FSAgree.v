(** The three filesystem models related: [Bowl/FSmini.v] (C02) and the association-list model
    of [Arch/Zip.v] (C19) are refinements of the general model [FS/{Tree,Ops}.v] (C06).

    This file holds the definitions only: the abstraction functions, the well-formedness
    predicates that delimit the states the small models are about, the general-model call
    sequences that correspond to the composite operations of the small models, and the
    operation sequences of the summary theorems.  Proofs: [Compose/FSAgreeGenProofs.v]
    (extensional facts about the general model), [Compose/FSAgreeMiniProofs.v],
    [Compose/FSAgreeZipProofs.v], [Compose/FSAgreeZipJobProofs.v] (the helpers are what a worker of
    the pool runs); inputs on which the models genuinely differ: [Compose/FSAgreeDiffer.v].  The property theorems are appended to [Properties/C02.v] and
    [Properties/C19.v].

    How each model represents the root and relative paths.
    - General model: a path is the list of names from the root [[]] of the model; [[]] always
      exists and is a directory ([node_at]), is never a key of the association list, and [".."]
      at the root stays at the root.
    - FSmini: paths are relative to the directory Commit works in (the target directory); that
      directory itself is implicit: it is not a key, every one-component path has it as its
      parent without any check ([resolve_dirs] starts below it).  The empty path is not a
      meaningful input (Commit never passes it); the model answers ENOENT for it.
    - Arch/Zip: paths are relative to the directory being extracted into; "the root (path [])
      always exists" ([parent_ok] accepts an empty parent unchecked), it is not a key.
    Both abstractions map the implicit directory to the root [[]] of the general model and a
    relative path to the same list of names from the root, i.e. the general model is used with
    its root standing for the target directory.  What is lost: in the real filesystem [".."]
    leads out of the target directory and the path to it may go through links; neither small
    model follows links, so this cannot be observed where they do not decline.

    Names.  FSmini's components are structured ([P id | R c k]: temporary names are injective
    by construction); the abstraction takes any injective [enc : comp -> N] (one is given:
    [enc_std]).  FSmini's link destinations are opaque numbers: any [ldest : N -> list comp]
    will do (the small model never follows a link, so the destination is only ever compared).
    Arch/Zip's names are numbers already; a link destination [list N] becomes that list of
    names (no [".."]).

    Equality of trees is equality as finite maps ([tree_equiv]: same [lookup] at every path):
    the three association-list representations shadow / delete differently. *)
From Wharf Require Import FS.Light.
From Wharf Require FS.Tree FS.Ops Bowl.FSmini Arch.Zip.

Module Gt := Wharf.FS.Tree.
Module Go := Wharf.FS.Ops.
Module Mi := Wharf.Bowl.FSmini.
Module Zi := Wharf.Arch.Zip.

Local Open Scope N_scope.

Definition tree_equiv (a b : Gt.tree) : Prop := forall q, Gt.lookup a q = Gt.lookup b q.

(** non-empty prefixes, shortest first, the list itself last *)
Fixpoint inits {A} (p : list A) : list (list A) :=
  match p with
  | [] => []
  | a :: r => [a] :: map (cons a) (inits r)
  end.

Definition is_nil {A} (p : list A) : bool := match p with [] => true | _ => false end.

(* ========================================================================================== *)
(** * FSmini -> general model *)

Definition mini_path (enc : Mi.comp -> N) (p : Mi.path) : Gt.path := map enc p.

Definition mini_node (ldest : N -> list Gt.comp) (n : Mi.node) : Gt.node :=
  match n with
  | Mi.File c => Gt.File c
  | Mi.Dir => Gt.Dir
  | Mi.Link d => Gt.Link (ldest d)
  end.

Definition mini_tree (enc : Mi.comp -> N) (ldest : N -> list Gt.comp) (t : Mi.fs) : Gt.tree :=
  map (fun e => (mini_path enc (fst e), mini_node ldest (snd e))) t.

Definition mini_errno (e : Mi.errno) : Go.errno :=
  match e with
  | Mi.ENOENT => Go.ENOENT | Mi.ENOTDIR => Go.ENOTDIR | Mi.EISDIR => Go.EISDIR
  | Mi.ENOTEMPTY => Go.ENOTEMPTY | Mi.EEXIST => Go.EEXIST | Mi.EINVAL => Go.EINVAL
  end.

(** [T] is a general-model state that stands for the FSmini state [t] *)
Definition mini_sim (enc : Mi.comp -> N) (ldest : N -> list Gt.comp) (t : Mi.fs) (T : Gt.tree) : Prop :=
  tree_equiv (mini_tree enc ldest t) T.

(** an injective numbering of FSmini's names: [P id -> 2 id], [R c k -> 2 <c, k> + 1] with the
    pairing <a, b> = 2^a (2 b + 1) *)
Fixpoint dbl (n : nat) (x : N) : N := match n with O => x | S n' => 2 * dbl n' x end.
Fixpoint enc_std (c : Mi.comp) : N :=
  match c with
  | Mi.P id => 2 * id
  | Mi.R c' k => 2 * dbl (N.to_nat (enc_std c')) (2 * k + 1) + 1
  end.
Definition ldest_std (d : N) : list Gt.comp := [Gt.Nm d].

(** The states FSmini is about: the target directory itself is not an entry, and an entry
    lies below directories only.  (All three models are association lists and can hold
    "trees" without this property; no filesystem does.) *)
Definition mini_wf (t : Mi.fs) : Prop :=
  Mi.lookup t [] = None /\
  forall p q r, Mi.lookup t p <> None -> p = q ++ r -> q <> [] -> r <> [] -> Mi.lookup t q = Some Mi.Dir.

Definition mini_is_dir (t : Mi.fs) (q : Mi.path) : bool :=
  match Mi.lookup t q with Some Mi.Dir => true | _ => false end.

Definition mini_wfb (t : Mi.fs) : bool :=
  forallb (fun e => negb (is_nil (fst e)) && forallb (mini_is_dir t) (inits (removelast (fst e)))) t.

(** agreement of a result of the small model with a result of the general one: same errno,
    or both succeed with related values; the declined outcome agrees with nothing *)
Inductive mini_agree {A B} (R : A -> B -> Prop) : Mi.res A -> Go.res B -> Prop :=
| MA_ok : forall a b, R a b -> mini_agree R (Mi.Ok a) (Go.Ok b)
| MA_err : forall e, mini_agree R (Mi.Err e) (Go.Err (mini_errno e)).

(** the general-model call sequences for FSmini's two composite operations *)

(** [create_trunc]: open(O_CREATE|O_WRONLY|O_TRUNC), then one write through the descriptor *)
Definition gen_create (T : Gt.tree) (p : Gt.path) (c : list N) : Go.res Gt.tree :=
  match Go.open_trunc T p with
  | Go.Ok (T1, q) => Go.Ok (Go.write_fd T1 q c)
  | Go.Err e => Go.Err e
  end.

(** [open_existing]: open(O_WRONLY) without O_CREATE, the content found at the descriptor *)
Definition gen_open_existing (T : Gt.tree) (p : Gt.path) : Go.res (list N) :=
  match Go.open_nocreate T p with
  | Go.Ok q => match Gt.node_at T q with Some (Gt.File d) => Go.Ok d | _ => Go.Ok [] end
  | Go.Err e => Go.Err e
  end.

(** The one input class on which [Mi.rename] and [Go.rename] give different errno values
    although neither follows a link ([fsmini_rename_errno_differ]): the old name is missing
    in an existing directory AND the new name lies below a regular file.  The kernel resolves
    both parents before it looks the old name up (ENOTDIR), FSmini reports the missing old name
    first (ENOENT). *)
Definition mini_rename_precedence_ok (t : Mi.fs) (src dst : Mi.path) : bool :=
  match Mi.parent_ok t src, Mi.lookup t src, Mi.parent_ok t dst with
  | Mi.Ok _, None, Mi.Err Mi.ENOENT => true
  | Mi.Ok _, None, Mi.Err _ => false
  | _, _, _ => true
  end.

(** ** operation sequences *)
Inductive mini_op :=
| OLstat (p : Mi.path) | OReadlink (p : Mi.path) | ORemove (p : Mi.path) | ORemoveAll (p : Mi.path)
| OMkdirAll (p : Mi.path) | OSymlink (d : N) (p : Mi.path) | ORename (src dst : Mi.path)
| ORead (p : Mi.path) | OCreate (p : Mi.path) (c : list N) | OOpenExisting (p : Mi.path).

(** what a call returns besides its errno *)
Inductive call_obs := ObsNone | ObsNode (n : Gt.node) | ObsDest (d : list Gt.comp) | ObsData (c : list N).

(** errno ([None]: success) and returned value *)
Definition call_outcome := (option Go.errno * call_obs)%type.

Section MiniRun.
  Variable enc : Mi.comp -> N.
  Variable ldest : N -> list Gt.comp.

  Definition mini_lift (t : Mi.fs) (r : Mi.res Mi.fs) : option (call_outcome * Mi.fs) :=
    match r with
    | Mi.Ok t' => Some ((None, ObsNone), t')
    | Mi.Err e => Some ((Some (mini_errno e), ObsNone), t)
    | Mi.Unmodelled => None
    end.

  Definition mini_lift_obs {A} (t : Mi.fs) (f : A -> call_obs) (r : Mi.res A) : option (call_outcome * Mi.fs) :=
    match r with
    | Mi.Ok a => Some ((None, f a), t)
    | Mi.Err e => Some ((Some (mini_errno e), ObsNone), t)
    | Mi.Unmodelled => None
    end.

  (** one operation in the small model; [None]: the model declines *)
  Definition mini_step (t : Mi.fs) (o : mini_op) : option (call_outcome * Mi.fs) :=
    match o with
    | OLstat p => mini_lift_obs t (fun n => ObsNode (mini_node ldest n)) (Mi.lstat t p)
    | OReadlink p => mini_lift_obs t (fun d => ObsDest (ldest d)) (Mi.readlink t p)
    | ORemove p => mini_lift t (Mi.remove t p)
    | ORemoveAll p => mini_lift t (Mi.remove_all t p)
    | OMkdirAll p => mini_lift t (Mi.mkdir_all t p)
    | OSymlink d p => mini_lift t (Mi.symlink t d p)
    | ORename s d => mini_lift t (Mi.rename t s d)
    | ORead p => mini_lift_obs t ObsData (Mi.read_file t p)
    | OCreate p c => mini_lift t (Mi.create_trunc t p c)
    | OOpenExisting p => mini_lift_obs t ObsData (Mi.open_existing t p)
    end.

  Definition gen_lift (T : Gt.tree) (r : Go.res Gt.tree) : call_outcome * Gt.tree :=
    match r with
    | Go.Ok T' => ((None, ObsNone), T')
    | Go.Err e => ((Some e, ObsNone), T)
    end.

  Definition gen_lift_obs {A} (T : Gt.tree) (f : A -> call_obs) (r : Go.res A) : call_outcome * Gt.tree :=
    match r with
    | Go.Ok a => ((None, f a), T)
    | Go.Err e => ((Some e, ObsNone), T)
    end.

  (** the corresponding call (sequence) in the general model *)
  Definition gen_step (T : Gt.tree) (o : mini_op) : call_outcome * Gt.tree :=
    match o with
    | OLstat p => gen_lift_obs T ObsNode (Go.lstat T (mini_path enc p))
    | OReadlink p => gen_lift_obs T ObsDest (Go.readlink T (mini_path enc p))
    | ORemove p => gen_lift T (Go.remove T (mini_path enc p))
    | ORemoveAll p => gen_lift T (Go.remove_all T (mini_path enc p))
    | OMkdirAll p => gen_lift T (Go.mkdir_all T (mini_path enc p))
    | OSymlink d p => gen_lift T (Go.symlink T (ldest d) (mini_path enc p))
    | ORename s d => gen_lift T (Go.rename T (mini_path enc s) (mini_path enc d))
    | ORead p => gen_lift_obs T ObsData (Go.read_file T (mini_path enc p))
    | OCreate p c => gen_lift T (gen_create T (mini_path enc p) c)
    | OOpenExisting p => gen_lift_obs T ObsData (gen_open_existing T (mini_path enc p))
    end.

  Fixpoint mini_run (t : Mi.fs) (ops : list mini_op) : option (list call_outcome * Mi.fs) :=
    match ops with
    | [] => Some ([], t)
    | o :: r =>
        match mini_step t o with
        | None => None
        | Some (x, t') => match mini_run t' r with
                          | None => None
                          | Some (xs, t'') => Some (x :: xs, t'')
                          end
        end
    end.

  Fixpoint gen_run (T : Gt.tree) (ops : list mini_op) : list call_outcome * Gt.tree :=
    match ops with
    | [] => ([], T)
    | o :: r => let '(x, T') := gen_step T o in
                let '(xs, T'') := gen_run T' r in (x :: xs, T'')
    end.
End MiniRun.

(** the inputs FSmini is about: non-empty relative paths; for rename not the precedence case *)
Definition mini_op_ok (t : Mi.fs) (o : mini_op) : bool :=
  match o with
  | OLstat p | OReadlink p | ORemove p | ORemoveAll p | OSymlink _ p
  | ORead p | OCreate p _ | OOpenExisting p => negb (is_nil p)
  | OMkdirAll _ => true                      (* MkdirAll of the target directory itself: a no-op in both *)
  | ORename s d => negb (is_nil s) && negb (is_nil d) && mini_rename_precedence_ok t s d
  end.

(** ... for every operation of a sequence, in the state in which it runs *)
Fixpoint mini_ops_ok (t : Mi.fs) (ops : list mini_op) : bool :=
  match ops with
  | [] => true
  | o :: r => mini_op_ok t o &&
              match mini_step (fun _ => []) t o with
              | Some (_, t') => mini_ops_ok t' r
              | None => true
              end
  end.

(* ========================================================================================== *)
(** * Arch/Zip -> general model *)

Definition zip_node (n : Zi.node) : Gt.node :=
  match n with
  | Zi.Dir => Gt.Dir
  | Zi.File d => Gt.File d
  | Zi.Link d => Gt.Link (map Gt.Nm d)
  end.

Definition zip_tree (f : Zi.fs) : Gt.tree := map (fun e => (fst e, zip_node (snd e))) f.

Definition zip_sim (f : Zi.fs) (T : Gt.tree) : Prop := tree_equiv (zip_tree f) T.

Definition zip_wf (f : Zi.fs) : Prop :=
  Zi.lookup f [] = None /\
  forall p q r, Zi.lookup f p <> None -> p = q ++ r -> q <> [] -> r <> [] -> Zi.lookup f q = Some Zi.Dir.

Definition zip_is_dir (f : Zi.fs) (q : Zi.path) : bool :=
  match Zi.lookup f q with Some Zi.Dir => true | _ => false end.
Definition zip_is_link (f : Zi.fs) (q : Zi.path) : bool :=
  match Zi.lookup f q with Some (Zi.Link _) => true | _ => false end.
Definition zip_is_file (f : Zi.fs) (q : Zi.path) : bool :=
  match Zi.lookup f q with Some (Zi.File _) => true | _ => false end.

Definition zip_wfb (f : Zi.fs) : bool :=
  forallb (fun e => negb (is_nil (fst e)) && forallb (zip_is_dir f) (inits (removelast (fst e)))) f.

(** Arch/Zip has no "declined" outcome: where the kernel would follow a link in the middle of
    a path it answers "error" ([fs_mkdir_all]: "a component that is a symlink is an error
    here"; [parent_ok]: the parent must be a directory itself).  The inputs it is about are
    those with no link strictly above the path. *)
Definition zip_link_above (f : Zi.fs) (p : Zi.path) : bool :=
  existsb (zip_is_link f) (inits (removelast p)).
Definition zip_file_above (f : Zi.fs) (p : Zi.path) : bool :=
  existsb (zip_is_file f) (inits (removelast p)).

(** ok / error of the small model against the general one; the small model has no errno *)
Inductive zip_agree : option Zi.fs -> Go.res Gt.tree -> Prop :=
| ZA_ok : forall f T, zip_sim f T -> zip_agree (Some f) (Go.Ok T)
| ZA_err : forall e, zip_agree None (Go.Err e).

(** ** the helpers of archiver/archiver.go as the worker of [Zi.job] / [Zi.exec] runs them: one
    system call after the other, the first failure ends the helper and leaves the tree as
    the earlier calls made it.  Result: (succeeded?, tree). *)
Definition zip_mkdir (p : Zi.path) (f : Zi.fs) : bool * Zi.fs :=
  match Zi.lookup f p with                                        (* MLstat *)
  | Some Zi.Dir => (true, f)
  | Some _ =>
      match Zi.fs_remove p f with                                 (* MMkRemove *)
      | None => (false, f)
      | Some f1 => match Zi.fs_mkdir_all p f1 with                (* MMkMkdir *)
                   | None => (false, f1)
                   | Some f2 => (true, f2)
                   end
      end
  | None => match Zi.fs_mkdir_all p f with                        (* MMkMkdir *)
            | None => (false, f)
            | Some f2 => (true, f2)
            end
  end.

Definition zip_symlink (p : Zi.path) (dest : list N) (f : Zi.fs) : bool * Zi.fs :=
  match Zi.fs_remove_all p f with
  | None => (false, f)
  | Some f1 =>
      match Zi.fs_mkdir_all (Zi.parent p) f1 with
      | None => (false, f1)
      | Some f2 => match Zi.fs_symlink p dest f2 with
                   | None => (false, f2)
                   | Some f3 => (true, f3)
                   end
      end
  end.

Fixpoint zip_appends (p : Zi.path) (chunks : list (list N)) (f : Zi.fs) : bool * Zi.fs :=
  match chunks with
  | [] => (true, f)
  | c :: r => match Zi.fs_append p c f with
              | None => (false, f)
              | Some f' => zip_appends p r f'
              end
  end.

Definition zip_copyfile (p : Zi.path) (chunks : list (list N)) (f : Zi.fs) : bool * Zi.fs :=
  match Zi.fs_remove_all p f with
  | None => (false, f)
  | Some f1 =>
      match Zi.fs_mkdir_all (Zi.parent p) f1 with
      | None => (false, f1)
      | Some f2 => match Zi.fs_create p f2 with
                   | None => (false, f2)
                   | Some f3 => zip_appends p chunks f3
                   end
      end
  end.

(** ** the same helpers over the general model (Go source: archiver.Mkdir / Symlink / CopyFile).
    Result: (errno of the failing call or [None], tree). *)
Definition gen_mkdir (p : Gt.path) (T : Gt.tree) : option Go.errno * Gt.tree :=
  match Go.lstat T p with
  | Go.Ok Gt.Dir => (None, T)
  | Go.Ok _ =>
      match Go.remove T p with
      | Go.Err e => (Some e, T)
      | Go.Ok T1 => match Go.mkdir_all T1 p with
                    | Go.Err e => (Some e, T1)
                    | Go.Ok T2 => (None, T2)
                    end
      end
  | Go.Err _ => match Go.mkdir_all T p with
                | Go.Err e => (Some e, T)
                | Go.Ok T2 => (None, T2)
                end
  end.

Definition gen_symlink (p : Gt.path) (dest : list Gt.comp) (T : Gt.tree) : option Go.errno * Gt.tree :=
  match Go.remove_all T p with
  | Go.Err e => (Some e, T)
  | Go.Ok T1 =>
      match Go.mkdir_all T1 (removelast p) with
      | Go.Err e => (Some e, T1)
      | Go.Ok T2 => match Go.symlink T2 dest p with
                    | Go.Err e => (Some e, T2)
                    | Go.Ok T3 => (None, T3)
                    end
      end
  end.

(** the Write calls of io.Copy through the descriptor [q], the file offset advancing *)
Fixpoint gen_writes (q : Gt.path) (off : nat) (chunks : list (list N)) (T : Gt.tree) : Gt.tree :=
  match chunks with
  | [] => T
  | c :: r => gen_writes q (off + length c) r (Go.write_at_fd T q off c)
  end.

Definition gen_copyfile (p : Gt.path) (chunks : list (list N)) (T : Gt.tree) : option Go.errno * Gt.tree :=
  match Go.remove_all T p with
  | Go.Err e => (Some e, T)
  | Go.Ok T1 =>
      match Go.mkdir_all T1 (removelast p) with
      | Go.Err e => (Some e, T1)
      | Go.Ok T2 => match Go.open_trunc T2 p with
                    | Go.Err e => (Some e, T2)
                    | Go.Ok (T3, q) => (None, gen_writes q 0 chunks T3)
                    end
      end
  end.

(** agreement of helper results: both succeed or both fail, and the trees are related (also
    after a failure: the effects of the calls before the failing one) *)
Definition zip_agree_helper (r : bool * Zi.fs) (g : option Go.errno * Gt.tree) : Prop :=
  (fst r = true <-> fst g = None) /\ zip_sim (snd r) (snd g).

(** ** sequences of helper calls (what a single extraction worker does, entry after entry) *)
Inductive zip_call :=
| CMkdir (p : Zi.path) | CSymlink (p : Zi.path) (dest : list N) | CCopyFile (p : Zi.path) (chunks : list (list N)).

Definition call_path (c : zip_call) : Zi.path :=
  match c with CMkdir p | CSymlink p _ | CCopyFile p _ => p end.

Definition zip_call_step (f : Zi.fs) (c : zip_call) : bool * Zi.fs :=
  match c with
  | CMkdir p => zip_mkdir p f
  | CSymlink p d => zip_symlink p d f
  | CCopyFile p ch => zip_copyfile p ch f
  end.

Definition gen_call_step (T : Gt.tree) (c : zip_call) : option Go.errno * Gt.tree :=
  match c with
  | CMkdir p => gen_mkdir p T
  | CSymlink p d => gen_symlink p (map Gt.Nm d) T
  | CCopyFile p ch => gen_copyfile p ch T
  end.

Fixpoint zip_calls (f : Zi.fs) (cs : list zip_call) : list bool * Zi.fs :=
  match cs with
  | [] => ([], f)
  | c :: r => let '(b, f') := zip_call_step f c in
              let '(bs, f'') := zip_calls f' r in (b :: bs, f'')
  end.

Fixpoint gen_calls (T : Gt.tree) (cs : list zip_call) : list (option Go.errno) * Gt.tree :=
  match cs with
  | [] => ([], T)
  | c :: r => let '(e, T') := gen_call_step T c in
              let '(es, T'') := gen_calls T' r in (e :: es, T'')
  end.

(** the inputs Arch/Zip is about: a non-empty relative path with no link strictly above it,
    in the state in which the helper runs *)
Definition zip_call_ok (f : Zi.fs) (c : zip_call) : bool :=
  negb (is_nil (call_path c)) && negb (zip_link_above f (call_path c)).

Fixpoint zip_calls_ok (f : Zi.fs) (cs : list zip_call) : bool :=
  match cs with
  | [] => true
  | c :: r => zip_call_ok f c && zip_calls_ok (snd (zip_call_step f c)) r
  end.

Definition errno_is_none (e : option Go.errno) : bool := match e with None => true | Some _ => false end.

(* ========================================================================================== *)
(** * The helpers above are what a worker of [Zi.exec] does with the operations of [Zi.job] *)

(** effect of one micro-step on (what Lstat saw, the tree): [None] no file-system call,
    [Some r] the call's result *)
Definition zip_mop_effect (seen : option Zi.node) (op : Zi.mop) (f : Zi.fs) : option Zi.node * option (option Zi.fs) :=
  match op with
  | Zi.MLstat p => (Zi.lookup f p, None)
  | Zi.MMkRemove p => (seen, match seen with None | Some Zi.Dir => None | Some _ => Some (Zi.fs_remove p f) end)
  | Zi.MMkMkdir p => (seen, match seen with Some Zi.Dir => None | _ => Some (Zi.fs_mkdir_all p f) end)
  | Zi.MRemoveAll p => (seen, Some (Zi.fs_remove_all p f))
  | Zi.MMkdirAll p => (seen, Some (Zi.fs_mkdir_all p f))
  | Zi.MCreate p => (seen, Some (Zi.fs_create p f))
  | Zi.MAppend p c => (seen, Some (Zi.fs_append p c f))
  | Zi.MSymlink p d => (seen, Some (Zi.fs_symlink p d f))
  | _ => (seen, None)
  end.

(** a list of micro-steps run one after the other; the first failing call ends it *)
Fixpoint zip_seq_ops (seen : option Zi.node) (ops : list Zi.mop) (f : Zi.fs) : bool * Zi.fs :=
  match ops with
  | [] => (true, f)
  | op :: r =>
      match zip_mop_effect seen op f with
      | (seen', None) => zip_seq_ops seen' r f
      | (seen', Some (Some f')) => zip_seq_ops seen' r f'
      | (_, Some None) => (false, f)
      end
  end.

Definition call_of_entry (chunk : list N -> list (list N)) (e : Zi.entry) : zip_call :=
  match e with
  | Zi.EDir p => CMkdir p
  | Zi.ELink p d => CSymlink p d
  | Zi.EFile p d => CCopyFile p (chunk d)
  end.
