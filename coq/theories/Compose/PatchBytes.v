(** C01 x C13 - the patch FILE as bytes.

    C01 (Patch/Stream.v, Patch/Patcher.v) states "diff then apply reproduces the new build" on
    the patch as a list of typed frames [Stream.frame]; C13 (Wire/Frame.v) models the wire
    format (magic, uvarint-framed protobuf bodies, an optional compressor) for ONE message type.
    This file puts the two together: the bytes pwr.DiffContext.WritePatch produces, and the
    way pwr/patcher.New + savingPatcher.Resume consume them.  Definitions only; the proofs are
    in Compose/PatchBytesProofs.v, the statements in Properties/C01.v.

    ---- writer: repo/pwr/diff.go WritePatch, repo/wire/write_context.go, repo/pwr/compression.go
<<
      rawPatchWire := wire.NewWriteContext(patchWriter)
      rawPatchWire.WriteMagic(PatchMagic)                               -- int32, little endian
      rawPatchWire.WriteMessage(&PatchHeader{Compression: dctx.Compression})
      patchWire, _ := CompressWire(rawPatchWire, dctx.Compression)       -- NONE: the same context;
                                                                          -- else a new context over compressor.Apply(writer, quality)
      patchWire.WriteMessage(dctx.TargetContainer)
      patchWire.WriteMessage(dctx.SourceContainer)
      for fileIndex := range SourceContainer.Files {
          patchWire.WriteMessage(syncHeader) ; one patchWire.WriteMessage(wop) per operation ; patchWire.WriteMessage(syncDelimiter) }
      patchWire.Close()                                                 -- closes (flushes) the compressor
>>
    so the file is   magic_enc PatchMagic ++ frame (marshal header) ++ compress (frames of everything else).

    ---- reader: repo/pwr/patcher/patcher.go New, repo/pwr/compression.go DecompressWire
<<
      rawWire := wire.NewReadContext(patchReader)
      rawWire.ExpectMagic(pwr.PatchMagic)
      rawWire.ReadMessage(header)
      rctx := pwr.DecompressWire(rawWire, header.Compression)            -- section source from Tell() to the end of the
                                                                          -- file, the decompressor of header.Compression.Algorithm
                                                                          -- (NONE: none), a NEW ReadContext over it
      rctx.ReadMessage(targetContainer) ; rctx.ReadMessage(sourceContainer)
>>
    and then Resume / processRsync / processBsdiff / skipFile call [rctx.ReadMessage(x)] with
    [x] a *SyncHeader, *SyncOp, *BsdiffHeader or *Control according to where they are.

    ---- what had to be reconciled
    (1) C13's reader has one [unmarshal : list byte -> option M]; a patch is a stream of six Go
        message types whose bodies do not say what they are (protobuf: the empty body is the
        zero value of every type).  No single [unmarshal] can invert the writer, so C01's
        "any codec of the frame list that round-trips" ([diff_apply_fresh_any_codec]: [forall fs,
        decode (encode fs) = Some fs], for EVERY frame list) cannot be instantiated by the wire
        functions.  The bridge: C13's functions are used at [M := list byte] (the body, marshal =
        identity, unmarshal = [Some]): [write_stream]/[read_stream] move the BODIES; which Go type
        a body is unmarshalled as is decided by the reader's position in the grammar of a patch
        ([expect] below: the type of the pointer the patcher passes to ReadMessage there), exactly
        the situation Patch/Reinterp.v describes one level up.  [decode (encode fs) = fs] then
        holds for every frame list that FOLLOWS the grammar ([grammar_ok] below) and every
        prefix of one - in particular for what WritePatch writes - not for arbitrary lists.
    (2) C01 treats header and containers as frames of the same list as the per-file messages;
        on the wire the header is outside the compressed part and is read by another ReadContext,
        and the containers are the first two messages of the compressed part.
    (3) C01's patcher consumes a finished list; the Go patcher reads lazily.  [read_patch_bytes]
        returns the frames that can be read and typed before the first failure (framing error,
        end of stream, or a body the expected type does not unmarshal), and [Patcher.run_files]
        etc. return [Err] when they need a message and the list is exhausted, which is what the Go
        patcher does with the error of that ReadMessage call.  After the last file the Go
        patcher does not read any further (no end-of-stream check), and neither does [run_files].
    (4) C01's patcher re-decodes every message as the type it expects ([as_sh], [as_so], ...:
        Patch/Reinterp.v).  A frame produced by [decode_msgs] was unmarshalled as exactly that
        type, so the re-decoding is the identity whenever the unmarshalled record is in the
        range of the Go field types ([Reinterp.pmsg_ok]; an abstract [unmarshal] returning
        numbers no int64 / int32 field can hold has no Go counterpart). *)
From Wharf Require Import Base.Prelude Bowl.Fresh Patch.Reinterp Patch.Stream Patch.Patcher Wire.Uvarint Wire.Frame.
Local Open Scope Z_scope.

Notation pframe := Wharf.Patch.Stream.frame (only parsing).
Notation wire_frame := Wharf.Wire.Frame.frame (only parsing).

(** pwr.PatchMagic = int32(iota + 0xFEF5F00), iota = 0 *)
Definition PATCH_MAGIC : Z := 267345664.
(** pwr.CompressionAlgorithm_NONE *)
Definition ALGO_NONE : Z := 0.

(** the Go type of the pointer handed to [ReadMessage] at a point of the per-file part:
    Resume reads a SyncHeader; an rsync series is SyncOps up to and including the first
    HEY_YOU_DID_IT (processRsync, readUntilEndMarker, skipFile); a bsdiff series is a
    BsdiffHeader, Controls up to and including the first one marked eof, then one SyncOp (the
    sentinel) (processBsdiff, skipFile) *)
Inductive expect := XSyncHeader | XSyncOp | XBsdiffHeader | XControl | XSentinel.

(** ---- the grammar of the per-file part, on the WRITTEN messages ---- *)

(** the written message [m] is of the type expected at [x]; what is expected after it *)
Definition gstep (x : expect) (m : pmsg) : option expect :=
  match x, m with
  | XSyncHeader, MSH h => Some (if sh_type h =? SH_BSDIFF then XBsdiffHeader else XSyncOp)
  | XSyncOp, MSO o => Some (if so_type o =? HEY then XSyncHeader else XSyncOp)
  | XBsdiffHeader, MBH _ => Some XControl
  | XControl, MCT c => Some (if ct_eof c then XSentinel else XControl)
  | XSentinel, MSO _ => Some XSyncHeader
  | _, _ => None
  end.

Fixpoint grun (x : expect) (ms : list pmsg) : option expect :=
  match ms with
  | [] => Some x
  | m :: r => match gstep x m with Some x' => grun x' r | None => None end
  end.

(** every message of the list is of the type the reader will pass to ReadMessage for it *)
Definition grammar_ok (ms : list pmsg) : Prop := grun XSyncHeader ms <> None.

(** the external components: golang/protobuf Marshal / Unmarshal, one pair per Go message type,
    and the registered compressors / decompressors by algorithm (and quality);
    [decompressor a z = None]: no decompressor registered for [a], or the stream is damaged.
    The theorems quantify over every such record satisfying the round-trip hypotheses below. *)
Record patch_codecs := mkCodecs {
  marshal_ph : Z * Z -> list byte;                 (* pwr.PatchHeader{Compression{Algorithm, Quality}} *)
  unmarshal_ph : list byte -> option (Z * Z);
  marshal_tc : container -> list byte;             (* tlc.Container *)
  unmarshal_tc : list byte -> option container;
  marshal_sh : sync_header -> list byte;           (* pwr.SyncHeader *)
  unmarshal_sh : list byte -> option sync_header;
  marshal_so : sync_op -> list byte;               (* pwr.SyncOp *)
  unmarshal_so : list byte -> option sync_op;
  marshal_bh : bsdiff_header -> list byte;         (* pwr.BsdiffHeader *)
  unmarshal_bh : list byte -> option bsdiff_header;
  marshal_ct : control -> list byte;               (* bsdiff.Control *)
  unmarshal_ct : list byte -> option control;
  compressor : Z -> Z -> list byte -> list byte;
  decompressor : Z -> list byte -> option (list byte)
}.

Section PatchBytes.
  Variable C : patch_codecs.

  (** ---- the writer ---- *)
  Definition marshal_pmsg (m : pmsg) : list byte :=
    match m with MSH x => marshal_sh C x | MSO x => marshal_so C x | MBH x => marshal_bh C x | MCT x => marshal_ct C x end.

  (** the writer knows the type of what it writes *)
  Definition marshal_frame (f : pframe) : list byte :=
    match f with
    | FHeader a q => marshal_ph C (a, q)
    | FContainer c => marshal_tc C c
    | FMsg m => marshal_pmsg m
    end.

  (** CompressWire / DecompressWire *)
  Definition compress_wire (algo quality : Z) (s : list byte) : list byte :=
    if algo =? ALGO_NONE then s else compressor C algo quality s.
  Definition decompress_wire (algo : Z) (z : list byte) : option (list byte) :=
    if algo =? ALGO_NONE then Some z else decompressor C algo z.

  (** the patch file whose header announces [(algo, quality)] and whose compressed part carries
      the frames [rest]; [WPanic]: a body of 2^56 bytes or more (C13, [write_message_panics]) *)
  Definition patch_file (algo quality : Z) (rest : list pframe) : wres :=
    match write_msgs marshal_frame [FHeader algo quality] with
    | WPanic => WPanic
    | WOk h =>
      match write_stream marshal_frame (compress_wire algo quality) rest with
      | WPanic => WPanic
      | WOk z => WOk (magic_enc PATCH_MAGIC ++ h ++ z)
      end
    end.

  (** WritePatch for (old, new): [Stream.write_patch] is [FHeader algo quality ::] these frames *)
  Definition patch_bytes (differ : Z -> list byte -> list op) (algo quality : Z) (old new : build) : wres :=
    patch_file algo quality
      (FContainer (container_of old) :: FContainer (container_of new) :: map FMsg (patch_msgs differ old new)).

  (** ---- the reader ---- *)

  (** one [ReadMessage] of the per-file part on the body [b]: the message as the expected type,
      and what is expected next *)
  Definition decode_one (x : expect) (b : list byte) : option (pmsg * expect) :=
    match x with
    | XSyncHeader =>
      match unmarshal_sh C b with
      | Some h => Some (MSH h, if sh_type h =? SH_BSDIFF then XBsdiffHeader else XSyncOp)
      | None => None
      end
    | XSyncOp =>
      match unmarshal_so C b with
      | Some o => Some (MSO o, if so_type o =? HEY then XSyncHeader else XSyncOp)
      | None => None
      end
    | XBsdiffHeader =>
      match unmarshal_bh C b with
      | Some h => Some (MBH h, XControl)
      | None => None
      end
    | XControl =>
      match unmarshal_ct C b with
      | Some c => Some (MCT c, if ct_eof c then XSentinel else XControl)
      | None => None
      end
    | XSentinel =>
      match unmarshal_so C b with
      | Some o => Some (MSO o, XSyncHeader)
      | None => None
      end
    end.

  (** the per-file messages up to the first body that does not unmarshal *)
  Fixpoint decode_msgs (x : expect) (bodies : list (list byte)) : list pmsg :=
    match bodies with
    | [] => []
    | b :: r => match decode_one x b with
                | None => []
                | Some (m, x') => m :: decode_msgs x' r
                end
    end.

  (** the messages behind the decompressor: target container, source container, per-file part *)
  Definition decode_frames (bodies : list (list byte)) : list pframe :=
    match bodies with
    | [] => []
    | b1 :: r1 =>
      match unmarshal_tc C b1 with
      | None => []
      | Some t =>
        FContainer t ::
        match r1 with
        | [] => []
        | b2 :: r2 =>
          match unmarshal_tc C b2 with
          | None => []
          | Some s => FContainer s :: map FMsg (decode_msgs XSyncHeader r2)
          end
        end
      end
    end.

  (** the bodies a ReadContext over [DecompressWire] delivers: C13's [read_stream] with the body
      itself as the message *)
  Definition read_bodies (algo : Z) (cap : N) (z : list byte) : list (list byte) * rerr :=
    read_stream (fun b : list byte => Some b) (decompress_wire algo) cap z.

  (** patcher.New and the reads of Resume on the bytes [z] of a file: the frames that can be
      read and typed before the first failure, and the outcome of the framing layer ([EEOF] at
      the end of a complete stream).  [cap]: initial buffer capacity of the ReadContexts. *)
  Definition read_patch_bytes (cap : N) (z : list byte) : list pframe * rerr :=
    match expect_magic PATCH_MAGIC z with
    | inr e => ([], e)
    | inl r1 =>
      match read_one (unmarshal_ph C) cap r1 with
      | (ReadErr e, _, _, _) => ([], e)
      | (ReadOk (a, q), _, r2, _) =>
        let '(bodies, e) := read_bodies a cap r2 in
        (FHeader a q :: decode_frames bodies, e)
      end
    end.

  (** patcher.New over the file, a fresh bowl over an empty directory, Resume(nil), Commit *)
  Definition apply_patch_bytes (bs : Z) (olds : list (list byte)) (whitelist : option (list Z))
             (cap : N) (z : list byte) : res (tree * Z * list event) :=
    apply_patch_fresh bs olds whitelist (fst (read_patch_bytes cap z)).

  (** ---- the hypotheses of the theorems (all about the external components) ---- *)

  (** protobuf round trip, per message type *)
  Definition codecs_roundtrip : Prop :=
    (forall h, unmarshal_ph C (marshal_ph C h) = Some h) /\
    (forall c, unmarshal_tc C (marshal_tc C c) = Some c) /\
    (forall m, unmarshal_sh C (marshal_sh C m) = Some m) /\
    (forall m, unmarshal_so C (marshal_so C m) = Some m) /\
    (forall m, unmarshal_bh C (marshal_bh C m) = Some m) /\
    (forall m, unmarshal_ct C (marshal_ct C m) = Some m).

  (** the compression setting round-trips (C13's hypothesis, for the pair the header selects);
      NONE needs nothing *)
  Definition compression_roundtrips (algo quality : Z) : Prop :=
    algo = ALGO_NONE \/ forall s, decompressor C algo (compressor C algo quality s) = Some s.

  (** a cut compressed stream does not decompress to anything but a prefix of the original:
      the decompressor fails, or delivers a proper prefix ([truncation_detected]) / a prefix,
      possibly everything ([truncation_prefix]: a gzip stream that only lacks its trailer) *)
  Definition truncation_detected (algo quality : Z) : Prop :=
    algo = ALGO_NONE \/
    forall s p q, compressor C algo quality s = p ++ q -> q <> [] ->
      decompressor C algo p = None \/ exists s' r, decompressor C algo p = Some s' /\ s = s' ++ r /\ r <> [].
  Definition truncation_prefix (algo quality : Z) : Prop :=
    algo = ALGO_NONE \/
    forall s p q, compressor C algo quality s = p ++ q -> q <> [] ->
      decompressor C algo p = None \/ exists s' r, decompressor C algo p = Some s' /\ s = s' ++ r.

  (** every body is shorter than 2^56 bytes (what the writer's varint buffer can announce) *)
  Definition bodies_fit (fs : list pframe) : Prop :=
    Forall (fun f => (N.of_nat (length (marshal_frame f)) < 2 ^ 56)%N) fs.
End PatchBytes.
