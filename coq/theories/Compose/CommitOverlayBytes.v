(** C02 x C14, byte level - the overlay bowl with the stage folder holding *bytes*: an overlay
    stage file is what the C14 writer put there (Overlay/Writer.v at the real codec), Commit's
    [applyOverlays] runs C14's [Patch] + truncate (Overlay/Patch.v) on it, a move stage file is
    the written content.  Everything else is the model of Bowl/OverlayCommit.v, reused as is.
    Unlike [mk_overlay cur new] of C02, every [GetWriter] call carries its own sequence of
    [Write]/[Flush] calls and its own previous content of the stage file.  Definitions only;
    proofs in Compose/CommitOverlayBytesProofs.v. *)
From Wharf Require Import Base.Prelude Bowl.FSmini Bowl.OverlayCommit.
From Wharf Require Import Overlay.Writer Overlay.Patch Overlay.Codec.
From Wharf Require Import Compose.CommitOverlay.
Local Open Scope N_scope.

Definition bstage := list (path * list byte).

Fixpoint bstage_get (s : bstage) (p : path) : option (list byte) :=
  match s with
  | [] => None
  | (q, f) :: r => if path_eqb q p then Some f else bstage_get r p
  end.

Definition bstage_put (s : bstage) (p : path) (f : list byte) : bstage :=
  (p, f) :: filter (fun e => negb (path_eqb (fst e) p)) s.

(* ------------------------------------------------------------------ Commit on a byte stage *)

(** [move_from_stage] of Bowl/OverlayCommit.v; the stage file is moved whatever it holds *)
Definition move_from_stage_b (st : bstage) (t : fs) (p : path) : res fs :=
  do t1 <- match remove t p with
        | Ok t1 => Ok t1
        | Err ENOENT => Ok t
        | Err e => Err e
        | Unmodelled => Unmodelled
        end ;;
  do t2 <- mkdir_all t1 (parent p) ;;
  match bstage_get st p with
  | Some c =>
      do _ <- parent_ok t2 p ;;
      match lookup t2 p with
      | Some Dir => Err EISDIR
      | _ => Ok (set t2 p (File c))
      end
  | None => Err ENOENT
  end.

Definition apply_moves_b (w : work) (st : bstage) (t : fs) : res fs :=
  fold_res (move_from_stage_b st) (w_moves w) t.

(** [handleOverlay]: open the stage file, open the output file O_WRONLY, [ctx.Patch(r, w)],
    [w.Truncate(position)]; any failure of [Patch] (bad magic, undecodable message, no end
    marker) is an error of Commit *)
Definition apply_overlay_b (st : bstage) (t : fs) (p : path) : res fs :=
  match bstage_get st p with
  | Some file =>
      do cur <- open_existing t p ;;
      match apply_overlay_file Codec.dec Codec.magic cur file with
      | Some c => Ok (set t p (File c))
      | None => Err EINVAL
      end
  | None => Err ENOENT
  end.

Definition apply_overlays_b (w : work) (st : bstage) (t : fs) : res fs :=
  fold_res (apply_overlay_b st) (w_over w) t.

Definition commit_b (oc nc : container) (w : work) (st : bstage) (order1 order2 : list path) (gorder : list ghost) (t : fs) : res fs :=
  do t1 <- ensure_dirs_and_symlinks nc t ;;
  do t2 <- apply_transpositions oc nc w order1 order2 t1 ;;
  do t3 <- apply_moves_b w st t2 ;;
  do t4 <- apply_overlays_b w st t3 ;;
  delete_ghosts nc gorder t4.

(** the C02 stage that a byte stage stands for, given the work lists: the file of a path with a
    pending overlay is decoded ([SWhole] - "not an overlay file" - when it does not decode) *)
Definition decode_entry (w : work) (p : path) (f : list byte) : stagefile :=
  if mem p (w_over w)
  then match decode_file Codec.dec Codec.magic f with
       | Some ops => SOverlay (conv_ops ops)
       | None => SWhole f
       end
  else SWhole f.

Definition decode_stage (w : work) (st : bstage) : stage :=
  map (fun e => (fst e, decode_entry w (fst e) (snd e))) st.

(* ------------------------------------------------------------------ patch phase on a byte stage *)

(** the bowl calls with what goes through the entry writer: the [Write]/[Flush] calls (computed
    from the old tree, which the patcher only reads) and, for an overlay, what the stage file
    held when it was opened (no O_TRUNC) *)
Inductive bstep :=
  | BTranspose (p k : path)
  | BWrite (p : path) (evs : fs -> list event) (file0 : list byte).

Definition erase (s : bstep) : pstep :=
  match s with
  | BTranspose p k => PTranspose p k
  | BWrite p evs _ => PWrite p (fun t => written (evs t))
  end.

Record bworld := mkBWorld { bout : fs; bstg : bstage; bwk : work }.

Section PatchBytes.
  Variables (bufSize threshold : N).

  Definition patch_step_b (oc : container) (wd : bworld) (s : bstep) : bworld :=
    match s with
    | BTranspose p k =>
        mkBWorld (bout wd) (bstg wd) (OverlayCommit.mkW (transpose (w_trans (bwk wd)) p k) (w_over (bwk wd)) (w_moves (bwk wd)))
    | BWrite p evs file0 =>
        let es := evs (bout wd) in
        if mem p (c_files oc)
        then (* overlayEntryWriter against the old file at the same path *)
          let cur := match lookup (bout wd) p with Some (File c) => c | _ => [] end in
          mkBWorld (bout wd) (bstage_put (bstg wd) p (overlay_file bufSize threshold cur es file0))
                   (OverlayCommit.mkW (w_trans (bwk wd)) (mark (w_over (bwk wd)) p) (w_moves (bwk wd)))
        else (* freshEntryWriter: the bytes as they are *)
          mkBWorld (bout wd) (bstage_put (bstg wd) p (written es))
                   (OverlayCommit.mkW (w_trans (bwk wd)) (w_over (bwk wd)) (mark (w_moves (bwk wd)) p))
    end.

  Definition patch_phase_b (oc : container) (steps : list bstep) (wd : bworld) : bworld :=
    fold_left (patch_step_b oc) steps wd.
End PatchBytes.

Definition bworld0 (t : fs) : bworld := mkBWorld t [] (OverlayCommit.mkW [] [] []).
