(** C03 x C14 - the overlay entry writer of Compose/ResumeOverlay.v satisfies the writer
    contract [writer_ok] of Patch/ResumeProofs.v.

    The writer invariant [ow_inv] says: the writer is in the middle of a C14 session - opened
    over a file and at offsets satisfying C14's session precondition [pre] (Overlay/
    SessionProofs.v: the overlay up to the opening offset is magic + the messages of the
    earlier sessions, which applied to the old file give what those sessions were handed),
    and has since run some events.  With that
    - [W_final]  is C14's [sessions_ok] (the general form of [overlay_sessions]) for the last
                 session: Patch + truncate of the finalized file gives everything written;
    - [W_save]   is C14's [session_ok] + [session_lands] (behind [offsets_exact_after_flush] and
                 [flushed_prefix_applies]): after the Flush the reported (ReadOffset,
                 OverlayOffset) and ANY file that agrees with the flushed one below OverlayOffset
                 satisfy [pre] again - the step of the induction in [overlay_sessions];
    - [W_write], [W_open_new] are bookkeeping ([pre_init]). *)
From Wharf Require Import Base.Prelude Overlay.Fast Overlay.FastProofs Overlay.Writer Overlay.Patch
  Overlay.WindowProofs Overlay.WriterProofs Overlay.SessionProofs
  Patch.Resume Patch.ResumeProofs Patch.PlainWriter Patch.OverlayBowl Compose.ResumeOverlay.
From Coq Require Import ZifyBool ZifyNat ZifyN.
Local Open Scope N_scope.

Lemma written_app : forall a b, written (a ++ b) = written a ++ written b.
Proof.
  induction a as [|e a IH]; intros b; [reflexivity|]. destruct e; cbn [app written]; rewrite IH; [apply app_assoc|reflexivity].
Qed.

Section Contract.
  Variables (bufSize threshold : N).
  Variable enc : op -> list byte.
  Variable dec : list byte -> option (op * list byte).
  Variable magic : list byte.
  Hypothesis HbufSize : 0 < bufSize.
  Hypothesis dec_enc : forall o rest, dec (enc o ++ rest) = Some (o, rest).
  Variable old : N -> list byte.

  Notation new_writer := (new_writer enc magic).
  Notation bw_flush := (bw_flush bufSize threshold enc).
  Notation bw_write := (bw_write bufSize threshold enc).
  Notation run_events := (run_events bufSize threshold enc).
  Notation finalize := (finalize bufSize threshold enc).
  Notation patch := (patch dec magic).
  Notation pre := (pre enc magic).
  Notation ow_open := (ow_open enc dec magic old).
  Notation ow_write := (ow_write bufSize threshold enc).
  Notation ow_save := (ow_save bufSize threshold enc).
  Notation ow_final := (ow_final bufSize threshold enc).
  Notation ow_result := (ow_result dec magic old).
  Notation ow_session := (ow_session bufSize threshold enc magic old).
  Notation ow_finished := (ow_finished dec magic old).
  Notation decoded := (decoded enc dec magic old).

  Definition ow_inv (f : N) (w : ew_state) (raw : list byte) : Prop :=
    exists allops fed0 roff0 evs,
      pre (old f) (ew_base w) roff0 (ew_start w) allops fed0 /\
      ow_session f w raw roff0 evs /\
      ew_fed w = fed0 ++ written evs.

  Lemma pre_start_le : forall o file roff ooff allops fed, pre o file roff ooff allops fed -> (N.to_nat ooff <= length file)%nat.
  Proof.
    intros o file roff ooff allops fed (_ & _ & _ & [(-> & _)|(_ & tail & -> & Hoo)]); [lia|].
    rewrite Hoo, !app_length. lia.
  Qed.

  Lemma ew_file_eq : forall base start st, (N.to_nat start <= length base)%nat ->
    ew_file base start st = write_at base start (session_bytes st).
  Proof.
    intros base start st H. unfold ResumeOverlay.ew_file. destruct (session_bytes st) eqn:E; [|reflexivity].
    rewrite write_at_spec. replace (N.to_nat start - length base)%nat with O by lia. cbn [repeat app length].
    rewrite Nat.add_0_r. symmetry. apply firstn_skipn.
  Qed.

  Lemma run_events_snoc : forall st evs e, run_events st (evs ++ [e]) = run_event bufSize threshold enc (run_events st evs) e.
  Proof. intros. unfold Writer.run_events. rewrite fold_left_app. reflexivity. Qed.

  (** a session that has been flushed, and any file that keeps the flushed overlay up to the
      reported overlay offset, are a state from which C14's next session starts *)
  Lemma flushed_pre : forall o base roff0 start allops fed0 evs raw2,
    pre o base roff0 start allops fed0 ->
    let st := bw_flush (run_events (new_writer o roff0 start) evs) in
    let oo := N.to_nat (w_ooff st) in
    (oo <= length raw2)%nat ->
    firstn oo raw2 = firstn oo (write_at base start (session_bytes st)) ->
    exists allops', pre o raw2 (w_roff st) (w_ooff st) allops' (fed0 ++ written evs) /\
                    w_ooff st <> 0 /\
                    patch o (firstn oo raw2 ++ enc EndMark) = POk (fed0 ++ written evs).
  Proof.
    intros o base roff0 start allops fed0 evs raw2 Hpre st oo Hlen Hfirst.
    destruct (session_ok bufSize threshold enc magic HbufSize o roff0 start evs) as (ops & Hrel & _). cbn zeta in Hrel. fold st in Hrel.
    destruct (session_lands bufSize enc dec magic HbufSize dec_enc o base roff0 start allops fed0 st ops (written evs) Hpre Hrel)
      as (tail & Hfile & Hoo & _ & Hnz & Hap & Hro & Hne).
    set (allops' := (if start =? 0 then [Skip 0] else allops) ++ ops) in *.
    assert (Hfst : firstn oo raw2 = magic ++ enc_all enc allops').
    { rewrite Hfirst, Hfile. apply firstn_exact. exact Hoo. }
    exists allops'. split; [|split; [exact Hnz|]].
    - split; [exact Hap|]. split; [exact Hro|]. split; [exact Hne|]. right. split; [exact Hnz|].
      exists (skipn oo raw2). split; [|exact Hoo].
      rewrite <- Hfst. symmetry. apply firstn_skipn.
    - rewrite Hfst, <- app_assoc.
      replace (enc EndMark) with (enc EndMark ++ []) by apply app_nil_r.
      rewrite (patch_ok bufSize enc dec magic HbufSize dec_enc) by exact Hne. rewrite Hap. cbn [fst]. rewrite rev_involutive. reflexivity.
  Qed.

  Section Bowl.
    Variables tsize ssize : N -> N.
    Variable prepare : N -> list byte -> list byte.
    Variable copy_old : N -> list byte.
    Variable old_content : N -> list byte.

    (** [writer_ok] for the overlay entry writer (in the overlay bowl: [fresh = false]) *)
    Lemma overlay_writer_ok :
      writer_ok (list byte) (list byte) (list byte) ew_state ew_ckpt (fun d => N.of_nat (length d)) tsize ssize
                ow_open ow_write ow_save ow_final ow_tell ow_result false prepare copy_old old_content
                (fun c d => c ++ d) [] ow_abs ow_inv ow_raw_ok ow_covers ow_finished.
    Proof.
      constructor.
      - (* Resume(nil) on whatever sits at the stage path *)
        intros f raw _. eexists _, _. split; [reflexivity|]. split; [|split; reflexivity].
        exists [], [], 0, []. split; [apply pre_init|]. split; [|reflexivity].
        repeat split; reflexivity.
      - (* Write *)
        intros f w raw d (allops & fed0 & roff0 & evs & Hpre & (Hst & Hraw & Hsoff) & Hfed).
        cbn [ResumeOverlay.ow_write fst snd ow_abs ow_tell ew_soff ew_fed]. split; [|split; [reflexivity|rewrite len_spec; reflexivity]].
        exists allops, fed0, roff0, (evs ++ [EvWrite d]). unfold ResumeOverlay.ow_session. cbn [ew_base ew_start ew_st ew_soff ew_fed].
        split; [exact Hpre|]. split.
        + split; [|split; [reflexivity|]].
          * rewrite run_events_snoc, <- Hst. reflexivity.
          * rewrite Hsoff, !len_spec, app_length. lia.
        + rewrite written_app, Hfed, app_assoc. cbn [written]. rewrite app_nil_r. reflexivity.
      - (* Save, and Resume(c) on a crash disk *)
        intros f w raw (allops & fed0 & roff0 & evs & Hpre & (Hst & Hraw & Hsoff) & Hfed).
        cbn [ResumeOverlay.ow_save].
        set (st := bw_flush (ew_st w)).
        assert (Hst' : st = run_events (new_writer (old f) roff0 (ew_start w)) (evs ++ [EvFlush])).
        { rewrite run_events_snoc, <- Hst. reflexivity. }
        split; [|split; [reflexivity|split; [reflexivity|split; [reflexivity|]]]].
        + exists allops, fed0, roff0, (evs ++ [EvFlush]). unfold ResumeOverlay.ow_session. cbn [ew_base ew_start ew_st ew_soff ew_fed].
          split; [exact Hpre|]. split; [repeat split; auto|].
          rewrite written_app, Hfed. cbn [written]. rewrite app_nil_r. reflexivity.
        + intros raw2 (Hlen & Hfirst) _. cbn [snd] in Hlen, Hfirst.
          rewrite (ew_file_eq _ _ _ (pre_start_le _ _ _ _ _ _ Hpre)) in Hfirst.
          assert (Est : st = bw_flush (run_events (new_writer (old f) roff0 (ew_start w)) evs)).
          { unfold st. rewrite Hst. reflexivity. }
          rewrite Est in Hlen, Hfirst.
          destruct (flushed_pre (old f) (ew_base w) roff0 (ew_start w) allops fed0 evs raw2 Hpre Hlen Hfirst)
            as (allops' & Hpre' & Hnz & Hpatch).
          rewrite <- Est in Hpre', Hnz, Hpatch.
          eexists _, _. split; [reflexivity|].
          assert (Hdec : (if w_ooff st =? 0 then [] else decoded f raw2 (w_ooff st)) = ew_fed w).
          { destruct (N.eqb_spec (w_ooff st) 0) as [E|_]; [contradiction|].
            unfold ResumeOverlay.decoded. rewrite takeN_spec, Hpatch. symmetry. exact Hfed. }
          split; [|split; [exact Hdec|reflexivity]].
          exists allops', (fed0 ++ written evs), (w_roff st), []. unfold ResumeOverlay.ow_session. cbn [ew_base ew_start ew_st ew_soff ew_fed].
          split; [exact Hpre'|]. split; [|rewrite Hdec, Hfed; cbn [written]; rewrite app_nil_r; reflexivity].
          split; [reflexivity|]. split; [reflexivity|]. rewrite Hdec. exact Hsoff.
      - (* Finalize: C14's last session *)
        intros f w raw (allops & fed0 & roff0 & evs & Hpre & (Hst & Hraw & Hsoff) & Hfed) _.
        unfold ResumeOverlay.ow_finished, ResumeOverlay.ow_final, ow_abs.
        rewrite (ew_file_eq _ _ _ (pre_start_le _ _ _ _ _ _ Hpre)).
        pose proof (sessions_ok bufSize threshold enc dec magic HbufSize dec_enc (old f) [] evs (ew_base w) roff0 (ew_start w) allops fed0 Hpre) as H.
        cbn [Writer.run_sessions] in H. unfold Writer.run_events_log in H.
        destruct (fold_left (run_event_log bufSize threshold enc) evs (new_writer (old f) roff0 (ew_start w), [])) as [st0 log] eqn:E.
        assert (Hst0 : st0 = run_events (new_writer (old f) roff0 (ew_start w)) evs).
        { rewrite <- (run_events_log_fst bufSize threshold enc evs (new_writer (old f) roff0 (ew_start w)) []), E. reflexivity. }
        subst st0. cbn [map concat app] in H. destruct H as (_ & H). rewrite Hst, H, Hfed. reflexivity.
      - (* Commit *)
        intros f raw c H. unfold ResumeOverlay.ow_finished in H. unfold ResumeOverlay.ow_result. rewrite H. reflexivity.
      - discriminate.
      - discriminate.
      - discriminate.
      - discriminate.
    Qed.
  End Bowl.

  (** the entry writers of the overlay bowl - [freshEntryWriter] for new paths, the overlay
      entry writer for paths of the old build - satisfy the contract with no hypothesis about
      either left *)
  Lemma overlay_bowl_instance_ok :
    forall (is_overlay : N -> bool) (tsize ssize : N -> N) (oldt : N -> list byte),
      (forall t, length (oldt t) = N.to_nat (tsize t)) ->
      writer_ok (list byte) (list byte) (list byte) (N + ew_state) (unit + ew_ckpt) (fun d => N.of_nat (length d)) tsize ssize
                (d_open _ _ _ _ _ is_overlay p_open ow_open) (d_write _ _ _ _ p_write ow_write) (d_save _ _ _ _ _ p_save ow_save)
                (d_final _ _ _ p_final ow_final) (d_tell _ _ p_tell ow_tell) (d_result _ _ is_overlay p_result ow_result) false
                (p_prepare ssize) (p_copy_old oldt) oldt (fun c d => c ++ d) []
                (d_abs _ _ _ _ p_abs ow_abs) (d_inv _ _ _ is_overlay (p_inv ssize) ow_inv) (d_raw_ok _ is_overlay (p_raw_ok ssize) ow_raw_ok)
                (d_covers _ _ _ is_overlay p_covers ow_covers) (d_finished _ _ is_overlay (p_finished ssize) ow_finished).
  Proof.
    intros is_overlay tsize ssize oldt Hold. apply overlay_bowl_writer_ok; [exact Hold|]. apply overlay_writer_ok.
  Qed.
End Contract.
