(** C02 x C14 - proofs: [Patch] + truncate of Overlay/Patch.v on a stage file is [apply_ops] of
    Bowl/OverlayCommit.v on the operations the file decodes to; hence the overlay writer of
    Overlay/Writer.v at the real codec satisfies the hypothesis that C02 makes about
    [mk_overlay], and the C02 theorems hold with that hypothesis discharged. *)
From Coq Require Import Permutation.
From Wharf Require Import Base.Prelude Bowl.FSmini Bowl.OverlayCommit Bowl.CommitSpec Bowl.PatchPhaseProofs.
From Wharf Require Import Overlay.Fast Overlay.FastProofs Overlay.Writer Overlay.Patch Overlay.Codec Overlay.WindowProofs
  Overlay.SessionProofs Overlay.CodecProofs.
From Wharf Require Import Compose.CommitOverlay.
From Coq Require Import ZifyBool ZifyNat ZifyN.
Local Open Scope N_scope.

(* ------------------------------------------------------------------ the two cursor models *)

Lemma take_pad_spec : forall n (l : list N), take_pad n l = firstn n l ++ repeat 0 (n - length l)%nat.
Proof.
  induction n as [|n IH]; intros l; cbn [take_pad firstn]; [reflexivity|].
  destruct l as [|x l]; cbn [length].
  - rewrite IH. rewrite firstn_nil. cbn [app length]. rewrite Nat.sub_0_r. reflexivity.
  - rewrite IH. cbn [app Nat.sub]. reflexivity.
Qed.

Lemma rev_repeat : forall (A : Type) (v : A) k, rev (repeat v k) = repeat v k.
Proof.
  intros A v k. induction k as [|k IH]; [reflexivity|].
  cbn [repeat rev]. rewrite IH. symmetry. apply repeat_cons.
Qed.

(** C14's cursor (bytes before the position most recent first, bytes from the position on) against
    C02's front-to-back assembly: same content, for every list of messages *)
Lemma cursor_is_apply_ops : forall (ops : list Writer.op) (before after : list byte),
  rev (fst (Patch.apply_ops ops (before, after))) = rev before ++ OverlayCommit.apply_ops (conv_ops ops) after.
Proof.
  induction ops as [|o ops IH]; intros before after.
  - cbn. rewrite app_nil_r. reflexivity.
  - unfold Patch.apply_ops in *. cbn [fold_left]. unfold conv_ops in *. cbn [flat_map].
    destruct o as [n|d|]; cbn [apply_op conv_op].
    + rewrite IH, rev_append_rev. autorewrite with fast. rewrite rev_app_distr, rev_repeat, rev_app_distr, rev_involutive.
      destruct (N.eqb_spec n 0) as [->|Hn].
      * cbn [N.to_nat firstn skipn length app repeat N.of_nat N.sub N.eqb]. rewrite !app_nil_r. reflexivity.
      * cbn [app OverlayCommit.apply_ops]. rewrite take_pad_spec, <- !app_assoc.
        rewrite firstn_length.
        replace (N.to_nat (n - N.of_nat (Nat.min (N.to_nat n) (length after)))) with (N.to_nat n - length after)%nat by lia.
        reflexivity.
    + rewrite IH, rev_append_rev. autorewrite with fast. rewrite rev_app_distr, rev_involutive.
      destruct d as [|x d].
      * cbn [length skipn app]. rewrite app_nil_r. reflexivity.
      * cbn [app OverlayCommit.apply_ops]. rewrite <- !app_assoc. reflexivity.
    + apply IH.
Qed.

Section Decode.
  Variable dec : list byte -> option (Writer.op * list byte).
  Variable magic : list byte.

  (** [patch_loop] is [decode_all] followed by the cursor operations *)
  Lemma patch_loop_decode_all : forall fuel s c,
    match decode_all dec fuel s with
    | Some ops => patch_loop dec fuel s c = POk (rev (fst (Patch.apply_ops ops c)))
    | None => forall r, patch_loop dec fuel s c <> POk r
    end.
  Proof.
    induction fuel as [|f IH]; intros s c; cbn [decode_all patch_loop].
    - intros r; discriminate.
    - destruct (dec s) as [[o rest]|]; [|intros r; discriminate].
      destruct o as [n|d|].
      + specialize (IH rest (apply_op (Writer.Skip n) c)). destruct (decode_all dec f rest); cbn [option_map]; exact IH.
      + specialize (IH rest (apply_op (Writer.Fresh d) c)). destruct (decode_all dec f rest); cbn [option_map]; exact IH.
      + cbn. rewrite rev_append_rev, app_nil_r. destruct c; reflexivity.
  Qed.

  (** applyOverlays' [Patch] + truncate = C02's [apply_ops] on the decoded stage file; a file that
      does not decode makes [Patch] fail *)
  Theorem patch_is_apply_ops : forall (cur file : list byte),
    match decode_file dec magic file with
    | Some ops => patch dec magic cur file = POk (OverlayCommit.apply_ops (conv_ops ops) cur)
    | None => forall r, patch dec magic cur file <> POk r
    end.
  Proof.
    intros cur file. unfold decode_file, patch. destruct (expect_magic magic file) as [s|]; [|intros r; discriminate].
    pose proof (patch_loop_decode_all (S (length_tr s)) s ([], cur)) as H.
    destruct (decode_all dec (S (length_tr s)) s) as [ops|]; [|exact H].
    rewrite H, cursor_is_apply_ops. reflexivity.
  Qed.

  Corollary patch_ok_stage_ops : forall (cur file c : list byte),
    patch dec magic cur file = POk c -> OverlayCommit.apply_ops (stage_ops dec magic file) cur = c.
  Proof.
    intros cur file c H. pose proof (patch_is_apply_ops cur file) as H1. unfold stage_ops.
    destruct (decode_file dec magic file) as [ops|].
    - rewrite H1 in H. now injection H.
    - exfalso. exact (H1 c H).
  Qed.

  Corollary apply_overlay_file_spec : forall (cur file c : list byte),
    apply_overlay_file dec magic cur file = Some c <->
    exists ops, decode_file dec magic file = Some ops /\ c = OverlayCommit.apply_ops (conv_ops ops) cur.
  Proof.
    intros cur file c. unfold apply_overlay_file. pose proof (patch_is_apply_ops cur file) as H1.
    destruct (decode_file dec magic file) as [ops|].
    - rewrite H1. split.
      + intros E. injection E as <-. now exists ops.
      + intros [ops' [E ->]]. now injection E as <-.
    - split.
      + destruct (patch dec magic cur file) as [r| |] eqn:E; try discriminate. exfalso. exact (H1 r eq_refl).
      + intros [ops' [E _]]. discriminate.
  Qed.
End Decode.

(* ------------------------------------------------------------------ the writer instance *)

Section Instance.
  Variables (bufSize threshold : N).
  Hypothesis HbufSize : 0 < bufSize.

  (** C14 at the real codec, read through the decoding: whatever the write pattern and whatever
      the stage file held before, the stage overlay applied to the old content gives what was
      written *)
  Lemma overlay_file_ok : forall (cur : list byte) (evs : list event) (file0 : list byte),
    OverlayCommit.apply_ops (stage_ops Codec.dec Codec.magic (overlay_file bufSize threshold cur evs file0)) cur = written evs.
  Proof.
    intros cur evs file0. apply patch_ok_stage_ops.
    exact (proj2 (overlay_correct_lemma bufSize threshold Codec.enc Codec.dec Codec.magic HbufSize dec_enc_real cur evs file0)).
  Qed.

  Lemma overlay_file_no_fail : forall (cur : list byte) (evs : list event),
    w_fail (finalize bufSize threshold Codec.enc
              (run_events bufSize threshold Codec.enc (new_writer Codec.enc Codec.magic cur 0 0) evs)) = false.
  Proof.
    intros cur evs.
    exact (proj1 (overlay_correct_lemma bufSize threshold Codec.enc Codec.dec Codec.magic HbufSize dec_enc_real cur evs [])).
  Qed.

  Variable sched : list N -> list N -> list event.
  Variable junk : list N -> list N -> list byte.
  Hypothesis sched_ok : forall cur new, written (sched cur new) = new.

  (** the hypothesis of C02 ([mk_ok] of Bowl/PatchPhaseProofs.v) for the C14 writer *)
  Theorem mk_overlay_c14_ok : forall cur new,
    OverlayCommit.apply_ops (mk_overlay_c14 bufSize threshold sched junk cur new) cur = new.
  Proof. intros cur new. unfold mk_overlay_c14. rewrite overlay_file_ok. apply sched_ok. Qed.
End Instance.

(* ------------------------------------------------------------------ the C02 theorems, discharged *)

Theorem patch_phase_sound_overlay_instance_lemma :
  forall (bufSize threshold : N), 0 < bufSize ->
  forall (sched : list N -> list N -> list event) (junk : list N -> list N -> list byte),
    (forall cur new, written (sched cur new) = new) ->
  forall (ob nb : build), wf_build ob ->
  forall (steps : list pstep), steps_describe ob nb steps ->
    let wd := patch_phase (mk_overlay_c14 bufSize threshold sched junk) (cont ob) steps (world0 ob) in
    out wd = tree_of ob /\ patch_sound ob nb (wk wd) (stg wd).
Proof.
  intros bufSize threshold Hb sched junk Hs.
  exact (patch_phase_sound_lemma _ (mk_overlay_c14_ok bufSize threshold Hb sched junk Hs)).
Qed.

Theorem inplace_apply_overlay_instance_lemma :
  forall (bufSize threshold : N), 0 < bufSize ->
  forall (sched : list N -> list N -> list event) (junk : list N -> list N -> list byte),
    (forall cur new, written (sched cur new) = new) ->
  forall (ob nb : build) (steps : list pstep),
    wf_build ob -> wf_build nb -> steps_describe ob nb steps ->
    let wd := patch_phase (mk_overlay_c14 bufSize threshold sched junk) (cont ob) steps (world0 ob) in
    H_kinds ob nb (wk wd) ->
  forall (order1 order2 : list path) (go : list ghost),
    Permutation order1 (trans_keys (wk wd)) -> Permutation order2 (trans_keys (wk wd)) -> ghost_order_ok nb ob go ->
    out wd = tree_of ob /\
    exists t', OverlayCommit.commit (cont ob) (cont nb) (wk wd) (stg wd) order1 order2 go (out wd) = Ok t' /\
               forall p, lookup t' p = lookup (tree_of nb) p.
Proof.
  intros bufSize threshold Hb sched junk Hs.
  exact (inplace_apply_lemma _ (mk_overlay_c14_ok bufSize threshold Hb sched junk Hs)).
Qed.
