(** C03 x C14 - the [overlayEntryWriter] of pwr/bowl/bowl_overlay.go as an instance of the
    entry-writer interface of Patch/Resume.v ([w_open] ... [w_result]), built from the overlay
    writer of Overlay/Writer.v and from [Patch] + truncate of Overlay/Patch.v.  Definitions
    only; the proof of the contract [writer_ok] is in Compose/ResumeOverlayProofs.v.

    Go:
    - [Resume(nil)]: open the stage file O_CREATE|O_WRONLY (no truncation), seek the old-file
      reader to 0, [NewOverlayWriter(r, 0, f, 0)] (writes magic + header right away);
    - [Resume(c)]: seek the reader to [ReadOffset], the file to [OverlayOffset], [sourceOffset =
      c.Offset], [NewOverlayWriter(r, ReadOffset, f, OverlayOffset)];
    - [Write]: [overlay.Write], [sourceOffset += n];
    - [Save]: [overlay.Flush], fsync, checkpoint [(sourceOffset, (ReadOffset(), OverlayOffset()))];
    - [Finalize]: [overlay.Finalize] (flush + end marker), fsync;
    - Commit ([applyOverlays]): [ctx.Patch(stage file, old file)], truncate at the final position.

    RAW = the bytes of the overlay file in the stage folder.  As in C14's [run_sessions] the
    file is described as "what it was when this writer was opened, overwritten from the opening
    overlay offset on by everything this writer has put out" ([write_at base start
    (session_bytes st)]); [ew_base]/[ew_start] record that opening state and [ew_fed] is a
    history variable (the logical content written so far through all sessions: at [Resume(c)]
    it is what the kept prefix of the overlay decodes to).  Neither exists in the Go struct;
    no operation's effect on the file or on the checkpoint depends on [ew_fed]. *)
From Wharf Require Import Base.Prelude Overlay.Writer Overlay.Patch.
Local Open Scope N_scope.

Section OverlayEntryWriter.
  Variables (bufSize threshold : N).
  Variable enc : op -> list byte.
  Variable dec : list byte -> option (op * list byte).
  Variable magic : list byte.
  Variable old : N -> list byte.        (* the old build's file at the path of source file f *)

  Record ew_state := mkEW {
    ew_st : wstate;          (* overlay.OverlayWriter *)
    ew_soff : N;             (* sourceOffset *)
    ew_base : list byte;     (* the overlay file when this writer was opened *)
    ew_start : N;            (* the overlay offset it was opened at *)
    ew_fed : list byte       (* history: everything written to the entry so far *)
  }.

  (** OverlayEntryWriterCheckpoint: (ReadOffset, OverlayOffset) *)
  Definition ew_ckpt := (N * N)%type.

  (** the file: nothing is written (and no hole is made) before the first message goes out *)
  Definition ew_file (base : list byte) (start : N) (st : wstate) : list byte :=
    match session_bytes st with
    | [] => base
    | b => write_at base start b
    end.

  (** what [Patch] + truncate make of an overlay that is cut at [oo] and closed by an end marker *)
  Definition decoded (f : N) (raw : list byte) (oo : N) : list byte :=
    match patch dec magic (old f) (takeN oo raw ++ enc EndMark) with
    | POk c => c
    | _ => []
    end.

  Definition ow_open (f : N) (c : option (N * ew_ckpt)) (raw : list byte) : option (ew_state * list byte) :=
    match c with
    | None =>
        let st := new_writer enc magic (old f) 0 0 in
        Some (mkEW st 0 raw 0 [], ew_file raw 0 st)
    | Some (off, (ro, oo)) =>
        let st := new_writer enc magic (old f) ro oo in
        Some (mkEW st off raw oo (if oo =? 0 then [] else decoded f raw oo), ew_file raw oo st)
    end.

  Definition ow_write (f : N) (w : ew_state) (raw : list byte) (d : list byte) : ew_state * list byte :=
    let st := bw_write bufSize threshold enc (ew_st w) d in
    (mkEW st (ew_soff w + len d) (ew_base w) (ew_start w) (ew_fed w ++ d), ew_file (ew_base w) (ew_start w) st).

  Definition ow_save (f : N) (w : ew_state) (raw : list byte) : (N * ew_ckpt) * ew_state * list byte :=
    let st := bw_flush bufSize threshold enc (ew_st w) in
    ((ew_soff w, (w_roff st, w_ooff st)),
     mkEW st (ew_soff w) (ew_base w) (ew_start w) (ew_fed w), ew_file (ew_base w) (ew_start w) st).

  Definition ow_final (f : N) (w : ew_state) (raw : list byte) : list byte :=
    ew_file (ew_base w) (ew_start w) (finalize bufSize threshold enc (ew_st w)).

  Definition ow_tell (w : ew_state) : N := ew_soff w.

  (** Commit: [Patch] the old file with the overlay, truncate at the final position *)
  Definition ow_result (f : N) (raw : list byte) : option (list byte) :=
    match patch dec magic (old f) raw with POk c => Some c | _ => None end.

  (** *** ghost notions of the writer contract *)
  Definition ow_abs (f : N) (w : ew_state) (raw : list byte) : list byte := ew_fed w.

  (** the writer is in the middle of a C14 session: opened in a state satisfying C14's
      session precondition [pre] (proved in Compose/ResumeOverlayProofs.v, where [pre] is in
      scope), it has since been given the events [evs] *)
  Definition ow_session (f : N) (w : ew_state) (raw : list byte) (roff0 : N) (evs : list event) : Prop :=
    ew_st w = run_events bufSize threshold enc (new_writer enc magic (old f) roff0 (ew_start w)) evs /\
    raw = ew_file (ew_base w) (ew_start w) (ew_st w) /\
    ew_soff w = len (ew_fed w).

  (** any file may sit at the stage path before the writer is opened from scratch *)
  Definition ow_raw_ok (f : N) (raw : list byte) : Prop := True.

  (** the crash model: the overlay file of the crash disk still has its first [OverlayOffset]
      bytes; anything may follow them (the lost tail of the dead process, junk, an old end
      marker) *)
  Definition ow_covers (f : N) (c : N * ew_ckpt) (raw raw2 : list byte) : Prop :=
    let oo := N.to_nat (snd (snd c)) in
    (oo <= length raw2)%nat /\ firstn oo raw2 = firstn oo raw.

  Definition ow_finished (f : N) (raw c : list byte) : Prop := patch dec magic (old f) raw = POk c.
End OverlayEntryWriter.
