(** Non-vacuity of [resume_equiv_instantiated] (Compose/ResumeInst.v): the patch of
    Patch/ResumeExample.v (block size 4, old file 1..6, new file 9 9 1 2 3 4 7 5 6) applied in
    place - overlay bowl, overlay window 4 / threshold 1, the real overlay message encoding of
    Overlay/Codec.v, the wire reader over the framed messages on a seek source.  The run that
    always saves offers two checkpoints; the first one (3 messages read, 6 bytes of the new
    file written, ReadOffset 6, OverlayOffset 21) is resumed on a crash disk that keeps the
    21 covered bytes of the overlay followed by junk and a stale end marker.

    Also: the two ways in which [H_wire] as literally stated (all [src <= off]) asks for more
    than C13 gives, as computed facts about the faithful instance. *)
From Wharf Require Import Base.Prelude Overlay.Writer Overlay.Patch Overlay.Codec
  Patch.Resume Patch.ResumeProofs Patch.PlainWriter Patch.OverlayBowl Patch.ResumeExample
  Wire.Frame Wire.FrameProofs Wire.Reader Wire.ReaderProofs
  Compose.ResumeWire Compose.ResumeOverlay Compose.ResumeInst.

(** some injective encoding of the patch messages (only the frame lengths matter here) *)
Definition xi_marshal (m : msg (list byte)) : list byte :=
  match m with
  | MHeader fi b => [1; fi]%N
  | MRange f bi sp => [2; f; bi; sp]%N
  | MData d => (3 :: d)%N
  | MEnd => [4]%N
  | MBsHeader t => [5; t]%N
  | MCtrl a c s => (6 :: a ++ c)%N
  | MCtrlEof => [7]%N
  end.

Definition xi_emit := emit_w xi_marshal ex_msgs seek_beh.
Definition xi_resume := src_resume_w xi_marshal ex_msgs seek_beh 0.
Definition xi_sel : N -> bool := fun _ => true.          (* the new file's path exists in the old build *)
Definition xi_run := ob_run 4 1 enc dec magic 4 ex_tsize ex_ssize 1 ex_old ex_old ex_range ex_bs xi_sel xi_emit.
Definition xi_start := ob_start ex_ssize ex_d0.
Definition xi_resumed := ob_resumed 4 1 enc dec magic 4 ex_tsize ex_ssize 1 ex_old ex_old ex_range ex_bs xi_sel xi_emit xi_resume.
Definition xi_commit := ob_commit dec magic 1 ex_old ex_old xi_sel.
Definition xi_first := xi_run (fun _ => true) (fun _ => false) xi_start ex_msgs.

Definition xi_ck0 : ckpt (unit + ew_ckpt) := mkck _ (mkmc 0 0) 0 false bowl0 0 (inl tt) 0%Z 0.
Definition xi_offer : ckpt (unit + ew_ckpt) * (N -> list byte) :=
  match xi_first with
  | Finished _ _ _ s => nth 1 (s_offers _ _ _ s) (xi_ck0, ex_d0)
  | _ => (xi_ck0, ex_d0)
  end.

(** the crash disk: the 21 covered bytes, then junk, a stale end marker, junk *)
Definition xi_crash : N -> list byte :=
  fun g => if N.eqb g 0
           then [0; 111; 239; 15; 0; 8; 8; 1; 26; 4; 9; 9; 1; 2; 6; 8; 1; 26; 2; 3; 4;  42; 3; 8; 248; 15; 42]%N
           else [77]%N.

Lemma resume_instantiated_example_lemma :
  exists Sf,
    xi_run (fun _ => false) (fun _ => false) xi_start ex_msgs = Finished _ _ _ Sf /\
    ob_sized 4 1 enc dec magic 4 ex_tsize ex_ssize 1 ex_old ex_old ex_range ex_bs xi_sel xi_emit xi_start ex_msgs /\
    (forall g, ob_raw_ok ex_ssize xi_sel g (ex_d0 g)) /\
    xi_commit Sf = Some [Some ex_new] /\
    ob_offered 4 1 enc dec magic 4 ex_tsize ex_ssize 1 ex_old ex_old ex_range ex_bs xi_sel xi_emit xi_resume
               ex_msgs ex_d0 (fst xi_offer) (snd xi_offer) /\
    ck_msg _ (fst xi_offer) = mkmc 3 2 /\ ck_woff _ (fst xi_offer) = 6%N /\ ck_wdata _ (fst xi_offer) = inr (6%N, 21%N) /\
    ob_crash ex_ssize xi_sel (fst xi_offer) (snd xi_offer) xi_crash /\
    snd xi_offer 0%N <> xi_crash 0%N /\
    exists sf, xi_resumed (fun _ => false) (fun _ => false) (fst xi_offer) xi_crash ex_msgs = Finished _ _ _ sf /\
               xi_commit sf = Some [Some ex_new].
Proof.
  eexists. split; [vm_compute; reflexivity|].
  split. { vm_compute. repeat split; auto; discriminate. }
  split. { intros g. exact I. }
  split; [vm_compute; reflexivity|].
  split.
  { eapply (off_first _ _ _ _ _ _ _ _ _ _ _ _ _ _ _ _ _ _ _ _ _ _ _ _ _ _ (fun _ => true) (fun _ => false)).
    - unfold xi_offer, xi_first, xi_run, xi_start, ob_run, ob_start. vm_compute. reflexivity.
    - unfold xi_offer, xi_first, xi_run, xi_start, ob_run, ob_start. vm_compute. right. left. reflexivity. }
  split; [vm_compute; reflexivity|]. split; [vm_compute; reflexivity|]. split; [vm_compute; reflexivity|].
  split.
  { unfold ob_crash, crash_ok. split; [|split].
    - vm_compute. repeat split; auto. repeat constructor.
    - intros g Hg. vm_compute in Hg. destruct g; discriminate Hg.
    - intros g _. exact I. }
  split; [vm_compute; discriminate|].
  eexists. split; vm_compute; reflexivity.
Qed.

(** [H_wire] quantifies over all [src <= off].  (1) A reader index beyond the last message is
    not a position of the stream: the faithful instance restarts at the end. *)
Lemma h_wire_beyond_end : xi_resume 7 2 = Some 6.
Proof. vm_compute. reflexivity. Qed.

(** (2) A sound source may describe, in the checkpoint it hands out during the read of message
    [p], any offset up to the END of that message (a decompressor at a block boundary inside
    the read); [ReadContext.Resume] with reader offset = the START of message [p] then fails
    ("delta < 0") - C13's guarantee is for [src < off] only.  The patcher never produces such
    a checkpoint ([offered_wf]): it pops after the read has returned. *)
Definition late_beh : behaviour := fun _ after => Some (mk_sc after after).

Lemma late_beh_sound : beh_sound late_beh.
Proof. intros b a sc H. inversion H; subst; cbn. split; apply N.le_refl. Qed.

Lemma h_wire_src_eq_off : src_resume_w xi_marshal ex_msgs late_beh 0 3 3 = None /\
                          src_resume_w xi_marshal ex_msgs late_beh 0 3 2 = Some 3.
Proof. vm_compute. split; reflexivity. Qed.
