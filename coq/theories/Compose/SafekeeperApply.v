(** C09 composed with C01: the patcher (Patch/Patcher.v) reading the old build THROUGH the
    safekeeper pool (Val/Safekeeper.v) instead of reading the list [olds] directly.

    [apply_patch_fresh_sk bs c entries hash heqb signed actual whitelist frames] has the control
    structure of [Patcher.apply_patch_fresh] (copied below, function by function, with the
    suffix [_sk]); the only difference is how the bytes of an old file are obtained:

      Patcher.transpose     [pool_open tgt] (the whole list)
        => [transpose_sk]   safeKeeper.GetReader + io.CopyBuffer = C09's consumer [PCopy]
                            ([run_pattern ... PCopy], bowl_fresh.go Transpose)
      Patcher.apply_range   [slice d (bs*i) (op_size fileSize i s)]
        => [apply_range_sk] safeKeeper.GetReadSeeker, Seek(bs*i), io.CopyBuffer(LimitReader(opSize))
                            = C09's loop [range_loop] (wsync/algo.go ApplySingleFull) started at
                            [bs*i] for [op_size fileSize i s] bytes, where [fileSize] is
                            pool.GetSize = safeKeeper.GetSize = inner.GetSize = the size in the
                            PATCH's target container - not the size in the signature's
                            container, not the size on disk.  C09's pattern [PRange] computes
                            the op size from the signed size and is proved for ranges inside
                            the signed file only ([pattern_ok]); the patcher's range can start
                            anywhere and have any size, so this is a consumer of its own:
                            [sk_range], sound by [sk_range_sound] (SafekeeperApplyProofs.v).
      Patcher.bs_apply      [skipn off old], with the checks against [length old]
        => [bs_apply_sk]    bsdiff/patch.go Apply over bsdiff/lrufile over the safekeeper reader:
                            [lf.Reset] = Seek(0, End) - the size lrufile works with is the size
                            of the file ON DISK -, [lf.Seek(OldOffset)] checked against that
                            size, then [lf.Read] loading 32 KiB chunks, each miss being C09's
                            chunk-read consumer for one chunk ([chunk_loop ... [ci]]:
                            Seek(ci*c), one Read of c bytes, io.EOF tolerated), hits served
                            from the LRU cache ([lru], recency list of capacity [entries]).

    [signed] = the old build the signature was computed from (file contents by index);
    [actual] = the old build on disk now: [Some d] a file holding [d], [None] a file that is
    not there (fspool.GetReadSeeker fails).  The patch's own target container [oldC] is
    whatever the patch says (sizes for GetSize, number of files for the index checks).

    As in Patcher.v: the pieces an io.CopyBuffer hands to the output are written with ONE
    [w_write] / [transpose_write] of their concatenation (Patcher.v does the same with the
    whole slice), so that results can be compared with [=]; a copy that fails half-way is [Err]
    (the partial output is not part of the result of a failed application).
    A loop of C09's model that runs out of fuel is [Panic] here (it never does:
    SafekeeperApplyProofs.v).  Definitions only. *)
From Wharf Require Import Base.Prelude Val.Drip Val.VPool Val.Safekeeper
     Bowl.Fresh Patch.Reinterp Patch.Stream Patch.Patcher.
Local Open Scope Z_scope.

(** ---- lrufile over the safekeeper reader ---- *)

(** simplelru + storage: chunk index -> the bytes loaded for it, most recent first.  (The slots
    of [storage] keep stale bytes behind what was loaded; [Read] never serves them because it
    slices by the file size - C12, Bsdiff/LruProofs.v - and here [lsize] is the size of the
    very file the chunks are read from: every cached chunk is [slice actual (ci*c) c],
    [get_chunk_sound] in the proofs.) *)
Definition lru := list (N * list byte).

Fixpoint lru_find (ci : N) (l : lru) : option (list byte) :=
  match l with
  | [] => None
  | (k, d) :: r => if (k =? ci)%N then Some d else lru_find ci r
  end.
Fixpoint lru_remove (ci : N) (l : lru) : lru :=
  match l with
  | [] => []
  | (k, d) :: r => if (k =? ci)%N then r else (k, d) :: lru_remove ci r
  end.
(** Get (hit): moved to the front *)
Definition lru_touch (ci : N) (d : list byte) (l : lru) : lru := (ci, d) :: lru_remove ci l.
(** Add: pushed to the front, the oldest entry evicted beyond the capacity *)
Definition lru_add (entries : nat) (ci : N) (d : list byte) (l : lru) : lru :=
  firstn entries ((ci, d) :: lru_remove ci l).

(** the safekeeper reader of the old file + the lrufile cache *)
Record bsst := mkB { b_rd : rd; b_lru : lru }.

(** what reading [n] bytes from lrufile gives: all of them, fewer (io.EOF), an error *)
Inductive lfres := LBytes (d : list byte) | LShort | LFail | LFuel.

Section SkPatcher.
  Context {H : Type}.
  Variable bs : N.                       (* pwr.BlockSize *)
  Variable c : N.                        (* 32 KiB: io.Copy buffer, wsync buffer, lrufile chunk *)
  Variable entries : nat.                (* lrufile: 1024 chunks *)
  Variable hash : list byte -> H.
  Variable heqb : H -> H -> bool.
  Variables oldC newC : container.       (* target / source container of the patch *)
  Variable signed : list (list byte).    (* what the signature describes, by old file index *)
  Variable actual : list (option (list byte)).   (* what is on disk now *)
  Variable whitelist : option (list Z).

  Definition bsz : Z := Z.of_N bs.

  (** safeKeeper.GetReadSeeker / GetReader up to the point where the inner pool has opened the
      file: fspool indexes the patch's container (a panic when out of range), then opens the
      file (an error when it is not there).  What the safekeeper knows of file [i] is entry
      [i] of the signature.  A file on disk that the signature has no entry for (a signature
      of another build): the first Read panics in Go (index out of range on the signature's
      container.Files, replayed on the real code); [Panic] here, excluded in the theorems by
      [length actual = length signed]. *)
  Definition sk_file (i : Z) : res (N * skfile byte H) :=
    match znth actual i with
    | None | Some None => Err
    | Some (Some a) =>
      match znth signed i with
      | Some s => Ok (Z.to_N i, skfile_of bs hash s a)
      | None => Panic
      end
    end.
  Definition sk_open (i : Z) : res (N * skfile byte H) :=
    match znth (c_files oldC) i with
    | None => Panic
    | Some _ => sk_file i
    end.

  Definition of_outcome {A} (o : outcome) (a : A) : res A :=
    match o with Done => Ok a | Failed => Err | OutOfFuel => Panic end.

  (** freshBowl.Transpose: TargetPool.GetReader(tgt), OutputPool.GetWriter(src), io.CopyBuffer
      = C09's whole-file-copy consumer on the safekeeper pool [p] *)
  Definition transpose_sk (s : pst) (p : pool) (src tgt : Z) : res (pst * pool) :=
    let s1 := ev (ev s (EvTranspose src tgt)) (EvRead tgt) in
    bind (sk_open tgt) (fun ff =>
    match znth (c_files newC) src with
    | None => Panic
    | Some (pth, _) =>
      let '(r', ps, o) := run_pattern bs c hash heqb Fixed (snd ff) p (fst ff) PCopy in
      bind (of_outcome o tt) (fun _ =>
      bind (transpose_write (p_tree s1) pth (concat ps)) (fun t =>
      Ok (mkP t (p_trace s1), pool_after p (fst ff) r')))
    end).

  (** the block-range consumer as the patcher drives it: GetReadSeeker, Seek(off),
      io.CopyBuffer(output, io.LimitReader(target, size), buffer) - any [off], any [size] *)
  Definition sk_range (f : skfile byte H) (p : pool) (fi off size : N) : rd * list (list byte) * outcome :=
    range_loop bs c hash heqb Fixed (S (N.to_nat size)) f (sk_seek (sk_get_read_seeker Fixed p fi) off) size.

  (** wsync.ApplySingleFull, OpBlockRange, through the safekeeper *)
  Definition apply_range_sk (w : wst) (p : pool) (f i s : Z) : res (wst * pool) :=
    let w1 := mkW (ev (w_st w) (EvSize f)) (w_path w) (w_off w) in
    match znth (c_files oldC) f with
    | None => Panic
    | Some (_, fileSize) =>                      (* safeKeeper.GetSize = inner.GetSize *)
      let w2 := mkW (ev (w_st w1) (EvRead f)) (w_path w) (w_off w) in
      bind (sk_file f) (fun ff =>
      if bsz * i <? 0 then Err                   (* Seek to a negative offset *)
      else
        let '(r', ps, o) := sk_range (snd ff) p (fst ff) (Z.to_N (bsz * i)) (Z.to_N (op_size bsz fileSize i s)) in
        bind (of_outcome o tt) (fun _ =>
        bind (w_write w2 (concat ps)) (fun w3 => Ok (w3, pool_after p (fst ff) r'))))
    end.

  Definition apply_op_sk (w : wst) (p : pool) (o : sync_op) : res (wst * pool) :=
    if so_type o =? T_BLOCK_RANGE then apply_range_sk w p (so_file o) (so_block o) (so_span o)
    else if so_type o =? T_DATA then bind (w_write w (so_data o)) (fun w' => Ok (w', p))
    else Err.

  Fixpoint relay_sk (ms : list pmsg) (w : wst) (p : pool) : res (list pmsg * pst * pool) :=
    match ms with
    | [] => Err
    | m :: r => let o := as_so m in
                if so_type o =? HEY then Ok (r, w_st w, p)
                else if negb (validate_op oldC o) then Err
                else bind (apply_op_sk w p o) (fun wp => relay_sk r (fst wp) (snd wp))
    end.

  Definition process_rsync_sk (idx : Z) (ms : list pmsg) (s : pst) (p : pool) : res (list pmsg * pst * pool) :=
    match ms with
    | [] => Err
    | m :: r =>
      let o := as_so m in
      if negb (validate_op oldC o) then Err else
      bind (is_full_file_op bsz oldC newC idx o) (fun full =>
      if full then
        bind (transpose_sk s p idx (so_file o)) (fun sp =>
        bind (until_marker r) (fun r' => Ok (r', fst sp, snd sp)))
      else
        bind (open_writer newC s idx) (fun w =>
        bind (apply_op_sk w p o) (fun wp => relay_sk r (fst wp) (snd wp))))
    end.

  (** ---- bsdiff ---- *)

  (** lrufile.getChunk: a hit returns the stored chunk; a miss is C09's chunk-read consumer for
      this one chunk (Seek(ci*c), one Read of c bytes, io.EOF tolerated = an empty chunk) *)
  Definition get_chunk (f : skfile byte H) (b : bsst) (ci : N) : bsst * option (list byte) :=
    match lru_find ci (b_lru b) with
    | Some d => (mkB (b_rd b) (lru_touch ci d (b_lru b)), Some d)
    | None =>
      let '(r', ps, o) := chunk_loop bs c hash heqb Fixed f (b_rd b) [ci] in
      match o, ps with
      | Done, d :: _ => (mkB r' (lru_add entries ci d (b_lru b)), Some d)
      | _, _ => (mkB r' (b_lru b), None)
      end
    end.

  (** lrufile.Read, for the [remaining] bytes that io.CopyBuffer(out, LimitReader(AdderReader{lf},
      addlen)) asks for in turn (its split into 32 KiB reads only repeats the Get of the chunk
      just used): per chunk, [chunk[start:end]] with [end] capped by the chunk's size computed
      from [lsize] (lf.size); io.EOF when the cap is hit in the last chunk *)
  Fixpoint lf_read (fuel : nat) (f : skfile byte H) (lsize : N) (b : bsst) (offset remaining : N) (acc : list byte)
    : bsst * lfres :=
    match fuel with
    | O => (b, LFuel)
    | S k =>
      if (remaining =? 0)%N then (b, LBytes acc)
      else
        let ci := (offset / c)%N in
        match get_chunk f b ci with
        | (b', None) => (b', LFail)
        | (b', Some chunk) =>
          let start := (offset mod c)%N in
          let end0 := (start + remaining)%N in
          let chunkStart := (ci * c)%N in
          let lastChunk := (lsize <? chunkStart + c)%N in
          let chunkEnd := if lastChunk then lsize else (chunkStart + c)%N in
          let csz := (chunkEnd - chunkStart)%N in
          if (csz <? end0)%N then
            if lastChunk then (b', LShort)
            else let piece := Safekeeper.slice chunk start (csz - start) in
                 lf_read k f lsize b' (offset + (csz - start))%N (remaining - (csz - start))%N (acc ++ piece)
          else (b', LBytes (acc ++ Safekeeper.slice chunk start remaining))
        end
    end.

  (** bsdiff.IndividualPatchContext.Apply *)
  Definition bs_apply_sk (f : skfile byte H) (lsize : N) (b : bsst) (off : Z) (ct : control) (w : wst)
    : res (Z * wst * bsst) :=
    if (off <? 0) || (off >? Z.of_N lsize) then Err      (* lrufile.Seek: must be in [0, lf.size] *)
    else
      let addlen := nlen (ct_add ct) in
      bind (if (addlen =? 0)%N then Ok (b, [])
            else match lf_read (S (N.to_nat addlen)) f lsize b (Z.to_N off) addlen [] with
                 | (b', LBytes d) => Ok (b', d)
                 | (_, LShort) => Err                  (* "expected to copy %d bytes but copied %d" *)
                 | (_, LFail) => Err
                 | (_, LFuel) => Panic
                 end) (fun bd =>
      bind (w_write w (add_bytes (ct_add ct) (snd bd))) (fun w1 =>
      bind (w_write w1 (ct_copy ct)) (fun w2 =>
      Ok (off + Z.of_N addlen + ct_seek ct, w2, fst bd)))).

  Fixpoint ctrl_loop_sk (f : skfile byte H) (lsize : N) (b : bsst) (off : Z) (ms : list pmsg) (w : wst)
    : res (list pmsg * wst * bsst) :=
    match ms with
    | [] => Err
    | m :: r => let ct := as_ct m in
                if ct_eof ct then Ok (r, w, b)
                else bind (bs_apply_sk f lsize b off ct w) (fun owb =>
                     ctrl_loop_sk f lsize (snd owb) (fst (fst owb)) r (snd (fst owb)))
    end.

  Definition process_bsdiff_sk (idx : Z) (ms : list pmsg) (s : pst) (p : pool) : res (list pmsg * pst * pool) :=
    match ms with
    | [] => Err
    | m :: r =>
      let tgt := bh_target (as_bh m) in
      if (tgt <? 0) || (tgt >=? Z.of_nat (length (c_files oldC))) then Err else
      let s1 := ev s (EvRead tgt) in
      bind (sk_open tgt) (fun ff =>
      bind (open_writer newC s1 idx) (fun w =>
      (* NewIndividualPatchContext: lf.Reset(old): size := old.Seek(0, io.SeekEnd), cache purged *)
      let rd0 := sk_seek_end (snd ff) (sk_get_read_seeker Fixed p (fst ff)) in
      let lsize := roff rd0 in
      bind (ctrl_loop_sk (snd ff) lsize (mkB rd0 []) 0 r w) (fun rwb =>
      match fst (fst rwb) with
      | [] => Err
      | m2 :: r2 =>
        if negb (so_type (as_so m2) =? HEY) then Err
        else match znth (c_files newC) idx with
             | Some (_, size) =>
               if Z.of_nat (w_off (snd (fst rwb))) =? size
               then Ok (r2, w_st (snd (fst rwb)), pool_after p (fst ff) (b_rd (snd rwb)))
               else Err
             | None => Panic
             end
      end)))
    end.

  Definition process_file_sk (kind idx : Z) (ms : list pmsg) (s : pst) (p : pool) : res (list pmsg * pst * pool) :=
    if kind =? SH_RSYNC then process_rsync_sk idx ms s p else process_bsdiff_sk idx ms s p.

  (** the Resume loop *)
  Fixpoint run_files_sk (n : nat) (idx : Z) (ms : list pmsg) (s : pst) (p : pool) (touched : Z) : res (pst * Z * pool) :=
    match n with
    | O => Ok (s, touched, p)
    | S n' =>
      match ms with
      | [] => Err
      | m :: r =>
        let sh := as_sh m in
        if negb (sh_file sh =? idx) then Err
        else if negb ((sh_type sh =? SH_RSYNC) || (sh_type sh =? SH_BSDIFF)) then Err
        else if wl_skip whitelist (sh_file sh) then
          bind (skip_file (sh_type sh) r) (fun r' => run_files_sk n' (idx + 1) r' s p touched)
        else
          bind (process_file_sk (sh_type sh) idx r s p)
               (fun rs => run_files_sk n' (idx + 1) (fst (fst rs)) (snd (fst rs)) (snd rs) (touched + 1))
      end
    end.

  (** NewFreshBowl + NewSafeKeeper (nothing validated yet, no file open) + Resume(nil) + Commit *)
  Definition apply_fresh_sk (ms : list pmsg) : res (tree * Z * list event) :=
    bind (prepare newC []) (fun t =>
    bind (run_files_sk (length (c_files newC)) 0 ms (mkP t []) pool_empty 0) (fun st =>
    Ok (p_tree (fst (fst st)), snd (fst st), p_trace (fst (fst st))))).
End SkPatcher.

(** a whole patch given as frames, applied to an empty directory, the old build being read
    through the safekeeper built from the signature of [signed] *)
Definition apply_patch_fresh_sk {H : Type} (bs c : N) (entries : nat) (hash : list byte -> H) (heqb : H -> H -> bool)
    (signed : list (list byte)) (actual : list (option (list byte))) (whitelist : option (list Z)) (fs : list frame)
  : res (tree * Z * list event) :=
  match read_patch fs with
  | None => Err
  | Some (_, _, oldC, newC, ms) => apply_fresh_sk bs c entries hash heqb oldC newC signed actual whitelist ms
  end.
