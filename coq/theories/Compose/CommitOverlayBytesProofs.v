(** C02 x C14, byte level - proofs.  (1) Commit on a byte stage is Commit of Bowl/OverlayCommit.v
    on the decoded stage, as long as every pending overlay's stage file decodes and no path is
    both a move and an overlay.  (2) The byte-level patch phase (C14 writer, one sequence of
    Write/Flush calls per file) is simulated by C02's patch phase with a trivially correct
    [mk_overlay]; the simulation carries "Patch + truncate of the stage file = apply_ops of the
    abstract overlay", which is C14's [overlay_correct].  (3) Hence the end-to-end statement of
    C02 on bytes, without any hypothesis on the overlay writer. *)
From Coq Require Import Permutation.
From Wharf Require Import Base.Prelude Bowl.FSmini Bowl.FSminiProofs Bowl.OverlayCommit Bowl.OverlayCommitProofs
  Bowl.CommitSpec Bowl.CommitBuildProofs Bowl.CommitMainProofs Bowl.PatchPhaseProofs.
From Wharf Require Import Overlay.Writer Overlay.Patch Overlay.Codec Overlay.SessionProofs Overlay.CodecProofs.
From Wharf Require Import Compose.CommitOverlay Compose.CommitOverlayProofs Compose.CommitOverlayBytes.
Local Open Scope N_scope.

Lemma bstage_get_put : forall s p f q, bstage_get (bstage_put s p f) q = if path_eqb p q then Some f else bstage_get s q.
Proof.
  intros s p f q. unfold bstage_put. cbn [bstage_get]. destruct (path_eqb p q) eqn:E; [reflexivity|].
  induction s as [|[k x] s IH]; cbn [filter bstage_get fst]; [reflexivity|].
  destruct (path_eqb k p) eqn:E1; cbn [negb].
  - apply path_eqb_eq in E1. subst k. rewrite E. apply IH.
  - cbn [bstage_get]. destruct (path_eqb k q); [reflexivity | apply IH].
Qed.

Lemma stage_get_decode : forall w st p,
  stage_get (decode_stage w st) p = option_map (decode_entry w p) (bstage_get st p).
Proof.
  intros w st p. induction st as [|[q f] st IH]; cbn [decode_stage map stage_get bstage_get fst snd option_map]; [reflexivity|].
  destruct (path_eqb q p) eqn:E.
  - apply path_eqb_eq in E. subst q. reflexivity.
  - exact IH.
Qed.

Lemma fold_res_ext : forall (A : Type) (f g : fs -> A -> res fs) (l : list A) (t : fs),
  (forall t a, In a l -> f t a = g t a) -> fold_res f l t = fold_res g l t.
Proof.
  intros A f g l. induction l as [|a l IH]; intros t H; cbn [fold_res]; [reflexivity|].
  rewrite (H t a (or_introl eq_refl)). destruct (g t a) as [t1| |]; cbn [bind]; try reflexivity.
  apply IH. intros t' a' Ha. apply H. now right.
Qed.

(* ------------------------------------------------------------------ Commit *)

(** every stage file of a pending overlay decodes (magic, messages, end marker) *)
Definition decodable (w : work) (st : bstage) : Prop :=
  forall p file, In p (w_over w) -> bstage_get st p = Some file -> decode_file Codec.dec Codec.magic file <> None.

Lemma move_from_stage_decode : forall w st t p,
  ~ In p (w_over w) -> move_from_stage_b st t p = move_from_stage (decode_stage w st) t p.
Proof.
  intros w st t p Hno. unfold move_from_stage_b, move_from_stage. rewrite stage_get_decode.
  destruct (bstage_get st p) as [c|]; cbn [option_map]; [|reflexivity].
  unfold decode_entry. apply mem_false in Hno. rewrite Hno. reflexivity.
Qed.

Lemma apply_overlay_decode : forall w st t p,
  In p (w_over w) -> decodable w st -> apply_overlay_b st t p = apply_overlay (decode_stage w st) t p.
Proof.
  intros w st t p Hin Hd. unfold apply_overlay_b, apply_overlay. rewrite stage_get_decode.
  destruct (bstage_get st p) as [file|] eqn:E; cbn [option_map]; [|reflexivity].
  unfold decode_entry. pose proof Hin as Hm. apply mem_In in Hm. rewrite Hm.
  specialize (Hd p file Hin E).
  destruct (decode_file Codec.dec Codec.magic file) as [ops|] eqn:D; [|contradiction].
  destruct (open_existing t p) as [cur| |]; cbn [bind]; try reflexivity.
  unfold apply_overlay_file. pose proof (patch_is_apply_ops Codec.dec Codec.magic cur file) as H.
  rewrite D in H. rewrite H. reflexivity.
Qed.

(** Commit with [Patch] + truncate on stage bytes = Commit of the C02 model on the decoded stage *)
Theorem commit_b_decode_lemma : forall oc nc w st order1 order2 go t,
  (forall p, In p (w_moves w) -> ~ In p (w_over w)) -> decodable w st ->
  commit_b oc nc w st order1 order2 go t = OverlayCommit.commit oc nc w (decode_stage w st) order1 order2 go t.
Proof.
  intros oc nc w st order1 order2 go t Hdisj Hd. unfold commit_b, OverlayCommit.commit.
  destruct (ensure_dirs_and_symlinks nc t) as [t1| |]; cbn [bind]; try reflexivity.
  destruct (apply_transpositions oc nc w order1 order2 t1) as [t2| |]; cbn [bind]; try reflexivity.
  unfold apply_moves_b, apply_moves.
  rewrite (fold_res_ext _ (move_from_stage_b st) (move_from_stage (decode_stage w st)) (w_moves w) t2)
    by (intros t' p Hp; apply move_from_stage_decode; now apply Hdisj).
  destruct (fold_res (move_from_stage (decode_stage w st)) (w_moves w) t2) as [t3| |]; cbn [bind]; try reflexivity.
  unfold apply_overlays_b, apply_overlays.
  rewrite (fold_res_ext _ (apply_overlay_b st) (apply_overlay (decode_stage w st)) (w_over w) t3)
    by (intros t' p Hp; now apply apply_overlay_decode).
  reflexivity.
Qed.

(* ------------------------------------------------------------------ patch phase *)

Definition mk0 (cur new : list N) : list ovop := [OverlayCommit.Fresh new].

Lemma mk0_ok : forall cur new, OverlayCommit.apply_ops (mk0 cur new) cur = new.
Proof. intros cur new. cbn. apply app_nil_r. Qed.

Definition cur_at (t : fs) (p : path) : list N := match lookup t p with Some (File c) => c | _ => [] end.

Lemma patch_phase_b_out : forall bufSize threshold oc steps wd, bout (patch_phase_b bufSize threshold oc steps wd) = bout wd.
Proof.
  intros bufSize threshold oc steps. induction steps as [|s steps IH]; intros wd; cbn [patch_phase_b fold_left]; [reflexivity|].
  change (bout (patch_phase_b bufSize threshold oc steps (patch_step_b bufSize threshold oc wd s)) = bout wd).
  rewrite IH. destruct s as [p k|p evs file0]; cbn [patch_step_b]; [reflexivity|].
  destruct (mem p (c_files oc)); reflexivity.
Qed.

Section Sim.
  Variables (bufSize threshold : N).
  Hypothesis HbufSize : 0 < bufSize.

  (** the byte world against C02's world run with [mk0]: same tree, same work lists; a staged
      whole file is its bytes; an abstract overlay stands for a stage file on which [Patch] +
      truncate computes what the abstract overlay computes *)
  Record sim (bw : bworld) (aw : world) : Prop := {
    sim_out : bout bw = out aw;
    sim_wk : bwk bw = wk aw;
    sim_stage : forall p,
      match stage_get (stg aw) p with
      | None => bstage_get (bstg bw) p = None
      | Some (SWhole c) => bstage_get (bstg bw) p = Some c
      | Some (SOverlay ops) =>
          exists file, bstage_get (bstg bw) p = Some file /\
                       patch Codec.dec Codec.magic (cur_at (out aw) p) file
                       = POk (OverlayCommit.apply_ops ops (cur_at (out aw) p))
      end
  }.

  Lemma sim_step : forall oc bw aw s,
    sim bw aw -> sim (patch_step_b bufSize threshold oc bw s) (patch_step mk0 oc aw (erase s)).
  Proof.
    intros oc bw aw s S. destruct S as [So Sw Ss].
    destruct s as [p k|p evs file0]; cbn [erase patch_step_b patch_step].
    - constructor; cbn [bout out bwk wk bstg stg]; [assumption | now rewrite Sw | exact Ss].
    - rewrite So. destruct (mem p (c_files oc)); constructor; cbn [bout out bwk wk bstg stg]; try reflexivity; try (now rewrite Sw).
      + intros q. rewrite stage_get_put, bstage_get_put. destruct (path_eqb p q) eqn:E; [|exact (Ss q)].
        apply path_eqb_eq in E. subst q. eexists. split; [reflexivity|].
        unfold cur_at. rewrite mk0_ok.
        exact (proj2 (overlay_correct_lemma bufSize threshold Codec.enc Codec.dec Codec.magic HbufSize dec_enc_real _ _ _)).
      + intros q. rewrite stage_get_put, bstage_get_put. destruct (path_eqb p q); [reflexivity | exact (Ss q)].
  Qed.

  Lemma sim_phase : forall oc steps bw aw,
    sim bw aw -> sim (patch_phase_b bufSize threshold oc steps bw) (patch_phase mk0 oc (map erase steps) aw).
  Proof.
    intros oc steps. induction steps as [|s steps IH]; intros bw aw S; [exact S|].
    cbn [patch_phase_b patch_phase map fold_left]. apply IH. now apply sim_step.
  Qed.

  Lemma sim0 : forall t, sim (bworld0 t) (mkWorld t [] (OverlayCommit.mkW [] [] [])).
  Proof. intros t. constructor; cbn; auto. Qed.

  (** the byte-level patch phase is sound: work lists and decoded stage satisfy [patch_sound],
      every overlay stage file decodes, the output tree is untouched *)
  Theorem patch_phase_b_sound_lemma :
    forall (ob nb : build), wf_build ob ->
    forall (steps : list bstep), steps_describe ob nb (map erase steps) ->
      let bw := patch_phase_b bufSize threshold (cont ob) steps (bworld0 (tree_of ob)) in
      bout bw = tree_of ob /\
      patch_sound ob nb (bwk bw) (decode_stage (bwk bw) (bstg bw)) /\
      decodable (bwk bw) (bstg bw).
  Proof.
    intros ob nb Wo steps SD bw.
    pose (aw := patch_phase mk0 (cont ob) (map erase steps) (world0 ob)).
    destruct (patch_phase_sound_lemma mk0 mk0_ok ob nb Wo (map erase steps) SD) as [Hout PS]. fold aw in Hout, PS.
    assert (S : sim bw aw) by (apply sim_phase; apply sim0).
    destruct S as [So Sw Ss].
    (* what the simulation says about a pending overlay *)
    assert (Hov : forall p, In p (w_over (wk aw)) -> exists file ops' c cn,
              bstage_get (bstg bw) p = Some file /\ decode_file Codec.dec Codec.magic file = Some ops' /\
              In (p, c) (b_files ob) /\ In (p, cn) (b_files nb) /\ OverlayCommit.apply_ops (conv_ops ops') c = cn).
    { intros p Hp. destruct (ps_over ob nb _ _ PS p Hp) as [ops [c [cn [Hst [Hc [Hcn Happ]]]]]].
      pose proof (Ss p) as Hs. rewrite Hst in Hs. destruct Hs as [file [Hg Hpatch]].
      unfold cur_at in Hpatch. rewrite Hout, (tree_file ob Wo p c Hc) in Hpatch.
      pose proof (patch_is_apply_ops Codec.dec Codec.magic c file) as H1.
      destruct (decode_file Codec.dec Codec.magic file) as [ops'|] eqn:D.
      - exists file, ops', c, cn. rewrite H1 in Hpatch. injection Hpatch as Hpatch.
        repeat split; try assumption. now rewrite Hpatch.
      - exfalso. exact (H1 _ Hpatch). }
    split; [rewrite <- Hout; exact So|]. rewrite Sw. split.
    - constructor; try apply PS.
      + intros p Hp. destruct (Hov p Hp) as [file [ops' [c [cn [Hg [Hd [Hc [Hcn Happ]]]]]]]].
        exists (conv_ops ops'), c, cn. repeat split; try assumption.
        rewrite stage_get_decode, Hg. cbn [option_map]. unfold decode_entry.
        apply mem_In in Hp. rewrite Hp, Hd. reflexivity.
      + intros p Hp. destruct (ps_moves ob nb _ _ PS p Hp) as [Hno [c [Hst Hc]]]. split; [assumption|].
        exists c. split; [|assumption].
        pose proof (Ss p) as Hs. rewrite Hst in Hs.
        rewrite stage_get_decode, Hs. cbn [option_map]. unfold decode_entry.
        assert (Hm : mem p (w_over (wk aw)) = false).
        { apply mem_false. intros Ho. exact (ps_disj_om ob nb _ _ PS p Ho Hp). }
        rewrite Hm. reflexivity.
    - intros p file Hp Hg. destruct (Hov p Hp) as [file' [ops' [c [cn [Hg' [Hd _]]]]]].
      rewrite Hg in Hg'. injection Hg' as <-. rewrite Hd. discriminate.
  Qed.

  (** end to end on bytes: C14 writers in the patch phase, [Patch] + truncate in Commit *)
  Theorem inplace_apply_bytes_lemma :
    forall (ob nb : build) (steps : list bstep),
      wf_build ob -> wf_build nb -> steps_describe ob nb (map erase steps) ->
      let bw := patch_phase_b bufSize threshold (cont ob) steps (bworld0 (tree_of ob)) in
      H_kinds ob nb (bwk bw) ->
    forall (order1 order2 : list path) (go : list ghost),
      Permutation order1 (trans_keys (bwk bw)) -> Permutation order2 (trans_keys (bwk bw)) -> ghost_order_ok nb ob go ->
      bout bw = tree_of ob /\
      exists t', commit_b (cont ob) (cont nb) (bwk bw) (bstg bw) order1 order2 go (bout bw) = Ok t' /\
                 forall p, lookup t' p = lookup (tree_of nb) p.
  Proof.
    intros ob nb steps Wo Wn SD bw HK order1 order2 go P1 P2 Hgo.
    destruct (patch_phase_b_sound_lemma ob nb Wo steps SD) as [Hout [PS Hd]]. fold bw in Hout, PS, Hd.
    split; [assumption|]. rewrite Hout.
    rewrite commit_b_decode_lemma; [|intros p Hm Ho; exact (ps_disj_om ob nb _ _ PS p Ho Hm) | assumption].
    apply (commit_equals_new_lemma ob nb (bwk bw) _ Wo Wn PS HK order1 order2 go P1 P2 Hgo).
  Qed.
End Sim.
