(** Models that were transcribed more than once agree - part 6: pwr.ComputeHashInfo.

    Sig/HashInfo.v [compute_hash_info] (C04: builds the groups) and Patch/Malformed.v [hash_info]
    (C10: outcome class only, the code before / after the fix selected by [fx], the capacity of
    the hash slice a parameter).

    Agreement: the outcome class of C04's model is that of C10's model of the code as it is now
    ([fx = true]) for every list of sizes, every number of hashes and any capacity - including
    a signature with fewer hashes than the files need, where both say "error"; and where C04
    says [HiOk] the code before the fix ([fx = false]) succeeded too.  (History: Sig/HashInfo.v
    used to say [HiPanic] for missing hashes - the code before repo commit 6a06397 "fix:
    ComputeHashInfo checks the number of hashes before slicing them", with cap = len; the former
    [hash_info_models_differ_on_missing_hashes] recorded that.  The model was repaired, the
    example, now false, is deleted and replaced by [hash_info_missing_hashes_example].)
    Proofs only. *)
From Coq Require Import ZifyBool ZifyNat ZifyN.
From Wharf Require Import Base.Prelude.
From Wharf Require Sig.Sign Sig.SigFile Sig.HashInfo Patch.Malformed.
Local Open Scope Z_scope.
Ltac Zify.zify_post_hook ::= Z.div_mod_to_equations.

Module HI := Wharf.Sig.HashInfo.
Module MF := Wharf.Patch.Malformed.

Lemma nb_agree (bs size : N) : (0 < bs)%N -> MF.num_blocks (Z.of_N bs) (Z.of_N size) = Z.of_N (SigFile.num_blocks bs size).
Proof.
  intros Hbs. unfold MF.num_blocks, SigFile.num_blocks.
  rewrite N2Z.inj_div, N2Z.inj_sub, N2Z.inj_add by lia. rewrite Z.quot_div_nonneg by lia. reflexivity.
Qed.

Section HashInfoAgree.
  Context {X : Type}.
  Variable bs : N.
  Hypothesis bs_pos : (0 < bs)%N.
  Variable hashes : list X.
  Let n := Z.of_nat (length hashes).

  Lemma hi_loop_agrees : forall (sizes : list N) (ix : N),
    match HI.hi_loop bs sizes hashes ix with
    | Some (_, ix') =>
        forall fx cap, n <= cap ->
          MF.hash_info fx (Z.of_N bs) (map Z.of_N sizes) (Z.of_N ix) n cap = if Z.of_N ix' =? n then MF.Ok else MF.Err
    | None =>
        (forall cap, n <= cap -> MF.hash_info true (Z.of_N bs) (map Z.of_N sizes) (Z.of_N ix) n cap = MF.Err) /\
        MF.hash_info false (Z.of_N bs) (map Z.of_N sizes) (Z.of_N ix) n n = MF.Panic MF.SHashInfoSlice
    end.
  Proof.
    induction sizes as [|sz r IH]; intros ix.
    - cbn [HI.hi_loop map MF.hash_info]. intros fx cap _. reflexivity.
    - cbn [HI.hi_loop map MF.hash_info].
      replace (Z.of_N sz =? 0) with (sz =? 0)%N by (destruct (N.eqb_spec sz 0); destruct (Z.eqb_spec (Z.of_N sz) 0); lia).
      destruct (sz =? 0)%N.
      + specialize (IH (ix + 1)%N). replace (Z.of_N (ix + 1)) with (Z.of_N ix + 1) in IH by lia.
        destruct (HI.hi_loop bs r hashes (ix + 1)) as [[gs ix']|]; exact IH.
      + rewrite nb_agree by assumption. set (nb := SigFile.num_blocks bs sz).
        specialize (IH (ix + nb)%N). replace (Z.of_N (ix + nb)) with (Z.of_N ix + Z.of_N nb) in IH by lia.
        destruct (N.ltb_spec (N.of_nat (length hashes)) (ix + nb)) as [Hlt|Hge].
        * (* fewer hashes than this file needs *)
          split.
          -- intros cap _. destruct (Z.gtb_spec (Z.of_N ix + Z.of_N nb) n); [reflexivity|unfold n in *; lia].
          -- cbn [andb]. destruct (Z.gtb_spec (Z.of_N ix + Z.of_N nb) n); [reflexivity|unfold n in *; lia].
        * destruct (HI.hi_loop bs r hashes (ix + nb)) as [[gs ix']|].
          -- intros fx cap Hcap.
             destruct (Z.gtb_spec (Z.of_N ix + Z.of_N nb) n) as [Hc|_]; [unfold n in *; lia|]. rewrite andb_false_r.
             destruct (Z.gtb_spec (Z.of_N ix + Z.of_N nb) cap) as [Hc|_]; [unfold n in *; lia|].
             apply IH. assumption.
          -- destruct IH as [IH1 IH2]. split.
             ++ intros cap Hcap. destruct (Z.gtb_spec (Z.of_N ix + Z.of_N nb) n) as [Hc|Hle]; [reflexivity|]. cbn [andb].
                destruct (Z.gtb_spec (Z.of_N ix + Z.of_N nb) cap) as [Hc|_]; [lia|apply IH1; assumption].
             ++ cbn [andb]. destruct (Z.gtb_spec (Z.of_N ix + Z.of_N nb) n) as [Hc|_]; [unfold n in *; lia|]. exact IH2.
  Qed.
End HashInfoAgree.

(** ComputeHashInfo: the C04 transcription against the C10 transcription.  [cap]: the capacity of
    the hash slice (at least its length); [fx]: the code before / after commit 6a06397.
    Unconditional for the code as it is ([fx = true]); the code before the fix agrees wherever it
    does not panic (it panics, with cap = len, exactly in the missing-hashes case the fix turned
    into an error) *)
Theorem hash_info_models_agree_lemma :
  forall (X : Type) (bs : N) (sizes : list N) (hashes : list X),
    (0 < bs)%N ->
    let n := Z.of_nat (length hashes) in
    (forall cap, n <= cap ->
       MF.hash_info true (Z.of_N bs) (map Z.of_N sizes) 0 n cap =
       match HI.compute_hash_info bs sizes hashes with HI.HiOk _ => MF.Ok | HI.HiErr => MF.Err end) /\
    (forall gs, HI.compute_hash_info bs sizes hashes = HI.HiOk gs ->
       forall fx cap, n <= cap -> MF.hash_info fx (Z.of_N bs) (map Z.of_N sizes) 0 n cap = MF.Ok) /\
    (forall cap, n <= cap ->
       MF.hash_info false (Z.of_N bs) (map Z.of_N sizes) 0 n cap <> MF.hash_info true (Z.of_N bs) (map Z.of_N sizes) 0 n cap ->
       HI.compute_hash_info bs sizes hashes = HI.HiErr).
Proof.
  intros X bs sizes hashes Hbs n. unfold HI.compute_hash_info.
  pose proof (hi_loop_agrees bs Hbs hashes sizes 0%N) as H. change (Z.of_N 0) with 0 in H. fold n in H.
  destruct (HI.hi_loop bs sizes hashes 0) as [[gs ix]|].
  - destruct (N.eqb_spec ix (N.of_nat (length hashes))) as [E|E]; (split; [|split]).
    + intros cap Hcap. rewrite (H true cap Hcap). destruct (Z.eqb_spec (Z.of_N ix) n); [reflexivity|unfold n in *; lia].
    + intros gs' _ fx cap Hcap. rewrite (H fx cap Hcap). destruct (Z.eqb_spec (Z.of_N ix) n); [reflexivity|unfold n in *; lia].
    + intros cap Hcap Hne. exfalso. apply Hne. rewrite !(H _ cap Hcap). reflexivity.
    + intros cap Hcap. rewrite (H true cap Hcap). destruct (Z.eqb_spec (Z.of_N ix) n); [unfold n in *; lia|reflexivity].
    + intros gs' Hgs. discriminate Hgs.
    + reflexivity.
  - destruct H as [H1 _]. split; [|split].
    + intros cap Hcap. apply H1. assumption.
    + intros gs' Hgs. discriminate Hgs.
    + reflexivity.
Qed.

(** two files of 2 bytes at block size 2 and a single hash: an error in C04's model and in the
    code now (C10, [fx = true]); the code before the fix panicked on the slice expression *)
Lemma hash_info_missing_hashes_example :
  HI.compute_hash_info 2 [2; 2]%N [tt] = HI.HiErr /\
  MF.hash_info true 2 [2; 2] 0 1 1 = MF.Err /\ MF.hash_info false 2 [2; 2] 0 1 1 = MF.Panic MF.SHashInfoSlice.
Proof. repeat split. Qed.
