(** Models that were transcribed more than once agree - part 2: block arithmetic.

    pwr.ComputeNumBlocks ([(fileSize + BlockSize - 1) / BlockSize], int64) exists six times:
      Patch/Stream.v     [num_blocks]          Z, [Z.quot]   (C01)
      Patch/Malformed.v  [num_blocks]          Z, [Z.quot]   (C10)
      Patch/Resume.v     [num_blocks]          N             (C03)
      Sig/SigFile.v      [num_blocks]          N             (C04)
      Wsync/Spec.v       [num_blocks]          N, of a list  (C11)
      Val/VPool.v        [compute_num_blocks]  Z, [Z.div]    (C18, used by C05 / C07 / C09)
    and the reference all of them stand for is [length (blocks bs l)] (Base/Prelude.v).
    pwr.ComputeBlockSize exists twice (Val/VPool.v with [mod], Wsync/Account.v with [Z.rem]) and
    once more inlined in the [lastSize] computation of wsync.ApplySingleFull
    (Patch/Patcher.v [op_size], Wsync/Apply.v [op_size], Patch/Malformed.v [apply_block_range]).

    On block sizes > 0 and sizes >= 0 they all agree.  Differences found, all on inputs that are
    not file sizes: for a NEGATIVE size Go's [/] and [%] truncate towards zero ([Z.quot] /
    [Z.rem]: C01, C10, Wsync/Account.v), Val/VPool.v's [/] and [mod] round down
    ([num_blocks_negative_size_differs], [block_size_negative_size_differs]); the [N] versions
    cannot express a negative size at all.  Only C10 feeds sizes from an arbitrary stream, and
    it uses the truncating version.  Proofs only. *)
From Coq Require Import ZifyBool ZifyNat ZifyN.
From Wharf Require Import Base.Prelude Base.BlocksLemmas.
From Wharf Require Patch.Stream Patch.Malformed Patch.Resume Patch.Patcher Patch.ApplyProofs
     Sig.Sign Sig.SigFile Wsync.Spec Wsync.Account Wsync.Apply Val.VPool Bowl.Fresh Patch.PlainWriter.
Ltac Zify.zify_post_hook ::= Z.div_mod_to_equations.

(* ------------------------------------------------------------------ the reference *)

(** the number of blocks [blocks] cuts a list into is the ceiling of length / block size *)
Lemma blocks_count {A} (bs : nat) (l : list A) :
  (0 < bs)%nat -> length (blocks bs l) = ((length l + bs - 1) / bs)%nat.
Proof.
  intros Hbs. destruct l as [|x r].
  - rewrite blocks_nil by assumption. cbn [length]. symmetry. apply Nat.div_small. lia.
  - pose proof (blocks_length_bounds bs Hbs (x :: r) ltac:(discriminate)) as [Hlo Hhi].
    set (n := length (blocks bs (x :: r))) in *. set (L := length (x :: r)) in *.
    assert (Hn : (0 < n)%nat) by (unfold n; rewrite blocks_cons by (assumption || discriminate); cbn [length]; lia).
    fold n. apply (Nat.div_unique _ _ _ (L + bs - 1 - bs * n)%nat); nia.
Qed.

(* ------------------------------------------------------------------ ComputeNumBlocks *)

Local Open Scope Z_scope.

(** C01 and C10: the same expression *)
Lemma num_blocks_stream_malformed (bs size : Z) : Stream.num_blocks bs size = Malformed.num_blocks bs size.
Proof. reflexivity. Qed.

(** C03 and C04: the same expression *)
Lemma num_blocks_resume_sigfile (bs size : N) :
  Resume.num_blocks bs size = SigFile.num_blocks bs size.
Proof. reflexivity. Qed.

(** C11 is C04 at the length of the file *)
Lemma num_blocks_spec_sigfile (bs : N) (old : list N) :
  Spec.num_blocks bs old = SigFile.num_blocks bs (N.of_nat (length old)).
Proof. reflexivity. Qed.

(** Go's truncating division and the [N] division *)
Lemma num_blocks_Z_N (bs size : N) :
  (0 < bs)%N -> Stream.num_blocks (Z.of_N bs) (Z.of_N size) = Z.of_N (SigFile.num_blocks bs size).
Proof.
  intros Hbs. unfold Stream.num_blocks, SigFile.num_blocks.
  rewrite N2Z.inj_div, N2Z.inj_sub, N2Z.inj_add by lia.
  rewrite Z.quot_div_nonneg by lia. reflexivity.
Qed.

(** Go's truncating division and the rounding-down division of Val/VPool.v *)
Lemma num_blocks_quot_div (bs size : Z) :
  0 < bs -> 0 <= size -> Stream.num_blocks bs size = VPool.compute_num_blocks bs size.
Proof.
  intros Hbs Hs. unfold Stream.num_blocks, VPool.compute_num_blocks. apply Z.quot_div_nonneg; lia.
Qed.

(** ... and all of them count the blocks of [blocks] *)
Lemma num_blocks_counts_blocks {A} (bs : N) (l : list A) :
  (0 < bs)%N -> N.of_nat (length (blocks (N.to_nat bs) l)) = SigFile.num_blocks bs (N.of_nat (length l)).
Proof.
  intros Hbs. rewrite blocks_count by lia. unfold SigFile.num_blocks.
  rewrite Nat2N.inj_div, Nat2N.inj_sub, Nat2N.inj_add, N2Nat.id. reflexivity.
Qed.

(** the six transcriptions of ComputeNumBlocks, and the reference *)
Theorem num_blocks_models_agree_lemma :
  forall (bs : N) (content : list N),
    (0 < bs)%N ->
    let size := N.of_nat (length content) in
    let n := N.of_nat (length (blocks (N.to_nat bs) content)) in
    SigFile.num_blocks bs size = n /\
    Spec.num_blocks bs content = n /\
    Resume.num_blocks bs size = n /\
    Stream.num_blocks (Z.of_N bs) (Z.of_N size) = Z.of_N n /\
    Malformed.num_blocks (Z.of_N bs) (Z.of_N size) = Z.of_N n /\
    VPool.compute_num_blocks (Z.of_N bs) (Z.of_N size) = Z.of_N n.
Proof.
  intros bs content Hbs size n.
  assert (E : SigFile.num_blocks bs size = n) by (symmetry; apply num_blocks_counts_blocks; assumption).
  split; [exact E|]. split; [exact E|]. split; [exact E|].
  rewrite <- E. split; [apply num_blocks_Z_N; assumption|]. split; [apply num_blocks_Z_N; assumption|].
  rewrite <- num_blocks_quot_div by lia. apply num_blocks_Z_N. assumption.
Qed.

(** the same for sizes that are not the length of a list at hand (any int64 >= 0) *)
Theorem num_blocks_models_agree_sizes_lemma :
  forall (bs size : Z), 0 < bs -> 0 <= size ->
    Stream.num_blocks bs size = Malformed.num_blocks bs size /\
    Stream.num_blocks bs size = VPool.compute_num_blocks bs size /\
    Stream.num_blocks bs size = Z.of_N (SigFile.num_blocks (Z.to_N bs) (Z.to_N size)) /\
    Stream.num_blocks bs size = Z.of_N (Resume.num_blocks (Z.to_N bs) (Z.to_N size)).
Proof.
  intros bs size Hbs Hs. split; [reflexivity|]. split; [apply num_blocks_quot_div; assumption|].
  assert (E : Stream.num_blocks bs size = Z.of_N (SigFile.num_blocks (Z.to_N bs) (Z.to_N size))).
  { rewrite <- num_blocks_Z_N by lia. rewrite !Z2N.id by lia. reflexivity. }
  split; exact E.
Qed.

(** outside the domain: a negative size.  Go truncates ((-3 + 2 - 1) / 2 = -1); [Z.div] rounds
    down (-1 as well here, but (-2 + 2 - 1) / 2 is 0 in Go and -1 in Val/VPool.v) *)
Lemma num_blocks_negative_size_differs_lemma :
  Stream.num_blocks 2 (-2) = 0 /\ Malformed.num_blocks 2 (-2) = 0 /\ VPool.compute_num_blocks 2 (-2) = -1.
Proof. repeat split. Qed.

(* ------------------------------------------------------------------ ComputeBlockSize, lastSize *)

(** pwr.ComputeBlockSize: Val/VPool.v ([mod]) and Wsync/Account.v ([Z.rem]) *)
Lemma compute_block_size_agrees (bs fileSize blockIndex : Z) :
  0 < bs -> 0 <= fileSize ->
  VPool.compute_block_size bs fileSize blockIndex = Account.compute_block_size bs fileSize blockIndex.
Proof.
  intros Hbs Hs. unfold VPool.compute_block_size, Account.compute_block_size.
  rewrite Z.rem_mod_nonneg by lia. reflexivity.
Qed.

Lemma block_size_negative_size_differs_lemma :
  VPool.compute_block_size 2 (-3) 0 = 1 /\ Account.compute_block_size 2 (-3) 0 = -1.
Proof. split; reflexivity. Qed.

(** the [opSize] of wsync.ApplySingleFull is [(span - 1)] whole blocks plus ComputeBlockSize of
    the last block: the inlined arithmetic of C01's / C11's [op_size] is the function of
    Wsync/Account.v (C08), and of Val/VPool.v on sizes >= 0 *)
Lemma op_size_is_block_size (bs fileSize blockIndex blockSpan : Z) :
  Patcher.op_size bs fileSize blockIndex blockSpan =
  (blockSpan - 1) * bs + Account.compute_block_size bs fileSize (blockIndex + (blockSpan - 1)).
Proof. reflexivity. Qed.

Lemma op_size_wsync_patcher (bs : N) (fileSize idx span : Z) :
  Apply.op_size bs fileSize idx span = Patcher.op_size (Z.of_N bs) fileSize idx span.
Proof. reflexivity. Qed.

(** ComputeBlockSize is the length of the block [blocks] cuts out, for every block that exists *)
Lemma compute_block_size_is_block_length {A} (bs : nat) (l b : list A) (j : nat) :
  (0 < bs)%nat -> nth_error (blocks bs l) j = Some b ->
  VPool.compute_block_size (Z.of_nat bs) (Z.of_nat (length l)) (Z.of_nat j) = Z.of_nat (length b).
Proof.
  intros Hbs Hn. destruct (blocks_nth_length bs Hbs j l b Hn) as [Hlen Hj].
  pose proof (blocks_length_bounds bs Hbs l) as Hb.
  unfold VPool.compute_block_size.
  destruct (Z.gtb_spec (Z.of_nat bs * (Z.of_nat j + 1)) (Z.of_nat (length l))) as [Hgt|Hle].
  - (* the last, short block: length l - j * bs = length l mod bs *)
    assert (Hq : Z.of_nat (length l) = Z.of_nat bs * Z.of_nat j + (Z.of_nat (length l) - Z.of_nat bs * Z.of_nat j)) by lia.
    rewrite Hlen.
    assert (E : Z.of_nat (length l) mod Z.of_nat bs = Z.of_nat (length l) - Z.of_nat bs * Z.of_nat j).
    { symmetry. apply (Z.mod_unique_pos _ _ (Z.of_nat j)); nia. }
    rewrite E. nia.
  - rewrite Hlen. nia.
Qed.

Theorem block_size_models_agree_lemma :
  forall (bs fileSize blockIndex blockSpan : Z), 0 < bs -> 0 <= fileSize ->
    VPool.compute_block_size bs fileSize blockIndex = Account.compute_block_size bs fileSize blockIndex /\
    Patcher.op_size bs fileSize blockIndex blockSpan =
      (blockSpan - 1) * bs + VPool.compute_block_size bs fileSize (blockIndex + (blockSpan - 1)) /\
    Apply.op_size (Z.to_N bs) fileSize blockIndex blockSpan = Patcher.op_size bs fileSize blockIndex blockSpan.
Proof.
  intros bs fileSize blockIndex blockSpan Hbs Hs. split; [apply compute_block_size_agrees; assumption|]. split.
  - rewrite compute_block_size_agrees by assumption. reflexivity.
  - rewrite op_size_wsync_patcher, Z2N.id by lia. reflexivity.
Qed.

(* ------------------------------------------------------------------ pwrite / zeros / resize *)

(** os.File.WriteAt / Truncate exist in Bowl/Fresh.v (C01, C02) and in Patch/PlainWriter.v (C03) *)
Lemma pwrite_models_agree_lemma (raw : list byte) (off : nat) (d : list byte) :
  Fresh.pwrite raw off d = PlainWriter.pwrite raw off d /\
  Fresh.resize raw off = PlainWriter.resize off raw /\
  Fresh.zeros off = PlainWriter.zeros off.
Proof. repeat split. Qed.
