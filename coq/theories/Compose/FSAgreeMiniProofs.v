(** [Bowl/FSmini.v] refines [FS/{Tree,Ops}.v]: every operation of the small model, on a
    well-formed state and a non-empty relative path, returns what the general model returns on
    any general state that stands for it - unless the small model declines. *)
From Coq Require Import Arith NArith Lia Bool Setoid Morphisms.
From Wharf Require Import FS.Light.
From Wharf Require FS.Tree FS.TreeProofs FS.Ops FS.OpsProofs Bowl.FSmini Bowl.FSminiProofs.
From Wharf Require Import Compose.FSAgree.
From Wharf Require Compose.FSAgreeGenProofs.

Module GtP := Wharf.FS.TreeProofs.
Module GoP := Wharf.FS.OpsProofs.
Module MiP := Wharf.Bowl.FSminiProofs.
Module GG := Wharf.Compose.FSAgreeGenProofs.

Section Mini.
  Variable enc : Mi.comp -> N.
  Variable ldest : N -> list Gt.comp.
  Hypothesis enc_inj : forall a b, enc a = enc b -> a = b.

  Notation mp := (mini_path enc).
  Notation mn := (mini_node ldest).
  Notation mt := (mini_tree enc ldest).
  Notation sim := (mini_sim enc ldest).

  (* ------------------------------------------------------------------ paths *)

  Lemma mp_inj : forall p q, mp p = mp q -> p = q.
  Proof.
    induction p as [|a p IH]; destruct q as [|b q]; cbn; intros H; try discriminate; [reflexivity|].
    injection H as H1 H2. apply enc_inj in H1. apply IH in H2. congruence.
  Qed.

  Lemma mp_app : forall p q, mp (p ++ q) = mp p ++ mp q.
  Proof. intros. apply map_app. Qed.

  Lemma mp_nil_iff : forall p, mp p = [] <-> p = [].
  Proof. intros [|a p]; cbn; split; intros H; try reflexivity; discriminate. Qed.

  Lemma mp_nonempty : forall p, p <> [] -> mp p <> [].
  Proof. intros p H E. apply mp_nil_iff in E. contradiction. Qed.

  Lemma path_eqb_mp : forall p q, Gt.path_eqb (mp p) (mp q) = Mi.path_eqb p q.
  Proof.
    intros p q. destruct (Mi.path_eqb p q) eqn:E.
    - apply MiP.path_eqb_eq in E. subst. apply GtP.path_eqb_refl.
    - apply GtP.path_eqb_neq. apply MiP.path_eqb_neq in E. intros H. apply E. apply mp_inj. exact H.
  Qed.

  Lemma mp_split : forall p a b, mp p = a ++ b -> exists pa pb, p = pa ++ pb /\ a = mp pa /\ b = mp pb.
  Proof.
    intros p a b H. apply map_eq_app in H as [pa [pb [H1 [H2 H3]]]]. exists pa, pb. split; [exact H1 | split; symmetry; assumption].
  Qed.

  Lemma is_prefix_mp : forall p q, Gt.is_prefix (mp p) (mp q) = Mi.is_prefix p q.
  Proof.
    intros p q. destruct (Mi.is_prefix p q) eqn:E.
    - apply MiP.is_prefix_spec in E as [r ->]. rewrite mp_app. apply GtP.is_prefix_app.
    - apply GtP.is_prefix_false. intros [r H]. apply mp_split in H as [pa [pb [H1 [H2 H3]]]].
      apply mp_inj in H2. subst. rewrite MiP.is_prefix_app in E. discriminate.
  Qed.

  Lemma mp_removelast : forall p, removelast (mp p) = mp (removelast p).
  Proof.
    intros p. destruct (GG.snoc_cases p) as [-> | [q [x ->]]]; [reflexivity|].
    rewrite mp_app. cbn [mini_path map]. rewrite !GG.removelast_snoc. reflexivity.
  Qed.

  (* ------------------------------------------------------------------ the abstraction and [lookup] *)

  Lemma lookup_mt : forall t p, Gt.lookup (mt t) (mp p) = option_map mn (Mi.lookup t p).
  Proof.
    induction t as [|[k n] t IH]; intros p; cbn [mini_tree map Gt.lookup Mi.lookup fst snd]; [reflexivity|].
    rewrite path_eqb_mp. destruct (Mi.path_eqb k p); [reflexivity | apply IH].
  Qed.

  Lemma lookup_mt_key : forall t q, Gt.lookup (mt t) q <> None -> exists p, q = mp p.
  Proof.
    induction t as [|[k n] t IH]; intros q; cbn [mini_tree map Gt.lookup fst snd]; [congruence|].
    destruct (Gt.path_eqb (mp k) q) eqn:E.
    - intros _. apply GtP.path_eqb_eq in E. exists k. congruence.
    - apply IH.
  Qed.

  Lemma sim_lookup : forall t T p, sim t T -> Gt.lookup T (mp p) = option_map mn (Mi.lookup t p).
  Proof. intros t T p H. rewrite <- H. apply lookup_mt. Qed.

  Lemma sim_key : forall t T q, sim t T -> Gt.lookup T q <> None -> exists p, q = mp p.
  Proof. intros t T q H. rewrite <- H. apply lookup_mt_key. Qed.

  Lemma sim_intro : forall t T,
    (forall p, Gt.lookup T (mp p) = option_map mn (Mi.lookup t p)) ->
    (forall q, Gt.lookup T q <> None -> exists p, q = mp p) -> sim t T.
  Proof.
    intros t T H1 H2 q. destruct (Gt.lookup T q) as [n|] eqn:E.
    - destruct (H2 q) as [p ->]; [congruence|]. rewrite lookup_mt, <- H1. exact E.
    - destruct (Gt.lookup (mt t) q) as [n|] eqn:E2; [|reflexivity].
      destruct (lookup_mt_key t q) as [p ->]; [congruence|]. rewrite lookup_mt in E2. rewrite H1 in E. congruence.
  Qed.

  Lemma sim_refl : forall t, sim t (mt t).
  Proof. intros t q. reflexivity. Qed.

  Lemma sim_node_at : forall t T p, sim t T -> p <> [] -> Gt.node_at T (mp p) = option_map mn (Mi.lookup t p).
  Proof. intros t T p H Hp. rewrite (GtP.node_at_nonempty T (mp p) (mp_nonempty p Hp)). apply sim_lookup. exact H. Qed.

  Lemma sim_lookup_dir : forall t T p, sim t T -> Mi.lookup t p = Some Mi.Dir -> Gt.lookup T (mp p) = Some Gt.Dir.
  Proof. intros t T p H E. rewrite (sim_lookup t T p H), E. reflexivity. Qed.

  Lemma sim_lookup_none : forall t T p, sim t T -> Mi.lookup t p = None -> Gt.lookup T (mp p) = None.
  Proof. intros t T p H E. rewrite (sim_lookup t T p H), E. reflexivity. Qed.

  Lemma sim_lookup_some : forall t T p, sim t T -> Gt.lookup T (mp p) <> None -> Mi.lookup t p <> None.
  Proof. intros t T p H E E2. rewrite (sim_lookup t T p H), E2 in E. apply E. reflexivity. Qed.

  (* ------------------------------------------------------------------ resolution *)

  Lemma sim_lit : forall t T p, sim t T -> MiP.dirs_above t p -> GoP.lit T (mp p).
  Proof.
    intros t T p H D. apply GG.lit_iff. rewrite mp_removelast. intros a Ha.
    apply GG.inits_spec in Ha as [Ha [r Hr]]. apply mp_split in Hr as [pa [pb [H1 [-> H3]]]].
    apply (sim_lookup_dir t T pa H).
    destruct (GG.snoc_cases p) as [-> | [q [x ->]]].
    - cbn in H1. destruct pa; [contradiction Ha; reflexivity | discriminate].
    - rewrite GG.removelast_snoc in H1. subst q. apply (D pa (pb ++ [x])).
      + rewrite app_assoc. reflexivity.
      + intros ->. apply Ha. reflexivity.
      + destruct pb; discriminate.
  Qed.

  Lemma resolve_dirs_Ok_inv : forall t rest pre, Mi.resolve_dirs t pre rest = Mi.Ok tt ->
    forall q r, rest = q ++ r -> q <> [] -> r <> [] -> Mi.lookup t (pre ++ q) = Some Mi.Dir.
  Proof.
    intros t. induction rest as [|c rest IH]; intros pre H q r E Hq Hr.
    - destruct q; [contradiction | discriminate].
    - destruct rest as [|c2 rest].
      + destruct q as [|x q]; [contradiction|]. cbn in E. injection E as _ E. destruct q; [destruct r; [contradiction | discriminate] | discriminate].
      + cbn [Mi.resolve_dirs] in H.
        destruct (Mi.lookup t (pre ++ [c])) as [[x| |x]|] eqn:El; try discriminate.
        destruct q as [|y q]; [contradiction|]. cbn in E. injection E as <- E.
        destruct q as [|z q]; [exact El|].
        replace (pre ++ c :: z :: q) with ((pre ++ [c]) ++ z :: q) by (rewrite <- app_assoc; reflexivity).
        apply (IH (pre ++ [c]) H (z :: q) r); [exact E | discriminate | exact Hr].
  Qed.

  Lemma parent_ok_inv : forall t p u, Mi.parent_ok t p = Mi.Ok u -> MiP.dirs_above t p.
  Proof.
    intros t p [] H q r E Hq Hr. apply (resolve_dirs_Ok_inv t p [] H q r E Hq Hr).
  Qed.

  Lemma resolve_dirs_Err : forall t T, sim t T -> forall rest pre e, Mi.resolve_dirs t pre rest = Mi.Err e ->
    forall k fl, Go.walk_go k T fl (mp pre) (map Gt.Nm (mp rest)) = Go.Err (mini_errno e).
  Proof.
    intros t T Hs. induction rest as [|c rest IH]; intros pre e H k fl; [discriminate|].
    destruct rest as [|c2 rest]; [discriminate|].
    cbn [Mi.resolve_dirs] in H. cbn [mini_path map]. rewrite GoP.walk_go_cons2.
    match goal with |- context [Gt.lookup T ?P] => replace P with (mp (pre ++ [c])) by (rewrite mp_app; reflexivity) end.
    rewrite (sim_lookup t T _ Hs).
    destruct (Mi.lookup t (pre ++ [c])) as [[x| |x]|] eqn:El; cbn [option_map mini_node].
    - injection H as <-. reflexivity.
    - apply (IH (pre ++ [c]) e H k fl).
    - discriminate.
    - injection H as <-. reflexivity.
  Qed.

  Lemma parent_ok_Err : forall t T p e fl, sim t T -> Mi.parent_ok t p = Mi.Err e ->
    Go.resolve T fl (mp p) = Go.Err (mini_errno e).
  Proof.
    intros t T p e fl Hs H. unfold Go.resolve.
    destruct (GoP.walk_unfold Go.link_fuel T fl [] (map Gt.Nm (mp p))) as [k ->].
    apply (resolve_dirs_Err t T Hs p [] e H k fl).
  Qed.

  (** the three outcomes of FSmini's path check, seen from the general model *)
  Inductive parent_view (t : Mi.fs) (T : Gt.tree) (p : Mi.path) : Prop :=
  | PV_ok : Mi.parent_ok t p = Mi.Ok tt -> MiP.dirs_above t p -> GoP.lit T (mp p) -> parent_view t T p
  | PV_err : forall e, Mi.parent_ok t p = Mi.Err e ->
      (forall fl, Go.resolve T fl (mp p) = Go.Err (mini_errno e)) -> parent_view t T p
  | PV_un : Mi.parent_ok t p = Mi.Unmodelled -> parent_view t T p.

  Lemma parent_cases : forall t T p, sim t T -> parent_view t T p.
  Proof.
    intros t T p Hs. destruct (Mi.parent_ok t p) as [[]|e|] eqn:E.
    - pose proof (parent_ok_inv t p tt E) as D. apply PV_ok; [exact E | exact D | apply (sim_lit t T p Hs D)].
    - apply (PV_err t T p e E). intros fl. apply (parent_ok_Err t T p e fl Hs E).
    - apply PV_un. exact E.
  Qed.

  (* ------------------------------------------------------------------ well-formedness *)

  Lemma wf_below_nondir : forall t p r, mini_wf t -> p <> [] -> r <> [] -> Mi.lookup t p <> Some Mi.Dir ->
    Mi.lookup t (p ++ r) = None.
  Proof.
    intros t p r [_ W] Hp Hr Hn. destruct (Mi.lookup t (p ++ r)) eqn:E; [|reflexivity].
    exfalso. apply Hn. apply (W (p ++ r) p r); [congruence | reflexivity | exact Hp | exact Hr].
  Qed.

  Lemma wf_dirs_above : forall t p, mini_wf t -> Mi.lookup t p <> None -> MiP.dirs_above t p.
  Proof. intros t p [_ W] H q r E Hq Hr. apply (W p q r H E Hq Hr). Qed.

  Lemma mini_wfb_sound : forall t, mini_wfb t = true -> mini_wf t.
  Proof.
    intros t H. unfold mini_wfb in H. rewrite forallb_forall in H. split.
    - destruct (Mi.lookup t []) eqn:E; [|reflexivity]. apply MiP.lookup_In in E. apply H in E. discriminate.
    - intros p q r Hp E Hq Hr. destruct (Mi.lookup t p) as [n|] eqn:El; [|congruence].
      apply MiP.lookup_In in El. apply H in El. cbn [fst] in El. apply andb_true_iff in El as [_ El].
      rewrite forallb_forall in El. specialize (El q). unfold mini_is_dir in El.
      destruct (Mi.lookup t q) as [[]|]; try reflexivity; exfalso; (assert (X : false = true); [apply El | discriminate]);
        (apply GG.inits_spec; split; [exact Hq|]; subst p; destruct (GG.snoc_cases r) as [-> | [r' [x ->]]]; [congruence|];
         exists r'; rewrite app_assoc, GG.removelast_snoc; reflexivity).
  Qed.

  (* ------------------------------------------------------------------ reading operations *)

  Theorem fsmini_lstat_refines_lemma : forall t T p, sim t T -> p <> [] -> Mi.lstat t p <> Mi.Unmodelled ->
    mini_agree (fun n n' => n' = mn n) (Mi.lstat t p) (Go.lstat T (mp p)).
  Proof.
    intros t T p Hs Hp Hu. unfold Mi.lstat in *.
    destruct (parent_cases t T p Hs) as [E D L | e E R | E]; rewrite E in *; cbn [Mi.bind] in *.
    - rewrite (GoP.lstat_lit T (mp p) L), (sim_node_at t T p Hs Hp).
      destruct (Mi.lookup t p) as [n|]; cbn [option_map].
      + apply MA_ok. reflexivity.
      + apply (MA_err _ Mi.ENOENT).
    - rewrite (GG.lstat_err T (mp p) _ (R false)). apply MA_err.
    - congruence.
  Qed.

  Theorem fsmini_readlink_refines_lemma : forall t T p, sim t T -> p <> [] -> Mi.readlink t p <> Mi.Unmodelled ->
    mini_agree (fun d d' => d' = ldest d) (Mi.readlink t p) (Go.readlink T (mp p)).
  Proof.
    intros t T p Hs Hp Hu. unfold Mi.readlink, Mi.lstat in *.
    destruct (parent_cases t T p Hs) as [E D L | e E R | E]; rewrite E in *; cbn [Mi.bind] in *.
    - rewrite (GoP.readlink_lit T (mp p) L), (sim_node_at t T p Hs Hp).
      destruct (Mi.lookup t p) as [[c| |d]|]; cbn [option_map mini_node Mi.bind].
      + apply (MA_err _ Mi.EINVAL).
      + apply (MA_err _ Mi.EINVAL).
      + apply MA_ok. reflexivity.
      + apply (MA_err _ Mi.ENOENT).
    - rewrite (GG.readlink_err T (mp p) _ (R false)). apply MA_err.
    - congruence.
  Qed.

  Theorem fsmini_read_file_refines_lemma : forall t T p, sim t T -> p <> [] -> Mi.read_file t p <> Mi.Unmodelled ->
    mini_agree (fun c c' => c' = c) (Mi.read_file t p) (Go.read_file T (mp p)).
  Proof.
    intros t T p Hs Hp Hu. unfold Mi.read_file, Mi.lstat in *.
    destruct (parent_cases t T p Hs) as [E D L | e E R | E]; rewrite E in *; cbn [Mi.bind] in *.
    - pose proof (sim_node_at t T p Hs Hp) as Hn.
      destruct (Mi.lookup t p) as [[c| |d]|] eqn:El; cbn [option_map mini_node Mi.bind] in *.
      + rewrite (GoP.read_file_lit T (mp p) L); [|intros d; congruence]. rewrite Hn. apply MA_ok. reflexivity.
      + rewrite (GoP.read_file_lit T (mp p) L); [|intros d; congruence]. rewrite Hn. apply (MA_err _ Mi.EISDIR).
      + congruence.
      + rewrite (GoP.read_file_lit T (mp p) L); [|intros d; congruence]. rewrite Hn. apply (MA_err _ Mi.ENOENT).
    - rewrite (GG.read_file_err T (mp p) _ (R true)). apply MA_err.
    - congruence.
  Qed.

  Theorem fsmini_open_existing_refines_lemma : forall t T p, sim t T -> p <> [] -> Mi.open_existing t p <> Mi.Unmodelled ->
    mini_agree (fun c c' => c' = c) (Mi.open_existing t p) (gen_open_existing T (mp p)).
  Proof.
    intros t T p Hs Hp Hu. unfold Mi.open_existing, Mi.read_file, Mi.lstat, gen_open_existing in *.
    destruct (parent_cases t T p Hs) as [E D L | e E R | E]; rewrite E in *; cbn [Mi.bind] in *.
    - pose proof (sim_node_at t T p Hs Hp) as Hn.
      destruct (Mi.lookup t p) as [[c| |d]|] eqn:El; cbn [option_map mini_node Mi.bind] in *.
      + rewrite (GG.open_nocreate_lit_gen T (mp p) L); [|intros d; congruence]. rewrite Hn. rewrite Hn. apply MA_ok. reflexivity.
      + rewrite (GG.open_nocreate_lit_gen T (mp p) L); [|intros d; congruence]. rewrite Hn. apply (MA_err _ Mi.EISDIR).
      + congruence.
      + rewrite (GG.open_nocreate_lit_gen T (mp p) L); [|intros d; congruence]. rewrite Hn. apply (MA_err _ Mi.ENOENT).
    - rewrite (GG.open_nocreate_err T (mp p) _ (R true)). apply MA_err.
    - congruence.
  Qed.

  (* ------------------------------------------------------------------ updates of the tree, related *)

  Lemma sim_unset : forall t T p, sim t T -> sim (Mi.unset t p) (Gt.del T (mp p)).
  Proof.
    intros t T p Hs. apply sim_intro.
    - intros x. rewrite GtP.lookup_del, MiP.lookup_unset, path_eqb_mp, (sim_lookup t T x Hs).
      destruct (Mi.path_eqb p x); reflexivity.
    - intros q. rewrite GtP.lookup_del. destruct (Gt.path_eqb (mp p) q); [congruence | apply (sim_key t T q Hs)].
  Qed.

  Lemma sim_unset_tree : forall t T p, sim t T -> sim (Mi.unset_tree t p) (Gt.del_tree T (mp p)).
  Proof.
    intros t T p Hs. apply sim_intro.
    - intros x. rewrite GtP.lookup_del_tree, MiP.lookup_unset_tree, is_prefix_mp, (sim_lookup t T x Hs).
      destruct (Mi.is_prefix p x); reflexivity.
    - intros q. rewrite GtP.lookup_del_tree. destruct (Gt.is_prefix (mp p) q); [congruence | apply (sim_key t T q Hs)].
  Qed.

  Lemma sim_set : forall t T p n, sim t T -> sim (Mi.set t p n) (Gt.set T (mp p) (mn n)).
  Proof.
    intros t T p n Hs. apply sim_intro.
    - intros x. rewrite GtP.lookup_set, MiP.lookup_set, path_eqb_mp, (sim_lookup t T x Hs).
      destruct (Mi.path_eqb p x); reflexivity.
    - intros q. rewrite GtP.lookup_set. destruct (Gt.path_eqb (mp p) q) eqn:E.
      + intros _. apply GtP.path_eqb_eq in E. exists p. congruence.
      + apply (sim_key t T q Hs).
  Qed.

  Lemma sim_equiv_r : forall t T T', sim t T -> tree_equiv T T' -> sim t T'.
  Proof. intros t T T' H E q. rewrite (H q). apply E. Qed.

  (* ------------------------------------------------------------------ remove *)

  Lemma mini_has_child_iff : forall t p,
    Mi.has_child t p = true <-> exists k, Mi.lookup t k <> None /\ Mi.is_proper_prefix p k = true.
  Proof.
    intros t p. unfold Mi.has_child. rewrite existsb_exists. split.
    - intros [[k n] [Hin H]]. cbn [fst] in H. exists k. split; [|exact H].
      apply MiP.In_lookup in Hin as [m Hm]. congruence.
    - intros [k [Hk H]]. destruct (Mi.lookup t k) as [n|] eqn:E; [|congruence]. exists (k, n).
      split; [apply MiP.lookup_In; exact E | exact H].
  Qed.

  Lemma has_child_sim : forall t T p, sim t T -> Gt.has_child T (mp p) = Mi.has_child t p.
  Proof.
    intros t T p Hs. apply Bool.eq_iff_eq_true. rewrite GG.has_child_iff, mini_has_child_iff. split.
    - intros [K [HK [H1 H2]]]. destruct (sim_key t T K Hs HK) as [k ->]. exists k. split.
      + apply (sim_lookup_some t T k Hs HK).
      + unfold Mi.is_proper_prefix. rewrite is_prefix_mp in H1. rewrite H1. cbn [andb]. apply negb_true_iff.
        apply MiP.path_eqb_neq. intros ->. apply H2. reflexivity.
    - intros [k [Hk H]]. unfold Mi.is_proper_prefix in H. apply andb_true_iff in H as [H1 H2].
      apply negb_true_iff in H2. apply MiP.path_eqb_neq in H2. exists (mp k). split; [|split].
      + rewrite (sim_lookup t T k Hs). destruct (Mi.lookup t k); [discriminate | congruence].
      + rewrite is_prefix_mp. exact H1.
      + intros E. apply mp_inj in E. contradiction.
  Qed.

  Theorem fsmini_remove_refines_lemma : forall t T p, sim t T -> p <> [] -> Mi.remove t p <> Mi.Unmodelled ->
    mini_agree sim (Mi.remove t p) (Go.remove T (mp p)).
  Proof.
    intros t T p Hs Hp Hu. unfold Mi.remove, Mi.lstat in *.
    destruct (parent_cases t T p Hs) as [E D L | e E R | E]; rewrite E in *; cbn [Mi.bind] in *.
    - rewrite (GG.remove_lit_gen T (mp p) L (mp_nonempty p Hp)), (sim_lookup t T p Hs), (has_child_sim t T p Hs).
      destruct (Mi.lookup t p) as [[c| |d]|]; cbn [option_map mini_node Mi.bind].
      + apply MA_ok. apply sim_unset. exact Hs.
      + destruct (Mi.has_child t p); [apply (MA_err _ Mi.ENOTEMPTY) | apply MA_ok; apply sim_unset; exact Hs].
      + apply MA_ok. apply sim_unset. exact Hs.
      + apply (MA_err _ Mi.ENOENT).
    - rewrite (GG.remove_err T (mp p) _ (R false)). apply MA_err.
    - congruence.
  Qed.

  (* ------------------------------------------------------------------ remove_all *)

  Theorem fsmini_remove_all_refines_lemma : forall t T p, mini_wf t -> sim t T -> p <> [] -> Mi.remove_all t p <> Mi.Unmodelled ->
    mini_agree sim (Mi.remove_all t p) (Go.remove_all T (mp p)).
  Proof.
    intros t T p W Hs Hp Hu. unfold Mi.remove_all, Mi.lstat in *.
    destruct (parent_cases t T p Hs) as [E D L | e E R | E]; rewrite E in *; cbn [Mi.bind] in *.
    - rewrite (GoP.remove_all_lit T (mp p) L (mp_nonempty p Hp)).
      destruct (Mi.lookup t p) as [n|] eqn:El.
      + apply MA_ok. apply sim_unset_tree. exact Hs.
      + apply MA_ok. apply sim_intro.
        * intros x. rewrite GtP.lookup_del_tree, is_prefix_mp, (sim_lookup t T x Hs).
          destruct (Mi.is_prefix p x) eqn:Ex; [|reflexivity]. apply MiP.is_prefix_spec in Ex as [r ->].
          destruct r as [|y r]; [rewrite app_nil_r, El; reflexivity|].
          rewrite (wf_below_nondir t p (y :: r) W Hp); [reflexivity | discriminate | congruence].
        * intros q. rewrite GtP.lookup_del_tree. destruct (Gt.is_prefix (mp p) q); [congruence | apply (sim_key t T q Hs)].
    - unfold Go.remove_all. rewrite (R false). destruct e; cbn [mini_errno]; try apply MA_err.
      apply MA_ok. exact Hs.
    - congruence.
  Qed.

  (* ------------------------------------------------------------------ symlink, create *)

  Theorem fsmini_symlink_refines_lemma : forall t T d p, sim t T -> p <> [] -> Mi.symlink t d p <> Mi.Unmodelled ->
    mini_agree sim (Mi.symlink t d p) (Go.symlink T (ldest d) (mp p)).
  Proof.
    intros t T d p Hs Hp Hu. unfold Mi.symlink in *.
    destruct (parent_cases t T p Hs) as [E D L | e E R | E]; rewrite E in *; cbn [Mi.bind] in *.
    - rewrite (GG.symlink_lit_gen T (ldest d) (mp p) L), (sim_node_at t T p Hs Hp).
      destruct (Mi.lookup t p) as [n|]; cbn [option_map].
      + apply (MA_err _ Mi.EEXIST).
      + apply MA_ok. apply (sim_set t T p (Mi.Link d) Hs).
    - rewrite (GG.symlink_err T (ldest d) (mp p) _ (R false)). apply MA_err.
    - congruence.
  Qed.

  Theorem fsmini_write_refines_lemma : forall t T p c, sim t T -> p <> [] -> Mi.create_trunc t p c <> Mi.Unmodelled ->
    mini_agree sim (Mi.create_trunc t p c) (gen_create T (mp p) c).
  Proof.
    intros t T p c Hs Hp Hu. unfold Mi.create_trunc, gen_create in *.
    destruct (parent_cases t T p Hs) as [E D L | e E R | E]; rewrite E in *; cbn [Mi.bind] in *.
    - pose proof (sim_node_at t T p Hs Hp) as Hn.
      assert (Hw : forall T0, Go.write_fd (Gt.set T0 (mp p) (Gt.File [])) (mp p) c
                              = Gt.set (Gt.set T0 (mp p) (Gt.File [])) (mp p) (Gt.File c)).
      { intros T0. unfold Go.write_fd. rewrite (GoP.node_at_set _ _ _ _ (mp_nonempty p Hp)), GtP.path_eqb_refl. reflexivity. }
      assert (Hsim : sim (Mi.set t p (Mi.File c)) (Gt.set (Gt.set T (mp p) (Gt.File [])) (mp p) (Gt.File c))).
      { eapply sim_equiv_r; [apply (sim_set t T p (Mi.File c) Hs)|]. intros q. cbn [mini_node]. rewrite !GtP.lookup_set.
        destruct (Gt.path_eqb (mp p) q); reflexivity. }
      destruct (Mi.lookup t p) as [[c'| |d]|] eqn:El; cbn [option_map mini_node] in *.
      + rewrite (GG.open_trunc_lit_gen T (mp p) L); [|intros d; congruence]. rewrite Hn, Hw. apply MA_ok. exact Hsim.
      + rewrite (GG.open_trunc_lit_gen T (mp p) L); [|intros d; congruence]. rewrite Hn. apply (MA_err _ Mi.EISDIR).
      + congruence.
      + rewrite (GG.open_trunc_lit_gen T (mp p) L); [|intros d; congruence]. rewrite Hn, Hw. apply MA_ok. exact Hsim.
    - rewrite (GG.open_trunc_err T (mp p) _ (R true)). apply MA_err.
    - congruence.
  Qed.


  (* ------------------------------------------------------------------ well-formedness is preserved *)

  Lemma wf_unset : forall t p, mini_wf t -> (forall r, r <> [] -> Mi.lookup t (p ++ r) = None) -> mini_wf (Mi.unset t p).
  Proof.
    intros t p [W0 W] Hc. split.
    - rewrite MiP.lookup_unset. destruct (Mi.path_eqb p []); [reflexivity | exact W0].
    - intros x q r Hx E Hq Hr. rewrite MiP.lookup_unset in Hx. rewrite MiP.lookup_unset.
      destruct (Mi.path_eqb p x) eqn:E1; [congruence|].
      destruct (Mi.path_eqb p q) eqn:E2.
      + apply MiP.path_eqb_eq in E2. subst q x. rewrite (Hc r Hr) in Hx. congruence.
      + apply (W x q r Hx E Hq Hr).
  Qed.

  Lemma wf_unset_tree : forall t p, mini_wf t -> mini_wf (Mi.unset_tree t p).
  Proof.
    intros t p [W0 W]. split.
    - rewrite MiP.lookup_unset_tree. destruct (Mi.is_prefix p []); [reflexivity | exact W0].
    - intros x q r Hx E Hq Hr. rewrite MiP.lookup_unset_tree in Hx. rewrite MiP.lookup_unset_tree.
      destruct (Mi.is_prefix p x) eqn:E1; [congruence|].
      destruct (Mi.is_prefix p q) eqn:E2.
      + apply MiP.is_prefix_spec in E2 as [r' ->]. subst x. rewrite <- app_assoc, MiP.is_prefix_app in E1. discriminate.
      + apply (W x q r Hx E Hq Hr).
  Qed.

  Lemma wf_set : forall t p n, mini_wf t -> p <> [] -> MiP.dirs_above t p ->
    (forall r, r <> [] -> Mi.lookup t (p ++ r) = None) -> mini_wf (Mi.set t p n).
  Proof.
    intros t p n [W0 W] Hp D Hc. split.
    - rewrite MiP.lookup_set. destruct (Mi.path_eqb p []) eqn:E; [apply MiP.path_eqb_eq in E; contradiction | exact W0].
    - intros x q r Hx E Hq Hr. rewrite MiP.lookup_set in Hx. rewrite MiP.lookup_set.
      destruct (Mi.path_eqb p q) eqn:E2.
      + apply MiP.path_eqb_eq in E2. subst q x. exfalso.
        destruct (Mi.path_eqb p (p ++ r)) eqn:E3.
        * apply MiP.path_eqb_eq in E3. rewrite <- (app_nil_r p) in E3 at 1. apply app_inv_head in E3. congruence.
        * rewrite (Hc r Hr) in Hx. congruence.
      + destruct (Mi.path_eqb p x) eqn:E1.
        * apply MiP.path_eqb_eq in E1. subst x. apply (D q r E Hq Hr).
        * apply (W x q r Hx E Hq Hr).
  Qed.

  Lemma no_child_of_has_child : forall t p, Mi.has_child t p = false -> forall r, r <> [] -> Mi.lookup t (p ++ r) = None.
  Proof.
    intros t p H r Hr. destruct (Mi.lookup t (p ++ r)) eqn:E; [|reflexivity].
    assert (X : Mi.has_child t p = true); [|congruence]. apply mini_has_child_iff. exists (p ++ r). split; [congruence|].
    apply MiP.is_proper_prefix_spec. exists r. split; [reflexivity | exact Hr].
  Qed.

  Lemma mini_wf_remove : forall t p t', mini_wf t -> p <> [] -> Mi.remove t p = Mi.Ok t' -> mini_wf t'.
  Proof.
    intros t p t' W Hp H. unfold Mi.remove, Mi.lstat in H.
    destruct (Mi.parent_ok t p) as [[]|e|]; cbn [Mi.bind] in H; try discriminate.
    destruct (Mi.lookup t p) as [[c| |d]|] eqn:El; cbn [Mi.bind] in H; try discriminate.
    - injection H as <-. apply wf_unset; [exact W|]. intros r Hr. apply (wf_below_nondir t p r W Hp Hr). congruence.
    - destruct (Mi.has_child t p) eqn:Eh; [discriminate|]. injection H as <-. apply wf_unset; [exact W|].
      apply no_child_of_has_child. exact Eh.
    - injection H as <-. apply wf_unset; [exact W|]. intros r Hr. apply (wf_below_nondir t p r W Hp Hr). congruence.
  Qed.

  Lemma mini_wf_remove_all : forall t p t', mini_wf t -> Mi.remove_all t p = Mi.Ok t' -> mini_wf t'.
  Proof.
    intros t p t' W H. unfold Mi.remove_all in H. destruct (Mi.lstat t p) as [n|e|]; try discriminate.
    - injection H as <-. apply wf_unset_tree. exact W.
    - destruct e; try discriminate. injection H as <-. exact W.
  Qed.

  Lemma mini_wf_symlink : forall t d p t', mini_wf t -> p <> [] -> Mi.symlink t d p = Mi.Ok t' -> mini_wf t'.
  Proof.
    intros t d p t' W Hp H. unfold Mi.symlink in H.
    destruct (Mi.parent_ok t p) as [[]|e|] eqn:E; cbn [Mi.bind] in H; try discriminate.
    destruct (Mi.lookup t p) eqn:El; [discriminate|]. injection H as <-.
    apply wf_set; [exact W | exact Hp | apply (parent_ok_inv t p tt E)|].
    intros r Hr. apply (wf_below_nondir t p r W Hp Hr). congruence.
  Qed.

  Lemma mini_wf_create : forall t p c t', mini_wf t -> p <> [] -> Mi.create_trunc t p c = Mi.Ok t' -> mini_wf t'.
  Proof.
    intros t p c t' W Hp H. unfold Mi.create_trunc in H.
    destruct (Mi.parent_ok t p) as [[]|e|] eqn:E; cbn [Mi.bind] in H; try discriminate.
    assert (X : Mi.lookup t p <> Some Mi.Dir -> mini_wf (Mi.set t p (Mi.File c))).
    { intros Hn. apply wf_set; [exact W | exact Hp | apply (parent_ok_inv t p tt E)|].
      intros r Hr. apply (wf_below_nondir t p r W Hp Hr Hn). }
    destruct (Mi.lookup t p) as [[c'| |d]|] eqn:El; try discriminate; injection H as <-; apply X; congruence.
  Qed.

  (* ------------------------------------------------------------------ mkdir_all *)

  Lemma in_inits_cons : forall {A} (c : A) rest q, In q (inits (c :: rest)) <-> q = [c] \/ exists q', q = c :: q' /\ In q' (inits rest).
  Proof.
    intros A c rest q. cbn [inits]. split.
    - intros [<- | H]; [left; reflexivity|]. apply in_map_iff in H as [q' [<- H]]. right. exists q'. split; [reflexivity | exact H].
    - intros [-> | [q' [-> H]]]; [left; reflexivity | right; apply in_map; exact H].
  Qed.

  Lemma mkdir_from_spec : forall rest t pre,
    (forall q, In q (inits rest) -> Mi.lookup t (pre ++ q) = None ->
       forall q', In q' (inits rest) -> Mi.is_prefix q q' = true -> Mi.lookup t (pre ++ q') = None) ->
    match Mi.mkdir_from t pre rest with
    | Mi.Ok t' =>
        (forall q, In q (inits rest) -> Mi.lookup t (pre ++ q) = Some Mi.Dir \/ Mi.lookup t (pre ++ q) = None) /\
        (forall q, In q (inits rest) -> Mi.lookup t' (pre ++ q) = Some Mi.Dir) /\
        (forall x, (forall q, In q (inits rest) -> x <> pre ++ q) -> Mi.lookup t' x = Mi.lookup t x)
    | Mi.Err e =>
        e = Mi.ENOTDIR /\
        exists a r c, rest = a ++ r /\ a <> [] /\ Mi.lookup t (pre ++ a) = Some (Mi.File c) /\
                      forall a1 a2, a = a1 ++ a2 -> a1 <> [] -> a2 <> [] -> Mi.lookup t (pre ++ a1) = Some Mi.Dir
    | Mi.Unmodelled => True
    end.
  Proof.
    induction rest as [|c rest IH]; intros t pre NJ.
    - cbn. repeat split; intros; try contradiction.
    - cbn [Mi.mkdir_from]. destruct (Mi.lookup t (pre ++ [c])) as [[x| |x]|] eqn:El.
      + split; [reflexivity|]. exists [c], rest, x. repeat split; try assumption; try discriminate.
        intros a1 a2 E H1 H2. destruct a1 as [|y a1]; [contradiction|]. cbn in E. injection E as _ E.
        destruct a1; [destruct a2; [contradiction | discriminate] | discriminate].
      + (* a directory: go on *)
        specialize (IH t (pre ++ [c])).
        assert (NJ' : forall q, In q (inits rest) -> Mi.lookup t ((pre ++ [c]) ++ q) = None ->
                  forall q', In q' (inits rest) -> Mi.is_prefix q q' = true -> Mi.lookup t ((pre ++ [c]) ++ q') = None).
        { intros q Hq Hn q' Hq' Hp. rewrite <- app_assoc in *. cbn [app] in *.
          apply (NJ (c :: q)); [apply in_inits_cons; right; exists q; tauto | exact Hn | apply in_inits_cons; right; exists q'; tauto|].
          cbn [Mi.is_prefix]. rewrite Hp. replace (Mi.comp_eqb c c) with true; [reflexivity|].
          symmetry. apply MiP.comp_eqb_eq. reflexivity. }
        specialize (IH NJ'). destruct (Mi.mkdir_from t (pre ++ [c]) rest) as [t'|e|].
        * destruct IH as [I1 [I2 I3]]. split; [|split].
          -- intros q Hq. apply in_inits_cons in Hq as [-> | [q' [-> Hq']]]; [left; exact El|].
             replace (pre ++ c :: q') with ((pre ++ [c]) ++ q') by (rewrite <- app_assoc; reflexivity). apply I1. exact Hq'.
          -- intros q Hq. apply in_inits_cons in Hq as [-> | [q' [-> Hq']]].
             ++ rewrite I3; [exact El|]. intros q Hq E. rewrite <- app_assoc in E. apply app_inv_head in E.
                injection E as E. apply GG.inits_spec in Hq as [Hq _]. symmetry in E. contradiction.
             ++ replace (pre ++ c :: q') with ((pre ++ [c]) ++ q') by (rewrite <- app_assoc; reflexivity). apply I2. exact Hq'.
          -- intros x Hx. apply I3. intros q Hq E. apply (Hx (c :: q)); [apply in_inits_cons; right; exists q; tauto|].
             rewrite E, <- app_assoc. reflexivity.
        * destruct IH as [-> [a [r [c0 [-> [Ha [Hf Hd]]]]]]]. split; [reflexivity|].
          exists (c :: a), r, c0. repeat split; try discriminate.
          -- rewrite <- app_assoc in Hf. exact Hf.
          -- intros a1 a2 E H1 H2. destruct a1 as [|y a1]; [contradiction|]. cbn in E. injection E as <- E.
             destruct a1 as [|z a1]; [exact El|].
             replace (pre ++ c :: z :: a1) with ((pre ++ [c]) ++ z :: a1) by (rewrite <- app_assoc; reflexivity).
             apply (Hd (z :: a1) a2 E); [discriminate | exact H2].
        * exact I.
      + exact I.
      + (* absent: created, and so is everything below *)
        assert (Hall : forall q', In q' (inits rest) -> Mi.lookup t (pre ++ c :: q') = None).
        { intros q' Hq'. apply (NJ [c]); [apply in_inits_cons; left; reflexivity | exact El | apply in_inits_cons; right; exists q'; tauto|].
          cbn [Mi.is_prefix]. replace (Mi.comp_eqb c c) with true; [reflexivity|]. symmetry. apply MiP.comp_eqb_eq. reflexivity. }
        assert (Hl2 : forall q', q' <> [] -> Mi.lookup (Mi.set t (pre ++ [c]) Mi.Dir) ((pre ++ [c]) ++ q') = Mi.lookup t (pre ++ c :: q')).
        { intros q' Hq'. rewrite MiP.lookup_set. destruct (Mi.path_eqb (pre ++ [c]) ((pre ++ [c]) ++ q')) eqn:E.
          - apply MiP.path_eqb_eq in E. rewrite <- (app_nil_r (pre ++ [c])) in E at 1. apply app_inv_head in E. congruence.
          - rewrite <- app_assoc. reflexivity. }
        specialize (IH (Mi.set t (pre ++ [c]) Mi.Dir) (pre ++ [c])).
        assert (NJ' : forall q, In q (inits rest) -> Mi.lookup (Mi.set t (pre ++ [c]) Mi.Dir) ((pre ++ [c]) ++ q) = None ->
                  forall q', In q' (inits rest) -> Mi.is_prefix q q' = true ->
                  Mi.lookup (Mi.set t (pre ++ [c]) Mi.Dir) ((pre ++ [c]) ++ q') = None).
        { intros q Hq Hn q' Hq' Hp. rewrite Hl2; [apply Hall; exact Hq'|]. apply GG.inits_spec in Hq'. tauto. }
        specialize (IH NJ'). destruct (Mi.mkdir_from (Mi.set t (pre ++ [c]) Mi.Dir) (pre ++ [c]) rest) as [t'|e|].
        * destruct IH as [I1 [I2 I3]]. split; [|split].
          -- intros q Hq. right. apply in_inits_cons in Hq as [-> | [q' [-> Hq']]]; [exact El | apply Hall; exact Hq'].
          -- intros q Hq. apply in_inits_cons in Hq as [-> | [q' [-> Hq']]].
             ++ rewrite I3; [rewrite MiP.lookup_set, MiP.path_eqb_refl; reflexivity|].
                intros q Hq E. rewrite <- app_assoc in E. apply app_inv_head in E.
                injection E as E. apply GG.inits_spec in Hq as [Hq _]. symmetry in E. contradiction.
             ++ replace (pre ++ c :: q') with ((pre ++ [c]) ++ q') by (rewrite <- app_assoc; reflexivity). apply I2. exact Hq'.
          -- intros x Hx. rewrite I3.
             ++ rewrite MiP.lookup_set. destruct (Mi.path_eqb (pre ++ [c]) x) eqn:E; [|reflexivity].
                apply MiP.path_eqb_eq in E. exfalso. apply (Hx [c]); [apply in_inits_cons; left; reflexivity | congruence].
             ++ intros q Hq E. apply (Hx (c :: q)); [apply in_inits_cons; right; exists q; tauto|].
                rewrite E, <- app_assoc. reflexivity.
        * exfalso. destruct IH as [_ [a [r [c0 [-> [Ha [Hf _]]]]]]]. rewrite Hl2 in Hf by exact Ha.
          rewrite Hall in Hf; [discriminate|]. apply GG.inits_spec. split; [exact Ha | exists r; reflexivity].
        * exact I.
  Qed.

  Lemma sim_gen_wf : forall t T, mini_wf t -> sim t T -> GG.gen_wf T.
  Proof.
    intros t T W Hs. split.
    - pose proof (sim_lookup t T [] Hs) as X. rewrite (proj1 W) in X. exact X.
    - intros P HP. destruct (sim_key t T P Hs HP) as [p ->]. apply (sim_lit t T p Hs).
      apply (wf_dirs_above t p W). apply (sim_lookup_some t T p Hs HP).
  Qed.

  Lemma inits_mp : forall p a, In a (inits (mp p)) -> exists q, a = mp q /\ In q (inits p).
  Proof.
    intros p a Ha. apply GG.inits_spec in Ha as [Ha [r Hr]]. apply mp_split in Hr as [pa [pb [-> [-> _]]]].
    exists pa. split; [reflexivity|]. apply GG.inits_spec. split; [intros ->; apply Ha; reflexivity | exists pb; reflexivity].
  Qed.

  Lemma in_inits_dec : forall (x p : Mi.path), {In x (inits p)} + {~ In x (inits p)}.
  Proof. intros x p. apply in_dec. apply MiP.path_eq_dec. Qed.

  Theorem fsmini_mkdir_all_refines_lemma : forall t T p, mini_wf t -> sim t T -> Mi.mkdir_all t p <> Mi.Unmodelled ->
    mini_agree (fun t' T' => sim t' T' /\ mini_wf t') (Mi.mkdir_all t p) (Go.mkdir_all T (mp p)).
  Proof.
    intros t T p W Hs Hu. unfold Mi.mkdir_all in *.
    pose proof (mkdir_from_spec p t []) as S. cbn [app] in S.
    assert (NJ : forall q, In q (inits p) -> Mi.lookup t q = None ->
              forall q', In q' (inits p) -> Mi.is_prefix q q' = true -> Mi.lookup t q' = None).
    { intros q Hq Hn q' Hq' Hp. apply MiP.is_prefix_spec in Hp as [r ->]. destruct r as [|y r]; [rewrite app_nil_r; exact Hn|].
      apply (wf_below_nondir t q (y :: r) W); [apply GG.inits_spec in Hq; tauto | discriminate | congruence]. }
    specialize (S NJ). destruct (Mi.mkdir_from t [] p) as [t'|e|]; [| |congruence].
    - destruct S as [S1 [S2 S3]].
      destruct (GG.mkdir_all_creates T (mp p) (sim_gen_wf t T W Hs)) as [T' [HT' ST']].
      { intros a Ha. destruct (inits_mp p a Ha) as [q [-> Hq]]. rewrite (sim_lookup t T q Hs).
        destruct (S1 q Hq) as [E | E]; rewrite E; [left | right]; reflexivity. }
      rewrite HT'. apply MA_ok. split.
      + apply sim_intro.
        * intros x. rewrite ST', (sim_lookup t T x Hs). destruct (in_inits_dec x p) as [Hin | Hnin].
          -- rewrite (S2 x Hin). apply GG.inits_spec in Hin as Hin'. destruct Hin' as [Hx [r Hr]].
             replace (is_nil (mp x)) with false by (destruct x; [congruence | reflexivity]).
             rewrite is_prefix_mp. replace (Mi.is_prefix x p) with true by (symmetry; apply MiP.is_prefix_spec; exists r; exact Hr).
             destruct (S1 x Hin) as [E | E]; rewrite E; reflexivity.
          -- rewrite S3; [|intros q Hq ->; contradiction]. destruct (Mi.lookup t x) as [n|] eqn:E; [reflexivity|]. cbn [option_map].
             destruct (negb (is_nil (mp x)) && Gt.is_prefix (mp x) (mp p)) eqn:Eb; [|reflexivity]. exfalso. apply Hnin.
             apply andb_true_iff in Eb as [E1 E2]. rewrite is_prefix_mp in E2. apply MiP.is_prefix_spec in E2 as [r ->].
             apply GG.inits_spec. split; [destruct x; [discriminate | discriminate] | exists r; reflexivity].
        * intros q. rewrite ST'. destruct (Gt.lookup T q) eqn:E.
          -- intros _. apply (sim_key t T q Hs). congruence.
          -- destruct (negb (is_nil q) && Gt.is_prefix q (mp p)) eqn:Eb; [|congruence]. intros _.
             apply andb_true_iff in Eb as [_ E2]. apply GtP.is_prefix_spec in E2 as [r Hr].
             apply mp_split in Hr as [pa [pb [_ [-> _]]]]. exists pa. reflexivity.
      + split.
        * rewrite S3; [exact (proj1 W)|]. intros q Hq E. cbn in E. subst q. apply GG.inits_spec in Hq. tauto.
        * intros x q r Hx E Hq Hr.
          assert (Hdir : Mi.lookup t q = Some Mi.Dir -> Mi.lookup t' q = Some Mi.Dir).
          { intros Hd. destruct (in_inits_dec q p) as [Hin | Hnin]; [apply S2; exact Hin|].
            rewrite S3; [exact Hd | intros q0 Hq0 ->; contradiction]. }
          destruct (in_inits_dec x p) as [Hin | Hnin].
          -- apply S2. apply GG.inits_spec. split; [exact Hq|]. apply GG.inits_spec in Hin as [_ [r' ->]].
             exists (r ++ r'). subst x. rewrite app_assoc. reflexivity.
          -- rewrite S3 in Hx by (intros q0 Hq0 ->; contradiction). apply Hdir. apply ((proj2 W) x q r Hx E Hq Hr).
    - destruct S as [-> [a [r [c [-> [Ha [Hf Hd]]]]]]]. rewrite mp_app.
      rewrite (GG.mkdir_all_file T (mp a) (mp r) c).
      + apply (MA_err _ Mi.ENOTDIR).
      + apply (sim_lit t T a Hs). intros q r' E Hq Hr'. apply (Hd q r' E Hq Hr').
      + apply mp_nonempty. exact Ha.
      + rewrite (sim_lookup t T a Hs), Hf. reflexivity.
  Qed.


  (* ------------------------------------------------------------------ rename: the two ways of moving *)

  Lemma mini_lookup_app : forall (a b : Mi.fs) q,
    Mi.lookup (a ++ b) q = match Mi.lookup a q with Some n => Some n | None => Mi.lookup b q end.
  Proof.
    induction a as [|[k n] a IH]; intros b q; cbn [app Mi.lookup]; [reflexivity|].
    destruct (Mi.path_eqb k q); [reflexivity | apply IH].
  Qed.

  Lemma skipn_app_exact : forall {A} (p r : list A), skipn (length p) (p ++ r) = r.
  Proof. intros A p r. rewrite skipn_app, skipn_all, Nat.sub_diag. reflexivity. Qed.

  Lemma mini_is_prefix_false_eq : forall p k, Mi.is_prefix p k = false -> forall r, k <> p ++ r.
  Proof. intros p k H r ->. rewrite MiP.is_prefix_app in H. discriminate. Qed.

  Lemma lookup_moved_part : forall t s d x,
    Mi.lookup (map (fun e => (d ++ skipn (length s) (fst e), snd e)) (filter (fun e => Mi.is_prefix s (fst e)) t)) x =
    if Mi.is_prefix d x then Mi.lookup t (s ++ skipn (length d) x) else None.
  Proof.
    intros t s d x. induction t as [|[k n] t IH]; cbn [filter map Mi.lookup fst snd].
    - destruct (Mi.is_prefix d x); reflexivity.
    - destruct (Mi.is_prefix s k) eqn:Esk; cbn [map Mi.lookup fst snd].
      + apply MiP.is_prefix_spec in Esk as [rk ->]. rewrite skipn_app_exact.
        destruct (Mi.is_prefix d x) eqn:Edx.
        * apply MiP.is_prefix_spec in Edx as [rx ->]. rewrite skipn_app_exact in *.
          destruct (Mi.path_eqb (d ++ rk) (d ++ rx)) eqn:E1.
          -- apply MiP.path_eqb_eq in E1. apply app_inv_head in E1. subst rk. rewrite MiP.path_eqb_refl. reflexivity.
          -- rewrite IH. destruct (Mi.path_eqb (s ++ rk) (s ++ rx)) eqn:E2; [|reflexivity].
             apply MiP.path_eqb_eq in E2. apply app_inv_head in E2. subst rk. rewrite MiP.path_eqb_refl in E1. discriminate.
        * rewrite IH. destruct (Mi.path_eqb (d ++ rk) x) eqn:E1; [|reflexivity].
          apply MiP.path_eqb_eq in E1. subst x. rewrite MiP.is_prefix_app in Edx. discriminate.
      + rewrite IH. destruct (Mi.is_prefix d x); [|reflexivity].
        destruct (Mi.path_eqb k (s ++ skipn (length d) x)) eqn:E2; [|reflexivity].
        apply MiP.path_eqb_eq in E2. subst k. rewrite MiP.is_prefix_app in Esk. discriminate.
  Qed.

  Lemma lookup_rest_part : forall t s d x,
    Mi.lookup (filter (fun e => negb (Mi.is_prefix s (fst e)) && negb (Mi.is_prefix d (fst e))) t) x =
    if Mi.is_prefix s x || Mi.is_prefix d x then None else Mi.lookup t x.
  Proof.
    intros t s d x. induction t as [|[k n] t IH]; cbn [filter Mi.lookup fst].
    - destruct (Mi.is_prefix s x || Mi.is_prefix d x); reflexivity.
    - destruct (negb (Mi.is_prefix s k) && negb (Mi.is_prefix d k)) eqn:E; cbn [Mi.lookup].
      + rewrite IH. destruct (Mi.path_eqb k x) eqn:E1; [|reflexivity]. apply MiP.path_eqb_eq in E1. subst k.
        apply andb_true_iff in E as [Ea Eb]. apply negb_true_iff in Ea, Eb. rewrite Ea, Eb. reflexivity.
      + rewrite IH. destruct (Mi.path_eqb k x) eqn:E1; [|reflexivity]. apply MiP.path_eqb_eq in E1. subst k.
        destruct (Mi.is_prefix s x); [reflexivity|]. destruct (Mi.is_prefix d x); [reflexivity | discriminate].
  Qed.

  Lemma lookup_move_subtree : forall t s d x,
    Mi.lookup (Mi.move_subtree t s d) x =
    if Mi.is_prefix d x then Mi.lookup t (s ++ skipn (length d) x)
    else if Mi.is_prefix s x then None else Mi.lookup t x.
  Proof.
    intros t s d x. unfold Mi.move_subtree. rewrite mini_lookup_app, lookup_moved_part, lookup_rest_part.
    destruct (Mi.is_prefix d x).
    - rewrite orb_true_r. destruct (Mi.lookup t (s ++ skipn (length d) x)); reflexivity.
    - rewrite orb_false_r. reflexivity.
  Qed.

  Lemma mp_skipn : forall d x, skipn (length (mp d)) (mp x) = mp (skipn (length d) x).
  Proof. intros d x. unfold mini_path. rewrite map_length, skipn_map. reflexivity. Qed.

  (** moving a directory onto a free name *)
  Lemma sim_move_dir : forall t T s d, mini_wf t -> sim t T -> d <> [] ->
    Mi.lookup t d = None -> Mi.is_prefix s d = false ->
    sim (Mi.move_subtree t s d) (Gt.move_tree T (mp s) (mp d)).
  Proof.
    intros t T s d W Hs Hd Hn Hsd.
    assert (Hfree : forall K, Gt.lookup T K <> None -> Gt.is_prefix (mp d) K = false).
    { intros K HK. destruct (sim_key t T K Hs HK) as [k ->]. rewrite is_prefix_mp.
      destruct (Mi.is_prefix d k) eqn:E; [|reflexivity]. exfalso. apply MiP.is_prefix_spec in E as [r ->].
      apply (sim_lookup_some t T _ Hs HK). destruct r as [|y r]; [rewrite app_nil_r; exact Hn|].
      apply (wf_below_nondir t d (y :: r) W Hd); [discriminate | congruence]. }
    assert (Hsd' : Gt.is_prefix (mp s) (mp d) = false) by (rewrite is_prefix_mp; exact Hsd).
    apply sim_intro.
    - intros x. rewrite (GG.lookup_move_tree T (mp s) (mp d) (mp x) Hfree Hsd'), lookup_move_subtree.
      rewrite !is_prefix_mp, mp_skipn, <- mp_app, !(sim_lookup t T _ Hs).
      destruct (Mi.is_prefix d x); [reflexivity|]. destruct (Mi.is_prefix s x); reflexivity.
    - intros q. rewrite (GG.lookup_move_tree T (mp s) (mp d) q Hfree Hsd').
      destruct (Gt.is_prefix (mp d) q) eqn:E.
      + intros H. apply GtP.is_prefix_spec in E as [R ->]. rewrite skipn_app_exact in H.
        destruct (sim_key t T _ Hs H) as [y Hy]. symmetry in Hy. apply mp_split in Hy as [pa [pb [_ [_ ->]]]].
        exists (d ++ pb). rewrite mp_app. reflexivity.
      + destruct (Gt.is_prefix (mp s) q); [congruence | apply (sim_key t T q Hs)].
  Qed.

  Lemma wf_move_dir : forall t s d, mini_wf t -> s <> [] -> d <> [] -> MiP.dirs_above t d ->
    Mi.lookup t d = None -> Mi.is_prefix s d = false -> mini_wf (Mi.move_subtree t s d).
  Proof.
    intros t s d [W0 W] Hs Hd Dd Hn Hsd. split.
    - rewrite lookup_move_subtree. destruct d; [congruence|]. destruct s; [congruence|]. exact W0.
    - intros x q r Hx E Hq Hr. rewrite lookup_move_subtree in Hx. rewrite lookup_move_subtree.
      destruct (Mi.is_prefix d x) eqn:Edx.
      + apply MiP.is_prefix_spec in Edx as [rx ->]. rewrite skipn_app_exact in Hx.
        destruct (Mi.is_prefix d q) eqn:Edq.
        * apply MiP.is_prefix_spec in Edq as [rq ->]. rewrite skipn_app_exact.
          rewrite <- app_assoc in E. apply app_inv_head in E. subst rx.
          destruct rq as [|y rq].
          -- (* q = d: the moved directory itself *)
             rewrite app_nil_r. destruct (Mi.lookup t s) as [[]|] eqn:Es; try reflexivity; exfalso;
               (assert (X : Mi.lookup t s = Some Mi.Dir); [apply (W (s ++ r) s r Hx eq_refl Hs Hr) | congruence]).
          -- apply (W (s ++ (y :: rq) ++ r) (s ++ y :: rq) r Hx); [rewrite app_assoc; reflexivity | destruct s; discriminate | exact Hr].
        * (* q is a proper prefix of d *)
          assert (Hqd : exists r', d = q ++ r' /\ r' <> []).
          { clear - E Edq Hq. revert q rx r E Edq Hq. induction d as [|a d IH]; intros q rx r E Edq Hq.
            - destruct q; [contradiction | discriminate].
            - destruct q as [|b q]; [contradiction|]. cbn in E. injection E as <- E.
              cbn [Mi.is_prefix] in Edq. replace (Mi.comp_eqb a a) with true in Edq by (symmetry; apply MiP.comp_eqb_eq; reflexivity).
              cbn [andb] in Edq. destruct q as [|c q].
              + exists d. split; [reflexivity|]. intros ->. discriminate.
              + destruct (IH (c :: q) rx r E Edq) as [r' [-> Hr']]; [discriminate|]. exists r'. split; [reflexivity | exact Hr']. }
          destruct Hqd as [r' [-> Hr']].
          destruct (Mi.is_prefix s q) eqn:Esq.
          -- apply MiP.is_prefix_spec in Esq as [r2 ->]. rewrite <- app_assoc, MiP.is_prefix_app in Hsd. discriminate.
          -- apply (Dd q r' eq_refl Hq Hr').
      + destruct (Mi.is_prefix s x) eqn:Esx; [congruence|].
        destruct (Mi.is_prefix d q) eqn:Edq.
        { apply MiP.is_prefix_spec in Edq as [r2 ->]. subst x. rewrite <- app_assoc, MiP.is_prefix_app in Edx. discriminate. }
        destruct (Mi.is_prefix s q) eqn:Esq.
        { apply MiP.is_prefix_spec in Esq as [r2 ->]. subst x. rewrite <- app_assoc, MiP.is_prefix_app in Esx. discriminate. }
        apply (W x q r Hx E Hq Hr).
  Qed.

  (** moving a file or a link onto a free name or over a file or a link *)
  Lemma sim_move_file : forall t T s d n, mini_wf t -> sim t T -> s <> [] -> d <> [] ->
    Mi.lookup t s = Some n -> n <> Mi.Dir -> Mi.lookup t d <> Some Mi.Dir ->
    Mi.is_prefix s d = false -> Mi.is_prefix d s = false ->
    sim (Mi.set (Mi.unset t s) d n) (Gt.move_tree (Gt.del T (mp d)) (mp s) (mp d)).
  Proof.
    intros t T s d n W Hs Hsn Hdn Hls Hnd Hld Hsd Hds.
    assert (Hbs : forall r, r <> [] -> Mi.lookup t (s ++ r) = None).
    { intros r Hr. apply (wf_below_nondir t s r W Hsn Hr). congruence. }
    assert (Hbd : forall r, r <> [] -> Mi.lookup t (d ++ r) = None).
    { intros r Hr. apply (wf_below_nondir t d r W Hdn Hr Hld). }
    assert (Hfree : forall K, Gt.lookup (Gt.del T (mp d)) K <> None -> Gt.is_prefix (mp d) K = false).
    { intros K. rewrite GtP.lookup_del. destruct (Gt.path_eqb (mp d) K) eqn:E; [congruence|]. intros HK.
      destruct (sim_key t T K Hs HK) as [k ->]. rewrite is_prefix_mp.
      destruct (Mi.is_prefix d k) eqn:E2; [|reflexivity]. exfalso. apply MiP.is_prefix_spec in E2 as [r ->].
      apply (sim_lookup_some t T _ Hs HK). destruct r as [|y r].
      - rewrite app_nil_r, GtP.path_eqb_refl in E. discriminate.
      - apply Hbd. discriminate. }
    assert (Hsd' : Gt.is_prefix (mp s) (mp d) = false) by (rewrite is_prefix_mp; exact Hsd).
    apply sim_intro.
    - intros x. rewrite (GG.lookup_move_tree _ (mp s) (mp d) (mp x) Hfree Hsd').
      rewrite !is_prefix_mp, mp_skipn, <- mp_app, !GtP.lookup_del, !path_eqb_mp, !(sim_lookup t T _ Hs).
      rewrite MiP.lookup_set, MiP.lookup_unset.
      destruct (Mi.is_prefix d x) eqn:Edx.
      + apply MiP.is_prefix_spec in Edx as [r ->]. rewrite skipn_app_exact.
        replace (Mi.path_eqb d (s ++ r)) with false
          by (symmetry; apply MiP.path_eqb_neq; intros ->; rewrite MiP.is_prefix_app in Hsd; discriminate).
        destruct r as [|y r].
        * rewrite !app_nil_r, MiP.path_eqb_refl, Hls. reflexivity.
        * rewrite (Hbs (y :: r)) by discriminate.
          replace (Mi.path_eqb d (d ++ y :: r)) with false.
          2:{ symmetry. apply MiP.path_eqb_neq. intros E. rewrite <- (app_nil_r d) in E at 1. apply app_inv_head in E. discriminate. }
          replace (Mi.path_eqb s (d ++ y :: r)) with false
            by (symmetry; apply MiP.path_eqb_neq; intros ->; rewrite MiP.is_prefix_app in Hds; discriminate).
          rewrite (Hbd (y :: r)) by discriminate. reflexivity.
      + replace (Mi.path_eqb d x) with false
          by (symmetry; apply MiP.path_eqb_neq; intros ->; rewrite MiP.is_prefix_refl in Edx; discriminate).
        destruct (Mi.is_prefix s x) eqn:Esx.
        * apply MiP.is_prefix_spec in Esx as [r ->]. destruct r as [|y r].
          -- rewrite app_nil_r, MiP.path_eqb_refl. reflexivity.
          -- replace (Mi.path_eqb s (s ++ y :: r)) with false.
             2:{ symmetry. apply MiP.path_eqb_neq. intros E. rewrite <- (app_nil_r s) in E at 1. apply app_inv_head in E. discriminate. }
             rewrite (Hbs (y :: r)) by discriminate. reflexivity.
        * replace (Mi.path_eqb s x) with false
            by (symmetry; apply MiP.path_eqb_neq; intros ->; rewrite MiP.is_prefix_refl in Esx; discriminate).
          reflexivity.
    - intros q. rewrite (GG.lookup_move_tree _ (mp s) (mp d) q Hfree Hsd').
      destruct (Gt.is_prefix (mp d) q) eqn:E.
      + intros H. apply GtP.is_prefix_spec in E as [R ->]. rewrite skipn_app_exact in H.
        rewrite GtP.lookup_del in H. destruct (Gt.path_eqb (mp d) (mp s ++ R)); [congruence|].
        destruct (sim_key t T _ Hs H) as [y Hy]. symmetry in Hy. apply mp_split in Hy as [pa [pb [_ [_ ->]]]].
        exists (d ++ pb). rewrite mp_app. reflexivity.
      + destruct (Gt.is_prefix (mp s) q); [congruence|]. rewrite GtP.lookup_del.
        destruct (Gt.path_eqb (mp d) q); [congruence | apply (sim_key t T q Hs)].
  Qed.

  Lemma wf_move_file : forall t s d n, mini_wf t -> s <> [] -> d <> [] -> MiP.dirs_above t d ->
    Mi.lookup t s = Some n -> n <> Mi.Dir -> Mi.lookup t d <> Some Mi.Dir ->
    Mi.is_prefix s d = false -> mini_wf (Mi.set (Mi.unset t s) d n).
  Proof.
    intros t s d n W Hsn Hdn Dd Hls Hnd Hld Hsd.
    apply wf_set.
    - apply wf_unset; [exact W|]. intros r Hr. apply (wf_below_nondir t s r W Hsn Hr). congruence.
    - exact Hdn.
    - intros q r E Hq Hr. rewrite MiP.lookup_unset. destruct (Mi.path_eqb s q) eqn:E1.
      + apply MiP.path_eqb_eq in E1. subst q d. rewrite MiP.is_prefix_app in Hsd. discriminate.
      + apply (Dd q r E Hq Hr).
    - intros r Hr. rewrite MiP.lookup_unset. destruct (Mi.path_eqb s (d ++ r)); [reflexivity|].
      apply (wf_below_nondir t d r W Hdn Hr Hld).
  Qed.

  (* ------------------------------------------------------------------ rename *)

  Notation Rw := (fun t' T' => sim t' T' /\ mini_wf t').

  (** what [Mi.rename] does once the new name is known not to be a directory *)
  Definition rename_rest (t : Mi.fs) (src dst : Mi.path) : Mi.res Mi.fs :=
    Mi.bind (Mi.lstat t src) (fun n =>
    Mi.bind (Mi.parent_ok t dst) (fun _ =>
      match n with
      | Mi.Dir =>
          if Mi.is_prefix src dst then Mi.Err Mi.EINVAL
          else match Mi.lookup t dst with
               | Some _ => Mi.Err Mi.ENOTDIR
               | None => Mi.Ok (Mi.move_subtree t src dst)
               end
      | _ => if Mi.path_eqb src dst then Mi.Ok t else Mi.Ok (Mi.set (Mi.unset t src) dst n)
      end)).

  Lemma rename_default : forall t s d, Mi.lstat t d <> Mi.Ok Mi.Dir -> Mi.lstat t d <> Mi.Unmodelled ->
    Mi.rename t s d = rename_rest t s d.
  Proof.
    intros t s d H1 H2. unfold Mi.rename, rename_rest. destruct (Mi.lstat t d) as [[c| |l]|e|]; try reflexivity; congruence.
  Qed.

  Lemma gen_rename_default : forall T S D, Go.lstat T D <> Go.Ok Gt.Dir -> Go.rename T S D = Go.rename2 T S D.
  Proof.
    intros T S D H. unfold Go.rename. destruct (Go.lstat T D) as [[c| |l]|e]; try reflexivity; congruence.
  Qed.

  Lemma proper_prefix_dir : forall t a r, MiP.dirs_above t (a ++ r) -> a <> [] -> r <> [] -> Mi.lookup t a = Some Mi.Dir.
  Proof. intros t a r D Ha Hr. apply (D a r eq_refl Ha Hr). Qed.

  (** the new name resolves (all above it are directories) and is not a directory *)
  Lemma rename_rest_ok_case : forall t T s d, mini_wf t -> sim t T -> s <> [] -> d <> [] ->
    Mi.parent_ok t d = Mi.Ok tt -> MiP.dirs_above t d -> GoP.lit T (mp d) -> Mi.lookup t d <> Some Mi.Dir ->
    rename_rest t s d <> Mi.Unmodelled ->
    mini_agree Rw (rename_rest t s d) (Go.rename2 T (mp s) (mp d)).
  Proof.
    intros t T s d W Hs Hsn Hdn Ed Dd Ld Hld Hu. unfold rename_rest, Mi.lstat in *. rewrite Ed in *.
    destruct (parent_cases t T s Hs) as [Es Ds Ls | es Es Rs | Es]; rewrite Es in *; cbn [Mi.bind] in *.
    - rewrite (GG.rename2_lit T (mp s) (mp d) Ls Ld (mp_nonempty s Hsn) (mp_nonempty d Hdn)).
      rewrite path_eqb_mp, !is_prefix_mp, !(sim_lookup t T _ Hs).
      destruct (Mi.lookup t s) as [n|] eqn:Els; cbn [option_map Mi.bind]; [|apply (MA_err _ Mi.ENOENT)].
      assert (Hds : s <> d -> Mi.is_prefix d s = false).
      { intros Hne. destruct (Mi.is_prefix d s) eqn:E; [|reflexivity]. exfalso. apply MiP.is_prefix_spec in E as [r ->].
        apply Hld. apply (proper_prefix_dir t d r Ds Hdn). intros ->. apply Hne. rewrite app_nil_r. reflexivity. }
      destruct n as [c| |l]; cbn [mini_node].
      + (* a file *)
        destruct (Mi.path_eqb s d) eqn:Eq; [apply MA_ok; split; assumption|]. apply MiP.path_eqb_neq in Eq.
        assert (Hsd : Mi.is_prefix s d = false).
        { destruct (Mi.is_prefix s d) eqn:E; [|reflexivity]. exfalso. apply MiP.is_prefix_spec in E as [r ->].
          assert (X : Mi.lookup t s = Some Mi.Dir); [|congruence]. apply (proper_prefix_dir t s r Dd Hsn).
          intros ->. apply Eq. rewrite app_nil_r. reflexivity. }
        rewrite Hsd, (Hds Eq).
        assert (X : mini_agree Rw (Mi.Ok (Mi.set (Mi.unset t s) d (Mi.File c)))
                      (Go.Ok (Gt.move_tree (Gt.del T (mp d)) (mp s) (mp d)))).
        { apply MA_ok. split.
          - apply (sim_move_file t T s d (Mi.File c) W Hs Hsn Hdn Els); [discriminate | exact Hld | exact Hsd | exact (Hds Eq)].
          - apply (wf_move_file t s d (Mi.File c) W Hsn Hdn Dd Els); [discriminate | exact Hld | exact Hsd]. }
        destruct (Mi.lookup t d) as [[c'| |l']|]; cbn [option_map mini_node]; try exact X. congruence.
      + (* a directory *)
        assert (Eq : s <> d) by (intros ->; congruence).
        replace (Mi.path_eqb s d) with false by (symmetry; apply MiP.path_eqb_neq; exact Eq).
        destruct (Mi.is_prefix s d) eqn:Hsd; [apply (MA_err _ Mi.EINVAL)|]. rewrite (Hds Eq).
        destruct (Mi.lookup t d) as [[c'| |l']|] eqn:Eld; cbn [option_map mini_node].
        * apply (MA_err _ Mi.ENOTDIR).
        * congruence.
        * apply (MA_err _ Mi.ENOTDIR).
        * apply MA_ok. split.
          -- apply (sim_move_dir t T s d W Hs Hdn Eld Hsd).
          -- apply (wf_move_dir t s d W Hsn Hdn Dd Eld Hsd).
      + (* a link *)
        destruct (Mi.path_eqb s d) eqn:Eq; [apply MA_ok; split; assumption|]. apply MiP.path_eqb_neq in Eq.
        assert (Hsd : Mi.is_prefix s d = false).
        { destruct (Mi.is_prefix s d) eqn:E; [|reflexivity]. exfalso. apply MiP.is_prefix_spec in E as [r ->].
          assert (X : Mi.lookup t s = Some Mi.Dir); [|congruence]. apply (proper_prefix_dir t s r Dd Hsn).
          intros ->. apply Eq. rewrite app_nil_r. reflexivity. }
        rewrite Hsd, (Hds Eq).
        assert (X : mini_agree Rw (Mi.Ok (Mi.set (Mi.unset t s) d (Mi.Link l)))
                      (Go.Ok (Gt.move_tree (Gt.del T (mp d)) (mp s) (mp d)))).
        { apply MA_ok. split.
          - apply (sim_move_file t T s d (Mi.Link l) W Hs Hsn Hdn Els); [discriminate | exact Hld | exact Hsd | exact (Hds Eq)].
          - apply (wf_move_file t s d (Mi.Link l) W Hsn Hdn Dd Els); [discriminate | exact Hld | exact Hsd]. }
        destruct (Mi.lookup t d) as [[c'| |l']|]; cbn [option_map mini_node]; try exact X. congruence.
    - unfold Go.rename2. rewrite (Rs false). apply MA_err.
    - congruence.
  Qed.

  (** the new name does not resolve: a missing or non-directory component above it *)
  Lemma rename_rest_err_case : forall t T s d ed, sim t T -> s <> [] ->
    Mi.parent_ok t d = Mi.Err ed -> (forall fl, Go.resolve T fl (mp d) = Go.Err (mini_errno ed)) ->
    mini_rename_precedence_ok t s d = true ->
    rename_rest t s d <> Mi.Unmodelled ->
    mini_agree Rw (rename_rest t s d) (Go.rename2 T (mp s) (mp d)).
  Proof.
    intros t T s d ed Hs Hsn Ed Rd Hp Hu. unfold rename_rest, Mi.lstat, mini_rename_precedence_ok in *. rewrite Ed in *.
    destruct (parent_cases t T s Hs) as [Es Ds Ls | es Es Rs | Es]; rewrite Es in *; cbn [Mi.bind] in *.
    - unfold Go.rename2. rewrite (GoP.resolve_lit T false (mp s) Ls) by discriminate. rewrite (Rd false).
      destruct (Mi.lookup t s) as [n|]; cbn [Mi.bind].
      + apply MA_err.
      + destruct ed; try discriminate. apply (MA_err _ Mi.ENOENT).
    - unfold Go.rename2. rewrite (Rs false). apply MA_err.
    - congruence.
  Qed.

  Theorem fsmini_rename_refines_lemma : forall t T s d, mini_wf t -> sim t T -> s <> [] -> d <> [] ->
    mini_rename_precedence_ok t s d = true -> Mi.rename t s d <> Mi.Unmodelled ->
    mini_agree Rw (Mi.rename t s d) (Go.rename T (mp s) (mp d)).
  Proof.
    intros t T s d W Hs Hsn Hdn Hp Hu.
    destruct (parent_cases t T d Hs) as [Ed Dd Ld | ed Ed Rd | Ed].
    - pose proof (MiP.lstat_ok t d Dd) as Eld. pose proof (GoP.lstat_lit T (mp d) Ld) as EgD.
      rewrite (sim_node_at t T d Hs Hdn) in EgD.
      destruct (Mi.lookup t d) as [[c| |l]|] eqn:El; cbn [option_map mini_node] in EgD.
      + rewrite (rename_default t s d) in * by (rewrite Eld; discriminate).
        rewrite (gen_rename_default T (mp s) (mp d)) by (rewrite EgD; discriminate).
        apply (rename_rest_ok_case t T s d W Hs Hsn Hdn Ed Dd Ld); [congruence | exact Hu].
      + (* the new name is a directory: refused up front *)
        unfold Mi.rename in *. rewrite Eld in *. unfold Go.rename. rewrite EgD. unfold Mi.lstat in *.
        destruct (parent_cases t T s Hs) as [Es Ds Ls | es Es Rs | Es]; rewrite Es in *; cbn [Mi.bind] in *.
        * rewrite (GoP.lstat_lit T (mp s) Ls), (sim_node_at t T s Hs Hsn).
          destruct (Mi.lookup t s) as [n|]; cbn [option_map Mi.bind]; [|apply (MA_err _ Mi.ENOENT)].
          rewrite (GoP.resolve_lit T false (mp s) Ls) by discriminate.
          rewrite (GoP.resolve_lit T false (mp d) Ld) by discriminate.
          rewrite andb_negb_r. apply (MA_err _ Mi.EEXIST).
        * rewrite (GG.lstat_err T (mp s) _ (Rs false)). apply MA_err.
        * congruence.
      + rewrite (rename_default t s d) in * by (rewrite Eld; discriminate).
        rewrite (gen_rename_default T (mp s) (mp d)) by (rewrite EgD; discriminate).
        apply (rename_rest_ok_case t T s d W Hs Hsn Hdn Ed Dd Ld); [congruence | exact Hu].
      + rewrite (rename_default t s d) in * by (rewrite Eld; discriminate).
        rewrite (gen_rename_default T (mp s) (mp d)) by (rewrite EgD; discriminate).
        apply (rename_rest_ok_case t T s d W Hs Hsn Hdn Ed Dd Ld); [congruence | exact Hu].
    - assert (Eld : Mi.lstat t d = Mi.Err ed) by (unfold Mi.lstat; rewrite Ed; reflexivity).
      rewrite (rename_default t s d) in * by (rewrite Eld; discriminate).
      rewrite (gen_rename_default T (mp s) (mp d)) by (rewrite (GG.lstat_err T (mp d) _ (Rd false)); discriminate).
      apply (rename_rest_err_case t T s d ed Hs Hsn Ed Rd Hp Hu).
    - exfalso. apply Hu. unfold Mi.rename, Mi.lstat. rewrite Ed. reflexivity.
  Qed.


  (** on the excluded inputs both models fail and change nothing: only the errno differs *)
  Theorem fsmini_rename_excluded_lemma : forall t T s d, sim t T -> s <> [] ->
    mini_rename_precedence_ok t s d = false ->
    Mi.rename t s d = Mi.Err Mi.ENOENT /\
    exists e, Mi.parent_ok t d = Mi.Err e /\ e <> Mi.ENOENT /\ Go.rename T (mp s) (mp d) = Go.Err (mini_errno e).
  Proof.
    intros t T s d Hs Hsn Hp. unfold mini_rename_precedence_ok in Hp.
    destruct (parent_cases t T s Hs) as [Es Ds Ls | es Es Rs | Es]; rewrite Es in Hp; try discriminate.
    destruct (Mi.lookup t s) as [n|] eqn:Els; [discriminate|].
    destruct (parent_cases t T d Hs) as [Ed Dd Ld | ed Ed Rd | Ed]; rewrite Ed in Hp; try discriminate.
    assert (Hne : ed <> Mi.ENOENT) by (intros ->; discriminate).
    assert (Eld : Mi.lstat t d = Mi.Err ed) by (unfold Mi.lstat; rewrite Ed; reflexivity).
    split.
    - rewrite (rename_default t s d) by (rewrite Eld; discriminate).
      unfold rename_rest, Mi.lstat. rewrite Es. cbn [Mi.bind]. rewrite Els. reflexivity.
    - exists ed. split; [exact Ed|]. split; [exact Hne|].
      rewrite (gen_rename_default T (mp s) (mp d)) by (rewrite (GG.lstat_err T (mp d) _ (Rd false)); discriminate).
      unfold Go.rename2. rewrite (GoP.resolve_lit T false (mp s) Ls) by discriminate. rewrite (Rd false). reflexivity.
  Qed.

  (* ------------------------------------------------------------------ sequences *)

  Lemma agree_add_wf : forall r g, mini_agree sim r g -> (forall t', r = Mi.Ok t' -> mini_wf t') -> mini_agree Rw r g.
  Proof.
    intros r g H W. destruct H as [a b Hab | e]; [|apply MA_err]. apply MA_ok. split; [exact Hab | apply W; reflexivity].
  Qed.

  Lemma agree_drop_wf : forall r g, mini_agree Rw r g -> mini_agree sim r g.
  Proof. intros r g H. destruct H as [a b [Hab _] | e]; [apply MA_ok; exact Hab | apply MA_err]. Qed.

  Lemma lift_step : forall t T r g x t', mini_agree Rw r g -> sim t T -> mini_wf t -> mini_lift t r = Some (x, t') ->
    exists T', gen_lift T g = (x, T') /\ sim t' T' /\ mini_wf t'.
  Proof.
    intros t T r g x t' H Hs W E. destruct H as [a b [Hab Hw] | e]; cbn [mini_lift gen_lift] in *.
    - injection E as <- <-. exists b. split; [reflexivity | split; assumption].
    - injection E as <- <-. exists T. split; [first [reflexivity | assumption] | split; assumption].
  Qed.

  Lemma lift_obs_step : forall {A B} (f : A -> call_obs) (f' : B -> call_obs) (conv : A -> B) t T r g x t',
    (forall a, f a = f' (conv a)) -> mini_agree (fun a b => b = conv a) r g ->
    mini_lift_obs t f r = Some (x, t') -> gen_lift_obs T f' g = (x, T) /\ t' = t.
  Proof.
    intros A B f f' conv t T r g x t' Hf H E. destruct H as [a b -> | e]; cbn [mini_lift_obs gen_lift_obs] in *.
    - injection E as <- <-. rewrite Hf. split; reflexivity.
    - injection E as <- <-. split; reflexivity.
  Qed.

  Lemma is_nil_false : forall {A} (p : list A), negb (is_nil p) = true -> p <> [].
  Proof. intros A [|a p] H; [discriminate H | discriminate]. Qed.

  Lemma lift_some : forall t r x t', mini_lift t r = Some (x, t') -> r <> Mi.Unmodelled.
  Proof. intros t r x t' H ->. discriminate. Qed.

  Lemma lift_obs_some : forall {A} t (f : A -> call_obs) r x t', mini_lift_obs t f r = Some (x, t') -> r <> Mi.Unmodelled.
  Proof. intros A t f r x t' H ->. discriminate. Qed.

  Lemma mini_step_refines : forall t T o x t', mini_wf t -> sim t T -> mini_op_ok t o = true ->
    mini_step ldest t o = Some (x, t') ->
    exists T', gen_step enc ldest T o = (x, T') /\ sim t' T' /\ mini_wf t'.
  Proof.
    intros t T o x t' W Hs Hok E. destruct o as [p|p|p|p|p|d p|s d|p|p c|p]; cbn [mini_step gen_step mini_op_ok] in *.
    - apply is_nil_false in Hok.
      destruct (lift_obs_step (fun n => ObsNode (mn n)) ObsNode mn t T _ _ x t' (fun _ => eq_refl)
                  (fsmini_lstat_refines_lemma t T p Hs Hok (lift_obs_some _ _ _ _ _ E)) E) as [H1 ->].
      exists T. split; [first [reflexivity | assumption] | split; assumption].
    - apply is_nil_false in Hok.
      destruct (lift_obs_step (fun d => ObsDest (ldest d)) ObsDest ldest t T _ _ x t' (fun _ => eq_refl)
                  (fsmini_readlink_refines_lemma t T p Hs Hok (lift_obs_some _ _ _ _ _ E)) E) as [H1 ->].
      exists T. split; [first [reflexivity | assumption] | split; assumption].
    - apply is_nil_false in Hok. eapply (fun H => lift_step t T _ _ x t' H Hs W E).
      apply agree_add_wf; [apply (fsmini_remove_refines_lemma t T p Hs Hok (lift_some _ _ _ _ E))|].
      intros t0 H0. apply (mini_wf_remove t p t0 W Hok H0).
    - apply is_nil_false in Hok. eapply (fun H => lift_step t T _ _ x t' H Hs W E).
      apply agree_add_wf; [apply (fsmini_remove_all_refines_lemma t T p W Hs Hok (lift_some _ _ _ _ E))|].
      intros t0 H0. apply (mini_wf_remove_all t p t0 W H0).
    - eapply (fun H => lift_step t T _ _ x t' H Hs W E).
      apply (fsmini_mkdir_all_refines_lemma t T p W Hs (lift_some _ _ _ _ E)).
    - apply is_nil_false in Hok. eapply (fun H => lift_step t T _ _ x t' H Hs W E).
      apply agree_add_wf; [apply (fsmini_symlink_refines_lemma t T d p Hs Hok (lift_some _ _ _ _ E))|].
      intros t0 H0. apply (mini_wf_symlink t d p t0 W Hok H0).
    - apply andb_true_iff in Hok as [Hok Hp]. apply andb_true_iff in Hok as [Hs0 Hd0].
      apply is_nil_false in Hs0. apply is_nil_false in Hd0. eapply (fun H => lift_step t T _ _ x t' H Hs W E).
      apply (fsmini_rename_refines_lemma t T s d W Hs Hs0 Hd0 Hp (lift_some _ _ _ _ E)).
    - apply is_nil_false in Hok.
      destruct (lift_obs_step ObsData ObsData (fun c => c) t T _ _ x t' (fun _ => eq_refl)
                  (fsmini_read_file_refines_lemma t T p Hs Hok (lift_obs_some _ _ _ _ _ E)) E) as [H1 ->].
      exists T. split; [first [reflexivity | assumption] | split; assumption].
    - apply is_nil_false in Hok. eapply (fun H => lift_step t T _ _ x t' H Hs W E).
      apply agree_add_wf; [apply (fsmini_write_refines_lemma t T p c Hs Hok (lift_some _ _ _ _ E))|].
      intros t0 H0. apply (mini_wf_create t p c t0 W Hok H0).
    - apply is_nil_false in Hok.
      destruct (lift_obs_step ObsData ObsData (fun c => c) t T _ _ x t' (fun _ => eq_refl)
                  (fsmini_open_existing_refines_lemma t T p Hs Hok (lift_obs_some _ _ _ _ _ E)) E) as [H1 ->].
      exists T. split; [first [reflexivity | assumption] | split; assumption].
  Qed.

  Lemma mini_step_tree_indep : forall l1 l2 t o,
    option_map snd (mini_step l1 t o) = option_map snd (mini_step l2 t o).
  Proof.
    intros l1 l2 t o. destruct o; cbn [mini_step];
      match goal with |- context [mini_lift _ ?r] => destruct r; reflexivity
                    | |- context [mini_lift_obs _ _ ?r] => destruct r; reflexivity end.
  Qed.

  Theorem fsmini_refines_fs_lemma : forall ops t T outs t', mini_wf t -> sim t T -> mini_ops_ok t ops = true ->
    mini_run ldest t ops = Some (outs, t') ->
    exists T', gen_run enc ldest T ops = (outs, T') /\ sim t' T' /\ mini_wf t'.
  Proof.
    induction ops as [|o ops IH]; intros t T outs t' W Hs Hok E.
    - cbn in E. injection E as <- <-. exists T. split; [first [reflexivity | assumption] | split; assumption].
    - cbn [mini_run gen_run mini_ops_ok] in *. apply andb_true_iff in Hok as [Hok1 Hok2].
      destruct (mini_step ldest t o) as [[x t1]|] eqn:E1; [|discriminate].
      destruct (mini_run ldest t1 ops) as [[xs t2]|] eqn:E2; [|discriminate]. injection E as <- <-.
      pose proof (mini_step_tree_indep (fun _ => []) ldest t o) as Hi. rewrite E1 in Hi.
      destruct (mini_step (fun _ => []) t o) as [[x0 t0]|]; [|discriminate]. cbn in Hi. injection Hi as ->.
      destruct (mini_step_refines t T o x t1 W Hs Hok1 E1) as [T1 [G1 [Hs1 W1]]].
      destruct (IH t1 T1 xs t2 W1 Hs1 Hok2 E2) as [T2 [G2 [Hs2 W2]]].
      exists T2. rewrite G1, G2. split; [reflexivity | split; assumption].
  Qed.

End Mini.

(* ------------------------------------------------------------------ an injective numbering exists *)

Lemma dbl_odd_inj : forall n m a b, dbl n (2 * a + 1) = dbl m (2 * b + 1) -> n = m /\ a = b.
Proof.
  induction n as [|n IH]; destruct m as [|m]; cbn [dbl]; intros a b H.
  - split; [reflexivity | lia].
  - exfalso. lia.
  - exfalso. lia.
  - assert (H' : dbl n (2 * a + 1) = dbl m (2 * b + 1)) by lia. destruct (IH m a b H') as [-> ->]. split; reflexivity.
Qed.

Lemma enc_std_inj : forall a b, enc_std a = enc_std b -> a = b.
Proof.
  induction a as [x | c IH k]; destruct b as [y | d l]; cbn [enc_std]; intros H.
  - f_equal. lia.
  - exfalso. lia.
  - exfalso. lia.
  - assert (H' : dbl (N.to_nat (enc_std c)) (2 * k + 1) = dbl (N.to_nat (enc_std d)) (2 * l + 1)) by lia.
    apply dbl_odd_inj in H' as [H1 H2]. apply N2Nat.inj in H1. apply IH in H1. subst. reflexivity.
Qed.

(** the summary at the abstraction of the initial state itself *)
Corollary fsmini_refines_fs_image : forall (enc : Mi.comp -> N) (ldest : N -> list Gt.comp),
  (forall a b, enc a = enc b -> a = b) ->
  forall (t : Mi.fs) (ops : list mini_op) (outs : list call_outcome) (t' : Mi.fs),
    mini_wf t -> mini_ops_ok t ops = true -> mini_run ldest t ops = Some (outs, t') ->
    exists T', gen_run enc ldest (mini_tree enc ldest t) ops = (outs, T') /\
               tree_equiv (mini_tree enc ldest t') T' /\ mini_wf t'.
Proof.
  intros enc ldest Hinj t ops outs t' W Hok E.
  apply (fsmini_refines_fs_lemma enc ldest Hinj ops t (mini_tree enc ldest t) outs t' W (sim_refl enc ldest t) Hok E).
Qed.
