(** The file-system model inside [Arch/Zip.v] refines [FS/{Tree,Ops}.v]: its primitives and
    the three helpers of archiver/archiver.go (Mkdir, Symlink, CopyFile), on well-formed states
    and non-empty paths with no link strictly above them, succeed / fail exactly when the
    general model does and leave the same tree. *)
From Coq Require Import Arith NArith Lia Bool Setoid Morphisms.
From Wharf Require Import FS.Light.
From Wharf Require FS.Tree FS.TreeProofs FS.Ops FS.OpsProofs Arch.Zip Arch.ZipFsLemmas.
From Wharf Require Import Compose.FSAgree.
From Wharf Require Compose.FSAgreeGenProofs.

Module GtP := Wharf.FS.TreeProofs.
Module GoP := Wharf.FS.OpsProofs.
Module ZiP := Wharf.Arch.ZipFsLemmas.
Module GG := Wharf.Compose.FSAgreeGenProofs.

(* ------------------------------------------------------------------ the two copies of the path functions *)

Lemma zpath_eqb : forall p q, Zi.path_eqb p q = Gt.path_eqb p q.
Proof.
  intros p q. destruct (Gt.path_eqb p q) eqn:E.
  - apply GtP.path_eqb_eq in E. subst. apply ZiP.path_eqb_refl.
  - apply ZiP.path_eqb_neq. apply GtP.path_eqb_neq in E. exact E.
Qed.

Lemma zis_prefix : forall p q, Zi.is_prefix p q = Gt.is_prefix p q.
Proof.
  induction p as [|a p IH]; destruct q as [|b q]; cbn [Zi.is_prefix Gt.is_prefix]; try reflexivity.
Qed.

Lemma zpath_eqb_nil : forall q : Zi.path, Zi.path_eqb q [] = is_nil q.
Proof. intros [|a q]; reflexivity. Qed.

Lemma zis_prefix_spec : forall p q, Zi.is_prefix p q = true <-> exists r, q = p ++ r.
Proof. intros p q. apply ZiP.is_prefix_spec. Qed.

Lemma zis_prefix_app : forall p r, Zi.is_prefix p (p ++ r) = true.
Proof. intros p r. apply zis_prefix_spec. exists r. reflexivity. Qed.

Lemma app_not_self : forall {A} (p r : list A), r <> [] -> p <> p ++ r.
Proof. intros A p r Hr E. rewrite <- (app_nil_r p) in E at 1. apply app_inv_head in E. congruence. Qed.

Lemma forallb_false_exists : forall {A} (f : A -> bool) l, forallb f l = false -> exists x, In x l /\ f x = false.
Proof.
  intros A f. induction l as [|a l IH]; cbn [forallb]; intros H; [discriminate|].
  destruct (f a) eqn:E; cbn [andb] in H.
  - destruct (IH H) as [x [Hx Hf]]. exists x. split; [right; exact Hx | exact Hf].
  - exists a. split; [left; reflexivity | exact E].
Qed.

Lemma existsb_false_forall : forall {A} (f : A -> bool) l, existsb f l = false -> forall x, In x l -> f x = false.
Proof.
  intros A f l H x Hx. destruct (f x) eqn:E; [|reflexivity].
  assert (X : existsb f l = true) by (apply existsb_exists; exists x; tauto). congruence.
Qed.

(* ------------------------------------------------------------------ the abstraction and [lookup] *)

Lemma lookup_zt : forall f q, Gt.lookup (zip_tree f) q = option_map zip_node (Zi.lookup f q).
Proof.
  induction f as [|[k n] f IH]; intros q; cbn [zip_tree map Gt.lookup Zi.lookup fst snd]; [reflexivity|].
  rewrite <- zpath_eqb. destruct (Zi.path_eqb k q); [reflexivity | apply IH].
Qed.

Lemma zsim_lookup : forall f T q, zip_sim f T -> Gt.lookup T q = option_map zip_node (Zi.lookup f q).
Proof. intros f T q H. rewrite <- H. apply lookup_zt. Qed.

Lemma zsim_intro : forall f T, (forall q, Gt.lookup T q = option_map zip_node (Zi.lookup f q)) -> zip_sim f T.
Proof. intros f T H q. rewrite lookup_zt, H. reflexivity. Qed.

Lemma zsim_refl : forall f, zip_sim f (zip_tree f).
Proof. intros f q. reflexivity. Qed.

Lemma zsim_equiv_l : forall f f' T, zip_sim f T -> (forall q, Zi.lookup f' q = Zi.lookup f q) -> zip_sim f' T.
Proof. intros f f' T H E. apply zsim_intro. intros q. rewrite E. apply zsim_lookup. exact H. Qed.

Lemma zsim_dir : forall f T q, zip_sim f T -> (Gt.lookup T q = Some Gt.Dir <-> Zi.lookup f q = Some Zi.Dir).
Proof.
  intros f T q H. rewrite (zsim_lookup f T q H). destruct (Zi.lookup f q) as [[]|]; cbn; split; intros E; congruence.
Qed.

Lemma zsim_none : forall f T q, zip_sim f T -> (Gt.lookup T q = None <-> Zi.lookup f q = None).
Proof.
  intros f T q H. rewrite (zsim_lookup f T q H). destruct (Zi.lookup f q) as [[]|]; cbn; split; intros E; congruence.
Qed.

Lemma zsim_node_at : forall f T p, zip_sim f T -> p <> [] -> Gt.node_at T p = option_map zip_node (Zi.lookup f p).
Proof. intros f T p H Hp. rewrite (GtP.node_at_nonempty T p Hp). apply zsim_lookup. exact H. Qed.

(* ------------------------------------------------------------------ well-formedness, literal resolution *)

Lemma zwf_below_nondir : forall f p r, zip_wf f -> p <> [] -> r <> [] -> Zi.lookup f p <> Some Zi.Dir ->
  Zi.lookup f (p ++ r) = None.
Proof.
  intros f p r [_ W] Hp Hr Hn. destruct (Zi.lookup f (p ++ r)) eqn:E; [|reflexivity].
  exfalso. apply Hn. apply (W (p ++ r) p r); [congruence | reflexivity | exact Hp | exact Hr].
Qed.

Lemma lit_of_dirs : forall f T p, zip_sim f T ->
  (forall a r, p = a ++ r -> a <> [] -> r <> [] -> Zi.lookup f a = Some Zi.Dir) -> GoP.lit T p.
Proof.
  intros f T p Hs D. apply GG.lit_iff. intros a Ha. apply GG.inits_spec in Ha as [Ha [r Hr]].
  apply (zsim_dir f T a Hs). destruct (GG.snoc_cases p) as [-> | [q [x ->]]].
  - cbn in Hr. destruct a; [congruence | discriminate].
  - rewrite GG.removelast_snoc in Hr. subst q. apply (D a (r ++ [x])); [rewrite app_assoc; reflexivity | exact Ha | destruct r; discriminate].
Qed.

Lemma dirs_of_lit : forall f T p, zip_sim f T -> GoP.lit T p ->
  forall a r, p = a ++ r -> a <> [] -> r <> [] -> Zi.lookup f a = Some Zi.Dir.
Proof.
  intros f T p Hs L a r E Ha Hr. apply (zsim_dir f T a Hs). apply (proj1 (GG.lit_iff T p) L).
  apply GG.inits_spec. split; [exact Ha|]. subst p. destruct (GG.snoc_cases r) as [-> | [r' [x ->]]]; [congruence|].
  exists r'. rewrite app_assoc, GG.removelast_snoc. reflexivity.
Qed.

Lemma zwf_lit : forall f T p, zip_wf f -> zip_sim f T -> Zi.lookup f p <> None -> GoP.lit T p.
Proof. intros f T p [_ W] Hs Hp. apply (lit_of_dirs f T p Hs). intros a r E Ha Hr. apply (W p a r Hp E Ha Hr). Qed.

Lemma zsim_gen_wf : forall f T, zip_wf f -> zip_sim f T -> GG.gen_wf T.
Proof.
  intros f T W Hs. split.
  - apply (zsim_none f T [] Hs). exact (proj1 W).
  - intros p Hp. apply (zwf_lit f T p W Hs). intros E. apply Hp. apply (zsim_none f T p Hs). exact E.
Qed.

Lemma parent_ok_lit : forall f T p, zip_wf f -> zip_sim f T -> Zi.parent_ok p f = true -> GoP.lit T p.
Proof.
  intros f T p W Hs H. apply ZiP.parent_ok_spec in H. apply (lit_of_dirs f T p Hs). intros a r E Ha Hr.
  destruct (GG.snoc_cases r) as [-> | [r' [x ->]]]; [congruence|]. subst p. rewrite app_assoc in H.
  unfold Zi.parent in H. rewrite GG.removelast_snoc in H. destruct H as [H | H].
  - apply app_eq_nil in H as [H _]. contradiction.
  - destruct r' as [|y r']; [rewrite app_nil_r in H; exact H|].
    apply ((proj2 W) (a ++ y :: r') a (y :: r')); [congruence | reflexivity | exact Ha | discriminate].
Qed.

Lemma lit_parent_ok : forall f T p, zip_sim f T -> GoP.lit T p -> Zi.parent_ok p f = true.
Proof.
  intros f T p Hs L. apply ZiP.parent_ok_spec. unfold Zi.parent. destruct (GG.snoc_cases p) as [-> | [q [x ->]]]; [left; reflexivity|].
  rewrite GG.removelast_snoc. destruct q as [|y q]; [left; reflexivity|]. right.
  apply (dirs_of_lit f T _ Hs L (y :: q) [x]); [reflexivity | discriminate | discriminate].
Qed.

Lemma znolink_T : forall f T p, zip_sim f T -> zip_link_above f p = false ->
  forall a, In a (inits (removelast p)) -> forall d, Gt.lookup T a <> Some (Gt.Link d).
Proof.
  intros f T p Hs H a Ha d. unfold zip_link_above in H. pose proof (existsb_false_forall _ _ H a Ha) as X.
  unfold zip_is_link in X. rewrite (zsim_lookup f T a Hs). destruct (Zi.lookup f a) as [[]|]; cbn; congruence.
Qed.

(** where resolution of [p] ends in a state without links above [p] *)
Inductive zresolve_view (f : Zi.fs) (T : Gt.tree) (fl : bool) (p : Zi.path) : Prop :=
| ZR_lit : GoP.lit T p -> Go.resolve T fl p = Go.Ok p -> zresolve_view f T fl p
| ZR_noent : ~ GoP.lit T p -> Go.resolve T fl p = Go.Err Go.ENOENT ->
    (forall r, Zi.lookup f (p ++ r) = None) -> zresolve_view f T fl p
| ZR_notdir : ~ GoP.lit T p -> Go.resolve T fl p = Go.Err Go.ENOTDIR ->
    (forall r, Zi.lookup f (p ++ r) = None) -> zip_file_above f p = true -> zresolve_view f T fl p.

Lemma in_inits_removelast : forall (a : Gt.path) n r, r <> [] -> In (a ++ [n]) (inits (removelast (a ++ n :: r))).
Proof.
  intros a n r Hr. apply GG.inits_spec. split; [destruct a; discriminate|].
  destruct (GG.snoc_cases r) as [-> | [r' [y ->]]]; [congruence|]. exists r'.
  replace (a ++ n :: r' ++ [y]) with ((a ++ n :: r') ++ [y]) by (rewrite <- app_assoc; reflexivity).
  rewrite GG.removelast_snoc, <- app_assoc. reflexivity.
Qed.

Lemma zresolve_cases : forall f T fl p, zip_wf f -> zip_sim f T -> zip_link_above f p = false ->
  (fl = true -> zip_is_link f p = false) -> zresolve_view f T fl p.
Proof.
  intros f T fl p W Hs Hnl Hfl. destruct (GG.first_nondir T p) as [L | [a [n [r [-> [Hr [L Hn]]]]]]].
  - apply ZR_lit; [exact L|]. apply GoP.resolve_lit; [exact L|]. intros E d Hd. specialize (Hfl E).
    unfold zip_is_link in Hfl. destruct p as [|x p]; [discriminate Hd|]. cbn [Gt.node_at] in Hd.
    rewrite (zsim_lookup f T _ Hs) in Hd. destruct (Zi.lookup f (x :: p)) as [[]|]; cbn in Hd; congruence.
  - pose proof (in_inits_removelast a n r Hr) as Hin.
    assert (Hnl' : ~ GoP.lit T (a ++ n :: r)).
    { intros Hlit. apply Hn. apply (proj1 (GG.lit_iff T _) Hlit). exact Hin. }
    assert (Hbelow : forall r2, Zi.lookup f ((a ++ n :: r) ++ r2) = None).
    { intros r2. replace ((a ++ n :: r) ++ r2) with ((a ++ [n]) ++ (r ++ r2)) by (rewrite <- !app_assoc; reflexivity).
      apply (zwf_below_nondir f (a ++ [n]) (r ++ r2) W); [destruct a; discriminate | destruct r; [congruence | discriminate]|].
      intros E. apply Hn. apply (zsim_dir f T _ Hs). exact E. }
    pose proof (GG.resolve_stop T fl a n r L Hr) as R.
    pose proof (znolink_T f T _ Hs Hnl _ Hin) as Hl.
    pose proof (zsim_lookup f T (a ++ [n]) Hs) as El.
    destruct (Gt.lookup T (a ++ [n])) as [[c| |d]|] eqn:E.
    + apply ZR_notdir; try assumption. unfold zip_file_above. apply existsb_exists. exists (a ++ [n]). split; [exact Hin|].
      unfold zip_is_file. destruct (Zi.lookup f (a ++ [n])) as [[]|]; cbn in El; congruence.
    + congruence.
    + exfalso. apply (Hl d). reflexivity.
    + apply ZR_noent; assumption.
Qed.

(* ------------------------------------------------------------------ well-formedness is preserved *)

Lemma zwf_filter : forall f p, zip_wf f -> zip_wf (filter (fun x => negb (Zi.is_prefix p (fst x))) f).
Proof.
  intros f p [W0 W]. split.
  - rewrite ZiP.lookup_remove_all. destruct (Zi.is_prefix p []); [reflexivity | exact W0].
  - intros x q r Hx E Hq Hr. rewrite ZiP.lookup_remove_all in Hx. rewrite ZiP.lookup_remove_all.
    destruct (Zi.is_prefix p x) eqn:E1; [congruence|].
    destruct (Zi.is_prefix p q) eqn:E2.
    + apply zis_prefix_spec in E2 as [r' ->]. subst x. rewrite <- app_assoc, zis_prefix_app in E1. discriminate.
    + apply (W x q r Hx E Hq Hr).
Qed.

Lemma zwf_del : forall f p, zip_wf f -> (forall r, r <> [] -> Zi.lookup f (p ++ r) = None) -> zip_wf (Zi.del f p).
Proof.
  intros f p [W0 W] Hc. split.
  - rewrite ZiP.lookup_del. destruct (Zi.path_eqb [] p); [reflexivity | exact W0].
  - intros x q r Hx E Hq Hr. rewrite ZiP.lookup_del in Hx. rewrite ZiP.lookup_del.
    destruct (Zi.path_eqb x p) eqn:E1; [congruence|].
    destruct (Zi.path_eqb q p) eqn:E2.
    + apply ZiP.path_eqb_eq in E2. subst q x. rewrite (Hc r Hr) in Hx. congruence.
    + apply (W x q r Hx E Hq Hr).
Qed.

Lemma zwf_upd : forall f p n, zip_wf f -> p <> [] ->
  (forall a r, p = a ++ r -> a <> [] -> r <> [] -> Zi.lookup f a = Some Zi.Dir) ->
  (forall r, r <> [] -> Zi.lookup f (p ++ r) = None) -> zip_wf (Zi.upd f p n).
Proof.
  intros f p n [W0 W] Hp D Hc. split.
  - rewrite ZiP.lookup_upd. destruct (Zi.path_eqb [] p) eqn:E; [apply ZiP.path_eqb_eq in E; congruence | exact W0].
  - intros x q r Hx E Hq Hr. rewrite ZiP.lookup_upd in Hx. rewrite ZiP.lookup_upd.
    destruct (Zi.path_eqb q p) eqn:E2.
    + apply ZiP.path_eqb_eq in E2. subst q x. exfalso.
      destruct (Zi.path_eqb (p ++ r) p) eqn:E3.
      * apply ZiP.path_eqb_eq in E3. symmetry in E3. apply (app_not_self p r Hr E3).
      * rewrite (Hc r Hr) in Hx. congruence.
    + destruct (Zi.path_eqb x p) eqn:E1.
      * apply ZiP.path_eqb_eq in E1. subst x. apply (D q r E Hq Hr).
      * apply (W x q r Hx E Hq Hr).
Qed.

(* ------------------------------------------------------------------ RemoveAll *)

Notation rm_all p f := (filter (fun x => negb (Zi.is_prefix p (fst x))) f).

Lemma zsim_filter : forall f T p, zip_sim f T -> zip_sim (rm_all p f) (Gt.del_tree T p).
Proof.
  intros f T p Hs. apply zsim_intro. intros q. rewrite GtP.lookup_del_tree, ZiP.lookup_remove_all, (zsim_lookup f T q Hs). change Zi.is_prefix with Gt.is_prefix.
  destruct (Gt.is_prefix p q); reflexivity.
Qed.

Lemma filter_nothing : forall f p, (forall r, Zi.lookup f (p ++ r) = None) -> forall q, Zi.lookup (rm_all p f) q = Zi.lookup f q.
Proof.
  intros f p H q. rewrite ZiP.lookup_remove_all. destruct (Zi.is_prefix p q) eqn:E; [|reflexivity].
  apply zis_prefix_spec in E as [r ->]. symmetry. apply H.
Qed.

(** RemoveAll: the general model removes the subtree too, or finds nothing to remove (and then
    there is nothing), or - the one difference - refuses a path below a regular file *)
Lemma zip_remove_all_cases : forall f T p, zip_wf f -> zip_sim f T -> p <> [] -> zip_link_above f p = false ->
  (exists T1, Go.remove_all T p = Go.Ok T1 /\ zip_sim (rm_all p f) T1) \/
  (Go.remove_all T p = Go.Err Go.ENOTDIR /\ zip_file_above f p = true /\ zip_sim (rm_all p f) T).
Proof.
  intros f T p W Hs Hp Hnl. destruct (zresolve_cases f T false p W Hs Hnl) as [L R | L R Hb | L R Hb Hf]; [discriminate | | |].
  - left. exists (Gt.del_tree T p). split; [apply (GoP.remove_all_lit T p L Hp) | apply zsim_filter; exact Hs].
  - left. exists T. split; [apply (GG.remove_all_enoent T p R)|]. apply (zsim_equiv_l f _ T Hs). apply filter_nothing. exact Hb.
  - right. split; [apply (GG.remove_all_enotdir T p R)|]. split; [exact Hf|].
    apply (zsim_equiv_l f _ T Hs). apply filter_nothing. exact Hb.
Qed.

Theorem zip_fs_remove_all_refines_lemma : forall f T p, zip_wf f -> zip_sim f T -> p <> [] ->
  zip_link_above f p = false -> zip_file_above f p = false ->
  zip_agree (Zi.fs_remove_all p f) (Go.remove_all T p).
Proof.
  intros f T p W Hs Hp Hnl Hnf. unfold Zi.fs_remove_all.
  destruct (zip_remove_all_cases f T p W Hs Hp Hnl) as [[T1 [-> H1]] | [_ [Hf _]]]; [|congruence].
  apply ZA_ok. exact H1.
Qed.

(* ------------------------------------------------------------------ MkdirAll *)

Lemma in_prefixes_inits : forall (q p : Zi.path), In q (Zi.prefixes p) <-> In q (inits p).
Proof. intros q p. rewrite (ZiP.in_prefixes q p), (GG.inits_spec p q), (zis_prefix_spec q p). reflexivity. Qed.

Definition mkdir_spec (f f' : Zi.fs) (p : Zi.path) : Prop :=
  forall q, Zi.lookup f' q = match Zi.lookup f q with
                             | None => if negb (is_nil q) && Gt.is_prefix q p then Some Zi.Dir else None
                             | x => x
                             end.

Lemma zwf_mkdir : forall f f' p, zip_wf f -> mkdir_spec f f' p ->
  (forall q, In q (inits p) -> Zi.lookup f q = Some Zi.Dir \/ Zi.lookup f q = None) -> zip_wf f'.
Proof.
  intros f f' p [W0 W] S Hp. split.
  - rewrite S, W0. reflexivity.
  - intros x q r Hx E Hq Hr.
    assert (Hdir : Zi.lookup f q = Some Zi.Dir -> Zi.lookup f' q = Some Zi.Dir) by (intros Hd; rewrite S, Hd; reflexivity).
    rewrite S in Hx. destruct (Zi.lookup f x) eqn:Ex.
    + apply Hdir. apply (W x q r); [congruence | exact E | exact Hq | exact Hr].
    + destruct (negb (is_nil x) && Gt.is_prefix x p) eqn:Eb; [|congruence].
      apply andb_true_iff in Eb as [_ Eb]. apply GtP.is_prefix_spec in Eb as [r2 ->]. subst x.
      assert (Hin : In q (inits ((q ++ r) ++ r2))).
      { apply GG.inits_spec. split; [exact Hq | exists (r ++ r2); rewrite app_assoc; reflexivity]. }
      rewrite S. destruct (Hp q Hin) as [Hd | Hn]; rewrite ?Hd, ?Hn; [reflexivity|].
      replace (is_nil q) with false by (destruct q; [congruence | reflexivity]).
      match goal with |- context [Gt.is_prefix ?a ?b] => replace (Gt.is_prefix a b) with true end; [reflexivity|].
      symmetry. apply GtP.is_prefix_spec. exists (r ++ r2). rewrite app_assoc. reflexivity.
Qed.

(** MkdirAll on a state with no link at or above [p] *)
Theorem zip_fs_mkdir_all_refines_lemma : forall f T p, zip_wf f -> zip_sim f T ->
  (forall q, In q (inits p) -> zip_is_link f q = false) ->
  zip_agree (Zi.fs_mkdir_all p f) (Go.mkdir_all T p) /\
  (forall f', Zi.fs_mkdir_all p f = Some f' -> zip_wf f' /\ mkdir_spec f f' p).
Proof.
  intros f T p W Hs Hnl.
  destruct (forallb (fun q => Zi.dir_or_none (Zi.lookup f q)) (Zi.prefixes p)) eqn:Ef.
  - assert (Hp : forall q, In q (inits p) -> Zi.lookup f q = Some Zi.Dir \/ Zi.lookup f q = None).
    { intros q Hq. rewrite forallb_forall in Ef. apply in_prefixes_inits in Hq. specialize (Ef q Hq).
      unfold Zi.dir_or_none in Ef. destruct (Zi.lookup f q) as [[]|]; try discriminate; tauto. }
    destruct (ZiP.mkdir_all_spec p f) as [f' [Hf' Sf']].
    { intros q Hq1 Hq2. rewrite forallb_forall in Ef. apply Ef. apply ZiP.in_prefixes. tauto. }
    assert (S : mkdir_spec f f' p).
    { intros q. rewrite Sf', zpath_eqb_nil. reflexivity. }
    destruct (GG.mkdir_all_creates T p (zsim_gen_wf f T W Hs)) as [T' [HT' ST']].
    { intros a Ha. destruct (Hp a Ha) as [H | H]; [left; apply (zsim_dir f T a Hs) | right; apply (zsim_none f T a Hs)]; exact H. }
    rewrite Hf', HT'. split.
    + apply ZA_ok. apply zsim_intro. intros q. rewrite ST', S, (zsim_lookup f T q Hs).
      destruct (Zi.lookup f q) as [n|]; cbn [option_map]; [reflexivity|].
      unfold Zi.name, Gt.name, Zi.path, Gt.path in *. match goal with |- context [if ?c then _ else _] => destruct c end; reflexivity.
    + intros f0 E. injection E as <-. split; [apply (zwf_mkdir f f' p W S Hp) | exact S].
  - assert (En : Zi.fs_mkdir_all p f = None) by (unfold Zi.fs_mkdir_all; rewrite Ef; reflexivity).
    rewrite En. split; [|discriminate].
    apply forallb_false_exists in Ef as [q [Hq Hd]]. apply in_prefixes_inits in Hq.
    pose proof (Hnl q Hq) as Hl. unfold zip_is_link in Hl. unfold Zi.dir_or_none in Hd.
    destruct (Zi.lookup f q) as [[|c|d]|] eqn:Eq; try discriminate.
    apply GG.inits_spec in Hq as [Hq [r ->]].
    assert (X : Go.mkdir_all T (q ++ r) = Go.Err Go.ENOTDIR).
    { apply (GG.mkdir_all_file T q r c).
      - apply (zwf_lit f T q W Hs). congruence.
      - exact Hq.
      - rewrite (zsim_lookup f T q Hs), Eq. reflexivity. }
    rewrite X. apply ZA_err.
Qed.

(* ------------------------------------------------------------------ symlink, create, remove, lstat, append *)

Lemma zsim_upd : forall f T p n, zip_sim f T -> zip_sim (Zi.upd f p n) (Gt.set T p (zip_node n)).
Proof.
  intros f T p n Hs. apply zsim_intro. intros q. rewrite GtP.lookup_set, ZiP.lookup_upd, (zsim_lookup f T q Hs).
  change (Zi.path_eqb q p) with (Gt.path_eqb q p). rewrite (GtP.path_eqb_sym q p). destruct (Gt.path_eqb p q); reflexivity.
Qed.

Lemma zsim_del : forall f T p, zip_sim f T -> zip_sim (Zi.del f p) (Gt.del T p).
Proof.
  intros f T p Hs. apply zsim_intro. intros q. rewrite GtP.lookup_del, ZiP.lookup_del, (zsim_lookup f T q Hs).
  change (Zi.path_eqb q p) with (Gt.path_eqb q p). rewrite (GtP.path_eqb_sym q p). destruct (Gt.path_eqb p q); reflexivity.
Qed.

Theorem zip_fs_symlink_refines_lemma : forall f T p dest, zip_wf f -> zip_sim f T -> p <> [] -> zip_link_above f p = false ->
  zip_agree (Zi.fs_symlink p dest f) (Go.symlink T (map Gt.Nm dest) p) /\
  (forall f', Zi.fs_symlink p dest f = Some f' -> zip_wf f').
Proof.
  intros f T p dest W Hs Hp Hnl. unfold Zi.fs_symlink.
  destruct (Zi.parent_ok p f) eqn:Epo.
  - pose proof (parent_ok_lit f T p W Hs Epo) as L.
    rewrite (GG.symlink_lit_gen T _ p L), (zsim_node_at f T p Hs Hp).
    destruct (Zi.lookup f p) as [n|] eqn:El; cbn [option_map]; [split; [apply ZA_err | discriminate]|].
    split; [apply ZA_ok; apply (zsim_upd f T p (Zi.Link dest) Hs)|].
    intros f' E. injection E as <-. apply zwf_upd; [exact W | exact Hp | apply (dirs_of_lit f T p Hs L)|].
    intros r Hr. apply (zwf_below_nondir f p r W Hp Hr). congruence.
  - split; [|discriminate].
    destruct (zresolve_cases f T false p W Hs Hnl) as [L R | L R Hb | L R Hb Hf]; [discriminate | | |].
    + rewrite (lit_parent_ok f T p Hs L) in Epo. discriminate.
    + rewrite (GG.symlink_err T _ p _ R). apply ZA_err.
    + rewrite (GG.symlink_err T _ p _ R). apply ZA_err.
Qed.

(** open(O_CREATE|O_TRUNC|O_WRONLY) of a path that is not itself a link *)
Theorem zip_fs_create_refines_lemma : forall f T p, zip_wf f -> zip_sim f T -> p <> [] ->
  zip_link_above f p = false -> zip_is_link f p = false ->
  match Zi.fs_create p f, Go.open_trunc T p with
  | Some f', Go.Ok (T', q) => q = p /\ zip_sim f' T' /\ zip_wf f' /\ Zi.lookup f' p = Some (Zi.File [])
  | None, Go.Err _ => True
  | _, _ => False
  end.
Proof.
  intros f T p W Hs Hp Hnl Hl. unfold Zi.fs_create.
  assert (Hnlk : forall d, Gt.node_at T p <> Some (Gt.Link d)).
  { intros d. rewrite (zsim_node_at f T p Hs Hp). unfold zip_is_link in Hl. destruct (Zi.lookup f p) as [[]|]; cbn; congruence. }
  destruct (Zi.parent_ok p f) eqn:Epo.
  - pose proof (parent_ok_lit f T p W Hs Epo) as L.
    rewrite (GG.open_trunc_lit_gen T p L Hnlk), (zsim_node_at f T p Hs Hp).
    assert (X : Zi.lookup f p <> Some Zi.Dir ->
                p = p /\ zip_sim (Zi.upd f p (Zi.File [])) (Gt.set T p (Gt.File [])) /\ zip_wf (Zi.upd f p (Zi.File [])) /\
                Zi.lookup (Zi.upd f p (Zi.File [])) p = Some (Zi.File [])).
    { intros Hnd. split; [reflexivity|]. split; [apply (zsim_upd f T p (Zi.File []) Hs)|]. split.
      - apply zwf_upd; [exact W | exact Hp | apply (dirs_of_lit f T p Hs L)|].
        intros r Hr. apply (zwf_below_nondir f p r W Hp Hr Hnd).
      - rewrite ZiP.lookup_upd, ZiP.path_eqb_refl. reflexivity. }
    unfold zip_is_link in Hl. destruct (Zi.lookup f p) as [[|c|d]|] eqn:El; cbn [option_map zip_node]; try exact I.
    + apply X. congruence.
    + apply X. congruence.
  - destruct (zresolve_cases f T true p W Hs Hnl (fun _ => Hl)) as [L R | L R Hb | L R Hb Hf].
    + rewrite (lit_parent_ok f T p Hs L) in Epo. discriminate.
    + rewrite (GG.open_trunc_err T p _ R). exact I.
    + rewrite (GG.open_trunc_err T p _ R). exact I.
Qed.

(** os.Remove of something that is not a directory (archiver.Mkdir's use) or is absent *)
Theorem zip_fs_remove_refines_lemma : forall f T p, zip_wf f -> zip_sim f T -> p <> [] -> zip_link_above f p = false ->
  Zi.lookup f p <> Some Zi.Dir ->
  zip_agree (Zi.fs_remove p f) (Go.remove T p) /\ (forall f', Zi.fs_remove p f = Some f' -> f' = Zi.del f p /\ zip_wf f').
Proof.
  intros f T p W Hs Hp Hnl Hnd. unfold Zi.fs_remove.
  assert (Hw : zip_wf (Zi.del f p)).
  { apply zwf_del; [exact W|]. intros r Hr. apply (zwf_below_nondir f p r W Hp Hr Hnd). }
  destruct (zresolve_cases f T false p W Hs Hnl) as [L R | L R Hb | L R Hb Hf]; [discriminate | | |].
  - rewrite (GG.remove_lit_gen T p L Hp), (zsim_lookup f T p Hs).
    destruct (Zi.lookup f p) as [[|c|d]|] eqn:El; cbn [option_map zip_node].
    + congruence.
    + split; [apply ZA_ok; apply zsim_del; exact Hs | intros f' E; injection E as <-; tauto].
    + split; [apply ZA_ok; apply zsim_del; exact Hs | intros f' E; injection E as <-; tauto].
    + split; [apply ZA_err | discriminate].
  - specialize (Hb []). rewrite app_nil_r in Hb. rewrite Hb, (GG.remove_err T p _ R). split; [apply ZA_err | discriminate].
  - specialize (Hb []). rewrite app_nil_r in Hb. rewrite Hb, (GG.remove_err T p _ R). split; [apply ZA_err | discriminate].
Qed.

(** os.Lstat as archiver.Mkdir uses it: the node, or some error *)
Theorem zip_lstat_refines_lemma : forall f T p, zip_wf f -> zip_sim f T -> p <> [] -> zip_link_above f p = false ->
  match Zi.lookup f p, Go.lstat T p with
  | Some n, Go.Ok n' => n' = zip_node n
  | None, Go.Err _ => True
  | _, _ => False
  end.
Proof.
  intros f T p W Hs Hp Hnl.
  destruct (zresolve_cases f T false p W Hs Hnl) as [L R | L R Hb | L R Hb Hf]; [discriminate | | |].
  - rewrite (GoP.lstat_lit T p L), (zsim_node_at f T p Hs Hp). destruct (Zi.lookup f p); cbn [option_map]; [reflexivity | exact I].
  - specialize (Hb []). rewrite app_nil_r in Hb. rewrite Hb, (GG.lstat_err T p _ R). exact I.
  - specialize (Hb []). rewrite app_nil_r in Hb. rewrite Hb, (GG.lstat_err T p _ R). exact I.
Qed.

Lemma write_at_data_end : forall (d c : list N), Go.write_at_data d (length d) c = d ++ c.
Proof.
  intros d c. unfold Go.write_at_data. destruct c as [|x c]; [rewrite app_nil_r; reflexivity|].
  rewrite firstn_all, Nat.sub_diag. cbn [repeat app]. rewrite skipn_all2; [rewrite app_nil_r; reflexivity|].
  cbn [length]. lia.
Qed.

(** one Write call: the small model appends to the file at the path, the general model
    writes at the descriptor's offset; they agree when the descriptor is the path and the
    offset is the length written so far *)
Theorem zip_fs_append_refines_lemma : forall f T p c, zip_sim f T -> p <> [] ->
  match Zi.fs_append p c f with
  | Some f' => exists d, Zi.lookup f p = Some (Zi.File d) /\ Zi.lookup f' p = Some (Zi.File (d ++ c)) /\
                         zip_sim f' (Go.write_at_fd T p (length d) c)
  | None => forall d, Gt.node_at T p <> Some (Gt.File d)
  end.
Proof.
  intros f T p c Hs Hp. unfold Zi.fs_append. pose proof (zsim_node_at f T p Hs Hp) as Hn.
  destruct (Zi.lookup f p) as [[|d|l]|] eqn:El; cbn [option_map zip_node] in Hn; try (intros d'; congruence).
  exists d. split; [reflexivity|]. split; [rewrite ZiP.lookup_upd, ZiP.path_eqb_refl; reflexivity|].
  unfold Go.write_at_fd. rewrite Hn, write_at_data_end. apply (zsim_upd f T p (Zi.File (d ++ c)) Hs).
Qed.

Lemma zwf_same_keys : forall f f', zip_wf f -> (forall q, Zi.lookup f' q = Some Zi.Dir <-> Zi.lookup f q = Some Zi.Dir) ->
  (forall q, Zi.lookup f' q = None <-> Zi.lookup f q = None) -> zip_wf f'.
Proof.
  intros f f' [W0 W] Hd Hn. split; [apply Hn; exact W0|]. intros x q r Hx E Hq Hr. apply Hd. apply (W x q r); [|exact E | exact Hq | exact Hr].
  intros X. apply Hx. apply Hn. exact X.
Qed.

Lemma zip_appends_writes : forall chunks f T p d, zip_wf f -> zip_sim f T -> p <> [] -> Zi.lookup f p = Some (Zi.File d) ->
  exists f', zip_appends p chunks f = (true, f') /\ zip_sim f' (gen_writes p (length d) chunks T) /\ zip_wf f'.
Proof.
  induction chunks as [|c chunks IH]; intros f T p d W Hs Hp El; cbn [zip_appends gen_writes].
  - exists f. split; [reflexivity | split; assumption].
  - pose proof (zip_fs_append_refines_lemma f T p c Hs Hp) as A. destruct (Zi.fs_append p c f) as [f1|] eqn:Ea.
    + destruct A as [d' [E1 [E2 S1]]]. rewrite El in E1. injection E1 as <-.
      assert (W1 : zip_wf f1).
      { unfold Zi.fs_append in Ea. rewrite El in Ea. injection Ea as <-. apply (zwf_same_keys f _ W).
        - intros q. rewrite ZiP.lookup_upd. destruct (Zi.path_eqb q p) eqn:E; [|reflexivity].
          apply ZiP.path_eqb_eq in E. subst q. rewrite El. split; discriminate.
        - intros q. rewrite ZiP.lookup_upd. destruct (Zi.path_eqb q p) eqn:E; [|reflexivity].
          apply ZiP.path_eqb_eq in E. subst q. rewrite El. split; discriminate. }
      destruct (IH f1 _ p (d ++ c) W1 S1 Hp E2) as [f' [H1 [H2 H3]]]. exists f'. rewrite H1.
      rewrite app_length in H2. split; [reflexivity | split; assumption].
    + exfalso. unfold Zi.fs_append in Ea. rewrite El in Ea. discriminate.
Qed.

(* ------------------------------------------------------------------ the helpers of archiver.go *)

Lemma link_above_mono : forall f f' p,
  (forall a, In a (inits (removelast p)) -> zip_is_link f' a = true -> zip_is_link f a = true) ->
  zip_link_above f p = false -> zip_link_above f' p = false.
Proof.
  intros f f' p H Hf. unfold zip_link_above in *. destruct (existsb (zip_is_link f') (inits (removelast p))) eqn:E; [|reflexivity].
  apply existsb_exists in E as [a [Ha Hl]]. specialize (H a Ha Hl). rewrite (existsb_false_forall _ _ Hf a Ha) in H. discriminate.
Qed.

Lemma is_link_filter : forall f p a, zip_is_link (rm_all p f) a = true -> zip_is_link f a = true.
Proof. intros f p a. unfold zip_is_link. rewrite ZiP.lookup_remove_all. destruct (Zi.is_prefix p a); [discriminate | tauto]. Qed.

Lemma is_link_del : forall f p a, zip_is_link (Zi.del f p) a = true -> zip_is_link f a = true.
Proof. intros f p a. unfold zip_is_link. rewrite ZiP.lookup_del. destruct (Zi.path_eqb a p); [discriminate | tauto]. Qed.

Lemma is_link_mkdir : forall f f' p a, mkdir_spec f f' p -> zip_is_link f' a = true -> zip_is_link f a = true.
Proof.
  intros f f' p a S. unfold zip_is_link. rewrite S. destruct (Zi.lookup f a) as [n|]; [tauto|].
  match goal with |- context [if ?c then _ else _] => destruct c end; discriminate.
Qed.

Lemma not_prefix_of_parent : forall p : Gt.path, p <> [] -> Gt.is_prefix p (removelast p) = false.
Proof.
  intros p Hp. destruct (GG.snoc_cases p) as [-> | [q [x ->]]]; [congruence|]. rewrite GG.removelast_snoc.
  apply GtP.is_prefix_false. intros [r E]. rewrite <- app_assoc in E. apply (app_not_self q ([x] ++ r)); [discriminate | exact E].
Qed.

Lemma helper_flag : forall (b : bool) (e : option Go.errno), (b = true <-> e = None) -> b = errno_is_none e.
Proof. intros [|] [e|] [H1 H2]; cbn; try reflexivity; [discriminate (H1 eq_refl) | discriminate (H2 eq_refl)]. Qed.

(** the tail of archiver.Mkdir: MkdirAll *)
Lemma mkdir_tail : forall f T p, zip_wf f -> zip_sim f T -> (forall q, In q (inits p) -> zip_is_link f q = false) ->
  let r := match Zi.fs_mkdir_all p f with None => (false, f) | Some f2 => (true, f2) end in
  let g := match Go.mkdir_all T p with Go.Err e => (Some e, T) | Go.Ok T2 => (None, T2) end in
  zip_agree_helper r g /\ zip_wf (snd r).
Proof.
  intros f T p W Hs Hnl. destruct (zip_fs_mkdir_all_refines_lemma f T p W Hs Hnl) as [A F].
  destruct (Zi.fs_mkdir_all p f) as [f2|]; inversion A; subst; cbn.
  - split; [split; [tauto | assumption] | apply (F f2 eq_refl)].
  - split; [split; [split; discriminate | assumption] | assumption].
Qed.

Lemma nolink_all : forall f p, p <> [] -> zip_link_above f p = false -> zip_is_link f p = false ->
  forall q, In q (inits p) -> zip_is_link f q = false.
Proof.
  intros f p Hp Ha Hl q Hq. destruct (GG.snoc_cases p) as [-> | [p' [x ->]]]; [congruence|].
  rewrite GG.inits_app_last in Hq. apply in_app_or in Hq as [Hq | [<- | []]]; [|exact Hl].
  unfold zip_link_above in Ha. rewrite GG.removelast_snoc in Ha. apply (existsb_false_forall _ _ Ha q Hq).
Qed.

Theorem zip_mkdir_refines_lemma : forall f T p, zip_wf f -> zip_sim f T -> p <> [] -> zip_link_above f p = false ->
  zip_agree_helper (zip_mkdir p f) (gen_mkdir p T) /\ zip_wf (snd (zip_mkdir p f)).
Proof.
  intros f T p W Hs Hp Hnl. pose proof (zip_lstat_refines_lemma f T p W Hs Hp Hnl) as HL.
  unfold zip_mkdir, gen_mkdir.
  assert (Hrm : Zi.lookup f p <> Some Zi.Dir -> Zi.lookup f p <> None ->
            let r := match Zi.fs_remove p f with
                     | None => (false, f)
                     | Some f1 => match Zi.fs_mkdir_all p f1 with None => (false, f1) | Some f2 => (true, f2) end
                     end in
            let g := match Go.remove T p with
                     | Go.Err e => (Some e, T)
                     | Go.Ok T1 => match Go.mkdir_all T1 p with Go.Err e => (Some e, T1) | Go.Ok T2 => (None, T2) end
                     end in
            zip_agree_helper r g /\ zip_wf (snd r)).
  { intros Hnd Hsome. destruct (zip_fs_remove_refines_lemma f T p W Hs Hp Hnl Hnd) as [A F].
    destruct (Zi.fs_remove p f) as [f1|]; inversion A; subst; cbn zeta.
    - destruct (F f1 eq_refl) as [-> W1]. apply mkdir_tail; [exact W1 | assumption|].
      apply nolink_all; [exact Hp | apply (link_above_mono f _ p); [intros a _; apply is_link_del | exact Hnl]|].
      unfold zip_is_link. rewrite ZiP.lookup_del, ZiP.path_eqb_refl. reflexivity.
    - cbn. split; [split; [split; discriminate | assumption] | assumption]. }
  destruct (Zi.lookup f p) as [[|c|d]|] eqn:El; destruct (Go.lstat T p) as [n'|e]; try contradiction; subst; cbn [zip_node].
  - cbn. split; [split; [tauto | assumption] | assumption].
  - apply Hrm; discriminate.
  - apply Hrm; discriminate.
  - apply mkdir_tail; [exact W | exact Hs|]. apply nolink_all; [exact Hp | exact Hnl|]. unfold zip_is_link. rewrite El. reflexivity.
Qed.

(** the common start of archiver.Symlink and archiver.CopyFile: RemoveAll(p), MkdirAll(dir(p)),
    then something at [p], which is absent by then *)
Lemma zip_prep_refines : forall (kz : Zi.fs -> bool * Zi.fs) (kg : Gt.tree -> option Go.errno * Gt.tree) f T p,
  (forall f2 T2, zip_wf f2 -> zip_sim f2 T2 -> zip_link_above f2 p = false -> Zi.lookup f2 p = None ->
     zip_agree_helper (kz f2) (kg T2) /\ zip_wf (snd (kz f2))) ->
  zip_wf f -> zip_sim f T -> p <> [] -> zip_link_above f p = false ->
  let r := match Zi.fs_remove_all p f with
           | None => (false, f)
           | Some f1 => match Zi.fs_mkdir_all (Zi.parent p) f1 with None => (false, f1) | Some f2 => kz f2 end
           end in
  let g := match Go.remove_all T p with
           | Go.Err e => (Some e, T)
           | Go.Ok T1 => match Go.mkdir_all T1 (removelast p) with Go.Err e => (Some e, T1) | Go.Ok T2 => kg T2 end
           end in
  zip_agree_helper r g /\ zip_wf (snd r).
Proof.
  intros kz kg f T p Hk W Hs Hp Hnl. unfold Zi.fs_remove_all, Zi.parent. cbn zeta.
  pose proof (zwf_filter f p W) as W1.
  assert (Hnl1 : zip_link_above (rm_all p f) p = false).
  { apply (link_above_mono f _ p); [intros a _; apply is_link_filter | exact Hnl]. }
  destruct (zip_remove_all_cases f T p W Hs Hp Hnl) as [[T1 [-> S1]] | [-> [Hf S1]]].
  - assert (Hnlp : forall q, In q (inits (removelast p)) -> zip_is_link (rm_all p f) q = false).
    { intros q Hq. unfold zip_link_above in Hnl1. apply (existsb_false_forall _ _ Hnl1 q Hq). }
    destruct (zip_fs_mkdir_all_refines_lemma (rm_all p f) T1 (removelast p) W1 S1 Hnlp) as [A F].
    destruct (Zi.fs_mkdir_all (removelast p) (rm_all p f)) as [f2|]; inversion A; subst.
    + destruct (F f2 eq_refl) as [W2 S2]. apply Hk; try assumption.
      * apply (link_above_mono (rm_all p f) f2 p); [intros a _; apply (is_link_mkdir _ _ _ a S2) | exact Hnl1].
      * rewrite S2, ZiP.lookup_remove_all, ZiP.is_prefix_refl.
        replace (Gt.is_prefix p (removelast p)) with false by (symmetry; apply not_prefix_of_parent; exact Hp).
        rewrite andb_false_r. reflexivity.
    + cbn. split; [split; [split; discriminate | assumption] | assumption].
  - assert (En : Zi.fs_mkdir_all (removelast p) (rm_all p f) = None).
    { unfold Zi.fs_mkdir_all. destruct (forallb _ (Zi.prefixes (removelast p))) eqn:E; [|reflexivity]. exfalso.
      unfold zip_file_above in Hf. apply existsb_exists in Hf as [a [Ha Hfa]].
      rewrite forallb_forall in E. specialize (E a (proj2 (in_prefixes_inits a _) Ha)).
      rewrite ZiP.lookup_remove_all in E.
      replace (Zi.is_prefix p a) with false in E.
      - unfold zip_is_file in Hfa. destruct (Zi.lookup f a) as [[]|]; cbn in E; discriminate.
      - symmetry. apply GG.inits_spec in Ha as [_ [r Hr]]. destruct (Zi.is_prefix p a) eqn:Ep; [|reflexivity]. exfalso.
        apply zis_prefix_spec in Ep as [r2 ->]. rewrite <- app_assoc in Hr.
        destruct (GG.snoc_cases p) as [-> | [q [x ->]]]; [congruence|]. rewrite GG.removelast_snoc in Hr.
        rewrite <- app_assoc in Hr. apply (app_not_self q ([x] ++ r2 ++ r)); [discriminate | exact Hr]. }
    rewrite En. cbn. split; [split; [split; discriminate | assumption] | assumption].
Qed.

Theorem zip_symlink_refines_lemma : forall f T p dest, zip_wf f -> zip_sim f T -> p <> [] -> zip_link_above f p = false ->
  zip_agree_helper (zip_symlink p dest f) (gen_symlink p (map Gt.Nm dest) T) /\ zip_wf (snd (zip_symlink p dest f)).
Proof.
  intros f T p dest W Hs Hp Hnl. unfold zip_symlink, gen_symlink.
  apply (zip_prep_refines
           (fun f2 => match Zi.fs_symlink p dest f2 with None => (false, f2) | Some f3 => (true, f3) end)
           (fun T2 => match Go.symlink T2 (map Gt.Nm dest) p with Go.Err e => (Some e, T2) | Go.Ok T3 => (None, T3) end));
    try assumption.
  intros f2 T2 W2 S2 Hnl2 _. destruct (zip_fs_symlink_refines_lemma f2 T2 p dest W2 S2 Hp Hnl2) as [A F].
  destruct (Zi.fs_symlink p dest f2) as [f3|]; inversion A; subst; cbn.
  - split; [split; [tauto | assumption] | apply (F f3 eq_refl)].
  - split; [split; [split; discriminate | assumption] | assumption].
Qed.

Theorem zip_copyfile_refines_lemma : forall f T p chunks, zip_wf f -> zip_sim f T -> p <> [] -> zip_link_above f p = false ->
  zip_agree_helper (zip_copyfile p chunks f) (gen_copyfile p chunks T) /\ zip_wf (snd (zip_copyfile p chunks f)).
Proof.
  intros f T p chunks W Hs Hp Hnl. unfold zip_copyfile, gen_copyfile.
  apply (zip_prep_refines
           (fun f2 => match Zi.fs_create p f2 with None => (false, f2) | Some f3 => zip_appends p chunks f3 end)
           (fun T2 => match Go.open_trunc T2 p with Go.Err e => (Some e, T2) | Go.Ok (T3, q) => (None, gen_writes q 0 chunks T3) end));
    try assumption.
  intros f2 T2 W2 S2 Hnl2 Hn2.
  assert (Hl2 : zip_is_link f2 p = false) by (unfold zip_is_link; rewrite Hn2; reflexivity).
  pose proof (zip_fs_create_refines_lemma f2 T2 p W2 S2 Hp Hnl2 Hl2) as C.
  destruct (Zi.fs_create p f2) as [f3|]; destruct (Go.open_trunc T2 p) as [[T3 q]|e]; try contradiction.
  - destruct C as [-> [S3 [W3 E3]]].
    destruct (zip_appends_writes chunks f3 T3 p [] W3 S3 Hp E3) as [f' [H1 [H2 H3]]]. rewrite H1. cbn.
    split; [split; [tauto | exact H2] | exact H3].
  - cbn. split; [split; [split; discriminate | assumption] | assumption].
Qed.

(** the content written by CopyFile is the concatenation of the chunks *)
Lemma zip_appends_content : forall chunks f p d, Zi.lookup f p = Some (Zi.File d) ->
  exists f', zip_appends p chunks f = (true, f') /\ Zi.lookup f' p = Some (Zi.File (d ++ concat chunks)).
Proof.
  induction chunks as [|c chunks IH]; intros f p d El; cbn [zip_appends concat].
  - exists f. rewrite app_nil_r. split; [reflexivity | exact El].
  - unfold Zi.fs_append. rewrite El. destruct (IH (Zi.upd f p (Zi.File (d ++ c))) p (d ++ c)) as [f' [H1 H2]].
    + rewrite ZiP.lookup_upd, ZiP.path_eqb_refl. reflexivity.
    + exists f'. rewrite H1, H2, <- app_assoc. split; reflexivity.
Qed.

(* ------------------------------------------------------------------ sequences of helper calls *)

Lemma zip_call_refines : forall f T c, zip_wf f -> zip_sim f T -> zip_call_ok f c = true ->
  zip_agree_helper (zip_call_step f c) (gen_call_step T c) /\ zip_wf (snd (zip_call_step f c)).
Proof.
  intros f T c W Hs Hok. unfold zip_call_ok in Hok. apply andb_true_iff in Hok as [H1 H2].
  apply negb_true_iff in H2.
  assert (Hp : call_path c <> []) by (destruct (call_path c); [discriminate H1 | discriminate]).
  destruct c as [p | p d | p ch]; cbn [call_path zip_call_step gen_call_step] in *.
  - apply zip_mkdir_refines_lemma; assumption.
  - apply zip_symlink_refines_lemma; assumption.
  - apply zip_copyfile_refines_lemma; assumption.
Qed.

Theorem zipfs_refines_fs_lemma : forall cs f T bs f', zip_wf f -> zip_sim f T -> zip_calls_ok f cs = true ->
  zip_calls f cs = (bs, f') ->
  exists es T', gen_calls T cs = (es, T') /\ bs = map errno_is_none es /\ zip_sim f' T' /\ zip_wf f'.
Proof.
  induction cs as [|c cs IH]; intros f T bs f' W Hs Hok E.
  - cbn in E. injection E as <- <-. exists [], T. split; [reflexivity | split; [reflexivity | split; assumption]].
  - cbn [zip_calls gen_calls zip_calls_ok] in *. apply andb_true_iff in Hok as [Hok1 Hok2].
    destruct (zip_call_refines f T c W Hs Hok1) as [[Hflag Hsim] W1].
    destruct (zip_call_step f c) as [b f1]. destruct (gen_call_step T c) as [e T1]. cbn [fst snd] in *.
    destruct (zip_calls f1 cs) as [bs1 f2] eqn:E1. injection E as <- <-.
    destruct (IH f1 T1 bs1 f2 W1 Hsim Hok2 E1) as [es [T2 [G [Hb [Hs2 W2]]]]].
    exists (e :: es), T2. rewrite G. split; [reflexivity|]. split; [|split; assumption].
    cbn [map]. rewrite <- Hb, (helper_flag b e Hflag). reflexivity.
Qed.

Lemma zip_wfb_sound : forall f, zip_wfb f = true -> zip_wf f.
Proof.
  intros f H. unfold zip_wfb in H. rewrite forallb_forall in H.
  assert (In_lookup : forall p, Zi.lookup f p <> None -> exists n, In (p, n) f).
  { clear H. induction f as [|[k m] f IH]; intros p Hp; cbn [Zi.lookup] in Hp; [congruence|].
    destruct (Zi.path_eqb k p) eqn:E.
    - apply ZiP.path_eqb_eq in E. subst. exists m. left. reflexivity.
    - destruct (IH p Hp) as [n Hn]. exists n. right. exact Hn. }
  split.
  - destruct (Zi.lookup f []) eqn:E; [|reflexivity]. destruct (In_lookup []) as [n0 Hn]; [congruence|].
    apply H in Hn. discriminate.
  - intros p q r Hp E Hq Hr. destruct (In_lookup p Hp) as [n Hn]. apply H in Hn. cbn [fst] in Hn.
    apply andb_true_iff in Hn as [_ Hn]. rewrite forallb_forall in Hn. specialize (Hn q). unfold zip_is_dir in Hn.
    destruct (Zi.lookup f q) as [[]|]; try reflexivity; exfalso; (assert (X : false = true); [apply Hn | discriminate]);
      (apply GG.inits_spec; split; [exact Hq|]; subst p; destruct (GG.snoc_cases r) as [-> | [r' [x ->]]]; [congruence|];
       exists r'; rewrite app_assoc, GG.removelast_snoc; reflexivity).
Qed.

(** the summary at the abstraction of the initial state itself *)
Corollary zipfs_refines_fs_image : forall (f : Zi.fs) (cs : list zip_call) (bs : list bool) (f' : Zi.fs),
  zip_wf f -> zip_calls_ok f cs = true -> zip_calls f cs = (bs, f') ->
  exists es T', gen_calls (zip_tree f) cs = (es, T') /\ bs = map errno_is_none es /\
                tree_equiv (zip_tree f') T' /\ zip_wf f'.
Proof. intros f cs bs f' W Hok E. apply (zipfs_refines_fs_lemma cs f (zip_tree f) bs f' W (zsim_refl f) Hok E). Qed.
