(** Facts about the general filesystem model [FS/{Tree,Ops}.v] that the two refinement proofs
    share: where path resolution stops, what every operation does on a path that resolves
    literally, all in terms of [lookup] (so that they transfer along [tree_equiv]). *)
From Coq Require Import Arith Lia Setoid Morphisms.
From Wharf Require Import FS.Light FS.Tree FS.TreeProofs FS.Ops FS.OpsProofs.
From Wharf Require Import Compose.FSAgree.

(* ------------------------------------------------------------------ lists *)

Lemma inits_spec : forall {A} (p x : list A), In x (inits p) <-> x <> [] /\ exists r, p = x ++ r.
Proof.
  intros A. induction p as [|a p IH]; intros x; cbn [inits].
  - split; [contradiction|]. intros [Hx [r H]]. destruct x; [congruence | discriminate].
  - split.
    + intros [H | H].
      * subst. split; [discriminate|]. exists p. reflexivity.
      * apply in_map_iff in H as [y [<- Hy]]. apply IH in Hy as [Hy [r ->]]. split; [discriminate|]. exists r. reflexivity.
    + intros [Hx [r H]]. destruct x as [|b x]; [congruence|]. cbn in H. injection H as <- ->.
      destruct x as [|c x]; [left; reflexivity|]. right. apply in_map. apply IH. split; [discriminate|]. exists r. reflexivity.
Qed.

Lemma inits_app_last : forall {A} (p : list A) x, inits (p ++ [x]) = inits p ++ [p ++ [x]].
Proof.
  intros A. induction p as [|a p IH]; intros x; cbn [inits app map]; [reflexivity|].
  rewrite IH, map_app. reflexivity.
Qed.

Lemma removelast_snoc : forall {A} (p : list A) x, removelast (p ++ [x]) = p.
Proof. intros. apply removelast_last. Qed.

Lemma snoc_cases : forall {A} (p : list A), p = [] \/ exists q x, p = q ++ [x].
Proof.
  intros A p. destruct p as [|a p]; [left; reflexivity|]. right.
  destruct (@exists_last _ (a :: p)) as [q [x E]]; [discriminate|]. exists q, x. exact E.
Qed.

(** proper prefixes (the empty one included) of the general model against [inits] *)
Lemma prefixes_inits : forall (p a : path), In a (prefixes p) <-> a = [] /\ p <> [] \/ In a (inits (removelast p)).
Proof.
  intros p a. rewrite prefixes_spec. destruct (snoc_cases p) as [-> | [q [x ->]]].
  - cbn. split.
    + intros [r [Hr H]]. destruct a; destruct r; cbn in H; congruence.
    + intros [[_ H] | []]. congruence.
  - rewrite removelast_snoc, (inits_spec q a). split.
    + intros [r [Hr H]]. destruct a as [|b a]; [left; split; [reflexivity | destruct q; discriminate]|]. right.
      split; [discriminate|]. destruct (snoc_cases r) as [-> | [r' [y ->]]]; [congruence|].
      rewrite app_assoc in H. apply app_inj_tail in H as [H _]. exists r'. exact H.
    + intros [[-> _] | [Ha [r ->]]].
      * exists (q ++ [x]). split; [destruct q; discriminate | reflexivity].
      * exists (r ++ [x]). split; [destruct r; discriminate | rewrite app_assoc; reflexivity].
Qed.

(** [lit] in terms of [lookup] *)
Lemma lit_iff : forall t p, lit t p <-> forall a, In a (inits (removelast p)) -> lookup t a = Some Dir.
Proof.
  intros t p. split.
  - intros H a Ha. assert (Hn : a <> []) by (apply inits_spec in Ha; tauto).
    rewrite <- (node_at_nonempty t a Hn). apply H. apply prefixes_inits. right. exact Ha.
  - intros H a Ha. apply prefixes_inits in Ha as [[-> _] | Ha]; [reflexivity|].
    assert (Hn : a <> []) by (apply inits_spec in Ha; tauto).
    rewrite (node_at_nonempty t a Hn). apply H. exact Ha.
Qed.

Lemma lit_snoc : forall t p x, lit t p -> (p <> [] -> lookup t p = Some Dir) -> lit t (p ++ [x]).
Proof.
  intros t p x Hl Hd. apply lit_iff. rewrite removelast_snoc. intros a Ha.
  destruct (snoc_cases p) as [-> | [q [y E]]]; [destruct Ha|]. subst p.
  rewrite inits_app_last in Ha. apply in_app_or in Ha as [Ha | [<- | []]].
  - apply (proj1 (lit_iff _ _) Hl). rewrite removelast_snoc. exact Ha.
  - apply Hd. destruct q; discriminate.
Qed.

Lemma lit_ext : forall a b p, tree_equiv a b -> lit a p -> lit b p.
Proof. intros a b p E H. apply lit_iff. intros x Hx. rewrite <- E. apply (proj1 (lit_iff _ _) H). exact Hx. Qed.

Lemma node_at_ext : forall a b p, tree_equiv a b -> node_at a p = node_at b p.
Proof. intros a b [|x p] E; [reflexivity | apply E]. Qed.

(* ------------------------------------------------------------------ resolution *)

Lemma walk_go_dirs : forall k t fl ns cur rest,
  (forall a, In a (inits ns) -> lookup t (cur ++ a) = Some Dir) -> rest <> [] ->
  walk_go k t fl cur (map Nm ns ++ rest) = walk_go k t fl (cur ++ ns) rest.
Proof.
  intros k t fl ns. induction ns as [|n ns IH]; intros cur rest Hd Hr.
  - cbn [map app]. rewrite app_nil_r. reflexivity.
  - cbn [map app]. destruct (map Nm ns ++ rest) as [|c tl] eqn:E.
    { apply app_eq_nil in E as [_ E]. contradiction. }
    rewrite walk_go_cons2. rewrite (Hd [n]); [|apply inits_spec; split; [discriminate | exists ns; reflexivity]].
    rewrite <- E. rewrite IH; [|intros a Ha|exact Hr].
    + rewrite <- app_assoc. reflexivity.
    + rewrite <- app_assoc. apply Hd. cbn [app]. apply inits_spec. apply inits_spec in Ha as [Ha [r ->]].
      split; [discriminate | exists r; reflexivity].
Qed.

(** resolution of [a ++ n :: r] ([r] non-empty) when everything above [a ++ [n]] is a
    directory: decided by what is at [a ++ [n]] *)
Lemma resolve_stop : forall t fl a n r, lit t (a ++ [n]) -> r <> [] ->
  resolve t fl (a ++ n :: r) =
  match lookup t (a ++ [n]) with
  | None => Err ENOENT
  | Some (File _) => Err ENOTDIR
  | _ => resolve t fl (a ++ n :: r)
  end.
Proof.
  intros t fl a n r Hl Hr.
  destruct (lookup t (a ++ [n])) as [[c| |d]|] eqn:E; try reflexivity.
  - unfold resolve. destruct (walk_unfold link_fuel t fl [] (map Nm (a ++ n :: r))) as [k ->].
    rewrite map_app. cbn [map]. rewrite walk_go_dirs.
    + destruct r as [|m r]; [congruence|]. cbn [map app]. rewrite walk_go_cons2. cbn [app]. rewrite E. reflexivity.
    + intros x Hx. cbn [app]. apply (proj1 (lit_iff _ _) Hl). rewrite removelast_snoc. exact Hx.
    + discriminate.
  - unfold resolve. destruct (walk_unfold link_fuel t fl [] (map Nm (a ++ n :: r))) as [k ->].
    rewrite map_app. cbn [map]. rewrite walk_go_dirs.
    + destruct r as [|m r]; [congruence|]. cbn [map app]. rewrite walk_go_cons2. cbn [app]. rewrite E. reflexivity.
    + intros x Hx. cbn [app]. apply (proj1 (lit_iff _ _) Hl). rewrite removelast_snoc. exact Hx.
    + discriminate.
Qed.

Lemma resolve_stop_none : forall t fl a n r, lit t (a ++ [n]) -> r <> [] -> lookup t (a ++ [n]) = None ->
  resolve t fl (a ++ n :: r) = Err ENOENT.
Proof. intros t fl a n r Hl Hr E. rewrite resolve_stop by assumption. rewrite E. reflexivity. Qed.

Lemma resolve_stop_file : forall t fl a n r c, lit t (a ++ [n]) -> r <> [] -> lookup t (a ++ [n]) = Some (File c) ->
  resolve t fl (a ++ n :: r) = Err ENOTDIR.
Proof. intros t fl a n r c Hl Hr E. rewrite resolve_stop by assumption. rewrite E. reflexivity. Qed.

(** either every proper prefix of [p] is a directory, or there is a first one that is not *)
Lemma first_nondir : forall t p,
  lit t p \/ exists a n r, p = a ++ n :: r /\ r <> [] /\ lit t (a ++ [n]) /\ lookup t (a ++ [n]) <> Some Dir.
Proof.
  intros t p. induction p as [|x p IH] using rev_ind; [left; apply lit_nil|].
  destruct IH as [Hl | [a [n [r [-> [Hr [Hl Hn]]]]]]].
  - destruct (snoc_cases p) as [-> | [a [n ->]]].
    + left. apply lit_snoc; [exact Hl | congruence].
    + destruct (lookup t (a ++ [n])) as [[c| |d]|] eqn:E.
      * right. exists a, n, [x]. rewrite <- app_assoc. repeat split; try assumption; try discriminate. congruence.
      * left. apply lit_snoc; [exact Hl | intros _; exact E].
      * right. exists a, n, [x]. rewrite <- app_assoc. repeat split; try assumption; try discriminate. congruence.
      * right. exists a, n, [x]. rewrite <- app_assoc. repeat split; try assumption; try discriminate. congruence.
  - right. exists a, n, (r ++ [x]). rewrite <- app_assoc. repeat split; try assumption.
    destruct r; discriminate.
Qed.

(** when no link is met, resolution succeeds literally or fails with ENOENT / ENOTDIR *)
Lemma resolve_nolink : forall t fl p,
  (forall a, In a (inits (removelast p)) -> forall d, lookup t a <> Some (Link d)) ->
  (fl = true -> forall d, node_at t p <> Some (Link d)) ->
  (lit t p /\ resolve t fl p = Ok p) \/
  (~ lit t p /\ (resolve t fl p = Err ENOENT \/ resolve t fl p = Err ENOTDIR)).
Proof.
  intros t fl p Hnl Hfl. destruct (first_nondir t p) as [Hl | [a [n [r [-> [Hr [Hl Hn]]]]]]].
  - left. split; [exact Hl | apply resolve_lit; assumption].
  - right. split.
    + intros Hlit. apply Hn. apply (proj1 (lit_iff _ _) Hlit). apply inits_spec. split; [destruct a; discriminate|].
      destruct (snoc_cases r) as [-> | [r' [y ->]]]; [congruence|]. exists r'.
      replace (a ++ n :: r' ++ [y]) with ((a ++ n :: r') ++ [y]) by (rewrite <- app_assoc; reflexivity).
      rewrite removelast_snoc. rewrite <- app_assoc. reflexivity.
    + assert (Hin : In (a ++ [n]) (inits (removelast (a ++ n :: r)))).
      { apply inits_spec. split; [destruct a; discriminate|].
        destruct (snoc_cases r) as [-> | [r' [y ->]]]; [congruence|]. exists r'.
        replace (a ++ n :: r' ++ [y]) with ((a ++ n :: r') ++ [y]) by (rewrite <- app_assoc; reflexivity).
        rewrite removelast_snoc. rewrite <- app_assoc. reflexivity. }
      rewrite resolve_stop by assumption.
      destruct (lookup t (a ++ [n])) as [[c| |d]|] eqn:E.
      * right. reflexivity.
      * congruence.
      * exfalso. apply (Hnl _ Hin d). exact E.
      * left. reflexivity.
Qed.

(* ------------------------------------------------------------------ operations on literal paths *)

Lemma remove_lit_gen : forall t p, lit t p -> p <> [] ->
  remove t p = match lookup t p with
               | None => Err ENOENT
               | Some Dir => if has_child t p then Err ENOTEMPTY else Ok (del t p)
               | Some _ => Ok (del t p)
               end.
Proof.
  intros t p Hl Hne. unfold remove. rewrite resolve_lit; [| exact Hl | discriminate].
  destruct p; [congruence | reflexivity].
Qed.

Lemma symlink_lit_gen : forall t d p, lit t p ->
  symlink t d p = match node_at t p with Some _ => Err EEXIST | None => Ok (set t p (Link d)) end.
Proof. intros t d p Hl. unfold symlink. rewrite resolve_lit; [reflexivity | exact Hl | discriminate]. Qed.

Lemma open_trunc_lit_gen : forall t p, lit t p -> (forall d, node_at t p <> Some (Link d)) ->
  open_trunc t p = match node_at t p with
                   | Some Dir => Err EISDIR
                   | Some (Link _) => Err ELOOP
                   | _ => Ok (set t p (File []), p)
                   end.
Proof. intros t p Hl Hn. unfold open_trunc. rewrite resolve_lit; [reflexivity | exact Hl | intros _; exact Hn]. Qed.

Lemma open_nocreate_lit_gen : forall t p, lit t p -> (forall d, node_at t p <> Some (Link d)) ->
  open_nocreate t p = match node_at t p with
                      | Some Dir => Err EISDIR
                      | Some (Link _) => Err ELOOP
                      | Some (File _) => Ok p
                      | None => Err ENOENT
                      end.
Proof. intros t p Hl Hn. unfold open_nocreate. rewrite resolve_lit; [reflexivity | exact Hl | intros _; exact Hn]. Qed.

Lemma rename2_lit : forall t s d, lit t s -> lit t d -> s <> [] -> d <> [] ->
  rename2 t s d =
  match lookup t s with
  | None => Err ENOENT
  | Some ns =>
      if path_eqb s d then Ok t else
      if is_prefix s d then Err EINVAL else
      if is_prefix d s then Err ENOTEMPTY else
      match ns with
      | Dir => match lookup t d with
               | None => Ok (move_tree t s d)
               | Some Dir => if has_child t d then Err ENOTEMPTY else Ok (move_tree (del t d) s d)
               | Some _ => Err ENOTDIR
               end
      | _ => match lookup t d with
             | Some Dir => Err EISDIR
             | _ => Ok (move_tree (del t d) s d)
             end
      end
  end.
Proof.
  intros t s d Hs Hd Hsn Hdn. unfold rename2.
  rewrite (resolve_lit t false s Hs) by discriminate. rewrite (resolve_lit t false d Hd) by discriminate.
  destruct s as [|x s]; [congruence|]. destruct d as [|y d]; [congruence|]. reflexivity.
Qed.

(** errors of path resolution are the errors of the operations *)
Lemma lstat_err : forall t p e, resolve t false p = Err e -> lstat t p = Err e.
Proof. intros t p e H. unfold lstat. rewrite H. reflexivity. Qed.
Lemma stat_err : forall t p e, resolve t true p = Err e -> stat t p = Err e.
Proof. intros t p e H. unfold stat. rewrite H. reflexivity. Qed.
Lemma readlink_err : forall t p e, resolve t false p = Err e -> readlink t p = Err e.
Proof. intros t p e H. unfold readlink. rewrite (lstat_err _ _ _ H). reflexivity. Qed.
Lemma read_file_err : forall t p e, resolve t true p = Err e -> read_file t p = Err e.
Proof. intros t p e H. unfold read_file. rewrite (stat_err _ _ _ H). reflexivity. Qed.
Lemma remove_err : forall t p e, resolve t false p = Err e -> remove t p = Err e.
Proof. intros t p e H. unfold remove. rewrite H. reflexivity. Qed.
Lemma symlink_err : forall t d p e, resolve t false p = Err e -> symlink t d p = Err e.
Proof. intros t d p e H. unfold symlink. rewrite H. reflexivity. Qed.
Lemma mkdir_err : forall t p e, resolve t false p = Err e -> mkdir t p = Err e.
Proof. intros t p e H. unfold mkdir. rewrite H. reflexivity. Qed.
Lemma open_trunc_err : forall t p e, resolve t true p = Err e -> open_trunc t p = Err e.
Proof. intros t p e H. unfold open_trunc. rewrite H. reflexivity. Qed.
Lemma open_nocreate_err : forall t p e, resolve t true p = Err e -> open_nocreate t p = Err e.
Proof. intros t p e H. unfold open_nocreate. rewrite H. reflexivity. Qed.
Lemma remove_all_enoent : forall t p, resolve t false p = Err ENOENT -> remove_all t p = Ok t.
Proof. intros t p H. unfold remove_all. rewrite H. reflexivity. Qed.
Lemma remove_all_enotdir : forall t p, resolve t false p = Err ENOTDIR -> remove_all t p = Err ENOTDIR.
Proof. intros t p H. unfold remove_all. rewrite H. reflexivity. Qed.

(* ------------------------------------------------------------------ keys *)

Lemma lookup_In : forall t p n, lookup t p = Some n -> In (p, n) t.
Proof.
  induction t as [|[k m] t IH]; intros p n H; cbn [lookup] in H; [discriminate|].
  destruct (path_eqb k p) eqn:E.
  - apply path_eqb_eq in E. injection H as ->. subst. left. reflexivity.
  - right. apply IH. exact H.
Qed.

Lemma In_lookup : forall t p n, In (p, n) t -> lookup t p <> None.
Proof.
  induction t as [|[k m] t IH]; intros p n H; [destruct H|]. cbn [lookup].
  destruct (path_eqb k p) eqn:E; [discriminate|].
  destruct H as [H|H]; [injection H as -> ->; rewrite path_eqb_refl in E; discriminate|]. apply (IH _ _ H).
Qed.

Lemma has_child_iff : forall t p,
  has_child t p = true <-> exists k, lookup t k <> None /\ is_prefix p k = true /\ p <> k.
Proof.
  intros t p. unfold has_child. rewrite existsb_exists. split.
  - intros [[k n] [Hin H]]. cbn [fst] in H. apply andb_true_iff in H as [H1 H2]. apply negb_true_iff in H2.
    exists k. split; [apply (In_lookup _ _ _ Hin)|]. split; [exact H1 | apply path_eqb_neq; exact H2].
  - intros [k [Hk [H1 H2]]]. destruct (lookup t k) as [n|] eqn:E; [|congruence]. exists (k, n).
    split; [apply lookup_In; exact E|]. cbn [fst]. rewrite H1. apply path_eqb_neq in H2. rewrite H2. reflexivity.
Qed.

Lemma has_child_ext : forall a b p, tree_equiv a b -> has_child a p = has_child b p.
Proof.
  intros a b p E. destruct (has_child a p) eqn:Ha; symmetry.
  - apply has_child_iff. apply has_child_iff in Ha as [k [Hk H]]. exists k. rewrite <- E. tauto.
  - destruct (has_child b p) eqn:Hb; [|reflexivity]. apply has_child_iff in Hb as [k [Hk H]].
    assert (X : has_child a p = true) by (apply has_child_iff; exists k; rewrite E; tauto). congruence.
Qed.

(* ------------------------------------------------------------------ move_tree *)

Lemma is_prefix_skipn : forall p q, is_prefix p q = true -> q = p ++ skipn (length p) q.
Proof.
  intros p q H. apply is_prefix_spec in H as [r ->]. rewrite skipn_app, skipn_all, Nat.sub_diag. reflexivity.
Qed.

(** [lookup] after [move_tree] when nothing lies below the destination *)
Lemma lookup_move_tree : forall t src dst q,
  (forall k, lookup t k <> None -> is_prefix dst k = false) ->
  is_prefix src dst = false ->
  lookup (move_tree t src dst) q =
  if is_prefix dst q then lookup t (src ++ skipn (length dst) q)
  else if is_prefix src q then None else lookup t q.
Proof.
  intros t src dst q Hfree Hsd. unfold move_tree.
  induction t as [|[k n] t IH]; cbn [map lookup fst snd].
  - destruct (is_prefix dst q); [reflexivity|]. destruct (is_prefix src q); reflexivity.
  - assert (Hk : is_prefix dst k = false).
    { apply Hfree. cbn [lookup]. rewrite path_eqb_refl. discriminate. }
    assert (Hfree' : forall k', lookup t k' <> None -> is_prefix dst k' = false).
    { intros k' H'. apply Hfree. cbn [lookup]. destruct (path_eqb k k'); [discriminate | exact H']. }
    specialize (IH Hfree').
    destruct (is_prefix src k) eqn:Esk; cbn [lookup].
    + (* the binding moves to dst ++ drop k *)
      pose proof (is_prefix_skipn _ _ Esk) as Ek.
      destruct (is_prefix dst q) eqn:Edq.
      * pose proof (is_prefix_skipn _ _ Edq) as Eq.
        destruct (path_eqb (dst ++ skipn (length src) k) q) eqn:E1.
        -- apply path_eqb_eq in E1. rewrite <- E1. rewrite skipn_app, skipn_all, Nat.sub_diag. cbn [skipn app].
           rewrite <- Ek. rewrite path_eqb_refl. reflexivity.
        -- rewrite IH. destruct (path_eqb k (src ++ skipn (length dst) q)) eqn:E2; [|reflexivity].
           apply path_eqb_eq in E2. exfalso. apply path_eqb_neq in E1. apply E1.
           rewrite E2. rewrite skipn_app, skipn_all, Nat.sub_diag. cbn [skipn app]. symmetry. exact Eq.
      * destruct (path_eqb (dst ++ skipn (length src) k) q) eqn:E1.
        -- apply path_eqb_eq in E1. subst q. rewrite is_prefix_app in Edq. discriminate.
        -- rewrite IH. destruct (is_prefix src q) eqn:Esq; [reflexivity|].
           destruct (path_eqb k q) eqn:E2; [|reflexivity]. apply path_eqb_eq in E2. subst q. congruence.
    + (* the binding stays *)
      destruct (is_prefix dst q) eqn:Edq.
      * destruct (path_eqb k q) eqn:E1; [apply path_eqb_eq in E1; subst q; congruence|].
        rewrite IH. destruct (path_eqb k (src ++ skipn (length dst) q)) eqn:E2; [|reflexivity].
        apply path_eqb_eq in E2. subst k. rewrite is_prefix_app in Esk. discriminate.
      * destruct (path_eqb k q) eqn:E1.
        -- apply path_eqb_eq in E1. subst q. rewrite Esk. reflexivity.
        -- rewrite IH. reflexivity.
Qed.

(* ------------------------------------------------------------------ MkdirAll *)

(** general-model states the small models are about: the root is not a key, every key lies
    below directories *)
Definition gen_wf (t : tree) : Prop :=
  lookup t [] = None /\ forall p, lookup t p <> None -> lit t p.

Lemma stat_root : forall t, stat t [] = Ok Dir.
Proof. reflexivity. Qed.

(** no link on the way and nothing at [p]: Stat fails *)
Lemma stat_absent : forall t p, p <> [] -> lookup t p = None ->
  (forall a, In a (inits (removelast p)) -> forall d, lookup t a <> Some (Link d)) ->
  exists e, stat t p = Err e.
Proof.
  intros t p Hne Hn Hnl.
  destruct (resolve_nolink t true p Hnl) as [[Hl Hr] | [_ [Hr | Hr]]].
  - intros _ d. rewrite (node_at_nonempty t p Hne), Hn. discriminate.
  - exists ENOENT. unfold stat. rewrite Hr. rewrite (node_at_nonempty t p Hne), Hn. reflexivity.
  - exists ENOENT. apply stat_err. exact Hr.
  - exists ENOTDIR. apply stat_err. exact Hr.
Qed.

(** MkdirAll, success: every non-empty prefix of [p] is a directory or absent (and [t] is
    well-formed): the absent ones are created *)
Lemma mkdir_all_creates : forall t p, gen_wf t ->
  (forall a, In a (inits p) -> lookup t a = Some Dir \/ lookup t a = None) ->
  exists t', mkdir_all t p = Ok t' /\
    forall q, lookup t' q = match lookup t q with
                            | None => if negb (is_nil q) && is_prefix q p then Some Dir else None
                            | x => x
                            end.
Proof.
  intros t p Hwf. induction p as [|x p IH] using rev_ind; intros Hp.
  - exists t. split; [reflexivity|]. intros q. destruct (lookup t q) eqn:E; [reflexivity|].
    destruct q; reflexivity.
  - destruct IH as [t1 [H1 S1]].
    { intros a Ha. apply Hp. rewrite inits_app_last. apply in_or_app. left. exact Ha. }
    assert (Hpx : In (p ++ [x]) (inits (p ++ [x]))) by (rewrite inits_app_last; apply in_or_app; right; left; reflexivity).
    assert (Hne : p ++ [x] <> []) by (destruct p; discriminate).
    destruct (Hp _ Hpx) as [Hd | Hn].
    + (* already a directory *)
      exists t. split.
      * apply mkdir_all_dir; [apply (proj2 Hwf); congruence | rewrite (node_at_nonempty _ _ Hne); exact Hd].
      * intros q. destruct (lookup t q) eqn:E; [reflexivity|].
        destruct (negb (is_nil q) && is_prefix q (p ++ [x])) eqn:Eq; [|reflexivity]. exfalso.
        apply andb_true_iff in Eq as [Eq1 Eq2]. apply is_prefix_spec in Eq2 as [r Er].
        assert (Hlit : lit t (p ++ [x])) by (apply (proj2 Hwf); congruence).
        destruct r as [|y r].
        -- rewrite app_nil_r in Er. subst q. congruence.
        -- pose proof (proj1 (lit_iff _ _) Hlit) as Hlit2. clear Hlit. rename Hlit2 into Hlit. rewrite removelast_snoc in Hlit.
           assert (X : lookup t q = Some Dir); [|congruence]. apply Hlit. apply inits_spec. split; [destruct q; [discriminate | discriminate]|].
           destruct (snoc_cases (y :: r)) as [E0 | [r' [z E0]]]; [discriminate|]. rewrite E0 in Er.
           rewrite app_assoc in Er. apply app_inj_tail in Er as [Er _]. exists r'. exact Er.
    + (* absent: Stat fails, MkdirAll(parent), Mkdir *)
      unfold mkdir_all. rewrite rev_app_distr. cbn [rev app]. rewrite mkdir_all_rev_unfold.
      cbn [rev]. rewrite rev_involutive.
      destruct (stat_absent t (p ++ [x]) Hne Hn) as [e He].
      { rewrite removelast_snoc. intros a Ha d. destruct (Hp a) as [H | H]; [|congruence|congruence].
        rewrite inits_app_last. apply in_or_app. left. exact Ha. }
      rewrite He. change (mkdir_all_rev t (rev p)) with (mkdir_all t p). rewrite H1.
      assert (Hlit1 : lit t1 (p ++ [x])).
      { apply lit_iff. rewrite removelast_snoc. intros a Ha. rewrite S1.
        assert (Ha' : In a (inits (p ++ [x]))) by (rewrite inits_app_last; apply in_or_app; left; exact Ha).
        destruct (Hp a Ha') as [H | H]; rewrite H; [reflexivity|].
        apply inits_spec in Ha as [Ha1 [r Ha2]].
        replace (negb (is_nil a)) with true by (destruct a; [congruence | reflexivity]).
        replace (is_prefix a p) with true by (symmetry; apply is_prefix_spec; exists r; exact Ha2). reflexivity. }
      assert (Hn1 : lookup t1 (p ++ [x]) = None).
      { rewrite S1, Hn. replace (is_prefix (p ++ [x]) p) with false; [rewrite andb_false_r; reflexivity|].
        symmetry. apply is_prefix_false. intros [r Er]. rewrite <- app_assoc in Er.
        rewrite <- (app_nil_r p) in Er at 1. apply app_inv_head in Er. discriminate. }
      rewrite mkdir_lit; [| exact Hlit1 | rewrite (node_at_nonempty _ _ Hne); exact Hn1].
      eexists. split; [reflexivity|]. intros q. rewrite lookup_set, S1.
      destruct (path_eqb (p ++ [x]) q) eqn:E.
      * apply path_eqb_eq in E. subst q. rewrite Hn. rewrite is_prefix_refl.
        replace (is_nil (p ++ [x])) with false by (destruct p; reflexivity). reflexivity.
      * destruct (lookup t q) eqn:Eq; [reflexivity|].
        destruct (negb (is_nil q)); [|reflexivity]. cbn [andb].
        destruct (is_prefix q p) eqn:E1.
        -- apply is_prefix_spec in E1 as [r ->]. replace (is_prefix q ((q ++ r) ++ [x])) with true; [reflexivity|].
           symmetry. apply is_prefix_spec. exists (r ++ [x]). rewrite app_assoc. reflexivity.
        -- destruct (is_prefix q (p ++ [x])) eqn:E2; [|reflexivity]. exfalso.
           apply is_prefix_spec in E2 as [r Er]. destruct (snoc_cases r) as [-> | [r' [z ->]]].
           ++ rewrite app_nil_r in Er. subst q. rewrite path_eqb_refl in E. discriminate.
           ++ rewrite app_assoc in Er. apply app_inj_tail in Er as [Er _]. subst p. rewrite is_prefix_app in E1. discriminate.
Qed.

(** MkdirAll, failure: a regular file at or above [p] with directories above it *)
Lemma mkdir_all_file : forall t a r c, lit t a -> a <> [] -> lookup t a = Some (File c) ->
  mkdir_all t (a ++ r) = Err ENOTDIR.
Proof.
  intros t a r c Hl Hne Hf. induction r as [|x r IH] using rev_ind.
  - rewrite app_nil_r. unfold mkdir_all. rewrite mkdir_all_rev_unfold, rev_involutive.
    rewrite stat_lit; [| exact Hl | intros d; rewrite (node_at_nonempty _ _ Hne); congruence].
    rewrite (node_at_nonempty _ _ Hne), Hf. reflexivity.
  - unfold mkdir_all. rewrite app_assoc, rev_app_distr. cbn [rev app]. rewrite mkdir_all_rev_unfold.
    cbn [rev]. rewrite rev_involutive.
    destruct (snoc_cases a) as [-> | [a' [n ->]]]; [congruence|].
    assert (He : stat t (((a' ++ [n]) ++ r) ++ [x]) = Err ENOTDIR).
    { apply stat_err. rewrite <- !app_assoc. cbn [app]. apply (resolve_stop_file t true a' n (r ++ [x]) c); try assumption.
      destruct r; discriminate. }
    rewrite He. change (mkdir_all_rev t (rev ((a' ++ [n]) ++ r))) with (mkdir_all t ((a' ++ [n]) ++ r)).
    rewrite IH. reflexivity.
Qed.
