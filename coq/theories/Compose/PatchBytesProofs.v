(** Proofs about Compose/PatchBytes.v (C01 x C13):
    A. prefix behaviour of the patcher loops: a run that succeeds on [p ++ q] leaving [r ++ q]...
       on [p] alone either fails with [Err] or succeeds with the same state leaving [r];
    B. the patcher on a proper prefix of the frames WritePatch produces returns [Err];
    C. the grammar of the per-file part and the typed decoding of bodies;
    D. bytes: what [patch_file] writes, what [read_patch_bytes] reads from it and from a cut;
    E. the theorems of Properties/C01.v. *)
From Coq Require Import ZifyBool ZifyNat ZifyN.
From Wharf Require Import Base.Prelude Bowl.Fresh Bowl.FreshProofs Patch.Reinterp Patch.ReinterpProofs
     Patch.Stream Patch.Patcher Patch.Whitelist Patch.ApplyProofs Patch.PatcherProofs Patch.DiffApplyProofs
     Wire.Uvarint Wire.UvarintProofs Wire.Frame Wire.FrameProofs
     Compose.DiffApply Compose.RealDifferProofs Compose.PatchBytes.
From Wharf Require Wsync.Spec.
Local Open Scope Z_scope.

(* ------------------------------------------------------------------ A. prefixes, loop by loop *)

Section Prefix.
  Variables (bs : Z) (oldC newC : container) (olds : list (list byte)).

  Lemma until_marker_prefix p : forall q r,
    until_marker (p ++ q) = Ok r ->
    until_marker p = Err \/ exists r', until_marker p = Ok r' /\ r = r' ++ q.
  Proof.
    induction p as [|m p IH]; intros q r H; [left; reflexivity|].
    cbn [app until_marker] in *. destruct (so_type (as_so m) =? HEY).
    - right. exists p. injection H as <-. split; reflexivity.
    - apply IH. exact H.
  Qed.

  Lemma relay_prefix p : forall q w r st,
    relay bs oldC olds (p ++ q) w = Ok (r, st) ->
    relay bs oldC olds p w = Err \/ exists r', relay bs oldC olds p w = Ok (r', st) /\ r = r' ++ q.
  Proof.
    induction p as [|m p IH]; intros q w r st H; [left; reflexivity|].
    cbn [app relay] in *. destruct (so_type (as_so m) =? HEY).
    - right. exists p. injection H as <- <-. split; reflexivity.
    - destruct (negb (validate_op oldC (as_so m))); [discriminate|].
      destruct (apply_op bs oldC olds w (as_so m)) as [w'| |]; cbn [bind] in *; try discriminate.
      apply IH. exact H.
  Qed.

  Lemma process_rsync_prefix idx p q s r st :
    process_rsync bs oldC newC olds idx (p ++ q) s = Ok (r, st) ->
    process_rsync bs oldC newC olds idx p s = Err \/
    exists r', process_rsync bs oldC newC olds idx p s = Ok (r', st) /\ r = r' ++ q.
  Proof.
    destruct p as [|m p]; intros H; [left; reflexivity|].
    cbn [app] in H. unfold process_rsync in *.
    destruct (negb (validate_op oldC (as_so m))); [discriminate|].
    destruct (is_full_file_op bs oldC newC idx (as_so m)) as [[|]| |]; cbn [bind] in *; try discriminate.
    - match type of H with bind ?X _ = _ => destruct X as [s'| |] end; cbn [bind] in *; try discriminate.
      destruct (until_marker (p ++ q)) as [r0| |] eqn:E; cbn [bind] in *; try discriminate.
      injection H as <- <-.
      destruct (until_marker_prefix p q r0 E) as [E'|(r' & E' & ->)]; rewrite E'; cbn [bind]; [left; reflexivity|].
      right. exists r'. split; reflexivity.
    - destruct (open_writer newC s idx) as [w| |]; cbn [bind] in *; try discriminate.
      destruct (apply_op bs oldC olds w (as_so m)) as [w'| |]; cbn [bind] in *; try discriminate.
      apply relay_prefix. exact H.
  Qed.
End Prefix.

(* ------------------------------------------------------------------ B. a cut frame list *)

Section Trunc.
  Variables (bs : Z) (differ : Z -> list byte -> list op) (old new : build).
  Hypothesis Hbs : 0 < bs.
  Hypothesis WFN : wf_build new.
  Hypothesis FO : fits63 old.
  Hypothesis FN : fits63 new.
  Hypothesis DOK : diff_ok bs (contents_of old) differ.

  Local Notation oldC := (container_of old).
  Local Notation newC := (container_of new).
  Local Notation olds := (contents_of old).
  Local Notation files := (files_of new).

  Variable t0 : tree.

  (** one more file done ([run_files_ok] of Patch/DiffApplyProofs.v has this step inline) *)
  Lemma inv_step idx p data s s1 :
    znth files idx = Some (p, data) -> Inv new t0 idx s ->
    tlookup (p_tree s1) p = Some (File data) ->
    (forall q, q <> p -> tlookup (p_tree s1) q = tlookup (p_tree s) q) ->
    Inv new t0 (idx + 1) s1.
  Proof.
    intros Hfile [HIf HIo] Hdata Hfr. destruct (HIf idx p data Hfile) as [Hready Hzero].
    rewrite Z.ltb_irrefl in Hzero. split.
    - intros j pj dj Hj. destruct (Z.eq_dec j idx) as [->|Hne].
      + rewrite Hfile in Hj. injection Hj as <- <-.
        destruct (Z.ltb_spec idx (idx + 1)); [|lia]. split; [|exact Hdata].
        apply (file_ready_frame (p_tree s) _ p p Hready Hfr); [exists (zeros (length data))|exists data]; assumption.
      + assert (Hp : pj <> p).
        { intros ->. apply Hne. eapply (znth_NoDup_fst files); [apply files_nodup_new; assumption|eassumption|eassumption]. }
        destruct (HIf j pj dj Hj) as [Rj Lj]. split.
        * apply (file_ready_frame (p_tree s) _ p pj Rj Hfr); [exists (zeros (length data))|exists data]; assumption.
        * rewrite Hfr by assumption. rewrite Lj.
          destruct (Z.ltb_spec j idx), (Z.ltb_spec j (idx + 1)); try reflexivity; lia.
    - intros q Hq. rewrite Hfr; [apply HIo; assumption|].
      intros ->. apply (Hq data). eapply znth_In. eassumption.
  Qed.

  (** the Resume loop on the sync header WritePatch writes for file [idx] *)
  Lemma run_files_sh n idx X s tch :
    0 <= idx < 2^63 ->
    run_files bs oldC newC olds None (S n) idx (MSH (mkSH SH_RSYNC idx) :: X) s tch =
    bind (process_rsync bs oldC newC olds idx X s)
         (fun rs => run_files bs oldC newC olds None n (idx + 1) (fst rs) (snd rs) (tch + 1)).
  Proof.
    intros Hidx. cbn [run_files].
    assert (Hsh : as_sh (MSH (mkSH SH_RSYNC idx)) = mkSH SH_RSYNC idx).
    { apply as_sh_own. cbn [pmsg_ok sh_type sh_file]. unfold i32_ok, i64_ok, SH_RSYNC.
      rewrite pow63 in *. change (2^31) with 2147483648. lia. }
    rewrite Hsh. cbn [sh_file sh_type]. rewrite Z.eqb_refl. unfold process_file.
    cbn [negb SH_RSYNC Z.eqb orb wl_skip]. reflexivity.
  Qed.

  (** the Resume loop on a proper prefix of the series of the files still to do: [Err] *)
  Lemma run_files_truncated fs : forall idx s tch p q,
    0 <= idx -> idx + Z.of_nat (length fs) = Z.of_nat (length files) ->
    (forall k f, nth_error fs k = Some f -> znth files (idx + Z.of_nat k) = Some f) ->
    Inv new t0 idx s ->
    all_series differ oldC idx fs = p ++ q -> q <> [] ->
    run_files bs oldC newC olds None (length fs) idx p s tch = Err.
  Proof.
    induction fs as [|[pa data] fs IH]; intros idx s tch p q Hidx Hlen Hfs HI E Hq.
    - cbn [all_series] in E. symmetry in E. apply app_eq_nil in E. destruct E as [_ ->]. contradiction.
    - cbn [length]. destruct p as [|m p1]; [reflexivity|].
      cbn [all_series] in E. unfold file_series in E. cbn [fst snd app] in E.
      injection E as <- E.
      pose proof (Hfs 0%nat (pa, data) eq_refl) as Hfile. rewrite Z.add_0_r in Hfile.
      assert (Hidx63 : 0 <= idx < 2^63).
      { destruct FN as [Fn _]. cbn [length] in Hlen. lia. }
      rewrite run_files_sh by exact Hidx63.
      destruct (proj1 HI idx pa data Hfile) as [Hready Hzero]. rewrite Z.ltb_irrefl in Hzero.
      assert (Hcase :
        (exists l, p1 = (map op_msg (differ (preferred_index oldC pa) data) ++ [hey_msg]) ++ l /\
                   all_series differ oldC (idx + 1) fs = l ++ q) \/
        (exists l, l <> [] /\ map op_msg (differ (preferred_index oldC pa) data) ++ [hey_msg] = p1 ++ l)).
      { apply app_eq_app in E. destruct E as (l & [[E1 E2]|[E1 E2]]).
        - destruct l as [|x l].
          + left. exists []. rewrite app_nil_r in *. cbn [app] in *. split; [symmetry; exact E1|symmetry; exact E2].
          + right. exists (x :: l). split; [discriminate|exact E1].
        - left. exists l. split; assumption. }
      destruct Hcase as [(l & -> & ER)|(l & Hl & ES)].
      + (* the series of this file is complete *)
        rewrite <- app_assoc. cbn [app].
        destruct (process_series_ok bs differ old new Hbs FO DOK idx pa data l s Hfile Hready Hzero)
          as (s1 & Ep & Hdata & Hfr).
        rewrite Ep. cbn [bind fst snd].
        apply (IH (idx + 1) s1 (tch + 1) l q); [lia|cbn [length] in Hlen; lia| | |exact ER|exact Hq].
        * intros k f Hk. replace (idx + 1 + Z.of_nat k) with (idx + Z.of_nat (S k)) by lia. apply Hfs. exact Hk.
        * apply (inv_step idx pa data s s1 Hfile HI Hdata Hfr).
      + (* the cut is inside the series of this file *)
        destruct (process_series_ok bs differ old new Hbs FO DOK idx pa data [] s Hfile Hready Hzero)
          as (s1 & Ep & _).
        rewrite ES in Ep.
        destruct (process_rsync_prefix bs oldC newC olds idx p1 l s [] s1 Ep) as [E'|(r' & _ & E')].
        * rewrite E'. reflexivity.
        * symmetry in E'. apply app_eq_nil in E'. destruct E' as [_ ->]. contradiction.
  Qed.
End Trunc.

(** the patcher on a proper prefix of the frames of a patch: never [Ok], never [Panic] *)
Lemma apply_truncated_frames bs differ old new algo quality k :
  0 < bs -> wf_build new -> fits63 old -> fits63 new -> diff_ok bs (contents_of old) differ ->
  (k < length (write_patch differ algo quality old new))%nat ->
  apply_patch_fresh bs (contents_of old) None (firstn k (write_patch differ algo quality old new)) = Err.
Proof.
  intros Hbs WFN FO FN DOK Hk. unfold write_patch in *.
  destruct k as [|[|[|k]]]; try reflexivity.
  cbn [firstn length] in *. rewrite map_length in Hk.
  unfold apply_patch_fresh, read_patch. rewrite firstn_map, frames_msgs_map. cbn [option_map]. unfold apply_fresh.
  pose proof (wf_container_of new WFN) as WFC.
  destruct (prepare_spec (container_of new) WFC) as (t0 & E0 & H0). rewrite E0. cbn [bind].
  assert (HI0 : Inv new t0 0 (mkP t0 [])).
  { split.
    - intros j p d Hj. pose proof (new_file_entry new j p d Hj) as He.
      destruct (prepared_ready (container_of new) t0 j p (Z.of_nat (length d)) WFC H0 He) as [R Lk].
      rewrite Nat2Z.id in Lk. cbn [p_tree]. split; [exact R|].
      destruct (Z.ltb_spec j 0) as [Hneg|_]; [apply znth_Some in Hj; lia|exact Lk].
    - reflexivity. }
  assert (Hlenf : length (c_files (container_of new)) = length (files_of new)).
  { cbn [container_of c_files]. apply map_length. }
  rewrite Hlenf.
  rewrite (run_files_truncated bs differ old new Hbs WFN FO FN DOK t0 (files_of new) 0 (mkP t0 []) 0
             (firstn k (patch_msgs differ old new)) (skipn k (patch_msgs differ old new))); [reflexivity|lia|lia| |exact HI0| |].
  - intros j f Hj. unfold znth. cbn [Z.add]. destruct (Z.ltb_spec (Z.of_nat j) 0); [lia|]. rewrite Nat2Z.id. exact Hj.
  - unfold patch_msgs. symmetry. apply firstn_skipn.
  - intros En. apply (f_equal (@length pmsg)) in En. rewrite skipn_length in En. cbn [length] in En. lia.
Qed.

(* ------------------------------------------------------------------ C. grammar and typed decoding *)

Lemma grun_app a : forall x b, grun x (a ++ b) = match grun x a with Some x' => grun x' b | None => None end.
Proof.
  induction a as [|m a IH]; intros x b; cbn [app grun]; [reflexivity|].
  destruct (gstep x m); [apply IH|reflexivity].
Qed.

Lemma grun_firstn ms : forall x k, grun x ms <> None -> grun x (firstn k ms) <> None.
Proof.
  induction ms as [|m ms IH]; intros x k H; destruct k; cbn [firstn grun] in *; try discriminate.
  destruct (gstep x m); [apply IH; exact H|exact H].
Qed.

Lemma grun_ops ops : grun XSyncOp (map op_msg ops) = Some XSyncOp.
Proof.
  induction ops as [|o ops IH]; [reflexivity|].
  cbn [map grun]. destruct o; cbn [op_msg gstep so_type]; exact IH.
Qed.

Lemma grun_series differ oldC i f : grun XSyncHeader (file_series differ oldC i f) = Some XSyncHeader.
Proof.
  unfold file_series. cbn [grun gstep sh_type]. change (SH_RSYNC =? SH_BSDIFF) with false. cbn iota.
  rewrite grun_app, grun_ops. reflexivity.
Qed.

Lemma grun_all_series differ oldC fs : forall i, grun XSyncHeader (all_series differ oldC i fs) = Some XSyncHeader.
Proof.
  induction fs as [|f fs IH]; intros i; cbn [all_series]; [reflexivity|].
  rewrite grun_app, grun_series. apply IH.
Qed.

(** what WritePatch writes follows the grammar *)
Lemma patch_msgs_grammar differ old new : grammar_ok (patch_msgs differ old new).
Proof. unfold grammar_ok, patch_msgs. rewrite grun_all_series. discriminate. Qed.

Lemma WOk_inj a b : WOk a = WOk b -> a = b.
Proof. intros H. injection H as H. exact H. Qed.

Section Decode.
  Variable C : patch_codecs.
  Hypothesis RT : codecs_roundtrip C.

  Lemma decode_one_gstep x m x' : gstep x m = Some x' -> decode_one C x (marshal_pmsg C m) = Some (m, x').
  Proof.
    destruct RT as (_ & _ & Hsh & Hso & Hbh & Hct).
    destruct x, m; cbn [gstep]; intros H; try discriminate H; cbn [decode_one marshal_pmsg];
      rewrite ?Hsh, ?Hso, ?Hbh, ?Hct; injection H as <-; reflexivity.
  Qed.

  (** typed decoding inverts typed marshalling on every list that follows the grammar *)
  Lemma decode_msgs_grun ms : forall x, grun x ms <> None -> decode_msgs C x (map (marshal_pmsg C) ms) = ms.
  Proof.
    induction ms as [|m ms IH]; intros x H; [reflexivity|]. cbn [grun] in H. cbn [map decode_msgs].
    destruct (gstep x m) as [x'|] eqn:E; [|contradiction H; reflexivity].
    rewrite (decode_one_gstep x m x' E). f_equal. apply IH. exact H.
  Qed.

  (** ... and so on every prefix of the frames behind the decompressor *)
  Lemma decode_frames_firstn t s ms k :
    grammar_ok ms ->
    decode_frames C (map (marshal_frame C) (firstn k (FContainer t :: FContainer s :: map FMsg ms)))
    = firstn k (FContainer t :: FContainer s :: map FMsg ms).
  Proof.
    intros G. destruct RT as (_ & Htc & _).
    destruct k as [|[|k]]; cbn [firstn map decode_frames marshal_frame]; rewrite ?Htc; try reflexivity.
    rewrite firstn_map, map_map.
    change (map (fun x => marshal_frame C (FMsg x)) (firstn k ms)) with (map (marshal_pmsg C) (firstn k ms)).
    rewrite decode_msgs_grun by (apply grun_firstn; exact G). reflexivity.
  Qed.

  Lemma decode_frames_all t s ms :
    grammar_ok ms ->
    decode_frames C (map (marshal_frame C) (FContainer t :: FContainer s :: map FMsg ms))
    = FContainer t :: FContainer s :: map FMsg ms.
  Proof.
    intros G. pose proof (decode_frames_firstn t s ms (length (FContainer t :: FContainer s :: map FMsg ms)) G) as H.
    rewrite firstn_all in H. exact H.
  Qed.

  (* ---------------------------------------------------------------- D. bytes *)

  (** C13's framing moves the bodies: the typed writer is the body writer after marshalling *)
  Lemma stream_bodies (fs : list pframe) :
    stream (marshal_frame C) fs = stream (fun b : list byte => b) (map (marshal_frame C) fs).
  Proof. unfold stream. rewrite map_id. reflexivity. Qed.

  Lemma bodies_fit_msgs fs : bodies_fit C fs -> Forall (fits_msg (fun b : list byte => b)) (map (marshal_frame C) fs).
  Proof. intros H. apply Forall_map. exact H. Qed.

  Lemma patch_file_ok a q rest :
    bodies_fit C (FHeader a q :: rest) ->
    patch_file C a q rest =
    WOk (magic_enc PATCH_MAGIC ++ wire_frame (marshal_ph C (a, q)) ++ compress_wire C a q (stream (marshal_frame C) rest)).
  Proof.
    intros Hf. inversion Hf as [|? ? Hh Hr]; subst. unfold patch_file, write_stream.
    rewrite (write_msgs_ok (marshal_frame C) [FHeader a q]) by (constructor; [exact Hh|constructor]).
    rewrite (write_msgs_ok (marshal_frame C) rest) by exact Hr.
    unfold stream at 1. cbn [map concat marshal_frame]. rewrite app_nil_r. reflexivity.
  Qed.

  Lemma read_bodies_unfold a cap z :
    read_bodies C a cap z =
    match decompress_wire C a z with
    | Some s => read_msgs (fun b : list byte => Some b) cap s
    | None => ([], EUnexpectedEOF)
    end.
  Proof. reflexivity. Qed.

  (** magic and header in place: what remains is the compressed part *)
  Lemma read_patch_bytes_cut3 cap a q p2 :
    (N.of_nat (length (marshal_ph C (a, q))) < 2 ^ 56)%N ->
    read_patch_bytes C cap (magic_enc PATCH_MAGIC ++ wire_frame (marshal_ph C (a, q)) ++ p2) =
    let '(bodies, e) := read_bodies C a cap p2 in (FHeader a q :: decode_frames C bodies, e).
  Proof.
    intros Hh. destruct RT as (Hph & _). unfold read_patch_bytes.
    rewrite expect_magic_enc by (unfold PATCH_MAGIC; lia). rewrite Z.eqb_refl.
    rewrite (read_one_frame (marshal_ph C) (unmarshal_ph C) Hph cap (a, q) p2) by (apply fits_lt_63; exact Hh).
    reflexivity.
  Qed.

  Lemma decompress_compress_wire a q s :
    compression_roundtrips C a q -> decompress_wire C a (compress_wire C a q s) = Some s.
  Proof.
    intros [->|H]; unfold decompress_wire, compress_wire; [reflexivity|].
    destruct (a =? ALGO_NONE); [reflexivity|apply H].
  Qed.

  (** the complete file is read back as the frames that were written, then end of stream *)
  Lemma read_patch_bytes_full cap a q t s ms :
    grammar_ok ms -> compression_roundtrips C a q ->
    bodies_fit C (FHeader a q :: FContainer t :: FContainer s :: map FMsg ms) ->
    exists z, patch_file C a q (FContainer t :: FContainer s :: map FMsg ms) = WOk z /\
              read_patch_bytes C cap z = (FHeader a q :: FContainer t :: FContainer s :: map FMsg ms, EEOF).
  Proof.
    intros G HC Hf. eexists. split; [apply patch_file_ok; exact Hf|].
    inversion Hf as [|? ? Hh Hr]; subst.
    rewrite read_patch_bytes_cut3 by exact Hh.
    rewrite read_bodies_unfold, decompress_compress_wire by exact HC.
    rewrite stream_bodies.
    rewrite (read_msgs_stream (fun b : list byte => b) (fun b => Some b) (fun b => eq_refl)) by (apply bodies_fit_msgs; exact Hr).
    rewrite decode_frames_all by exact G. reflexivity.
  Qed.

  (** where a cut of [magic ++ header ++ compressed] can fall *)
  Lemma cut_cases (m h zc p q : list byte) :
    m ++ h ++ zc = p ++ q -> q <> [] ->
    (exists l, l <> [] /\ m = p ++ l) \/
    (exists p1 l, l <> [] /\ p = m ++ p1 /\ h = p1 ++ l) \/
    (exists p2, p = m ++ h ++ p2 /\ zc = p2 ++ q).
  Proof.
    intros E Hq. apply app_eq_app in E. destruct E as (l & [[E1 E2]|[E1 E2]]).
    - destruct l as [|x l].
      + rewrite app_nil_r in E1. subst p. cbn [app] in E2. destruct h as [|y h].
        * right. right. exists []. cbn [app] in *. split; [rewrite app_nil_r; reflexivity|symmetry; exact E2].
        * right. left. exists [], (y :: h). split; [discriminate|]. split; [rewrite app_nil_r; reflexivity|reflexivity].
      + left. exists (x :: l). split; [discriminate|exact E1].
    - apply app_eq_app in E2. destruct E2 as (l2 & [[F1 F2]|[F1 F2]]).
      + destruct l2 as [|x l2].
        * right. right. exists []. rewrite app_nil_r in F1. cbn [app] in F2. rewrite app_nil_r.
          split; [rewrite E1, F1; reflexivity|cbn [app]; symmetry; exact F2].
        * right. left. exists l, (x :: l2). split; [discriminate|]. split; assumption.
      + right. right. exists l2. split; [rewrite E1, F1; reflexivity|exact F2].
  Qed.

  Lemma read_cut_in_magic cap p l :
    l <> [] -> magic_enc PATCH_MAGIC = p ++ l ->
    exists e, read_patch_bytes C cap p = ([], e) /\ (e = EEOF \/ e = EUnexpectedEOF).
  Proof.
    intros Hl E. unfold read_patch_bytes.
    destruct p as [|b0 [|b1 [|b2 [|b3 p]]]]; cbn [expect_magic]; try (eexists; split; [reflexivity|auto]).
    exfalso. unfold magic_enc, le32 in E. cbn [app] in E. injection E as _ _ _ _ E.
    symmetry in E. apply app_eq_nil in E. destruct E as [_ ->]. contradiction.
  Qed.

  Lemma read_cut_in_header cap a q p1 l :
    (N.of_nat (length (marshal_ph C (a, q))) < 2 ^ 56)%N ->
    l <> [] -> wire_frame (marshal_ph C (a, q)) = p1 ++ l ->
    exists e, read_patch_bytes C cap (magic_enc PATCH_MAGIC ++ p1) = ([], e) /\ (e = EEOF \/ e = EUnexpectedEOF).
  Proof.
    intros Hh Hl E. unfold read_patch_bytes.
    rewrite expect_magic_enc by (unfold PATCH_MAGIC; lia). rewrite Z.eqb_refl.
    destruct (read_one_truncated_frame (unmarshal_ph C) cap (marshal_ph C (a, q)) p1 l Hh E Hl)
      as (e & c & rest & cap' & Er & He).
    rewrite Er. exists e. split; [reflexivity|exact He].
  Qed.

  (** a cut patch file: the reader obtains a prefix of the written frames (what the framing
      and the typed decoding deliver before the stream ends), a proper one when the
      decompressor does not deliver everything *)
  Lemma read_patch_bytes_truncated cap a q t s ms p qq :
    grammar_ok ms -> truncation_prefix C a q ->
    bodies_fit C (FHeader a q :: FContainer t :: FContainer s :: map FMsg ms) ->
    patch_file C a q (FContainer t :: FContainer s :: map FMsg ms) = WOk (p ++ qq) -> qq <> [] ->
    exists k e, read_patch_bytes C cap p = (firstn k (FHeader a q :: FContainer t :: FContainer s :: map FMsg ms), e) /\
                (e = EEOF \/ e = EUnexpectedEOF) /\
                (truncation_detected C a q -> (k < length (FHeader a q :: FContainer t :: FContainer s :: map FMsg ms))%nat).
  Proof.
    intros G HT Hf Hw Hqq. rewrite (patch_file_ok a q _ Hf) in Hw. apply WOk_inj in Hw.
    inversion Hf as [|? ? Hh Hr]; subst.
    set (rest := FContainer t :: FContainer s :: map FMsg ms) in *.
    destruct (cut_cases _ _ _ _ _ Hw Hqq) as [(l & Hl & E)|[(p1 & l & Hl & -> & E)|(p2 & -> & E)]].
    - destruct (read_cut_in_magic cap p l Hl E) as (e & Er & He).
      exists 0%nat, e. split; [exact Er|]. split; [exact He|]. intros _. cbn [length]. lia.
    - destruct (read_cut_in_header cap a q p1 l Hh Hl E) as (e & Er & He).
      exists 0%nat, e. split; [exact Er|]. split; [exact He|]. intros _. cbn [length]. lia.
    - rewrite read_patch_bytes_cut3 by exact Hh. rewrite read_bodies_unfold.
      pose proof (bodies_fit_msgs rest Hr) as Hfit.
      (* what the decompressor delivers from the cut compressed part *)
      assert (Hdel : decompress_wire C a p2 = None \/
                     exists s' r, decompress_wire C a p2 = Some s' /\ stream (marshal_frame C) rest = s' ++ r /\
                                  (r = [] -> ~ truncation_detected C a q)).
      { unfold decompress_wire, compress_wire in *. destruct (Z.eqb_spec a ALGO_NONE) as [Ea|Ea].
        - right. exists p2, qq. split; [reflexivity|]. split; [exact E|]. intros ->. contradiction.
        - destruct HT as [Ea'|HT]; [contradiction|].
          destruct (HT _ _ _ E Hqq) as [Hn|(s' & r & Hs & Hsr)]; [left; exact Hn|].
          right. exists s', r. split; [exact Hs|]. split; [exact Hsr|].
          intros -> [Ea'|HD]; [contradiction|].
          destruct (HD _ _ _ E Hqq) as [Hn|(s'' & r'' & Hs'' & Hsr'' & Hr'')]; [rewrite Hs in Hn; discriminate|].
          rewrite Hs in Hs''. injection Hs'' as <-. rewrite Hsr in Hsr''. apply app_inv_head in Hsr''.
          symmetry in Hsr''. contradiction. }
      destruct Hdel as [Hn|(s' & r & Hs & Hsr & Hrd)].
      + rewrite Hn. exists 1%nat, EUnexpectedEOF. split; [reflexivity|]. split; [right; reflexivity|].
        intros _. subst rest. cbn [length]. lia.
      + rewrite Hs. rewrite stream_bodies in Hsr. destruct r as [|x r].
        * (* everything was delivered *)
          rewrite app_nil_r in Hsr. subst s'.
          rewrite (read_msgs_stream (fun b : list byte => b) (fun b => Some b) (fun b => eq_refl)) by exact Hfit.
          unfold rest at 1. rewrite decode_frames_all by exact G.
          exists (length (FHeader a q :: rest)), EEOF. rewrite firstn_all. split; [reflexivity|]. split; [left; reflexivity|].
          intros HD. exfalso. apply (Hrd eq_refl HD).
        * destruct (truncated_stream_lemma (fun b : list byte => b) (fun b => Some b) (fun b => eq_refl)
                      (map (marshal_frame C) rest) cap s' (x :: r) Hfit Hsr ltac:(discriminate))
            as (k & e & Er & Hk & He).
          rewrite Er. rewrite map_length in Hk.
          exists (S k), e. cbn [firstn]. rewrite firstn_map. subst rest.
          rewrite decode_frames_firstn by exact G.
          split; [reflexivity|]. split; [exact He|]. intros _. cbn [length] in *. lia.
  Qed.
End Decode.

(* ------------------------------------------------------------------ E. the theorems *)

Lemma write_patch_frames differ algo quality old new :
  write_patch differ algo quality old new =
  FHeader algo quality :: FContainer (container_of old) :: FContainer (container_of new) :: map FMsg (patch_msgs differ old new).
Proof. reflexivity. Qed.

(** the bytes WritePatch writes are read back as the frames [Stream.write_patch] lists *)
Lemma patch_bytes_roundtrip (C : patch_codecs) differ algo quality old new cap :
  codecs_roundtrip C -> compression_roundtrips C algo quality ->
  bodies_fit C (write_patch differ algo quality old new) ->
  exists z, patch_bytes C differ algo quality old new = WOk z /\
            read_patch_bytes C cap z = (write_patch differ algo quality old new, EEOF).
Proof.
  intros RT HC Hf. rewrite write_patch_frames in *. unfold patch_bytes.
  apply (read_patch_bytes_full C RT); [apply patch_msgs_grammar|exact HC|exact Hf].
Qed.

(** C01 on bytes, abstract differ *)
Theorem diff_apply_fresh_bytes_abstract_lemma :
  forall (C : patch_codecs), codecs_roundtrip C ->
  forall (bs : Z) (differ : Z -> list byte -> list op) (old new : build) (algo quality : Z) (cap : N),
    0 < bs -> wf_build new -> fits63 old -> fits63 new -> diff_ok bs (contents_of old) differ ->
    compression_roundtrips C algo quality ->
    bodies_fit C (write_patch differ algo quality old new) ->
    exists z t touched trace,
      patch_bytes C differ algo quality old new = WOk z /\
      read_patch_bytes C cap z = (write_patch differ algo quality old new, EEOF) /\
      apply_patch_bytes C bs (contents_of old) None cap z = Ok (t, touched, trace) /\
      touched = Z.of_nat (length (files_of new)) /\
      forall p, tlookup t p = tlookup new p.
Proof.
  intros C RT bs differ old new algo quality cap Hbs WFN FO FN DOK HC Hf.
  destruct (patch_bytes_roundtrip C differ algo quality old new cap RT HC Hf) as (z & Hw & Hr).
  destruct (diff_apply_fresh_lemma bs differ old new algo quality Hbs WFN FO FN DOK) as (t & touched & trace & Ha & Ht & Hl).
  exists z, t, touched, trace. split; [exact Hw|]. split; [exact Hr|].
  unfold apply_patch_bytes. rewrite Hr. cbn [fst]. split; [exact Ha|]. split; assumption.
Qed.

(** C01 on bytes, end to end (C11's differ) *)
Theorem diff_apply_fresh_bytes_lemma :
  forall (C : patch_codecs), codecs_roundtrip C ->
  forall (H : Type) (shash : list N -> H) (heqb : H -> H -> bool)
         (bs : Z) (maxData : N) (old new : build) (algo quality : Z) (cap : N),
    0 < bs -> (0 < maxData)%N -> (forall x y, heqb x y = true -> x = y) ->
    Forall (fun data => Wsync.Spec.strong_injective shash (Z.to_N bs) (contents_of old) data) (contents_of new) ->
    wf_build new -> fits63 old -> fits63 new ->
    compression_roundtrips C algo quality ->
    bodies_fit C (write_patch (real_differ shash heqb bs maxData (contents_of old)) algo quality old new) ->
    exists z t touched trace,
      patch_bytes C (real_differ shash heqb bs maxData (contents_of old)) algo quality old new = WOk z /\
      read_patch_bytes C cap z = (write_patch (real_differ shash heqb bs maxData (contents_of old)) algo quality old new, EEOF) /\
      apply_patch_bytes C bs (contents_of old) None cap z = Ok (t, touched, trace) /\
      touched = Z.of_nat (length (files_of new)) /\
      forall p, tlookup t p = tlookup new p.
Proof.
  intros C RT H shash heqb bs maxData old new algo quality cap Hbs Hmax Hsound Hinj WFN FO FN HC Hf.
  destruct (patch_bytes_roundtrip C _ algo quality old new cap RT HC Hf) as (z & Hw & Hr).
  destruct (diff_apply_fresh_end_to_end_lemma H shash heqb bs maxData old new algo quality Hbs Hmax Hsound Hinj WFN FO FN)
    as (t & touched & trace & Ha & Ht & Hl).
  exists z, t, touched, trace. split; [exact Hw|]. split; [exact Hr|].
  unfold apply_patch_bytes. rewrite Hr. cbn [fst]. split; [exact Ha|]. split; assumption.
Qed.

(** a cut patch file, abstract differ: a prefix of the frames is read; the patcher returns
    [Err], unless the decompressor delivered everything, in which case the result is that of
    the whole file *)
Theorem truncated_patch_abstract_lemma :
  forall (C : patch_codecs), codecs_roundtrip C ->
  forall (bs : Z) (differ : Z -> list byte -> list op) (old new : build) (algo quality : Z) (cap : N) (p q : list byte),
    0 < bs -> wf_build new -> fits63 old -> fits63 new -> diff_ok bs (contents_of old) differ ->
    truncation_prefix C algo quality ->
    bodies_fit C (write_patch differ algo quality old new) ->
    patch_bytes C differ algo quality old new = WOk (p ++ q) -> q <> [] ->
    exists k e,
      read_patch_bytes C cap p = (firstn k (write_patch differ algo quality old new), e) /\
      (e = EEOF \/ e = EUnexpectedEOF) /\
      (apply_patch_bytes C bs (contents_of old) None cap p = Err \/
       (exists t touched trace, apply_patch_bytes C bs (contents_of old) None cap p = Ok (t, touched, trace) /\
                                forall x, tlookup t x = tlookup new x)) /\
      (truncation_detected C algo quality ->
       (k < length (write_patch differ algo quality old new))%nat /\
       apply_patch_bytes C bs (contents_of old) None cap p = Err).
Proof.
  intros C RT bs differ old new algo quality cap p q Hbs WFN FO FN DOK HT Hf Hw Hq.
  unfold patch_bytes in Hw. rewrite write_patch_frames in Hf.
  destruct (read_patch_bytes_truncated C RT cap algo quality _ _ _ p q (patch_msgs_grammar differ old new) HT Hf Hw Hq)
    as (k & e & Hr & He & Hk).
  rewrite <- write_patch_frames in *.
  exists k, e. split; [exact Hr|]. split; [exact He|].
  unfold apply_patch_bytes. rewrite Hr. cbn [fst].
  destruct (Nat.lt_ge_cases k (length (write_patch differ algo quality old new))) as [Hlt|Hge].
  - pose proof (apply_truncated_frames bs differ old new algo quality k Hbs WFN FO FN DOK Hlt) as HE.
    split; [left; exact HE|]. intros _. split; [exact Hlt|exact HE].
  - split.
    + right. rewrite firstn_all2 by exact Hge.
      destruct (diff_apply_fresh_lemma bs differ old new algo quality Hbs WFN FO FN DOK) as (t & touched & trace & Ha & _ & Hl).
      exists t, touched, trace. split; assumption.
    + intros HD. specialize (Hk HD). lia.
Qed.

Lemma patch_bytes_guarded (C : patch_codecs) differ algo quality old new :
  patch_bytes C (guarded (contents_of new) differ) algo quality old new = patch_bytes C differ algo quality old new.
Proof.
  unfold patch_bytes, patch_msgs. do 4 f_equal. apply all_series_guarded.
  intros f Hf. unfold contents_of. apply in_map. assumption.
Qed.

(** ... end to end *)
Theorem truncated_patch_lemma :
  forall (C : patch_codecs), codecs_roundtrip C ->
  forall (H : Type) (shash : list N -> H) (heqb : H -> H -> bool)
         (bs : Z) (maxData : N) (old new : build) (algo quality : Z) (cap : N) (p q : list byte),
    0 < bs -> (0 < maxData)%N -> (forall x y, heqb x y = true -> x = y) ->
    Forall (fun data => Wsync.Spec.strong_injective shash (Z.to_N bs) (contents_of old) data) (contents_of new) ->
    wf_build new -> fits63 old -> fits63 new ->
    truncation_prefix C algo quality ->
    bodies_fit C (write_patch (real_differ shash heqb bs maxData (contents_of old)) algo quality old new) ->
    patch_bytes C (real_differ shash heqb bs maxData (contents_of old)) algo quality old new = WOk (p ++ q) -> q <> [] ->
    exists k e,
      read_patch_bytes C cap p = (firstn k (write_patch (real_differ shash heqb bs maxData (contents_of old)) algo quality old new), e) /\
      (e = EEOF \/ e = EUnexpectedEOF) /\
      (apply_patch_bytes C bs (contents_of old) None cap p = Err \/
       (exists t touched trace, apply_patch_bytes C bs (contents_of old) None cap p = Ok (t, touched, trace) /\
                                forall x, tlookup t x = tlookup new x)) /\
      (truncation_detected C algo quality ->
       (k < length (write_patch (real_differ shash heqb bs maxData (contents_of old)) algo quality old new))%nat /\
       apply_patch_bytes C bs (contents_of old) None cap p = Err).
Proof.
  intros C RT H shash heqb bs maxData old new algo quality cap p q Hbs Hmax Hsound Hinj WFN FO FN HT Hf Hw Hq.
  rewrite <- (write_patch_guarded (real_differ shash heqb bs maxData (contents_of old)) algo quality old new) in *.
  rewrite <- (patch_bytes_guarded C (real_differ shash heqb bs maxData (contents_of old)) algo quality old new) in Hw.
  apply (truncated_patch_abstract_lemma C RT bs _ old new algo quality cap p q); try assumption.
  apply diff_ok_guarded. intros pref data Hin.
  apply real_differ_ok_at; try assumption.
  rewrite Forall_forall in Hinj. apply Hinj. assumption.
Qed.

Lemma truncation_detected_prefix (C : patch_codecs) algo quality :
  truncation_detected C algo quality -> truncation_prefix C algo quality.
Proof.
  intros [E|H]; [left; exact E|right]. intros s p q Ec Hq.
  destruct (H s p q Ec Hq) as [Hn|(s' & r & Hs & Hsr & _)]; [left; exact Hn|].
  right. exists s', r. split; assumption.
Qed.

(** uncompressed patches (the NONE setting) need no hypothesis about any decompressor *)
Lemma truncation_detected_none (C : patch_codecs) quality : truncation_detected C ALGO_NONE quality.
Proof. left. reflexivity. Qed.

(** when the decompressor notices the cut: the patcher returns an error, whatever the byte *)
Theorem truncated_patch_is_an_error_lemma :
  forall (C : patch_codecs), codecs_roundtrip C ->
  forall (H : Type) (shash : list N -> H) (heqb : H -> H -> bool)
         (bs : Z) (maxData : N) (old new : build) (algo quality : Z) (cap : N) (p q : list byte),
    0 < bs -> (0 < maxData)%N -> (forall x y, heqb x y = true -> x = y) ->
    Forall (fun data => Wsync.Spec.strong_injective shash (Z.to_N bs) (contents_of old) data) (contents_of new) ->
    wf_build new -> fits63 old -> fits63 new ->
    truncation_detected C algo quality ->
    bodies_fit C (write_patch (real_differ shash heqb bs maxData (contents_of old)) algo quality old new) ->
    patch_bytes C (real_differ shash heqb bs maxData (contents_of old)) algo quality old new = WOk (p ++ q) -> q <> [] ->
    apply_patch_bytes C bs (contents_of old) None cap p = Err.
Proof.
  intros C RT H shash heqb bs maxData old new algo quality cap p q Hbs Hmax Hsound Hinj WFN FO FN HD Hf Hw Hq.
  destruct (truncated_patch_lemma C RT H shash heqb bs maxData old new algo quality cap p q Hbs Hmax Hsound Hinj WFN FO FN
              (truncation_detected_prefix C algo quality HD) Hf Hw Hq) as (k & e & _ & _ & _ & Hk).
  exact (proj2 (Hk HD)).
Qed.
