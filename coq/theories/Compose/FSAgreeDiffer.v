(** Inputs on which the three filesystem models do NOT agree, as executed witnesses, and a few
    on which one might expect a difference but there is none.  They delimit the refinement
    theorems of [Compose/FSAgree{Mini,Zip}Proofs.v]: every hypothesis of those theorems is
    needed.  What the kernel / Go's os package really do on these inputs was observed with a
    small Go program (results in the comments; DESIGN.md section 5 "Filesystem").

    Genuine differences (no symbolic link involved, well-formed state, input accepted by both):
      1. [fsmini_rename_errno_differ]   errno of os.Rename when the old name is missing AND the
                                         new name lies below a regular file: FSmini ENOENT, general
                                         model ENOTDIR.  Linux: ENOTDIR.  FSmini is wrong (in the
                                         errno only: both fail and leave the tree alone).
      2. [zip_remove_all_differ]        os.RemoveAll of a path below a regular file: Arch/Zip
                                         succeeds (nothing to remove), general model ENOTDIR.
                                         Go/Linux: ENOTDIR.  Arch/Zip is wrong; the helpers that
                                         use it (Symlink, CopyFile) fail one call later, in
                                         MkdirAll, with the same tree ([zip_symlink_below_file_agree]).
      3. [zip_remove_dir_differ]        os.Remove of an empty directory: Arch/Zip fails (by its
                                         own comment: "directory: error"), general model removes
                                         it.  Go/Linux: removed.  Arch/Zip is wrong outside
                                         archiver.Mkdir's use (Remove only after Lstat saw a
                                         non-directory).
    Differences by design (documented in the small models):
      4. the empty relative path = the target directory itself ([fsmini_root_differ],
         [zip_root_differ]): not an input of either small model;
      5. a link strictly above the path: FSmini declines, Arch/Zip answers "error", the general
         model follows the link ([zip_link_above_differ]);
      6. association lists that are not trees ([fsmini_nonwf_differ]). *)
From Wharf Require Import FS.Light.
From Wharf Require Import Compose.FSAgree.
Local Open Scope N_scope.

Notation mt := (mini_tree enc_std ldest_std).
Notation mp := (mini_path enc_std).

(* ------------------------------------------------------------------ 1 *)
Example fsmini_rename_errno_differ :
  let t := [([Mi.P 2], Mi.File [7])] in
  let src := [Mi.P 1] in let dst := [Mi.P 2; Mi.P 1] in
  mini_wfb t = true /\
  Mi.rename t src dst = Mi.Err Mi.ENOENT /\
  Go.rename (mt t) (mp src) (mp dst) = Go.Err Go.ENOTDIR /\
  mini_rename_precedence_ok t src dst = false.
Proof. vm_compute. repeat split. Qed.

(* ------------------------------------------------------------------ 2 *)
Example zip_remove_all_differ :
  let f := [([2], Zi.File [7])] in
  zip_wfb f = true /\ zip_link_above f [2; 1] = false /\ zip_file_above f [2; 1] = true /\
  Zi.fs_remove_all [2; 1] f = Some f /\
  Go.remove_all (zip_tree f) [2; 1] = Go.Err Go.ENOTDIR.
Proof. vm_compute. repeat split. Qed.

(** ... and the helper built on it still agrees: both fail, same tree *)
Example zip_symlink_below_file_agree :
  let f := [([2], Zi.File [7])] in
  zip_symlink [2; 1] [9] f = (false, f) /\
  gen_symlink [2; 1] [Gt.Nm 9] (zip_tree f) = (Some Go.ENOTDIR, zip_tree f).
Proof. vm_compute. repeat split. Qed.

(* ------------------------------------------------------------------ 3 *)
Example zip_remove_dir_differ :
  let f := [([2], Zi.Dir)] in
  zip_wfb f = true /\
  Zi.fs_remove [2] f = None /\
  Go.remove (zip_tree f) [2] = Go.Ok [].
Proof. vm_compute. repeat split. Qed.

(* ------------------------------------------------------------------ 4 *)
(** Linux on the target directory itself: Lstat ok (a directory), Remove EBUSY/ENOTEMPTY...,
    Symlink EEXIST, open(O_CREATE|O_TRUNC|O_WRONLY) EISDIR, MkdirAll ok *)
Example fsmini_root_differ :
  Mi.lstat [] [] = Mi.Err Mi.ENOENT /\ Go.lstat [] [] = Go.Ok Gt.Dir /\
  Mi.symlink [] 5 [] = Mi.Ok [([], Mi.Link 5)] /\ Go.symlink [] [Gt.Nm 5] [] = Go.Err Go.EEXIST /\
  Mi.create_trunc [] [] [9] = Mi.Ok [([], Mi.File [9])] /\ gen_create [] [] [9] = Go.Err Go.EISDIR /\
  Mi.remove [] [] = Mi.Err Mi.ENOENT /\ Go.remove [] [] = Go.Err Go.EBUSY /\
  Mi.remove_all [] [] = Mi.Ok [] /\ Go.remove_all [] [] = Go.Err Go.EINVAL /\
  Mi.mkdir_all [] [] = Mi.Ok [] /\ Go.mkdir_all [] [] = Go.Ok [].
Proof. vm_compute. repeat split. Qed.

Example zip_root_differ :
  let f := [([2], Zi.File [7])] in
  Zi.fs_remove_all [] f = Some [] /\ Go.remove_all (zip_tree f) [] = Go.Err Go.EINVAL /\
  Zi.fs_symlink [] [9] f = Some (([], Zi.Link [9]) :: f) /\ Go.symlink (zip_tree f) [Gt.Nm 9] [] = Go.Err Go.EEXIST /\
  Zi.lookup f [] = None /\ Go.lstat (zip_tree f) [] = Go.Ok Gt.Dir.
Proof. vm_compute. repeat split. Qed.

(* ------------------------------------------------------------------ 5 *)
(** [2] is a link to the directory [1]: MkdirAll(2/3) creates 1/3 on Linux *)
Example zip_link_above_differ :
  let f := [([1], Zi.Dir); ([2], Zi.Link [1])] in
  zip_wfb f = true /\ zip_link_above f [2; 3] = true /\
  Zi.fs_mkdir_all [2; 3] f = None /\
  Go.mkdir_all (zip_tree f) [2; 3] = Go.Ok (([1; 3], Gt.Dir) :: zip_tree f).
Proof. vm_compute. repeat split. Qed.

Example fsmini_link_above_declines :
  let t := [([Mi.P 1], Mi.Dir); ([Mi.P 2], Mi.Link 2)] in
  Mi.mkdir_all t [Mi.P 2; Mi.P 3] = Mi.Unmodelled /\ Mi.lstat t [Mi.P 2; Mi.P 3] = Mi.Unmodelled.
Proof. vm_compute. repeat split. Qed.

(* ------------------------------------------------------------------ 6 *)
(** an entry below nothing: RemoveAll of the missing parent *)
Example fsmini_nonwf_differ :
  let t := [([Mi.P 1; Mi.P 2], Mi.File [7])] in
  mini_wfb t = false /\
  Mi.remove_all t [Mi.P 1] = Mi.Ok t /\
  Go.remove_all (mt t) (mp [Mi.P 1]) = Go.Ok [].
Proof. vm_compute. repeat split. Qed.

(* ------------------------------------------------------------------ no difference *)
(** Inputs on which the models might be suspected to differ and do not (Linux agrees with
    both): os.Rename onto an existing empty directory (EEXIST, Go's own check), of a directory
    into itself (EINVAL), of a directory onto a file (ENOTDIR), onto one of its ancestors (EEXIST:
    the ancestor is a directory), Remove of a non-empty directory (ENOTEMPTY), MkdirAll over and
    below a regular file (ENOTDIR; plain mkdir(2) would say EEXIST). *)
Example fsmini_suspected_cases_agree :
  let t := [([Mi.P 1], Mi.Dir); ([Mi.P 1; Mi.P 4], Mi.Dir); ([Mi.P 2], Mi.Dir); ([Mi.P 3], Mi.File [7])] in
  let T := mt t in
  mini_wfb t = true /\
  Mi.rename t [Mi.P 1] [Mi.P 2] = Mi.Err Mi.EEXIST /\ Go.rename T (mp [Mi.P 1]) (mp [Mi.P 2]) = Go.Err Go.EEXIST /\
  Mi.rename t [Mi.P 1] [Mi.P 1; Mi.P 5] = Mi.Err Mi.EINVAL /\ Go.rename T (mp [Mi.P 1]) (mp [Mi.P 1; Mi.P 5]) = Go.Err Go.EINVAL /\
  Mi.rename t [Mi.P 1] [Mi.P 3] = Mi.Err Mi.ENOTDIR /\ Go.rename T (mp [Mi.P 1]) (mp [Mi.P 3]) = Go.Err Go.ENOTDIR /\
  Mi.rename t [Mi.P 1; Mi.P 4] [Mi.P 1] = Mi.Err Mi.EEXIST /\ Go.rename T (mp [Mi.P 1; Mi.P 4]) (mp [Mi.P 1]) = Go.Err Go.EEXIST /\
  Mi.rename t [Mi.P 3] [Mi.P 2] = Mi.Err Mi.EEXIST /\ Go.rename T (mp [Mi.P 3]) (mp [Mi.P 2]) = Go.Err Go.EEXIST /\
  Mi.remove t [Mi.P 1] = Mi.Err Mi.ENOTEMPTY /\ Go.remove T (mp [Mi.P 1]) = Go.Err Go.ENOTEMPTY /\
  Mi.mkdir_all t [Mi.P 3] = Mi.Err Mi.ENOTDIR /\ Go.mkdir_all T (mp [Mi.P 3]) = Go.Err Go.ENOTDIR /\
  Mi.mkdir_all t [Mi.P 3; Mi.P 6] = Mi.Err Mi.ENOTDIR /\ Go.mkdir_all T (mp [Mi.P 3; Mi.P 6]) = Go.Err Go.ENOTDIR /\
  Go.mkdir T (mp [Mi.P 3]) = Go.Err Go.EEXIST.
Proof. vm_compute. repeat split. Qed.

(* ------------------------------------------------------------------ the summary theorems are not vacuous *)

(** a commit-like sequence with a temporary name: park b under b.butler-rename-0, move a to b,
    make a directory, write a file in it, link, read back, clean up *)
Definition mini_demo_tree : Mi.fs :=
  [([Mi.P 1], Mi.File [1; 2]); ([Mi.P 2], Mi.File [3]); ([Mi.P 3], Mi.Dir); ([Mi.P 3; Mi.P 4], Mi.Link 8)].

Definition mini_demo_ops : list mini_op :=
  [ORename [Mi.P 2] [Mi.R (Mi.P 2) 0]; ORename [Mi.P 1] [Mi.P 2]; OLstat [Mi.P 1];
   OMkdirAll [Mi.P 5; Mi.P 6]; OCreate [Mi.P 5; Mi.P 6; Mi.P 7] [9; 9]; ORead [Mi.P 5; Mi.P 6; Mi.P 7];
   OSymlink 4 [Mi.P 5; Mi.P 8]; OReadlink [Mi.P 3; Mi.P 4]; ORename [Mi.P 3] [Mi.P 5; Mi.P 6; Mi.P 3];
   ORemove [Mi.P 5]; ORemove [Mi.R (Mi.P 2) 0]; ORename [Mi.P 5] [Mi.P 5; Mi.P 6; Mi.P 1];
   OOpenExisting [Mi.P 2]; ORemoveAll [Mi.P 5; Mi.P 6]; ORemoveAll [Mi.P 9; Mi.P 9]; ORename [Mi.P 9] [Mi.P 7; Mi.P 1]].

Example fsmini_refines_fs_instance :
  mini_wfb mini_demo_tree = true /\
  mini_ops_ok mini_demo_tree mini_demo_ops = true /\
  exists outs t',
    mini_run ldest_std mini_demo_tree mini_demo_ops = Some (outs, t') /\
    fst (gen_run enc_std ldest_std (mt mini_demo_tree) mini_demo_ops) = outs /\
    Gt.tree_eqb (mt t') (snd (gen_run enc_std ldest_std (mt mini_demo_tree) mini_demo_ops)) = true /\
    map fst outs = [None; None; Some Go.ENOENT; None; None; None; None; None; None; Some Go.ENOTEMPTY; None;
                    Some Go.EINVAL; None; None; None; Some Go.ENOENT].
Proof. split; [vm_compute; reflexivity|]. split; [vm_compute; reflexivity|]. eexists. eexists. vm_compute. repeat split. Qed.

Definition zip_demo_tree : Zi.fs := [([1], Zi.File [5]); ([2], Zi.Dir); ([2; 3], Zi.Link [1]); ([4], Zi.Link [2])].

Definition zip_demo_calls : list zip_call :=
  [CMkdir [1]; CCopyFile [1; 2] [[7; 8]; []; [9]]; CSymlink [2] [1]; CMkdir [1; 5]; CCopyFile [1; 2; 6] [[1]];
   CSymlink [4] [9; 9]; CCopyFile [6] []; CMkdir [6; 7; 8]; CSymlink [1; 2; 3] [7]].

Example zipfs_refines_fs_instance :
  zip_wfb zip_demo_tree = true /\
  zip_calls_ok zip_demo_tree zip_demo_calls = true /\
  fst (zip_calls zip_demo_tree zip_demo_calls) = map errno_is_none (fst (gen_calls (zip_tree zip_demo_tree) zip_demo_calls)) /\
  Gt.tree_eqb (zip_tree (snd (zip_calls zip_demo_tree zip_demo_calls))) (snd (gen_calls (zip_tree zip_demo_tree) zip_demo_calls)) = true /\
  fst (zip_calls zip_demo_tree zip_demo_calls) = [true; true; true; true; false; true; true; false; false].
Proof. vm_compute. repeat split. Qed.
