(** C01 and C10 are two models of pwr/patcher (Resume loop, processRsync, processBsdiff,
    wsync.ApplySingleFull, bsdiff Apply).  Patch/Patcher.v (C01) is concrete: frames carry bytes
    (Patch/Reinterp.v), the output is a tree, the arithmetic is unbounded [Z].  Patch/Malformed.v
    (C10) is abstract: frames carry field NUMBERS, varint VALUES and payload LENGTHS only, the
    output is a byte counter, the arithmetic is int64 ([wrap64]) and the file system refuses
    offsets above [maxoff].

    This file defines how a C01 frame list is seen by the C10 model (the payload of every
    length-delimited field is replaced by its length), the outcome classes that are compared and
    the (only) hypotheses under which the two relay loops can be compared: the offset
    [blockSize * BlockIndex] a block-range op seeks to fits int64 and the file system's limit -
    C01 does not model the overflow ("Not modelled: int64 overflow of offsets" in its header).
    Definitions only; proofs in Compose/ModelsAgreeMalformedProofs.v. *)
From Wharf Require Import Base.Prelude Bowl.Fresh Patch.Reinterp Patch.Stream Patch.Patcher.
From Wharf Require Export Compose.ModelsAgreeResume.
From Wharf Require Patch.Malformed.
Local Open Scope Z_scope.

Module M := Wharf.Patch.Malformed.

(** ---- frames ---- *)

Definition fld (f : wfield) : M.field :=
  match f with
  | (n, WVarint u) => (n, M.V u)
  | (n, WBytes b) => (n, M.L (Z.of_nat (length b)))
  end.

(** a frame of a C01 patch as the C10 model reads it *)
Definition frame_of (m : pmsg) : M.frame := M.G (map fld (fields_of m)).
Definition stream_of (ms : list pmsg) : M.stream := map frame_of ms.

(** the typed messages, payloads replaced by their lengths *)
Definition len_sh (h : sync_header) : M.syncheader := M.mkSH (sh_type h) (sh_file h).
Definition len_so (o : sync_op) : M.syncop :=
  M.mkOp (so_type o) (so_file o) (so_block o) (so_span o) (Z.of_nat (length (so_data o))).
Definition len_ct (c : control) : M.control :=
  M.mkCtl (Z.of_nat (length (ct_add c))) (Z.of_nat (length (ct_copy c))) (ct_seek c) (ct_eof c).

(** the containers: C10 keeps the list of the file sizes *)
Definition sizes_of (c : container) : list Z := map snd (c_files c).

(** [aligned oldC olds] (Compose/ModelsAgreeResume.v): the pool serves files of the declared
    sizes ("a file-system pool whose files exist with the sizes of the container", header of
    Patch/Malformed.v) *)

(** ---- outcome classes ---- *)

(** a C01 loop that returns the unread messages, against a C10 loop that returns the unread
    stream: same class (ok | error | panic), and on ok the same position in the patch *)
Definition step_agrees {X : Type} (r : res (list pmsg * X)) (x : M.step M.stream) : Prop :=
  match r, x with
  | Ok (rest, _), M.Cont s => s = stream_of rest
  | Err, M.Stop M.Err => True
  | Panic, M.Stop (M.Panic _) => True
  | _, _ => False
  end.

Definition res_agrees {X : Type} (r : res X) (x : M.res) : Prop :=
  match r, x with
  | Ok _, M.Ok => True
  | Err, M.Err => True
  | Panic, M.Panic _ => True
  | _, _ => False
  end.

(** ---- what C01 does not model ---- *)

Definition i64 (z : Z) : Prop := - 2^63 <= z < 2^63.

(** [target.Seek(blockSize*op.BlockIndex)]: the product does not wrap and the file system lets
    the file seek there.  Needed for the outcome class. *)
Definition seek_fits (bs maxoff : Z) (o : sync_op) : Prop :=
  so_type o = T_BLOCK_RANGE -> i64 (bs * so_block o) /\ bs * so_block o <= maxoff.

(** [fixedSize], [lastIndex], [blockSize*(lastIndex+1)], [opSize] do not wrap.  Needed only for
    the NUMBER of bytes written (which no outcome of an rsync series depends on). *)
Definition size_fits (bs : Z) (o : sync_op) : Prop :=
  so_type o = T_BLOCK_RANGE ->
  i64 ((so_span o - 1) * bs) /\ i64 (so_block o + (so_span o - 1)) /\
  i64 (bs * (so_block o + (so_span o - 1) + 1)) /\ i64 ((so_span o - 1) * bs + bs).

(** the ops the relay loop applies: up to the end marker *)
Fixpoint relay_fits (bs maxoff : Z) (ms : list pmsg) : Prop :=
  match ms with
  | [] => True
  | m :: r => if so_type (as_so m) =? HEY then True
              else seek_fits bs maxoff (as_so m) /\ relay_fits bs maxoff r
  end.

(** processRsync: the first op, then the relay loop *)
Definition rsync_fits (bs maxoff : Z) (ms : list pmsg) : Prop :=
  match ms with
  | [] => True
  | m :: r => seek_fits bs maxoff (as_so m) /\ relay_fits bs maxoff r
  end.

(** the series of a whole patch, found the way the patcher finds them; [n] files left *)
Fixpoint run_fits (bs maxoff : Z) (whitelist : option (list Z)) (n : nat) (ms : list pmsg) : Prop :=
  match n with
  | O => True
  | S n' =>
    match ms with
    | [] => True
    | m :: r =>
      let sh := as_sh m in
      if negb ((sh_type sh =? SH_RSYNC) || (sh_type sh =? SH_BSDIFF)) then True
      else if wl_skip whitelist (sh_file sh) then
        match skip_file (sh_type sh) r with Ok r' => run_fits bs maxoff whitelist n' r' | _ => True end
      else if sh_type sh =? SH_RSYNC then
        rsync_fits bs maxoff r /\
        match skip_rsync r with Ok r' => run_fits bs maxoff whitelist n' r' | _ => True end
      else
        match skip_bsdiff r with Ok r' => run_fits bs maxoff whitelist n' r' | _ => True end
    end
  end.

(** an open entry writer whose path holds a regular file: [Write] cannot fail *)
Definition wfile (w : wst) : Prop := exists d, tlookup (p_tree (w_st w)) (w_path w) = Some (File d).
