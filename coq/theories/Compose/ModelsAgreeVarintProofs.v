(** Models that were transcribed more than once agree - part 3: uvarint.

    encoding/binary's [PutUvarint] / [ReadUvarint] are modelled by Wire/Uvarint.v
    [uvarint_enc] / [uvarint_read] (C13: the length prefix of every wire message) and again by
    Overlay/Codec.v [uvarint] / [get_uvarint] (C14: the executable overlay codec, both the
    length prefix and the proto3 varint fields).  Patch/Malformed.v (C10) has no byte-level
    varint: its frames are field lists that carry decoded varint VALUES ([V v]); that decoding
    table is compared with Patch/Reinterp.v in Compose/ModelsAgreeRelayProofs.v.

    Encoder: equal on every [uint64] (in fact below 2^70; beyond, C13's fuel of nine
    continuation bytes runs out - not a [uint64]).
    Decoder: equal whenever C13's reader does not report [errOverflow].  Difference found:
    Overlay/Codec.v has no overflow check - on a varint of more than ten bytes, or whose tenth
    byte is above 1, Go and the C13 model return an error where the C14 decoder returns a number
    ([uvarint_decoders_differ_on_overflow]).  C14 only decodes what its own writer produced, where
    this cannot happen; the C13 model is the faithful one.  Proofs only. *)
From Coq Require Import ZifyBool ZifyNat ZifyN.
From Wharf Require Import Base.Prelude.
From Wharf Require Wire.Uvarint Overlay.Codec.
Local Open Scope N_scope.
Ltac Zify.zify_post_hook ::= Z.div_mod_to_equations.

Module WU := Wharf.Wire.Uvarint.
Module OC := Wharf.Overlay.Codec.

(* ------------------------------------------------------------------ bit facts *)

(** [byte(x) | 0x80] is [128 + x mod 128] *)
Lemma cont_byte_small r : r < 256 -> N.lor r 128 = 128 + r mod 128.
Proof.
  intros Hr. destruct r as [|p]; [reflexivity|].
  do 8 (try destruct p as [p|p|]); try reflexivity; exfalso; lia.
Qed.

Lemma cont_byte x : N.lor (N.land x 255) 128 = 128 + x mod 128.
Proof.
  change 255 with (N.ones 8). rewrite N.land_ones.
  rewrite cont_byte_small by (apply N.mod_lt; discriminate).
  f_equal. change (2 ^ 8) with 256. lia.
Qed.

Lemma low_byte x : x < 128 -> N.land x 255 = x.
Proof. intros Hx. change 255 with (N.ones 8). rewrite N.land_ones. apply N.mod_small. change (2 ^ 8) with 256. lia. Qed.

(** [x | b << s] is [x + b << s] when [x] has no bit at or above [s] *)
Lemma land_shiftl_0 x b s : x < 2 ^ s -> N.land x (N.shiftl b s) = 0.
Proof.
  intros Hx. apply N.bits_inj. intros n. rewrite N.land_spec, N.bits_0.
  destruct (N.lt_ge_cases n s) as [Hlt|Hge].
  - rewrite N.shiftl_spec_low by assumption. apply andb_false_r.
  - destruct (N.eq_dec x 0) as [->|Hnz]; [rewrite N.bits_0; reflexivity|].
    rewrite (N.bits_above_log2 x n); [reflexivity|].
    apply N.lt_le_trans with s; [|assumption]. apply N.log2_lt_pow2; [lia|assumption].
Qed.

Lemma lor_shiftl_add x b s : x < 2 ^ s -> N.lor x (N.shiftl b s) = x + N.shiftl b s.
Proof.
  intros Hx. pose proof (land_shiftl_0 x b s Hx) as H0.
  rewrite (N.add_nocarry_lxor _ _ H0). symmetry. apply N.lxor_lor. exact H0.
Qed.

Lemma land_127 b : 128 <= b -> b < 256 -> N.land b 127 = b - 128.
Proof.
  intros Hlo Hhi. change 127 with (N.ones 7). rewrite N.land_ones. change (2 ^ 7) with 128.
  symmetry. apply (N.mod_unique _ _ 1); lia.
Qed.

(* ------------------------------------------------------------------ PutUvarint *)

Lemma pow128_S k : 128 ^ N.of_nat (S k) = 128 * 128 ^ N.of_nat k.
Proof. rewrite Nat2N.inj_succ, N.pow_succ_r'. reflexivity. Qed.

(** both loops, with any two fuels that suffice for [x] *)
Lemma enc_fuel_agree : forall f1 f2 x,
  x < 128 ^ N.of_nat (S f1) -> x < 128 ^ N.of_nat (S f2) ->
  WU.uvarint_enc_fuel f1 x = OC.uvarint_fuel f2 x.
Proof.
  induction f1 as [|f1 IH]; intros f2 x H1 H2.
  - change (128 ^ N.of_nat 1) with 128 in H1. cbn [WU.uvarint_enc_fuel]. rewrite low_byte by assumption.
    destruct f2 as [|f2]; cbn [OC.uvarint_fuel]; [reflexivity|].
    destruct (N.ltb_spec x 128); [reflexivity|lia].
  - cbn [WU.uvarint_enc_fuel].
    destruct (N.leb_spec 128 x) as [Hge|Hlt].
    + destruct f2 as [|f2]; [change (128 ^ N.of_nat 1) with 128 in H2; lia|].
      cbn [OC.uvarint_fuel]. destruct (N.ltb_spec x 128) as [Hc|_]; [lia|].
      rewrite cont_byte. f_equal.
      rewrite N.shiftr_div_pow2. change (2 ^ 7) with 128.
      rewrite pow128_S in H1, H2.
      apply IH; apply N.div_lt_upper_bound; (discriminate || assumption).
    + rewrite low_byte by assumption.
      destruct f2 as [|f2]; cbn [OC.uvarint_fuel]; [reflexivity|].
      destruct (N.ltb_spec x 128); [reflexivity|lia].
Qed.

(** [N.size x] bits need at most [N.size x] groups of seven *)
Lemma size_fuel_enough x : x < 128 ^ N.of_nat (S (N.to_nat (N.size x))).
Proof.
  destruct (N.eq_dec x 0) as [->|Hnz]; [reflexivity|].
  assert (Hs : x < 2 ^ N.size x) by (apply N.size_gt).
  apply N.lt_le_trans with (2 ^ N.size x); [assumption|].
  rewrite Nat2N.inj_succ, N2Nat.id.
  change 128 with (2 ^ 7). rewrite <- N.pow_mul_r.
  apply N.pow_le_mono_r; lia.
Qed.

Lemma uvarint_enc_agrees x : x < 2 ^ 70 -> WU.uvarint_enc x = OC.uvarint x.
Proof.
  intros Hx. unfold WU.uvarint_enc, OC.uvarint. apply enc_fuel_agree; [|apply size_fuel_enough].
  change (128 ^ N.of_nat 10) with (2 ^ 70). assumption.
Qed.

(* ------------------------------------------------------------------ ReadUvarint *)

Definition bytes_ok (l : list byte) : Prop := Forall (fun b => b < 256) l.

Lemma dec_loop_agree : forall l i x s,
  bytes_ok l -> x < 2 ^ s ->
  match WU.uv_loop l i x s with
  | WU.UvOk v _ r => OC.get_uvarint l s x = Some (v, r)
  | WU.UvErr WU.UvOverflow _ => True
  | WU.UvErr _ _ => OC.get_uvarint l s x = None
  end.
Proof.
  induction l as [|b r IH]; intros i x s Hb Hx.
  - cbn [WU.uv_loop OC.get_uvarint]. destruct (i =? 0); reflexivity.
  - inversion Hb as [|? ? Hb0 Hbr]; subst. cbn [WU.uv_loop OC.get_uvarint].
    destruct (N.ltb_spec b 128) as [Hlt|Hge].
    + destruct ((i =? 9) && (1 <? b)); [exact I|].
      rewrite lor_shiftl_add by assumption. reflexivity.
    + destruct (i =? 9); [exact I|].
      rewrite land_127 by assumption. rewrite lor_shiftl_add by assumption.
      apply IH; [assumption|].
      rewrite N.shiftl_mul_pow2, N.pow_add_r. change (2 ^ 7) with 128. nia.
Qed.

(** ReadUvarint on any byte string: same value and same unread rest when C13's reader
    succeeds, "no value" in both on end of input; on [errOverflow] the C14 decoder is not
    compared (it has no such check, see below) *)
Lemma uvarint_read_agrees (l : list byte) :
  bytes_ok l ->
  match WU.uvarint_read l with
  | WU.UvOk v _ r => OC.get_uvarint l 0 0 = Some (v, r)
  | WU.UvErr WU.UvOverflow _ => True
  | WU.UvErr _ _ => OC.get_uvarint l 0 0 = None
  end.
Proof. intros Hb. unfold WU.uvarint_read. apply dec_loop_agree; [assumption|reflexivity]. Qed.

Lemma uvarint_dec_agrees (l : list byte) v r :
  bytes_ok l -> WU.uvarint_dec l = Some (v, r) -> OC.get_uvarint l 0 0 = Some (v, r).
Proof.
  intros Hb. unfold WU.uvarint_dec. pose proof (uvarint_read_agrees l Hb) as H.
  destruct (WU.uvarint_read l) as [v' c r'|e c]; [|discriminate]. intros [= <- <-]. exact H.
Qed.

(** the difference: eleven bytes / a tenth byte of 2 *)
Lemma uvarint_decoders_differ_on_overflow_lemma :
  (WU.uvarint_read (repeat 128 10 ++ [0]) = WU.UvErr WU.UvOverflow 10 /\
   OC.get_uvarint (repeat 128 10 ++ [0]) 0 0 = Some (0, [])) /\
  (WU.uvarint_read (repeat 128 9 ++ [2]) = WU.UvErr WU.UvOverflow 10 /\
   OC.get_uvarint (repeat 128 9 ++ [2]) 0 0 = Some (2 ^ 64, [])).
Proof. repeat split. Qed.

Theorem uvarint_models_agree_lemma :
  (forall x : N, x < 2 ^ 64 -> WU.uvarint_enc x = OC.uvarint x) /\
  (forall l : list byte, Forall (fun b => b < 256) l ->
     match WU.uvarint_read l with
     | WU.UvOk v _ r => OC.get_uvarint l 0 0 = Some (v, r)
     | WU.UvErr WU.UvOverflow _ => True
     | WU.UvErr _ _ => OC.get_uvarint l 0 0 = None
     end).
Proof.
  split.
  - intros x Hx. apply uvarint_enc_agrees. apply N.lt_trans with (2 ^ 64); [assumption|reflexivity].
  - exact uvarint_read_agrees.
Qed.
