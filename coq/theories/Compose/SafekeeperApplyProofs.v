(** Proofs about Compose/SafekeeperApply.v: the patcher reading the old build through the
    safekeeper either fails or computes exactly what the patcher computes on the signed build.

    1. [sk_range_sound]: the block-range consumer as the patcher drives it (any offset that is
       a multiple of the read size, ANY size - the op size comes from the patch's container),
       from C09's block-level lemma [sk_read_fixed].
    2. [lf_read_sound]: lrufile over the safekeeper reader, chunk by chunk, with its cache.
    3. Section [Sim]: the control structure of Patcher.v is walked once, for an abstract
       "may fail" / "may accept what the signed build rejects" pair [E] / [X] and abstract
       invariants of the pool and of the bsdiff reader.
    4. Instances: any damage ([E] = True, [X] = some file on disk is longer than signed);
       pristine build ([E] = [X] = False). *)
From Wharf Require Import Base.Prelude Base.BlocksLemmas Val.Drip Val.VPool Val.Safekeeper Val.SafekeeperProofs
     Bowl.Fresh Patch.Reinterp Patch.Stream Patch.Patcher Patch.PatcherProofs Compose.SafekeeperApply.
From Wharf Require Patch.DiffApplyProofs.
From Coq Require Import ZifyBool ZifyNat ZifyN.
Local Open Scope N_scope.

Notation sslice := Safekeeper.slice.

(** ---- lists ---- *)
Section Lists.
  Context {A : Type}.
  Implicit Types l : list A.

  Lemma firstn_min n l : firstn n l = firstn (Nat.min n (length l)) l.
  Proof.
    destruct (Nat.le_gt_cases n (length l)) as [Hl|Hl].
    - rewrite Nat.min_l by assumption. reflexivity.
    - rewrite Nat.min_r by lia. rewrite !firstn_all2 by lia. reflexivity.
  Qed.

  Lemma firstn_split (j n : nat) l : (j <= n)%nat -> firstn n l = firstn j l ++ firstn (n - j) (skipn j l).
  Proof.
    intros Hj. rewrite <- (firstn_skipn j l) at 1. rewrite firstn_app, firstn_firstn.
    rewrite Nat.min_r by assumption. f_equal.
    rewrite firstn_length. destruct (Nat.le_gt_cases j (length l)) as [Hl|Hl].
    - rewrite Nat.min_l by assumption. reflexivity.
    - rewrite (skipn_all2 l) by lia. rewrite !firstn_nil. reflexivity.
  Qed.

  (** reading [k <= n] elements first, then the rest from where that read stopped *)
  Lemma slice_split l a k n :
    k <= n -> sslice l a n = sslice l a k ++ sslice l (a + nlen (sslice l a k)) (n - nlen (sslice l a k)).
  Proof.
    intros Hk.
    assert (Hlen : nlen (sslice l a k) = N.of_nat (Nat.min (N.to_nat k) (length (skipn (N.to_nat a) l)))).
    { unfold nlen, Safekeeper.slice. rewrite firstn_length. reflexivity. }
    rewrite Hlen. unfold Safekeeper.slice.
    set (X := skipn (N.to_nat a) l). set (j := Nat.min (N.to_nat k) (length X)).
    rewrite (firstn_min (N.to_nat k) X). fold j.
    rewrite (firstn_split j (N.to_nat n) X) by (unfold j; lia). f_equal.
    unfold X. rewrite skipn_skipn. f_equal; [lia|]. f_equal. lia.
  Qed.

  Lemma In_firstn (n : nat) l x : In x (firstn n l) -> In x l.
  Proof. intros Hx. rewrite <- (firstn_skipn n l). apply in_or_app. left. assumption. Qed.

  Lemma slice_full l a n : a + n <= nlen l -> nlen (sslice l a n) = n.
  Proof. intros Hn. rewrite slice_length. lia. Qed.
End Lists.

Lemma slice_ZN (d : list byte) (from len : Z) : sslice d (Z.to_N from) (Z.to_N len) = Stream.slice d from len.
Proof. unfold Safekeeper.slice, Stream.slice. rewrite !Z_N_nat. reflexivity. Qed.

Lemma add_bytes_firstn : forall (a l : list byte), add_bytes a (firstn (length a) l) = add_bytes a l.
Proof.
  induction a as [|x a IH]; intros l; [reflexivity|].
  destruct l as [|y l]; [reflexivity|]. cbn [length firstn add_bytes]. rewrite IH. reflexivity.
Qed.

Lemma add_bytes_slice (a s : list byte) (off : Z) :
  (0 <= off)%Z -> add_bytes a (sslice s (Z.to_N off) (nlen a)) = add_bytes a (skipn (Z.to_nat off) s).
Proof.
  intros Ho. unfold Safekeeper.slice, nlen. rewrite Nat2N.id, Z_N_nat. apply add_bytes_firstn.
Qed.

(** ---- the LRU cache ---- *)
Lemma lru_find_In ci : forall l d, lru_find ci l = Some d -> In (ci, d) l.
Proof.
  induction l as [|[k x] l IH]; intros d; cbn [lru_find]; [discriminate|].
  destruct (k =? ci) eqn:E.
  - apply N.eqb_eq in E. subst k. intros E'. inversion E'. left. reflexivity.
  - intros E'. right. apply IH. assumption.
Qed.

Lemma lru_remove_In ci x : forall l, In x (lru_remove ci l) -> In x l.
Proof.
  induction l as [|[k y] l IH]; cbn [lru_remove]; [tauto|].
  destruct (k =? ci); [intros Hx; right; assumption|].
  intros [Hx|Hx]; [left; assumption|right; apply IH; assumption].
Qed.

(** ---- one file: the patcher's consumers on the fixed safekeeper ---- *)
Section OneFile.
  Context {H : Type}.
  Variables bs c m : N.
  Hypothesis c_pos : 0 < c.
  Hypothesis m_pos : 0 < m.
  Hypothesis bs_c : bs = c * m.
  Variable entries : nat.
  Variable hash : list byte -> H.
  Variable heqb : H -> H -> bool.
  Hypothesis hash_inj : forall a b, heqb (hash a) (hash b) = true -> a = b.
  Variables signed actual : list byte.

  Let f := skfile_of bs hash signed actual.

  (** what a Read returns is what the file holds (model of os.File: full reads) *)
  Lemma sk_read_actual s len s' r :
    rd_ok bs signed actual s -> 0 < len ->
    sk_read bs hash heqb Fixed f s len = (s', r) ->
    match r with
    | RData d => d = sslice actual (roff s) len
    | REOF => nlen actual <= roff s
    | RErr => True
    end.
  Proof.
    intros [Hpos Hca] Hlen. unfold sk_read.
    destruct (validate_block bs hash heqb Fixed f (rcache s) (roff s)) as [[ca' r'] mv] eqn:V.
    apply (validate_fixed bs c m c_pos m_pos bs_c hash heqb hash_inj) in V; [|assumption].
    destruct V as (_ & Hne & _).
    assert (Hp : (if mv then roff s else rpos s) = roff s) by (destruct mv; congruence).
    rewrite Hp. destruct r'; [|intros R; inversion R; exact I|congruence].
    cbn [factual f skfile_of].
    destruct (len =? 0) eqn:E0; [apply N.eqb_eq in E0; lia|].
    destruct (is_nil (sslice actual (roff s) len)) eqn:En; intros R; inversion R; subst; clear R.
    - destruct (sslice actual (roff s) len) eqn:Ed; [|discriminate].
      apply slice_is_nil in Ed. lia.
    - reflexivity.
  Qed.

  (** wsync.ApplySingleFull as the patcher drives it: from any position that is a multiple of
      the read size (or past the end of the signed file), for any number of bytes - the op size
      is computed from the size in the patch's container and may reach past the end of the
      signed file, where the copy ends at EOF without an error, exactly as on the signed file *)
  Lemma range_loop_any : forall fuel s rem s' ps o,
    rd_ok bs signed actual s -> (roff s mod c = 0 \/ nlen signed <= roff s \/ rem = 0) ->
    rem < N.of_nat fuel ->
    range_loop bs c hash heqb Fixed fuel f s rem = (s', ps, o) ->
    o <> OutOfFuel /\ rd_ok bs signed actual s' /\
    (o = Done -> concat ps = sslice signed (roff s) rem).
  Proof.
    induction fuel as [|fuel IH]; intros s rem s' ps o Hok Hal Hfuel; [lia|].
    cbn [range_loop]. destruct (rem =? 0) eqn:E0.
    - apply N.eqb_eq in E0. subst rem. intros E; inversion E; subst; clear E.
      split; [discriminate|]. split; [assumption|]. intros _. reflexivity.
    - apply N.eqb_neq in E0.
      destruct (sk_read bs hash heqb Fixed f s (N.min c rem)) as [s1 r] eqn:R.
      apply (sk_read_fixed bs c m c_pos m_pos bs_c hash heqb hash_inj) in R; [|assumption|lia|].
      2:{ destruct Hal as [Hal|[Hal|Hal]]; [left|right; assumption|contradiction].
          apply (aligned_fits bs c m c_pos m_pos bs_c hash heqb hash_inj signed actual); [assumption|lia]. }
      destruct R as [Hok1 R]. destruct r as [d| |].
      + destruct R as (Ed & _ & Hne & Hoff).
        destruct (range_loop bs c hash heqb Fixed fuel f s1 (rem - nlen d)) as [[s2 ps2] o2] eqn:L.
        intros E; inversion E; subst s2 ps o2; clear E.
        assert (Hd0 : nlen d <> 0) by (rewrite nlen_zero; assumption).
        assert (Hds : nlen d = N.min (N.min c rem) (nlen signed - roff s)) by (rewrite Ed at 1; apply slice_length).
        apply IH in L; [|assumption| |lia].
        2:{ rewrite Hoff. destruct (N.eq_dec (nlen d) c) as [Hc|Hc].
            - destruct Hal as [Hal|[Hal|Hal]]; [|lia|contradiction]. left.
              replace (roff s + nlen d) with (roff s + 1 * c) by lia. rewrite N.mod_add by lia. assumption.
            - right. lia. }
        destruct L as (Ho & Hok2 & Hdone).
        split; [assumption|]. split; [assumption|]. intros Eo. cbn [concat]. rewrite (Hdone Eo), Hoff.
        rewrite (slice_split signed (roff s) (N.min c rem) rem) by lia. rewrite <- Ed. reflexivity.
      + destruct R as [Hend Hoff]. intros E; inversion E; subst; clear E.
        split; [discriminate|]. split; [assumption|]. intros _. rewrite slice_nil by assumption. reflexivity.
      + intros E; inversion E; subst; clear E.
        split; [discriminate|]. split; [assumption|]. discriminate.
  Qed.

  Lemma sk_range_sound p fi off size r' ps o :
    cache_ok bs signed actual (pcache p fi) -> off mod c = 0 ->
    sk_range bs c hash heqb f p fi off size = (r', ps, o) ->
    o <> OutOfFuel /\ cache_ok bs signed actual (rcache r') /\
    (o = Done -> concat ps = sslice signed off size).
  Proof.
    intros Hca Hal. unfold sk_range. intros L. apply range_loop_any in L.
    - destruct L as (Ho & [_ Hca'] & Hd). cbn [sk_seek roff] in Hd. auto.
    - split; [reflexivity|exact Hca].
    - left. exact Hal.
    - lia.
  Qed.

  (** ---- lrufile over the safekeeper reader ---- *)

  (** every cached chunk is the signed chunk and is what the file holds there *)
  Definition lru_ok (l : lru) : Prop :=
    forall ci d, In (ci, d) l -> d = sslice signed (ci * c) c /\ d = sslice actual (ci * c) c.
  Definition bs_ok (b : bsst) : Prop := cache_ok bs signed actual (rcache (b_rd b)) /\ lru_ok (b_lru b).

  Lemma lru_ok_cons ci d l :
    lru_ok l -> d = sslice signed (ci * c) c -> d = sslice actual (ci * c) c -> lru_ok ((ci, d) :: lru_remove ci l).
  Proof.
    intros Hl Hs Ha ci' d' [E|Hin]; [inversion E; subst ci' d'; split; assumption|].
    apply Hl. eapply lru_remove_In; eassumption.
  Qed.

  Lemma get_chunk_sound b ci b' r :
    bs_ok b -> get_chunk bs c entries hash heqb f b ci = (b', r) ->
    bs_ok b' /\
    match r with
    | Some d => d = sslice signed (ci * c) c /\ d = sslice actual (ci * c) c
    | None => True
    end.
  Proof.
    intros [Hca Hl]. unfold get_chunk. destruct (lru_find ci (b_lru b)) as [d|] eqn:F.
    - intros E; inversion E; subst; clear E. apply lru_find_In in F. destruct (Hl _ _ F) as [Hs Ha].
      split; [|split; assumption]. split; [assumption|]. apply lru_ok_cons; assumption.
    - cbn [chunk_loop].
      destruct (sk_read bs hash heqb Fixed f (sk_seek (b_rd b) (ci * c)) c) as [s1 r1] eqn:R.
      assert (Hrd : rd_ok bs signed actual (sk_seek (b_rd b) (ci * c))) by (split; [reflexivity|exact Hca]).
      pose proof (sk_read_actual _ _ _ _ Hrd c_pos R) as Ra.
      apply (sk_read_fixed bs c m c_pos m_pos bs_c hash heqb hash_inj) in R; [|assumption|assumption|].
      2:{ left. apply (aligned_fits bs c m c_pos m_pos bs_c hash heqb hash_inj signed actual); [|lia].
          cbn [sk_seek roff]. apply N.mod_mul. lia. }
      cbn [sk_seek roff] in R, Ra. destruct R as [[_ Hca1] R]. destruct r1 as [d| |].
      + destruct R as (Ed & _). intros E; inversion E; subst b' r; clear E.
        split; [|split; assumption]. split; [assumption|]. cbn [b_lru].
        intros ci' d' Hin. apply In_firstn in Hin. revert ci' d' Hin. apply lru_ok_cons; assumption.
      + destruct R as [Hend _]. intros E; inversion E; subst b' r; clear E.
        assert (Hs : [] = sslice signed (ci * c) c) by (rewrite slice_nil by assumption; reflexivity).
        assert (Ha : [] = sslice actual (ci * c) c) by (rewrite slice_nil by assumption; reflexivity).
        split; [|split; assumption]. split; [assumption|]. cbn [b_lru].
        intros ci' d' Hin. apply In_firstn in Hin. revert ci' d' Hin. apply lru_ok_cons; assumption.
      + intros E; inversion E; subst b' r; clear E. split; [split; assumption|exact I].
  Qed.

  (** lrufile.Read of [remaining] bytes at [offset] <= the size of the file on disk: all of
      them, and they are the signed bytes (so the signed file is long enough); or io.EOF because
      the file on disk is too short; or an error of the safekeeper *)
  Lemma lf_read_sound : forall fuel b offset remaining acc b' r,
    bs_ok b -> offset <= nlen actual -> 0 < remaining -> remaining < N.of_nat fuel ->
    lf_read bs c entries hash heqb fuel f (nlen actual) b offset remaining acc = (b', r) ->
    bs_ok b' /\
    match r with
    | LBytes d => d = acc ++ sslice signed offset remaining /\ offset + remaining <= nlen signed
    | LShort => nlen actual < offset + remaining
    | LFail => True
    | LFuel => False
    end.
  Proof.
    induction fuel as [|fuel IH]; intros b offset remaining acc b' r Hb Hoff Hrem Hfuel; [lia|].
    cbn [lf_read]. destruct (remaining =? 0) eqn:E0; [apply N.eqb_eq in E0; lia|].
    destruct (get_chunk bs c entries hash heqb f b (offset / c)) as [b1 [chunk|]] eqn:G.
    2:{ apply get_chunk_sound in G; [|assumption]. intros E; inversion E; subst. split; [apply G|exact I]. }
    apply get_chunk_sound in G; [|assumption]. destruct G as [Hb1 [Hcs Hca]].
    pose proof (N.div_mod offset c ltac:(lia)) as Hdm. pose proof (N.mod_lt offset c ltac:(lia)) as Hml.
    remember (offset / c) as ci eqn:Eci. remember (offset mod c) as start eqn:Est. clear Eci Est.
    assert (Hlens : nlen chunk = N.min c (nlen signed - ci * c)) by (rewrite Hcs at 1; apply slice_length).
    assert (Hlena : nlen chunk = N.min c (nlen actual - ci * c)) by (rewrite Hca at 1; apply slice_length).
    assert (Hfit : forall k, start + k <= c -> sslice chunk start k = sslice signed offset k).
    { intros k Hk. rewrite Hcs, slice_slice by assumption. f_equal. lia. }
    destruct (nlen actual <? ci * c + c) eqn:Elast.
    - apply N.ltb_lt in Elast.
      destruct (nlen actual - ci * c <? start + remaining) eqn:Ecap.
      + intros E; inversion E; subst b' r. split; [assumption|]. apply N.ltb_lt in Ecap. lia.
      + apply N.ltb_ge in Ecap. intros E; inversion E; subst. split; [assumption|]. split.
        * f_equal. apply Hfit. lia.
        * lia.
    - apply N.ltb_ge in Elast. replace (ci * c + c - ci * c) with c by lia.
      destruct (c <? start + remaining) eqn:Ecap.
      + apply N.ltb_lt in Ecap. intros L. apply IH in L; [|assumption|lia|lia|lia].
        destruct L as [Hb' L]. split; [assumption|]. destruct r as [d| | |]; try assumption.
        * destruct L as [Ed Hin]. split; [|lia]. rewrite Ed, <- app_assoc. f_equal.
          rewrite Hfit by lia.
          rewrite (slice_split signed offset (c - start) remaining) by lia.
          rewrite slice_full by lia. reflexivity.
        * lia.
      + apply N.ltb_ge in Ecap. intros E; inversion E; subst. split; [assumption|]. split.
        * f_equal. apply Hfit. lia.
        * lia.
  Qed.
End OneFile.

(** ---- an undamaged file: the bsdiff reader never fails ---- *)
Section PristineFile.
  Context {H : Type}.
  Variables bs c : N.
  Hypothesis bs_pos' : 0 < bs.
  Variable entries : nat.
  Variable hash : list byte -> H.
  Variable heqb : H -> H -> bool.
  Hypothesis heqb_refl : forall a, heqb (hash a) (hash a) = true.
  Variable signed : list byte.

  Let f := skfile_of bs hash signed signed.

  Lemma get_chunk_pristine b ci b' r :
    cache_true (rcache (b_rd b)) -> get_chunk bs c entries hash heqb f b ci = (b', r) ->
    cache_true (rcache (b_rd b')) /\ r <> None.
  Proof.
    intros Hca. unfold get_chunk. destruct (lru_find ci (b_lru b)) as [d|].
    - intros E; inversion E; subst. split; [assumption|discriminate].
    - cbn [chunk_loop].
      destruct (sk_read bs hash heqb Fixed f (sk_seek (b_rd b) (ci * c)) c) as [s1 r1] eqn:R.
      apply (sk_read_pristine bs bs_pos' hash heqb heqb_refl) in R; [|exact Hca].
      destruct R as [Hca1 Hr]. destruct r1 as [d| |]; [| |congruence];
        intros E; inversion E; subst; (split; [assumption|discriminate]).
  Qed.

  Lemma lf_read_pristine : forall fuel lsize b offset remaining acc b' r,
    cache_true (rcache (b_rd b)) ->
    lf_read bs c entries hash heqb fuel f lsize b offset remaining acc = (b', r) ->
    cache_true (rcache (b_rd b')) /\ r <> LFail.
  Proof.
    induction fuel as [|fuel IH]; intros lsize b offset remaining acc b' r Hca; cbn [lf_read].
    - intros E; inversion E; subst. split; [assumption|discriminate].
    - destruct (remaining =? 0); [intros E; inversion E; subst; split; [assumption|discriminate]|].
      destruct (get_chunk bs c entries hash heqb f b (offset / c)) as [b1 [chunk|]] eqn:G;
        apply get_chunk_pristine in G; try assumption; destruct G as [Hca1 Hr]; [|congruence].
      destruct (_ <? _).
      + destruct (_ <? _).
        * intros E; inversion E; subst. split; [assumption|discriminate].
        * intros L. eapply IH; eassumption.
      + intros E; inversion E; subst. split; [assumption|discriminate].
  Qed.
End PristineFile.

(** ---- the control structure, once ---- *)
Section Sim.
  Context {H : Type}.
  Variables bs c : N.
  Variable entries : nat.
  Variable hash : list byte -> H.
  Variable heqb : H -> H -> bool.
  Variables oldC newC : container.
  Variable signed : list (list byte).
  Variable actual : list (option (list byte)).
  Variable whitelist : option (list Z).
  Hypothesis bs_pos' : 0 < bs.
  Hypothesis len_eq : length actual = length signed.

  (** [E]: the safekeeper may report an error; [X]: the patcher on the signed build may report
      an error that the run through the safekeeper does not see *)
  Variables E X : Prop.
  Variable PI : pool -> Prop.
  Variable BI : list byte -> list byte -> bsst -> Prop.

  Definition present (fi : N) (s a : list byte) : Prop :=
    nth_error signed (N.to_nat fi) = Some s /\ nth_error actual (N.to_nat fi) = Some (Some a).

  Hypothesis H_init : PI pool_empty.
  Hypothesis H_missing : In None actual -> E.
  Hypothesis H_size : forall fi s a, present fi s a -> (nlen a < nlen s -> E) /\ (nlen s < nlen a -> X).
  Hypothesis H_copy : forall p fi s a r' ps o,
    PI p -> present fi s a ->
    run_pattern bs c hash heqb Fixed (skfile_of bs hash s a) p fi PCopy = (r', ps, o) ->
    o <> OutOfFuel /\ (o = Failed -> E) /\ (o = Done -> concat ps = s /\ PI (pool_after p fi r')).
  Hypothesis H_range : forall p fi s a i size r' ps o,
    PI p -> present fi s a ->
    sk_range bs c hash heqb (skfile_of bs hash s a) p fi (bs * i) size = (r', ps, o) ->
    o <> OutOfFuel /\ (o = Failed -> E) /\ (o = Done -> concat ps = sslice s (bs * i) size /\ PI (pool_after p fi r')).
  Hypothesis H_bs_init : forall p fi s a,
    PI p -> present fi s a ->
    BI s a (mkB (sk_seek_end (skfile_of bs hash s a) (sk_get_read_seeker Fixed p fi)) []).
  Hypothesis H_bs_read : forall fi s a b off n b' r,
    present fi s a -> BI s a b -> off <= nlen a -> 0 < n ->
    lf_read bs c entries hash heqb (S (N.to_nat n)) (skfile_of bs hash s a) (nlen a) b off n [] = (b', r) ->
    BI s a b' /\
    match r with
    | LBytes d => d = sslice s off n /\ off + n <= nlen s
    | LShort => nlen a < off + n
    | LFail => E
    | LFuel => False
    end.
  Hypothesis H_bs_final : forall p fi s a b,
    PI p -> present fi s a -> BI s a b -> PI (pool_after p fi (b_rd b)).

  (** the run through the safekeeper [rs] (result + state) against the plain run [rp] *)
  Definition simg {T S : Type} (P : S -> Prop) (rs : res (T * S)) (rp : res T) : Prop :=
    (E /\ rs = Err) \/ (X /\ rp = Err) \/ (rs = Err /\ rp = Err) \/ (rs = Panic /\ rp = Panic) \/
    (exists x st, rs = Ok (x, st) /\ rp = Ok x /\ P st).

  Lemma simg_E {T S} (P : S -> Prop) (rp : res T) : E -> simg P Err rp.
  Proof. intros He. left. split; [assumption|reflexivity]. Qed.
  Lemma simg_X {T S} (P : S -> Prop) (rs : res (T * S)) : X -> simg P rs Err.
  Proof. intros Hx. right. left. split; [assumption|reflexivity]. Qed.
  Lemma simg_err {T S} (P : S -> Prop) : @simg T S P Err Err.
  Proof. right. right. left. split; reflexivity. Qed.
  Lemma simg_panic {T S} (P : S -> Prop) : @simg T S P Panic Panic.
  Proof. right. right. right. left. split; reflexivity. Qed.
  Lemma simg_ok {T S} (P : S -> Prop) (x : T) (st : S) : P st -> simg P (Ok (x, st)) (Ok x).
  Proof. intros Hp. right. right. right. right. exists x, st. auto. Qed.

  Lemma simg_bind {T S U S'} (P : S -> Prop) (Q : S' -> Prop) (rs : res (T * S)) (rp : res T)
      (fs : T * S -> res (U * S')) (fp : T -> res U) :
    simg P rs rp -> (forall x st, P st -> simg Q (fs (x, st)) (fp x)) -> simg Q (bind rs fs) (bind rp fp).
  Proof.
    intros [[He ->]|[[Hx ->]|[[-> ->]|[[-> ->]|(x & st & -> & -> & Hp)]]]] Hf; cbn [bind].
    - apply simg_E. assumption.
    - destruct (bind rs fs); apply simg_X; assumption.
    - apply simg_err.
    - apply simg_panic.
    - apply Hf. assumption.
  Qed.

  (** the same computation on both sides (nothing read from the old build) *)
  Lemma simg_bind_same {T U S'} (Q : S' -> Prop) (r : res T) (fs : T -> res (U * S')) (fp : T -> res U) :
    (forall x, r = Ok x -> simg Q (fs x) (fp x)) -> simg Q (bind r fs) (bind r fp).
  Proof.
    intros Hf. destruct r as [x| |]; cbn [bind]; [apply Hf; reflexivity|apply simg_err|apply simg_panic].
  Qed.

  Lemma simg_bind_same_r {T S'} (Q : S' -> Prop) (r : res T) (fs : T -> res (T * S')) :
    (forall x, r = Ok x -> simg Q (fs x) (Ok x)) -> simg Q (bind r fs) r.
  Proof.
    intros Hf. destruct r as [x| |]; cbn [bind]; [apply Hf; reflexivity|apply simg_err|apply simg_panic].
  Qed.

  (** opening file [i]: not in the signed build => not on disk either; in the signed build =>
      missing on disk (an error) or there *)
  Lemma sk_file_cases i :
    match znth signed i with
    | None => sk_file bs hash signed actual i = Err
    | Some s => (E /\ sk_file bs hash signed actual i = Err) \/
                exists a, sk_file bs hash signed actual i = Ok (Z.to_N i, skfile_of bs hash s a) /\ present (Z.to_N i) s a
    end.
  Proof.
    unfold sk_file, znth. destruct (i <? 0)%Z eqn:Ei; [reflexivity|].
    destruct (nth_error signed (Z.to_nat i)) as [s|] eqn:Es.
    - destruct (nth_error actual (Z.to_nat i)) as [[a|]|] eqn:Ea.
      + right. exists a. split; [reflexivity|]. unfold present. rewrite Z_N_nat. auto.
      + left. split; [|reflexivity]. apply H_missing. eapply nth_error_In; eassumption.
      + exfalso. apply nth_error_None in Ea.
        assert (Hs : nth_error signed (Z.to_nat i) <> None) by congruence.
        apply nth_error_Some in Hs. lia.
    - destruct (nth_error actual (Z.to_nat i)) as [oa|] eqn:Ea; [|reflexivity].
      exfalso. apply nth_error_None in Es.
      assert (Ha : nth_error actual (Z.to_nat i) <> None) by congruence.
      apply nth_error_Some in Ha. lia.
  Qed.

  Local Notation bz := (Z.of_N bs).

  (** freshBowl.Transpose *)
  Lemma transpose_sim s p src tgt :
    PI p ->
    simg PI (transpose_sk bs c hash heqb oldC newC signed actual s p src tgt)
            (transpose oldC newC signed s src tgt).
  Proof.
    intros Hp. unfold transpose_sk, transpose, sk_open, pool_open.
    destruct (znth (c_files oldC) tgt) as [cf|]; [|apply simg_panic].
    pose proof (sk_file_cases tgt) as Hf.
    destruct (znth signed tgt) as [d|]; [|rewrite Hf; apply simg_err].
    destruct Hf as [[He ->]|(a & -> & Hpr)]; [apply simg_E; assumption|].
    cbn [bind fst snd].
    destruct (znth (c_files newC) src) as [[pth sz]|]; [|apply simg_panic].
    destruct (run_pattern bs c hash heqb Fixed (skfile_of bs hash d a) p (Z.to_N tgt) PCopy) as [[r' ps] o] eqn:R.
    apply (H_copy p _ _ _ _ _ _ Hp Hpr) in R. destruct R as (Ho & Hfail & Hdone).
    destruct o; cbn [of_outcome bind]; [|apply simg_E; auto|congruence].
    destruct (Hdone eq_refl) as [-> Hp'].
    apply simg_bind_same. intros t _. apply simg_ok. assumption.
  Qed.

  Lemma to_N_mul i : (0 <= bz * i)%Z -> Z.to_N (bz * i) = bs * Z.to_N i.
  Proof. intros Hi. assert (0 <= i)%Z by nia. rewrite Z2N.inj_mul by lia. rewrite N2Z.id. reflexivity. Qed.

  (** wsync.ApplySingleFull on a block range *)
  Lemma apply_range_sim w p f i sp :
    PI p ->
    simg PI (apply_range_sk bs c hash heqb oldC signed actual w p f i sp)
            (apply_range bz oldC signed w f i sp).
  Proof.
    intros Hp. unfold apply_range_sk, apply_range, bsz.
    destruct (znth (c_files oldC) f) as [[pf fileSize]|]; [|apply simg_panic].
    pose proof (sk_file_cases f) as Hf.
    destruct (znth signed f) as [d|]; [|rewrite Hf; apply simg_err].
    destruct Hf as [[He ->]|(a & -> & Hpr)]; [apply simg_E; assumption|].
    cbn [bind fst snd].
    destruct (bz * i <? 0)%Z eqn:Ei; [apply simg_err|]. apply Z.ltb_ge in Ei.
    rewrite to_N_mul by assumption.
    destruct (sk_range bs c hash heqb (skfile_of bs hash d a) p (Z.to_N f) (bs * Z.to_N i)
                       (Z.to_N (op_size bz fileSize i sp))) as [[r' ps] o] eqn:R.
    apply (H_range p _ _ _ _ _ _ _ _ Hp Hpr) in R. destruct R as (Ho & Hfail & Hdone).
    destruct o; cbn [of_outcome bind]; [|apply simg_E; auto|congruence].
    destruct (Hdone eq_refl) as [-> Hp'].
    rewrite <- to_N_mul by assumption. rewrite slice_ZN.
    apply simg_bind_same_r. intros w3 _. apply simg_ok. assumption.
  Qed.

  Lemma apply_op_sim w p o :
    PI p ->
    simg PI (apply_op_sk bs c hash heqb oldC signed actual w p o) (apply_op bz oldC signed w o).
  Proof.
    intros Hp. unfold apply_op_sk, apply_op.
    destruct (so_type o =? T_BLOCK_RANGE)%Z; [apply apply_range_sim; assumption|].
    destruct (so_type o =? T_DATA)%Z; [|apply simg_err].
    apply simg_bind_same_r. intros w' _. apply simg_ok. assumption.
  Qed.

  Lemma relay_sim : forall ms w p,
    PI p ->
    simg PI (relay_sk bs c hash heqb oldC signed actual ms w p) (relay bz oldC signed ms w).
  Proof.
    induction ms as [|m r IH]; intros w p Hp; cbn [relay_sk relay]; [apply simg_err|].
    destruct (so_type (as_so m) =? HEY)%Z; [apply simg_ok; assumption|].
    destruct (negb (validate_op oldC (as_so m))); [apply simg_err|].
    apply (simg_bind PI); [apply apply_op_sim; assumption|].
    intros w' p' Hp'. cbn [fst snd]. apply IH. assumption.
  Qed.

  Lemma process_rsync_sim idx ms s p :
    PI p ->
    simg PI (process_rsync_sk bs c hash heqb oldC newC signed actual idx ms s p)
            (process_rsync bz oldC newC signed idx ms s).
  Proof.
    intros Hp. unfold process_rsync_sk, process_rsync, bsz. destruct ms as [|m r]; [apply simg_err|].
    destruct (negb (validate_op oldC (as_so m))); [apply simg_err|].
    apply simg_bind_same. intros full _. destruct full.
    - apply (simg_bind PI); [apply transpose_sim; assumption|].
      intros s' p' Hp'. cbn [fst snd]. apply simg_bind_same. intros r' _. apply simg_ok. assumption.
    - apply simg_bind_same. intros w _.
      apply (simg_bind PI); [apply apply_op_sim; assumption|].
      intros w' p' Hp'. cbn [fst snd]. apply relay_sim. assumption.
  Qed.

  (** bsdiff.IndividualPatchContext.Apply over lrufile over the safekeeper reader *)
  Lemma bs_apply_sim fi s a b off ct w :
    present fi s a -> BI s a b ->
    simg (BI s a) (bs_apply_sk bs c entries hash heqb (skfile_of bs hash s a) (nlen a) b off ct w)
                  (bs_apply s off ct w).
  Proof.
    intros Hpr Hb. unfold bs_apply_sk, bs_apply.
    destruct (H_size _ _ _ Hpr) as [HE HX].
    assert (Hadd : Z.of_N (nlen (ct_add ct)) = Z.of_nat (length (ct_add ct))) by (unfold nlen; lia).
    destruct ((off <? 0)%Z || (off >? Z.of_N (nlen a))%Z) eqn:Es.
    - destruct ((off <? 0)%Z || (off >? Z.of_nat (length s))%Z) eqn:Ep; [apply simg_err|].
      apply simg_E. apply HE. unfold nlen in *. lia.
    - destruct (nlen (ct_add ct) =? 0) eqn:E0.
      + apply N.eqb_eq, nlen_zero in E0.
        destruct ((off <? 0)%Z || (off >? Z.of_nat (length s))%Z) eqn:Ep.
        { apply simg_X. apply HX. unfold nlen in *. lia. }
        rewrite E0. cbn [length Z.of_nat nlen N.of_nat Z.of_N bind fst snd add_bytes].
        assert (Ep2 : (off + 0 >? Z.of_nat (length s))%Z = false) by lia. rewrite Ep2.
        apply simg_bind_same. intros w1 _. apply simg_bind_same. intros w2 _. apply simg_ok. assumption.
      + apply N.eqb_neq in E0.
        destruct (lf_read bs c entries hash heqb (S (N.to_nat (nlen (ct_add ct)))) (skfile_of bs hash s a) (nlen a) b
                          (Z.to_N off) (nlen (ct_add ct)) []) as [b' r] eqn:L.
        apply (H_bs_read fi) in L; [|assumption|assumption|lia|lia].
        destruct L as [Hb' L]. destruct r as [d| | |]; cbn [bind]; [| |apply simg_E; assumption|contradiction].
        * destruct L as [-> Hin].
          assert (Ep : (off <? 0)%Z || (off >? Z.of_nat (length s))%Z = false) by (unfold nlen in Hin; lia).
          rewrite Ep.
          assert (Ep2 : (off + Z.of_nat (length (ct_add ct)) >? Z.of_nat (length s))%Z = false) by (unfold nlen in Hin; lia).
          rewrite Ep2. cbn [fst snd]. rewrite add_bytes_slice by lia. rewrite Hadd.
          apply simg_bind_same. intros w1 _. apply simg_bind_same. intros w2 _. apply simg_ok. assumption.
        * destruct ((off <? 0)%Z || (off >? Z.of_nat (length s))%Z) eqn:Ep; [apply simg_err|].
          destruct (off + Z.of_nat (length (ct_add ct)) >? Z.of_nat (length s))%Z eqn:Ep2; [apply simg_err|].
          apply simg_E. apply HE. unfold nlen in *. lia.
  Qed.

  Lemma ctrl_loop_sim fi s a : forall ms b off w,
    present fi s a -> BI s a b ->
    simg (BI s a) (ctrl_loop_sk bs c entries hash heqb (skfile_of bs hash s a) (nlen a) b off ms w)
                  (ctrl_loop s off ms w).
  Proof.
    induction ms as [|m r IH]; intros b off w Hpr Hb; cbn [ctrl_loop_sk ctrl_loop]; [apply simg_err|].
    destruct (ct_eof (as_ct m)); [apply simg_ok; assumption|].
    apply (simg_bind (BI s a)); [eapply bs_apply_sim; eassumption|].
    intros [off' w'] b' Hb'. cbn [fst snd]. apply IH; assumption.
  Qed.

  Lemma process_bsdiff_sim idx ms s p :
    PI p ->
    simg PI (process_bsdiff_sk bs c entries hash heqb oldC newC signed actual idx ms s p)
            (process_bsdiff oldC newC signed idx ms s).
  Proof.
    intros Hp. unfold process_bsdiff_sk, process_bsdiff, sk_open, pool_open. destruct ms as [|m r]; [apply simg_err|].
    destruct ((bh_target (as_bh m) <? 0)%Z || (bh_target (as_bh m) >=? Z.of_nat (length (c_files oldC)))%Z); [apply simg_err|].
    set (tgt := bh_target (as_bh m)).
    destruct (znth (c_files oldC) tgt) as [cf|]; [|apply simg_panic].
    pose proof (sk_file_cases tgt) as Hf.
    destruct (znth signed tgt) as [d|]; [|rewrite Hf; apply simg_err].
    destruct Hf as [[He ->]|(a & -> & Hpr)]; [apply simg_E; assumption|].
    cbn [bind fst snd].
    apply simg_bind_same. intros w _.
    cbn [sk_seek_end sk_seek roff skfile_of factual].
    apply (simg_bind (BI d a)).
    - apply (ctrl_loop_sim (Z.to_N tgt)); [assumption|]. apply (H_bs_init p (Z.to_N tgt) d a Hp Hpr).
    - intros [r' w'] b Hb. cbn [fst snd].
      destruct r' as [|m2 r2]; [apply simg_err|].
      destruct (negb (so_type (as_so m2) =? HEY)%Z); [apply simg_err|].
      destruct (znth (c_files newC) idx) as [[pth size]|]; [|apply simg_panic].
      destruct (Z.of_nat (w_off w') =? size)%Z; [|apply simg_err].
      apply simg_ok. eapply H_bs_final; eassumption.
  Qed.

  Lemma process_file_sim kind idx ms s p :
    PI p ->
    simg PI (process_file_sk bs c entries hash heqb oldC newC signed actual kind idx ms s p)
            (process_file bz oldC newC signed kind idx ms s).
  Proof.
    intros Hp. unfold process_file_sk, process_file.
    destruct (kind =? SH_RSYNC)%Z; [apply process_rsync_sim|apply process_bsdiff_sim]; assumption.
  Qed.

  Lemma run_files_sim : forall n idx ms s p touched,
    PI p ->
    simg PI (run_files_sk bs c entries hash heqb oldC newC signed actual whitelist n idx ms s p touched)
            (run_files bz oldC newC signed whitelist n idx ms s touched).
  Proof.
    induction n as [|n IH]; intros idx ms s p touched Hp; cbn [run_files_sk run_files]; [apply simg_ok; assumption|].
    destruct ms as [|m r]; [apply simg_err|].
    destruct (negb (sh_file (as_sh m) =? idx)%Z); [apply simg_err|].
    destruct (negb ((sh_type (as_sh m) =? SH_RSYNC)%Z || (sh_type (as_sh m) =? SH_BSDIFF)%Z)); [apply simg_err|].
    destruct (wl_skip whitelist (sh_file (as_sh m))).
    - apply simg_bind_same. intros r' _. apply IH. assumption.
    - apply (simg_bind PI); [apply process_file_sim; assumption|].
      intros [r' s'] p' Hp'. cbn [fst snd]. apply IH. assumption.
  Qed.

  (** the whole application: an error (if the safekeeper may report one), or an error of the
      plain run that the safekeeper run does not see (if that can be), or the same result *)
  Definition simf {T : Type} (rs rp : res T) : Prop := (E /\ rs = Err) \/ (X /\ rp = Err) \/ rs = rp.

  Lemma apply_fresh_sim ms :
    simf (apply_fresh_sk bs c entries hash heqb oldC newC signed actual whitelist ms)
         (apply_fresh bz oldC newC signed whitelist ms).
  Proof.
    unfold apply_fresh_sk, apply_fresh.
    destruct (prepare newC []) as [t| |]; cbn [bind]; [|right; right; reflexivity|right; right; reflexivity].
    pose proof (run_files_sim (length (c_files newC)) 0%Z ms (mkP t []) pool_empty 0%Z H_init) as Hs.
    destruct Hs as [[He ->]|[[Hx ->]|[[-> ->]|[[-> ->]|([s' tch] & p' & -> & -> & Hp')]]]]; cbn [bind fst snd].
    - left. auto.
    - right. left. auto.
    - right. right. reflexivity.
    - right. right. reflexivity.
    - right. right. reflexivity.
  Qed.
End Sim.

(** some file on disk is longer than the file that was signed *)
Definition extended (signed : list (list byte)) (actual : list (option (list byte))) : Prop :=
  exists i s a, nth_error signed i = Some s /\ nth_error actual i = Some (Some a) /\ (length s < length a)%nat.

(** ---- any damage ---- *)
Section Sound.
  Context {H : Type}.
  Variables bs c m : N.
  Hypothesis c_pos : 0 < c.
  Hypothesis m_pos : 0 < m.
  Hypothesis bs_c : bs = c * m.
  Variable entries : nat.
  Variable hash : list byte -> H.
  Variable heqb : H -> H -> bool.
  Hypothesis hash_inj : forall a b, heqb (hash a) (hash b) = true -> a = b.
  Variable signed : list (list byte).
  Variable actual : list (option (list byte)).

  (** every cached "valid" verdict of the pool is about a block that equals the signed block *)
  Definition pool_inv (p : pool) : Prop :=
    forall fi s a, present signed actual fi s a -> cache_ok bs s a (pcache p fi).

  Lemma pool_inv_empty : pool_inv pool_empty.
  Proof. intros fi s a _. apply cache_ok_empty. Qed.

  Lemma pool_inv_after p fi s a r :
    pool_inv p -> present signed actual fi s a -> cache_ok bs s a (rcache r) -> pool_inv (pool_after p fi r).
  Proof.
    intros Hp [Hs Ha] Hr fi' s' a' [Hs' Ha']. unfold pool_after. cbn [pcache].
    destruct (fi' =? fi) eqn:Ef.
    - apply N.eqb_eq in Ef. subst fi'. rewrite Hs in Hs'. rewrite Ha in Ha'.
      inversion Hs'; inversion Ha'; subst. assumption.
    - apply Hp. split; assumption.
  Qed.

  Lemma sound_copy p fi s a r' ps o :
    pool_inv p -> present signed actual fi s a ->
    run_pattern bs c hash heqb Fixed (skfile_of bs hash s a) p fi PCopy = (r', ps, o) ->
    o <> OutOfFuel /\ (o = Failed -> True) /\ (o = Done -> concat ps = s /\ pool_inv (pool_after p fi r')).
  Proof.
    intros Hp Hpr R.
    apply (run_pattern_fixed bs c m c_pos m_pos bs_c hash heqb hash_inj) in R; [|apply Hp; assumption|exact I].
    destruct R as (Ho & Hca & _ & Hd). split; [assumption|]. split; [auto|]. intros Eo. split.
    - rewrite (Hd Eo). cbn [ideal_pieces]. apply concat_blocks. lia.
    - eapply pool_inv_after; eassumption.
  Qed.

  Lemma sound_range p fi s a i size r' ps o :
    pool_inv p -> present signed actual fi s a ->
    sk_range bs c hash heqb (skfile_of bs hash s a) p fi (bs * i) size = (r', ps, o) ->
    o <> OutOfFuel /\ (o = Failed -> True) /\
    (o = Done -> concat ps = sslice s (bs * i) size /\ pool_inv (pool_after p fi r')).
  Proof.
    intros Hp Hpr R.
    apply (sk_range_sound bs c m c_pos m_pos bs_c hash heqb hash_inj) in R; [|apply Hp; assumption|].
    2:{ rewrite bs_c. replace (c * m * i) with (m * i * c) by lia. apply N.mod_mul. lia. }
    destruct R as (Ho & Hca & Hd). split; [assumption|]. split; [auto|]. intros Eo. split; [auto|].
    eapply pool_inv_after; eassumption.
  Qed.

  Lemma sound_bs_read fi s a b off n b' r :
    present signed actual fi s a -> bs_ok bs c s a b -> off <= nlen a -> 0 < n ->
    lf_read bs c entries hash heqb (S (N.to_nat n)) (skfile_of bs hash s a) (nlen a) b off n [] = (b', r) ->
    bs_ok bs c s a b' /\
    match r with
    | LBytes d => d = sslice s off n /\ off + n <= nlen s
    | LShort => nlen a < off + n
    | LFail => True
    | LFuel => False
    end.
  Proof.
    intros _ Hb Hoff Hn L.
    apply (lf_read_sound bs c m c_pos m_pos bs_c entries hash heqb hash_inj) in L; [|assumption|assumption|assumption|lia].
    exact L.
  Qed.

  Variables oldC newC : container.
  Variable whitelist : option (list Z).
  Hypothesis len_eq : length actual = length signed.

  Lemma apply_fresh_sk_sound ms :
    let rs := apply_fresh_sk bs c entries hash heqb oldC newC signed actual whitelist ms in
    let rp := apply_fresh (Z.of_N bs) oldC newC signed whitelist ms in
    rs = Err \/ rs = rp \/ (rp = Err /\ extended signed actual).
  Proof.
    assert (Hb : 0 < bs) by (subst bs; lia).
    cbv zeta.
    assert (Hs : simf True (extended signed actual)
                   (apply_fresh_sk bs c entries hash heqb oldC newC signed actual whitelist ms)
                   (apply_fresh (Z.of_N bs) oldC newC signed whitelist ms)).
    2:{ destruct Hs as [[_ E]|[[Hx E]|E]]; auto. }
    apply (apply_fresh_sim bs c entries hash heqb oldC newC signed actual whitelist Hb len_eq
             True (extended signed actual) pool_inv (bs_ok bs c)).
    - apply pool_inv_empty.
    - intros _. exact I.
    - intros fi s a [Hs' Ha']. split; [auto|]. intros Hl.
      exists (N.to_nat fi), s, a. unfold nlen in Hl. split; [assumption|]. split; [assumption|lia].
    - apply sound_copy.
    - apply sound_range.
    - intros p fi s a Hp Hpr. split; [|intros ci d []]. apply Hp. assumption.
    - apply sound_bs_read.
    - intros p fi s a b Hp Hpr [Hca _]. eapply pool_inv_after; eassumption.
  Qed.
End Sound.

(** ---- the undamaged build ---- *)
Section Pristine.
  Context {H : Type}.
  Variables bs c m : N.
  Hypothesis c_pos : 0 < c.
  Hypothesis m_pos : 0 < m.
  Hypothesis bs_c : bs = c * m.
  Variable entries : nat.
  Variable hash : list byte -> H.
  Variable heqb : H -> H -> bool.
  Hypothesis hash_inj : forall a b, heqb (hash a) (hash b) = true -> a = b.
  Hypothesis heqb_refl : forall a, heqb (hash a) (hash a) = true.
  Variable signed : list (list byte).
  Variables oldC newC : container.
  Variable whitelist : option (list Z).

  Let actual := map Some signed.

  Lemma present_pristine fi s a : present signed actual fi s a -> a = s.
  Proof.
    intros [Hs Ha]. unfold actual in Ha. rewrite nth_error_map, Hs in Ha. inversion Ha. reflexivity.
  Qed.

  Definition pool_inv_pr (p : pool) : Prop := pool_inv bs signed actual p /\ forall fi, cache_true (pcache p fi).
  Definition bs_inv_pr (s a : list byte) (b : bsst) : Prop := bs_ok bs c s a b /\ cache_true (rcache (b_rd b)).

  Lemma cache_true_after p fi r :
    (forall fi', cache_true (pcache p fi')) -> cache_true (rcache r) -> forall fi', cache_true (pcache (pool_after p fi r) fi').
  Proof. intros Hp Hr fi'. unfold pool_after. cbn [pcache]. destruct (fi' =? fi); [assumption|apply Hp]. Qed.

  Lemma apply_fresh_sk_pristine ms :
    apply_fresh_sk bs c entries hash heqb oldC newC signed actual whitelist ms =
    apply_fresh (Z.of_N bs) oldC newC signed whitelist ms.
  Proof.
    assert (Hb : 0 < bs) by (subst bs; lia).
    assert (Hlen : length actual = length signed) by (unfold actual; apply map_length).
    assert (Hs : simf False False
                   (apply_fresh_sk bs c entries hash heqb oldC newC signed actual whitelist ms)
                   (apply_fresh (Z.of_N bs) oldC newC signed whitelist ms)).
    2:{ destruct Hs as [[[] _]|[[[] _]|E]]; assumption. }
    apply (apply_fresh_sim bs c entries hash heqb oldC newC signed actual whitelist Hb Hlen
             False False pool_inv_pr bs_inv_pr).
    - split; [apply pool_inv_empty|]. intros fi k v E. discriminate.
    - unfold actual. intros Hin. apply in_map_iff in Hin. destruct Hin as (x & Hx & _). discriminate.
    - intros fi s a Hpr. apply present_pristine in Hpr. subst a. split; intros Hl; lia.
    - intros p fi s a r' ps o [Hp Ht] Hpr R. pose proof (present_pristine _ _ _ Hpr) as ->.
      pose proof R as R'.
      apply (sound_copy bs c m c_pos m_pos bs_c hash heqb hash_inj signed actual p fi s s r' ps o Hp Hpr) in R.
      apply (run_pattern_pristine bs c Hb hash heqb heqb_refl) in R'; [|apply Ht].
      destruct R as (Ho & _ & Hd). destruct R' as [Ht' Hnf]. split; [assumption|]. split; [assumption|].
      intros Eo. destruct (Hd Eo) as [Hc Hp']. split; [assumption|]. split; [assumption|].
      apply cache_true_after; assumption.
    - intros p fi s a i size r' ps o [Hp Ht] Hpr R. pose proof (present_pristine _ _ _ Hpr) as ->.
      pose proof R as R'.
      apply (sound_range bs c m c_pos m_pos bs_c hash heqb hash_inj signed actual p fi s s i size r' ps o Hp Hpr) in R.
      unfold sk_range in R'.
      apply (range_loop_pristine bs c Hb hash heqb heqb_refl) in R'; [|apply Ht].
      destruct R as (Ho & _ & Hd). destruct R' as [Ht' Hnf]. split; [assumption|]. split; [assumption|].
      intros Eo. destruct (Hd Eo) as [Hc Hp']. split; [assumption|]. split; [assumption|].
      apply cache_true_after; assumption.
    - intros p fi s a [Hp Ht] Hpr. split; [split; [apply Hp; assumption|intros ci d []]|]. apply Ht.
    - intros fi s a b off n b' r Hpr [Hb1 Ht] Hoff Hn L. pose proof (present_pristine _ _ _ Hpr) as ->.
      pose proof L as L'.
      apply (sound_bs_read bs c m c_pos m_pos bs_c entries hash heqb hash_inj signed actual fi s s b off n b' r Hpr Hb1 Hoff Hn) in L.
      apply (lf_read_pristine bs c Hb entries hash heqb heqb_refl) in L'; [|assumption].
      destruct L as [Hb' L]. destruct L' as [Ht' Hnf]. split; [split; assumption|].
      destruct r; try assumption. congruence.
    - intros p fi s a b [Hp Ht] Hpr [[Hca _] Htb]. split.
      + eapply pool_inv_after; eassumption.
      + apply cache_true_after; assumption.
  Qed.
End Pristine.

(** ---- whole patches (frames) ---- *)

(** Applying ANY frame list through the safekeeper, whatever the files on disk hold (one state
    - possibly "missing" - per signed file): an error, or exactly the result of applying the
    same frames to the signed build, or - third case, real, see
    [safekeeper_apply_two_cases_refuted_lemma] - the application to the signed build is itself an
    error (an ill-formed bsdiff series seeking past the end of the signed file) and some file
    on disk is longer than the signed file. *)
Theorem safekeeper_apply_sound_lemma {H : Type} (bs c m : N) (entries : nat)
    (hash : list byte -> H) (heqb : H -> H -> bool)
    (signed : list (list byte)) (actual : list (option (list byte))) (whitelist : option (list Z)) (fs : list frame) :
  0 < c -> 0 < m -> bs = c * m ->
  (forall a b, heqb (hash a) (hash b) = true -> a = b) ->
  length actual = length signed ->
  let rs := apply_patch_fresh_sk bs c entries hash heqb signed actual whitelist fs in
  let rp := apply_patch_fresh (Z.of_N bs) signed whitelist fs in
  rs = Err \/ rs = rp \/ (rp = Err /\ extended signed actual).
Proof.
  intros Hc Hm Hbs Hinj Hlen. unfold apply_patch_fresh_sk, apply_patch_fresh.
  destruct (read_patch fs) as [[[[[al q] oldC] newC] ms]|]; [|left; reflexivity].
  apply (apply_fresh_sk_sound bs c m Hc Hm Hbs entries hash heqb Hinj signed actual oldC newC whitelist Hlen ms).
Qed.

(** whenever the frames apply to the signed build (any outcome but an error): an error, or that *)
Corollary safekeeper_apply_exact_lemma {H : Type} (bs c m : N) (entries : nat)
    (hash : list byte -> H) (heqb : H -> H -> bool)
    (signed : list (list byte)) (actual : list (option (list byte))) (whitelist : option (list Z)) (fs : list frame) :
  0 < c -> 0 < m -> bs = c * m ->
  (forall a b, heqb (hash a) (hash b) = true -> a = b) ->
  length actual = length signed ->
  apply_patch_fresh (Z.of_N bs) signed whitelist fs <> Err ->
  apply_patch_fresh_sk bs c entries hash heqb signed actual whitelist fs = Err \/
  apply_patch_fresh_sk bs c entries hash heqb signed actual whitelist fs = apply_patch_fresh (Z.of_N bs) signed whitelist fs.
Proof.
  intros Hc Hm Hbs Hinj Hlen Hne.
  destruct (safekeeper_apply_sound_lemma bs c m entries hash heqb signed actual whitelist fs Hc Hm Hbs Hinj Hlen)
    as [E|[E|[E _]]]; auto. contradiction.
Qed.

(** whatever the frames, when no file on disk is longer than signed (flipped bytes, truncated,
    emptied, missing files): an error, or the result on the signed build *)
Corollary safekeeper_apply_no_extension_lemma {H : Type} (bs c m : N) (entries : nat)
    (hash : list byte -> H) (heqb : H -> H -> bool)
    (signed : list (list byte)) (actual : list (option (list byte))) (whitelist : option (list Z)) (fs : list frame) :
  0 < c -> 0 < m -> bs = c * m ->
  (forall a b, heqb (hash a) (hash b) = true -> a = b) ->
  length actual = length signed ->
  (forall i s a, nth_error signed i = Some s -> nth_error actual i = Some (Some a) -> (length a <= length s)%nat) ->
  apply_patch_fresh_sk bs c entries hash heqb signed actual whitelist fs = Err \/
  apply_patch_fresh_sk bs c entries hash heqb signed actual whitelist fs = apply_patch_fresh (Z.of_N bs) signed whitelist fs.
Proof.
  intros Hc Hm Hbs Hinj Hlen Hno.
  destruct (safekeeper_apply_sound_lemma bs c m entries hash heqb signed actual whitelist fs Hc Hm Hbs Hinj Hlen)
    as [E|[E|[_ (i & s & a & Hs & Ha & Hl)]]]; auto.
  specialize (Hno i s a Hs Ha). lia.
Qed.

(** with C01: a patch made from (signed old build, new build), applied through the safekeeper
    to whatever the old build has become: an error, or exactly the new build *)
Corollary safekeeper_apply_new_build_lemma {H : Type} (bs c m : N) (entries : nat)
    (hash : list byte -> H) (heqb : H -> H -> bool)
    (differ : Z -> list byte -> list op) (old new : build) (algo quality : Z) (actual : list (option (list byte))) :
  0 < c -> 0 < m -> bs = c * m ->
  (forall a b, heqb (hash a) (hash b) = true -> a = b) ->
  wf_build new -> fits63 old -> fits63 new -> diff_ok (Z.of_N bs) (contents_of old) differ ->
  length actual = length (contents_of old) ->
  let rs := apply_patch_fresh_sk bs c entries hash heqb (contents_of old) actual None (write_patch differ algo quality old new) in
  rs = Err \/
  exists t touched trace,
    rs = Ok (t, touched, trace) /\ touched = Z.of_nat (length (Fresh.files_of new)) /\
    forall p, tlookup t p = tlookup new p.
Proof.
  intros Hc Hm Hbs Hinj Hwf Ho Hn Hd Hlen rs.
  assert (Hb : (0 < Z.of_N bs)%Z) by (subst bs; lia).
  destruct (DiffApplyProofs.diff_apply_fresh_lemma (Z.of_N bs) differ old new algo quality Hb Hwf Ho Hn Hd)
    as (t & touched & trace & Hp & Ht & Hl).
  destruct (safekeeper_apply_exact_lemma bs c m entries hash heqb (contents_of old) actual None
              (write_patch differ algo quality old new) Hc Hm Hbs Hinj Hlen) as [E|E].
  - rewrite Hp. discriminate.
  - left. exact E.
  - right. exists t, touched, trace. split; [|split; assumption]. unfold rs. rewrite E. exact Hp.
Qed.

(** an undamaged old build is never rejected: the run through the safekeeper IS the plain run *)
Theorem safekeeper_apply_accepts_pristine_lemma {H : Type} (bs c m : N) (entries : nat)
    (hash : list byte -> H) (heqb : H -> H -> bool)
    (signed : list (list byte)) (whitelist : option (list Z)) (fs : list frame) :
  0 < c -> 0 < m -> bs = c * m ->
  (forall a b, heqb (hash a) (hash b) = true -> a = b) ->
  (forall a, heqb (hash a) (hash a) = true) ->
  apply_patch_fresh_sk bs c entries hash heqb signed (map Some signed) whitelist fs =
  apply_patch_fresh (Z.of_N bs) signed whitelist fs.
Proof.
  intros Hc Hm Hbs Hinj Hrefl. unfold apply_patch_fresh_sk, apply_patch_fresh.
  destruct (read_patch fs) as [[[[[al q] oldC] newC] ms]|]; [|reflexivity].
  apply (apply_fresh_sk_pristine bs c m Hc Hm Hbs entries hash heqb Hinj Hrefl signed oldC newC whitelist ms).
Qed.

(** ---- executed instances: bs = 4, c = 2, two cache entries, strong hash := the block ---- *)
Definition ex_idh := fun b : list N => b.
Definition ex_old : build := [([1], File [1;2;3;4;5;6]); ([2], File [9])]%N.
Definition ex_new : build :=
  [([5], Dir); ([5;1], File [1;2;3;4;5;6]); ([3], File [1;2;3;4;7;7]); ([4], File []); ([6], Link [65])]%N.
Definition ex_differ := fun (pref : Z) (data : list byte) =>
  if nlist_eqb data [1;2;3;4;5;6]%N then [OpRange 0 0 2]
  else if nlist_eqb data [1;2;3;4;7;7]%N then [OpRange 0 0 1; OpData [7;7]%N]
  else [OpData data].
Definition ex_patch : list frame := write_patch ex_differ 2 9 ex_old ex_new.
Definition ex_run (actual : list (option (list byte))) := apply_patch_fresh_sk 4 2 2 ex_idh nlist_eqb (contents_of ex_old) actual None ex_patch.
Definition is_build (r : res (tree * Z * list event)) (b : build) : bool :=
  match r with
  | Ok (t, _, _) => forallb (fun e => match tlookup t (fst e), snd e with
                                      | Some (File x), File y => nlist_eqb x y
                                      | Some Dir, Dir => true
                                      | Some (Link x), Link y => nlist_eqb x y
                                      | _, _ => false end) b
  | _ => false
  end.

(** a bsdiff series on a 4-byte old file: add 3 bytes from offset 0, copy [7], seek -2, add 3
    bytes from offset 1: [2;3;4;7;2;3;4] *)
Definition ex_oldC := mkC [([1%N], 4%Z)] [] [].
Definition ex_bs_series : list frame :=
  [FMsg (MSH (mkSH SH_BSDIFF 0)); FMsg (MBH (mkBH 0));
   FMsg (MCT (mkCT [1;1;1]%N [7]%N (-2) false)); FMsg (MCT (mkCT [0;0;0]%N [] 0 false));
   FMsg (MCT (mkCT [] [] 0 true)); FMsg hey_msg].
Definition ex_bs_patch : list frame :=
  [FHeader 0 0; FContainer ex_oldC; FContainer (mkC [([1%N], 7%Z)] [] [])] ++ ex_bs_series.

Example safekeeper_apply_example_lemma :
  (* pristine old build: the new build, and the very result of the plain application *)
  is_build (ex_run [Some [1;2;3;4;5;6]; Some [9]]%N) ex_new = true /\
  ex_run [Some [1;2;3;4;5;6]; Some [9]]%N = apply_patch_fresh 4 (contents_of ex_old) None ex_patch /\
  (* truncated, extended, flipped, emptied, missing: an error *)
  ex_run [Some [1;2;3;4;5]; Some [9]]%N = Err /\
  ex_run [Some [1;2;3;4;5;6;6]; Some [9]]%N = Err /\
  ex_run [Some [1;2;3;0;5;6]; Some [9]]%N = Err /\
  ex_run [Some []; Some [9]]%N = Err /\
  ex_run [None; Some [9]]%N = Err /\
  (* the damaged file is one the patch does not read: the new build *)
  is_build (ex_run [Some [1;2;3;4;5;6]; Some [8;8]]%N) ex_new = true /\
  (* bsdiff through lrufile with one cache entry (every chunk reloaded) and with two *)
  is_build (apply_patch_fresh_sk 4 2 1 ex_idh nlist_eqb [[1;2;3;4]%N] [Some [1;2;3;4]%N] None ex_bs_patch)
           [([1%N], File [2;3;4;7;2;3;4]%N)] = true /\
  apply_patch_fresh_sk 4 2 2 ex_idh nlist_eqb [[1;2;3;4]%N] [Some [1;2;3;4]%N] None ex_bs_patch =
  apply_patch_fresh 4 [[1;2;3;4]%N] None ex_bs_patch /\
  apply_patch_fresh_sk 4 2 2 ex_idh nlist_eqb [[1;2;3;4]%N] [Some [1;2;3;5]%N] None ex_bs_patch = Err /\
  apply_patch_fresh_sk 4 2 2 ex_idh nlist_eqb [[1;2;3;4]%N] [Some [1;2;3]%N] None ex_bs_patch = Err.
Proof. vm_compute. repeat split; reflexivity. Qed.

(** The statement with two cases only - "an error, or the result on the signed build" - is false
    for ill-formed patches when a file on disk is LONGER than signed: lrufile takes the file size
    from Seek(0, io.SeekEnd) on the file on disk, so a control message with an empty add string
    may seek past the end of the signed file (an error on the signed build: "invalid seek")
    without a single byte being read, hence without any block being checked.  Signed file
    [1;2;3;4], on disk [1;2;3;4;5;6]; controls (add "", copy [7], seek 5), (add "", copy [8]),
    eof: the signed build rejects the second control, the run through the safekeeper writes
    [7;8] and succeeds. *)
Theorem safekeeper_apply_two_cases_refuted_lemma :
  exists (signed : list (list byte)) (actual : list (option (list byte))) (fs : list frame) r,
    length actual = length signed /\
    apply_patch_fresh_sk 4 2 2 ex_idh nlist_eqb signed actual None fs = Ok r /\
    apply_patch_fresh 4 signed None fs = Err.
Proof.
  exists [[1;2;3;4]%N], [Some [1;2;3;4;5;6]%N].
  exists ([FHeader 0 0; FContainer ex_oldC; FContainer (mkC [([1%N], 2%Z)] [] []);
           FMsg (MSH (mkSH SH_BSDIFF 0)); FMsg (MBH (mkBH 0));
           FMsg (MCT (mkCT [] [7]%N 5 false)); FMsg (MCT (mkCT [] [8]%N 0 false));
           FMsg (MCT (mkCT [] [] 0 true)); FMsg hey_msg]).
  eexists. split; [reflexivity|]. split; vm_compute; reflexivity.
Qed.
