(** A toy instance of [patch_codecs] (Compose/PatchBytes.v) that runs inside Coq: every record
    is laid out as numbers (zig-zag for the signed ones) and length-prefixed lists, the
    compressor is the identity for every algorithm.  It is NOT protobuf; it only has to be
    executable and to satisfy [codecs_roundtrip] (proved here), so that the hypotheses of
    [diff_apply_fresh_bytes] are inhabited and a patch file can be written, cut and applied by
    [vm_compute] (Properties/C01.v).  Model bytes are unbounded [N] (Prelude.byte), a "byte" of
    this layout may exceed 255. *)
From Coq Require Import ZifyBool ZifyNat ZifyN.
From Wharf Require Import Base.Prelude Bowl.Fresh Patch.Reinterp Patch.Stream Compose.PatchBytes.
Local Open Scope Z_scope.

Definition zz (z : Z) : N := if z <? 0 then Z.to_N (- 2 * z - 1) else Z.to_N (2 * z).
Definition unzz (n : N) : Z := if (n mod 2 =? 0)%N then Z.of_N (n / 2) else - Z.of_N ((n + 1) / 2).

Ltac Zify.zify_post_hook ::= Z.div_mod_to_equations.
Lemma unzz_zz z : unzz (zz z) = z.
Proof.
  unfold unzz, zz. destruct (Z.ltb_spec z 0) as [Hn|Hp].
  - destruct (N.eqb_spec (Z.to_N (- 2 * z - 1) mod 2) 0); lia.
  - destruct (N.eqb_spec (Z.to_N (2 * z) mod 2) 0); lia.
Qed.

(** length-prefixed byte strings and lists *)
Definition enc_bytes (l : list byte) : list byte := N.of_nat (length l) :: l.
Definition dec_bytes (l : list byte) : option (list byte * list byte) :=
  match l with
  | [] => None
  | n :: r => if (N.to_nat n <=? length r)%nat then Some (firstn (N.to_nat n) r, skipn (N.to_nat n) r) else None
  end.

Lemma dec_enc_bytes l r : dec_bytes (enc_bytes l ++ r) = Some (l, r).
Proof.
  unfold enc_bytes, dec_bytes. cbn [app]. rewrite Nat2N.id, app_length.
  destruct (Nat.leb_spec (length l) (length l + length r)) as [_|Hc]; [|lia].
  rewrite firstn_app, Nat.sub_diag, firstn_all, firstn_O, app_nil_r.
  rewrite skipn_app, Nat.sub_diag, skipn_all, skipn_O. reflexivity.
Qed.

Section ListCodec.
  Context {A : Type}.
  Variable enc : A -> list byte.
  Variable dec : list byte -> option (A * list byte).
  Hypothesis dec_enc : forall a r, dec (enc a ++ r) = Some (a, r).

  Fixpoint dec_items (n : nat) (l : list byte) : option (list A * list byte) :=
    match n with
    | O => Some ([], l)
    | S n' => match dec l with
              | None => None
              | Some (a, r) => match dec_items n' r with
                               | None => None
                               | Some (xs, r') => Some (a :: xs, r')
                               end
              end
    end.

  Definition enc_list (xs : list A) : list byte := N.of_nat (length xs) :: flat_map enc xs.
  Definition dec_list (l : list byte) : option (list A * list byte) :=
    match l with [] => None | n :: r => dec_items (N.to_nat n) r end.

  Lemma dec_items_enc xs : forall r, dec_items (length xs) (flat_map enc xs ++ r) = Some (xs, r).
  Proof.
    induction xs as [|a xs IH]; intros r; [reflexivity|].
    cbn [length flat_map dec_items]. rewrite <- app_assoc, dec_enc, IH. reflexivity.
  Qed.

  Lemma dec_enc_list xs r : dec_list (enc_list xs ++ r) = Some (xs, r).
  Proof. unfold dec_list, enc_list. cbn [app]. rewrite Nat2N.id. apply dec_items_enc. Qed.
End ListCodec.

(** tlc.Container: files (path, size), directories, symlinks (path, destination) *)
Definition enc_file (f : path * Z) : list byte := enc_bytes (fst f) ++ [zz (snd f)].
Definition dec_file (l : list byte) : option ((path * Z) * list byte) :=
  match dec_bytes l with
  | Some (p, s :: r) => Some ((p, unzz s), r)
  | _ => None
  end.
Definition enc_link (f : path * list byte) : list byte := enc_bytes (fst f) ++ enc_bytes (snd f).
Definition dec_link (l : list byte) : option ((path * list byte) * list byte) :=
  match dec_bytes l with
  | Some (p, r) => match dec_bytes r with Some (d, r') => Some ((p, d), r') | None => None end
  | None => None
  end.

Lemma dec_enc_file f r : dec_file (enc_file f ++ r) = Some (f, r).
Proof.
  destruct f as [p s]. unfold dec_file, enc_file. cbn [fst snd]. rewrite <- app_assoc, dec_enc_bytes.
  cbn [app]. rewrite unzz_zz. reflexivity.
Qed.
Lemma dec_enc_link f r : dec_link (enc_link f ++ r) = Some (f, r).
Proof.
  destruct f as [p d]. unfold dec_link, enc_link. cbn [fst snd]. rewrite <- app_assoc, !dec_enc_bytes. reflexivity.
Qed.

Definition toy_marshal_tc (c : container) : list byte :=
  enc_list enc_file (c_files c) ++ enc_list enc_bytes (c_dirs c) ++ enc_list enc_link (c_links c).
Definition toy_unmarshal_tc (l : list byte) : option container :=
  match dec_list dec_file l with
  | Some (fs, r1) =>
    match dec_list dec_bytes r1 with
    | Some (ds, r2) =>
      match dec_list dec_link r2 with
      | Some (ls, []) => Some (mkC fs ds ls)
      | _ => None
      end
    | None => None
    end
  | None => None
  end.

Definition toy_marshal_ph (h : Z * Z) : list byte := [zz (fst h); zz (snd h)].
Definition toy_unmarshal_ph (l : list byte) : option (Z * Z) :=
  match l with [a; q] => Some (unzz a, unzz q) | _ => None end.

Definition toy_marshal_sh (m : sync_header) : list byte := [zz (sh_type m); zz (sh_file m)].
Definition toy_unmarshal_sh (l : list byte) : option sync_header :=
  match l with [t; f] => Some (mkSH (unzz t) (unzz f)) | _ => None end.

Definition toy_marshal_so (m : sync_op) : list byte :=
  zz (so_type m) :: zz (so_file m) :: zz (so_block m) :: zz (so_span m) :: so_data m.
Definition toy_unmarshal_so (l : list byte) : option sync_op :=
  match l with t :: f :: b :: s :: d => Some (mkSO (unzz t) (unzz f) (unzz b) (unzz s) d) | _ => None end.

Definition toy_marshal_bh (m : bsdiff_header) : list byte := [zz (bh_target m)].
Definition toy_unmarshal_bh (l : list byte) : option bsdiff_header :=
  match l with [t] => Some (mkBH (unzz t)) | _ => None end.

Definition toy_marshal_ct (m : control) : list byte :=
  zz (ct_seek m) :: (if ct_eof m then 1%N else 0%N) :: enc_bytes (ct_add m) ++ ct_copy m.
Definition toy_unmarshal_ct (l : list byte) : option control :=
  match l with
  | s :: e :: r => match dec_bytes r with
                   | Some (a, c) => Some (mkCT a c (unzz s) (negb (e =? 0)%N))
                   | None => None
                   end
  | _ => None
  end.

(** identity "compression" under every algorithm number *)
Definition toy_codecs : patch_codecs :=
  mkCodecs toy_marshal_ph toy_unmarshal_ph toy_marshal_tc toy_unmarshal_tc
           toy_marshal_sh toy_unmarshal_sh toy_marshal_so toy_unmarshal_so
           toy_marshal_bh toy_unmarshal_bh toy_marshal_ct toy_unmarshal_ct
           (fun _ _ s => s) (fun _ z => Some z).

Lemma toy_codecs_roundtrip : codecs_roundtrip toy_codecs.
Proof.
  unfold codecs_roundtrip. cbn [toy_codecs marshal_ph unmarshal_ph marshal_tc unmarshal_tc marshal_sh unmarshal_sh
    marshal_so unmarshal_so marshal_bh unmarshal_bh marshal_ct unmarshal_ct].
  repeat split.
  - intros [a q]. unfold toy_unmarshal_ph, toy_marshal_ph. cbn [fst snd]. rewrite !unzz_zz. reflexivity.
  - intros [fs ds ls]. unfold toy_unmarshal_tc, toy_marshal_tc. cbn [c_files c_dirs c_links].
    rewrite (dec_enc_list enc_file dec_file dec_enc_file).
    rewrite (dec_enc_list enc_bytes dec_bytes dec_enc_bytes).
    rewrite <- (app_nil_r (enc_list enc_link ls)).
    rewrite (dec_enc_list enc_link dec_link dec_enc_link). reflexivity.
  - intros [t f]. unfold toy_unmarshal_sh, toy_marshal_sh. cbn [sh_type sh_file]. rewrite !unzz_zz. reflexivity.
  - intros [t f b s d]. unfold toy_unmarshal_so, toy_marshal_so. cbn [so_type so_file so_block so_span so_data].
    rewrite !unzz_zz. reflexivity.
  - intros [t]. unfold toy_unmarshal_bh, toy_marshal_bh. cbn [bh_target]. rewrite unzz_zz. reflexivity.
  - intros [a c s e]. unfold toy_unmarshal_ct, toy_marshal_ct. cbn [ct_add ct_copy ct_seek ct_eof].
    rewrite dec_enc_bytes, unzz_zz. destruct e; reflexivity.
Qed.

Lemma toy_compression_roundtrips algo quality : compression_roundtrips toy_codecs algo quality.
Proof. right. reflexivity. Qed.

Lemma toy_truncation_detected algo quality : truncation_detected toy_codecs algo quality.
Proof.
  right. cbn [toy_codecs compressor decompressor]. intros s p q E Hq. right. exists p, q. repeat split; assumption.
Qed.

(** the outcome of applying every proper prefix of a file (used by the executed example) *)
Definition all_cuts_fail (bs : Z) (olds : list (list byte)) (cap : N) (z : list byte) : bool :=
  forallb (fun i => match apply_patch_bytes toy_codecs bs olds None cap (firstn i z) with Err => true | _ => false end)
          (seq 0 (length z)).
