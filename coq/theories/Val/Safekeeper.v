(** Model of pwr/safekeeper.go: the signature-checking pool ([NewSafeKeeper]), its reader
    ([safeKeeperReader.Read/Seek], [validateBlock] with the verdict cache), the part of the
    inner pool it depends on (fspool keeps the last file open and hands the same reader out
    again), and the three consumers of the old-build pool as read patterns:
      - bowl_fresh.go  Transpose        : GetReader, io.CopyBuffer in [c]-byte reads until EOF
      - wsync/algo.go  ApplySingleFull  : GetReadSeeker, Seek(bs*blockIndex),
                                          io.CopyBuffer(LimitReader(opSize)) in [c]-byte reads
      - lrufile.go     Reset + getChunk : GetReadSeeker, Seek(0, End), then per chunk
                                          Seek(chunk*c) + one Read of [c] bytes, io.EOF tolerated
    Sizes that are constants in Go are arguments: block size [bs] (Go: 64 KiB), consumer read size [c] (Go: 32 KiB); the hash of
    a block is a section variable (Go: weak hash + MD5, through blockValidator.ValidateAsError,
    modelled in Val/VPool.v).

    [version]: [Fixed] is the code as it is now (after the two "fix:" commits), [Unfixed] the
    code before them, kept so that the refutations of the property on the old code stay
    checkable ([Val/SafekeeperProofs.v], section Refuted).  Definitions only. *)
From Wharf Require Import Base.Prelude Val.Drip Val.VPool.
Local Open Scope N_scope.

Definition nlen {A} (l : list A) : N := N.of_nat (length l).
Definition slice {A} (l : list A) (off len : N) : list A :=
  firstn (N.to_nat len) (skipn (N.to_nat off) l).
Definition is_nil {A} (l : list A) : bool := match l with [] => true | _ => false end.

Inductive version := Unfixed | Fixed.

(** one file of the old build as the safekeeper sees it *)
Record skfile {A H : Type} := mkskfile {
  fsize : N;           (* hashInfo.Container.Files[i].Size (= inner.GetSize(i)) *)
  fgroup : list H;     (* hashInfo.Groups[i] *)
  factual : list A     (* what the file holds now *)
}.
Arguments skfile : clear implicits.
Arguments mkskfile {A H}.

(** validBlocks[fileIndex] : block index -> cached verdict (true = nil) *)
Definition cache := N -> option bool.
Definition cache_empty : cache := fun _ => None.
Definition cache_set (c : cache) (bi : N) (v : bool) : cache :=
  fun b => if b =? bi then Some v else c b.

(** what validateBlock returns: nil, a validation error, io.EOF (unfixed code only) *)
Inductive vres := RValid | RInvalid | REof.
Definition vres_of (ok : bool) : vres := if ok then RValid else RInvalid.

(** what Read returns: (n > 0, nil) with the bytes, (0, io.EOF), (0, error) *)
Inductive rres {A : Type} := RData (d : list A) | REOF | RErr.
Arguments rres : clear implicits.

(** safeKeeperReader: [roff] = skr.offset, [rpos] = position of the inner reader skr.rs *)
Record rd := mkrd { roff : N; rpos : N; rcache : cache }.

(** what a consumer does to a file *)
Inductive pattern := PCopy | PRange (blockIndex blockSpan : N) | PChunks (chunks : list N).

Section Safekeeper.
  Context {A H : Type}.
  Variable bs : N.                       (* pwr.BlockSize *)
  Variable c : N.                        (* 32 KiB: io.Copy buffer, wsync buffer, lrufile chunk *)
  Variable hash : list A -> H.
  Variable heqb : H -> H -> bool.
  Variable v : version.

  (** validateBlock.  Third component: the inner reader was moved (Seek to the block, read,
      Seek back to skr.offset) - which happens exactly when the verdict is not cached. *)
  Definition validate_block (f : skfile A H) (ca : cache) (off : N) : cache * vres * bool :=
    let bi := off / bs in
    match ca bi with
    | Some ok => (ca, vres_of ok, false)
    | None =>
      match v with
      | Unfixed =>
        (* blockSize := bv.BlockSize(fileIndex, blockIndex); ONE rs.Read(buf[:blockSize]) *)
        let size := Z.to_N (compute_block_size (Z.of_N bs) (Z.of_N (fsize f)) (Z.of_N bi)) in
        if size =? 0 then
          (* os.File.Read with an empty buffer: (0, nil) *)
          let ok := validate_as_error hash heqb (fgroup f) (N.to_nat bi) [] in
          (cache_set ca bi ok, vres_of ok, true)
        else
          let data := slice (factual f) (bi * bs) size in
          if is_nil data then (ca, REof, true)        (* (0, io.EOF) returned as is, not cached *)
          else let ok := validate_as_error hash heqb (fgroup f) (N.to_nat bi) data in
               (cache_set ca bi ok, vres_of ok, true)
      | Fixed =>
        (* io.ReadFull(rs, sk.buf): everything up to the next block boundary or the end *)
        let data := slice (factual f) (bi * bs) bs in
        let ok := if is_nil data && (fsize f <=? bi * bs) then true
                  else validate_as_error hash heqb (fgroup f) (N.to_nat bi) data in
        (cache_set ca bi ok, vres_of ok, true)
      end
    end.

  (** safeKeeperReader.Read(p) with len(p) = [len]; the inner reader is an os.File: full reads
      until the end of the file, then (0, io.EOF) *)
  Definition sk_read (f : skfile A H) (s : rd) (len : N) : rd * rres A :=
    let '(ca, r, moved) := validate_block f (rcache s) (roff s) in
    let pos := if moved then roff s else rpos s in
    match r with
    | RInvalid => (mkrd (roff s) pos ca, RErr)
    | REof => (mkrd (roff s) pos ca, REOF)
    | RValid =>
      let d := slice (factual f) pos len in
      if len =? 0 then (mkrd (roff s) pos ca, RData [])
      else if is_nil d then (mkrd (roff s) pos ca, REOF)
      else (mkrd (roff s + nlen d) (pos + nlen d) ca, RData d)
    end.

  (** safeKeeperReader.Seek(off, io.SeekStart) / Seek(0, io.SeekEnd) *)
  Definition sk_seek (s : rd) (off : N) : rd := mkrd off off (rcache s).
  Definition sk_seek_end (f : skfile A H) (s : rd) : rd := sk_seek s (nlen (factual f)).

  (** io.CopyBuffer(w, r, buf) with len(buf) = c: the pieces written, in order *)
  Fixpoint copy_loop (fuel : nat) (f : skfile A H) (s : rd) : rd * list (list A) * outcome :=
    match fuel with
    | O => (s, [], OutOfFuel)
    | S k =>
      match sk_read f s c with
      | (s', RData d) => let '(s'', ps, o) := copy_loop k f s' in (s'', d :: ps, o)
      | (s', REOF) => (s', [], Done)
      | (s', RErr) => (s', [], Failed)
      end
    end.

  (** wsync.ApplySingleFull, OpBlockRange: the size of the op ... *)
  Definition range_size (fileSize bi span : N) : N :=
    let fixedSize := (span - 1) * bs in
    let lastIndex := bi + (span - 1) in
    let lastSize := if fileSize <? bs * (lastIndex + 1) then fileSize mod bs else bs in
    fixedSize + lastSize.

  (** ... and io.CopyBuffer(output, io.LimitReader(target, opSize), buffer): an io.EOF from the
      reader ends the copy without an error, however many bytes are still missing *)
  Fixpoint range_loop (fuel : nat) (f : skfile A H) (s : rd) (remaining : N) : rd * list (list A) * outcome :=
    match fuel with
    | O => (s, [], OutOfFuel)
    | S k =>
      if remaining =? 0 then (s, [], Done)
      else match sk_read f s (N.min c remaining) with
           | (s', RData d) => let '(s'', ps, o) := range_loop k f s' (remaining - nlen d) in (s'', d :: ps, o)
           | (s', REOF) => (s', [], Done)
           | (s', RErr) => (s', [], Failed)
           end
    end.

  (** lrufile.getChunk for each chunk index in turn: Seek(chunk*c), one Read of c bytes,
      io.EOF tolerated (an empty piece) *)
  Fixpoint chunk_loop (f : skfile A H) (s : rd) (cis : list N) : rd * list (list A) * outcome :=
    match cis with
    | [] => (s, [], Done)
    | ci :: r =>
      match sk_read f (sk_seek s (ci * c)) c with
      | (s', RData d) => let '(s'', ps, o) := chunk_loop f s' r in (s'', d :: ps, o)
      | (s', REOF) => let '(s'', ps, o) := chunk_loop f s' r in (s'', [] :: ps, o)
      | (s', RErr) => (s', [], Failed)
      end
    end.

  (** ---- the pool ---- *)

  (** [pcache] = sk.validBlocks; [pcur] = the file fspool keeps open and the position of its
      reader (fspool.GetReadSeeker returns that same reader again for the same index, without
      rewinding it; another index closes it and opens the new file at 0) *)
  Record pool := mkpool { pcache : N -> cache; pcur : option (N * N) }.
  Definition pool_empty : pool := mkpool (fun _ => cache_empty) None.

  Definition inner_pos (p : pool) (fi : N) : N :=
    match pcur p with
    | Some (i, pos) => if i =? fi then pos else 0
    | None => 0
    end.

  (** safeKeeper.GetReadSeeker *)
  Definition sk_get_read_seeker (p : pool) (fi : N) : rd :=
    let pos := inner_pos p fi in
    mkrd (match v with Unfixed => 0 | Fixed => pos end) pos (pcache p fi).

  (** safeKeeper.GetReader *)
  Definition sk_get_reader (p : pool) (fi : N) : rd :=
    match v with
    | Unfixed => sk_get_read_seeker p fi
    | Fixed => sk_seek (sk_get_read_seeker p fi) 0
    end.

  Definition pool_after (p : pool) (fi : N) (s : rd) : pool :=
    mkpool (fun i => if i =? fi then rcache s else pcache p i) (Some (fi, rpos s)).

  Definition run_pattern (f : skfile A H) (p : pool) (fi : N) (pat : pattern) : rd * list (list A) * outcome :=
    match pat with
    | PCopy => copy_loop (2 * length (factual f) + 2) f (sk_get_reader p fi)
    | PRange bi span =>
      let size := range_size (fsize f) bi span in
      range_loop (S (N.to_nat size)) f (sk_seek (sk_get_read_seeker p fi) (bs * bi)) size
    | PChunks cis => chunk_loop f (sk_seek_end f (sk_get_read_seeker p fi)) cis
    end.

  (** one consumer after the other on the same pool; a file index outside the container is
      an error of GetReadSeeker (nothing served) *)
  Fixpoint run_steps (files : list (skfile A H)) (p : pool) (steps : list (N * pattern)) : list (list (list A) * outcome) :=
    match steps with
    | [] => []
    | (fi, pat) :: r =>
      match nth_error files (N.to_nat fi) with
      | None => ([], Failed) :: run_steps files p r
      | Some f => let '(s, ps, o) := run_pattern f p fi pat in
                  (ps, o) :: run_steps files (pool_after p fi s) r
      end
    end.
End Safekeeper.

(** signature of a file: size and block hashes (pwr.ComputeSignature / ComputeHashInfo; an
    empty file has no hash group) *)
Definition sign {A H} (bs : N) (hash : list A -> H) (signed : list A) : list H :=
  map hash (blocks (N.to_nat bs) signed).
Definition skfile_of {A H} (bs : N) (hash : list A -> H) (signed actual : list A) : skfile A H :=
  mkskfile (nlen signed) (sign bs hash signed) actual.
