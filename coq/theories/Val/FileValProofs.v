(** Proofs about the validator model: aggregation keeps every wounded offset wounded, every
    deviation of a regular file below the signed length lies in a reported wound, length
    mismatches are wounded, wounds are well-formed, no wound => the entry matches. *)
From Wharf Require Import Base.Prelude Base.BlocksLemmas Val.Drip Val.DripProofs Val.VPool Val.VPoolProofs Val.FileVal.
From Coq Require Import ZifyBool ZifyNat.
Ltac Zify.zify_post_hook ::= Z.div_mod_to_equations.
Local Open Scope Z_scope.

Definition in_wound (i o : Z) (w : wound) : Prop :=
  wk w = WFile /\ widx w = i /\ wstart w <= o < wend w.

Definition wellformed (w : wound) : Prop := 0 <= wstart w <= wend w.

(* ---------- AggregateWounds ---------- *)

Lemma aggregate_cover maxSize i o ws : forall last,
  (forall w, In w ws -> widx w = i) ->
  (forall w, In w ws -> wk w = WFile -> wstart w <= wend w) ->
  (forall l, last = Some l -> wk l = WFile /\ widx l = i) ->
  ((exists l, last = Some l /\ in_wound i o l) \/ (exists w, In w ws /\ in_wound i o w)) ->
  exists w', In w' (aggregate maxSize last ws) /\ in_wound i o w'.
Proof.
  induction ws as [|w r IH]; intros last Hidx Hwf Hlast Hcov.
  - destruct Hcov as [[l [El Hl]]|[w [Hin _]]]; [|destruct Hin].
    subst last. cbn. exists l. split; [left; reflexivity|assumption].
  - assert (Hidx' : forall w0, In w0 r -> widx w0 = i) by (intros; apply Hidx; right; assumption).
    assert (Hwf' : forall w0, In w0 r -> wk w0 = WFile -> wstart w0 <= wend w0) by (intros; apply Hwf; [right|]; assumption).
    cbn [aggregate]. destruct (wk w) eqn:Ek.
    + (* FILE *)
      pose proof (Hwf w (or_introl eq_refl) Ek) as Hw.
      pose proof (Hidx w (or_introl eq_refl)) as Hwi.
      destruct last as [l|].
      * destruct (Hlast l eq_refl) as [Hlk Hli].
        destruct ((wend l <=? wstart w) && (wstart w >=? wstart l)) eqn:Em.
        -- apply andb_prop in Em. destruct Em as [E1 E2].
           set (l' := mkwound (wk l) (widx l) (wstart l) (wend w)).
           assert (Hl' : forall x, in_wound i o x -> (x = l \/ x = w) -> in_wound i o l').
           { intros x [Hk [Hi Hr]] [Ex|Ex]; subst x; unfold in_wound, l'; cbn; repeat split; try assumption; lia. }
           destruct (wend l' - wstart l' >=? maxSize).
           ++ destruct Hcov as [[l0 [El0 Hl0]]|[w0 [[Ew0|Hin] Hw0]]].
              ** inversion El0; subst l0. exists l'. split; [left; reflexivity|apply (Hl' l); auto].
              ** subst w0. exists l'. split; [left; reflexivity|apply (Hl' w); auto].
              ** destruct (IH None Hidx' Hwf') as [w' [Hin' Hw']]; [intros ? X; discriminate|right; exists w0; split; assumption|].
                 exists w'. split; [right; assumption|assumption].
           ++ apply IH; try assumption.
              ** intros l0 El0. inversion El0. subst l0. unfold l'. cbn. split; assumption.
              ** destruct Hcov as [[l0 [El0 Hl0]]|[w0 [[Ew0|Hin] Hw0]]].
                 --- inversion El0; subst l0. left. exists l'. split; [reflexivity|apply (Hl' l); auto].
                 --- subst w0. left. exists l'. split; [reflexivity|apply (Hl' w); auto].
                 --- right. exists w0. split; assumption.
        -- destruct Hcov as [[l0 [El0 Hl0]]|[w0 [[Ew0|Hin] Hw0]]].
           ++ inversion El0; subst l0. exists l. split; [left; reflexivity|assumption].
           ++ subst w0. destruct (IH (Some w) Hidx' Hwf') as [w' [Hin' Hw']].
              ** intros l0 El0. inversion El0; subst l0. split; assumption.
              ** left. exists w. split; [reflexivity|assumption].
              ** exists w'. split; [right; assumption|assumption].
           ++ destruct (IH (Some w) Hidx' Hwf') as [w' [Hin' Hw']].
              ** intros l0 El0. inversion El0; subst l0. split; assumption.
              ** right. exists w0. split; assumption.
              ** exists w'. split; [right; assumption|assumption].
      * apply IH; try assumption.
        -- intros l0 El0. inversion El0; subst l0. split; assumption.
        -- destruct Hcov as [[l0 [El0 _]]|[w0 [[Ew0|Hin] Hw0]]]; [discriminate| |].
           ++ subst w0. left. exists w. split; [reflexivity|assumption].
           ++ right. exists w0. split; assumption.
    + (* SYMLINK: not a file wound, flushes *)
      destruct last as [l|].
      * destruct Hcov as [[l0 [El0 Hl0]]|[w0 [[Ew0|Hin] Hw0]]].
        -- inversion El0; subst l0. exists l. split; [left; reflexivity|assumption].
        -- subst w0. destruct Hw0 as [Hk _]. congruence.
        -- destruct (IH None Hidx' Hwf') as [w' [Hin' Hw']]; [intros ? X; discriminate|right; exists w0; split; assumption|].
           exists w'. split; [right; right; assumption|assumption].
      * destruct Hcov as [[l0 [El0 _]]|[w0 [[Ew0|Hin] Hw0]]]; [discriminate| |].
        -- subst w0. destruct Hw0 as [Hk _]. congruence.
        -- destruct (IH None Hidx' Hwf') as [w' [Hin' Hw']]; [intros ? X; discriminate|right; exists w0; split; assumption|].
           exists w'. split; [right; assumption|assumption].
    + destruct last as [l|].
      * destruct Hcov as [[l0 [El0 Hl0]]|[w0 [[Ew0|Hin] Hw0]]].
        -- inversion El0; subst l0. exists l. split; [left; reflexivity|assumption].
        -- subst w0. destruct Hw0 as [Hk _]. congruence.
        -- destruct (IH None Hidx' Hwf') as [w' [Hin' Hw']]; [intros ? X; discriminate|right; exists w0; split; assumption|].
           exists w'. split; [right; right; assumption|assumption].
      * destruct Hcov as [[l0 [El0 _]]|[w0 [[Ew0|Hin] Hw0]]]; [discriminate| |].
        -- subst w0. destruct Hw0 as [Hk _]. congruence.
        -- destruct (IH None Hidx' Hwf') as [w' [Hin' Hw']]; [intros ? X; discriminate|right; exists w0; split; assumption|].
           exists w'. split; [right; assumption|assumption].
    + destruct last as [l|].
      * destruct Hcov as [[l0 [El0 Hl0]]|[w0 [[Ew0|Hin] Hw0]]].
        -- inversion El0; subst l0. exists l. split; [left; reflexivity|assumption].
        -- subst w0. destruct Hw0 as [Hk _]. congruence.
        -- destruct (IH None Hidx' Hwf') as [w' [Hin' Hw']]; [intros ? X; discriminate|right; exists w0; split; assumption|].
           exists w'. split; [right; right; assumption|assumption].
      * destruct Hcov as [[l0 [El0 _]]|[w0 [[Ew0|Hin] Hw0]]]; [discriminate| |].
        -- subst w0. destruct Hw0 as [Hk _]. congruence.
        -- destruct (IH None Hidx' Hwf') as [w' [Hin' Hw']]; [intros ? X; discriminate|right; exists w0; split; assumption|].
           exists w'. split; [right; assumption|assumption].
Qed.

(** aggregation never drops a marker that is not a FILE wound (healthy markers are relayed) *)
Lemma aggregate_keeps_nonfile maxSize ws : forall last w,
  In w ws -> wk w <> WFile -> In w (aggregate maxSize last ws).
Proof.
  induction ws as [|x r IH]; intros last w Hin Hk; [destruct Hin|].
  cbn [aggregate]. destruct Hin as [E|Hin].
  - subst x. destruct (wk w) eqn:Ek; [congruence| | |]; destruct last; cbn; auto.
  - destruct (wk x); destruct last as [l|]; try (destruct ((wend l <=? wstart x) && (wstart x >=? wstart l)));
      try (destruct (wend _ - wstart _ >=? maxSize)); cbn; auto 6.
Qed.

(** aggregation preserves well-formedness and kind/index of what it emits *)
Lemma aggregate_wellformed maxSize i ws : forall last,
  (forall w, In w ws -> widx w = i /\ wellformed w) ->
  (forall l, last = Some l -> widx l = i /\ wellformed l) ->
  forall w', In w' (aggregate maxSize last ws) -> widx w' = i /\ wellformed w'.
Proof.
  induction ws as [|w r IH]; intros last Hws Hlast w' Hin.
  - destruct last as [l|]; cbn in Hin; [|destruct Hin]. destruct Hin as [E|[]]. subst. apply Hlast. reflexivity.
  - assert (Hr : forall w0, In w0 r -> widx w0 = i /\ wellformed w0) by (intros; apply Hws; right; assumption).
    destruct (Hws w (or_introl eq_refl)) as [Hwi Hww].
    cbn [aggregate] in Hin. destruct (wk w) eqn:Ek.
    + destruct last as [l|].
      * destruct (Hlast l eq_refl) as [Hli Hlw].
        destruct ((wend l <=? wstart w) && (wstart w >=? wstart l)) eqn:Em.
        -- apply andb_prop in Em. destruct Em as [E1 E2].
           assert (Hl' : widx (mkwound (wk l) (widx l) (wstart l) (wend w)) = i /\ wellformed (mkwound (wk l) (widx l) (wstart l) (wend w))).
           { unfold wellformed in *. cbn. split; [assumption|lia]. }
           destruct (wend _ - wstart _ >=? maxSize).
           ++ destruct Hin as [E|Hin]; [subst w'; exact Hl'|]. apply (IH None); [assumption|intros ? X; discriminate|assumption].
           ++ apply (IH (Some (mkwound (wk l) (widx l) (wstart l) (wend w)))); [assumption| |assumption].
              intros l0 E0. inversion E0. subst l0. exact Hl'.
        -- destruct Hin as [E|Hin]; [subst w'; split; assumption|].
           apply (IH (Some w)); [assumption| |assumption]. intros l0 E0. inversion E0; subst l0. split; assumption.
      * apply (IH (Some w)); [assumption| |assumption]. intros l0 E0. inversion E0; subst l0. split; assumption.
    + destruct last as [l|].
      * destruct Hin as [E|[E|Hin]]; [subst w'; apply Hlast; reflexivity|subst w'; split; assumption|].
        apply (IH None); [assumption|intros ? X; discriminate|assumption].
      * destruct Hin as [E|Hin]; [subst w'; split; assumption|]. apply (IH None); [assumption|intros ? X; discriminate|assumption].
    + destruct last as [l|].
      * destruct Hin as [E|[E|Hin]]; [subst w'; apply Hlast; reflexivity|subst w'; split; assumption|].
        apply (IH None); [assumption|intros ? X; discriminate|assumption].
      * destruct Hin as [E|Hin]; [subst w'; split; assumption|]. apply (IH None); [assumption|intros ? X; discriminate|assumption].
    + destruct last as [l|].
      * destruct Hin as [E|[E|Hin]]; [subst w'; apply Hlast; reflexivity|subst w'; split; assumption|].
        apply (IH None); [assumption|intros ? X; discriminate|assumption].
      * destruct Hin as [E|Hin]; [subst w'; split; assumption|]. apply (IH None); [assumption|intros ? X; discriminate|assumption].
Qed.

(* ---------- per-file pass ---------- *)

Section FileProofs.
  Context {H : Type}.
  Variable bs : Z.
  Hypothesis bs_pos : 0 < bs.
  Variable maxWound : Z.
  Variable hash : list N -> H.
  Variable heqb : H -> H -> bool.
  (** the strong hash is treated as injective on the blocks compared *)
  Hypothesis hash_inj : forall a b, heqb (hash a) (hash b) = true -> a = b.

  Notation bsn := (Z.to_nat bs).
  Notation grp := (group_of bs hash).

  Lemma bsn_pos : (0 < bsn)%nat.
  Proof. clear hash_inj. lia. Qed.

  Lemma group_consistent (signed : list N) :
    (Z.of_nat (length signed) = 0 /\ grp signed = []) \/
    (0 < Z.of_nat (length signed) /\
     (Z.of_nat (length (grp signed)) - 1) * bs < Z.of_nat (length signed) <= Z.of_nat (length (grp signed)) * bs).
  Proof. clear hash_inj.
    destruct signed as [|x s']; [left; split; reflexivity|right].
    remember (x :: s') as signed eqn:E.
    assert (Hne : signed <> []) by (subst; congruence).
    assert (Hg : grp signed = map hash (blocks bsn signed)) by (subst; reflexivity).
    rewrite Hg, map_length.
    pose proof (blocks_length_bounds bsn bsn_pos signed Hne) as [Hlo Hhi].
    assert (0 < length signed)%nat by (subst; cbn; lia).
    assert (0 < length (blocks bsn signed))%nat.
    { rewrite blocks_cons by (apply bsn_pos || assumption). cbn. lia. }
    split; [lia|]. split; nia.
  Qed.

  Lemma group_nth (signed : list N) j b :
    nth_error (blocks bsn signed) j = Some b -> nth_error (grp signed) j = Some (hash b).
  Proof. clear hash_inj. try clear bs_pos.
    intros Hn. unfold group_of. destruct signed as [|x s'] eqn:E.
    - destruct j; discriminate.
    - rewrite <- E in *. rewrite nth_error_map, Hn. reflexivity.
  Qed.

  (** raw markers of a regular file *)
  Definition raw (i : Z) (signed content : list N) : list wound :=
    vpool_wounds bs hash heqb i (Z.of_nat (length signed)) (grp signed) [content].

  Lemma raw_eq i signed content :
    raw i signed content =
    wounds_from bs hash heqb i (Z.of_nat (length signed)) (grp signed) 0 (blocks bsn content).
  Proof. clear hash_inj. unfold raw. rewrite wound_mode_list by assumption. cbn [concat]. rewrite app_nil_r. reflexivity. Qed.

  Lemma raw_in i signed content w :
    In w (raw i signed content) ->
    exists j b, nth_error (blocks bsn content) j = Some b /\
                w = validate_as_wound bs hash heqb i (Z.of_nat (length signed)) (grp signed) j b.
  Proof. clear hash_inj.
    rewrite raw_eq. intros Hin. apply In_nth_error in Hin. destruct Hin as [j Hj].
    assert (Hlt : (j < length (blocks bsn content))%nat).
    { rewrite <- (wounds_from_length bs hash heqb i (Z.of_nat (length signed)) (grp signed) (blocks bsn content) 0).
      apply nth_error_Some. congruence. }
    destruct (nth_error (blocks bsn content) j) as [b|] eqn:Eb; [|apply nth_error_None in Eb; lia].
    exists j, b. split; [exact Eb|].
    rewrite (wounds_from_nth bs hash heqb i _ _ _ 0 j b Eb) in Hj. cbn in Hj. congruence.
  Qed.

  Lemma raw_idx_wf i signed content w :
    In w (raw i signed content) -> widx w = i /\ wellformed w.
  Proof. clear hash_inj.
    intros Hin. destruct (raw_in _ _ _ _ Hin) as [j [b [Hb Ew]]]. subst w.
    pose proof (vwnd_shape bs bs_pos hash heqb i (Z.of_nat (length signed)) (grp signed) (group_consistent signed) j b) as S.
    cbn zeta in S. destruct S as [Si [Ss _]]. split; [assumption|].
    unfold wellformed. rewrite Ss. unfold validate_as_wound.
    assert (Hsz : 0 <= compute_block_size bs (Z.of_nat (length signed)) (Z.of_nat j)).
    { unfold compute_block_size. destruct (bs * (Z.of_nat j + 1) >? Z.of_nat (length signed)); [|lia].
      apply Z.mod_pos_bound. assumption. }
    destruct (nth_error (grp signed) j); [destruct (heqb _ _)|]; cbn [wstart wend]; nia.
  Qed.

  (** every offset below the signed length at which the actual content deviates (differs,
      or lies beyond its end) is inside a reported FILE wound of that file *)
  Theorem file_wounds_cover (i : Z) (signed content : list N) (o : nat) :
    (o < length signed)%nat ->
    nth_error content o <> nth_error signed o ->
    exists w, In w (reported (file_wounds bs maxWound hash heqb i signed (OFile content))) /\
              in_wound i (Z.of_nat o) w.
  Proof.
    intros Ho Hdiff.
    assert (Hrep : forall w ws, In w ws -> in_wound i (Z.of_nat o) w -> In w (reported ws)).
    { intros w ws Hin [Hk _]. unfold reported. apply filter_In. split; [assumption|].
      unfold healthy. rewrite Hk. reflexivity. }
    set (j := (o / bsn)%nat).
    assert (Hj : (j * bsn <= o < (j + 1) * bsn)%nat).
    { unfold j. pose proof (Nat.div_mod o bsn). pose proof (Nat.mod_upper_bound o bsn). nia. }
    cbn [file_wounds].
    destruct (Nat.lt_ge_cases (j * bsn) (length content)) as [Hin|Hout].
    - (* block j was written: it differs from the signed block j, so its marker is a FILE wound *)
      assert (Hbs : nth_error (blocks bsn signed) j = Some (firstn bsn (skipn (j * bsn) signed)))
        by (apply blocks_nth; [apply bsn_pos|lia]).
      assert (Hbc : nth_error (blocks bsn content) j = Some (firstn bsn (skipn (j * bsn) content)))
        by (apply blocks_nth; [apply bsn_pos|lia]).
      set (sb := firstn bsn (skipn (j * bsn) signed)) in *.
      set (cb := firstn bsn (skipn (j * bsn) content)) in *.
      assert (Hne : cb <> sb).
      { intros E. apply Hdiff.
        assert (forall l : list N, nth_error l o = nth_error (firstn bsn (skipn (j * bsn) l)) (o - j * bsn)) as Hnth.
        { intros l. rewrite nth_error_firstn_lt by lia. rewrite nth_error_skipn_add. f_equal. lia. }
        rewrite (Hnth content), (Hnth signed). fold cb sb. rewrite E. reflexivity. }
      pose proof (vwnd_shape bs bs_pos hash heqb i (Z.of_nat (length signed)) (grp signed) (group_consistent signed) j cb) as S.
      cbn zeta in S. destruct S as [Si [Ss [Se [Sk Sor]]]].
      set (w := validate_as_wound bs hash heqb i (Z.of_nat (length signed)) (grp signed) j cb) in *.
      assert (Hwk : wk w = WFile).
      { destruct Sor as [|Hc]; [assumption|]. exfalso. apply Sk in Hc. destruct Hc as [h [Hh Hq]].
        rewrite (group_nth signed j sb Hbs) in Hh. inversion Hh; subst h. apply Hne. symmetry. apply hash_inj. assumption. }
      assert (Hjg : (j < length (grp signed))%nat) by (apply nth_error_Some; rewrite (group_nth signed j sb Hbs); discriminate).
      assert (Hw : in_wound i (Z.of_nat o) w).
      { unfold in_wound. rewrite Ss, (Se Hjg). repeat split; try assumption; nia. }
      assert (Hraw : In w (raw i signed content)).
      { rewrite raw_eq. apply nth_error_In with (n := j).
        rewrite (wounds_from_nth bs hash heqb i _ _ _ 0 j cb Hbc). reflexivity. }
      destruct (aggregate_cover maxWound i (Z.of_nat o) (raw i signed content) None) as [w' [Hin' Hw']].
      + intros x Hx. apply (raw_idx_wf _ _ _ _ Hx).
      + intros x Hx _. destruct (raw_idx_wf _ _ _ _ Hx) as [_ [_ ?]]. assumption.
      + intros l X; discriminate.
      + right. exists w. split; assumption.
      + exists w'. split; [|assumption]. apply Hrep; [|assumption].
        fold (raw i signed content). destruct (Z.of_nat (length content) =? Z.of_nat (length signed)); [assumption|].
        apply in_or_app. left. assumption.
    - (* nothing was written at block j: the explicit size wound [written, signed size) covers o *)
      assert (Hlen : (length content <= o)%nat) by lia.
      replace (Z.of_nat (length content) =? Z.of_nat (length signed)) with false by (symmetry; apply Z.eqb_neq; lia).
      eexists. split.
      + apply Hrep; [apply in_or_app; right; left; reflexivity|].
        unfold in_wound. cbn [wk widx wstart wend]. repeat split; lia.
      + unfold in_wound. cbn [wk widx wstart wend]. repeat split; lia.
  Qed.

  (** a regular file whose length differs from the signed length gets a FILE wound *)
  Theorem length_mismatch_wounded (i : Z) (signed content : list N) :
    length content <> length signed ->
    exists w, In w (reported (file_wounds bs maxWound hash heqb i signed (OFile content))) /\
              wk w = WFile /\ widx w = i.
  Proof. clear hash_inj. try clear bs_pos.
    intros Hne. cbn [file_wounds].
    replace (Z.of_nat (length content) =? Z.of_nat (length signed)) with false by (symmetry; apply Z.eqb_neq; lia).
    eexists. split.
    - unfold reported. apply filter_In. split; [apply in_or_app; right; left; reflexivity|reflexivity].
    - split; reflexivity.
  Qed.

  (** anything that is not a regular file gets a whole-file wound *)
  Theorem nonregular_wounded (i : Z) (signed : list N) (o : obs) :
    (forall c, o <> OFile c) ->
    reported (file_wounds bs maxWound hash heqb i signed o) = [mkwound WFile i 0 (Z.of_nat (length signed))].
  Proof. clear hash_inj. try clear bs_pos. intros Hn. destruct o; try reflexivity. exfalso. apply (Hn content). reflexivity. Qed.

  (** every marker sent for a file names that file and has a well-formed range *)
  Theorem file_wounds_wellformed (i : Z) (signed : list N) (o : obs) w :
    In w (file_wounds bs maxWound hash heqb i signed o) -> widx w = i /\ wellformed w.
  Proof. clear hash_inj.
    assert (Hwhole : widx (mkwound WFile i 0 (Z.of_nat (length signed))) = i /\ wellformed (mkwound WFile i 0 (Z.of_nat (length signed))))
      by (unfold wellformed; cbn; split; [reflexivity|lia]).
    destruct o; cbn [file_wounds]; try (intros [E|[]]; subst w; exact Hwhole).
    fold (raw i signed content).
    assert (Hagg : forall x, In x (aggregate maxWound None (raw i signed content)) -> widx x = i /\ wellformed x).
    { apply aggregate_wellformed; [intros x Hx; apply (raw_idx_wf _ _ _ _ Hx)|intros l X; discriminate]. }
    destruct (Z.of_nat (length content) =? Z.of_nat (length signed)); [apply Hagg|].
    intros Hin. apply in_app_or in Hin. destruct Hin as [Hin|[E|[]]]; [apply Hagg; assumption|].
    subst w. unfold wellformed. cbn. split; [reflexivity|lia].
  Qed.

  (** no reported wound for a file => it is a regular file with exactly the signed content *)
  Theorem file_no_wound_matches (i : Z) (signed : list N) (o : obs) :
    reported (file_wounds bs maxWound hash heqb i signed o) = [] -> o = OFile signed.
  Proof.
    intros Hnil. destruct o; try (cbn in Hnil; discriminate).
    f_equal.
    destruct (Nat.eq_dec (length content) (length signed)) as [Hl|Hl].
    - apply nth_error_ext_eq. intros n.
      destruct (Nat.lt_ge_cases n (length signed)) as [Hn|Hn].
      + assert (Hdec : {nth_error content n = nth_error signed n} + {nth_error content n <> nth_error signed n}).
        { destruct (nth_error content n) as [a|], (nth_error signed n) as [b|];
            [destruct (N.eq_dec a b); [left; congruence|right; congruence]|right; discriminate|right; discriminate|left; reflexivity]. }
        destruct Hdec as [E|E]; [exact E|].
        exfalso. destruct (file_wounds_cover i signed content n Hn E) as [w [Hin _]].
        rewrite Hnil in Hin. destruct Hin.
      + transitivity (@None N); [apply nth_error_None; lia|symmetry; apply nth_error_None; lia].
    - exfalso. destruct (length_mismatch_wounded i signed content Hl) as [w [Hin _]]. rewrite Hnil in Hin. destruct Hin.
  Qed.


  (* ---------- whole run ---------- *)

  Lemma reported_app a b : reported (a ++ b) = reported a ++ reported b.
  Proof. clear hash_inj. try clear bs_pos. unfold reported. apply filter_app. Qed.

  Lemma dirs_pass_clean ds : forall i ws,
    dirs_pass i ds = Some ws -> reported ws = [] -> Forall (fun o => o = ODir) ds.
  Proof. clear hash_inj. try clear bs_pos.
    induction ds as [|o r IH]; intros i ws Hp Hr; [constructor|].
    cbn [dirs_pass] in Hp.
    destruct o; try discriminate;
      try (destruct (dirs_pass (i + 1) r) as [ws'|]; [|discriminate]; cbn in Hp; inversion Hp; subst ws; cbn in Hr; discriminate).
    constructor; [reflexivity|]. apply (IH (i + 1) ws); assumption.
  Qed.

  Lemma links_pass_clean ls : forall i ws,
    links_pass i ls = Some ws -> reported ws = [] -> Forall (fun p => snd p = OLink (fst p)) ls.
  Proof. clear hash_inj. try clear bs_pos.
    induction ls as [|[want o] r IH]; intros i ws Hp Hr; [constructor|].
    cbn [links_pass] in Hp.
    destruct o; try discriminate;
      try (destruct (links_pass (i + 1) r) as [ws'|]; [|discriminate]; cbn in Hp; inversion Hp; subst ws; cbn in Hr; discriminate).
    destruct (N.eqb dest want) eqn:E.
    - apply N.eqb_eq in E. subst dest. constructor; [reflexivity|]. apply (IH (i + 1) ws); assumption.
    - destruct (links_pass (i + 1) r) as [ws'|]; [|discriminate]. cbn in Hp. inversion Hp; subst ws. cbn in Hr. discriminate.
  Qed.

  Lemma files_pass_clean fs : forall i,
    reported (files_pass bs maxWound hash heqb i fs) = [] -> Forall (fun p => snd p = OFile (fst p)) fs.
  Proof.
    induction fs as [|[signed o] r IH]; intros i Hr; [constructor|].
    cbn [files_pass] in Hr. rewrite reported_app in Hr. apply app_eq_nil in Hr. destruct Hr as [H1 H2].
    constructor; [apply (file_no_wound_matches i); assumption|apply (IH (i + 1)); assumption].
  Qed.

  (** validation that reports nothing has seen exactly the signed build *)
  Theorem never_false_valid_lemma ds ls fs ws :
    validate_core bs maxWound hash heqb ds ls fs = Some ws -> reported ws = [] ->
    Forall (fun o => o = ODir) ds /\
    Forall (fun p => snd p = OLink (fst p)) ls /\
    Forall (fun p => snd p = OFile (fst p)) fs.
  Proof.
    unfold validate_core. intros Hv Hr.
    destruct (dirs_pass 0 ds) as [wd|] eqn:Ed; [|discriminate].
    destruct (links_pass 0 ls) as [wl|] eqn:El; [|discriminate].
    inversion Hv; subst ws. rewrite !reported_app in Hr.
    apply app_eq_nil in Hr. destruct Hr as [H1 Hr]. apply app_eq_nil in Hr. destruct Hr as [H2 H3].
    split; [apply (dirs_pass_clean ds 0 wd); assumption|].
    split; [apply (links_pass_clean ls 0 wl); assumption|apply (files_pass_clean fs 0); assumption].
  Qed.

  (** fail-fast validation answers Ok only for a directory that matches *)
  Theorem failfast_ok_matches ds ls fs :
    failfast_core bs maxWound hash heqb ds ls fs = ROk ->
    Forall (fun o => o = ODir) ds /\
    Forall (fun p => snd p = OLink (fst p)) ls /\
    Forall (fun p => snd p = OFile (fst p)) fs.
  Proof.
    unfold failfast_core. destruct (validate_core bs maxWound hash heqb ds ls fs) as [ws|] eqn:Ev; [|discriminate].
    destruct (reported ws) eqn:Er; [|discriminate]. intros _. apply (never_false_valid_lemma ds ls fs ws); assumption.
  Qed.

  (** ranges and indices of everything sent *)
  Lemma dirs_pass_wf ds : forall i ws w,
    dirs_pass i ds = Some ws -> In w ws -> wk w = WDir /\ i <= widx w < i + Z.of_nat (length ds) /\ wellformed w.
  Proof. clear hash_inj. try clear bs_pos.
    induction ds as [|o r IH]; intros i ws w Hp Hin; cbn [dirs_pass] in Hp.
    - inversion Hp; subst ws. destruct Hin.
    - assert (Hrec : forall ws', dirs_pass (i + 1) r = Some ws' -> In w ws' ->
                                wk w = WDir /\ i <= widx w < i + Z.of_nat (length (o :: r)) /\ wellformed w).
      { intros ws' Hp' Hin'. destruct (IH (i + 1) ws' w Hp' Hin') as [Hk [Hi Hw]]. cbn [length]. split; [assumption|]. split; [lia|assumption]. }
      destruct o; try discriminate;
        try (destruct (dirs_pass (i + 1) r) as [ws'|] eqn:Er; [|discriminate]; cbn in Hp; inversion Hp; subst ws;
             destruct Hin as [E|Hin]; [subst w; unfold wellformed; cbn [wk widx wstart wend length]; repeat split; lia|apply (Hrec ws'); [reflexivity|assumption]]).
      apply (Hrec ws); assumption.
  Qed.

  Lemma links_pass_wf ls : forall i ws w,
    links_pass i ls = Some ws -> In w ws -> wk w = WSymlink /\ i <= widx w < i + Z.of_nat (length ls) /\ wellformed w.
  Proof. clear hash_inj. try clear bs_pos.
    induction ls as [|[want o] r IH]; intros i ws w Hp Hin; cbn [links_pass] in Hp.
    - inversion Hp; subst ws. destruct Hin.
    - assert (Hrec : forall ws', links_pass (i + 1) r = Some ws' -> In w ws' ->
                                wk w = WSymlink /\ i <= widx w < i + Z.of_nat (length ((want, o) :: r)) /\ wellformed w).
      { intros ws' Hp' Hin'. destruct (IH (i + 1) ws' w Hp' Hin') as [Hk [Hi Hw]]. cbn [length]. split; [assumption|]. split; [lia|assumption]. }
      assert (Hcons : forall ws', links_pass (i + 1) r = Some ws' -> ws = mkwound WSymlink i 0 0 :: ws' ->
                                wk w = WSymlink /\ i <= widx w < i + Z.of_nat (length ((want, o) :: r)) /\ wellformed w).
      { intros ws' Hp' E. subst ws. destruct Hin as [E|Hin]; [subst w; unfold wellformed; cbn [wk widx wstart wend length]; repeat split; lia|apply (Hrec ws'); assumption]. }
      destruct o; try discriminate;
        try (destruct (links_pass (i + 1) r) as [ws'|] eqn:Er; [|discriminate]; cbn in Hp; inversion Hp; apply (Hcons ws'); [reflexivity|congruence]).
      destruct (N.eqb dest want).
      + apply (Hrec ws); assumption.
      + destruct (links_pass (i + 1) r) as [ws'|] eqn:Er; [|discriminate]. cbn in Hp. inversion Hp. apply (Hcons ws'); [reflexivity|congruence].
  Qed.

  Lemma files_pass_wf fs : forall i w,
    In w (files_pass bs maxWound hash heqb i fs) -> i <= widx w < i + Z.of_nat (length fs) /\ wellformed w.
  Proof. clear hash_inj.
    induction fs as [|[signed o] r IH]; intros i w Hin; cbn [files_pass] in Hin; [destruct Hin|].
    apply in_app_or in Hin. destruct Hin as [Hin|Hin].
    - destruct (file_wounds_wellformed i signed o w Hin) as [Hi Hw]. cbn [length]. split; [lia|assumption].
    - destruct (IH (i + 1) w Hin) as [Hi Hw]. cbn [length]. split; [lia|assumption].
  Qed.

  Lemma files_pass_kind fs : forall i w,
    In w (files_pass bs maxWound hash heqb i fs) -> wk w = WFile \/ wk w = WClosed.
  Proof. clear hash_inj.
    induction fs as [|[signed o] r IH]; intros i w Hin; cbn [files_pass] in Hin; [destruct Hin|].
          apply in_app_or in Hin. destruct Hin as [Hin|Hin]; [|apply (IH (i + 1) w); assumption].
          destruct o; cbn [file_wounds] in Hin; try (destruct Hin as [E|[]]; subst w; left; reflexivity).
          assert (Hraw : forall x, In x (raw i signed content) -> wk x = WFile \/ wk x = WClosed).
          { intros x Hx. destruct (raw_in _ _ _ _ Hx) as [j [b [Hb Ex]]]. subst x.
            pose proof (vwnd_shape bs bs_pos hash heqb i (Z.of_nat (length signed)) (grp signed) (group_consistent signed) j b) as S.
            cbn zeta in S. apply S. }
          assert (Hagg : forall ws0 last, (forall x, In x ws0 -> wk x = WFile \/ wk x = WClosed) ->
                                          (forall l, last = Some l -> wk l = WFile) ->
                                          forall x, In x (aggregate maxWound last ws0) -> wk x = WFile \/ wk x = WClosed).
          { induction ws0 as [|y r0 IH0]; intros last Hws Hl x Hx.
            - destruct last as [l|]; cbn in Hx; [destruct Hx as [E|[]]; subst; left; apply Hl; reflexivity|destruct Hx].
            - cbn [aggregate] in Hx. assert (Hr0 : forall x0, In x0 r0 -> wk x0 = WFile \/ wk x0 = WClosed) by (intros; apply Hws; right; assumption).
              destruct (Hws y (or_introl eq_refl)) as [Ek|Ek]; rewrite Ek in Hx.
              + destruct last as [l|].
                * destruct ((wend l <=? wstart y) && (wstart y >=? wstart l)).
                  -- destruct (wend _ - wstart _ >=? maxWound).
                     ++ destruct Hx as [E|Hx]; [subst x; left; cbn; apply Hl; reflexivity|apply (IH0 None); [assumption|intros ? X; discriminate|assumption]].
                     ++ apply (IH0 (Some (mkwound (wk l) (widx l) (wstart l) (wend y)))); [assumption| |assumption].
                        intros l0 E0. inversion E0. cbn. apply Hl. reflexivity.
                  -- destruct Hx as [E|Hx]; [subst x; left; apply Hl; reflexivity|].
                     apply (IH0 (Some y)); [assumption|intros l0 E0; inversion E0; subst; assumption|assumption].
                * apply (IH0 (Some y)); [assumption|intros l0 E0; inversion E0; subst; assumption|assumption].
              + destruct last as [l|].
                * destruct Hx as [E|[E|Hx]]; [subst x; left; apply Hl; reflexivity|subst x; right; assumption|].
                  apply (IH0 None); [assumption|intros ? X; discriminate|assumption].
                * destruct Hx as [E|Hx]; [subst x; right; assumption|]. apply (IH0 None); [assumption|intros ? X; discriminate|assumption]. }
          fold (raw i signed content) in Hin.
          destruct (Z.of_nat (length content) =? Z.of_nat (length signed)).
          - apply (Hagg (raw i signed content) None); [assumption|intros ? X; discriminate|assumption].
          - apply in_app_or in Hin. destruct Hin as [Hin|[E|[]]]; [|subst w; left; reflexivity].
            apply (Hagg (raw i signed content) None); [assumption|intros ? X; discriminate|assumption].
  Qed.

  (** every marker sent names an existing entry of its kind and has 0 <= start <= end *)
  Theorem wounds_wellformed_lemma ds ls fs ws w :
    validate_core bs maxWound hash heqb ds ls fs = Some ws -> In w ws ->
    wellformed w /\
    match wk w with
    | WDir => 0 <= widx w < Z.of_nat (length ds)
    | WSymlink => 0 <= widx w < Z.of_nat (length ls)
    | WFile | WClosed => 0 <= widx w < Z.of_nat (length fs)
    end.
  Proof. clear hash_inj.
    unfold validate_core. intros Hv Hin.
    destruct (dirs_pass 0 ds) as [wd|] eqn:Ed; [|discriminate].
    destruct (links_pass 0 ls) as [wl|] eqn:El; [|discriminate].
    inversion Hv; subst ws. apply in_app_or in Hin. destruct Hin as [Hin|Hin].
    - destruct (dirs_pass_wf ds 0 wd w Ed Hin) as [Hk [Hi Hw]]. rewrite Hk. split; [assumption|lia].
    - apply in_app_or in Hin. destruct Hin as [Hin|Hin].
      + destruct (links_pass_wf ls 0 wl w El Hin) as [Hk [Hi Hw]]. rewrite Hk. split; [assumption|lia].
      + destruct (files_pass_wf fs 0 w Hin) as [Hi Hw]. split; [assumption|].
        pose proof (files_pass_kind fs 0 w Hin) as Hkind.
        destruct Hkind as [Hk|Hk]; rewrite Hk; lia.
  Qed.


  (* ---------- locating deviations in the whole run ---------- *)

  Lemma dirs_pass_wounded ds : forall i ws k o,
    dirs_pass i ds = Some ws -> nth_error ds k = Some o -> o <> ODir ->
    In (mkwound WDir (i + Z.of_nat k) 0 0) ws.
  Proof. clear hash_inj. try clear bs_pos.
    induction ds as [|x r IH]; intros i ws k o Hp Hn Ho; [destruct k; discriminate|].
    cbn [dirs_pass] in Hp. destruct k as [|k]; cbn [nth_error] in Hn.
    - inversion Hn; subst x. replace (i + Z.of_nat 0) with i by lia.
      destruct o; try discriminate; try congruence;
        (destruct (dirs_pass (i + 1) r) as [ws'|]; [|discriminate]; cbn in Hp; inversion Hp; left; reflexivity).
    - replace (i + Z.of_nat (S k)) with (i + 1 + Z.of_nat k) by lia.
      destruct x; try discriminate;
        try (destruct (dirs_pass (i + 1) r) as [ws'|] eqn:Er; [|discriminate]; cbn in Hp; inversion Hp; right; apply (IH (i + 1) ws' k o); assumption).
      apply (IH (i + 1) ws k o); assumption.
  Qed.

  Lemma links_pass_wounded ls : forall i ws k want o,
    links_pass i ls = Some ws -> nth_error ls k = Some (want, o) -> o <> OLink want ->
    In (mkwound WSymlink (i + Z.of_nat k) 0 0) ws.
  Proof. clear hash_inj. try clear bs_pos.
    induction ls as [|[xw x] r IH]; intros i ws k want o Hp Hn Ho; [destruct k; discriminate|].
    cbn [links_pass] in Hp. destruct k as [|k]; cbn [nth_error] in Hn.
    - inversion Hn; subst xw x. replace (i + Z.of_nat 0) with i by lia.
      destruct o; try discriminate;
        try (destruct (links_pass (i + 1) r) as [ws'|]; [|discriminate]; cbn in Hp; inversion Hp; left; reflexivity).
      destruct (N.eqb dest want) eqn:E; [apply N.eqb_eq in E; congruence|].
      destruct (links_pass (i + 1) r) as [ws'|]; [|discriminate]. cbn in Hp. inversion Hp. left. reflexivity.
    - replace (i + Z.of_nat (S k)) with (i + 1 + Z.of_nat k) by lia.
      destruct x; try discriminate;
        try (destruct (links_pass (i + 1) r) as [ws'|] eqn:Er; [|discriminate]; cbn in Hp; inversion Hp; right; apply (IH (i + 1) ws' k want o); assumption).
      destruct (N.eqb dest xw).
      + apply (IH (i + 1) ws k want o); assumption.
      + destruct (links_pass (i + 1) r) as [ws'|] eqn:Er; [|discriminate]. cbn in Hp. inversion Hp. right. apply (IH (i + 1) ws' k want o); assumption.
  Qed.

  Lemma files_pass_contains fs : forall i k signed o w,
    nth_error fs k = Some (signed, o) ->
    In w (file_wounds bs maxWound hash heqb (i + Z.of_nat k) signed o) ->
    In w (files_pass bs maxWound hash heqb i fs).
  Proof. clear hash_inj. try clear bs_pos.
    induction fs as [|[s0 o0] r IH]; intros i k signed o w Hn Hin; [destruct k; discriminate|].
    cbn [files_pass]. apply in_or_app. destruct k as [|k]; cbn [nth_error] in Hn.
    - inversion Hn; subst s0 o0. left. replace (i + Z.of_nat 0) with i in Hin by lia. assumption.
    - right. apply (IH (i + 1) k signed o w Hn). replace (i + 1 + Z.of_nat k) with (i + Z.of_nat (S k)) by lia. assumption.
  Qed.

  Lemma in_reported w ws : In w (reported ws) <-> In w ws /\ healthy w = false.
  Proof. clear hash_inj. try clear bs_pos. unfold reported. rewrite filter_In. destruct (healthy w); cbn; intuition congruence. Qed.

  (** the property's central clause: every deviating offset below the signed length of a
      regular file lies inside a reported FILE wound naming that file *)
  Theorem deviation_located_lemma ds ls fs ws k signed content (o : nat) :
    validate_core bs maxWound hash heqb ds ls fs = Some ws ->
    nth_error fs k = Some (signed, OFile content) ->
    (o < length signed)%nat -> nth_error content o <> nth_error signed o ->
    exists w, In w (reported ws) /\ in_wound (Z.of_nat k) (Z.of_nat o) w.
  Proof.
    unfold validate_core. intros Hv Hn Ho Hd.
    destruct (dirs_pass 0 ds) as [wd|]; [|discriminate]. destruct (links_pass 0 ls) as [wl|]; [|discriminate].
    inversion Hv; subst ws.
    destruct (file_wounds_cover (Z.of_nat k) signed content o Ho Hd) as [w [Hin Hw]].
    exists w. split; [|assumption]. apply in_reported in Hin. destruct Hin as [Hin Hh]. apply in_reported. split; [|assumption].
    apply in_or_app. right. apply in_or_app. right.
    apply (files_pass_contains fs 0 k signed (OFile content) w Hn). assumption.
  Qed.

  (** a file that is shorter or longer than signed, missing, or of another kind gets a wound *)
  Theorem file_mismatch_wounded_lemma ds ls fs ws k signed o :
    validate_core bs maxWound hash heqb ds ls fs = Some ws ->
    nth_error fs k = Some (signed, o) ->
    (forall c, o = OFile c -> length c <> length signed) ->
    exists w, In w (reported ws) /\ wk w = WFile /\ widx w = Z.of_nat k.
  Proof. clear hash_inj. try clear bs_pos.
    unfold validate_core. intros Hv Hn Ho.
    destruct (dirs_pass 0 ds) as [wd|]; [|discriminate]. destruct (links_pass 0 ls) as [wl|]; [|discriminate].
    inversion Hv; subst ws.
    assert (Hex : exists w, In w (reported (file_wounds bs maxWound hash heqb (Z.of_nat k) signed o)) /\ wk w = WFile /\ widx w = Z.of_nat k).
    { destruct o; try (eexists; split; [left; reflexivity|split; reflexivity]).
      apply length_mismatch_wounded. apply Ho. reflexivity. }
    destruct Hex as [w [Hin Hw]]. exists w. split; [|assumption].
    apply in_reported in Hin. destruct Hin as [Hin Hh]. apply in_reported. split; [|assumption].
    apply in_or_app. right. apply in_or_app. right. apply (files_pass_contains fs 0 k signed o w Hn). assumption.
  Qed.

  Theorem dir_mismatch_wounded_lemma ds ls fs ws k o :
    validate_core bs maxWound hash heqb ds ls fs = Some ws ->
    nth_error ds k = Some o -> o <> ODir ->
    In (mkwound WDir (Z.of_nat k) 0 0) (reported ws).
  Proof. clear hash_inj. try clear bs_pos.
    unfold validate_core. intros Hv Hn Ho.
    destruct (dirs_pass 0 ds) as [wd|] eqn:Ed; [|discriminate]. destruct (links_pass 0 ls) as [wl|]; [|discriminate].
    inversion Hv; subst ws. apply in_reported. split; [|reflexivity].
    apply in_or_app. left. apply (dirs_pass_wounded ds 0 wd k o Ed Hn Ho).
  Qed.

  Theorem link_mismatch_wounded_lemma ds ls fs ws k want o :
    validate_core bs maxWound hash heqb ds ls fs = Some ws ->
    nth_error ls k = Some (want, o) -> o <> OLink want ->
    In (mkwound WSymlink (Z.of_nat k) 0 0) (reported ws).
  Proof. clear hash_inj. try clear bs_pos.
    unfold validate_core. intros Hv Hn Ho.
    destruct (dirs_pass 0 ds) as [wd|]; [|discriminate]. destruct (links_pass 0 ls) as [wl|] eqn:El; [|discriminate].
    inversion Hv; subst ws. apply in_reported. split; [|reflexivity].
    apply in_or_app. right. apply in_or_app. left. apply (links_pass_wounded ls 0 wl k want o El Hn Ho).
  Qed.


  (* ---------- wounded directories hide what is below them ---------- *)

  Lemma eff_cases u o : eff u o = o \/ eff u o = OMissing.
  Proof. destruct u; [right|left]; reflexivity. Qed.

  Lemma eff_dirs_spec ds : forall flags es fl,
    eff_dirs flags ds = (es, fl) ->
    length es = length ds /\
    (forall k anc o, nth_error ds k = Some (anc, o) -> exists u, nth_error es k = Some (eff u o)).
  Proof. clear hash_inj. try clear bs_pos.
    induction ds as [|[anc0 o0] r IH]; intros flags es fl He; cbn [eff_dirs] in He.
    - inversion He. split; [reflexivity|]. intros k anc o Hn. destruct k; discriminate.
    - destruct (eff_dirs (flags ++ [negb (is_dir (eff (under flags anc0) o0))]) r) as [es' fl'] eqn:Er.
      inversion He; subst es fl. destruct (IH _ _ _ Er) as [Hl Hn]. split; [cbn; lia|].
      intros k anc o Hk. destruct k as [|k]; cbn [nth_error] in *.
      + inversion Hk; subst. eexists. reflexivity.
      + apply (Hn k anc o Hk).
  Qed.

  Lemma whole_wound_located ds ls fs ws k signed o0 (o : nat) :
    validate_core bs maxWound hash heqb ds ls fs = Some ws ->
    nth_error fs k = Some (signed, o0) -> (forall c, o0 <> OFile c) ->
    (o < length signed)%nat ->
    exists w, In w (reported ws) /\ in_wound (Z.of_nat k) (Z.of_nat o) w.
  Proof. clear hash_inj. try clear bs_pos.
    unfold validate_core. intros Hv Hn Hnf Ho.
    destruct (dirs_pass 0 ds) as [wd|]; [|discriminate]. destruct (links_pass 0 ls) as [wl|]; [|discriminate].
    inversion Hv; subst ws.
    exists (mkwound WFile (Z.of_nat k) 0 (Z.of_nat (length signed))). split.
    - apply in_reported. split; [|reflexivity]. apply in_or_app. right. apply in_or_app. right.
      apply (files_pass_contains fs 0 k signed o0 _ Hn).
      destruct o0; try (left; reflexivity). exfalso. apply (Hnf content). reflexivity.
    - unfold in_wound. cbn [wk widx wstart wend]. repeat split; lia.
  Qed.

  Notation validate' := (validate bs maxWound hash heqb).

  Lemma validate_unfold ds ls fs :
    validate' ds ls fs =
    validate_core bs maxWound hash heqb (fst (eff_dirs [] ds))
      (map (fun x => let '(anc, want, o) := x in (want, eff (under (snd (eff_dirs [] ds)) anc) o)) ls)
      (map (fun x => let '(anc, signed, o) := x in (signed, eff (under (snd (eff_dirs [] ds)) anc) o)) fs).
  Proof. clear hash_inj. try clear bs_pos. unfold validate. destruct (eff_dirs [] ds). reflexivity. Qed.

  Theorem deviation_located_full ds ls fs ws k anc signed content (o : nat) :
    validate' ds ls fs = Some ws ->
    nth_error fs k = Some (anc, signed, OFile content) ->
    (o < length signed)%nat -> nth_error content o <> nth_error signed o ->
    exists w, In w (reported ws) /\ in_wound (Z.of_nat k) (Z.of_nat o) w.
  Proof.
    rewrite validate_unfold. intros Hv Hn Ho Hd.
    set (fl := snd (eff_dirs [] ds)) in *.
    assert (Hm : nth_error (map (fun x : list nat * list N * obs => let '(anc, signed, o) := x in (signed, eff (under fl anc) o)) fs) k
                 = Some (signed, eff (under fl anc) (OFile content))).
    { rewrite nth_error_map, Hn. reflexivity. }
    destruct (under fl anc); cbn [eff] in Hm.
    - eapply whole_wound_located; [exact Hv|exact Hm|intros c X; discriminate|assumption].
    - eapply deviation_located_lemma; [exact Hv|exact Hm|assumption|assumption].
  Qed.

  Theorem file_mismatch_wounded_full ds ls fs ws k anc signed o :
    validate' ds ls fs = Some ws ->
    nth_error fs k = Some (anc, signed, o) ->
    (forall c, o = OFile c -> length c <> length signed) ->
    exists w, In w (reported ws) /\ wk w = WFile /\ widx w = Z.of_nat k.
  Proof. clear hash_inj. try clear bs_pos.
    rewrite validate_unfold. intros Hv Hn Ho.
    set (fl := snd (eff_dirs [] ds)) in *.
    assert (Hm : nth_error (map (fun x : list nat * list N * obs => let '(anc, signed, o) := x in (signed, eff (under fl anc) o)) fs) k
                 = Some (signed, eff (under fl anc) o)).
    { rewrite nth_error_map, Hn. reflexivity. }
    eapply file_mismatch_wounded_lemma; [exact Hv|exact Hm|].
    intros c Hc. destruct (under fl anc); cbn [eff] in Hc; [discriminate|]. apply Ho. assumption.
  Qed.

  Theorem dir_mismatch_wounded_full ds ls fs ws k anc o :
    validate' ds ls fs = Some ws ->
    nth_error ds k = Some (anc, o) -> o <> ODir ->
    In (mkwound WDir (Z.of_nat k) 0 0) (reported ws).
  Proof. clear hash_inj. try clear bs_pos.
    rewrite validate_unfold. intros Hv Hn Ho.
    destruct (eff_dirs [] ds) as [es fl] eqn:Ee. cbn [fst snd] in Hv.
    destruct (eff_dirs_spec ds [] es fl Ee) as [_ Hnth]. destruct (Hnth k anc o Hn) as [u Hu].
    eapply dir_mismatch_wounded_lemma; [exact Hv|exact Hu|]. destruct u; cbn [eff]; [discriminate|assumption].
  Qed.

  Theorem link_mismatch_wounded_full ds ls fs ws k anc want o :
    validate' ds ls fs = Some ws ->
    nth_error ls k = Some (anc, want, o) -> o <> OLink want ->
    In (mkwound WSymlink (Z.of_nat k) 0 0) (reported ws).
  Proof. clear hash_inj. try clear bs_pos.
    rewrite validate_unfold. intros Hv Hn Ho.
    set (fl := snd (eff_dirs [] ds)) in *.
    assert (Hm : nth_error (map (fun x : list nat * N * obs => let '(anc, want, o) := x in (want, eff (under fl anc) o)) ls) k
                 = Some (want, eff (under fl anc) o)).
    { rewrite nth_error_map, Hn. reflexivity. }
    eapply link_mismatch_wounded_lemma; [exact Hv|exact Hm|]. destruct (under fl anc); cbn [eff]; [discriminate|assumption].
  Qed.

  Lemma eff_dirs_all_dir ds : forall flags es fl,
    eff_dirs flags ds = (es, fl) -> Forall (fun o => o = ODir) es -> Forall (fun p => snd p = ODir) ds.
  Proof. clear hash_inj. try clear bs_pos.
    induction ds as [|[anc0 o0] r IH]; intros flags es fl He Hall; [constructor|].
    cbn [eff_dirs] in He.
    destruct (eff_dirs (flags ++ [negb (is_dir (eff (under flags anc0) o0))]) r) as [es' fl'] eqn:Er.
    inversion He; subst es fl. inversion Hall as [|x l Hx Hl]; subst.
    constructor; [|apply (IH _ _ _ Er Hl)].
    cbn [snd]. destruct (under flags anc0); cbn [eff] in Hx; [discriminate|assumption].
  Qed.

  Theorem never_false_valid_full ds ls fs ws :
    validate' ds ls fs = Some ws -> reported ws = [] ->
    Forall (fun p => snd p = ODir) ds /\
    Forall (fun x => let '(_, want, o) := x in o = OLink want) ls /\
    Forall (fun x => let '(_, signed, o) := x in o = OFile signed) fs.
  Proof.
    rewrite validate_unfold. intros Hv Hr.
    destruct (eff_dirs [] ds) as [es fl] eqn:Ee. cbn [fst snd] in Hv.
    destruct (never_false_valid_lemma _ _ _ _ Hv Hr) as [Hd [Hl Hf]].
    split; [apply (eff_dirs_all_dir ds [] es fl Ee Hd)|]. split.
    - apply Forall_forall. intros [[anc want] o] Hin. rewrite Forall_forall in Hl.
      specialize (Hl (want, eff (under fl anc) o)). cbn [fst snd] in Hl.
      assert (Hi : In (want, eff (under fl anc) o) (map (fun x : list nat * N * obs => let '(anc, want, o) := x in (want, eff (under fl anc) o)) ls)).
      { apply in_map_iff. exists (anc, want, o). split; [reflexivity|assumption]. }
      specialize (Hl Hi). destruct (under fl anc); cbn [eff] in Hl; [discriminate|assumption].
    - apply Forall_forall. intros [[anc signed] o] Hin. rewrite Forall_forall in Hf.
      specialize (Hf (signed, eff (under fl anc) o)). cbn [fst snd] in Hf.
      assert (Hi : In (signed, eff (under fl anc) o) (map (fun x : list nat * list N * obs => let '(anc, signed, o) := x in (signed, eff (under fl anc) o)) fs)).
      { apply in_map_iff. exists (anc, signed, o). split; [reflexivity|assumption]. }
      specialize (Hf Hi). destruct (under fl anc); cbn [eff] in Hf; [discriminate|assumption].
  Qed.

  Theorem failfast_ok_matches_full ds ls fs :
    failfast bs maxWound hash heqb ds ls fs = ROk ->
    Forall (fun p => snd p = ODir) ds /\
    Forall (fun x => let '(_, want, o) := x in o = OLink want) ls /\
    Forall (fun x => let '(_, signed, o) := x in o = OFile signed) fs.
  Proof.
    unfold failfast. destruct (validate' ds ls fs) as [ws|] eqn:Ev; [|discriminate].
    destruct (reported ws) eqn:Er; [|discriminate]. intros _. apply (never_false_valid_full ds ls fs ws); assumption.
  Qed.

  Theorem wounds_wellformed_full ds ls fs ws w :
    validate' ds ls fs = Some ws -> In w ws ->
    wellformed w /\
    match wk w with
    | WDir => 0 <= widx w < Z.of_nat (length ds)
    | WSymlink => 0 <= widx w < Z.of_nat (length ls)
    | WFile | WClosed => 0 <= widx w < Z.of_nat (length fs)
    end.
  Proof. clear hash_inj.
    rewrite validate_unfold. intros Hv Hin.
    destruct (eff_dirs [] ds) as [es fl] eqn:Ee. cbn [fst snd] in Hv.
    destruct (eff_dirs_spec ds [] es fl Ee) as [Hlen _].
    pose proof (wounds_wellformed_lemma _ _ _ _ w Hv Hin) as [Hw Hk]. split; [assumption|].
    rewrite !map_length, Hlen in Hk. exact Hk.
  Qed.

End FileProofs.
