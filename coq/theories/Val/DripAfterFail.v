(** Calls made on a drip writer AFTER one of its calls failed (pwr/drip/dripwriter.go).

    [Val/Drip.v] transcribes [Write] and [Close]; a session there stops at the first failing call.
    Callers do go on, though: [poolBowl.Transpose] closes the writer after a failed copy, and so does
    any caller following the [defer w.Close()] idiom.

    Pinned code: [Write] returned on the Validate error with the refused block still in its full
    buffer, and [Close] flushed whatever the buffer held - so the refused block was validated a
    second time (by a closure whose block index had moved on) and relayed when that passed.
    [close_after_reject_refuted] is the witness (a file that lost its first block); replayed on Go
    it is finding C18-close-after-reject, repaired by the sticky error [dw.err].

    Repaired code: the first error is kept; every later [Write] / [Close] returns it and relays
    nothing.  [sticky_*] below model that and prove the sink frozen. *)
From Wharf Require Import Base.Prelude Val.Drip.

Section AfterFail.
  Context {A St : Type}.
  Variable bs : nat.
  Variable validate : St -> list A -> St * bool.

  (** the calls a client can make *)
  Inductive call := CWrite (data : list A) | CClose.

  (** pinned code: no memory of the failure *)
  Definition old_call (w : @dw A St) (c : call) : @dw A St * outcome :=
    match c with CWrite d => write bs validate w d | CClose => close validate w end.

  (** repaired code: [dw.err] *)
  Definition sticky_call (wf : @dw A St * bool) (c : call) : (@dw A St * bool) * outcome :=
    let '(w, failed) := wf in
    if failed then ((w, true), Failed)
    else match c with
         | CWrite d => let '(w', o) := write bs validate w d in
                       ((w', match o with Failed => true | _ => false end), o)
         | CClose => let '(w', o) := close validate w in ((w', false), o)
         end.

  Fixpoint sticky_calls (wf : @dw A St * bool) (cs : list call) : (@dw A St * bool) * list outcome :=
    match cs with
    | [] => (wf, [])
    | c :: r => let '(wf', o) := sticky_call wf c in
                let '(wf'', os) := sticky_calls wf' r in (wf'', o :: os)
    end.

  (** once a call has failed, whatever the client calls afterwards fails and nothing more
      reaches the underlying writer *)
  Lemma sticky_frozen : forall cs w,
    let '(wf', os) := sticky_calls (w, true) cs in
    wf' = (w, true) /\ Forall (fun o => o = Failed) os.
  Proof.
    induction cs as [|c r IH]; intros w; cbn [sticky_calls sticky_call].
    - split; [reflexivity|constructor].
    - specialize (IH w). destruct (sticky_calls (w, true) r) as [wf'' os].
      destruct IH as [E F]. split; [exact E|constructor; [reflexivity|exact F]].
  Qed.

  (** a failing [Write] sets the flag and relays nothing that [write] itself did not relay *)
  Lemma sticky_write_failed : forall w d w',
    write bs validate w d = (w', Failed) ->
    sticky_call (w, false) (CWrite d) = ((w', true), Failed).
  Proof. intros w d w' E. cbn [sticky_call]. rewrite E. reflexivity. Qed.

  (** so: after the failing Write of a session, the sink is for ever the one the session reports *)
  Lemma sticky_after_failed_write : forall w d w' cs,
    write bs validate w d = (w', Failed) ->
    let '(wf', os) := sticky_calls (w, false) (CWrite d :: cs) in
    dsink (fst wf') = dsink w' /\ Forall (fun o => o = Failed) os.
  Proof.
    intros w d w' cs E. cbn [sticky_calls]. rewrite (sticky_write_failed _ _ _ E).
    pose proof (sticky_frozen cs w') as F. destruct (sticky_calls (w', true) cs) as [wf'' os].
    destruct F as [E' F]. subst wf''. split; [reflexivity|constructor; [reflexivity|exact F]].
  Qed.

  (** until a call fails the repaired writer is the pinned writer *)
  Lemma sticky_agrees_until_failure : forall w c,
    let '(wf', o) := sticky_call (w, false) c in
    let '(w', o') := old_call w c in
    fst wf' = w' /\ o = o'.
  Proof.
    intros w [d|]; cbn [sticky_call old_call].
    - destruct (write bs validate w d) as [w' o]. split; reflexivity.
    - destruct (close validate w) as [w' o]. split; reflexivity.
  Qed.
End AfterFail.

(** Witness against the pinned code.  Block size 2; the Validate closure of the validating pool:
    state = block index, accept iff the block equals the signed block at that index, index advanced
    either way (pwr/validatingpool.go: [blockIndex++] after ValidateAsError). *)
Definition sig_validate (signed : list (list nat)) (idx : nat) (b : list nat) : nat * bool :=
  (S idx, match nth_error signed idx with
          | Some s => if list_eq_dec Nat.eq_dec s b then true else false
          | None => false
          end).

(** signed = [1;2][3;4][5]; written = the same file without its first block. *)
Lemma close_after_reject_refuted :
  exists (signed : list (list nat)) (d : list nat) w',
    write 2 (sig_validate signed) (mkdw [] 0 []) d = (w', Failed) /\
    dsink w' = [] /\
    (* pinned code: Close after the failed Write relays the refused block *)
    dsink (fst (old_call 2 (sig_validate signed) w' CClose)) = [[3; 4]] /\
    (* repaired code: nothing *)
    dsink (fst (fst (sticky_calls 2 (sig_validate signed) (mkdw [] 0 [], false) [CWrite d; CClose]))) = [].
Proof.
  exists [[1; 2]; [3; 4]; [5]], [3; 4; 5].
  eexists. split; [vm_compute; reflexivity|]. split; [reflexivity|]. split; vm_compute; reflexivity.
Qed.
