(** Proofs about the validating pool model (error mode / wound mode). *)
From Wharf Require Import Base.Prelude Base.BlocksLemmas Val.Drip Val.DripProofs Val.VPool.
From Coq Require Import ZifyBool ZifyNat.
Ltac Zify.zify_post_hook ::= Z.div_mod_to_equations.

Section VPoolProofs.
  Context {A H : Type}.
  Variable bs : Z.
  Hypothesis bs_pos : (0 < bs)%Z.
  Variable hash : list A -> H.
  Variable heqb : H -> H -> bool.
  Variable fileIndex fileSize : Z.
  Variable group : list H.

  Notation verr := (validate_as_error hash heqb group).
  Notation vwnd := (validate_as_wound bs hash heqb fileIndex fileSize group).

  (** index of the first written block that is rejected in error mode *)
  Fixpoint first_bad (i : nat) (bl : list (list A)) : option nat :=
    match bl with
    | [] => None
    | b :: r => if verr i b then first_bad (S i) r else Some i
    end.

  Lemma first_bad_ge i bl j : first_bad i bl = Some j -> i <= j < i + length bl.
  Proof.
    revert i. induction bl as [|b r IH]; intros i; cbn [first_bad length]; [discriminate|].
    destruct (verr i b).
    - intros E. apply IH in E. lia.
    - intros E. inversion E. lia.
  Qed.

  Lemma feed_err bl : forall i wl sink,
    feed (validate_err hash heqb group) (i, wl) sink bl =
    match first_bad i bl with
    | None => ((i + length bl, wl), sink ++ bl, None)
    | Some j => ((S j, wl), sink ++ firstn (j - i) bl, Some (nth (j - i) bl []))
    end.
  Proof.
    induction bl as [|b r IH]; intros i wl sink; cbn [feed first_bad length].
    - rewrite app_nil_r. do 3 f_equal. lia.
    - unfold validate_err at 1. cbn [fst snd].
      destruct (verr i b) eqn:E.
      + rewrite IH. destruct (first_bad (S i) r) as [j|] eqn:Ej.
        * apply first_bad_ge in Ej. replace (j - i) with (S (j - S i)) by lia.
          cbn [firstn nth]. rewrite <- app_assoc. reflexivity.
        * rewrite <- app_assoc. do 3 f_equal. lia.
      + replace (i - i) with 0 by lia. cbn [firstn nth]. rewrite app_nil_r. reflexivity.
  Qed.

  (** error mode, any slicing: rejected exactly at the first bad block, and exactly the
      blocks before it reached the inner pool *)
  Theorem error_mode_lemma ws :
    let wb := blocks (Z.to_nat bs) (concat ws) in
    match first_bad 0 wb with
    | None => vpool_error bs hash heqb group ws = (Done, length ws, wb)
    | Some j => exists k, vpool_error bs hash heqb group ws = (Failed, k, firstn j wb) /\ k <= length ws
    end.
  Proof.
    cbn zeta. unfold vpool_error.
    assert (Hb : 0 < Z.to_nat bs) by lia.
    pose proof (session_spec (Z.to_nat bs) Hb (validate_err hash heqb group) vinit ws) as Hs.
    unfold vinit in *. rewrite feed_err in Hs. cbn [app] in Hs.
    destruct (first_bad 0 (blocks (Z.to_nat bs) (concat ws))) as [j|] eqn:Ej.
    - destruct Hs as [k [Hk Hle]]. rewrite Hk. exists k. rewrite Nat.sub_0_r. split; [reflexivity|assumption].
    - rewrite Hs. reflexivity.
  Qed.

  (** [first_bad] really is the first rejected block *)
  Lemma first_bad_spec bl : forall i j,
    first_bad i bl = Some j ->
    (forall k b, nth_error bl k = Some b -> i + k < j -> verr (i + k) b = true) /\
    (exists b, nth_error bl (j - i) = Some b /\ verr j b = false).
  Proof.
    induction bl as [|x r IH]; intros i j; cbn [first_bad]; [discriminate|].
    destruct (verr i x) eqn:E.
    - intros Hj. pose proof (first_bad_ge _ _ _ Hj) as Hge. destruct (IH _ _ Hj) as [Hall [b [Hb Hv]]]. split.
      + intros k b' Hk Hlt. destruct k as [|k]; cbn [nth_error] in Hk.
        * inversion Hk; subst. rewrite Nat.add_0_r. assumption.
        * replace (i + S k) with (S i + k) by lia. apply Hall; [assumption|lia].
      + exists b. replace (j - i) with (S (j - S i)) by lia. cbn [nth_error]. split; assumption.
    - intros Hj. inversion Hj; subst j. split.
      + intros k b Hk Hlt. lia.
      + exists x. rewrite Nat.sub_diag. cbn [nth_error]. split; [reflexivity|assumption].
  Qed.

  Lemma first_bad_none bl : forall i,
    (forall k b, nth_error bl k = Some b -> verr (i + k) b = true) -> first_bad i bl = None.
  Proof.
    induction bl as [|x r IH]; intros i Hall; cbn [first_bad]; [reflexivity|].
    pose proof (Hall 0 x eq_refl) as H0. rewrite Nat.add_0_r in H0. rewrite H0.
    apply IH. intros k b Hk. replace (S i + k) with (i + S k) by lia. apply Hall. exact Hk.
  Qed.

  Lemma equal_passes_lemma ws :
    (forall k b, nth_error (blocks (Z.to_nat bs) (concat ws)) k = Some b -> verr k b = true) ->
    vpool_error bs hash heqb group ws = (Done, length ws, blocks (Z.to_nat bs) (concat ws)).
  Proof.
    intros Hall. pose proof (error_mode_lemma ws) as E. cbn zeta in E.
    rewrite (first_bad_none _ 0 Hall) in E. exact E.
  Qed.

  (** wounds produced for a list of blocks starting at block index [i] *)
  Fixpoint wounds_from (i : nat) (bl : list (list A)) : list wound :=
    match bl with
    | [] => []
    | b :: r => vwnd i b :: wounds_from (S i) r
    end.

  Lemma feed_wound bl : forall i wl sink,
    feed (validate_wound bs hash heqb fileIndex fileSize group) (i, wl) sink bl =
    ((i + length bl, wl ++ wounds_from i bl), sink ++ bl, None).
  Proof.
    induction bl as [|b r IH]; intros i wl sink; cbn [feed wounds_from length].
    - rewrite !app_nil_r. do 3 f_equal. lia.
    - unfold validate_wound at 1. cbn [fst snd]. rewrite IH, <- !app_assoc. cbn [app]. do 3 f_equal. lia.
  Qed.

  Theorem wound_mode_list ws :
    vpool_wounds bs hash heqb fileIndex fileSize group ws = wounds_from 0 (blocks (Z.to_nat bs) (concat ws)).
  Proof.
    unfold vpool_wounds.
    assert (Hb : 0 < Z.to_nat bs) by lia.
    pose proof (session_spec (Z.to_nat bs) Hb (validate_wound bs hash heqb fileIndex fileSize group) vinit ws) as Hs.
    unfold vinit in *. rewrite feed_wound in Hs. rewrite Hs. reflexivity.
  Qed.

  Lemma wounds_from_nth bl : forall i j b,
    nth_error bl j = Some b -> nth_error (wounds_from i bl) j = Some (vwnd (i + j) b).
  Proof.
    induction bl as [|x r IH]; intros i j b Hn; [destruct j; discriminate|].
    destruct j as [|j]; cbn [nth_error wounds_from] in *.
    - inversion Hn. rewrite Nat.add_0_r. reflexivity.
    - rewrite (IH (S i) j b Hn). do 2 f_equal. lia.
  Qed.

  Lemma wounds_from_length bl i : length (wounds_from i bl) = length bl.
  Proof. revert i. induction bl as [|x r IH]; intros i; cbn; [reflexivity|]. rewrite IH. reflexivity. Qed.

  (** shape of the marker of block [j] when the signed size and the hash group agree
      ([length group] = number of blocks of a file of [fileSize] bytes) *)
  Hypothesis group_consistent :
    (fileSize = 0%Z /\ group = []) \/
    (0 < fileSize /\ (Z.of_nat (length group) - 1) * bs < fileSize <= Z.of_nat (length group) * bs)%Z.

  Lemma vwnd_shape j b :
    let w := vwnd j b in
    widx w = fileIndex /\ wstart w = (Z.of_nat j * bs)%Z /\
    (j < length group -> wend w = Z.min ((Z.of_nat j + 1) * bs) fileSize) /\
    (wk w = WClosed <-> exists h, nth_error group j = Some h /\ heqb h (hash b) = true) /\
    (wk w = WFile \/ wk w = WClosed).
  Proof.
    cbn zeta. unfold validate_as_wound.
    destruct (nth_error group j) as [h|] eqn:En.
    - assert (Hj : j < length group) by (apply nth_error_Some; congruence).
      assert (Hend : (Z.of_nat j * bs + compute_block_size bs fileSize (Z.of_nat j) = Z.min ((Z.of_nat j + 1) * bs) fileSize)%Z).
      { unfold compute_block_size. destruct group_consistent as [[Hz Hg]|[Hp Hr]]; [subst group; cbn in Hj; lia|].
        destruct (bs * (Z.of_nat j + 1) >? fileSize)%Z eqn:E.
        - assert (Z.of_nat j = Z.of_nat (length group) - 1)%Z by nia.
          assert (fileSize mod bs = fileSize - Z.of_nat j * bs)%Z.
          { symmetry. apply Z.mod_unique_pos with (q := Z.of_nat j); nia. }
          nia.
        - nia. }
      destruct (heqb h (hash b)) eqn:Eh; cbn [widx wstart wend wk];
        (split; [reflexivity|]); (split; [reflexivity|]); (split; [intros _; exact Hend|]); split.
      + split; [intros _; exists h; split; [reflexivity|assumption]|reflexivity].
      + right. reflexivity.
      + split; [intros X; discriminate|].
        intros [h' [Hh' Hq]]. inversion Hh'; subst. congruence.
      + left. reflexivity.
    - cbn [widx wstart wend wk]. split; [reflexivity|]. split; [reflexivity|]. split; [|split].
      + intros Hj. apply nth_error_None in En. lia.
      + split; [intros X; discriminate|intros [h' [Hh' _]]; discriminate].
      + left. reflexivity.
  Qed.
End VPoolProofs.
