(** Model of pwr/drip/dripwriter.go: [Writer.Write] and [Writer.Close].
    [bs] = len(dw.Buffer); [validate] is the (stateful) Validate closure, modelled
    state-passing; [dsink] is what reached the underlying writer, one entry per Write. *)
From Wharf Require Import Base.Prelude.

Section Drip.
  Context {A St : Type}.
  Variable bs : nat.
  Variable validate : St -> list A -> St * bool.   (* true = nil error *)

  Record dw := mkdw { dbuf : list A; dval : St; dsink : list (list A) }.

  (** the [for dataOffset < totalBytes] loop of [Write]; one iteration per fuel unit.
      Go: writtenBytes = min(total-dataOffset, len(Buffer)-offset); copy; if offset ==
      len(Buffer) then Validate, inner Write, offset = 0. On a Validate error the buffer
      stays full (offset == len(Buffer)) and (0, err) is returned. *)
  Fixpoint write_loop (fuel : nat) (w : dw) (data : list A) : dw * outcome :=
    match fuel with
    | O => (w, OutOfFuel)
    | S f =>
      match data with
      | [] => (w, Done)
      | _ =>
        let n := Nat.min (length data) (bs - length (dbuf w)) in
        let buf' := dbuf w ++ firstn n data in
        let rest := skipn n data in
        if Nat.eqb (length buf') bs then
          let '(s', ok) := validate (dval w) buf' in
          if ok then write_loop f (mkdw [] s' (dsink w ++ [buf'])) rest
          else (mkdw buf' s' (dsink w), Failed)
        else write_loop f (mkdw buf' (dval w) (dsink w)) rest
      end
    end.

  Definition write (w : dw) (data : list A) : dw * outcome :=
    write_loop (2 * length data + 2) w data.

  (** [Close]: flush a non-empty partial buffer through Validate. *)
  Definition close (w : dw) : dw * outcome :=
    match dbuf w with
    | [] => (w, Done)
    | b => let '(s', ok) := validate (dval w) b in
           if ok then (mkdw [] s' (dsink w ++ [b]), Done)
           else (mkdw b s' (dsink w), Failed)
    end.

  (** a sequence of Write calls followed by Close; stops at the first failing call.
      Returns the final writer, the outcome and the number of Write calls that returned nil. *)
  Fixpoint writes (w : dw) (ws : list (list A)) (k : nat) : dw * outcome * nat :=
    match ws with
    | [] => (w, Done, k)
    | d :: r => match write w d with
                | (w', Done) => writes w' r (S k)
                | (w', o) => (w', o, k)
                end
    end.

  Definition session (s0 : St) (ws : list (list A)) : dw * outcome * nat :=
    match writes (mkdw [] s0 []) ws 0 with
    | (w, Done, k) => let '(w', o) := close w in (w', o, k)
    | r => r
    end.
End Drip.
