(** Proofs about the drip writer model: what reaches the validator / the inner writer depends
    only on the concatenation of the writes, and is exactly its block decomposition. *)
From Wharf Require Import Base.Prelude Base.BlocksLemmas Val.Drip.

Section DripProofs.
  Context {A St : Type}.
  Variable bs : nat.
  Hypothesis bs_pos : 0 < bs.
  Variable validate : St -> list A -> St * bool.

  (** reference semantics: validate-then-relay the blocks one by one, stop at the first rejection *)
  Fixpoint feed (s : St) (sink : list (list A)) (bl : list (list A)) : St * list (list A) * option (list A) :=
    match bl with
    | [] => (s, sink, None)
    | b :: r => let '(s', ok) := validate s b in
                if ok then feed s' (sink ++ [b]) r else (s', sink, Some b)
    end.

  Lemma feed_app s sink a b :
    feed s sink (a ++ b) =
    match feed s sink a with
    | (s', sink', None) => feed s' sink' b
    | r => r
    end.
  Proof.
    revert s sink. induction a as [|x a IH]; intros s sink; cbn [app feed]; [reflexivity|].
    destruct (validate s x) as [s' ok]. destruct ok; [apply IH|reflexivity].
  Qed.

  Definition after_feed (r : St * list (list A) * option (list A)) (rem : list A) : dw * outcome :=
    match r with
    | (s', sink', None) => (mkdw rem s' sink', Done)
    | (s', sink', Some b) => (mkdw b s' sink', Failed)
    end.

  Lemma write_loop_spec fuel : forall (w : @dw A St) data,
    length (dbuf w) < bs -> length data < fuel ->
    write_loop bs validate fuel w data =
    after_feed (feed (dval w) (dsink w) (fst (full bs (dbuf w ++ data)))) (snd (full bs (dbuf w ++ data))).
  Proof.
    induction fuel as [|f IH]; intros w data Hb Hf; [lia|].
    destruct data as [|x data'].
    - cbn [write_loop]. rewrite app_nil_r, full_short by assumption. cbn. destruct w; reflexivity.
    - cbn [write_loop]. remember (x :: data') as data eqn:Ed.
      assert (Hlen : 1 <= length data) by (subst; cbn; lia).
      set (n := Nat.min (length data) (bs - length (dbuf w))).
      destruct (Nat.lt_ge_cases (length (dbuf w) + length data) bs) as [Hs|Hl].
      + (* everything fits in the buffer without filling it *)
        assert (Hn : n = length data) by (unfold n; lia).
        rewrite Hn, firstn_all, skipn_all.
        assert (Hlb : length (dbuf w ++ data) < bs) by (rewrite app_length; lia).
        replace (length (dbuf w ++ data) =? bs) with false by (symmetry; apply Nat.eqb_neq; lia).
        destruct f as [|f']; [cbn in Hf; lia|]. cbn [write_loop].
        rewrite full_short by assumption. reflexivity.
      + assert (Hn : n = bs - length (dbuf w)) by (unfold n; lia).
        assert (Hfirst : dbuf w ++ firstn n data = firstn bs (dbuf w ++ data)).
        { rewrite firstn_app, <- Hn. rewrite (firstn_all2 (dbuf w)) by lia. reflexivity. }
        assert (Hskip : skipn n data = skipn bs (dbuf w ++ data)).
        { rewrite skipn_app, <- Hn. rewrite (skipn_all2 (dbuf w)) by lia. reflexivity. }
        rewrite Hfirst, Hskip.
        assert (Hall : bs <= length (dbuf w ++ data)) by (rewrite app_length; lia).
        replace (length (firstn bs (dbuf w ++ data)) =? bs) with true
          by (symmetry; apply Nat.eqb_eq; rewrite firstn_length; lia).
        rewrite (full_long bs bs_pos (dbuf w ++ data)) by assumption. cbn [fst snd feed].
        destruct (validate (dval w) (firstn bs (dbuf w ++ data))) as [s' ok].
        destruct ok; [|reflexivity].
        rewrite IH; cbn [dbuf dval dsink app length]; [reflexivity|lia|].
        rewrite skipn_length, app_length. lia.
  Qed.

  Lemma write_spec (w : @dw A St) data :
    length (dbuf w) < bs ->
    write bs validate w data =
    after_feed (feed (dval w) (dsink w) (fst (full bs (dbuf w ++ data)))) (snd (full bs (dbuf w ++ data))).
  Proof. intros H. unfold write. apply write_loop_spec; [assumption|lia]. Qed.

  (** a sequence of writes behaves like one write of the concatenation *)
  Lemma writes_spec ws : forall (w : @dw A St) k,
    length (dbuf w) < bs ->
    let all := dbuf w ++ concat ws in
    match feed (dval w) (dsink w) (fst (full bs all)) with
    | (s', sink', None) => writes bs validate w ws k = (mkdw (snd (full bs all)) s' sink', Done, k + length ws)
    | (s', sink', Some b) => exists k', writes bs validate w ws k = (mkdw b s' sink', Failed, k')
                                        /\ k <= k' < k + length ws
    end.
  Proof.
    induction ws as [|d ws IH]; intros w k Hb; cbn zeta.
    - cbn [concat writes]. rewrite app_nil_r, full_short by assumption. cbn. destruct w. f_equal. f_equal. lia.
    - cbn [concat writes]. rewrite write_spec by assumption.
      rewrite app_assoc. rewrite (full_app bs bs_pos (dbuf w ++ d) (concat ws)). cbn [fst snd].
      rewrite feed_app.
      destruct (feed (dval w) (dsink w) (fst (full bs (dbuf w ++ d)))) as [[s1 sink1] [b1|]] eqn:E1; cbn [after_feed].
      + exists k. split; [reflexivity|cbn [length]; lia].
      + specialize (IH (mkdw (snd (full bs (dbuf w ++ d))) s1 sink1) (S k)).
        cbn [dbuf dval dsink] in IH. specialize (IH (full_rem_short bs bs_pos _)). cbn zeta in IH.
        destruct (feed s1 sink1 (fst (full bs (snd (full bs (dbuf w ++ d)) ++ concat ws)))) as [[s2 sink2] [b2|]].
        * destruct IH as [k' [Hk Hr]]. exists k'. split; [assumption|cbn [length]; lia].
        * rewrite IH. f_equal. cbn [length]. lia.
  Qed.

  (** the whole session (writes + close) = feeding [blocks bs (concat ws)] *)
  Theorem session_spec s0 ws :
    match feed s0 [] (blocks bs (concat ws)) with
    | (s', sink', None) => session bs validate s0 ws = (mkdw [] s' sink', Done, length ws)
    | (s', sink', Some b) => exists k, session bs validate s0 ws = (mkdw b s' sink', Failed, k) /\ k <= length ws
    end.
  Proof.
    unfold session.
    pose proof (writes_spec ws (mkdw [] s0 []) 0) as H. cbn [dbuf dval dsink app length] in H.
    specialize (H bs_pos). cbn zeta in H.
    rewrite (blocks_full bs bs_pos), feed_app.
    destruct (feed s0 [] (fst (full bs (concat ws)))) as [[s1 sink1] [b1|]].
    - destruct H as [k' [Hk Hr]]. rewrite Hk. exists k'. split; [reflexivity|lia].
    - rewrite H. unfold close. cbn [dbuf dval dsink].
      destruct (snd (full bs (concat ws))) as [|x r] eqn:Er; cbn [feed].
      + reflexivity.
      + destruct (validate s1 (x :: r)) as [s2 ok]. destruct ok; cbn [feed].
        * reflexivity.
        * exists (length ws). split; [reflexivity|lia].
  Qed.

  (** hence: slicing independence *)
  Corollary session_chunking_indep s0 ws1 ws2 :
    concat ws1 = concat ws2 ->
    let '(w1, o1, _) := session bs validate s0 ws1 in
    let '(w2, o2, _) := session bs validate s0 ws2 in
    w1 = w2 /\ o1 = o2.
  Proof.
    intros Hc. pose proof (session_spec s0 ws1) as H1. pose proof (session_spec s0 ws2) as H2.
    rewrite Hc in H1.
    destruct (feed s0 [] (blocks bs (concat ws2))) as [[s' sink'] [b|]].
    - destruct H1 as [k1 [E1 _]]. destruct H2 as [k2 [E2 _]]. rewrite E1, E2. split; reflexivity.
    - rewrite H1, H2. split; reflexivity.
  Qed.
End DripProofs.

(** with a validator that never rejects, the inner writer receives exactly the blocks *)
Lemma feed_always_ok {A St} (validate : St -> list A -> St * bool) :
  (forall s b, snd (validate s b) = true) ->
  forall bl s sink, exists s', feed validate s sink bl = (s', sink ++ bl, None).
Proof.
  intros Hok. induction bl as [|b r IH]; intros s sink; cbn [feed].
  - exists s. rewrite app_nil_r. reflexivity.
  - specialize (Hok s b). destruct (validate s b) as [s1 ok]. cbn in Hok. subst ok.
    destruct (IH s1 (sink ++ [b])) as [s' E]. exists s'. rewrite E, <- app_assoc. reflexivity.
Qed.

Theorem drip_chunking_lemma {A St} (bs : nat) (validate : St -> list A -> St * bool) s0 ws :
  0 < bs -> (forall s b, snd (validate s b) = true) ->
  exists s', session bs validate s0 ws = (mkdw [] s' (blocks bs (concat ws)), Done, length ws).
Proof.
  intros Hbs Hok. pose proof (session_spec bs Hbs validate s0 ws) as H.
  destruct (feed_always_ok validate Hok (blocks bs (concat ws)) s0 []) as [s' E].
  rewrite E in H. exists s'. exact H.
Qed.

(** Which call fails: if the session fails with [k] successful Write calls, then the first [k]
    writes alone succeed, and either [k = length ws] (the failure happened in Close, on the
    short last block) or the [k]-th write (0-based) is the one that fails. *)
Section WhichCall.
  Context {A St : Type}.
  Variable bs : nat.
  Variable validate : St -> list A -> St * bool.

  Lemma writes_failed_at ws : forall (w w' : @dw A St) k0 k,
    writes bs validate w ws k0 = (w', Failed, k) ->
    k0 <= k /\ exists w1 d,
      writes bs validate w (firstn (k - k0) ws) k0 = (w1, Done, k) /\
      nth_error ws (k - k0) = Some d /\ write bs validate w1 d = (w', Failed).
  Proof.
    induction ws as [|d r IH]; intros w w' k0 k Hw; cbn [writes] in Hw; [inversion Hw|].
    destruct (write bs validate w d) as [w2 o] eqn:Ew. destruct o.
    - destruct (IH w2 w' (S k0) k Hw) as [Hle [w1 [d1 [Hp [Hn Hf]]]]].
      split; [lia|]. exists w1, d1. replace (k - k0) with (S (k - S k0)) by lia.
      cbn [firstn writes nth_error]. rewrite Ew. repeat split; assumption.
    - inversion Hw; subst w2 k. split; [lia|]. exists w, d. rewrite Nat.sub_diag. cbn [firstn writes nth_error].
      repeat split; assumption.
    - inversion Hw.
  Qed.

  Lemma writes_done_count ws : forall (w w' : @dw A St) k0 k,
    writes bs validate w ws k0 = (w', Done, k) -> k = k0 + length ws.
  Proof.
    induction ws as [|d r IH]; intros w w' k0 k Hw; cbn [writes] in Hw.
    - inversion Hw. cbn. lia.
    - destruct (write bs validate w d) as [w2 o]. destruct o; [|inversion Hw|inversion Hw].
      apply IH in Hw. cbn [length]. lia.
  Qed.

  Theorem session_failing_call s0 ws (w' : @dw A St) k :
    session bs validate s0 ws = (w', Failed, k) ->
    (k = length ws /\ exists w1, writes bs validate (mkdw [] s0 []) ws 0 = (w1, Done, k) /\ close validate w1 = (w', Failed)) \/
    (k < length ws /\ exists w1 d,
        writes bs validate (mkdw [] s0 []) (firstn k ws) 0 = (w1, Done, k) /\
        nth_error ws k = Some d /\ write bs validate w1 d = (w', Failed)).
  Proof.
    unfold session. destruct (writes bs validate (mkdw [] s0 []) ws 0) as [[w1 o] k1] eqn:Ew.
    destruct o.
    - destruct (close validate w1) as [w2 o2] eqn:Ec. intros Hs. inversion Hs; subst w2 o2 k1.
      left. pose proof (writes_done_count _ _ _ _ _ Ew) as Hk. cbn in Hk. split; [assumption|].
      exists w1. split; [reflexivity|assumption].
    - intros Hs. inversion Hs; subst w1 k1. right.
      destruct (writes_failed_at _ _ _ _ _ Ew) as [_ [w1 [d [Hp [Hn Hf]]]]]. rewrite Nat.sub_0_r in *.
      split; [apply nth_error_Some; congruence|]. exists w1, d. repeat split; assumption.
    - intros Hs. inversion Hs.
  Qed.
End WhichCall.
