(** Proofs about the safekeeper model (Val/Safekeeper.v): every byte a consumer is served
    comes from a block that was compared, in full, with the signed block; a consumer that
    completes has seen exactly what it would have seen on the signed file; the pristine file is
    never rejected.  Section [Refuted]: the same statements fail on the code before the fixes. *)
From Wharf Require Import Base.Prelude Base.BlocksLemmas Val.Drip Val.VPool Val.Safekeeper.
From Coq Require Import ZifyBool ZifyNat ZifyN.
Local Open Scope N_scope.

(** ---- lists: [slice], [skipn], [blocks] ---- *)
Section Lists.
  Context {A : Type}.
  Implicit Types l : list A.

  Lemma skipn_skipn (x y : nat) l : skipn x (skipn y l) = skipn (y + x) l.
  Proof.
    revert l. induction y as [|y IH]; intros l; [reflexivity|].
    destruct l as [|a l]; [now rewrite !skipn_nil|]. cbn [skipn Nat.add]. apply IH.
  Qed.

  Lemma nlen_nil : nlen (@nil A) = 0.
  Proof. reflexivity. Qed.

  Lemma nlen_zero l : nlen l = 0 <-> l = [].
  Proof. unfold nlen. rewrite <- length_zero_iff_nil. lia. Qed.

  Lemma slice_length l off len : nlen (slice l off len) = N.min len (nlen l - off).
  Proof. unfold nlen, slice. rewrite firstn_length, skipn_length. lia. Qed.

  Lemma slice_nil l off len : nlen l <= off -> slice l off len = [].
  Proof.
    intros Hl. unfold slice. rewrite skipn_all2; [apply firstn_nil|]. unfold nlen in Hl. lia.
  Qed.

  Lemma slice_zero l off : slice l off 0 = [].
  Proof. reflexivity. Qed.

  Lemma slice_is_nil l off len : slice l off len = [] -> len = 0 \/ nlen l <= off.
  Proof. intros E. apply nlen_zero in E. rewrite slice_length in E. lia. Qed.

  Lemma slice_slice l a n r m : r + m <= n -> slice (slice l a n) r m = slice l (a + r) m.
  Proof.
    intros Hr. unfold slice. rewrite skipn_firstn_comm, firstn_firstn, skipn_skipn.
    f_equal; [lia|]. f_equal. lia.
  Qed.

  Lemma slice_skipn l off len : slice l off len = firstn (N.to_nat len) (skipn (N.to_nat off) l).
  Proof. reflexivity. Qed.

  (** block [k] of [l] *)
  Lemma blocks_nth (n : nat) : (0 < n)%nat -> forall (k : nat) l,
    nth_error (blocks n l) k =
    if (k * n <? length l)%nat then Some (firstn n (skipn (k * n) l)) else None.
  Proof.
    intros Hn. induction k as [|k IH]; intros l.
    - destruct l as [|a l]; [reflexivity|].
      rewrite blocks_cons by (assumption || discriminate). reflexivity.
    - destruct l as [|a l].
      + cbn [blocks length blocks_aux nth_error]. destruct (S k * n <? 0)%nat eqn:E; [|reflexivity].
        apply Nat.ltb_lt in E. lia.
      + rewrite blocks_cons by (assumption || discriminate). cbn [nth_error]. rewrite IH.
        rewrite skipn_length, skipn_skipn. rewrite Nat.mul_succ_l, (Nat.add_comm n (k * n)).
        destruct (k * n <? length (a :: l) - n)%nat eqn:E1; destruct (k * n + n <? length (a :: l))%nat eqn:E2;
          try reflexivity.
        * apply Nat.ltb_lt in E1. apply Nat.ltb_ge in E2. lia.
        * apply Nat.ltb_ge in E1. apply Nat.ltb_lt in E2. lia.
  Qed.

  Lemma concat_blocks (n : nat) : (0 < n)%nat -> forall l, concat (blocks n l) = l.
  Proof.
    intros Hn l. remember (length l) as len eqn:El. revert l El.
    induction len as [len IH] using lt_wf_ind. intros l El.
    destruct l as [|a l]; [reflexivity|].
    rewrite blocks_cons by (assumption || discriminate). cbn [concat].
    rewrite (IH (length (skipn n (a :: l)))); [apply firstn_skipn| |reflexivity].
    rewrite skipn_length. cbn [length] in *. lia.
  Qed.
End Lists.

(** ---- specification: what each consumer is served on the signed file itself ---- *)
Definition ideal_pieces {A} (bs c : N) (signed : list A) (pat : pattern) : list (list A) :=
  match pat with
  | PCopy => blocks (N.to_nat c) signed
  | PRange bi span => blocks (N.to_nat c) (slice signed (bs * bi) (range_size bs (nlen signed) bi span))
  | PChunks cis => map (fun ci => slice signed (ci * c) c) cis
  end.

(** a block-range op of a valid patch lies inside the signed file *)
Definition pattern_ok {A} (bs : N) (signed : list A) (pat : pattern) : Prop :=
  match pat with
  | PRange bi span => 1 <= span /\ (bi + span) * bs < nlen signed + bs
  | _ => True
  end.

(** a step (file index, pattern) and its result (pieces served, outcome) on a pool whose
    files are [sa] = (signed, actual) pairs *)
Definition step_sound {A} (bs c : N) (sa : list (list A * list A)) (step : N * pattern) (res : list (list A) * outcome) : Prop :=
  snd res <> OutOfFuel /\
  match nth_error sa (N.to_nat (fst step)) with
  | None => res = ([], Failed)
  | Some (s, _) =>
    (exists k, fst res = firstn k (ideal_pieces bs c s (snd step))) /\
    (snd res = Done -> fst res = ideal_pieces bs c s (snd step))
  end.

Definition steps_ok {A} (bs : N) (sa : list (list A * list A)) (steps : list (N * pattern)) : Prop :=
  forall fi pat s a, In (fi, pat) steps -> nth_error sa (N.to_nat fi) = Some (s, a) -> pattern_ok bs s pat.

Definition files_of {A H} (bs : N) (hash : list A -> H) (sa : list (list A * list A)) : list (skfile A H) :=
  map (fun x => skfile_of bs hash (fst x) (snd x)) sa.

(** ---- one file ---- *)
Section OneFile.
  Context {A H : Type}.
  Variables bs c m : N.
  Hypothesis c_pos : 0 < c.
  Hypothesis m_pos : 0 < m.
  Hypothesis bs_c : bs = c * m.                 (* Go: 64 KiB = 32 KiB * 2 *)
  Variable hash : list A -> H.
  Variable heqb : H -> H -> bool.
  Hypothesis hash_inj : forall a b, heqb (hash a) (hash b) = true -> a = b.
  Variables signed actual : list A.

  Let f := skfile_of bs hash signed actual.
  Let cn := N.to_nat c.

  Lemma bs_pos : 0 < bs.
  Proof. subst bs. lia. Qed.

  Lemma cn_pos : (0 < cn)%nat.
  Proof. unfold cn. lia. Qed.

  (** block [k] of the actual file is, in full (up to the next boundary or the end of the
      file), block [k] of the signed file *)
  Definition block_eq (k : N) : Prop := slice actual (k * bs) bs = slice signed (k * bs) bs.
  Definition cache_ok (ca : cache) : Prop := forall k, ca k = Some true -> block_eq k.
  Definition rd_ok (s : rd) : Prop := roff s = rpos s /\ cache_ok (rcache s).

  Lemma cache_ok_empty : cache_ok cache_empty.
  Proof. intros k E. discriminate. Qed.

  Lemma cache_ok_set ca k ok : cache_ok ca -> (ok = true -> block_eq k) -> cache_ok (cache_set ca k ok).
  Proof.
    intros Hca Hk j. unfold cache_set. destruct (j =? k) eqn:E.
    - apply N.eqb_eq in E. subst j. intros E'. inversion E'. auto.
    - apply Hca.
  Qed.

  (** a read that starts in block [k] and stays inside it *)
  Lemma block_eq_slice k off len :
    block_eq k -> off / bs = k -> off mod bs + len <= bs -> slice actual off len = slice signed off len.
  Proof.
    intros E Hk Hfit. pose proof bs_pos as Hb.
    assert (Hoff : off = k * bs + off mod bs).
    { subst k. rewrite N.mul_comm. apply N.div_mod. lia. }
    remember (off mod bs) as r eqn:Hr. rewrite Hoff.
    rewrite <- !(slice_slice _ (k * bs) bs) by lia.
    unfold block_eq in E. rewrite E. reflexivity.
  Qed.

  (** where the signed file ends inside (or before) block [k], the actual file ends too *)
  Lemma block_eq_end k off :
    block_eq k -> off / bs = k -> nlen signed <= off -> nlen actual <= off.
  Proof.
    intros E Hk Hend. pose proof bs_pos as Hb.
    assert (Hoff : off = k * bs + off mod bs).
    { subst k. rewrite N.mul_comm. apply N.div_mod. lia. }
    assert (Hr : off mod bs < bs) by (apply N.mod_lt; lia).
    unfold block_eq in E. apply (f_equal nlen) in E. rewrite !slice_length in E. lia.
  Qed.

  (** ValidateAsError against the signature of [signed] *)
  Lemma vae_true k data :
    validate_as_error hash heqb (sign bs hash signed) (N.to_nat k) data = true ->
    data = slice signed (k * bs) bs.
  Proof.
    pose proof bs_pos as Hb.
    unfold validate_as_error, sign. rewrite nth_error_map, blocks_nth by lia.
    destruct (N.to_nat k * N.to_nat bs <? length signed)%nat; cbn [option_map]; [|discriminate].
    intros E. apply hash_inj in E. subst data. unfold slice. rewrite N2Nat.inj_mul. reflexivity.
  Qed.

  Lemma validate_fixed ca off ca' r mv :
    cache_ok ca -> validate_block bs hash heqb Fixed f ca off = (ca', r, mv) ->
    cache_ok ca' /\ r <> REof /\ (r = RValid -> block_eq (off / bs)).
  Proof.
    intros Hca. unfold validate_block. destruct (ca (off / bs)) as [[|]|] eqn:E; intros V; inversion V; subst; clear V.
    - split; [assumption|]. split; [discriminate|]. intros _. apply Hca, E.
    - split; [assumption|]. split; discriminate.
    - cbn [factual fsize fgroup f skfile_of].
      set (data := slice actual (off / bs * bs) bs).
      set (ok := if is_nil data && (nlen signed <=? off / bs * bs) then true
                 else validate_as_error hash heqb (sign bs hash signed) (N.to_nat (off / bs)) data).
      assert (Hok : ok = true -> block_eq (off / bs)).
      { unfold ok, block_eq. fold data. destruct (is_nil data && (nlen signed <=? off / bs * bs)) eqn:E1.
        - intros _. apply andb_prop in E1. destruct E1 as [E1 E2]. apply N.leb_le in E2.
          rewrite (slice_nil signed) by assumption. destruct data; [reflexivity|discriminate].
        - apply vae_true. }
      split; [apply cache_ok_set; assumption|]. split.
      + destruct ok; discriminate.
      + intros Er. apply Hok. destruct ok; [reflexivity|discriminate].
  Qed.

  (** a [c]-aligned offset: a read of at most [c] bytes stays inside its block *)
  Lemma aligned_fits off len : off mod c = 0 -> len <= c -> off mod bs + len <= bs.
  Proof.
    intros Hal Hlen.
    assert (Hoff : off = c * (off / c)).
    { pose proof (N.div_mod off c) as D. lia. }
    rewrite Hoff, bs_c, N.mul_mod_distr_l by lia.
    assert (Hq : (off / c) mod m < m) by (apply N.mod_lt; lia).
    nia.
  Qed.

  (** Read on the fixed code *)
  Lemma sk_read_fixed s len s' r :
    rd_ok s -> 0 < len -> (roff s mod bs + len <= bs \/ nlen signed <= roff s) ->
    sk_read bs hash heqb Fixed f s len = (s', r) ->
    rd_ok s' /\
    match r with
    | RData d => d = slice signed (roff s) len /\ d = slice actual (roff s) len /\ d <> [] /\ roff s' = roff s + nlen d
    | REOF => nlen signed <= roff s /\ roff s' = roff s
    | RErr => roff s' = roff s
    end.
  Proof.
    intros [Hpos Hca] Hlen Hpre. unfold sk_read.
    destruct (validate_block bs hash heqb Fixed f (rcache s) (roff s)) as [[ca' r'] mv] eqn:V.
    apply validate_fixed in V; [|assumption]. destruct V as (Hca' & Hne & Hbe).
    assert (Hp : (if mv then roff s else rpos s) = roff s) by (destruct mv; congruence).
    rewrite Hp. destruct r'.
    - specialize (Hbe eq_refl). cbn [factual f skfile_of].
      assert (E : slice actual (roff s) len = slice signed (roff s) len).
      { destruct Hpre as [Hfit|Hend].
        - eapply block_eq_slice; eauto.
        - rewrite (slice_nil signed) by assumption. apply slice_nil. eapply block_eq_end; eauto. }
      destruct (len =? 0) eqn:E0; [apply N.eqb_eq in E0; lia|].
      destruct (is_nil (slice actual (roff s) len)) eqn:En; intros R; inversion R; subst; clear R.
      + split; [split; [reflexivity|assumption]|]. split; [|reflexivity].
        destruct (slice actual (roff s) len) eqn:Ed; [|discriminate].
        symmetry in E. apply slice_is_nil in E. lia.
      + split; [split; [reflexivity|assumption]|].
        cbn [roff]. repeat split; try assumption; try reflexivity.
        intros Ed. rewrite Ed in En. discriminate.
    - intros R; inversion R; subst; clear R. split; [split; [reflexivity|assumption]|reflexivity].
    - congruence.
  Qed.

  (** Transpose: io.CopyBuffer until EOF *)
  Lemma copy_loop_fixed : forall fuel s s' ps o,
    rd_ok s -> (roff s mod c = 0 \/ nlen signed <= roff s) ->
    nlen actual - roff s < N.of_nat fuel ->
    copy_loop bs c hash heqb Fixed fuel f s = (s', ps, o) ->
    o <> OutOfFuel /\ rd_ok s' /\
    (exists k, ps = firstn k (blocks cn (skipn (N.to_nat (roff s)) signed))) /\
    (o = Done -> ps = blocks cn (skipn (N.to_nat (roff s)) signed)).
  Proof.
    induction fuel as [|fuel IH]; intros s s' ps o Hok Hal Hfuel; [lia|].
    cbn [copy_loop].
    destruct (sk_read bs hash heqb Fixed f s c) as [s1 r] eqn:R.
    apply sk_read_fixed in R; [|assumption|assumption|].
    2:{ destruct Hal as [Hal|Hal]; [left; apply aligned_fits; [assumption|lia]|right; assumption]. }
    destruct R as [Hok1 R]. destruct r as [d| |].
    - destruct R as (Ed & Ea & Hne & Hoff).
      destruct (copy_loop bs c hash heqb Fixed fuel f s1) as [[s2 ps2] o2] eqn:L.
      intros E; inversion E; subst s2 ps o2; clear E.
      assert (Hd0 : nlen d <> 0) by (rewrite nlen_zero; assumption).
      assert (Hds : nlen d = N.min c (nlen signed - roff s)) by (rewrite Ed at 1; apply slice_length).
      assert (Hda : nlen d = N.min c (nlen actual - roff s)) by (rewrite Ea at 1; apply slice_length).
      set (X := skipn (N.to_nat (roff s)) signed) in *.
      assert (EdX : d = firstn cn X) by (rewrite Ed; reflexivity).
      assert (HX : X <> []) by (intros EX; rewrite EX, firstn_nil in EdX; contradiction).
      assert (Hrest : skipn (N.to_nat (roff s1)) signed = skipn cn X).
      { unfold X. rewrite skipn_skipn, Hoff.
        destruct (N.le_gt_cases c (nlen signed - roff s)) as [Hc|Hc].
        - f_equal. unfold cn. lia.
        - rewrite !skipn_all2; [reflexivity| |]; unfold cn, nlen in *; lia. }
      apply IH in L; [|assumption| |lia].
      2:{ rewrite Hoff. destruct (N.le_gt_cases c (nlen signed - roff s)) as [Hc|Hc].
          - left. destruct Hal as [Hal|Hal]; [|lia].
            replace (nlen d) with (1 * c) by lia. rewrite N.mod_add by lia. assumption.
          - right. lia. }
      destruct L as (Ho & Hok2 & [k Hk] & Hdone).
      rewrite Hrest in Hk, Hdone.
      rewrite (blocks_cons cn cn_pos X HX), <- EdX.
      split; [assumption|]. split; [assumption|]. split.
      + exists (S k). cbn [firstn]. rewrite Hk. reflexivity.
      + intros Eo. rewrite (Hdone Eo). reflexivity.
    - destruct R as [Hend Hoff]. intros E; inversion E; subst; clear E.
      assert (EX : skipn (N.to_nat (roff s)) signed = []) by (apply skipn_all2; unfold nlen in Hend; lia).
      rewrite EX. split; [discriminate|]. split; [assumption|]. split; [exists O; reflexivity|reflexivity].
    - intros E; inversion E; subst; clear E.
      split; [discriminate|]. split; [assumption|]. split; [exists O; reflexivity|discriminate].
  Qed.

  (** ApplySingleFull: io.CopyBuffer(LimitReader(opSize)) *)
  Lemma range_loop_fixed : forall fuel s rem s' ps o,
    rd_ok s -> (roff s mod c = 0 \/ rem = 0) -> roff s + rem <= nlen signed ->
    rem < N.of_nat fuel ->
    range_loop bs c hash heqb Fixed fuel f s rem = (s', ps, o) ->
    o <> OutOfFuel /\ rd_ok s' /\
    (exists k, ps = firstn k (blocks cn (slice signed (roff s) rem))) /\
    (o = Done -> ps = blocks cn (slice signed (roff s) rem)).
  Proof.
    induction fuel as [|fuel IH]; intros s rem s' ps o Hok Hal Hin Hfuel; [lia|].
    cbn [range_loop]. destruct (rem =? 0) eqn:E0.
    - apply N.eqb_eq in E0. subst rem. intros E; inversion E; subst; clear E.
      rewrite slice_zero. split; [discriminate|]. split; [assumption|]. split; [exists O; reflexivity|reflexivity].
    - apply N.eqb_neq in E0. destruct Hal as [Hal|Hal]; [|contradiction].
      destruct (sk_read bs hash heqb Fixed f s (N.min c rem)) as [s1 r] eqn:R.
      apply sk_read_fixed in R; [|assumption|lia|left; apply aligned_fits; [assumption|lia]].
      destruct R as [Hok1 R]. destruct r as [d| |].
      + destruct R as (Ed & Ea & Hne & Hoff).
        destruct (range_loop bs c hash heqb Fixed fuel f s1 (rem - nlen d)) as [[s2 ps2] o2] eqn:L.
        intros E; inversion E; subst s2 ps o2; clear E.
        assert (Hd0 : nlen d <> 0) by (rewrite nlen_zero; assumption).
        assert (Hds : nlen d = N.min c rem) by (rewrite Ed at 1; rewrite slice_length; lia).
        set (Y := slice signed (roff s) rem).
        assert (HY : Y <> []).
        { intros EY. apply (f_equal nlen) in EY. unfold Y in EY. rewrite slice_length, nlen_nil in EY. lia. }
        assert (EdY : d = firstn cn Y).
        { rewrite Ed. unfold Y, slice, cn. rewrite firstn_firstn. f_equal. lia. }
        assert (Hrest : slice signed (roff s1) (rem - nlen d) = skipn cn Y).
        { unfold Y, slice. rewrite skipn_firstn_comm, skipn_skipn, Hoff.
          destruct (N.le_gt_cases c rem) as [Hc|Hc].
          - f_equal; [unfold cn; lia|]. f_equal. unfold cn. lia.
          - replace (N.to_nat (rem - nlen d)) with O by lia.
            replace (N.to_nat rem - cn)%nat with O by (unfold cn; lia). reflexivity. }
        apply IH in L; [|assumption| |lia|lia].
        2:{ rewrite Hoff. destruct (N.le_gt_cases c rem) as [Hc|Hc].
            - left. replace (nlen d) with (1 * c) by lia. rewrite N.mod_add by lia. assumption.
            - right. lia. }
        destruct L as (Ho & Hok2 & [k Hk] & Hdone).
        rewrite Hrest in Hk, Hdone.
        rewrite (blocks_cons cn cn_pos Y HY), <- EdY.
        split; [assumption|]. split; [assumption|]. split.
        * exists (S k). cbn [firstn]. rewrite Hk. reflexivity.
        * intros Eo. rewrite (Hdone Eo). reflexivity.
      + destruct R as [Hend Hoff]. lia.
      + intros E; inversion E; subst; clear E.
        split; [discriminate|]. split; [assumption|]. split; [exists O; reflexivity|discriminate].
  Qed.

  (** lrufile.getChunk, chunk after chunk *)
  Lemma chunk_loop_fixed : forall cis s s' ps o,
    cache_ok (rcache s) ->
    chunk_loop bs c hash heqb Fixed f s cis = (s', ps, o) ->
    o <> OutOfFuel /\ cache_ok (rcache s') /\
    (exists k, ps = firstn k (map (fun ci => slice signed (ci * c) c) cis)) /\
    (o = Done -> ps = map (fun ci => slice signed (ci * c) c) cis).
  Proof.
    induction cis as [|ci cis IH]; intros s s' ps o Hca; cbn [chunk_loop map].
    - intros E; inversion E; subst; clear E.
      split; [discriminate|]. split; [assumption|]. split; [exists O; reflexivity|reflexivity].
    - destruct (sk_read bs hash heqb Fixed f (sk_seek s (ci * c)) c) as [s1 r] eqn:R.
      apply sk_read_fixed in R; [|split; [reflexivity|assumption]|assumption|].
      2:{ left. apply aligned_fits; [|lia]. cbn [sk_seek roff]. apply N.mod_mul. lia. }
      cbn [sk_seek roff] in R. destruct R as [[_ Hca1] R]. destruct r as [d| |].
      + destruct R as (Ed & _ & _ & _).
        destruct (chunk_loop bs c hash heqb Fixed f s1 cis) as [[s2 ps2] o2] eqn:L.
        intros E; inversion E; subst s2 ps o2; clear E.
        apply IH in L; [|assumption]. destruct L as (Ho & Hca2 & [k Hk] & Hdone).
        split; [assumption|]. split; [assumption|]. split.
        * exists (S k). cbn [firstn]. rewrite Hk, Ed. reflexivity.
        * intros Eo. rewrite (Hdone Eo), Ed. reflexivity.
      + destruct R as [Hend _].
        destruct (chunk_loop bs c hash heqb Fixed f s1 cis) as [[s2 ps2] o2] eqn:L.
        intros E; inversion E; subst s2 ps o2; clear E.
        apply IH in L; [|assumption]. destruct L as (Ho & Hca2 & [k Hk] & Hdone).
        rewrite (slice_nil signed) by assumption.
        split; [assumption|]. split; [assumption|]. split.
        * exists (S k). cbn [firstn]. rewrite Hk. reflexivity.
        * intros Eo. rewrite (Hdone Eo). reflexivity.
      + intros E; inversion E; subst; clear E.
        split; [discriminate|]. split; [assumption|]. split; [exists O; reflexivity|discriminate].
  Qed.

  Lemma range_size_in bi span :
    1 <= span -> (bi + span) * bs < nlen signed + bs ->
    bs * bi + range_size bs (nlen signed) bi span <= nlen signed.
  Proof.
    intros Hs Hin. pose proof bs_pos as Hb. unfold range_size.
    set (S := nlen signed) in *. set (L := bi + (span - 1)).
    assert (HL : L * bs < S) by (unfold L; nia).
    destruct (S <? bs * (L + 1)) eqn:E.
    - apply N.ltb_lt in E.
      assert (Hm : S - L * bs = S mod bs).
      { apply N.mod_unique with L; lia. }
      rewrite <- Hm. unfold L in *. nia.
    - apply N.ltb_ge in E. unfold L in *. nia.
  Qed.

  Lemma run_pattern_fixed p fi pat s' ps o :
    cache_ok (pcache p fi) -> pattern_ok bs signed pat ->
    run_pattern bs c hash heqb Fixed f p fi pat = (s', ps, o) ->
    o <> OutOfFuel /\ cache_ok (rcache s') /\
    (exists k, ps = firstn k (ideal_pieces bs c signed pat)) /\
    (o = Done -> ps = ideal_pieces bs c signed pat).
  Proof.
    intros Hca Hpat. destruct pat as [|bi span|cis]; cbn [run_pattern ideal_pieces].
    - intros L. apply copy_loop_fixed in L.
      + destruct L as (Ho & [_ Hca'] & Hk & Hd). cbn [sk_get_reader sk_seek roff] in Hk, Hd.
        change (N.to_nat 0) with O in Hk, Hd. cbn [skipn] in Hk, Hd. auto.
      + split; [reflexivity|assumption].
      + left. cbn [sk_get_reader sk_seek roff]. apply N.mod_0_l. lia.
      + cbn [sk_get_reader sk_seek roff factual f skfile_of]. unfold nlen. lia.
    - cbn [fsize f skfile_of]. destruct Hpat as [Hs Hin]. intros L. apply range_loop_fixed in L.
      + destruct L as (Ho & [_ Hca'] & Hk & Hd). cbn [sk_seek roff] in Hk, Hd. auto.
      + split; [reflexivity|assumption].
      + left. cbn [sk_seek roff]. rewrite bs_c.
        replace (c * m * bi) with (m * bi * c) by lia. apply N.mod_mul. lia.
      + cbn [sk_seek roff]. apply range_size_in; assumption.
      + lia.
    - intros L. apply chunk_loop_fixed in L; [|assumption].
      destruct L as (Ho & Hca' & Hk & Hd). auto.
  Qed.
End OneFile.

(** ---- the pool: any sequence of consumers ---- *)
Section Pool.
  Context {A H : Type}.
  Variables bs c m : N.
  Hypothesis c_pos : 0 < c.
  Hypothesis m_pos : 0 < m.
  Hypothesis bs_c : bs = c * m.
  Variable hash : list A -> H.
  Variable heqb : H -> H -> bool.
  Hypothesis hash_inj : forall a b, heqb (hash a) (hash b) = true -> a = b.
  Variable sa : list (list A * list A).

  Definition pool_ok (p : pool) : Prop :=
    forall fi s a, nth_error sa (N.to_nat fi) = Some (s, a) -> cache_ok bs s a (pcache p fi).

  Lemma pool_ok_empty : pool_ok pool_empty.
  Proof. intros fi s a _. apply cache_ok_empty. Qed.

  Lemma run_steps_fixed : forall steps p,
    pool_ok p -> steps_ok bs sa steps ->
    Forall2 (step_sound bs c sa) steps (run_steps bs c hash heqb Fixed (files_of bs hash sa) p steps).
  Proof.
    induction steps as [|[fi pat] steps IH]; intros p Hp Hsteps; cbn [run_steps]; [constructor|].
    unfold files_of at 1. rewrite nth_error_map.
    destruct (nth_error sa (N.to_nat fi)) as [[s a]|] eqn:E; cbn [option_map fst snd].
    - destruct (run_pattern bs c hash heqb Fixed (skfile_of bs hash s a) p fi pat) as [[s' ps] o] eqn:R.
      apply (run_pattern_fixed bs c m c_pos m_pos bs_c hash heqb hash_inj) in R.
      + destruct R as (Ho & Hca & Hk & Hd). constructor.
        * unfold step_sound. cbn [fst snd]. rewrite E. auto.
        * apply IH.
          -- intros fi' s1 a1 E1. unfold pool_after. cbn [pcache].
             destruct (fi' =? fi) eqn:Ef.
             ++ apply N.eqb_eq in Ef. subst fi'. rewrite E in E1. inversion E1; subst. assumption.
             ++ apply Hp. assumption.
          -- intros fi' pat' s1 a1 Hin. apply Hsteps. right. assumption.
      + apply Hp. assumption.
      + eapply Hsteps; [left; reflexivity|eassumption].
    - constructor.
      + unfold step_sound. cbn [fst snd]. rewrite E. split; [discriminate|reflexivity].
      + apply IH; [assumption|]. intros fi' pat' s1 a1 Hin. apply Hsteps. right. assumption.
  Qed.

  Theorem safekeeper_sound_lemma steps :
    steps_ok bs sa steps ->
    Forall2 (step_sound bs c sa) steps (run_steps bs c hash heqb Fixed (files_of bs hash sa) pool_empty steps).
  Proof. intros Hs. apply run_steps_fixed; [apply pool_ok_empty|assumption]. Qed.
End Pool.

(** ---- an undamaged file is never rejected ---- *)
Section Pristine.
  Context {A H : Type}.
  Variables bs c : N.
  Hypothesis bs_pos' : 0 < bs.
  Variable hash : list A -> H.
  Variable heqb : H -> H -> bool.
  Hypothesis heqb_refl : forall a, heqb (hash a) (hash a) = true.
  Variable signed : list A.

  Let f := skfile_of bs hash signed signed.

  (** no cached verdict is an error *)
  Definition cache_true (ca : cache) : Prop := forall k v, ca k = Some v -> v = true.

  Lemma vae_pristine k :
    k * bs < nlen signed ->
    validate_as_error hash heqb (sign bs hash signed) (N.to_nat k) (slice signed (k * bs) bs) = true.
  Proof.
    intros Hk. unfold validate_as_error, sign. rewrite nth_error_map, blocks_nth by lia.
    destruct (N.to_nat k * N.to_nat bs <? length signed)%nat eqn:E.
    - cbn [option_map]. unfold slice. rewrite N2Nat.inj_mul. apply heqb_refl.
    - apply Nat.ltb_ge in E. unfold nlen in Hk. lia.
  Qed.

  Lemma validate_pristine ca off ca' r mv :
    cache_true ca -> validate_block bs hash heqb Fixed f ca off = (ca', r, mv) ->
    cache_true ca' /\ r = RValid.
  Proof.
    intros Hca. unfold validate_block. destruct (ca (off / bs)) as [v|] eqn:E; intros V; inversion V; subst; clear V.
    - split; [assumption|]. rewrite (Hca _ _ E). reflexivity.
    - cbn [factual fsize fgroup f skfile_of].
      set (data := slice signed (off / bs * bs) bs).
      assert (Hok : (if is_nil data && (nlen signed <=? off / bs * bs) then true
                     else validate_as_error hash heqb (sign bs hash signed) (N.to_nat (off / bs)) data) = true).
      { destruct (is_nil data && (nlen signed <=? off / bs * bs)) eqn:E1; [reflexivity|].
        apply vae_pristine. apply andb_false_iff in E1. destruct E1 as [E1|E1].
        - destruct (N.le_gt_cases (nlen signed) (off / bs * bs)) as [Hle|Hgt]; [|assumption].
          unfold data in E1. rewrite slice_nil in E1 by assumption. discriminate.
        - apply N.leb_gt in E1. assumption. }
      rewrite Hok. split; [|reflexivity].
      intros k v. unfold cache_set. destruct (k =? off / bs); [intros E'; inversion E'; reflexivity|apply Hca].
  Qed.

  Lemma sk_read_pristine s len s' r :
    cache_true (rcache s) -> sk_read bs hash heqb Fixed f s len = (s', r) ->
    cache_true (rcache s') /\ r <> RErr.
  Proof.
    intros Hca. unfold sk_read.
    destruct (validate_block bs hash heqb Fixed f (rcache s) (roff s)) as [[ca' r'] mv] eqn:V.
    apply validate_pristine in V; [|assumption]. destruct V as [Hca' ->].
    destruct (len =? 0); [intros R; inversion R; subst; split; [assumption|discriminate]|].
    destruct (is_nil _); intros R; inversion R; subst; split; try assumption; discriminate.
  Qed.

  Lemma copy_loop_pristine : forall fuel s s' ps o,
    cache_true (rcache s) -> copy_loop bs c hash heqb Fixed fuel f s = (s', ps, o) ->
    cache_true (rcache s') /\ o <> Failed.
  Proof.
    induction fuel as [|fuel IH]; intros s s' ps o Hca; cbn [copy_loop].
    - intros E; inversion E; subst. split; [assumption|discriminate].
    - destruct (sk_read bs hash heqb Fixed f s c) as [s1 r] eqn:R.
      apply sk_read_pristine in R; [|assumption]. destruct R as [Hca1 Hr]. destruct r as [d| |]; [| |congruence].
      + destruct (copy_loop bs c hash heqb Fixed fuel f s1) as [[s2 ps2] o2] eqn:L.
        intros E; inversion E; subst. eapply IH; eassumption.
      + intros E; inversion E; subst. split; [assumption|discriminate].
  Qed.

  Lemma range_loop_pristine : forall fuel s rem s' ps o,
    cache_true (rcache s) -> range_loop bs c hash heqb Fixed fuel f s rem = (s', ps, o) ->
    cache_true (rcache s') /\ o <> Failed.
  Proof.
    induction fuel as [|fuel IH]; intros s rem s' ps o Hca; cbn [range_loop].
    - intros E; inversion E; subst. split; [assumption|discriminate].
    - destruct (rem =? 0); [intros E; inversion E; subst; split; [assumption|discriminate]|].
      destruct (sk_read bs hash heqb Fixed f s (N.min c rem)) as [s1 r] eqn:R.
      apply sk_read_pristine in R; [|assumption]. destruct R as [Hca1 Hr]. destruct r as [d| |]; [| |congruence].
      + destruct (range_loop bs c hash heqb Fixed fuel f s1 (rem - nlen d)) as [[s2 ps2] o2] eqn:L.
        intros E; inversion E; subst. eapply IH; eassumption.
      + intros E; inversion E; subst. split; [assumption|discriminate].
  Qed.

  Lemma chunk_loop_pristine : forall cis s s' ps o,
    cache_true (rcache s) -> chunk_loop bs c hash heqb Fixed f s cis = (s', ps, o) ->
    cache_true (rcache s') /\ o <> Failed.
  Proof.
    induction cis as [|ci cis IH]; intros s s' ps o Hca; cbn [chunk_loop].
    - intros E; inversion E; subst. split; [assumption|discriminate].
    - destruct (sk_read bs hash heqb Fixed f (sk_seek s (ci * c)) c) as [s1 r] eqn:R.
      apply sk_read_pristine in R; [|assumption]. destruct R as [Hca1 Hr]. destruct r as [d| |]; [| |congruence].
      + destruct (chunk_loop bs c hash heqb Fixed f s1 cis) as [[s2 ps2] o2] eqn:L.
        intros E; inversion E; subst. eapply IH; eassumption.
      + destruct (chunk_loop bs c hash heqb Fixed f s1 cis) as [[s2 ps2] o2] eqn:L.
        intros E; inversion E; subst. eapply IH; eassumption.
  Qed.

  Lemma run_pattern_pristine p fi pat s' ps o :
    cache_true (pcache p fi) -> run_pattern bs c hash heqb Fixed f p fi pat = (s', ps, o) ->
    cache_true (rcache s') /\ o <> Failed.
  Proof.
    intros Hca. destruct pat as [|bi span|cis]; cbn [run_pattern].
    - apply copy_loop_pristine. assumption.
    - apply range_loop_pristine. assumption.
    - apply chunk_loop_pristine. assumption.
  Qed.
End Pristine.

Section PristinePool.
  Context {A H : Type}.
  Variables bs c m : N.
  Hypothesis c_pos : 0 < c.
  Hypothesis m_pos : 0 < m.
  Hypothesis bs_c : bs = c * m.
  Variable hash : list A -> H.
  Variable heqb : H -> H -> bool.
  Hypothesis hash_inj : forall a b, heqb (hash a) (hash b) = true -> a = b.
  Hypothesis heqb_refl : forall a, heqb (hash a) (hash a) = true.
  Variable sa : list (list A * list A).
  Hypothesis pristine : forall s a, In (s, a) sa -> a = s.

  Lemma run_steps_pristine : forall steps p,
    (forall fi, cache_true (pcache p fi)) ->
    (forall fi pat, In (fi, pat) steps -> (N.to_nat fi < length sa)%nat) ->
    Forall (fun res => snd res <> Failed) (run_steps bs c hash heqb Fixed (files_of bs hash sa) p steps).
  Proof.
    assert (Hb : 0 < bs) by (subst bs; lia).
    induction steps as [|[fi pat] steps IH]; intros p Hp Hin; cbn [run_steps]; [constructor|].
    unfold files_of at 1. rewrite nth_error_map.
    destruct (nth_error sa (N.to_nat fi)) as [[s a]|] eqn:E; cbn [option_map fst snd].
    - assert (a = s) by (apply pristine; eapply nth_error_In; eassumption). subst a.
      destruct (run_pattern bs c hash heqb Fixed (skfile_of bs hash s s) p fi pat) as [[s' ps] o] eqn:R.
      apply (run_pattern_pristine bs c Hb hash heqb heqb_refl) in R; [|apply Hp].
      destruct R as [Hca Ho]. constructor; [assumption|].
      apply IH.
      + intros fi'. unfold pool_after. cbn [pcache]. destruct (fi' =? fi); [assumption|apply Hp].
      + intros fi' pat' Hin'. eapply Hin. right. eassumption.
    - apply nth_error_None in E. specialize (Hin fi pat (or_introl eq_refl)). lia.
  Qed.

  Theorem safekeeper_accepts_pristine_lemma steps :
    steps_ok bs sa steps ->
    (forall fi pat, In (fi, pat) steps -> (N.to_nat fi < length sa)%nat) ->
    Forall (fun res => snd res = Done) (run_steps bs c hash heqb Fixed (files_of bs hash sa) pool_empty steps).
  Proof.
    intros Hok Hin.
    pose proof (safekeeper_sound_lemma bs c m c_pos m_pos bs_c hash heqb hash_inj sa steps Hok) as Hs.
    assert (Hp' : Forall (fun res => snd res <> Failed)
                    (run_steps bs c hash heqb Fixed (files_of bs hash sa) pool_empty steps)).
    { apply run_steps_pristine; [|assumption]. intros fi k v E. discriminate. }
    clear Hok Hin. revert Hs Hp'.
    generalize (run_steps bs c hash heqb Fixed (files_of bs hash sa) pool_empty steps) as rs.
    intros rs Hs. induction Hs as [|st res sts rs Hst Hs IH]; intros Hp'; constructor.
    - inversion Hp'; subst. destruct Hst as [Ho _]. destruct (snd res); congruence.
    - inversion Hp'; subst. auto.
  Qed.
End PristinePool.

(** ---- the same, in bytes ---- *)
Definition ideal_bytes {A} (bs c : N) (signed : list A) (pat : pattern) : list A :=
  match pat with
  | PCopy => signed
  | PRange bi span => slice signed (bs * bi) (range_size bs (nlen signed) bi span)
  | PChunks cis => concat (map (fun ci => slice signed (ci * c) c) cis)
  end.

Lemma concat_ideal_pieces {A} (bs c : N) (signed : list A) pat :
  0 < c -> concat (ideal_pieces bs c signed pat) = ideal_bytes bs c signed pat.
Proof.
  intros Hc. destruct pat; cbn [ideal_pieces ideal_bytes]; try reflexivity; apply concat_blocks; lia.
Qed.

(** the bytes served are a prefix of the signed bytes asked for; all of them on completion *)
Definition step_sound_bytes {A} (bs c : N) (sa : list (list A * list A)) (step : N * pattern) (res : list (list A) * outcome) : Prop :=
  match nth_error sa (N.to_nat (fst step)) with
  | None => res = ([], Failed)
  | Some (s, _) =>
    (exists rest, ideal_bytes bs c s (snd step) = concat (fst res) ++ rest) /\
    (snd res = Done -> concat (fst res) = ideal_bytes bs c s (snd step))
  end.

Lemma step_sound_to_bytes {A} (bs c : N) (sa : list (list A * list A)) step res :
  0 < c -> step_sound bs c sa step res -> step_sound_bytes bs c sa step res.
Proof.
  intros Hc [_ Hs]. unfold step_sound_bytes. destruct (nth_error sa (N.to_nat (fst step))) as [[s a]|]; [|assumption].
  destruct Hs as [[k Hk] Hd]. split.
  - exists (concat (skipn k (ideal_pieces bs c s (snd step)))).
    rewrite Hk, <- concat_app, firstn_skipn. symmetry. apply concat_ideal_pieces. assumption.
  - intros Ho. rewrite (Hd Ho). apply concat_ideal_pieces. assumption.
Qed.

Theorem safekeeper_sound_bytes_lemma {A H : Type} (bs c m : N) (hash : list A -> H) (heqb : H -> H -> bool)
    (sa : list (list A * list A)) (steps : list (N * pattern)) :
  0 < c -> 0 < m -> bs = c * m ->
  (forall a b, heqb (hash a) (hash b) = true -> a = b) ->
  steps_ok bs sa steps ->
  Forall2 (step_sound_bytes bs c sa) steps (run_steps bs c hash heqb Fixed (files_of bs hash sa) pool_empty steps).
Proof.
  intros Hc Hm Hbs Hinj Hok.
  pose proof (safekeeper_sound_lemma bs c m Hc Hm Hbs hash heqb Hinj sa steps Hok) as Hs.
  clear Hok. induction Hs; constructor; [apply step_sound_to_bytes; assumption|assumption].
Qed.

(** what step [st] reads on the signed build *)
Definition ideal_of {A} (bs c : N) (sa : list (list A * list A)) (st : N * pattern) : list A :=
  match nth_error sa (N.to_nat (fst st)) with
  | Some (s, _) => ideal_bytes bs c s (snd st)
  | None => []
  end.

(** a run in which no consumer reported an error has read, consumer by consumer, exactly the
    bytes it would have read on the signed build: whatever the patcher computes from its reads
    is what it computes on the undamaged old build *)
Theorem safekeeper_completed_run_is_exact_lemma {A H : Type} (bs c m : N) (hash : list A -> H) (heqb : H -> H -> bool)
    (sa : list (list A * list A)) (steps : list (N * pattern)) :
  0 < c -> 0 < m -> bs = c * m ->
  (forall a b, heqb (hash a) (hash b) = true -> a = b) ->
  steps_ok bs sa steps ->
  let results := run_steps bs c hash heqb Fixed (files_of bs hash sa) pool_empty steps in
  Forall (fun res => snd res = Done) results ->
  map (fun res => concat (fst res)) results = map (ideal_of bs c sa) steps.
Proof.
  intros Hc Hm Hbs Hinj Hok results.
  pose proof (safekeeper_sound_bytes_lemma bs c m hash heqb sa steps Hc Hm Hbs Hinj Hok) as Hs.
  fold results in Hs. clearbody results. clear Hok.
  induction Hs as [|st res sts rs Hst Hs IH]; intros Hd; [reflexivity|].
  inversion Hd as [|? ? Hd1 Hd2]; subst. cbn [map]. rewrite (IH Hd2). f_equal.
  unfold step_sound_bytes in Hst. unfold ideal_of.
  destruct (nth_error sa (N.to_nat (fst st))) as [[s a]|].
  - apply Hst. assumption.
  - subst res. discriminate.
Qed.

(** ---- the code before the fixes violates both statements (bs = 4, c = 2, hash = identity) ---- *)
Section Refuted.
  Let idh := fun b : list N => b.
  Let run (sa : list (list N * list N)) steps :=
    run_steps 4 2 idh nlist_eqb Unfixed (files_of 4 idh sa) pool_empty steps.

  (** #4: an undamaged file of exactly one block, copied whole: the read at the end of the file
      validates block 1 with an empty buffer and fails "too large" *)
  Example unfixed_rejects_pristine_block_multiple :
    run [([1;2;3;4], [1;2;3;4])] [(0, PCopy)] = [([[1;2];[3;4]], Failed)].
  Proof. vm_compute. reflexivity. Qed.

  (** #5: one byte appended inside the last, short block is served to a whole-file copy *)
  Example unfixed_serves_appended_bytes :
    run [([1;2;3;4;5], [1;2;3;4;5;9])] [(0, PCopy)] = [([[1;2];[3;4];[5;9]], Done)].
  Proof. vm_compute. reflexivity. Qed.

  (** #6: a file emptied, or cut at a block boundary: io.EOF is taken for a clean end by the
      whole-file copy, by a block-range op and by the chunk reader *)
  Example unfixed_truncated_is_a_clean_end :
    run [([1;2;3;4;5], [1;2;3;4]); ([7;8], [])] [(0, PCopy); (0, PRange 0 2); (0, PChunks [2]); (1, PCopy); (1, PRange 0 1)]
    = [([[1;2];[3;4]], Done); ([[1;2];[3;4]], Done); ([[]], Done); ([], Done); ([], Done)].
  Proof. vm_compute. reflexivity. Qed.

  (** found by the C09 check: the inner pool hands the same reader out again, positioned at
      the end of the file after the first copy, and block 0 is already validated: the second
      whole-file copy of an undamaged file is empty *)
  Example unfixed_second_copy_is_empty :
    run [([1;2;3;4;5], [1;2;3;4;5])] [(0, PCopy); (0, PCopy)]
    = [([[1;2];[3;4];[5]], Done); ([], Done)].
  Proof. vm_compute. reflexivity. Qed.

  Theorem safekeeper_sound_refuted_before_fix_lemma :
    exists (sa : list (list N * list N)) steps,
      steps_ok 4 sa steps /\
      ~ Forall2 (step_sound 4 2 sa) steps (run_steps 4 2 idh nlist_eqb Unfixed (files_of 4 idh sa) pool_empty steps).
  Proof.
    exists [([1;2;3;4;5], [1;2;3;4;5;9])], [(0, PCopy)]. split.
    - intros fi pat s a [E|[]] _. inversion E; subst. exact I.
    - fold (run [([1;2;3;4;5], [1;2;3;4;5;9])] [(0, PCopy)]). rewrite unfixed_serves_appended_bytes.
      intros F. inversion F as [|? ? ? ? Hs _]; subst. destruct Hs as [_ [_ Hd]].
      specialize (Hd eq_refl). vm_compute in Hd. discriminate.
  Qed.

  Theorem safekeeper_accepts_pristine_refuted_before_fix_lemma :
    exists (sa : list (list N * list N)) steps,
      (forall s a, In (s, a) sa -> a = s) /\ steps_ok 4 sa steps /\
      (forall fi pat, In (fi, pat) steps -> (N.to_nat fi < length sa)%nat) /\
      ~ Forall (fun res => snd res = Done) (run_steps 4 2 idh nlist_eqb Unfixed (files_of 4 idh sa) pool_empty steps).
  Proof.
    exists [([1;2;3;4], [1;2;3;4])], [(0, PCopy)]. repeat split.
    - intros s a [E|[]]. inversion E; reflexivity.
    - intros fi pat s a [E|[]] _. inversion E; subst. exact I.
    - intros fi pat [E|[]]. inversion E; subst. cbn. lia.
    - fold (run [([1;2;3;4], [1;2;3;4])] [(0, PCopy)]). rewrite unfixed_rejects_pristine_block_multiple.
      intros F. inversion F as [|? ? Hd _]; subst. discriminate.
  Qed.

  (** the same inputs on the code as it is now *)
  Example fixed_on_the_same_inputs :
    run_steps 4 2 idh nlist_eqb Fixed
      (files_of 4 idh [([1;2;3;4], [1;2;3;4]); ([1;2;3;4;5], [1;2;3;4;5;9]); ([1;2;3;4;5], [1;2;3;4]); ([7;8], []); ([1;2;3;4;5], [1;2;3;4;5])])
      pool_empty [(0, PCopy); (1, PCopy); (2, PCopy); (2, PRange 0 2); (2, PChunks [2]); (3, PCopy); (4, PCopy); (4, PCopy)]
    = [([[1;2];[3;4]], Done); ([[1;2];[3;4]], Failed); ([[1;2];[3;4]], Failed); ([[1;2];[3;4]], Failed); ([], Failed);
       ([], Failed); ([[1;2];[3;4];[5]], Done); ([[1;2];[3;4];[5]], Done)].
  Proof. vm_compute. reflexivity. Qed.
End Refuted.
