(** Model of pwr/validator.go: the directory pass, the symlink pass and the per-file pass
    ([doOne]) of [ValidatorContext.Validate], projected on what reaches the wounds consumer.
    The goroutine / channel protocol is the subject of C16; here the passes are sequential.
    The actual directory is seen only through what [os.Lstat] / [os.Readlink] / the pool's
    reader return for each signed entry, so that is what the model takes as input. *)
From Wharf Require Import Base.Prelude Val.Drip Val.VPool.
Local Open Scope Z_scope.

(** what is found on disk at the path of a signed entry *)
Inductive obs :=
| OMissing                      (* ENOENT *)
| ONotDir                       (* ENOTDIR: an ancestor is not a directory *)
| ODir
| OLink (dest : N)              (* symlink and its destination (interned) *)
| OFile (content : list N)      (* regular file *)
| OErr.                         (* any other error *)

Inductive rcls := ROk | RErr | RPanic | RHang.
Definition rcls_eqb (a b : rcls) : bool :=
  match a, b with ROk, ROk | RErr, RErr | RPanic, RPanic | RHang, RHang => true | _, _ => false end.

Definition healthy (w : wound) : bool := wkind_eqb (wk w) WClosed.

Section FileVal.
  Context {H : Type}.
  Variable bs : Z.               (* pwr.BlockSize *)
  Variable maxWound : Z.         (* pwr.MaxWoundSize *)
  Variable hash : list N -> H.
  Variable heqb : H -> H -> bool.

  (** directory pass: [Some wounds] or [None] when Validate returns the Lstat error *)
  Fixpoint dirs_pass (i : Z) (ds : list obs) : option (list wound) :=
    match ds with
    | [] => Some []
    | o :: r =>
      match o with
      | OErr => None                                               (* return err (not IsNotExist, not ENOTDIR) *)
      | ODir => dirs_pass (i + 1) r
      | _ => option_map (cons (mkwound WDir i 0 0)) (dirs_pass (i + 1) r)
      end
    end.

  (** symlink pass; each entry comes with the signed destination *)
  Fixpoint links_pass (i : Z) (ls : list (N * obs)) : option (list wound) :=
    match ls with
    | [] => Some []
    | (want, o) :: r =>
      match o with
      | OErr => None                                               (* Readlink error, neither IsNotExist nor ENOTDIR *)
      | OLink d => if N.eqb d want then links_pass (i + 1) r
                   else option_map (cons (mkwound WSymlink i 0 0)) (links_pass (i + 1) r)
      | _ => option_map (cons (mkwound WSymlink i 0 0)) (links_pass (i + 1) r)
      end
    end.

  (** hash group of a signed file, as ComputeHashInfo builds it from the signature *)
  Definition group_of (signed : list N) : list H :=
    match signed with [] => [] | _ => map hash (blocks (Z.to_nat bs) signed) end.

  (** [doOne] for one file: everything sent to the consumer for it, in send order up to the
      interleaving of the relay goroutine (the harness compares sorted lists) *)
  Definition file_wounds (i : Z) (signed : list N) (o : obs) : list wound :=
    let size := Z.of_nat (length signed) in
    match o with
    | OFile content =>
      let raw := vpool_wounds bs hash heqb i size (group_of signed) [content] in
      let agg := aggregate maxWound None raw in
      let written := Z.of_nat (length content) in
      if written =? size then agg
      else agg ++ [mkwound WFile i (Z.min written size) (Z.max written size)]
    | _ => [mkwound WFile i 0 size]                               (* doWholeFileWound *)
    end.

  Fixpoint files_pass (i : Z) (fs : list (list N * obs)) : list wound :=
    match fs with
    | [] => []
    | (signed, o) :: r => file_wounds i signed o ++ files_pass (i + 1) r
    end.

  (** the three passes on given per-entry observations: [None] = Validate returned an I/O
      error; else every marker sent *)
  Definition validate_core (ds : list obs) (ls : list (N * obs)) (fs : list (list N * obs)) : option (list wound) :=
    match dirs_pass 0 ds with
    | None => None
    | Some wd =>
      match links_pass 0 ls with
      | None => None
      | Some wl => Some (wd ++ wl ++ files_pass 0 fs)
      end
    end.

  (** what a WoundsWriter records / what makes the guardian fail *)
  Definition reported (ws : list wound) : list wound := filter (fun w => negb (healthy w)) ws.

  Definition failfast_core (ds : list obs) (ls : list (N * obs)) (fs : list (list N * obs)) : rcls :=
    match validate_core ds ls fs with
    | None => RErr
    | Some ws => match reported ws with [] => ROk | _ => RErr end
    end.

  (** [woundedDirs]: a directory of the container that is wounded hides everything below it -
      nothing below is looked at on disk, it is all wounded.  Each entry carries [anc], the
      indices (into the container's directory list) of its ancestor directories.  Directories
      are processed in container order, so a directory only sees the flags of directories
      before it. *)
  Definition is_dir (o : obs) : bool := match o with ODir => true | _ => false end.
  Definition under (flags : list bool) (anc : list nat) : bool :=
    existsb (fun a => nth a flags false) anc.
  Definition eff (u : bool) (o : obs) : obs := if u then OMissing else o.

  (** effective observations of the directories and the wounded flags, left to right *)
  Fixpoint eff_dirs (flags : list bool) (ds : list (list nat * obs)) : list obs * list bool :=
    match ds with
    | [] => ([], flags)
    | (anc, o) :: r =>
      let e := eff (under flags anc) o in
      let '(es, fl) := eff_dirs (flags ++ [negb (is_dir e)]) r in
      (e :: es, fl)
    end.

  Definition validate (ds : list (list nat * obs)) (ls : list (list nat * N * obs))
             (fs : list (list nat * list N * obs)) : option (list wound) :=
    let '(eds, flags) := eff_dirs [] ds in
    validate_core eds
      (map (fun x => let '(anc, want, o) := x in (want, eff (under flags anc) o)) ls)
      (map (fun x => let '(anc, signed, o) := x in (signed, eff (under flags anc) o)) fs).

  Definition failfast (ds : list (list nat * obs)) (ls : list (list nat * N * obs))
             (fs : list (list nat * list N * obs)) : rcls :=
    match validate ds ls fs with
    | None => RErr
    | Some ws => match reported ws with [] => ROk | _ => RErr end
    end.
End FileVal.
