(** Model of pwr/validator.go: the directory pass, the symlink pass and the per-file pass
    ([doOne]) of [ValidatorContext.Validate], projected on what reaches the wounds consumer.
    The goroutine / channel protocol is the subject of C16; here the passes are sequential.
    The actual directory is seen only through what [os.Lstat] / [os.Readlink] / the pool's
    reader return for each signed entry, so that is what the model takes as input. *)
From Wharf Require Import Base.Prelude Val.Drip Val.VPool.
Local Open Scope Z_scope.

(** what is found on disk at the path of a signed entry *)
Inductive obs :=
| OMissing                      (* ENOENT *)
| ONotDir                       (* ENOTDIR: an ancestor is not a directory *)
| ODir
| OLink (dest : N)              (* symlink and its destination (interned) *)
| OFile (content : list N)      (* regular file *)
| OErr.                         (* any other error *)

Inductive rcls := ROk | RErr | RPanic | RHang.
Definition rcls_eqb (a b : rcls) : bool :=
  match a, b with ROk, ROk | RErr, RErr | RPanic, RPanic | RHang, RHang => true | _, _ => false end.

Definition healthy (w : wound) : bool := wkind_eqb (wk w) WClosed.

Section FileVal.
  Context {H : Type}.
  Variable bs : Z.               (* pwr.BlockSize *)
  Variable maxWound : Z.         (* pwr.MaxWoundSize *)
  Variable hash : list N -> H.
  Variable heqb : H -> H -> bool.

  (** directory pass: [Some wounds] or [None] when Validate returns the Lstat error *)
  Fixpoint dirs_pass (i : Z) (ds : list obs) : option (list wound) :=
    match ds with
    | [] => Some []
    | o :: r =>
      match o with
      | ONotDir | OErr => None                                     (* return err *)
      | ODir => dirs_pass (i + 1) r
      | _ => option_map (cons (mkwound WDir i 0 0)) (dirs_pass (i + 1) r)
      end
    end.

  (** symlink pass; each entry comes with the signed destination *)
  Fixpoint links_pass (i : Z) (ls : list (N * obs)) : option (list wound) :=
    match ls with
    | [] => Some []
    | (want, o) :: r =>
      match o with
      | ONotDir | OErr => None                                     (* Readlink error, not IsNotExist *)
      | OLink d => if N.eqb d want then links_pass (i + 1) r
                   else option_map (cons (mkwound WSymlink i 0 0)) (links_pass (i + 1) r)
      | _ => option_map (cons (mkwound WSymlink i 0 0)) (links_pass (i + 1) r)
      end
    end.

  (** hash group of a signed file, as ComputeHashInfo builds it from the signature *)
  Definition group_of (signed : list N) : list H :=
    match signed with [] => [] | _ => map hash (blocks (Z.to_nat bs) signed) end.

  (** [doOne] for one file: everything sent to the consumer for it, in send order up to the
      interleaving of the relay goroutine (the harness compares sorted lists) *)
  Definition file_wounds (i : Z) (signed : list N) (o : obs) : list wound :=
    let size := Z.of_nat (length signed) in
    match o with
    | OFile content =>
      let raw := vpool_wounds bs hash heqb i size (group_of signed) [content] in
      let agg := aggregate maxWound None raw in
      let written := Z.of_nat (length content) in
      if written =? size then agg
      else agg ++ [mkwound WFile i (Z.min written size) (Z.max written size)]
    | _ => [mkwound WFile i 0 size]                               (* doWholeFileWound *)
    end.

  Fixpoint files_pass (i : Z) (fs : list (list N * obs)) : list wound :=
    match fs with
    | [] => []
    | (signed, o) :: r => file_wounds i signed o ++ files_pass (i + 1) r
    end.

  (** the run: [None] = Validate returned an I/O error; else every marker sent *)
  Definition validate (ds : list obs) (ls : list (N * obs)) (fs : list (list N * obs)) : option (list wound) :=
    match dirs_pass 0 ds with
    | None => None
    | Some wd =>
      match links_pass 0 ls with
      | None => None
      | Some wl => Some (wd ++ wl ++ files_pass 0 fs)
      end
    end.

  (** what a WoundsWriter records / what makes the guardian fail *)
  Definition reported (ws : list wound) : list wound := filter (fun w => negb (healthy w)) ws.

  Definition failfast (ds : list obs) (ls : list (N * obs)) (fs : list (list N * obs)) : rcls :=
    match validate ds ls fs with
    | None => RErr
    | Some ws => match reported ws with [] => ROk | _ => RErr end
    end.
End FileVal.
