(** Model of pwr/blockvalidator.go, pwr/validatingpool.go (GetWriter path) and
    pwr.AggregateWounds (pwr/wounds.go).  Parameters: block size [bs]; the hash of a
    block is a section variable [hash] (Go: weak hash + MD5). *)
From Wharf Require Import Base.Prelude Val.Drip.
Local Open Scope Z_scope.

(** wound kinds as in pwr.proto: FILE 0, SYMLINK 1, DIR 2, CLOSED_FILE 3 *)
Inductive wkind := WFile | WSymlink | WDir | WClosed.
Definition wkind_eqb (a b : wkind) : bool :=
  match a, b with WFile, WFile | WSymlink, WSymlink | WDir, WDir | WClosed, WClosed => true | _, _ => false end.

Record wound := mkwound { wk : wkind; widx : Z; wstart : Z; wend : Z }.
Definition wound_eqb (a b : wound) : bool :=
  wkind_eqb (wk a) (wk b) && (widx a =? widx b) && (wstart a =? wstart b) && (wend a =? wend b).

(** pwr.ComputeBlockSize / ComputeNumBlocks with the block size as parameter *)
Definition compute_block_size (bs fileSize blockIndex : Z) : Z :=
  if bs * (blockIndex + 1) >? fileSize then fileSize mod bs else bs.
Definition compute_num_blocks (bs fileSize : Z) : Z := (fileSize + bs - 1) / bs.

Section VPool.
  Context {A H : Type}.
  Variable bs : Z.                       (* pwr.BlockSize *)
  Variable hash : list A -> H.
  Variable heqb : H -> H -> bool.
  Variable fileIndex : Z.
  Variable fileSize : Z.                 (* Container.Files[fileIndex].Size *)
  Variable group : list H.               (* hashInfo.Groups[fileIndex] *)

  (** blockValidator.ValidateAsError: true = nil *)
  Definition validate_as_error (blockIndex : nat) (data : list A) : bool :=
    match nth_error group blockIndex with
    | None => false                                  (* "too large" *)
    | Some h => heqb h (hash data)
    end.

  (** blockValidator.ValidateAsWound *)
  Definition validate_as_wound (blockIndex : nat) (data : list A) : wound :=
    let start := Z.of_nat blockIndex * bs in
    let size := compute_block_size bs fileSize (Z.of_nat blockIndex) in
    match nth_error group blockIndex with
    | None => mkwound WFile fileIndex start (start + size)
    | Some h => if heqb h (hash data) then mkwound WClosed fileIndex start (start + size)
                else mkwound WFile fileIndex start (start + size)
    end.

  (** the [validate] closure of ValidatingPool.GetWriter; state = (blockIndex, wounds sent) *)
  Definition vstate := (nat * list wound)%type.
  Definition validate_err (s : vstate) (data : list A) : vstate * bool :=
    ((S (fst s), snd s), validate_as_error (fst s) data).
  Definition validate_wound (s : vstate) (data : list A) : vstate * bool :=
    ((S (fst s), snd s ++ [validate_as_wound (fst s) data]), true).

  Definition vinit : vstate := (O, []).

  (** error mode: writes then close; observable = (outcome, number of Write calls that
      returned nil, blocks that reached the inner pool) *)
  Definition vpool_error (ws : list (list A)) : outcome * nat * list (list A) :=
    let '(w, o, k) := session (Z.to_nat bs) validate_err vinit ws in (o, k, dsink w).

  (** wound mode: the wounds sent on the per-file channel, in order *)
  Definition vpool_wounds (ws : list (list A)) : list wound :=
    let '(w, _, _) := session (Z.to_nat bs) validate_wound vinit ws in snd (dval w).
End VPool.

(** pwr.AggregateWounds: [last] is lastWound; output in send order. *)
Fixpoint aggregate (maxSize : Z) (last : option wound) (ws : list wound) : list wound :=
  match ws with
  | [] => match last with Some l => [l] | None => [] end
  | w :: r =>
    match wk w with
    | WFile =>
      match last with
      | None => aggregate maxSize (Some w) r
      | Some l =>
        if (wend l <=? wstart w) && (wstart w >=? wstart l) then
          let l' := mkwound (wk l) (widx l) (wstart l) (wend w) in
          if wend l' - wstart l' >=? maxSize then l' :: aggregate maxSize None r
          else aggregate maxSize (Some l') r
        else l :: aggregate maxSize (Some w) r
      end
    | _ =>
      match last with
      | Some l => l :: w :: aggregate maxSize None r
      | None => w :: aggregate maxSize None r
      end
    end
  end.
