(** A [wire.ReadContext] that is used again: [Resume] called on a reader that has already
    read messages, asked for saves and popped checkpoints - a rewind to a checkpoint the same
    reader popped earlier, a jump forward to one it popped before a rewind, or [Resume(nil)]
    (start over) - in whatever save state the reader happens to be (idle, waiting for the
    source, holding a source checkpoint nobody has popped).  Definitions only; lemmas are in
    [Wire/RewindProofs.v].

    [Resume] is [resume] of [Wire/Reader.v] - it forgets the save in flight (state idle, no
    source checkpoint held) for both kinds of argument - plus one thing that only shows on a
    reader in use: the bytes between the offset at which the source restarts and the
    checkpoint's offset are *read* from the source and thrown away, and a source that still
    has an unanswered save request answers it during a read.  So [Resume] itself may leave the
    reader holding a source checkpoint (seek source: at the offset it restarted from).  What a
    source does with an unanswered request across its own [Resume] is its business: the seek
    source keeps the flag ([resume] keeps [s_want]), the decompressing sources may lose it;
    either way a source emits at most one checkpoint per request, during some later read.
    The behaviour is therefore given per operation ([behs i] for the i-th operation of the
    run): any family of behaviours within the contract [beh_sound] is allowed. *)
From Wharf Require Import Base.Prelude Wire.Uvarint Wire.Frame Wire.Reader.

Section Rewind.
  Context {M : Type}.
  Variable unmarshal : list byte -> option M.

  (** [XZ (Some j)]: [Resume] with the checkpoint popped by the j-th operation of this run;
      [XZ None]: [Resume(nil)] *)
  Inductive xop := XO (o : op) | XZ (j : option nat).
  Inductive xev := XE (e : ev (M:=M)) | XRes (j : option nat) (ok : bool).

  Definition popped_at (tr : list (xev * reader)) (j : nat) : option msg_ckpt :=
    match nth_error tr j with
    | Some (XE (EvPop (Some c)), _) => Some c
    | _ => None
    end.

  (** [Resume] on a reader in use.  [beh before after] is asked about the discarding read
      (from the source's restart offset to the checkpoint's offset) when a request is pending
      and there is something to discard. *)
  Definition resume_used (beh : behaviour) (r : reader) (c : option msg_ckpt) : option reader :=
    match resume r c with
    | None => None
    | Some r' =>
      match c with
      | None => Some r'
      | Some ck =>
        match mc_src ck with
        | None => Some r'
        | Some sc =>
          let src := r_src r' in
          let emitted := if s_want src && (sc_restart sc <? mc_off ck)%N
                         then beh (sc_restart sc) (mc_off ck) else None in
          match emitted with
          | Some e => Some (mk_rd (mk_src (s_data src) (s_rest src) (s_pos src) false)
                                  (r_off r') (r_cap r') HasSrc (Some e))
          | None => Some r'
          end
        end
      end
    end.

  (** the run: [acc] is the trace so far (event, state after it), the result is the whole
      trace.  A [Resume] that fails (or names an operation that popped nothing) ends the run. *)
  Fixpoint xrun (behs : nat -> behaviour) (acc : list (xev * reader)) (r : reader) (ops : list xop)
    : list (xev * reader) :=
    match ops with
    | [] => acc
    | XO o :: rest =>
      let '(r', e) := step unmarshal (behs (length acc)) r o in
      xrun behs (acc ++ [(XE e, r')]) r' rest
    | XZ j :: rest =>
      let arg := match j with
                 | None => Some None
                 | Some i => option_map Some (popped_at acc i)
                 end in
      match arg with
      | None => acc ++ [(XRes j false, r)]
      | Some c =>
        match resume_used (behs (length acc)) r c with
        | Some r' => xrun behs (acc ++ [(XRes j true, r')]) r' rest
        | None => acc ++ [(XRes j false, r)]
        end
      end
    end.

  (** positions, computed from the events alone: [fst] = the number of messages before the
      reader after the trace, [snd] = the same before each event of the trace.  A successful
      read moves one message forward, a successful [Resume] goes to where its checkpoint was
      popped (or to the start). *)
  Definition xpos_step (st : nat * list nat) (x : xev * reader) : nat * list nat :=
    let '(cur, hist) := st in
    (match fst x with
     | XE (EvRead (ReadOk _)) => S cur
     | XRes (Some j) true => nth j hist 0%nat
     | XRes None true => 0%nat
     | _ => cur
     end, hist ++ [cur]).

  Definition xpos (tr : list (xev * reader)) : nat * list nat := fold_left xpos_step tr (0%nat, []).

  (** position at which the i-th operation was performed *)
  Definition pos_at (tr : list (xev * reader)) (i : nat) : nat := nth i (snd (xpos tr)) 0%nat.
End Rewind.
