(** Model of Go's encoding/binary [PutUvarint] / [ReadUvarint] (the length prefix of every
    wharf wire message, wire/write_context.go:WriteMessage, wire/read_context.go:ReadMessage)
    and of wire's buffer growth function [nextPowerOf2].  Bytes are [N] (< 256).
    Definitions only; lemmas are in [Wire/UvarintProofs.v]. *)
From Wharf Require Import Base.Prelude.
Local Open Scope N_scope.

(** [PutUvarint]:
<<
    i := 0
    for x >= 0x80 { buf[i] = byte(x) | 0x80; x >>= 7; i++ }
    buf[i] = byte(x)
>>
    [fuel] bounds the number of continuation bytes: 9 suffice for every x < 2^64. *)
Fixpoint uvarint_enc_fuel (fuel : nat) (x : N) : list byte :=
  match fuel with
  | O => [N.land x 255]
  | S f => if 128 <=? x
           then N.lor (N.land x 255) 128 :: uvarint_enc_fuel f (N.shiftr x 7)
           else [N.land x 255]
  end.

Definition uvarint_enc (x : N) : list byte := uvarint_enc_fuel 9 x.

(** [ReadUvarint] over a byte reader:
<<
    var x uint64; var s uint
    for i := 0; i < MaxVarintLen64; i++ {
        b, err := r.ReadByte()
        if err != nil { if i > 0 && err == io.EOF { err = io.ErrUnexpectedEOF }; return x, err }
        if b < 0x80 {
            if i == MaxVarintLen64-1 && b > 1 { return x, errOverflow }
            return x | uint64(b)<<s, nil
        }
        x |= uint64(b&0x7f) << s
        s += 7
    }
    return x, errOverflow
>>
    No 64-bit truncation can occur: for i < 9 the shifted 7 bits end below bit 63, and at
    i = 9 only b <= 1 is accepted. *)
Inductive uv_err := UvEOF | UvUnexpectedEOF | UvOverflow.

(** value, bytes consumed and unread rest; or the error and the number of bytes consumed *)
Inductive uv_res := UvOk (v : N) (consumed : N) (rest : list byte) | UvErr (e : uv_err) (consumed : N).

Fixpoint uv_loop (l : list byte) (i x s : N) : uv_res :=
  match l with
  | [] => UvErr (if i =? 0 then UvEOF else UvUnexpectedEOF) i
  | b :: r =>
    if b <? 128 then
      if (i =? 9) && (1 <? b) then UvErr UvOverflow (i + 1)
      else UvOk (N.lor x (N.shiftl b s)) (i + 1) r
    else if i =? 9 then UvErr UvOverflow (i + 1)
    else uv_loop r (i + 1) (N.lor x (N.shiftl (N.land b 127) s)) (s + 7)
  end.

Definition uvarint_read (l : list byte) : uv_res := uv_loop l 0 0 0.

Definition uvarint_dec (l : list byte) : option (N * list byte) :=
  match uvarint_read l with
  | UvOk v _ r => Some (v, r)
  | UvErr _ _ => None
  end.

(** wire/read_context.go:
<<
    func nextPowerOf2(v int) int { v--; v |= v >> 1; v |= v >> 2; v |= v >> 4; v |= v >> 8; v |= v >> 16; v++; return v }
>>
    ([int] is 64 bits; there is no [v >> 32] step, so above 2^32 the result is no longer a
    power of two - it is still at least [v].)  For v = 0 Go computes (-1 | ...) + 1 = 0. *)
Definition smear (v k : N) : N := N.lor v (N.shiftr v k).

Definition npo2 (v : N) : N :=
  if v =? 0 then 0
  else smear (smear (smear (smear (smear (v - 1) 1) 2) 4) 8) 16 + 1.
