(** The repaired byte reads and discard loop of wire/read_context.go compute the plain list
    semantics used by [Wire/Reader.v], whether or not the source reports io.EOF together with
    its last bytes; the unrepaired ones do not (executable counterexamples). *)
From Wharf Require Import Base.Prelude Wire.Uvarint Wire.SourceEOF.
From Coq Require Import ZifyBool ZifyNat ZifyN.
Local Open Scope N_scope.

Lemma read_byte_fixed_spec : forall eager rest,
  read_byte_fixed eager rest = match rest with [] => (None, []) | b :: r => (Some b, r) end.
Proof.
  intros eager rest. unfold read_byte_fixed, src_read. destruct rest as [| b r]; [reflexivity |].
  cbn [firstn skipn]. destruct (eager && match r with [] => true | _ => false end); reflexivity.
Qed.

(** ReadUvarint through the repaired ReadByte = [uv_loop] on the list, for both kinds of source *)
Lemma uv_loop_with_fixed : forall eager l fuel i x s,
  N.of_nat fuel + i = 10 -> i <= 9 ->
  uv_loop_with (read_byte_fixed eager) fuel l i x s = uv_loop l i x s.
Proof.
  intros eager l. induction l as [| b l IH]; intros fuel i x s Hf Hi.
  - destruct fuel; [lia |]. cbn [uv_loop_with uv_loop]. rewrite read_byte_fixed_spec. reflexivity.
  - destruct fuel as [| f]; [lia |]. cbn [uv_loop_with uv_loop]. rewrite read_byte_fixed_spec.
    destruct (b <? 128); [reflexivity |].
    destruct (i =? 9) eqn:E9.
    + assert (f = 0%nat) by lia. subst f. cbn [uv_loop_with]. reflexivity.
    + apply IH; lia.
Qed.

Lemma uvarint_read_fixed : forall eager l,
  uv_loop_with (read_byte_fixed eager) 10 l 0 0 0 = uvarint_read l.
Proof. intros. apply uv_loop_with_fixed; lia. Qed.

Lemma skipn_add : forall (A : Type) (a b : nat) (l : list A), skipn (a + b) l = skipn b (skipn a l).
Proof.
  induction a as [| a IH]; intros b l; [reflexivity |].
  destruct l as [| x l]; [cbn [Nat.add skipn]; destruct b; reflexivity |]. cbn [Nat.add skipn]. apply IH.
Qed.

(** the repaired discard loop = [skipn], for both kinds of source *)
Lemma discard_fixed_spec : forall eager chunk fuel delta rest,
  (0 < chunk)%nat -> (delta <= length rest)%nat -> (delta < fuel)%nat ->
  discard_fixed fuel eager chunk delta rest = Some (skipn delta rest).
Proof.
  intros eager chunk. induction fuel as [| f IH]; intros delta rest Hc Hd Hf; [lia |].
  cbn [discard_fixed]. destruct delta as [| d]; [reflexivity |].
  destruct rest as [| b rest]; [cbn [length] in Hd; lia |].
  unfold src_read.
  set (n := Nat.min (S d) chunk).
  assert (Hn : (1 <= n <= S d)%nat) by (unfold n; lia).
  assert (Hlen : length (firstn n (b :: rest)) = n) by (rewrite firstn_length; cbn [length] in *; lia).
  rewrite Hlen.
  assert (Hskip : skipn (S d) (b :: rest) = skipn (S d - n) (skipn n (b :: rest))).
  { rewrite <- skipn_add. f_equal. lia. }
  destruct (eager && match skipn n (b :: rest) with [] => true | _ => false end) eqn:Ee.
  - (* io.EOF came with these bytes: they were the last ones *)
    destruct (skipn n (b :: rest)) as [| y t] eqn:Es; [| rewrite andb_false_r in Ee; discriminate].
    assert (Hall : (length (b :: rest) <= n)%nat).
    { pose proof (skipn_length n (b :: rest)) as Hl. rewrite Es in Hl. cbn [length] in Hl. unfold byte in *. cbn [length] in *. lia. }
    assert (Hnd : (S d - n = 0)%nat) by lia. rewrite Hnd. cbn [Nat.eqb negb andb].
    destruct f; [lia |]. cbn [discard_fixed]. rewrite Hskip, Hnd. reflexivity.
  - cbn [andb]. rewrite Hskip. apply IH; [exact Hc | rewrite skipn_length; lia | lia].
Qed.

(** ---- the unrepaired code on a source that reports io.EOF with its last bytes ---- *)

(** a stream ending in the one-byte frame of an empty message: the message is lost *)
Example unfixed_loses_final_empty_message :
  uv_loop_with (read_byte_unfixed true) 10 [0] 0 0 0 = UvErr UvEOF 0 /\
  uv_loop_with (read_byte_fixed true) 10 [0] 0 0 0 = UvOk 0 1 [] /\
  uv_loop_with (read_byte_unfixed false) 10 [0] 0 0 0 = UvOk 0 1 [].
Proof. vm_compute. repeat split; reflexivity. Qed.

(** discarding up to the very end of the stream (a checkpoint made after the last message) *)
Example unfixed_cannot_discard_to_the_end :
  discard_unfixed 10 true 4096 3 [1; 2; 3] = None /\
  discard_fixed 10 true 4096 3 [1; 2; 3] = Some [] /\
  discard_unfixed 10 false 4096 3 [1; 2; 3] = Some [].
Proof. vm_compute. repeat split; reflexivity. Qed.
