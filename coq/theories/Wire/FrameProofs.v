(** Lemmas about [Wire/Frame.v]: what is written is read back followed by end of stream, for
    any codec satisfying the round-trip hypotheses; a truncated stream yields a strict prefix
    of the messages and an end-of-file error, never a wrong message; magic numbers. *)
From Wharf Require Import Base.Prelude Wire.Uvarint Wire.UvarintProofs Wire.Frame.
From Coq Require Import ZifyBool ZifyNat ZifyN.
Ltac Zify.zify_post_hook ::= Z.div_mod_to_equations.
Local Open Scope N_scope.

(** a body the writer's 8-byte varint buffer can announce *)
Definition fits (body : list byte) : Prop := N.of_nat (length body) < 2 ^ 56.

Lemma pow56_lt_pow64 : 2 ^ 56 < 2 ^ 64.
Proof. reflexivity. Qed.

Lemma write_message_ok : forall b, fits b -> write_message b = WOk (frame b).
Proof.
  intros b Hb. unfold write_message, varint_buffer_len.
  assert (H64 : N.of_nat (length b) < 2 ^ 64) by (eapply N.lt_trans; [exact Hb | reflexivity]).
  pose proof (proj2 (uvarint_enc_fits_8 _ H64) Hb) as H8.
  replace (N.of_nat (length (uvarint_enc (N.of_nat (length b)))) <=? 8) with true by (unfold byte in *; lia).
  reflexivity.
Qed.

Lemma write_message_panics : forall b, 2 ^ 56 <= N.of_nat (length b) < 2 ^ 64 -> write_message b = WPanic.
Proof.
  intros b [Hlo Hhi]. unfold write_message, varint_buffer_len.
  pose proof (uvarint_enc_fits_8 _ Hhi) as H8.
  destruct (N.of_nat (length (uvarint_enc (N.of_nat (length b)))) <=? 8) eqn:E; [| reflexivity].
  exfalso. assert (Hl : (length (uvarint_enc (N.of_nat (length b))) <= 8)%nat) by (unfold byte in *; lia).
  apply H8 in Hl. lia.
Qed.

Lemma write_bodies_ok : forall bs, Forall fits bs -> write_bodies bs = WOk (concat (map frame bs)).
Proof.
  induction bs as [| b bs IH]; intros H; [reflexivity |].
  inversion H as [| b' bs' Hb Hbs]; subst. cbn [write_bodies map concat].
  rewrite (write_message_ok b Hb), (IH Hbs). reflexivity.
Qed.

Lemma frame_length : forall b, length (frame b) = (length (uvarint_enc (N.of_nat (length b))) + length b)%nat.
Proof. intros b. unfold frame. apply app_length. Qed.

Lemma frame_nonempty : forall b, (1 <= length (frame b))%nat.
Proof. intros b. rewrite frame_length. pose proof (uvarint_enc_nonempty (N.of_nat (length b))). lia. Qed.

(** ---- magic ---- *)
Lemma le32_value : forall u b0 b1 b2 b3, u < 4294967296 -> le32 u = [b0; b1; b2; b3] ->
  b0 + 256 * b1 + 65536 * b2 + 16777216 * b3 = u.
Proof. intros u b0 b1 b2 b3 Hu E. unfold le32 in E. inversion E. lia. Qed.

Lemma int32_of_magic : forall m, (- 2147483648 <= m < 2147483648)%Z -> int32_of (Z.to_N (m mod 4294967296)%Z) = m.
Proof. intros m Hm. unfold int32_of. destruct (Z.to_N (m mod 4294967296) <? 2147483648) eqn:E; lia. Qed.

Lemma expect_magic_enc : forall m m' r, (- 2147483648 <= m < 2147483648)%Z ->
  expect_magic m' (magic_enc m ++ r) = if Z.eqb m m' then inl r else inr EFormat.
Proof.
  intros m m' r Hm. unfold magic_enc.
  assert (Hu : Z.to_N (m mod 4294967296)%Z < 4294967296) by lia.
  remember (Z.to_N (m mod 4294967296)%Z) as u eqn:Eu.
  destruct (le32 u) as [| b0 [| b1 [| b2 [| b3 [| ? ?]]]]] eqn:El; try discriminate El.
  cbn [app expect_magic]. rewrite (le32_value u b0 b1 b2 b3 Hu El). rewrite Eu, (int32_of_magic m Hm). reflexivity.
Qed.

Section Codec.
  Context {M : Type}.
  Variable marshal : M -> list byte.
  Variable unmarshal : list byte -> option M.
  Hypothesis unmarshal_marshal : forall m, unmarshal (marshal m) = Some m.

  Definition stream (msgs : list M) : list byte := concat (map frame (map marshal msgs)).

  Lemma stream_cons : forall m ms, stream (m :: ms) = frame (marshal m) ++ stream ms.
  Proof. reflexivity. Qed.

  Definition cap_after (cap len : N) : N := if cap <? len then npo2 len else cap.

  (** one complete frame *)
  Lemma read_one_frame :
    forall cap m r, N.of_nat (length (marshal m)) < 2 ^ 63 ->
      read_one unmarshal cap (frame (marshal m) ++ r) =
      (ReadOk m, N.of_nat (length (frame (marshal m))), r, cap_after cap (N.of_nat (length (marshal m)))).
  Proof.
    intros cap m r Hlen. unfold read_one, frame. rewrite <- app_assoc.
    set (b := marshal m) in *. set (len := N.of_nat (length b)) in *.
    rewrite uvarint_read_enc by (eapply N.lt_trans; [exact Hlen | reflexivity]).
    change (2 ^ 63) with 9223372036854775808 in Hlen.
    replace (9223372036854775808 <=? len) with false by lia.
    assert (Hto : N.to_nat len = length b) by (unfold len; apply Nat2N.id).
    rewrite Hto, firstn_app, Nat.sub_diag, firstn_all, firstn_O, app_nil_r.
    rewrite skipn_app, Nat.sub_diag, skipn_all, skipn_O. cbn [app].
    fold len. rewrite app_length. fold len.
    unfold cap_after.
    destruct (len =? 0) eqn:E0.
    - assert (Eb : b = []) by (destruct b; [reflexivity | unfold len in E0; cbn [length] in E0; lia]).
      rewrite Eb. cbn [app length]. rewrite <- Eb. unfold b. rewrite unmarshal_marshal.
      replace (N.of_nat (length (uvarint_enc len) + 0)) with (N.of_nat (length (uvarint_enc len))) by lia.
      reflexivity.
    - replace (len <? len) with false by lia.
      unfold b. rewrite unmarshal_marshal. fold b.
      replace (N.of_nat (length (uvarint_enc len) + length b)) with (N.of_nat (length (uvarint_enc len)) + len)
        by (unfold len, byte in *; lia).
      reflexivity.
  Qed.

  Lemma read_one_nil : forall cap, read_one unmarshal cap [] = (ReadErr EEOF, 0, [], cap).
  Proof. reflexivity. Qed.

  Definition fits_msg (m : M) : Prop := fits (marshal m).

  Lemma fits_lt_63 : forall b, fits b -> N.of_nat (length b) < 2 ^ 63.
  Proof. intros b H. eapply N.lt_trans; [exact H | reflexivity]. Qed.

  Lemma stream_length_ge : forall msgs, (length msgs <= length (stream msgs))%nat.
  Proof.
    induction msgs as [| m ms IH]; [cbn; lia |]. rewrite stream_cons, app_length. cbn [length].
    pose proof (frame_nonempty (marshal m)). lia.
  Qed.

  (** reading a well-formed stream: every message, then end of file *)
  Lemma read_msgs_fuel_stream :
    forall msgs fuel cap, Forall fits_msg msgs -> (length msgs < fuel)%nat ->
      read_msgs_fuel unmarshal fuel cap (stream msgs) = (msgs, EEOF).
  Proof.
    induction msgs as [| m ms IH]; intros fuel cap Hf Hfuel.
    - destruct fuel; [cbn in Hfuel; lia |]. reflexivity.
    - destruct fuel as [| f]; [cbn in Hfuel; lia |]. inversion Hf as [| m' ms' Hm Hms]; subst.
      cbn [read_msgs_fuel]. rewrite stream_cons, read_one_frame by (apply fits_lt_63; exact Hm).
      rewrite IH; [reflexivity | exact Hms | cbn [length] in Hfuel; lia].
  Qed.

  Lemma read_msgs_stream :
    forall msgs cap, Forall fits_msg msgs -> read_msgs unmarshal cap (stream msgs) = (msgs, EEOF).
  Proof.
    intros msgs cap Hf. unfold read_msgs. apply read_msgs_fuel_stream; [exact Hf |].
    pose proof (stream_length_ge msgs). lia.
  Qed.

  Lemma write_msgs_ok : forall msgs, Forall fits_msg msgs -> write_msgs marshal msgs = WOk (stream msgs).
  Proof.
    intros msgs Hf. unfold write_msgs, stream. apply write_bodies_ok.
    induction Hf; cbn [map]; constructor; assumption.
  Qed.

  (** [read_write_roundtrip] *)
  Lemma read_write_roundtrip_lemma :
    forall (compress : list byte -> list byte) (decompress : list byte -> option (list byte)),
      (forall s, decompress (compress s) = Some s) ->
    forall msgs cap, Forall fits_msg msgs ->
      exists z, write_stream marshal compress msgs = WOk z /\
                read_stream unmarshal decompress cap z = (msgs, EEOF).
  Proof.
    intros compress decompress Hcodec msgs cap Hf.
    exists (compress (stream msgs)). unfold write_stream, read_stream.
    rewrite (write_msgs_ok msgs Hf), Hcodec. split; [reflexivity | apply read_msgs_stream; exact Hf].
  Qed.

  (** ---- truncation ---- *)

  (** a proper prefix of one frame: no message, io.EOF or io.ErrUnexpectedEOF *)
  Lemma read_one_truncated_frame :
    forall cap b p q, fits b -> frame b = p ++ q -> q <> [] ->
      exists e c rest cap', read_one unmarshal cap p = (ReadErr e, c, rest, cap') /\
                            (e = EEOF \/ e = EUnexpectedEOF).
  Proof.
    intros cap b p q Hb E Hq. unfold frame in E.
    assert (H64 : N.of_nat (length b) < 2 ^ 64) by (eapply N.lt_trans; [exact Hb | reflexivity]).
    assert (Hcases : (exists l, p = uvarint_enc (N.of_nat (length b)) ++ l /\ b = l ++ q) \/
                     (exists l, l <> [] /\ uvarint_enc (N.of_nat (length b)) = p ++ l)).
    { apply app_eq_app in E. destruct E as (l & [[Ee Eq] | [Ep Eb]]).
      - destruct l as [| x l].
        + left. exists []. rewrite app_nil_r in Ee. rewrite app_nil_r. split; [symmetry; exact Ee | cbn [app] in *; symmetry; exact Eq].
        + right. exists (x :: l). split; [discriminate | exact Ee].
      - left. exists l. split; assumption. }
    destruct Hcases as [(l & Ep & Eb) | (l & Hl & Ee)].
    - (* the cut is inside the body, or right after the length prefix *)
      subst p. unfold read_one. rewrite uvarint_read_enc by exact H64.
      set (len := N.of_nat (length b)) in *.
      assert (Hlen63 : len < 9223372036854775808) by (eapply N.lt_trans; [exact Hb | reflexivity]).
      replace (9223372036854775808 <=? len) with false by lia.
      assert (Hll : (length l < length b)%nat).
      { rewrite Eb, app_length. destruct q; [contradiction | cbn [length]; lia]. }
      assert (Hfirst : firstn (N.to_nat len) l = l).
      { apply firstn_all2. unfold len. rewrite Nat2N.id. lia. }
      rewrite Hfirst.
      replace (len =? 0) with false by (unfold len, byte in *; lia).
      destruct (N.of_nat (length l) =? 0) eqn:E0.
      + do 4 eexists. split; [reflexivity | left; reflexivity].
      + replace (N.of_nat (length l) <? len) with true by (unfold len, byte in *; lia).
        do 4 eexists. split; [reflexivity | right; reflexivity].
    - (* the cut is inside the length prefix *)
      unfold read_one. rewrite (uvarint_read_truncated _ p l H64 Ee Hl).
      destruct p; do 4 eexists; (split; [reflexivity |]); [left | right]; reflexivity.
  Qed.

  (** [truncated_stream]: whatever proper prefix of a written stream is read, the result is a
      strict prefix of the written messages followed by io.EOF or io.ErrUnexpectedEOF *)
  Lemma read_msgs_fuel_truncated :
    forall msgs fuel cap p q, Forall fits_msg msgs -> stream msgs = p ++ q -> q <> [] -> (length p < fuel)%nat ->
      exists k e, read_msgs_fuel unmarshal fuel cap p = (firstn k msgs, e) /\ (k < length msgs)%nat /\
                  (e = EEOF \/ e = EUnexpectedEOF).
  Proof.
    induction msgs as [| m ms IH]; intros fuel cap p q Hf E Hq Hfuel.
    - cbn in E. destruct p; [| discriminate E]. cbn [app] in E. subst q. contradiction.
    - inversion Hf as [| m' ms' Hm Hms]; subst. rewrite stream_cons in E.
      destruct fuel as [| f]; [lia |]. cbn [read_msgs_fuel].
      apply app_eq_app in E. destruct E as (l & [[Ef Eq] | [Ep Es]]).
      + (* the cut falls inside (or at the end of) the first frame *)
        destruct l as [| x l].
        * (* exactly after the first frame *)
          rewrite app_nil_r in Ef. cbn [app] in Eq. subst p.
          rewrite <- (app_nil_r (frame (marshal m))), read_one_frame by (apply fits_lt_63; exact Hm).
          destruct ms as [| m2 ms]; [cbn in Eq; subst q; contradiction |].
          exists 1%nat, EEOF. destruct f; [pose proof (frame_nonempty (marshal m)); lia |].
          cbn [read_msgs_fuel]. rewrite read_one_nil. cbn [firstn length]. split; [reflexivity | split; [lia | left; reflexivity]].
        * destruct (read_one_truncated_frame cap (marshal m) p (x :: l) Hm Ef ltac:(discriminate))
            as (e & c & rest & cap' & Er & He).
          rewrite Er. exists 0%nat, e. cbn [firstn length]. split; [reflexivity | split; [lia | exact He]].
      + (* the first frame is complete *)
        subst p. rewrite read_one_frame by (apply fits_lt_63; exact Hm).
        destruct (IH f (cap_after cap (N.of_nat (length (marshal m)))) l q Hms Es Hq) as (k & e & Er & Hk & He).
        { rewrite app_length in Hfuel. pose proof (frame_nonempty (marshal m)). lia. }
        rewrite Er. exists (S k), e. cbn [firstn length]. split; [reflexivity | split; [lia | exact He]].
  Qed.

  Lemma truncated_stream_lemma :
    forall msgs cap p q, Forall fits_msg msgs -> stream msgs = p ++ q -> q <> [] ->
      exists k e, read_msgs unmarshal cap p = (firstn k msgs, e) /\ (k < length msgs)%nat /\
                  (e = EEOF \/ e = EUnexpectedEOF).
  Proof.
    intros msgs cap p q Hf E Hq. unfold read_msgs.
    apply (read_msgs_fuel_truncated msgs (S (length p)) cap p q Hf E Hq). lia.
  Qed.
End Codec.
