(** How the reader pulls single bytes and discards bytes from a [savior.Source] whose [Read]
    may report io.EOF together with the last bytes of the stream (the gzip source does; the
    seek source and the brotli source report it on the following call).  [Wire/Reader.v]
    works on plain lists; this file models the two places of wire/read_context.go where the
    difference matters, before and after the two [fix:] commits of C13, so that the list
    semantics can be proved to be what the repaired code computes for both kinds of source
    ([Wire/SourceEOFProofs.v]) and the behaviour of the unrepaired code is kept as an
    executable counterexample.  Definitions only. *)
From Wharf Require Import Base.Prelude Wire.Uvarint.
Local Open Scope N_scope.

(** [source.Read(buf)] with [len(buf) = n] on the unread bytes: data, rest, "io.EOF reported
    by this call".  [eager]: the call that hands out the last byte reports io.EOF as well. *)
Definition src_read (eager : bool) (n : nat) (rest : list byte) : list byte * list byte * bool :=
  match rest with
  | [] => ([], [], true)
  | _ => let got := firstn n rest in
         let rest' := skipn n rest in
         (got, rest', eager && match rest' with [] => true | _ => false end)
  end.

(** one byte for [binary.ReadUvarint].
    Before: [countingReader.ReadByte] called the source's [ReadByte], which passes a byte
    that arrived together with io.EOF on with that error; ReadUvarint drops it. *)
Definition read_byte_unfixed (eager : bool) (rest : list byte) : option byte * list byte :=
  match src_read eager 1 rest with
  | ([b], rest', false) => (Some b, rest')
  | (_, rest', _) => (None, rest')
  end.

(** After: [countingReader.ReadByte] reads one byte through [Read]; a byte is returned
    without the error that came with it (the source repeats the error on the next call). *)
Definition read_byte_fixed (eager : bool) (rest : list byte) : option byte * list byte :=
  match src_read eager 1 rest with
  | ([b], rest', _) => (Some b, rest')
  | (_, rest', _) => (None, rest')
  end.

(** [ReadUvarint] over a byte reader ([uv_loop] with the reader made explicit) *)
Fixpoint uv_loop_with (next : list byte -> option byte * list byte) (fuel : nat) (rest : list byte) (i x s : N) : uv_res :=
  match fuel with
  | O => UvErr UvOverflow i
  | S f =>
    match next rest with
    | (None, _) => UvErr (if i =? 0 then UvEOF else UvUnexpectedEOF) i
    | (Some b, r) =>
      if b <? 128 then
        if (i =? 9) && (1 <? b) then UvErr UvOverflow (i + 1)
        else UvOk (N.lor x (N.shiftl b s)) (i + 1) r
      else uv_loop_with next f r (i + 1) (N.lor x (N.shiftl (N.land b 127) s)) (s + 7)
    end
  end.

(** [Resume]'s discard loop over reads of at most [chunk] bytes ([chunk] = 4096 in Go).
    Before ([savior.DiscardByRead]): [n, err := Read; if err != nil return err; delta -= n].
    After ([discardByRead] in wire): [delta -= n; if err != nil && delta > 0 return err].
    Result: the unread rest, or [None] for an error. *)
Fixpoint discard_unfixed (fuel : nat) (eager : bool) (chunk delta : nat) (rest : list byte) : option (list byte) :=
  match fuel with
  | O => None
  | S f =>
    match delta with
    | O => Some rest
    | _ => let '(got, rest', eof) := src_read eager (Nat.min delta chunk) rest in
           if eof then None else discard_unfixed f eager chunk (delta - length got) rest'
    end
  end.

Fixpoint discard_fixed (fuel : nat) (eager : bool) (chunk delta : nat) (rest : list byte) : option (list byte) :=
  match fuel with
  | O => None
  | S f =>
    match delta with
    | O => Some rest
    | _ => let '(got, rest', eof) := src_read eager (Nat.min delta chunk) rest in
           let delta' := (delta - length got)%nat in
           if eof && negb (Nat.eqb delta' 0) then None else discard_fixed f eager chunk delta' rest'
    end
  end.
