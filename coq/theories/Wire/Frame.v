(** Model of the wharf wire format on plain byte lists: wire/write_context.go
    ([WriteMagic], [WriteMessage]) and the reading side of wire/read_context.go
    ([ExpectMagic], [ReadMessage]) without checkpoints (those are in [Wire/Reader.v], which
    reuses [read_one]).  The protobuf codec ([marshal]/[unmarshal]) is a section variable.
    Definitions only; lemmas are in [Wire/FrameProofs.v]. *)
From Wharf Require Import Base.Prelude Wire.Uvarint.
Local Open Scope N_scope.

(** error classes of a read: io.EOF, io.ErrUnexpectedEOF, binary's overflow error,
    wire.ErrFormat (wrong magic), a protobuf unmarshalling error, a Go panic, and the
    out-of-fuel outcome of the fuelled loops (excluded by the theorems) *)
Inductive rerr := EEOF | EUnexpectedEOF | EOverflow | EFormat | EUnmarshal | EPanic | EOutOfFuel.

Definition rerr_of_uv (e : uv_err) : rerr :=
  match e with UvEOF => EEOF | UvUnexpectedEOF => EUnexpectedEOF | UvOverflow => EOverflow end.

(** ---- magic: [binary.Write(w, LittleEndian, int32)] / [binary.Read] ---- *)
Definition le32 (u : N) : list byte :=
  [u mod 256; (u / 256) mod 256; (u / 65536) mod 256; (u / 16777216) mod 256].

Definition magic_enc (m : Z) : list byte := le32 (Z.to_N (m mod 4294967296)%Z).

Definition int32_of (u : N) : Z :=
  if u <? 2147483648 then Z.of_N u else (Z.of_N u - 4294967296)%Z.

(** [ExpectMagic]: io.ReadFull of 4 bytes (EOF when nothing is left, ErrUnexpectedEOF after
    1-3 bytes), then the comparison. *)
Definition expect_magic (m : Z) (l : list byte) : list byte + rerr :=
  match l with
  | b0 :: b1 :: b2 :: b3 :: r =>
    if Z.eqb (int32_of (b0 + 256 * b1 + 65536 * b2 + 16777216 * b3)) m then inl r else inr EFormat
  | [] => inr EEOF
  | _ => inr EUnexpectedEOF
  end.

(** ---- writer ---- *)
Inductive wres := WOk (s : list byte) | WPanic.

(** [NewWriteContext] allocates [varintBuffer = make([]byte, 8)]; [PutUvarint] indexes past
    it (run-time panic) for lengths of 2^56 and more. *)
Definition varint_buffer_len : N := 8.

Definition frame (body : list byte) : list byte :=
  uvarint_enc (N.of_nat (length body)) ++ body.

Definition write_message (body : list byte) : wres :=
  if N.of_nat (length (uvarint_enc (N.of_nat (length body)))) <=? varint_buffer_len
  then WOk (frame body) else WPanic.

Fixpoint write_bodies (bodies : list (list byte)) : wres :=
  match bodies with
  | [] => WOk []
  | b :: r =>
    match write_message b with
    | WPanic => WPanic
    | WOk f => match write_bodies r with
               | WPanic => WPanic
               | WOk s => WOk (f ++ s)
               end
    end
  end.

Section Codec.
  Context {M : Type}.
  Variable marshal : M -> list byte.
  Variable unmarshal : list byte -> option M.

  Definition write_msgs (msgs : list M) : wres := write_bodies (map marshal msgs).

  (** ---- [ReadMessage] on the unread bytes [l] with a reusable buffer of capacity [cap]:
<<
      length, err := binary.ReadUvarint(r.countingReader)          -- error: return
      msgBuf := r.protoBuffer.Bytes()
      if cap(msgBuf) < int(length) { msgBuf = make([]byte, nextPowerOf2(int(length))) }
      _, err = io.ReadFull(r.countingReader, msgBuf[:length])       -- error: return (buffer not kept)
      r.protoBuffer.SetBuf(msgBuf[:length])
      msg.Reset(); err = r.protoBuffer.Unmarshal(msg)
>>
      Result: outcome, bytes consumed from [l], unread rest, new capacity.
      [int(length)] is negative from 2^63 on: the capacity test is false and
      [msgBuf[:length]] panics (slice bounds out of range). Allocation is assumed to succeed. *)
  Inductive read_res := ReadOk (m : M) | ReadErr (e : rerr).

  Definition read_one (cap : N) (l : list byte) : read_res * N * list byte * N :=
    match uvarint_read l with
    | UvErr e c => (ReadErr (rerr_of_uv e), c, skipn (N.to_nat c) l, cap)
    | UvOk len c rest =>
      if 9223372036854775808 <=? len then (ReadErr EPanic, c, rest, cap)
      else
        let cap' := if cap <? len then npo2 len else cap in
        let body := firstn (N.to_nat len) rest in      (* what io.ReadFull can get *)
        let got := N.of_nat (length body) in
        if len =? 0 then
          match unmarshal [] with
          | Some m => (ReadOk m, c, rest, cap')
          | None => (ReadErr EUnmarshal, c, rest, cap')
          end
        else if got =? 0 then (ReadErr EEOF, c, rest, cap)
        else if got <? len then (ReadErr EUnexpectedEOF, c + got, [], cap)
        else
          let rest' := skipn (N.to_nat len) rest in
          match unmarshal body with
          | Some m => (ReadOk m, c + len, rest', cap')
          | None => (ReadErr EUnmarshal, c + len, rest', cap')
          end
    end.

  (** read until the first failure; every successful read consumes at least one byte, so
      [S (length l)] units of fuel always suffice *)
  Fixpoint read_msgs_fuel (fuel : nat) (cap : N) (l : list byte) : list M * rerr :=
    match fuel with
    | O => ([], EOutOfFuel)
    | S f =>
      match read_one cap l with
      | (ReadOk m, _, rest, cap') => let '(ms, e) := read_msgs_fuel f cap' rest in (m :: ms, e)
      | (ReadErr e, _, _, _) => ([], e)
      end
    end.

  Definition read_msgs (cap : N) (l : list byte) : list M * rerr :=
    read_msgs_fuel (S (length l)) cap l.

  (** a whole stream: optional magic, frames; optionally through a compressor that is
      closed at the end and a decompressor *)
  Variable compress : list byte -> list byte.
  Variable decompress : list byte -> option (list byte).

  Definition write_stream (msgs : list M) : wres :=
    match write_msgs msgs with
    | WOk s => WOk (compress s)
    | WPanic => WPanic
    end.

  Definition read_stream (cap : N) (z : list byte) : list M * rerr :=
    match decompress z with
    | Some s => read_msgs cap s
    | None => ([], EUnexpectedEOF)
    end.
End Codec.

Arguments ReadOk {M}.
Arguments ReadErr {M}.
