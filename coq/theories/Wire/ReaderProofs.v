(** Lemmas about [Wire/Reader.v]: the reader's offset is always a message boundary, popped
    checkpoints resume exactly at the next unread message for every source behaviour meeting
    the contract [beh_sound], and the three-state save protocol. *)
From Wharf Require Import Base.Prelude Wire.Uvarint Wire.UvarintProofs Wire.Frame Wire.FrameProofs Wire.Reader.
From Coq Require Import ZifyBool ZifyNat ZifyN.
Ltac Zify.zify_post_hook ::= Z.div_mod_to_equations.
Local Open Scope N_scope.

(** the contract assumed of a source (codec hypothesis): a checkpoint describes an offset not
    beyond what has been handed out when the read during which it was emitted returns, and a
    fresh source handed that checkpoint restarts at or before the described offset *)
Definition beh_sound (beh : behaviour) : Prop :=
  forall before after sc, beh before after = Some sc -> sc_restart sc <= sc_off sc /\ sc_off sc <= after.

Lemma seek_beh_sound : beh_sound seek_beh.
Proof.
  intros a b sc H. unfold seek_beh in H. destruct (a <? b) eqn:E; [| discriminate].
  inversion H; subst; cbn [sc_restart sc_off]. lia.
Qed.

Lemma last_cons_indep : forall (A : Type) (l : list A) (x d d' : A), last (x :: l) d = last (x :: l) d'.
Proof. induction l as [| y l IH]; intros x d d'; [reflexivity |]. cbn [last] in *. apply IH. Qed.

Lemma last_cons_shift : forall (A : Type) (l : list A) (x d : A), last (x :: l) d = last l x.
Proof.
  intros A l x d. destruct l as [| y l]; [reflexivity |].
  change (last (x :: y :: l) d) with (last (y :: l) d). apply last_cons_indep.
Qed.

(** ---- the save protocol, independent of the stream contents ---- *)
Section Protocol.
  Context {M : Type}.
  Variable unmarshal : list byte -> option M.
  Variable beh : behaviour.

  Notation ev := (@ev M).

  (** the source has a pending request exactly while the reader waits for it *)
  Definition coherent (r : reader) : Prop :=
    s_want (r_src r) = match r_save r with Waiting => true | _ => false end.

  Definition pending (r : reader) : nat := match r_save r with Idle => 0 | _ => 1 end.

  Fixpoint pops (tr : list (ev * reader)) : nat :=
    match tr with
    | [] => 0
    | (EvPop (Some _), _) :: t => S (pops t)
    | _ :: t => pops t
    end.

  Fixpoint wants (tr : list (ev * reader)) : nat :=
    match tr with
    | [] => 0
    | (EvWant true, _) :: t => S (wants t)
    | _ :: t => wants t
    end.

  Lemma pop_spec : forall r,
    match r_save r with
    | HasSrc => pop_checkpoint r = (mk_rd (r_src r) (r_off r) (r_cap r) Idle None, Some (mk_mc (r_off r) (r_sc r)))
    | _ => pop_checkpoint r = (r, None)
    end.
  Proof. intros r. unfold pop_checkpoint. destruct (r_save r); reflexivity. Qed.

  Lemma pop_some_iff : forall r r' c,
    pop_checkpoint r = (r', Some c) -> r_save r = HasSrc /\ r_save r' = Idle /\ r_sc r' = None /\ mc_off c = r_off r /\ mc_src c = r_sc r.
  Proof.
    intros r r' c H. unfold pop_checkpoint in H. destruct (r_save r) eqn:E; inversion H; subst.
    cbn. repeat split; reflexivity.
  Qed.

  Lemma step_protocol : forall r o r' e,
    coherent r -> step unmarshal beh r o = (r', e) ->
    coherent r' /\
    (pops [(e, r')] + pending r' = wants [(e, r')] + pending r)%nat.
  Proof.
    intros r o r' e Hc Hs. unfold coherent, pending in *. destruct o; cbn [step] in Hs.
    - inversion Hs; subst. unfold want_save. destruct (r_save r) eqn:E; cbn; rewrite ?E; cbn; auto.
    - pose proof (pop_spec r) as Hp. destruct (r_save r) eqn:E; rewrite Hp in Hs; inversion Hs; subst; cbn; rewrite ?E; cbn; auto.
    - unfold read_message in Hs.
      destruct (read_one unmarshal (r_cap r) (s_rest (r_src r))) as [[[res c] rest] cap'].
      destruct (s_want (r_src r)) eqn:Ew.
      + destruct (r_save r) eqn:E; try discriminate Hc.
        destruct (beh (s_pos (r_src r)) (s_pos (r_src r) + c)); inversion Hs; subst; cbn; rewrite ?E, ?Ew; cbn; auto.
      + inversion Hs; subst. cbn. destruct (r_save r); cbn; auto; discriminate Hc.
  Qed.

  Lemma run_protocol : forall ops r,
    coherent r ->
    let tr := run unmarshal beh r ops in
    coherent (final r tr) /\ (pops tr + pending (final r tr) = wants tr + pending r)%nat.
  Proof.
    induction ops as [| o ops IH]; intros r Hc; cbn [run].
    - cbn. split; [exact Hc | lia].
    - destruct (step unmarshal beh r o) as [r' e] eqn:Hs.
      destruct (step_protocol r o r' e Hc Hs) as [Hc' Hcount].
      destruct (IH r' Hc') as [Hcf Hcnt].
      assert (Hfin : final r ((e, r') :: run unmarshal beh r' ops) = final r' (run unmarshal beh r' ops)).
      { unfold final. cbn [map snd]. apply last_cons_shift. }
      rewrite Hfin. split; [exact Hcf |].
      cbn [pops wants] in Hcount |- *.
      destruct e as [[|] | [c|] | res]; cbn [pops wants] in *; lia.
  Qed.

  Lemma run_firstn : forall ops r i, firstn i (run unmarshal beh r ops) = run unmarshal beh r (firstn i ops).
  Proof.
    induction ops as [| o ops IH]; intros r i; destruct i; cbn [run firstn]; try reflexivity.
    destruct (step unmarshal beh r o) as [r' e]. cbn [firstn]. rewrite IH. reflexivity.
  Qed.

  (** at most one checkpoint per forwarded WantSave, at every point of every run *)
  Lemma pops_le_wants : forall ops cap0 data i,
    (pops (firstn i (run unmarshal beh (new_reader cap0 data) ops)) <=
     wants (firstn i (run unmarshal beh (new_reader cap0 data) ops)))%nat.
  Proof.
    intros ops cap0 data i. rewrite run_firstn.
    pose proof (run_protocol (firstn i ops) (new_reader cap0 data) eq_refl) as [_ H].
    cbn [pending new_reader r_save] in H. lia.
  Qed.
End Protocol.

(** ---- positions, checkpoints, resumption over a well-formed stream ---- *)
Section Resume.
  Context {M : Type}.
  Variable marshal : M -> list byte.
  Variable unmarshal : list byte -> option M.
  Hypothesis unmarshal_marshal : forall m, unmarshal (marshal m) = Some m.

  Notation stream := (stream marshal).
  Notation fits_msg := (fits_msg marshal).
  Notation ev := (@ev M).

  Lemma stream_app : forall a b, stream (a ++ b) = stream a ++ stream b.
  Proof. intros a b. unfold FrameProofs.stream. rewrite !map_app, concat_app. reflexivity. Qed.

  Definition off_of (done : list M) : N := N.of_nat (length (stream done)).

  Lemma off_of_snoc : forall done m, off_of (done ++ [m]) = off_of done + N.of_nat (length (frame (marshal m))).
  Proof.
    intros done m. unfold off_of. rewrite stream_app, app_length.
    unfold FrameProofs.stream at 2. cbn [map concat]. rewrite app_nil_r. lia.
  Qed.

  (** position invariant: [done] has been read, [todo] is still unread *)
  Definition pinv (done todo : list M) (r : reader) : Prop :=
    s_data (r_src r) = stream (done ++ todo) /\
    s_pos (r_src r) = off_of done /\
    r_off r = off_of done /\
    s_rest (r_src r) = stream todo.

  (** checkpoint invariant: a held source checkpoint obeys the contract w.r.t. the current offset *)
  Definition cinv (done : list M) (r : reader) : Prop :=
    match r_save r with
    | HasSrc => exists sc, r_sc r = Some sc /\ sc_restart sc <= sc_off sc /\ sc_off sc <= off_of done
    | _ => r_sc r = None
    end.

  Lemma pinv_new : forall cap0 msgs, pinv [] msgs (new_reader cap0 (stream msgs)).
  Proof. intros. unfold pinv, new_reader, off_of. cbn. repeat split; reflexivity. Qed.

  Lemma cinv_new : forall cap0 data, cinv [] (new_reader cap0 data).
  Proof. intros. reflexivity. Qed.

  Lemma off_of_mono : forall done m, off_of done <= off_of (done ++ [m]).
  Proof. intros. rewrite off_of_snoc. lia. Qed.

  (** one [ReadMessage] *)
  Lemma read_message_msg : forall beh done m todo r,
    beh_sound beh -> fits_msg m -> pinv done (m :: todo) r -> cinv done r ->
    exists r', read_message unmarshal beh r = (r', ReadOk m) /\
               pinv (done ++ [m]) todo r' /\ cinv (done ++ [m]) r'.
  Proof.
    intros beh done m todo r Hb Hm (Hd & Hp & Ho & Hr) Hc.
    unfold read_message. rewrite Hr, stream_cons.
    rewrite (read_one_frame marshal unmarshal unmarshal_marshal) by (apply fits_lt_63; exact Hm).
    set (c := N.of_nat (length (frame (marshal m)))).
    assert (Hoff : off_of (done ++ [m]) = off_of done + c) by apply off_of_snoc.
    assert (Hdata : stream (done ++ m :: todo) = stream ((done ++ [m]) ++ todo)) by (rewrite <- app_assoc; reflexivity).
    destruct (s_want (r_src r)) eqn:Ew.
    - destruct (beh (s_pos (r_src r)) (s_pos (r_src r) + c)) as [sc |] eqn:Eb.
      + eexists. split; [reflexivity |]. split.
        * unfold pinv. cbn. rewrite Hd, Hp, Ho, Hoff, Hdata. repeat split; reflexivity.
        * unfold cinv. cbn. exists sc. destruct (Hb _ _ _ Eb) as [H1 H2]. rewrite Hp in H2. rewrite Hoff. repeat split; auto.
      + eexists. split; [reflexivity |]. split.
        * unfold pinv. cbn. rewrite Hd, Hp, Ho, Hoff, Hdata. repeat split; reflexivity.
        * unfold cinv in *. cbn. destruct (r_save r); try exact Hc.
          destruct Hc as (sc & E1 & E2 & E3). exists sc. rewrite Hoff. repeat split; auto. lia.
    - eexists. split; [reflexivity |]. split.
      + unfold pinv. cbn. rewrite Hd, Hp, Ho, Hoff, Hdata. repeat split; reflexivity.
      + unfold cinv in *. cbn. destruct (r_save r); try exact Hc.
        destruct Hc as (sc & E1 & E2 & E3). exists sc. rewrite Hoff. repeat split; auto. lia.
  Qed.

  Lemma read_message_end : forall beh done r,
    beh_sound beh -> pinv done [] r -> cinv done r ->
    exists r', read_message unmarshal beh r = (r', ReadErr EEOF) /\ pinv done [] r' /\ cinv done r'.
  Proof.
    intros beh done r Hb (Hd & Hp & Ho & Hr) Hc.
    unfold read_message. rewrite Hr. change (stream []) with (@nil byte). rewrite read_one_nil.
    destruct (s_want (r_src r)) eqn:Ew.
    - destruct (beh (s_pos (r_src r)) (s_pos (r_src r) + 0)) as [sc |] eqn:Eb.
      + eexists. split; [reflexivity |]. split.
        * unfold pinv. cbn. rewrite Hd, Hp, Ho. repeat split; lia.
        * unfold cinv. cbn. exists sc. destruct (Hb _ _ _ Eb) as [H1 H2]. rewrite Hp in H2. repeat split; auto. lia.
      + eexists. split; [reflexivity |]. split.
        * unfold pinv. cbn. rewrite Hd, Hp, Ho. repeat split; lia.
        * unfold cinv in *. cbn. exact Hc.
    - eexists. split; [reflexivity |]. split.
      + unfold pinv. cbn. rewrite Hd, Hp, Ho. repeat split; lia.
      + unfold cinv in *. cbn. exact Hc.
  Qed.

  (** what a popped checkpoint must look like to be resumable after [done] *)
  Definition good_ckpt (done : list M) (c : msg_ckpt) : Prop :=
    mc_off c = off_of done /\
    exists sc, mc_src c = Some sc /\ sc_restart sc <= sc_off sc /\ sc_off sc <= off_of done.

  Lemma want_save_inv : forall done todo r, pinv done todo r -> cinv done r ->
    pinv done todo (want_save r) /\ cinv done (want_save r).
  Proof.
    intros done todo r Hp Hc. unfold want_save. destruct (r_save r) eqn:E; [| auto | auto].
    split; [exact Hp |]. unfold cinv in *. rewrite E in Hc. cbn. exact Hc.
  Qed.

  Lemma pop_inv : forall done todo r r' c, pinv done todo r -> cinv done r ->
    pop_checkpoint r = (r', c) ->
    pinv done todo r' /\ cinv done r' /\ (forall ck, c = Some ck -> good_ckpt done ck).
  Proof.
    intros done todo r r' c Hp Hc H. unfold pop_checkpoint in H.
    destruct (r_save r) eqn:E; inversion H; subst; try (split; [exact Hp | split; [exact Hc | discriminate]]).
    split; [exact Hp |]. split; [unfold cinv; cbn; reflexivity |].
    intros ck Eck. inversion Eck; subst. unfold cinv in Hc. rewrite E in Hc.
    destruct Hc as (sc & E1 & E2 & E3). destruct Hp as (_ & _ & Ho & _).
    unfold good_ckpt. cbn. split; [exact Ho |]. exists sc. repeat split; auto.
  Qed.

  (** the run: messages come out in order; every popped checkpoint is good for the messages
      read before it *)
  Lemma run_inv : forall beh ops done todo r,
    beh_sound beh -> Forall fits_msg todo -> pinv done todo r -> cinv done r ->
    let tr := run unmarshal beh r ops in
    exists n, msgs_of tr = firstn n todo /\ (n <= length todo)%nat /\
    forall i c ri, nth_error tr i = Some (EvPop (Some c), ri) ->
      exists j, msgs_of (firstn i tr) = firstn j todo /\ (j <= length todo)%nat /\ good_ckpt (done ++ firstn j todo) c.
  Proof.
    intros beh ops. induction ops as [| o ops IH]; intros done todo r Hb Hf Hp Hc; cbn [run].
    - exists 0%nat. cbn. split; [reflexivity |]. split; [lia |]. intros i c ri H. destruct i; discriminate H.
    - destruct o; cbn [step].
      + (* WantSave *)
        destruct (want_save_inv done todo r Hp Hc) as [Hp' Hc'].
        destruct (IH done todo (want_save r) Hb Hf Hp' Hc') as (n & Hn & Hle & Hck).
        exists n. cbn [msgs_of]. split; [exact Hn |]. split; [exact Hle |].
        intros i c ri H. destruct i as [| i]; [discriminate H |]. cbn [nth_error] in H.
        destruct (Hck i c ri H) as (j & Hj & Hjl & Hg). exists j. cbn [firstn msgs_of]. auto.
      + (* PopCheckpoint *)
        destruct (pop_checkpoint r) as [r' c0] eqn:Epop.
        destruct (pop_inv done todo r r' c0 Hp Hc Epop) as (Hp' & Hc' & Hgood).
        destruct (IH done todo r' Hb Hf Hp' Hc') as (n & Hn & Hle & Hck).
        exists n. cbn [msgs_of]. split; [destruct c0; exact Hn |]. split; [exact Hle |].
        intros i c ri H. destruct i as [| i].
        * cbn [nth_error] in H. inversion H; subst. exists 0%nat. cbn [firstn msgs_of]. rewrite app_nil_r.
          split; [reflexivity |]. split; [lia |]. apply Hgood. reflexivity.
        * cbn [nth_error] in H. destruct (Hck i c ri H) as (j & Hj & Hjl & Hg). exists j.
          cbn [firstn msgs_of]. destruct c0; auto.
      + (* ReadMessage *)
        destruct todo as [| m todo].
        * destruct (read_message_end beh done r Hb Hp Hc) as (r' & Er & Hp' & Hc').
          rewrite Er. destruct (IH done [] r' Hb Hf Hp' Hc') as (n & Hn & Hle & Hck).
          exists 0%nat. cbn [msgs_of firstn]. split; [rewrite Hn; destruct n; reflexivity |]. split; [lia |].
          intros i c ri H. destruct i as [| i]; [discriminate H |]. cbn [nth_error] in H.
          destruct (Hck i c ri H) as (j & Hj & Hjl & Hg). exists 0%nat.
          cbn [firstn msgs_of]. rewrite Hj. destruct j; cbn [firstn] in *; rewrite ?app_nil_r in *; auto.
        * inversion Hf as [| m' todo' Hm Hft]; subst.
          destruct (read_message_msg beh done m todo r Hb Hm Hp Hc) as (r' & Er & Hp' & Hc').
          rewrite Er. destruct (IH (done ++ [m]) todo r' Hb Hft Hp' Hc') as (n & Hn & Hle & Hck).
          exists (S n). cbn [msgs_of firstn length]. split; [rewrite Hn; reflexivity |]. split; [lia |].
          intros i c ri H. destruct i as [| i]; [discriminate H |]. cbn [nth_error] in H.
          destruct (Hck i c ri H) as (j & Hj & Hjl & Hg). exists (S j).
          cbn [firstn msgs_of length]. rewrite Hj. split; [reflexivity |]. split; [lia |].
          rewrite <- app_assoc in Hg. exact Hg.
  Qed.

  (** reading on from a position: the unread messages, then end of file (any behaviour) *)
  Lemma read_all_fuel_pinv : forall beh todo fuel done r,
    beh_sound beh -> Forall fits_msg todo -> pinv done todo r -> cinv done r -> (length todo < fuel)%nat ->
    read_all_fuel unmarshal fuel beh r = (todo, EEOF).
  Proof.
    intros beh todo. induction todo as [| m todo IH]; intros fuel done r Hb Hf Hp Hc Hfuel.
    - destruct fuel; [cbn in Hfuel; lia |]. cbn [read_all_fuel].
      destruct (read_message_end beh done r Hb Hp Hc) as (r' & Er & _). rewrite Er. reflexivity.
    - destruct fuel as [| f]; [cbn in Hfuel; lia |]. cbn [read_all_fuel].
      inversion Hf as [| m' todo' Hm Hft]; subst.
      destruct (read_message_msg beh done m todo r Hb Hm Hp Hc) as (r' & Er & Hp' & Hc').
      rewrite Er. rewrite (IH f (done ++ [m]) r' Hb Hft Hp' Hc'); [reflexivity | cbn [length] in Hfuel; lia].
  Qed.

  Lemma read_all_pinv : forall beh todo done r,
    beh_sound beh -> Forall fits_msg todo -> pinv done todo r -> cinv done r ->
    read_all unmarshal beh r = (todo, EEOF).
  Proof.
    intros beh todo done r Hb Hf Hp Hc. unfold read_all.
    apply (read_all_fuel_pinv beh todo _ done r Hb Hf Hp Hc).
    destruct Hp as (_ & _ & _ & Hr). rewrite Hr.
    pose proof (stream_length_ge marshal unmarshal unmarshal_marshal todo). lia.
  Qed.

  (** [Resume] with a good checkpoint, on any reader over the same bytes *)
  Lemma resume_good : forall done todo c r0,
    s_data (r_src r0) = stream (done ++ todo) -> good_ckpt done c ->
    exists r', resume r0 (Some c) = Some r' /\ pinv done todo r' /\ cinv done r'.
  Proof.
    intros done todo c r0 Hd (Hoff & sc & Hsc & H1 & H2).
    unfold resume. rewrite Hsc, Hoff, Hd.
    replace (off_of done <? sc_restart sc) with false by lia.
    assert (Hlen : off_of done <= N.of_nat (length (stream (done ++ todo)))).
    { unfold off_of. rewrite stream_app, app_length. lia. }
    replace (N.of_nat (length (stream (done ++ todo))) <? off_of done) with false by lia.
    rewrite andb_false_r.
    eexists. split; [reflexivity |]. split; [| reflexivity].
    unfold pinv. cbn. repeat split.
    unfold off_of. rewrite Nat2N.id, stream_app, skipn_app, Nat.sub_diag, skipn_all, skipn_O. reflexivity.
  Qed.

  (** [checkpoint_resumes_exactly] *)
  Lemma checkpoint_resumes_exactly_lemma :
    forall (msgs : list M) (beh : behaviour) (cap0 : N) (ops : list op),
      Forall fits_msg msgs -> beh_sound beh ->
      let tr := run unmarshal beh (new_reader cap0 (stream msgs)) ops in
      forall i c ri, nth_error tr i = Some (EvPop (Some c), ri) ->
        let k := length (msgs_of (firstn i tr)) in
        msgs_of (firstn i tr) = firstn k msgs /\
        forall (r0 : reader) (beh2 : behaviour),
          s_data (r_src r0) = stream msgs -> beh_sound beh2 ->
          exists r', resume r0 (Some c) = Some r' /\
                     read_all unmarshal beh2 r' = (skipn k msgs, EEOF).
  Proof.
    intros msgs beh cap0 ops Hf Hb tr i c ri Hnth k.
    destruct (run_inv beh ops [] msgs (new_reader cap0 (stream msgs)) Hb Hf (pinv_new cap0 msgs) (cinv_new cap0 _))
      as (n & _ & _ & Hck).
    destruct (Hck i c ri Hnth) as (j & Hj & Hjl & Hg). cbn [app] in Hg.
    assert (Hk : k = j).
    { unfold k. fold tr in Hj. rewrite Hj, firstn_length. lia. }
    rewrite Hk. fold tr in Hj. split; [exact Hj |].
    intros r0 beh2 Hd Hb2.
    assert (Hsplit : msgs = firstn j msgs ++ skipn j msgs) by (symmetry; apply firstn_skipn).
    destruct (resume_good (firstn j msgs) (skipn j msgs) c r0) as (r' & Er & Hp' & Hc').
    { rewrite <- Hsplit. exact Hd. }
    { exact Hg. }
    exists r'. split; [exact Er |].
    apply (read_all_pinv beh2 (skipn j msgs) (firstn j msgs) r' Hb2); [| exact Hp' | exact Hc'].
    rewrite Hsplit in Hf. apply Forall_app in Hf. exact (proj2 Hf).
  Qed.

  (** the offset of every popped checkpoint is the boundary after the messages read so far *)
  Lemma popped_at_boundary :
    forall (msgs : list M) (beh : behaviour) (cap0 : N) (ops : list op),
      Forall fits_msg msgs -> beh_sound beh ->
      let tr := run unmarshal beh (new_reader cap0 (stream msgs)) ops in
      forall i c ri, nth_error tr i = Some (EvPop (Some c), ri) ->
        mc_off c = N.of_nat (length (stream (firstn (length (msgs_of (firstn i tr))) msgs))) /\
        exists sc, mc_src c = Some sc /\ sc_off sc <= mc_off c.
  Proof.
    intros msgs beh cap0 ops Hf Hb tr i c ri Hnth.
    destruct (run_inv beh ops [] msgs (new_reader cap0 (stream msgs)) Hb Hf (pinv_new cap0 msgs) (cinv_new cap0 _))
      as (n & _ & _ & Hck).
    destruct (Hck i c ri Hnth) as (j & Hj & Hjl & (Hoff & sc & Hsc & H1 & H2)). cbn [app] in *.
    fold tr in Hj. rewrite Hj, firstn_length, Nat.min_l by lia.
    split; [exact Hoff |]. exists sc. split; [exact Hsc |]. rewrite Hoff. exact H2.
  Qed.

  (** a whole run reads the messages in order *)
  Lemma run_reads_prefix :
    forall (msgs : list M) (beh : behaviour) (cap0 : N) (ops : list op),
      Forall fits_msg msgs -> beh_sound beh ->
      exists n, msgs_of (run unmarshal beh (new_reader cap0 (stream msgs)) ops) = firstn n msgs.
  Proof.
    intros msgs beh cap0 ops Hf Hb.
    destruct (run_inv beh ops [] msgs (new_reader cap0 (stream msgs)) Hb Hf (pinv_new cap0 msgs) (cinv_new cap0 _))
      as (n & Hn & _). exists n. exact Hn.
  Qed.
End Resume.
