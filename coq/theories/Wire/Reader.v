(** Model of wire/read_context.go with checkpoints: [WantSave], [PopCheckpoint],
    [ReadMessage], [Resume], the counting reader, and of the [savior.Source] underneath as far
    as the reader depends on it.  Definitions only; lemmas are in [Wire/ReaderProofs.v].

    The source delivers a fixed (decompressed) byte stream.  Its nondeterminism is an explicit
    argument, the [behaviour]: when a save has been requested ([s_want]) the source may, during
    any [ReadMessage], call the reader's save consumer with a source checkpoint.
      - seek source (no compression): at the first source read after the request, i.e. with
        the offset before the next message ([seek_beh]);
      - gzip / brotli sources: at a block boundary inside some later read, with the number of
        bytes handed out so far.
    A source checkpoint [sc] records the offset it describes ([sc_off]) and the offset at which
    a fresh source that is handed [sc] reports to restart ([sc_restart]; smaller than [sc_off],
    possibly 0, when the decompressor cannot use its checkpoint and starts over).  The
    contract assumed of sources ([beh_sound] in the proofs) is [sc_restart <= sc_off] and
    [sc_off <=] the reader's offset after the read during which it was emitted. *)
From Wharf Require Import Base.Prelude Wire.Uvarint Wire.Frame.
Local Open Scope N_scope.

Inductive save_state := Idle | Waiting | HasSrc.

Record src_ckpt := mk_sc { sc_off : N; sc_restart : N }.

(** wire.MessageReaderCheckpoint *)
Record msg_ckpt := mk_mc { mc_off : N; mc_src : option src_ckpt }.

(** [beh before after]: the checkpoint (if any) the source emits during a [ReadMessage] that
    moves the source from offset [before] to offset [after] while a save request is pending *)
Definition behaviour := N -> N -> option src_ckpt.

(** seeksource: [handleSave] runs at the start of every Read/ReadByte that is not at the end *)
Definition seek_beh : behaviour :=
  fun before after => if before <? after then Some (mk_sc before before) else None.

Record source := mk_src {
  s_data : list byte;   (* the whole stream *)
  s_rest : list byte;   (* what is still unread: skipn s_pos s_data *)
  s_pos : N;
  s_want : bool         (* WantSave received, no checkpoint emitted since *)
}.

Record reader := mk_rd {
  r_src : source;
  r_off : N;                    (* ReadContext.offset *)
  r_cap : N;                    (* cap(protoBuffer.Bytes()) *)
  r_save : save_state;
  r_sc : option src_ckpt        (* ReadContext.sourceCheckpoint *)
}.

Section Reader.
  Context {M : Type}.
  Variable unmarshal : list byte -> option M.

  (** [NewReadContext] over a source that was [Resume(nil)]d *)
  Definition new_reader (cap0 : N) (data : list byte) : reader :=
    mk_rd (mk_src data data 0 false) 0 cap0 Idle None.

  (** [WantSave]: forwarded to the source only in the idle state *)
  Definition want_save (r : reader) : reader :=
    match r_save r with
    | Idle => mk_rd (mk_src (s_data (r_src r)) (s_rest (r_src r)) (s_pos (r_src r)) true)
                    (r_off r) (r_cap r) Waiting (r_sc r)
    | _ => r
    end.

  (** [PopCheckpoint] *)
  Definition pop_checkpoint (r : reader) : reader * option msg_ckpt :=
    match r_save r with
    | HasSrc => (mk_rd (r_src r) (r_off r) (r_cap r) Idle None, Some (mk_mc (r_off r) (r_sc r)))
    | _ => (r, None)
    end.

  (** [ReadMessage]: [read_one] on the unread bytes; the counting reader adds every byte
      delivered to [offset]; if a save request is pending the source may call [OnSave], which
      stores the source checkpoint and sets the state to "has source checkpoint" *)
  Definition read_message (beh : behaviour) (r : reader) : reader * read_res (M:=M) :=
    let src := r_src r in
    let '(res, c, rest, cap') := read_one unmarshal (r_cap r) (s_rest src) in
    let pos' := s_pos src + c in
    let emitted := if s_want src then beh (s_pos src) pos' else None in
    match emitted with
    | Some sc => (mk_rd (mk_src (s_data src) rest pos' false) (r_off r + c) cap' HasSrc (Some sc), res)
    | None => (mk_rd (mk_src (s_data src) rest pos' (s_want src)) (r_off r + c) cap' (r_save r) (r_sc r), res)
    end.

  (** [Resume].  With a checkpoint: the source restarts at the offset it reports
      ([sc_restart]); [delta = checkpoint.Offset - sourceOffset] bytes are read from the
      source and thrown away (an error if negative or if the stream ends first); the reader's
      offset becomes the checkpoint's.  Without: the source restarts at 0. [None] = error. *)
  Definition resume (r : reader) (c : option msg_ckpt) : option reader :=
    let data := s_data (r_src r) in
    let want := s_want (r_src r) in
    match c with
    | None => Some (mk_rd (mk_src data data 0 want) 0 (r_cap r) Idle None)
    | Some ck =>
      match mc_src ck with
      | None => None                                   (* "missing sourceCheckpoint" *)
      | Some sc =>
        let so := sc_restart sc in
        if mc_off ck <? so then None                   (* delta < 0 *)
        else if (so <? mc_off ck) && (N.of_nat (length data) <? mc_off ck)
        then None                                      (* delta > 0 and the discard hits the end *)
        else Some (mk_rd (mk_src data (skipn (N.to_nat (mc_off ck)) data) (mc_off ck) want)
                         (mc_off ck) (r_cap r) Idle None)
      end
    end.

  (** ---- schedules: any interleaving of the three operations ---- *)
  Inductive op := OWant | OPop | ORead.
  Inductive ev := EvWant (forwarded : bool) | EvPop (c : option msg_ckpt) | EvRead (res : read_res (M:=M)).

  Definition step (beh : behaviour) (r : reader) (o : op) : reader * ev :=
    match o with
    | OWant => (want_save r, EvWant (match r_save r with Idle => true | _ => false end))
    | OPop => let '(r', c) := pop_checkpoint r in (r', EvPop c)
    | ORead => let '(r', res) := read_message beh r in (r', EvRead res)
    end.

  (** the run, with the state after every operation *)
  Fixpoint run (beh : behaviour) (r : reader) (ops : list op) : list (ev * reader) :=
    match ops with
    | [] => []
    | o :: rest => let '(r', e) := step beh r o in (e, r') :: run beh r' rest
    end.

  Definition final (r : reader) (tr : list (ev * reader)) : reader :=
    last (map snd tr) r.

  (** messages read successfully in a trace *)
  Fixpoint msgs_of (tr : list (ev * reader)) : list M :=
    match tr with
    | [] => []
    | (EvRead (ReadOk m), _) :: t => m :: msgs_of t
    | _ :: t => msgs_of t
    end.

  (** read until the first failure (fuel: one unit per message, [S (length unread)] suffices) *)
  Fixpoint read_all_fuel (fuel : nat) (beh : behaviour) (r : reader) : list M * rerr :=
    match fuel with
    | O => ([], EOutOfFuel)
    | S f =>
      match read_message beh r with
      | (r', ReadOk m) => let '(ms, e) := read_all_fuel f beh r' in (m :: ms, e)
      | (_, ReadErr e) => ([], e)
      end
    end.

  Definition read_all (beh : behaviour) (r : reader) : list M * rerr :=
    read_all_fuel (S (length (s_rest (r_src r)))) beh r.
End Reader.
