(** Lemmas about [Wire/Uvarint.v]: the encoding round trip for every 64-bit value, shape of
    an encoding (continuation bytes then one final byte), truncated encodings, lengths, and
    [nextPowerOf2]. *)
From Wharf Require Import Base.Prelude Wire.Uvarint.
From Coq Require Import ZifyBool ZifyNat ZifyN.
Ltac Zify.zify_post_hook ::= Z.div_mod_to_equations.
Local Open Scope N_scope.

(** ---- bit-level facts ---- *)

Lemma land_low_shiftl : forall x c s, x < 2 ^ s -> N.land x (N.shiftl c s) = 0.
Proof.
  intros x c s Hx. apply N.bits_inj. intros n. rewrite N.land_spec, N.bits_0.
  destruct (N.lt_ge_cases n s) as [Hn | Hn].
  - rewrite (N.shiftl_spec_low c s n Hn). apply andb_false_r.
  - rewrite <- (N.mod_small x (2 ^ s) Hx). rewrite (N.mod_pow2_bits_high x s n Hn). reflexivity.
Qed.

Lemma lor_disjoint_add : forall x c s, x < 2 ^ s -> N.lor x (N.shiftl c s) = x + c * 2 ^ s.
Proof.
  intros x c s Hx. pose proof (land_low_shiftl x c s Hx) as H0.
  rewrite <- (N.lxor_lor _ _ H0), <- (N.add_nocarry_lxor _ _ H0), N.shiftl_mul_pow2. reflexivity.
Qed.

Lemma lor_ge_l : forall a b, a <= N.lor a b.
Proof.
  intros a b.
  assert (E : N.lor a b = N.lor a (N.ldiff b a)).
  { apply N.bits_inj. intros n. rewrite !N.lor_spec, N.ldiff_spec.
    destruct (N.testbit a n), (N.testbit b n); reflexivity. }
  assert (D : N.land a (N.ldiff b a) = 0).
  { apply N.bits_inj. intros n. rewrite N.land_spec, N.ldiff_spec, N.bits_0.
    destruct (N.testbit a n), (N.testbit b n); reflexivity. }
  rewrite E, <- (N.lxor_lor _ _ D), <- (N.add_nocarry_lxor _ _ D). lia.
Qed.

Lemma land_255_small : forall y, y < 256 -> N.land y 255 = y.
Proof.
  intros y Hy. change 255 with (N.ones 8). rewrite N.land_ones. apply N.mod_small. exact Hy.
Qed.

(** the continuation byte [byte(x) | 0x80] *)
Lemma cont_byte_ge : forall y, 128 <= N.lor (N.land y 255) 128.
Proof. intros y. rewrite N.lor_comm. apply lor_ge_l. Qed.

Lemma cont_byte_lt : forall y, N.lor (N.land y 255) 128 < 256.
Proof.
  intros y. destruct (N.eq_dec (N.lor (N.land y 255) 128) 0) as [E | E]; [rewrite E; lia |].
  apply N.log2_lt_pow2 with (b := 8); [lia |].
  rewrite N.log2_lor. apply N.max_lub_lt; [| reflexivity].
  change 255 with (N.ones 8). rewrite N.land_ones.
  destruct (N.eq_dec (y mod 2 ^ 8) 0) as [E0 | E0]; [rewrite E0; reflexivity |].
  apply N.log2_lt_pow2; [lia |]. apply N.mod_lt. discriminate.
Qed.

Lemma cont_byte_low : forall y, N.land (N.lor (N.land y 255) 128) 127 = y mod 128.
Proof.
  intros y. rewrite N.land_lor_distr_l.
  change (N.land 128 127) with 0. rewrite N.lor_0_r.
  rewrite <- N.land_assoc. change (N.land 255 127) with (N.ones 7).
  rewrite N.land_ones. reflexivity.
Qed.

(** ---- round trip ---- *)

(** the decoding loop, started in the state the encoder's position corresponds to *)
Lemma uv_loop_enc :
  forall fuel i x y r,
    N.of_nat fuel + i = 9 -> x < 2 ^ (7 * i) -> y < 2 ^ (64 - 7 * i) ->
    uv_loop (uvarint_enc_fuel fuel y ++ r) i x (7 * i) =
    UvOk (x + y * 2 ^ (7 * i)) (i + N.of_nat (length (uvarint_enc_fuel fuel y))) r.
Proof.
  induction fuel as [| f IH]; intros i x y r Hi Hx Hy.
  - assert (i = 9) by lia. subst i. cbn [uvarint_enc_fuel app uv_loop length].
    change (64 - 7 * 9) with 1 in Hy. change (2 ^ 1) with 2 in Hy.
    rewrite (land_255_small y) by lia.
    replace (y <? 128) with true by lia.
    replace ((9 =? 9) && (1 <? y)) with false by lia.
    rewrite lor_disjoint_add by exact Hx. reflexivity.
  - cbn [uvarint_enc_fuel].
    assert (Hi9 : i < 9) by lia.
    destruct (128 <=? y) eqn:Hge.
    + cbn [app uv_loop length].
      pose proof (cont_byte_ge y) as Hc.
      replace (N.lor (N.land y 255) 128 <? 128) with false by lia.
      replace (i =? 9) with false by lia.
      rewrite cont_byte_low.
      rewrite lor_disjoint_add by exact Hx.
      replace (7 * i + 7) with (7 * (i + 1)) by lia.
      rewrite N.shiftr_div_pow2. change (2 ^ 7) with 128.
      assert (Hp : 2 ^ (7 * (i + 1)) = 128 * 2 ^ (7 * i)).
      { replace (7 * (i + 1)) with (7 + 7 * i) by lia. rewrite N.pow_add_r. reflexivity. }
      rewrite IH.
      * f_equal; [| lia]. rewrite Hp.
        pose proof (N.div_mod y 128 ltac:(discriminate)) as Hdm. nia.
      * lia.
      * rewrite Hp. assert (y mod 128 < 128) by (apply N.mod_lt; discriminate). nia.
      * assert (Hq : 2 ^ (64 - 7 * i) = 128 * 2 ^ (64 - 7 * (i + 1))).
        { replace (64 - 7 * i) with (7 + (64 - 7 * (i + 1))) by lia. rewrite N.pow_add_r. reflexivity. }
        rewrite Hq in Hy. apply N.div_lt_upper_bound; [discriminate | exact Hy].
    + cbn [app uv_loop length].
      rewrite (land_255_small y) by lia.
      replace (y <? 128) with true by lia.
      replace (i =? 9) with false by lia. cbn [andb].
      rewrite lor_disjoint_add by exact Hx. f_equal.
Qed.

Lemma uvarint_read_enc :
  forall n r, n < 2 ^ 64 ->
    uvarint_read (uvarint_enc n ++ r) = UvOk n (N.of_nat (length (uvarint_enc n))) r.
Proof.
  intros n r Hn. unfold uvarint_read, uvarint_enc.
  pose proof (uv_loop_enc 9 0 0 n r) as H. change (7 * 0) with 0 in H.
  rewrite H; [f_equal; lia | reflexivity | reflexivity | exact Hn].
Qed.

Lemma uvarint_roundtrip_lemma :
  forall n r, n < 2 ^ 64 -> uvarint_dec (uvarint_enc n ++ r) = Some (n, r).
Proof. intros n r Hn. unfold uvarint_dec. rewrite uvarint_read_enc by exact Hn. reflexivity. Qed.

(** encodings are prefix free: no encoding is a proper prefix of another one *)
Lemma uvarint_enc_prefix_free :
  forall a b r r', a < 2 ^ 64 -> b < 2 ^ 64 ->
    uvarint_enc a ++ r = uvarint_enc b ++ r' -> a = b /\ r = r'.
Proof.
  intros a b r r' Ha Hb E.
  pose proof (uvarint_roundtrip_lemma a r Ha) as H1. rewrite E, (uvarint_roundtrip_lemma b r' Hb) in H1.
  inversion H1. split; reflexivity.
Qed.

(** ---- shape and length of an encoding ---- *)

Lemma enc_fuel_shape :
  forall fuel y, y < 2 ^ (7 * N.of_nat (S fuel)) ->
    exists init lst, uvarint_enc_fuel fuel y = init ++ [lst] /\
                     Forall (fun b => 128 <= b < 256) init /\ lst < 128.
Proof.
  induction fuel as [| f IH]; intros y Hy.
  - exists [], y. cbn [uvarint_enc_fuel app]. change (7 * N.of_nat 1) with 7 in Hy. change (2 ^ 7) with 128 in Hy.
    rewrite land_255_small by lia. repeat split; [constructor | exact Hy].
  - cbn [uvarint_enc_fuel]. destruct (128 <=? y) eqn:Hge.
    + destruct (IH (N.shiftr y 7)) as (init & lst & E & Hall & Hl).
      { rewrite N.shiftr_div_pow2. apply N.div_lt_upper_bound; [discriminate |].
        rewrite <- N.pow_add_r. replace (7 + 7 * N.of_nat (S f)) with (7 * N.of_nat (S (S f))) by lia. exact Hy. }
      exists (N.lor (N.land y 255) 128 :: init), lst. rewrite E. repeat split; [| exact Hl].
      constructor; [| exact Hall]. split; [apply cont_byte_ge | apply cont_byte_lt].
    + exists [], y. cbn [app]. rewrite land_255_small by lia. repeat split; [constructor | lia].
Qed.

Lemma enc_fuel_length_le : forall fuel y, (length (uvarint_enc_fuel fuel y) <= S fuel)%nat.
Proof.
  induction fuel as [| f IH]; intros y; cbn [uvarint_enc_fuel]; [cbn; lia |].
  destruct (128 <=? y); cbn [length]; [specialize (IH (N.shiftr y 7)); lia | lia].
Qed.

Lemma uvarint_enc_length_le_10 : forall n, (length (uvarint_enc n) <= 10)%nat.
Proof. intros n. apply (enc_fuel_length_le 9). Qed.

Lemma uvarint_enc_nonempty : forall n, (1 <= length (uvarint_enc n))%nat.
Proof. intros n. unfold uvarint_enc. cbn [uvarint_enc_fuel]. destruct (128 <=? n); cbn [length]; lia. Qed.

(** k bytes suffice below 2^(7k) (k <= 10), and are needed from 2^(7(k-1)) on *)
Lemma enc_fuel_length_bound :
  forall fuel y k, (1 <= k)%nat -> y < 2 ^ (7 * N.of_nat k) -> (length (uvarint_enc_fuel fuel y) <= k)%nat.
Proof.
  induction fuel as [| f IH]; intros y k Hk Hy; cbn [uvarint_enc_fuel]; [cbn; lia |].
  destruct (128 <=? y) eqn:Hge; cbn [length]; [| lia].
  destruct k as [| k]; [lia |]. destruct k as [| k].
  - change (7 * N.of_nat 1) with 7 in Hy. change (2 ^ 7) with 128 in Hy. lia.
  - apply le_n_S. apply IH; [lia |].
    rewrite N.shiftr_div_pow2. apply N.div_lt_upper_bound; [discriminate |].
    rewrite <- N.pow_add_r. replace (7 + 7 * N.of_nat (S k)) with (7 * N.of_nat (S (S k))) by lia. exact Hy.
Qed.

Lemma enc_fuel_length_lower :
  forall fuel y k, (k <= fuel)%nat -> 2 ^ (7 * N.of_nat k) <= y -> (S k <= length (uvarint_enc_fuel fuel y))%nat.
Proof.
  induction fuel as [| f IH]; intros y k Hk Hy.
  - assert (k = 0)%nat by lia. subst k. cbn. lia.
  - cbn [uvarint_enc_fuel]. destruct k as [| k].
    + destruct (128 <=? y); cbn [length]; lia.
    + assert (H128 : 128 <= y).
      { eapply N.le_trans; [| exact Hy]. replace (7 * N.of_nat (S k)) with (7 + 7 * N.of_nat k) by lia.
        rewrite N.pow_add_r. change (2 ^ 7) with 128. assert (0 < 2 ^ (7 * N.of_nat k)) by (apply N.neq_0_lt_0, N.pow_nonzero; discriminate). nia. }
      replace (128 <=? y) with true by lia. cbn [length]. apply le_n_S. apply IH; [lia |].
      rewrite N.shiftr_div_pow2. apply N.div_le_lower_bound; [discriminate |].
      rewrite <- N.pow_add_r. replace (7 + 7 * N.of_nat k) with (7 * N.of_nat (S k)) by lia. exact Hy.
Qed.

(** the writer's 8-byte varint buffer is enough exactly for lengths below 2^56 *)
Lemma uvarint_enc_fits_8 :
  forall n, n < 2 ^ 64 -> ((length (uvarint_enc n) <= 8)%nat <-> n < 2 ^ 56).
Proof.
  intros n Hn. split.
  - intros Hl. destruct (N.lt_ge_cases n (2 ^ 56)) as [H | H]; [exact H |].
    pose proof (enc_fuel_length_lower 9 n 8 ltac:(lia) H) as Hlow. unfold uvarint_enc in Hl. lia.
  - intros H. apply (enc_fuel_length_bound 9 n 8); [lia | exact H].
Qed.

(** ---- truncated encodings ---- *)

Lemma uv_loop_all_cont :
  forall l i x s, Forall (fun b => 128 <= b < 256) l -> i + N.of_nat (length l) <= 9 ->
    uv_loop l i x s = UvErr (if i + N.of_nat (length l) =? 0 then UvEOF else UvUnexpectedEOF) (i + N.of_nat (length l)).
Proof.
  induction l as [| b l IH]; intros i x s Hall Hlen.
  - cbn [uv_loop length]. replace (i + N.of_nat 0) with i by lia. reflexivity.
  - inversion Hall as [| b' l' Hb Hl]; subst. cbn [uv_loop].
    replace (b <? 128) with false by lia.
    cbn [length] in Hlen. replace (i =? 9) with false by lia.
    rewrite IH; [| exact Hl | lia].
    cbn [length]. replace (i + 1 + N.of_nat (length l)) with (i + N.of_nat (S (length l))) by lia.
    reflexivity.
Qed.

(** a proper prefix of an encoding: io.EOF when empty, io.ErrUnexpectedEOF otherwise, all bytes consumed *)
Lemma uvarint_read_truncated :
  forall n p q, n < 2 ^ 64 -> uvarint_enc n = p ++ q -> q <> [] ->
    uvarint_read p = UvErr (match p with [] => UvEOF | _ => UvUnexpectedEOF end) (N.of_nat (length p)).
Proof.
  intros n p q Hn E Hq.
  destruct (enc_fuel_shape 9 n) as (init & lst & Es & Hall & Hl).
  { change (7 * N.of_nat 10) with 70. eapply N.lt_trans; [exact Hn | reflexivity]. }
  unfold uvarint_enc in E. rewrite Es in E.
  assert (Hp : exists t, init = p ++ t).
  { destruct (exists_last Hq) as (q' & z & Eq). subst q.
    rewrite app_assoc in E. apply app_inj_tail in E. destruct E as [E _]. exists q'. exact E. }
  destruct Hp as (t & Et). subst init.
  apply Forall_app in Hall. destruct Hall as [Hallp _].
  pose proof (enc_fuel_length_le 9 n) as Hlen. rewrite Es in Hlen. rewrite !app_length in Hlen. cbn [length] in Hlen.
  unfold uvarint_read. rewrite uv_loop_all_cont; [| exact Hallp | unfold byte in *; lia].
  replace (0 + N.of_nat (length p)) with (N.of_nat (length p)) by lia.
  destruct p; cbn [length]; [reflexivity |]. replace (N.of_nat (S (length p)) =? 0) with false by lia. reflexivity.
Qed.

(** ---- nextPowerOf2 ---- *)

Lemma smear_ge : forall v k, v <= smear v k.
Proof. intros v k. apply lor_ge_l. Qed.

Lemma npo2_ge_lemma : forall v, v <= npo2 v.
Proof.
  intros v. unfold npo2. destruct (v =? 0) eqn:E; [lia |].
  pose proof (smear_ge (v - 1) 1) as H1.
  pose proof (smear_ge (smear (v - 1) 1) 2) as H2.
  pose proof (smear_ge (smear (smear (v - 1) 1) 2) 4) as H3.
  pose proof (smear_ge (smear (smear (smear (v - 1) 1) 2) 4) 8) as H4.
  pose proof (smear_ge (smear (smear (smear (smear (v - 1) 1) 2) 4) 8) 16) as H5.
  lia.
Qed.
