(** Lemmas about [Wire/Rewind.v]: a reader that is resumed while in use - in any save state,
    to any checkpoint it has popped itself or to the start - keeps popping checkpoints that
    resume exactly, and keeps reading the right messages. *)
From Wharf Require Import Base.Prelude Wire.Uvarint Wire.UvarintProofs Wire.Frame Wire.FrameProofs
  Wire.Reader Wire.ReaderProofs Wire.Rewind.
From Coq Require Import ZifyBool ZifyNat ZifyN.
Ltac Zify.zify_post_hook ::= Z.div_mod_to_equations.
Local Open Scope N_scope.

Lemma Forall2_nth_error_r : forall (A B : Type) (P : A -> B -> Prop) (l1 : list A) (l2 : list B) (i : nat) (x : B) (d : A),
  Forall2 P l1 l2 -> nth_error l2 i = Some x -> P (nth i l1 d) x.
Proof.
  intros A B P l1 l2 i x d H. revert i. induction H as [| a b l1 l2 Hab H IH]; intros i Hi.
  - destruct i; discriminate Hi.
  - destruct i as [| i]; cbn [nth_error nth] in *.
    + inversion Hi; subst. exact Hab.
    + apply IH. exact Hi.
Qed.

Section RewindProofs.
  Context {M : Type}.
  Variable marshal : M -> list byte.
  Variable unmarshal : list byte -> option M.
  Hypothesis unmarshal_marshal : forall m, unmarshal (marshal m) = Some m.
  Variable msgs : list M.
  Hypothesis msgs_fit : Forall (fits_msg marshal) msgs.
  Variable behs : nat -> behaviour.
  Hypothesis behs_sound : forall i, beh_sound (behs i).

  Notation stream := (stream marshal).
  Notation pinv := (pinv marshal).
  Notation cinv := (cinv marshal).
  Notation good_ckpt := (good_ckpt marshal).
  Notation off_of := (off_of marshal).
  Notation trace := (list (@xev M * reader)).

  (** what holds of an event performed at position [p] *)
  Definition ev_ok (p : nat) (x : @xev M * reader) : Prop :=
    match fst x with
    | XE (EvPop (Some c)) => exists d t, msgs = d ++ t /\ length d = p /\ good_ckpt d c
    | XE (EvRead (ReadOk m)) => nth_error msgs p = Some m
    | XE (EvRead (ReadErr e)) => p = length msgs /\ e = EEOF
    | _ => True
    end.

  Definition good (tr : trace) : Prop := Forall2 ev_ok (snd (xpos tr)) tr.

  (** the reader stands after [fst (xpos tr)] messages *)
  Definition inv (tr : trace) (r : reader) : Prop :=
    good tr /\ exists d t, msgs = d ++ t /\ length d = fst (xpos tr) /\ pinv d t r /\ cinv d r.

  Lemma xpos_snoc : forall (tr : trace) x, xpos (tr ++ [x]) = xpos_step (xpos tr) x.
  Proof. intros tr x. unfold xpos. rewrite fold_left_app. reflexivity. Qed.

  Lemma good_snoc : forall (tr : trace) x, good tr -> ev_ok (fst (xpos tr)) x -> good (tr ++ [x]).
  Proof.
    intros tr x Hg Hx. unfold good in *. rewrite xpos_snoc.
    destruct (xpos tr) as [cur hist]. cbn [xpos_step snd fst] in *.
    apply Forall2_app; [exact Hg |]. constructor; [exact Hx | constructor].
  Qed.

  Lemma fst_xpos_snoc : forall (tr : trace) x,
    fst (xpos (tr ++ [x])) =
    match fst x with
    | XE (EvRead (ReadOk _)) => S (fst (xpos tr))
    | XRes (Some j) true => nth j (snd (xpos tr)) 0%nat
    | XRes None true => 0%nat
    | _ => fst (xpos tr)
    end.
  Proof. intros tr x. rewrite xpos_snoc. destruct (xpos tr) as [cur hist]. reflexivity. Qed.

  Lemma pinv_data : forall d t r, msgs = d ++ t -> pinv d t r -> s_data (r_src r) = stream msgs.
  Proof. intros d t r E (Hd & _). rewrite E. exact Hd. Qed.

  (** [Resume(nil)] on any reader over the stream *)
  Lemma resume_nil_inv : forall r, s_data (r_src r) = stream msgs ->
    exists r', resume r None = Some r' /\ pinv [] msgs r' /\ cinv [] r'.
  Proof.
    intros r Hd. unfold resume. eexists. split; [reflexivity |]. split.
    - unfold ReaderProofs.pinv. cbn. rewrite Hd. repeat split; reflexivity.
    - reflexivity.
  Qed.

  (** [Resume] with a good checkpoint on a reader in use: like [resume_good], and if the
      discarding read makes a pending request come true the checkpoint received is within the
      contract *)
  Lemma resume_used_good : forall beh d t c r,
    beh_sound beh -> s_data (r_src r) = stream (d ++ t) -> good_ckpt d c ->
    exists r', resume_used beh r (Some c) = Some r' /\ pinv d t r' /\ cinv d r'.
  Proof.
    intros beh d t c r Hb Hd Hg.
    destruct (resume_good marshal d t c r Hd Hg) as (r1 & Er & Hp & Hc).
    destruct Hg as (Hoff & sc & Hsc & H1 & H2).
    unfold resume_used. rewrite Er, Hsc.
    destruct (s_want (r_src r1) && (sc_restart sc <? mc_off c)) eqn:Ew; [| eauto].
    destruct (beh (sc_restart sc) (mc_off c)) as [e |] eqn:Eb; [| eauto].
    eexists. split; [reflexivity |]. split.
    - destruct Hp as (P1 & P2 & P3 & P4). unfold ReaderProofs.pinv. cbn. auto.
    - unfold ReaderProofs.cinv. cbn. exists e. destruct (Hb _ _ _ Eb) as [B1 B2].
      split; [reflexivity |]. split; [exact B1 |]. rewrite <- Hoff. exact B2.
  Qed.

  Lemma nth_error_split_snoc : forall (d : list M) m t, nth_error (d ++ m :: t) (length d) = Some m.
  Proof. intros d m t. rewrite nth_error_app2 by lia. rewrite Nat.sub_diag. reflexivity. Qed.

  (** every operation keeps the invariant; the whole run is good *)
  Lemma xrun_good : forall ops tr r, inv tr r -> good (xrun unmarshal behs tr r ops).
  Proof.
    induction ops as [| o ops IH]; intros tr r (Hg & d & t & Em & El & Hp & Hc); cbn [xrun].
    - exact Hg.
    - destruct o as [o | j].
      + (* WantSave / PopCheckpoint / ReadMessage *)
        destruct o; cbn [step].
        * destruct (want_save_inv marshal d t r Hp Hc) as [Hp' Hc'].
          apply IH. split; [apply good_snoc; [exact Hg | exact I] |].
          exists d, t. rewrite fst_xpos_snoc. cbn [fst]. auto.
        * destruct (pop_checkpoint r) as [r' c0] eqn:Epop.
          destruct (pop_inv marshal d t r r' c0 Hp Hc Epop) as (Hp' & Hc' & Hgood).
          apply IH. split.
          -- apply good_snoc; [exact Hg |]. unfold ev_ok. cbn [fst]. destruct c0 as [ck |]; [| exact I].
             exists d, t. rewrite El. auto.
          -- exists d, t. rewrite fst_xpos_snoc. cbn [fst]. destruct c0; auto.
        * destruct t as [| m t].
          -- destruct (read_message_end marshal unmarshal (behs (length tr)) d r (behs_sound _) Hp Hc) as (r' & Er & Hp' & Hc').
             rewrite Er. apply IH. split.
             ++ apply good_snoc; [exact Hg |]. unfold ev_ok. cbn [fst]. split; [| reflexivity].
                rewrite <- El, Em, app_nil_r. reflexivity.
             ++ exists d, []. rewrite fst_xpos_snoc. cbn [fst]. auto.
          -- assert (Hm : fits_msg marshal m).
             { rewrite Em in msgs_fit. apply Forall_app in msgs_fit. destruct msgs_fit as [_ Hf].
               inversion Hf; assumption. }
             destruct (read_message_msg marshal unmarshal unmarshal_marshal (behs (length tr)) d m t r (behs_sound _) Hm Hp Hc)
               as (r' & Er & Hp' & Hc').
             rewrite Er. apply IH. split.
             ++ apply good_snoc; [exact Hg |]. unfold ev_ok. cbn [fst].
                rewrite <- El, Em. apply nth_error_split_snoc.
             ++ exists (d ++ [m]), t. rewrite fst_xpos_snoc. cbn [fst].
                split; [rewrite <- app_assoc; exact Em |].
                split; [rewrite app_length; cbn [length]; lia |]. split; assumption.
      + (* Resume on the reader in use *)
        assert (Hdata : s_data (r_src r) = stream msgs) by (apply (pinv_data d t); assumption).
        destruct j as [i |]; cbn [option_map].
        * destruct (popped_at tr i) as [c |] eqn:Epop; cbn [option_map].
          -- unfold popped_at in Epop.
             destruct (nth_error tr i) as [[e ri] |] eqn:Enth; [| discriminate Epop].
             destruct e as [[w | [c' |] | res] | j' ok]; try discriminate Epop.
             inversion Epop; subst c'.
             pose proof (Forall2_nth_error_r _ _ _ _ _ i _ 0%nat Hg Enth) as Hok.
             unfold ev_ok in Hok. cbn [fst] in Hok. destruct Hok as (d' & t' & Em' & El' & Hgc).
             assert (Hdata' : s_data (r_src r) = stream (d' ++ t')) by (rewrite <- Em'; exact Hdata).
             destruct (resume_used_good (behs (length tr)) d' t' c r (behs_sound _) Hdata' Hgc) as (r' & Er & Hp' & Hc').
             rewrite Er. apply IH. split; [apply good_snoc; [exact Hg | exact I] |].
             exists d', t'. rewrite fst_xpos_snoc. cbn [fst]. auto.
          -- apply good_snoc; [exact Hg | exact I].
        * destruct (resume_nil_inv r Hdata) as (r' & Er & Hp' & Hc').
          unfold resume_used. rewrite Er. apply IH. split; [apply good_snoc; [exact Hg | exact I] |].
          exists [], msgs. rewrite fst_xpos_snoc. cbn [fst]. auto.
  Qed.

  Lemma inv_new : forall cap0, inv [] (new_reader cap0 (stream msgs)).
  Proof.
    intros cap0. split; [constructor |]. exists [], msgs.
    split; [reflexivity |]. split; [reflexivity |]. split; [apply pinv_new | apply cinv_new].
  Qed.

  (** the statement about popped checkpoints *)
  Lemma used_reader_checkpoints_lemma : forall cap0 ops,
    let tr := xrun unmarshal behs [] (new_reader cap0 (stream msgs)) ops in
    forall i c ri, nth_error tr i = Some (XE (EvPop (Some c)), ri) ->
      let k := pos_at tr i in
      (k <= length msgs)%nat /\
      forall (r0 : reader) (beh2 : behaviour),
        s_data (r_src r0) = stream msgs -> beh_sound beh2 ->
        exists r', resume r0 (Some c) = Some r' /\
                   read_all unmarshal beh2 r' = (skipn k msgs, EEOF).
  Proof.
    intros cap0 ops tr i c ri Hnth k.
    pose proof (xrun_good ops [] _ (inv_new cap0)) as Hg. fold tr in Hg.
    pose proof (Forall2_nth_error_r _ _ _ _ _ i _ 0%nat Hg Hnth) as Hok.
    unfold ev_ok in Hok. cbn [fst] in Hok. destruct Hok as (d & t & Em & El & Hgc).
    fold (pos_at tr i) in El. fold k in El.
    split; [rewrite Em, app_length; lia |].
    intros r0 beh2 Hd Hb2.
    assert (Hsk : skipn k msgs = t).
    { rewrite Em, <- El, skipn_app, Nat.sub_diag, skipn_all. reflexivity. }
    rewrite Hsk.
    destruct (resume_good marshal d t c r0) as (r' & Er & Hp' & Hc'); [rewrite <- Em; exact Hd | exact Hgc |].
    exists r'. split; [exact Er |].
    apply (read_all_pinv marshal unmarshal unmarshal_marshal beh2 t d r' Hb2); [| exact Hp' | exact Hc'].
    rewrite Em in msgs_fit. apply Forall_app in msgs_fit. exact (proj2 msgs_fit).
  Qed.

  (** the statement about the messages read, and about the end of the stream *)
  Lemma used_reader_reads_lemma : forall cap0 ops,
    let tr := xrun unmarshal behs [] (new_reader cap0 (stream msgs)) ops in
    forall i res ri, nth_error tr i = Some (XE (EvRead res), ri) ->
      match res with
      | ReadOk m => nth_error msgs (pos_at tr i) = Some m
      | ReadErr e => pos_at tr i = length msgs /\ e = EEOF
      end.
  Proof.
    intros cap0 ops tr i res ri Hnth.
    pose proof (xrun_good ops [] _ (inv_new cap0)) as Hg. fold tr in Hg.
    pose proof (Forall2_nth_error_r _ _ _ _ _ i _ 0%nat Hg Hnth) as Hok.
    unfold ev_ok in Hok. cbn [fst] in Hok. destruct res; exact Hok.
  Qed.
End RewindProofs.
