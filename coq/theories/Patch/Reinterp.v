(** Schema-level model of protobuf (proto3) marshalling of the four message types that are
    interleaved in the per-file part of a wharf patch, and of what happens when a frame written
    as one type is unmarshalled as another (DESIGN 5.4).

    Source of the tables: repo/pwr/pwr.proto and repo/bsdiff/bsdiff.proto

      SyncHeader   { Type type = 1 (enum, varint);  int64 fileIndex = 16 (varint) }
      SyncOp       { Type type = 1 (enum, varint);  int64 fileIndex = 2;  int64 blockIndex = 3;
                     int64 blockSpan = 4 (varints);  bytes data = 5 (length-delimited) }
      BsdiffHeader { int64 targetIndex = 1 (varint) }
      Control      { bytes add = 1;  bytes copy = 2 (length-delimited);  int64 seek = 3 (varint);
                     bool eof = 4 (varint) }

    proto3 marshalling emits only the fields that differ from their zero value, in field-number
    order; unmarshalling as T' keeps, per field of T', the LAST wire field with the same number
    AND the same wire type, everything else (unknown number, or known number with another wire
    type) is skipped as an unknown field.  A varint carries an unsigned 64-bit number:
    int64 fields are its two's complement reading, enum fields the two's complement reading of
    its low 32 bits (Go: int32(v)), bool fields [v <> 0].

    The table is validated against golang/protobuf on every run by the correspondence group
    [reinterp] of C17 (marshal as T, unmarshal as each T', random field values).
    Definitions only. *)
From Wharf Require Import Base.Prelude.
Local Open Scope Z_scope.

Inductive wval := WVarint (u : Z) (* 0 <= u < 2^64 *) | WBytes (b : list byte).
Definition wfield := (Z * wval)%type.          (* field number, value (which fixes the wire type) *)

Definition u64_of_i64 (v : Z) : Z := v mod 2^64.
Definition i64_of_u64 (u : Z) : Z := if u <? 2^63 then u else u - 2^64.
Definition i32_of_u64 (u : Z) : Z := let w := u mod 2^32 in if w <? 2^31 then w else w - 2^32.
Definition bool_of_u64 (u : Z) : bool := negb (u =? 0).

(** the four message types *)
Record sync_header := mkSH { sh_type : Z; sh_file : Z }.
Record sync_op := mkSO { so_type : Z; so_file : Z; so_block : Z; so_span : Z; so_data : list byte }.
Record bsdiff_header := mkBH { bh_target : Z }.
Record control := mkCT { ct_add : list byte; ct_copy : list byte; ct_seek : Z; ct_eof : bool }.

Definition HEY : Z := 2049.     (* SyncOp_HEY_YOU_DID_IT *)
Definition T_BLOCK_RANGE : Z := 0.
Definition T_DATA : Z := 1.
Definition SH_RSYNC : Z := 0.
Definition SH_BSDIFF : Z := 1.

(** marshalling: non-default fields, ascending field numbers *)
Definition f_varint (n v : Z) : list wfield := if v =? 0 then [] else [(n, WVarint (u64_of_i64 v))].
Definition f_bytes (n : Z) (b : list byte) : list wfield := match b with [] => [] | _ => [(n, WBytes b)] end.
Definition f_bool (n : Z) (b : bool) : list wfield := if b then [(n, WVarint 1)] else [].

Definition fields_sh (m : sync_header) : list wfield := f_varint 1 (sh_type m) ++ f_varint 16 (sh_file m).
Definition fields_so (m : sync_op) : list wfield :=
  f_varint 1 (so_type m) ++ f_varint 2 (so_file m) ++ f_varint 3 (so_block m) ++ f_varint 4 (so_span m)
  ++ f_bytes 5 (so_data m).
Definition fields_bh (m : bsdiff_header) : list wfield := f_varint 1 (bh_target m).
Definition fields_ct (m : control) : list wfield :=
  f_bytes 1 (ct_add m) ++ f_bytes 2 (ct_copy m) ++ f_varint 3 (ct_seek m) ++ f_bool 4 (ct_eof m).

(** unmarshalling: last field with matching number and wire type, else the zero value *)
Fixpoint get_varint (n : Z) (fs : list wfield) (acc : Z) : Z :=
  match fs with
  | [] => acc
  | (k, WVarint u) :: r => get_varint n r (if k =? n then u else acc)
  | _ :: r => get_varint n r acc
  end.
Fixpoint get_bytes (n : Z) (fs : list wfield) (acc : list byte) : list byte :=
  match fs with
  | [] => acc
  | (k, WBytes b) :: r => get_bytes n r (if k =? n then b else acc)
  | _ :: r => get_bytes n r acc
  end.

Definition dec_sh (fs : list wfield) : sync_header :=
  mkSH (i32_of_u64 (get_varint 1 fs 0)) (i64_of_u64 (get_varint 16 fs 0)).
Definition dec_so (fs : list wfield) : sync_op :=
  mkSO (i32_of_u64 (get_varint 1 fs 0)) (i64_of_u64 (get_varint 2 fs 0)) (i64_of_u64 (get_varint 3 fs 0))
       (i64_of_u64 (get_varint 4 fs 0)) (get_bytes 5 fs []).
Definition dec_bh (fs : list wfield) : bsdiff_header := mkBH (i64_of_u64 (get_varint 1 fs 0)).
Definition dec_ct (fs : list wfield) : control :=
  mkCT (get_bytes 1 fs []) (get_bytes 2 fs []) (i64_of_u64 (get_varint 3 fs 0)) (bool_of_u64 (get_varint 4 fs 0)).

(** a frame of the per-file part of a patch, by the type it was WRITTEN as *)
Inductive pmsg :=
| MSH (m : sync_header) | MSO (m : sync_op) | MBH (m : bsdiff_header) | MCT (m : control).

Definition fields_of (m : pmsg) : list wfield :=
  match m with MSH x => fields_sh x | MSO x => fields_so x | MBH x => fields_bh x | MCT x => fields_ct x end.

(** the re-interpretation table: read a frame as the type the reader's state expects *)
Definition as_sh (m : pmsg) : sync_header := dec_sh (fields_of m).
Definition as_so (m : pmsg) : sync_op := dec_so (fields_of m).
Definition as_bh (m : pmsg) : bsdiff_header := dec_bh (fields_of m).
Definition as_ct (m : pmsg) : control := dec_ct (fields_of m).

(** value ranges of well-formed messages (what Go's typed fields can hold) *)
Definition i64_ok (v : Z) : Prop := - 2^63 <= v < 2^63.
Definition i32_ok (v : Z) : Prop := - 2^31 <= v < 2^31.
Definition pmsg_ok (m : pmsg) : Prop :=
  match m with
  | MSH x => i32_ok (sh_type x) /\ i64_ok (sh_file x)
  | MSO x => i32_ok (so_type x) /\ i64_ok (so_file x) /\ i64_ok (so_block x) /\ i64_ok (so_span x)
  | MBH x => i64_ok (bh_target x)
  | MCT x => i64_ok (ct_seek x)
  end.

(** boolean equalities used by the executable comparators *)
Definition sh_eqb (a b : sync_header) : bool := (sh_type a =? sh_type b) && (sh_file a =? sh_file b).
Definition so_eqb (a b : sync_op) : bool :=
  (so_type a =? so_type b) && (so_file a =? so_file b) && (so_block a =? so_block b) && (so_span a =? so_span b)
  && nlist_eqb (so_data a) (so_data b).
Definition bh_eqb (a b : bsdiff_header) : bool := bh_target a =? bh_target b.
Definition ct_eqb (a b : control) : bool :=
  nlist_eqb (ct_add a) (ct_add b) && nlist_eqb (ct_copy a) (ct_copy b) && (ct_seek a =? ct_seek b) && Bool.eqb (ct_eof a) (ct_eof b).
Definition pmsg_eqb (a b : pmsg) : bool :=
  match a, b with
  | MSH x, MSH y => sh_eqb x y | MSO x, MSO y => so_eqb x y | MBH x, MBH y => bh_eqb x y | MCT x, MCT y => ct_eqb x y
  | _, _ => false
  end.
