(** Proofs about the rediff model (Patch/Rediff.v): whatever the iteration order of the Go
    map, the chosen old file is in range, has the maximal reused-bytes figure, and is the
    same-path file whenever that one is among the maximal; the optimized patch applies to
    the same result as the original. *)
From Wharf Require Import Base.Prelude Val.Drip Val.VPool Patch.Rediff.
From Coq Require Import Permutation ZifyBool ZifyNat.
Local Open Scope Z_scope.

(** what the selection rule promises about its choice [e] among the entries [m] *)
Definition is_choice (same : Z -> bool) (m : list (Z * Z)) (e : Z * Z) : Prop :=
  In e m /\
  (forall x, In x m -> snd x <= snd e) /\
  ((exists x, In x m /\ snd x = snd e /\ same (fst x) = true) -> same (fst e) = true).

Section Select.
  Variable same : Z -> bool.

  Definition sel_inv (cur : option (Z * Z)) (done : list (Z * Z)) : Prop :=
    match cur with
    | None => done = []
    | Some e => is_choice same done e
    end.

  Lemma select_step cur done cand :
    sel_inv cur done ->
    sel_inv (if better same cur cand then Some cand else cur) (done ++ [cand]).
  Proof.
    destruct cur as [[ei eb]|]; cbn [sel_inv better].
    - intros (Hin & Hmax & Hsame). destruct cand as [ci cb]. cbn [fst snd] in *.
      destruct ((cb >? eb) || ((cb =? eb) && same ci)) eqn:E.
      + (* the candidate replaces the current choice *)
        assert (Hge : eb <= cb) by lia.
        split; [apply in_or_app; right; left; reflexivity|]. split.
        * intros x Hx. apply in_app_or in Hx. destruct Hx as [Hx|[<-|[]]]; cbn [snd]; [|lia].
          specialize (Hmax x Hx). cbn [snd] in Hmax. lia.
        * intros (x & Hx & Hxb & Hxs). cbn [fst snd] in *.
          apply orb_prop in E. destruct E as [E|E].
          -- apply in_app_or in Hx. destruct Hx as [Hx|[<-|[]]]; [|assumption].
             specialize (Hmax x Hx). cbn [snd] in Hmax. lia.
          -- apply andb_prop in E. apply E.
      + (* the current choice stays *)
        apply orb_false_elim in E. destruct E as [E1 E2].
        split; [apply in_or_app; left; assumption|]. split.
        * intros x Hx. apply in_app_or in Hx. destruct Hx as [Hx|[<-|[]]]; cbn [snd]; [auto|lia].
        * intros (x & Hx & Hxb & Hxs). cbn [fst snd] in *.
          apply in_app_or in Hx. destruct Hx as [Hx|[<-|[]]].
          -- apply Hsame. exists x. auto.
          -- cbn [fst snd] in *. subst cb. rewrite Z.eqb_refl, Hxs in E2. discriminate.
    - intros ->. cbn [app]. split; [left; reflexivity|]. split.
      + intros x [<-|[]]. lia.
      + intros (x & [<-|[]] & _ & Hxs). assumption.
  Qed.

  Lemma select_fold : forall l cur done,
    sel_inv cur done ->
    sel_inv (fold_left (fun cur cand => if better same cur cand then Some cand else cur) l cur) (done ++ l).
  Proof.
    induction l as [|cand l IH]; intros cur done Hinv; cbn [fold_left].
    - rewrite app_nil_r. assumption.
    - replace (done ++ cand :: l) with ((done ++ [cand]) ++ l) by (rewrite <- app_assoc; reflexivity).
      apply IH. apply select_step. assumption.
  Qed.

  Lemma select_spec ord :
    match select same ord with
    | None => ord = []
    | Some e => is_choice same ord e
    end.
  Proof. exact (select_fold ord None [] eq_refl). Qed.

  Lemma is_choice_perm m m' e : Permutation m m' -> is_choice same m e -> is_choice same m' e.
  Proof.
    intros Hp (Hin & Hmax & Hsame). split; [eapply Permutation_in; eassumption|]. split.
    - intros x Hx. apply Hmax. eapply Permutation_in; [apply Permutation_sym|]; eassumption.
    - intros (x & Hx & Hr). apply Hsame. exists x. split; [|assumption].
      eapply Permutation_in; [apply Permutation_sym|]; eassumption.
  Qed.

  Lemma is_choiceb_true m e : is_choice same m e -> is_choiceb same m e = true.
  Proof.
    intros (Hin & Hmax & Hsame). unfold is_choiceb. apply andb_true_intro. split; [apply andb_true_intro; split|].
    - apply existsb_exists. exists e. split; [assumption|]. cbv beta. rewrite !Z.eqb_refl. reflexivity.
    - apply forallb_forall. intros x Hx. apply Z.leb_le. auto.
    - destruct (same (fst e)) eqn:Es; [apply orb_true_r|]. rewrite orb_false_r. apply negb_true_iff.
      destruct (existsb (fun x => (snd x =? snd e) && same (fst x)) m) eqn:Ex; [|reflexivity].
      apply existsb_exists in Ex. destruct Ex as (x & Hx & Hb). apply andb_prop in Hb. destruct Hb as [Hb Hs].
      assert (Hf : false = true); [|discriminate]. apply Hsame. exists x. repeat split; [assumption|lia|assumption].
  Qed.
End Select.

Lemma select_any_order_lemma (same : Z -> bool) (m ord : list (Z * Z)) :
  Permutation ord m ->
  match select same ord with
  | None => m = []
  | Some e => In e m /\ (forall x, In x m -> snd x <= snd e) /\
              ((exists x, In x m /\ snd x = snd e /\ same (fst x) = true) -> same (fst e) = true)
  end.
Proof.
  intros Hp. pose proof (select_spec same ord) as Hs.
  destruct (select same ord) as [e|].
  - exact (is_choice_perm same ord m e Hp Hs).
  - subst ord. exact (Permutation_nil Hp).
Qed.

(** ---- the analysis of one new file ---- *)
Section AnalyzeProofs.
  Variable bs : Z.
  Variable force : bool.
  Variable limit : Z.
  Variable tsizes : list Z.

  Definition in_range (i : Z) : Prop := 0 <= i < Z.of_nat (length tsizes).
  Definition keys_in_range (m : list (Z * Z)) : Prop := forall k v, In (k, v) m -> in_range k.

  Lemma fo_add_keys m k v : keys_in_range m -> in_range k -> keys_in_range (fo_add m k v).
  Proof.
    induction m as [|[k' v'] m IH]; intros Hm Hk; cbn [fo_add].
    - intros k0 v0 [E|[]]. inversion E; subst. assumption.
    - destruct (k' =? k) eqn:E.
      + intros k0 v0 [E0|Hin]; [inversion E0; subst; apply (Hm k0 v'); left; reflexivity|].
        apply (Hm k0 v0). right. assumption.
      + intros k0 v0 [E0|Hin]; [inversion E0; subst; apply (Hm k0 v0); left; reflexivity|].
        eapply IH; [|assumption|eassumption]. intros k1 v1 H1. apply (Hm k1 v1). right. assumption.
  Qed.

  Lemma scan_ops_keys : forall ops s s',
    scan_ops bs tsizes ops s = Some s' -> keys_in_range (sm s) -> keys_in_range (sm s').
  Proof.
    induction ops as [|[f b span|len] ops IH]; intros s s'; cbn [scan_ops].
    - intros E; inversion E; subst. auto.
    - destruct (f <? 0) eqn:Ef; [discriminate|].
      destruct (nth_error tsizes (Z.to_nat f)) as [size|] eqn:En; [|discriminate].
      intros E Hk. apply IH in E; [assumption|]. cbn [sm]. apply fo_add_keys; [assumption|].
      assert (Hlt : (Z.to_nat f < length tsizes)%nat) by (apply nth_error_Some; congruence).
      unfold in_range. lia.
    - intros E Hk. apply IH in E; assumption.
  Qed.

  Lemma reused_keys ops m : reused bs tsizes ops = Some m -> keys_in_range m.
  Proof.
    unfold reused. destruct (scan_ops bs tsizes ops scan0) as [s|] eqn:E; [|discriminate].
    intros E'. inversion E'; subst. eapply scan_ops_keys; [eassumption|]. intros k v [].
  Qed.

  (** no panic on a patch whose block ranges name existing old files *)
  Lemma analyze_file_total ssize sp ops ord m :
    reused bs tsizes ops = Some m -> analyze_file bs force limit tsizes ssize sp ops ord <> None.
  Proof.
    unfold reused, analyze_file. destruct (scan_ops bs tsizes ops scan0); [|discriminate].
    intros _. destruct (skipped force ssize s); discriminate.
  Qed.

  Theorem analyze_choice_sound_lemma ssize sp ops ord m i b :
    reused bs tsizes ops = Some m -> Permutation ord m ->
    (forall k, sp = Some k -> in_range k) ->
    analyze_file bs force limit tsizes ssize sp ops ord = Some (Some (i, b)) ->
    in_range i /\ ssize <= limit /\ tsize tsizes i <= limit /\
    ((m <> [] /\ is_choice (same_of sp) m (i, b)) \/
     (m = [] /\ sp = Some i /\ b = 0 /\ 0 < tsize tsizes i)).
  Proof.
    intros Hm Hperm Hsp. pose proof (reused_keys ops m Hm) as Hkeys.
    unfold reused in Hm. unfold analyze_file.
    destruct (scan_ops bs tsizes ops scan0) as [s|]; [|discriminate]. cbn [option_map] in Hm. inversion Hm; subst m; clear Hm.
    destruct (skipped force ssize s); [discriminate|].
    pose proof (select_spec (same_of sp) ord) as Hsel.
    intros E. inversion E as [E1]; clear E. unfold finish in E1.
    destruct (ssize >? limit) eqn:El; [discriminate|].
    destruct (select (same_of sp) ord) as [[ci cb]|] eqn:Es.
    - destruct (tsize tsizes ci >? limit) eqn:Et; [discriminate|]. inversion E1; subst ci cb; clear E1.
      apply (is_choice_perm _ _ _ _ Hperm) in Hsel.
      split; [destruct Hsel as [Hin _]; eapply Hkeys; eassumption|].
      split; [lia|]. split; [lia|]. left. split; [|assumption].
      destruct Hsel as [Hin _]. intros En. rewrite En in Hin. contradiction.
    - subst ord. apply Permutation_nil in Hperm.
      unfold fallback in E1. destruct sp as [k|]; [|discriminate].
      destruct (tsize tsizes k >? 0) eqn:Ek; [|discriminate].
      destruct (tsize tsizes k >? limit) eqn:Et; [discriminate|]. inversion E1; subst k b; clear E1.
      split; [apply Hsp; reflexivity|]. split; [lia|]. split; [lia|]. right. repeat split; [assumption|lia].
  Qed.

  (** the order-free description used by the comparator covers every order *)
  Lemma analyze_in_allowed ssize sp ops ord m r :
    reused bs tsizes ops = Some m -> Permutation ord m ->
    analyze_file bs force limit tsizes ssize sp ops ord = Some r ->
    exists l, analyze_allowed bs force limit tsizes ssize sp ops = Some l /\ In r l.
  Proof.
    intros Hm Hperm. unfold reused in Hm. unfold analyze_file, analyze_allowed.
    destruct (scan_ops bs tsizes ops scan0) as [s|]; [|discriminate]. cbn [option_map] in Hm. inversion Hm; subst m; clear Hm.
    destruct (skipped force ssize s).
    - intros E; inversion E; subst. exists [None]. split; [reflexivity|left; reflexivity].
    - pose proof (select_spec (same_of sp) ord) as Hsel. intros E; inversion E; subst r; clear E.
      destruct (select (same_of sp) ord) as [e|] eqn:Es.
      + apply (is_choice_perm _ _ _ _ Hperm) in Hsel.
        destruct (sm s) as [|x m'] eqn:Em; [destruct Hsel as [[] _]|]. rewrite <- Em in *.
        eexists. split; [reflexivity|].
        apply (in_map (fun e0 => finish limit tsizes ssize (Some e0))). apply filter_In. split; [apply Hsel|].
        apply is_choiceb_true. assumption.
      + subst ord. apply Permutation_nil in Hperm. rewrite Hperm.
        eexists. split; [reflexivity|left; reflexivity].
  Qed.
End AnalyzeProofs.

(** ---- Optimize ---- *)
Section OptimizeProofs.
  Context {Content RSeries BSeries : Type}.
  Variable den_rsync : RSeries -> list Content -> option Content.   (* an rsync series applied to the old build *)
  Variable den_bsdiff : BSeries -> Content -> option Content.       (* a bsdiff series applied to one old file *)
  Variable bsdiff_do : Content -> Content -> BSeries.
  (** C12: the series bsdiff computes from (old, new), applied to old, gives new *)
  Hypothesis bsdiff_roundtrip : forall old new, den_bsdiff (bsdiff_do old new) old = Some new.

  Definition apply_series (olds : list Content) (s : series RSeries BSeries) : option Content :=
    match s with
    | Rsync r => den_rsync r olds
    | Bsdiff t b => if t <? 0 then None
                    else match nth_error olds (Z.to_nat t) with
                         | Some old => den_bsdiff b old
                         | None => None
                         end
    end.
  Definition apply_patch (olds : list Content) (p : list (series RSeries BSeries)) : list (option Content) :=
    map (apply_series olds) p.

  Definition mapping_in_range (olds : list Content) (x : RSeries * Content * option (Z * Z)) : Prop :=
    match snd x with
    | Some (t, _) => 0 <= t < Z.of_nat (length olds)
    | None => True
    end.
  (** C01: the original series of a new file, applied to the old build, gives that file *)
  Definition original_correct (olds : list Content) (x : RSeries * Content * option (Z * Z)) : Prop :=
    den_rsync (fst (fst x)) olds = Some (snd (fst x)).

  Theorem optimize_preserves_lemma olds xs :
    Forall (mapping_in_range olds) xs -> Forall (original_correct olds) xs ->
    exists opt, optimize bsdiff_do olds xs = Some opt /\
                apply_patch olds opt = apply_patch olds (map (fun x => Rsync (fst (fst x))) xs) /\
                apply_patch olds opt = map (fun x => Some (snd (fst x))) xs.
  Proof.
    induction xs as [|[[orig new] mapping] xs IH]; intros Hr Hc.
    - exists []. repeat split.
    - inversion Hr as [|? ? Hr1 Hr2]; subst. inversion Hc as [|? ? Hc1 Hc2]; subst.
      destruct (IH Hr2 Hc2) as (opt & Eo & Ea & En). unfold original_correct in Hc1. cbn [fst snd] in Hc1.
      unfold mapping_in_range in Hr1. cbn [snd] in Hr1.
      cbn [optimize optimize_file]. destruct mapping as [[t b]|].
      + destruct (t <? 0) eqn:Et; [lia|].
        destruct (nth_error olds (Z.to_nat t)) as [old|] eqn:En'.
        2:{ apply nth_error_None in En'. lia. }
        rewrite Eo. eexists. split; [reflexivity|].
        cbn [apply_patch map apply_series fst snd]. rewrite Et, En', bsdiff_roundtrip, Hc1.
        fold (apply_patch olds opt). rewrite En. split; [|reflexivity].
        f_equal. rewrite <- En, Ea. reflexivity.
      + rewrite Eo. eexists. split; [reflexivity|].
        cbn [apply_patch map apply_series fst snd]. rewrite Hc1.
        fold (apply_patch olds opt). rewrite En. split; [|reflexivity].
        f_equal. rewrite <- En, Ea. reflexivity.
  Qed.
End OptimizeProofs.

(** ---- both passes together ---- *)
Section Rediff.
  Context {Content RSeries BSeries : Type}.
  Variable den_rsync : RSeries -> list Content -> option Content.
  Variable den_bsdiff : BSeries -> Content -> option Content.
  Variable bsdiff_do : Content -> Content -> BSeries.
  Hypothesis bsdiff_roundtrip : forall old new, den_bsdiff (bsdiff_do old new) old = Some new.
  Variable bs : Z.
  Variable force : bool.
  Variable limit : Z.
  Variable tsizes : list Z.
  Variable olds : list Content.
  Hypothesis olds_sizes : length olds = length tsizes.

  (** a new file as both passes see it: size, old file of the same path, ops, the order in
      which the Go map happens to be iterated, the series itself, the file's content *)
  Definition file_in := (Z * option Z * list sop * list (Z * Z) * RSeries * Content)%type.

  Definition file_valid (f : file_in) : Prop :=
    let '(ssize, sp, ops, ord, orig, new) := f in
    (exists m, reused bs tsizes ops = Some m /\ Permutation ord m) /\
    (forall k, sp = Some k -> in_range tsizes k) /\
    den_rsync orig olds = Some new.

  Fixpoint analyze_all (fs : list file_in) : option (list (RSeries * Content * option (Z * Z))) :=
    match fs with
    | [] => Some []
    | (ssize, sp, ops, ord, orig, new) :: r =>
      match analyze_file bs force limit tsizes ssize sp ops ord, analyze_all r with
      | Some mapping, Some xs => Some ((orig, new, mapping) :: xs)
      | _, _ => None
      end
    end.

  Theorem rediff_preserves_lemma fs :
    Forall file_valid fs ->
    exists xs opt,
      analyze_all fs = Some xs /\ optimize bsdiff_do olds xs = Some opt /\
      apply_patch den_rsync den_bsdiff olds opt = map (fun f : file_in => Some (snd f)) fs.
  Proof.
    intros Hv.
    assert (Ha : exists xs, analyze_all fs = Some xs /\
                            Forall (mapping_in_range olds) xs /\ Forall (original_correct den_rsync olds) xs /\
                            map (fun x : RSeries * Content * option (Z * Z) => Some (snd (fst x))) xs = map (fun f : file_in => Some (snd f)) fs).
    { induction Hv as [|[[[[[ssize sp] ops] ord] orig] new] fs Hf Hfs IH].
      - exists []. repeat split; constructor.
      - destruct IH as (xs & Ea & Hr & Hc & Em). destruct Hf as ((m & Hm & Hp) & Hsp & Hd).
        cbn [analyze_all]. rewrite Ea.
        destruct (analyze_file bs force limit tsizes ssize sp ops ord) as [mapping|] eqn:E.
        2:{ exfalso. eapply analyze_file_total; eassumption. }
        eexists. split; [reflexivity|]. split; [|split].
        + constructor; [|assumption]. unfold mapping_in_range. cbn [snd].
          destruct mapping as [[t b]|]; [|exact I].
          eapply analyze_choice_sound_lemma in E; try eassumption.
          destruct E as [Hi _]. unfold in_range in Hi. rewrite olds_sizes. assumption.
        + constructor; assumption.
        + cbn [map fst snd]. rewrite Em. reflexivity. }
    destruct Ha as (xs & Ea & Hr & Hc & Em).
    destruct (optimize_preserves_lemma den_rsync den_bsdiff bsdiff_do bsdiff_roundtrip olds xs Hr Hc) as (opt & Eo & _ & En).
    exists xs, opt. split; [assumption|]. split; [assumption|]. rewrite En. assumption.
  Qed.
End Rediff.
