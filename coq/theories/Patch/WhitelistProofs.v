(** C17: a run with a whitelist against the full run of the same patch. *)
From Coq Require Import ZifyBool ZifyNat.
From Wharf Require Import Base.Prelude Bowl.Fresh Bowl.FreshProofs Patch.Reinterp Patch.ReinterpProofs
     Patch.Stream Patch.Patcher Patch.Whitelist Patch.ApplyProofs Patch.PatcherProofs.
Local Open Scope Z_scope.

Section Whitelist.
  Variables (bs : Z) (oldC newC : container) (olds : list (list byte)) (W : list Z).
  Hypothesis WF : wf_container newC.

  Let files := c_files newC.
  Let ND : NoDup (map fst files) := files_nodup newC WF.

  (** the full run's tree [tf] and the whitelisted run's tree [tw] before file [i]: every
      file is ready in both, and the files still to come and the selected ones agree *)
  Definition G (i : Z) (tf tw : tree) : Prop :=
    (forall j pj szj, znth files j = Some (pj, szj) -> file_ready tf pj /\ file_ready tw pj) /\
    (forall j pj szj, znth files j = Some (pj, szj) -> (i <= j \/ wl_mem W j = true) -> tlookup tf pj = tlookup tw pj).

  Let process := process_file bs oldC newC olds.

  Lemma process_rel p idx sz t10 t20 tr1 tr2 kind ms s1 s2 r s1' :
    znth files idx = Some (p, sz) -> file_ready t10 p -> file_ready t20 p ->
    srel p idx t10 t20 tr1 tr2 s1 s2 -> process kind idx ms s1 = Ok (r, s1') ->
    exists s2', process kind idx ms s2 = Ok (r, s2') /\ srel p idx t10 t20 tr1 tr2 s1' s2'.
  Proof.
    intros Hi R1 R2 Hs H. unfold process, process_file in *. destruct (kind =? SH_RSYNC).
    - eapply process_rsync_rel; eassumption.
    - eapply process_bsdiff_rel; eassumption.
  Qed.

  Lemma process_skip kind idx ms s r s' :
    (kind =? SH_RSYNC) || (kind =? SH_BSDIFF) = true ->
    process kind idx ms s = Ok (r, s') -> skip_file kind ms = Ok r.
  Proof.
    intros Hk H. unfold process, process_file, skip_file in *.
    destruct (Z.eqb_spec kind SH_RSYNC) as [->|Hn].
    - cbn. eapply process_rsync_skip; eassumption.
    - cbn [orb] in Hk. rewrite Hk. eapply process_bsdiff_skip; eassumption.
  Qed.

  Lemma run_rel k : forall i ms sf sw tchf tchw sf' tchf',
    0 <= i -> i + Z.of_nat k = Z.of_nat (length files) ->
    G i (p_tree sf) (p_tree sw) ->
    run_files bs oldC newC olds None k i ms sf tchf = Ok (sf', tchf') ->
    exists sw' segs,
      run_files bs oldC newC olds (Some W) k i ms sw tchw = Ok (sw', tchw + wl_count W i k) /\
      tchf' = tchf + Z.of_nat k /\
      G (i + Z.of_nat k) (p_tree sf') (p_tree sw') /\
      length segs = k /\
      p_trace sf' = p_trace sf ++ concat segs /\
      p_trace sw' = p_trace sw ++ wl_select W i segs /\
      (forall m seg, nth_error segs m = Some seg -> Forall (bowl_ev_for (i + Z.of_nat m)) seg).
  Proof.
    induction k as [|k IH]; intros i ms sf sw tchf tchw sf' tchf' Hi Hn HG H.
    - cbn [run_files] in *. injection H as <- <-. exists sw, []. cbn [wl_count wl_select concat length].
      rewrite !Z.add_0_r, !app_nil_r.
      split; [reflexivity|]. split; [reflexivity|]. split; [exact HG|]. split; [reflexivity|]. split; [reflexivity|]. split; [reflexivity|].
      intros [|m] seg; discriminate.
    - cbn [run_files] in *. destruct ms as [|m ms]; [discriminate|].
      destruct (Z.eqb_spec (sh_file (as_sh m)) i) as [Efi|]; cbn [negb] in *; [|discriminate].
      destruct ((sh_type (as_sh m) =? SH_RSYNC) || (sh_type (as_sh m) =? SH_BSDIFF)) eqn:Ekind; cbn [negb] in *; [|discriminate].
      cbn [wl_skip] in *. rewrite Efi. fold (wl_mem W i).
      fold process in H.
      destruct (process (sh_type (as_sh m)) i ms sf) as [[r sf1]| |] eqn:Ep; cbn [bind fst snd] in H; try discriminate.
      (* file i exists *)
      destruct (znth_in_range files i) as [[p sz] Hfile]; [lia|].
      destruct HG as [HGr HGa].
      destruct (HGr i p sz Hfile) as [Rf Rw].
      (* what processing did to the full run's state *)
      destruct sf as [tf trf]. destruct sw as [tw trw]. cbn [p_tree p_trace] in *.
      destruct (process_rel p i sz tf tf trf trf _ ms _ _ r sf1 Hfile Rf Rf (srel_refl p i tf trf Rf) Ep) as (sf1' & Ep' & Hself).
      rewrite Ep in Ep'. injection Ep' as <-.
      destruct Hself as ((d1 & Hd1 & _) & Frf & _ & (e & Etr & _ & Hall)).
      assert (Hother : forall j pj szj, znth files j = Some (pj, szj) -> j <> i -> pj <> p).
      { intros j pj szj Hj Hne ->. apply Hne. eapply znth_NoDup_fst; eassumption. }
      assert (Rf1 : forall j pj szj, znth files j = Some (pj, szj) -> file_ready (p_tree sf1) pj).
      { intros j pj szj Hj. apply (file_ready_frame tf _ p pj); [apply (HGr j pj szj Hj)|assumption|apply Rf|exists d1; assumption]. }
      destruct (wl_mem W i) eqn:EW; cbn [negb].
      + (* selected: the whitelisted run processes it the same way *)
        assert (Hs0 : srel p i tf tw trf trw (mkP tf trf) (mkP tw trw)).
        { destruct Rf as (_ & _ & d & Hd). unfold srel. cbn [p_tree p_trace]. repeat split; try reflexivity.
          - exists d. split; [assumption|]. rewrite <- (HGa i p sz Hfile) by (left; lia). assumption.
          - exists []. rewrite !app_nil_r. repeat split. constructor. }
        destruct (process_rel p i sz tf tw trf trw _ ms _ _ r sf1 Hfile Rf Rw Hs0 Ep) as (sw1 & Epw & Hs1).
        fold process. rewrite Epw. cbn [bind fst snd].
        destruct Hs1 as ((d & Hdf & Hdw) & Ff & Fw & (e' & Etrf & Etrw & Hall')).
        assert (e' = e) by (rewrite Etr in Etrf; apply app_inv_head in Etrf; symmetry; assumption). subst e'.
        assert (HG1 : G (i + 1) (p_tree sf1) (p_tree sw1)).
        { split.
          - intros j pj szj Hj. split; [eapply Rf1; eassumption|].
            apply (file_ready_frame tw _ p pj); [apply (HGr j pj szj Hj)|assumption|apply Rw|exists d; assumption].
          - intros j pj szj Hj Hsel. destruct (Z.eq_dec j i) as [->|Hne].
            + rewrite Hfile in Hj. injection Hj as <- <-. rewrite Hdf, Hdw. reflexivity.
            + pose proof (Hother j pj szj Hj Hne) as Hp. rewrite Ff, Fw by assumption.
              apply (HGa j pj szj Hj). destruct Hsel as [Hsel|Hsel]; [left; lia|right; assumption]. }
        destruct (IH (i + 1) r sf1 sw1 (tchf + 1) (tchw + 1) sf' tchf') as (sw' & segs & Hrun & Htch & HG' & Hlen & Htrf & Htrw & Hsegs);
          [lia|lia|assumption|assumption|].
        exists sw', (e :: segs). cbn [wl_count wl_select concat length]. rewrite EW.
        split; [rewrite Hrun; f_equal; f_equal; lia|]. split; [lia|]. split; [replace (i + Z.of_nat (S k)) with (i + 1 + Z.of_nat k) by lia; assumption|].
        split; [lia|]. split; [rewrite Htrf, Etr, <- app_assoc; reflexivity|]. split; [rewrite Htrw, Etrw, <- app_assoc; reflexivity|].
        intros [|m'] seg Hseg; cbn [nth_error] in Hseg.
        * injection Hseg as <-. rewrite Z.add_0_r. assumption.
        * replace (i + Z.of_nat (S m')) with (i + 1 + Z.of_nat m') by lia. eapply Hsegs; eassumption.
      + (* not selected: the whitelisted run skips exactly what the full run consumed *)
        rewrite (process_skip _ _ _ _ _ _ Ekind Ep). cbn [bind].
        assert (HG1 : G (i + 1) (p_tree sf1) tw).
        { split.
          - intros j pj szj Hj. split; [eapply Rf1; eassumption|apply (HGr j pj szj Hj)].
          - intros j pj szj Hj Hsel. assert (Hne : j <> i).
            { intros ->. destruct Hsel as [Hsel|Hsel]; [lia|rewrite EW in Hsel; discriminate]. }
            rewrite Frf by (eapply Hother; eassumption).
            apply (HGa j pj szj Hj). destruct Hsel as [Hsel|Hsel]; [left; lia|right; assumption]. }
        destruct (IH (i + 1) r sf1 (mkP tw trw) (tchf + 1) tchw sf' tchf') as (sw' & segs & Hrun & Htch & HG' & Hlen & Htrf & Htrw & Hsegs);
          [lia|lia|assumption|assumption|].
        exists sw', (e :: segs). cbn [wl_count wl_select concat length app]. rewrite EW. cbn [app].
        split; [rewrite Hrun; f_equal; f_equal; lia|]. split; [lia|]. split; [replace (i + Z.of_nat (S k)) with (i + 1 + Z.of_nat k) by lia; assumption|].
        split; [lia|]. split; [rewrite Htrf, Etr, <- app_assoc; reflexivity|]. split; [assumption|].
        intros [|m'] seg Hseg; cbn [nth_error] in Hseg.
        * injection Hseg as <-. rewrite Z.add_0_r. assumption.
        * replace (i + Z.of_nat (S m')) with (i + 1 + Z.of_nat m') by lia. eapply Hsegs; eassumption.
  Qed.

  (** C17 on the model: if the patch applies in full, it applies under any whitelist, touches
      exactly the selected indices, logs exactly the selected files' share of the full run's
      calls, and leaves every selected file as full application does *)
  Theorem whitelist_exact_lemma ms t touched trace :
    apply_fresh bs oldC newC olds None ms = Ok (t, touched, trace) ->
    exists tW segs,
      apply_fresh bs oldC newC olds (Some W) ms = Ok (tW, wl_count W 0 (length files), wl_select W 0 segs) /\
      touched = Z.of_nat (length files) /\
      length segs = length files /\ trace = concat segs /\
      (forall i seg, nth_error segs i = Some seg -> Forall (bowl_ev_for (Z.of_nat i)) seg) /\
      (forall i p sz, wl_mem W i = true -> znth files i = Some (p, sz) -> tlookup tW p = tlookup t p).
  Proof.
    unfold apply_fresh. destruct (prepare_spec newC WF) as (t0 & E0 & H0). rewrite E0. cbn [bind].
    destruct (run_files bs oldC newC olds None (length (c_files newC)) 0 ms (mkP t0 []) 0) as [[sf' tchf']| |] eqn:Er; cbn [bind fst snd]; try discriminate.
    intros [= <- <- <-].
    assert (HG0 : G 0 t0 t0).
    { split; [|reflexivity]. intros j pj szj Hj. destruct (prepared_ready newC t0 j pj szj WF H0 Hj) as [R _]. split; assumption. }
    destruct (run_rel (length files) 0 ms (mkP t0 []) (mkP t0 []) 0 0 sf' tchf') as (sw' & segs & Hrun & Htch & HG' & Hlen & Htrf & Htrw & Hsegs);
      [lia|lia|exact HG0|exact Er|].
    exists (p_tree sw'), segs. fold files. rewrite Hrun. cbn [bind fst snd p_trace app] in *.
    rewrite Htrw. split; [rewrite Z.add_0_l; reflexivity|].
    split; [lia|]. split; [assumption|]. split; [assumption|]. split.
    - intros i seg Hseg. specialize (Hsegs i seg Hseg). rewrite Z.add_0_l in Hsegs. assumption.
    - intros i p sz HW Hi. symmetry. apply (proj2 HG' i p sz Hi). right. assumption.
  Qed.
End Whitelist.

(** bowl calls of the selected part of a segmented trace name selected files only *)
Definition ev_selected (W : list Z) (e : event) : Prop :=
  match e with EvWriter i => wl_mem W i = true | EvTranspose i _ => wl_mem W i = true | _ => True end.

Lemma select_only_selected W segs : forall i,
  (forall m seg, nth_error segs m = Some seg -> Forall (bowl_ev_for (i + Z.of_nat m)) seg) ->
  Forall (ev_selected W) (wl_select W i segs).
Proof.
  induction segs as [|s segs IH]; intros i H; cbn [wl_select]; [constructor|].
  apply Forall_app. split.
  - destruct (wl_mem W i) eqn:E; [|constructor].
    specialize (H 0%nat s eq_refl). rewrite Z.add_0_r in H.
    eapply Forall_impl; [|exact H]. intros [j|j t|j|j]; cbn [bowl_ev_for ev_selected]; try trivial; intros ->; assumption.
  - apply IH. intros m seg Hm. replace (i + 1 + Z.of_nat m) with (i + Z.of_nat (S m)) by lia. apply H. exact Hm.
Qed.

(** the defect repaired by repo commit 261a579, on the skip function as it was: a bsdiff series
    against old file #2049 is left after its header (the patcher then read the series' first
    Control as the next file's sync header) *)
Lemma skip_v0_desync_lemma :
  let series := [MBH (mkBH 2049); MCT (mkCT [1%N] [] 0 false); MCT (mkCT [] [] 0 true); hey_msg] in
  skip_file_v0 SH_BSDIFF series = Ok [MCT (mkCT [1%N] [] 0 false); MCT (mkCT [] [] 0 true); hey_msg] /\
  skip_file SH_BSDIFF series = Ok [].
Proof. vm_compute. split; reflexivity. Qed.

Lemma select_only_selected0 W segs :
  (forall i seg, nth_error segs i = Some seg -> Forall (bowl_ev_for (Z.of_nat i)) seg) ->
  Forall (ev_selected W) (wl_select W 0 segs).
Proof. intros H. apply select_only_selected. intros m seg Hm. rewrite Z.add_0_l. apply H. exact Hm. Qed.
