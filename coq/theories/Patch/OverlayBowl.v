(** The entry writers of the overlay bowl (bowl_overlay.go [GetWriter]): a source file whose
    path exists in the old build is written through an [overlayEntryWriter] (an overlay stream
    in the stage folder, applied to the old file at Commit), any other source file through a
    [freshEntryWriter] on a stage file that Commit moves into place.  The dispatch is modelled
    here; the contract of Patch/ResumeProofs.v for the dispatching writer follows from the
    contracts of its two halves: Patch/PlainWriter.v proves the one for [freshEntryWriter],
    the one for [overlayEntryWriter] (writer 2 below) is C14's "sessions" statement: after
    Flush the stream written so far decodes to the bytes written so far, a new session opened
    at the saved (ReadOffset, OverlayOffset) on a file that agrees up to OverlayOffset
    continues it, and the end marker makes anything after it irrelevant. *)
From Wharf Require Import Base.Prelude Patch.Resume Patch.ResumeProofs Patch.PlainWriter.

Section Dispatch.
  Variables D C RAW WS1 WS2 WCK1 WCK2 : Type.
  Variable sel : N -> bool.                      (* true: writer 2 (overlay), false: writer 1 (plain) *)
  Variable o1 : N -> option (N * WCK1) -> RAW -> option (WS1 * RAW).
  Variable o2 : N -> option (N * WCK2) -> RAW -> option (WS2 * RAW).
  Variable wr1 : N -> WS1 -> RAW -> D -> WS1 * RAW.
  Variable wr2 : N -> WS2 -> RAW -> D -> WS2 * RAW.
  Variable sv1 : N -> WS1 -> RAW -> (N * WCK1) * WS1 * RAW.
  Variable sv2 : N -> WS2 -> RAW -> (N * WCK2) * WS2 * RAW.
  Variable fi1 : N -> WS1 -> RAW -> RAW.
  Variable fi2 : N -> WS2 -> RAW -> RAW.
  Variable te1 : WS1 -> N.
  Variable te2 : WS2 -> N.
  Variable re1 re2 : N -> RAW -> option C.

  Definition lift1 (x : option (WS1 * RAW)) : option ((WS1 + WS2) * RAW) :=
    match x with Some (w, r) => Some (inl w, r) | None => None end.
  Definition lift2 (x : option (WS2 * RAW)) : option ((WS1 + WS2) * RAW) :=
    match x with Some (w, r) => Some (inr w, r) | None => None end.

  Definition d_open (f : N) (c : option (N * (WCK1 + WCK2))) (raw : RAW) : option ((WS1 + WS2) * RAW) :=
    if sel f then
      match c with
      | None => lift2 (o2 f None raw)
      | Some (o, inr k) => lift2 (o2 f (Some (o, k)) raw)
      | Some (_, inl _) => None                 (* "invalid checkpoint for overlayEntryWriter" *)
      end
    else
      match c with
      | None => lift1 (o1 f None raw)
      | Some (o, inl k) => lift1 (o1 f (Some (o, k)) raw)
      | Some (o, inr _) => None
      end.

  Definition d_write (f : N) (w : WS1 + WS2) (raw : RAW) (d : D) : (WS1 + WS2) * RAW :=
    match w with
    | inl w1 => (inl (fst (wr1 f w1 raw d)), snd (wr1 f w1 raw d))
    | inr w2 => (inr (fst (wr2 f w2 raw d)), snd (wr2 f w2 raw d))
    end.

  Definition d_save (f : N) (w : WS1 + WS2) (raw : RAW) : (N * (WCK1 + WCK2)) * (WS1 + WS2) * RAW :=
    match w with
    | inl w1 => let '(c, w', r') := sv1 f w1 raw in ((fst c, inl (snd c)), inl w', r')
    | inr w2 => let '(c, w', r') := sv2 f w2 raw in ((fst c, inr (snd c)), inr w', r')
    end.

  Definition d_final (f : N) (w : WS1 + WS2) (raw : RAW) : RAW :=
    match w with inl w1 => fi1 f w1 raw | inr w2 => fi2 f w2 raw end.
  Definition d_tell (w : WS1 + WS2) : N := match w with inl w1 => te1 w1 | inr w2 => te2 w2 end.
  Definition d_result (f : N) (raw : RAW) : option C := if sel f then re2 f raw else re1 f raw.

  (** ghost notions *)
  Variable dlen : D -> N.
  Variables tsize ssize : N -> N.
  Variable prepare : N -> RAW -> RAW.
  Variable copy_old : N -> RAW.
  Variable old_content : N -> C.
  Variable capp : C -> D -> C.
  Variable cnil : C.
  Variable abs1 : N -> WS1 -> RAW -> C.
  Variable abs2 : N -> WS2 -> RAW -> C.
  Variable inv1 : N -> WS1 -> RAW -> Prop.
  Variable inv2 : N -> WS2 -> RAW -> Prop.
  Variable ok1 ok2 : N -> RAW -> Prop.
  Variable cov1 : N -> N * WCK1 -> RAW -> RAW -> Prop.
  Variable cov2 : N -> N * WCK2 -> RAW -> RAW -> Prop.
  Variable fin1 fin2 : N -> RAW -> C -> Prop.

  Definition d_abs (f : N) (w : WS1 + WS2) (raw : RAW) : C :=
    match w with inl w1 => abs1 f w1 raw | inr w2 => abs2 f w2 raw end.
  Definition d_inv (f : N) (w : WS1 + WS2) (raw : RAW) : Prop :=
    match w with inl w1 => sel f = false /\ inv1 f w1 raw | inr w2 => sel f = true /\ inv2 f w2 raw end.
  Definition d_raw_ok (f : N) (raw : RAW) : Prop := if sel f then ok2 f raw else ok1 f raw.
  Definition d_covers (f : N) (c : N * (WCK1 + WCK2)) (raw raw2 : RAW) : Prop :=
    match snd c with
    | inl k => sel f = false /\ cov1 f (fst c, k) raw raw2
    | inr k => sel f = true /\ cov2 f (fst c, k) raw raw2
    end.
  Definition d_finished (f : N) (raw : RAW) (c : C) : Prop := if sel f then fin2 f raw c else fin1 f raw c.

  Hypothesis H1 : writer_ok D C RAW WS1 WCK1 dlen tsize ssize o1 wr1 sv1 fi1 te1 re1 false prepare copy_old old_content
                            capp cnil abs1 inv1 ok1 cov1 fin1.
  Hypothesis H2 : writer_ok D C RAW WS2 WCK2 dlen tsize ssize o2 wr2 sv2 fi2 te2 re2 false prepare copy_old old_content
                            capp cnil abs2 inv2 ok2 cov2 fin2.

  Lemma dispatch_writer_ok :
    writer_ok D C RAW (WS1 + WS2) (WCK1 + WCK2) dlen tsize ssize d_open d_write d_save d_final d_tell d_result false
              prepare copy_old old_content capp cnil d_abs d_inv d_raw_ok d_covers d_finished.
  Proof.
    constructor.
    - intros f raw Hok. unfold d_raw_ok, d_open in *. destruct (sel f) eqn:Es.
      + destruct (W_open_new _ _ _ _ _ _ _ _ _ _ _ _ _ _ _ _ _ _ _ _ _ _ _ _ _ H2 f raw Hok) as (w & raw' & E & I & A & T).
        exists (inr w), raw'. rewrite E. simpl. repeat split; auto.
      + destruct (W_open_new _ _ _ _ _ _ _ _ _ _ _ _ _ _ _ _ _ _ _ _ _ _ _ _ _ H1 f raw Hok) as (w & raw' & E & I & A & T).
        exists (inl w), raw'. rewrite E. simpl. repeat split; auto.
    - intros f w raw d Hinv. destruct w as [w|w]; simpl in *; destruct Hinv as (Es & Hinv).
      + destruct (W_write _ _ _ _ _ _ _ _ _ _ _ _ _ _ _ _ _ _ _ _ _ _ _ _ _ H1 f w raw d Hinv) as (A & B & C0). repeat split; auto.
      + destruct (W_write _ _ _ _ _ _ _ _ _ _ _ _ _ _ _ _ _ _ _ _ _ _ _ _ _ H2 f w raw d Hinv) as (A & B & C0). repeat split; auto.
    - intros f w raw Hinv. destruct w as [w|w]; simpl in *; destruct Hinv as (Es & Hinv).
      + pose proof (W_save _ _ _ _ _ _ _ _ _ _ _ _ _ _ _ _ _ _ _ _ _ _ _ _ _ H1 f w raw Hinv) as HS.
        destruct (sv1 f w raw) as [[c w'] raw']. destruct HS as (A & B & C0 & E & Hop). simpl.
        repeat split; auto. intros raw2 Hc Hok. unfold d_covers in Hc. simpl in Hc. destruct Hc as (_ & Hc).
        unfold d_raw_ok in Hok. rewrite Es in Hok.
        replace (fst c, snd c) with c in Hc by now destruct c.
        destruct (Hop raw2 Hc Hok) as (w2 & raw2' & Eo & I2 & A2 & T2).
        exists (inl w2), raw2'. unfold d_open. rewrite Es.
        replace (Some (fst c, snd c)) with (Some c) by now destruct c. rewrite Eo. simpl. repeat split; auto.
      + pose proof (W_save _ _ _ _ _ _ _ _ _ _ _ _ _ _ _ _ _ _ _ _ _ _ _ _ _ H2 f w raw Hinv) as HS.
        destruct (sv2 f w raw) as [[c w'] raw']. destruct HS as (A & B & C0 & E & Hop). simpl.
        repeat split; auto. intros raw2 Hc Hok. unfold d_covers in Hc. simpl in Hc. destruct Hc as (_ & Hc).
        unfold d_raw_ok in Hok. rewrite Es in Hok.
        replace (fst c, snd c) with c in Hc by now destruct c.
        destruct (Hop raw2 Hc Hok) as (w2 & raw2' & Eo & I2 & A2 & T2).
        exists (inr w2), raw2'. unfold d_open. rewrite Es.
        replace (Some (fst c, snd c)) with (Some c) by now destruct c. rewrite Eo. simpl. repeat split; auto.
    - intros f w raw Hinv Ht. unfold d_finished. destruct w as [w|w]; simpl in *; destruct Hinv as (Es & Hinv); rewrite Es.
      + apply (W_final _ _ _ _ _ _ _ _ _ _ _ _ _ _ _ _ _ _ _ _ _ _ _ _ _ H1); auto.
      + apply (W_final _ _ _ _ _ _ _ _ _ _ _ _ _ _ _ _ _ _ _ _ _ _ _ _ _ H2); auto.
    - intros f raw c Hf. unfold d_finished, d_result in *. destruct (sel f).
      + apply (W_result _ _ _ _ _ _ _ _ _ _ _ _ _ _ _ _ _ _ _ _ _ _ _ _ _ H2); auto.
      + apply (W_result _ _ _ _ _ _ _ _ _ _ _ _ _ _ _ _ _ _ _ _ _ _ _ _ _ H1); auto.
    - discriminate.
    - discriminate.
    - discriminate.
    - discriminate.
  Qed.
End Dispatch.

(** the overlay bowl: staged new files through [freshEntryWriter] (proved), patched old files
    through an overlay entry writer satisfying the contract (C14) *)
Lemma overlay_bowl_writer_ok :
  forall (WS2 WCK2 : Type) (is_overlay : N -> bool) (tsize ssize : N -> N) (old : N -> list byte)
         (o2 : N -> option (N * WCK2) -> list byte -> option (WS2 * list byte))
         (wr2 : N -> WS2 -> list byte -> list byte -> WS2 * list byte)
         (sv2 : N -> WS2 -> list byte -> (N * WCK2) * WS2 * list byte)
         (fi2 : N -> WS2 -> list byte -> list byte) (te2 : WS2 -> N) (re2 : N -> list byte -> option (list byte))
         (abs2 : N -> WS2 -> list byte -> list byte) (inv2 : N -> WS2 -> list byte -> Prop) (ok2 : N -> list byte -> Prop)
         (cov2 : N -> N * WCK2 -> list byte -> list byte -> Prop) (fin2 : N -> list byte -> list byte -> Prop),
    (forall t, length (old t) = N.to_nat (tsize t)) ->
    writer_ok (list byte) (list byte) (list byte) WS2 WCK2 (fun d => N.of_nat (length d)) tsize ssize o2 wr2 sv2 fi2 te2 re2 false
              (p_prepare ssize) (p_copy_old old) old (fun c d => c ++ d) [] abs2 inv2 ok2 cov2 fin2 ->
    writer_ok (list byte) (list byte) (list byte) (N + WS2) (unit + WCK2) (fun d => N.of_nat (length d)) tsize ssize
              (d_open _ _ _ _ _ is_overlay p_open o2) (d_write _ _ _ _ p_write wr2) (d_save _ _ _ _ _ p_save sv2)
              (d_final _ _ _ p_final fi2) (d_tell _ _ p_tell te2) (d_result _ _ is_overlay p_result re2) false
              (p_prepare ssize) (p_copy_old old) old (fun c d => c ++ d) []
              (d_abs _ _ _ _ p_abs abs2) (d_inv _ _ _ is_overlay (p_inv ssize) inv2) (d_raw_ok _ is_overlay (p_raw_ok ssize) ok2)
              (d_covers _ _ _ is_overlay p_covers cov2) (d_finished _ _ is_overlay (p_finished ssize) fin2).
Proof.
  intros. apply dispatch_writer_ok; auto. apply plain_writer_ok; auto.
Qed.
